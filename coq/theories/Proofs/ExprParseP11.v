(* Proofs/ExprParseP11.v -- C13, part 3: shapes of to_py / dtree_of; joining; interleaved children. *)
From Coq Require Import List Bool String Ascii ZArith NArith QArith Arith Lia.
Import ListNotations.
From DA Require Import Model.PyExpr Model.ExprPrint Model.ExprParse Model.ExprAst Model.ExprRoundtrip
  Proofs.ExprParseP1 Proofs.ExprParseP2 Proofs.ExprParseP10.
Local Close Scope Q_scope.
Local Open Scope string_scope.
Local Open Scope bool_scope.
Local Open Scope list_scope.

(* ------------------------------------------------------------------ to_py *)
Lemma to_py_false_flag e : snd (to_py false e) = false.
Proof. destruct e as [n|v|vs|kvs|op i m p args]; try reflexivity.
  destruct args as [|a [|b l]]; cbn [to_py]; try reflexivity.
  - destruct (to_py false a) as [s0 p0]. destruct i; [reflexivity|]. destruct m; reflexivity.
  - destruct i; [reflexivity|]. destruct m; [|reflexivity]. cbn [map]. destruct (to_py false a). reflexivity. Qed.

Lemma tp_unary want op m p a :
  to_py want (EOp op true m p [a]) =
  (let text := op_tok op :: paren (fst (to_py false a)) in if want then (paren text, true) else (text, false)).
Proof. cbn [to_py]. pose proof (to_py_false_flag a) as F. destruct (to_py false a) as [s0 p0]. simpl in F. subst p0. reflexivity. Qed.

Lemma tp_inline want op m p a b more :
  to_py want (EOp op true m p (a :: b :: more)) =
  (let result := join_with [op_tok op] (map (fun x => fst (to_py true x)) (a :: b :: more)) in
   if want then (paren result, true) else (result, false)).
Proof. reflexivity. Qed.

Definition recv_toks (a0 : expr) : list tok :=
  if is_col a0 then fst (to_py false a0) else paren (fst (to_py false a0)).

Lemma tp_method want op p a0 rest :
  to_py want (EOp op false true p (a0 :: rest)) =
  (recv_toks a0 ++ TSym "." :: op_tok op :: TSym "(" :: join_with [TSym ","] (map (fun x => fst (to_py false x)) rest) ++ [TSym ")"], false).
Proof. unfold recv_toks. pose proof (to_py_false_flag a0) as F. destruct rest as [|b rest]; cbn [to_py map].
  - destruct (to_py false a0) as [s0 p0]. simpl in F. subst p0. reflexivity.
  - destruct (to_py false a0) as [s0 p0]. simpl in F. subst p0. cbn [fst orb]. rewrite map_map. reflexivity. Qed.

Lemma tp_fn want op p args :
  to_py want (EOp op false false p args) =
  (op_tok op :: TSym "(" :: join_with [TSym ","] (map (fun x => fst (to_py false x)) args) ++ [TSym ")"], false).
Proof. destruct args as [|a [|b l]]; cbn [to_py map]; try reflexivity.
  - destruct (to_py false a) as [s0 p0]. reflexivity.
  - rewrite map_map. reflexivity. Qed.

(* ------------------------------------------------------------------ dtree_of *)
Lemma dt_unary want op m p a :
  dtree_of want (EOp op true m p [a]) = par_when want (DFactor op (DPar (dtree_of false a))).
Proof. reflexivity. Qed.

Lemma dt_chain want op m p a b more : (op ==s "**") = false ->
  dtree_of want (EOp op true m p (a :: b :: more)) =
  par_when want (DChain (binop_level op) (dtree_of true a) (map (fun x => (op, dtree_of true x)) (b :: more))).
Proof. intros H. cbn [dtree_of]. rewrite H. reflexivity. Qed.

Lemma dt_pow want m p a b :
  dtree_of want (EOp "**" true m p [a; b]) = par_when want (DPower (dtree_of true a) (dtree_of true b)).
Proof. reflexivity. Qed.

Definition recv_tree (a0 : expr) : dtree := par_when (negb (is_col a0)) (dtree_of false a0).

Lemma dt_method want op p a0 rest :
  dtree_of want (EOp op false true p (a0 :: rest)) = DCall (DAttr (recv_tree a0) op) (map (dtree_of false) rest) false.
Proof. destruct rest; reflexivity. Qed.

Lemma dt_fn want op p args :
  dtree_of want (EOp op false false p args) = DCall (DName op) (map (dtree_of false) args) false.
Proof. destruct args as [|a [|b l]]; reflexivity. Qed.

(* ------------------------------------------------------------------ joining *)
Lemma commas_join parts : commas parts false = join_with [TSym ","] parts.
Proof. induction parts as [|p [|q parts] IH]; [reflexivity|simpl; apply app_nil_r|].
  change (commas (p :: q :: parts) false) with (p ++ TSym "," :: commas (q :: parts) false).
  change (join_with [TSym ","] (p :: q :: parts)) with (p ++ [TSym ","] ++ join_with [TSym ","] (q :: parts)).
  rewrite IH. reflexivity. Qed.

Lemma join_flat t p0 ps : join_with [t] (p0 :: ps) = p0 ++ flat_map (fun p => t :: p) ps.
Proof. revert p0. induction ps as [|q ps IH]; intros p0; [simpl; symmetry; apply app_nil_r|].
  change (join_with [t] (p0 :: q :: ps)) with (p0 ++ [t] ++ join_with [t] (q :: ps)). rewrite IH. reflexivity. Qed.

Lemma op_tok_sym op : is_sym_text op = true -> op_tok op = TSym op.
Proof. unfold op_tok, is_sym_text. intros H. rewrite H. reflexivity. Qed.
Lemma op_tok_name op : is_sym_text op = false -> op_tok op = TName op.
Proof. unfold op_tok, is_sym_text. intros H. rewrite H. reflexivity. Qed.

Lemma kops_sym op : mem_str op kops = true -> is_sym_text op = true /\ (op ==s "**") = false.
Proof. intros H. apply mem_str_In in H. simpl in H. destruct H as [<-|[<-|[<-|[<-|[]]]]]; split; reflexivity. Qed.
Lemma bin2_sym op : mem_str op bin2_ops = true -> is_sym_text op = true.
Proof. intros H. apply mem_str_In in H. simpl in H.
  destruct H as [<-|[<-|[<-|[<-|[<-|[<-|[<-|[<-|[<-|[<-|[<-|[<-|[]]]]]]]]]]]]]; reflexivity. Qed.

(* ------------------------------------------------------------------ interleaved children of a chain node *)
Definition inter (op : string) (ts : list ltree) : list ltree := flat_map (fun t => [LTok (TSym op); t]) ts.

Lemma evens_inter op t0 ts : evens (t0 :: inter op ts) = t0 :: ts.
Proof. revert t0. induction ts as [|t ts IH]; intros t0; [reflexivity|].
  change (inter op (t :: ts)) with (LTok (TSym op) :: t :: inter op ts). rewrite evens_cons2, IH. reflexivity. Qed.

Lemma odds_inter op t0 ts : odds (t0 :: inter op ts) = map (fun _ => LTok (TSym op)) ts.
Proof. revert t0. induction ts as [|t ts IH]; intros t0; [reflexivity|].
  change (inter op (t :: ts)) with (LTok (TSym op) :: t :: inter op ts). rewrite odds_cons2, IH. reflexivity. Qed.

Lemma length_inter op ts : List.length (inter op ts) = 2 * List.length ts.
Proof. induction ts as [|t ts IH]; [reflexivity|]. change (inter op (t :: ts)) with (LTok (TSym op) :: t :: inter op ts).
  simpl List.length. rewrite IH. lia. Qed.

Lemma flat_map_keep op (rest : list expr) (f : expr -> ltree) :
  flat_map (fun p : string * ltree => [LTok (TSym (fst p)); snd p]) (map (fun x => (op, f x)) rest) = inter op (map f rest).
Proof. induction rest as [|x rest IH]; [reflexivity|]. simpl. rewrite IH. reflexivity. Qed.

Lemma flat_map_drop op (rest : list expr) (f : expr -> ltree) :
  flat_map (fun p : string * ltree => [snd p]) (map (fun x => (op, f x)) rest) = map f rest.
Proof. induction rest as [|x rest IH]; [reflexivity|]. simpl. rewrite IH. reflexivity. Qed.

Lemma all_some_repeat {A} (x : A) n : all_some (repeat (Some x) n) = Some (repeat x n).
Proof. induction n as [|n IH]; [reflexivity|]. cbn [repeat all_some]. rewrite IH. reflexivity. Qed.

Lemma forallb_repeat_eqb op n : forallb (String.eqb op) (repeat op n) = true.
Proof. induction n as [|n IH]; [reflexivity|]. cbn [repeat forallb]. rewrite String.eqb_refl, IH. reflexivity. Qed.

Lemma kopsel_repeat op n : mem_str op ["+"; "*"] = true -> kopsel (repeat (Some op) (S n)) = Some op.
Proof. intros Hm. unfold kopsel. rewrite all_some_repeat. unfold all_same. cbn [repeat].
  rewrite forallb_repeat_eqb, Hm. reflexivity. Qed.

Lemma map_const_repeat {A B} (l : list A) (b : B) : map (fun _ => b) l = repeat b (List.length l).
Proof. induction l; simpl; congruence. Qed.
