(* C06, part 5: chains of steps.  The pipeline built with simplifications denotes the same table as applying each step in turn to
   the materialised result of the previous one (chain_eq_steps: same column set, same rows as a multiset; the same rows in the
   same order after a total final order_rows); dropping an order_rows without limit in front of ONE step (exact statements with
   equal column lists); witnesses that the premise is needed; a concrete chain on which every hypothesis holds. *)
From Coq Require Import List Bool Arith ZArith QArith String Lia Permutation.
Import ListNotations.
From DA Require Import Base.PyRT Base.Val Model.Sem Model.PermGuard Model.Extend Model.MergeGuard Model.Simplify Gen.G_MergeOps
  Proofs.MergeOpsP Proofs.MergeGuardP Proofs.SemBasicP Proofs.SemOrderP Proofs.PermP2 Proofs.PermP3 Proofs.PermP4 Proofs.ComposeP5
  Proofs.SimplifyP1 Proofs.SimplifyP2 Proofs.SimplifyP3 Proofs.SimplifyP4.
Local Open Scope list_scope.

(* ------------------------------------------------------------------ the builders keep the prefix invariant *)
Lemma mk_extend_ok iw p ops a : prefix_ok iw p -> NoDup (map fst ops) -> (forall k, In k (map fst ops) -> ~ In k (eff_part a ++ a_order a)) ->
  prefix_ok iw (mk_extend iw p ops a).
Proof.
  intros OK N D. unfold mk_extend. cbn [prefix_ok node_of n_windowed n_part n_order n_rev w_part w_order]. repeat split; try assumption.
  intros ->. reflexivity.
Qed.

Lemma build_extend_ok iw ops a : NoDup (map fst ops) -> (forall k, In k (map fst ops) -> ~ In k (eff_part a ++ a_order a)) ->
  forall p, prefix_ok iw p -> prefix_ok iw (build_extend iw p ops a).
Proof.
  intros N D.
  induction p as [nm cs0|s IH o1 wd1 w1|s IH ops0 gb|s IH x|s IH cs1|s IH ds|s IH m|s IH m dels|s IH cs0 rev0 lim|pa IHa b IHb on_a on_b jt|pa IHa b IHb idc an bn];
    intros OK; cbn [build_extend]; try (apply mk_extend_ok; assumption).
  - destruct (merge_guard _ _ _) eqn:G; [|apply mk_extend_ok; assumption].
    destruct (try_to_merge_ops gcu o1 ops) as [m|] eqn:M; [|apply mk_extend_ok; assumption].
    destruct OK as (N1 & D1 & C1 & OKs).
    destruct (merged_node_same iw o1 ops m a _ N1 N M G C1) as [S2 Sm].
    pose proof (merge_spec_holds cols_used o1 ops m N1 N M) as (_ & _ & Nm & Km).
    unfold mk_extend. rewrite Sm. cbn [prefix_ok n_windowed n_part n_order n_rev w_part w_order]. repeat split; try assumption.
    + intros k Ik. apply Km in Ik. destruct Ik as [Ik|Ik]; [apply D1, Ik|].
      assert (eff_part a = w_part w1 /\ a_order a = w_order w1) as [<- <-].
      { unfold node_of in S2. injection S2 as _ P O _. split; assumption. }
      apply D, Ik.
    + intros Im. destruct (merge_implies cols_used (iwp iw) o1 ops m N1 N M) as [_ Down]. rewrite <- !implies_values in Down.
      destruct (Down Im) as [I1|I2]; [apply C1, I1|].
      try rewrite <- implies_values in I2. unfold node_of in S2. rewrite I2 in S2. injection S2 as W _ _ _. symmetry. exact W.
  - destruct lim; [apply mk_extend_ok; assumption|]. apply IH, OK.
Qed.

Lemma build_select_cols_ok iw cs tup : forall p, prefix_ok iw p -> (forall c, In c cs -> In c (column_names p)) -> prefix_ok iw (build_select_cols p cs tup).
Proof.
  induction p as [nm cs0|s IH o1 wd1 w1|s IH ops0 gb|s IH x|s IH cs1|s IH ds|s IH m|s IH m dels|s IH cs0 rev0 lim|pa IHa b IHb on_a on_b jt|pa IHa b IHb idc an bn];
    intros OK Sub; cbn [build_select_cols]; (destruct (tup && eqb cs (declared_names _)); [exact OK|]);
    try (cbn [mk_select prefix_ok]; split; assumption).
  - destruct OK as [Sub1 OKs]. apply IH; [exact OKs|]. intros c I. apply Sub1. apply (Sub c I).
  - apply IH; [exact OK|]. intros c I. specialize (Sub c I). cbn [column_names] in Sub. apply filter_In in Sub. tauto.
  - destruct lim; [cbn [mk_select prefix_ok]; split; assumption|]. apply IH; assumption.
Qed.

Ltac skip_other :=
  let p := fresh "p" in let H := fresh "H" in
  intros p H; destruct p; try reflexivity;
  match goal with lim : option nat |- _ => destruct lim; [reflexivity|exfalso; eapply H; reflexivity] end.

Lemma build_step_ok iw x p : prefix_ok iw p -> step_valid x (column_names p) -> prefix_ok iw (build_step iw p x).
Proof.
  assert (forall bld node : op -> op,
            (forall s cs rev, bld (OOrder s cs rev None) = bld s) ->
            (forall p, (forall s cs rev, p <> OOrder s cs rev None) -> bld p = node p) ->
            (forall p, prefix_ok iw p -> prefix_ok iw (node p)) -> forall p, prefix_ok iw p -> prefix_ok iw (bld p)) as K.
  { intros bld node B1 B2 N. apply (skip_ind bld node B1 B2 (prefix_ok iw) (prefix_ok iw)); [|exact N]. intros s cs rev H. exact H. }
  intros OK V. destruct x; cbn [build_step step_valid] in *.
  - destruct (is_nil ops); [exact OK|]. destruct V as [N D]. apply build_extend_ok; assumption.
  - revert OK. apply (K (fun p => build_project p ops gb) (fun p => OProject p ops gb)); [reflexivity|skip_other|]. intros q H. exact H.
  - revert OK. apply (K (fun p => build_select_rows p e) (fun p => OSelectRows p e)); [reflexivity|skip_other|]. intros q H. exact H.
  - apply build_select_cols_ok; assumption.
  - destruct (is_nil cs); [exact OK|]. revert OK. apply (K (fun p => build_drop_cols p cs) (fun p => ODropCols p cs)); [reflexivity|skip_other|]. intros q H. exact H.
  - destruct (is_nil m); [exact OK|]. revert OK. apply (K (fun p => build_rename p m) (fun p => ORename p m)); [reflexivity|skip_other|]. intros q H. exact H.
  - destruct (is_nil m); [exact OK|]. revert OK. apply (K (fun p => build_map p m) (fun p => OMapCols p (map_remap m) (map_dels m))); [reflexivity|skip_other|]. intros q H. exact H.
  - destruct (is_nil cs && _); [exact OK|]. revert OK. apply (K (fun p => build_order p cs rev lim) (fun p => OOrder p cs rev lim)); [reflexivity|skip_other|]. intros q H. exact H.
  - revert OK. apply (K (fun p => build_join p b on_a on_b jt) (fun p => OJoin p b on_a on_b jt)); [reflexivity|skip_other|]. intros q H. exact H.
  - revert OK. apply (K (fun p => build_concat p b idc an bn) (fun p => OConcat p b idc an bn)); [reflexivity|skip_other|]. intros q H. exact H.
Qed.

(* ------------------------------------------------------------------ chains *)
(* the premises, step by step, on the tables of the step-by-step run *)
Fixpoint steps_ok (iw : list string) (fl : flavor) (e : env) (ro : option table) (xs : list step) : Prop :=
  match xs with
  | [] => True
  | x :: rest => (forall r, ro = Some r -> step_valid x (cols r) /\ step_insensitive iw fl x r)
                 /\ steps_ok iw fl e (obind ro (apply_sem iw fl e x)) rest
  end.

Lemma build_none iw fl e xs : forall p, sem_gen fl p e = None -> sem_gen fl (build iw p xs) e = None.
Proof. induction xs as [|x t IH]; intros p E; [exact E|]. apply IH, build_step_none, E. Qed.

Lemma chain_sim iw fl e xs : forall p ro,
  otab_sim (sem_gen fl p e) ro -> (ro <> None -> prefix_ok iw p) -> (forall r, ro = Some r -> width_ok r) -> steps_ok iw fl e ro xs ->
  otab_sim (sem_gen fl (build iw p xs) e) (run_steps iw fl e ro xs).
Proof.
  induction xs as [|x rest IH]; intros p ro S OK W H; [exact S|].
  destruct ro as [r|].
  - destruct (sem_gen fl p e) as [t|] eqn:E; [|destruct S]. cbn [otab_sim] in S. destruct H as [H1 H2]. destruct (H1 r eq_refl) as [V I].
    specialize (OK ltac:(discriminate)).
    cbn [build run_steps fold_left obind] in *.
    assert (same_set (cols r) (column_names p)) as Sc by (rewrite <- (sem_cols _ _ _ _ E); apply same_set_sym, (tab_sim_cols _ _ S)).
    apply (IH (build_step iw p x) (apply_sem iw fl e x r)).
    + apply (build_step_sound iw fl e x p t r E S (W r eq_refl) OK V I).
    + intros _. apply (build_step_ok iw x p OK (step_valid_same_set x _ _ Sc V)).
    + intros r' Er'. eapply width_apply; [apply (W r eq_refl)|exact Er'].
    + exact H2.
  - destruct (sem_gen fl p e) as [t|] eqn:E; [destruct S|].
    change (build iw p (x :: rest)) with (build iw (build_step iw p x) rest).
    rewrite (build_none iw fl e rest _ (build_step_none iw fl e x p E)), run_steps_none. exact Logic.I.
Qed.

(* the property: for every list of steps *)
Theorem chain_eq_steps iw fl e p0 xs :
  prefix_ok iw p0 -> steps_ok iw fl e (sem_gen fl p0 e) xs ->
  otab_sim (sem_gen fl (build iw p0 xs) e) (run_steps iw fl e (sem_gen fl p0 e) xs).
Proof.
  intros OK H. apply chain_sim; [apply otab_sim_refl|intros _; exact OK| |exact H].
  intros r E. eapply sem_rows_width, E.
Qed.

Lemma build_app iw p xs ys : build iw p (xs ++ ys) = build iw (build iw p xs) ys.
Proof. unfold build. apply fold_left_app. Qed.
Lemma run_steps_app iw fl e ro xs ys : run_steps iw fl e ro (xs ++ ys) = run_steps iw fl e (run_steps iw fl e ro xs) ys.
Proof. unfold run_steps. apply fold_left_app. Qed.

(* with a total final order_rows: the same rows in the same order *)
Theorem chain_eq_steps_ordered iw fl e p0 xs cs rev lim :
  prefix_ok iw p0 -> steps_ok iw fl e (sem_gen fl p0 e) xs -> cs <> [] ->
  (forall r, run_steps iw fl e (sem_gen fl p0 e) xs = Some r -> total_on fl (cols r) (map (fun c => (c, mem c rev)) cs) (rows r)) ->
  otab_eqv (sem_gen fl (build iw p0 (xs ++ [SOrder cs rev lim])) e) (run_steps iw fl e (sem_gen fl p0 e) (xs ++ [SOrder cs rev lim])).
Proof.
  intros OK H Ncs T. rewrite build_app, run_steps_app.
  pose proof (chain_eq_steps iw fl e p0 xs OK H) as S.
  destruct (run_steps iw fl e (sem_gen fl p0 e) xs) as [r|] eqn:Er.
  - destruct (sem_gen fl (build iw p0 xs) e) as [t|] eqn:Et; [|destruct S]. cbn [otab_sim] in S.
    cbn [build run_steps fold_left obind apply_sem build_step]. destruct cs as [|c cs']; [congruence|]. cbn [is_nil andb].
    apply (order_sound_total fl e r); [apply (T r eq_refl)|]. exists t. split; assumption.
  - destruct (sem_gen fl (build iw p0 xs) e) as [t|] eqn:Et; [destruct S|].
    cbn [build run_steps fold_left obind]. rewrite (build_step_none iw fl e _ _ Et). exact Logic.I.
Qed.
