(* Proofs/PipePrintP3.v -- C12, character level, part 3: the text of an expression (text_py) lexes to the tokens of
   the token printer (ExprPrint.to_py). *)
From Coq Require Import List Bool String Ascii ZArith NArith QArith Arith Lia ZifyBool.
Import ListNotations.
From DA Require Import Model.PyExpr Model.ExprPrint Model.PipePrintStr Proofs.ExprParseP12 Proofs.PipePrintP1 Proofs.PipePrintP2.
Local Close Scope Q_scope.
Local Open Scope string_scope.
Local Open Scope bool_scope.
Local Open Scope list_scope.

(* ------------------------------------------------------------------ equations of the two printers *)
Lemma sjoin_cons2 (sep a b : string) (l : list string) : sjoin sep (a :: b :: l) = a +++ sep +++ sjoin sep (b :: l).
Proof. reflexivity. Qed.
Lemma join_with_cons2 (sep a b : list tok) (l : list (list tok)) : join_with sep (a :: b :: l) = a ++ sep ++ join_with sep (b :: l).
Proof. reflexivity. Qed.

Section Printers.
Variable F : ffmt.
Variable np : N -> bool.

Lemma text_py_nil want op i m p : text_py F np want (EOp op i m p []) = (op +++ "(" +++ sjoin ", " [] +++ ")", false).
Proof. reflexivity. Qed.
Lemma to_py_nil want op i m p :
  to_py want (EOp op i m p []) = (op_tok op :: TSym "(" :: join_with [TSym ","] [] ++ [TSym ")"], false).
Proof. reflexivity. Qed.

Definition unary_text (op : string) (a : expr) : string :=
  op +++ (if snd (text_py F np false a) then fst (text_py F np false a) else sparen (fst (text_py F np false a))).
Definition unary_toks (op : string) (a : expr) : list tok :=
  op_tok op :: (if snd (to_py false a) then fst (to_py false a) else paren (fst (to_py false a))).

Lemma text_py_unary want op m p a :
  text_py F np want (EOp op true m p [a]) = (if want then sparen (unary_text op a) else unary_text op a, want).
Proof. unfold unary_text. cbn [text_py]. destruct (text_py F np false a) as [t0 p0]. destruct want; reflexivity. Qed.
Lemma to_py_unary want op m p a :
  to_py want (EOp op true m p [a]) = (if want then paren (unary_toks op a) else unary_toks op a, want).
Proof. unfold unary_toks. cbn [to_py]. destruct (to_py false a) as [t0 p0]. destruct want; reflexivity. Qed.

Definition infix_text (op : string) (args : list expr) : string :=
  sjoin (" " +++ op +++ " ") (map (fun a => fst (text_py F np true a)) args).
Definition infix_toks (op : string) (args : list expr) : list tok :=
  join_with [op_tok op] (map (fun a => fst (to_py true a)) args).

Lemma text_py_infix want op m p a b l :
  text_py F np want (EOp op true m p (a :: b :: l))
  = (if want then sparen (infix_text op (a :: b :: l)) else infix_text op (a :: b :: l), want).
Proof. unfold infix_text. destruct want; reflexivity. Qed.
Lemma to_py_infix want op m p a b l :
  to_py want (EOp op true m p (a :: b :: l))
  = (if want then paren (infix_toks op (a :: b :: l)) else infix_toks op (a :: b :: l), want).
Proof. unfold infix_toks. destruct want; reflexivity. Qed.

Definition recv_text (a : expr) : string :=
  if snd (text_py F np false a) || is_col a then fst (text_py F np false a) else sparen (fst (text_py F np false a)).
Definition recv_toks (a : expr) : list tok :=
  if snd (to_py false a) || is_col a then fst (to_py false a) else paren (fst (to_py false a)).

Lemma text_py_method want op p a l :
  text_py F np want (EOp op false true p (a :: l))
  = (recv_text a +++ "." +++ op +++ "(" +++ sjoin ", " (map (fun x => fst (text_py F np false x)) l) +++ ")", false).
Proof. unfold recv_text. rewrite <- (map_map (text_py F np false) fst).
  destruct l as [|b l]; cbn [text_py map]; destruct (text_py F np false a) as [t0 p0]; reflexivity. Qed.
Lemma to_py_method want op p a l :
  to_py want (EOp op false true p (a :: l))
  = (recv_toks a ++ TSym "." :: op_tok op :: TSym "(" :: join_with [TSym ","] (map (fun x => fst (to_py false x)) l) ++ [TSym ")"], false).
Proof. unfold recv_toks. rewrite <- (map_map (to_py false) fst).
  destruct l as [|b l]; cbn [to_py map]; destruct (to_py false a) as [t0 p0]; reflexivity. Qed.

Lemma text_py_func want op p a l :
  text_py F np want (EOp op false false p (a :: l))
  = (op +++ "(" +++ sjoin ", " (map (fun x => fst (text_py F np false x)) (a :: l)) +++ ")", false).
Proof. rewrite <- (map_map (text_py F np false) fst).
  destruct l as [|b l]; cbn [text_py map]; [destruct (text_py F np false a) as [t0 p0]|]; reflexivity. Qed.
Lemma to_py_func want op p a l :
  to_py want (EOp op false false p (a :: l))
  = (op_tok op :: TSym "(" :: join_with [TSym ","] (map (fun x => fst (to_py false x)) (a :: l)) ++ [TSym ")"], false).
Proof. rewrite <- (map_map (to_py false) fst).
  destruct l as [|b l]; cbn [to_py map]; [destruct (to_py false a) as [t0 p0]|]; reflexivity. Qed.

(* the two printers put parentheses in the same places *)
Lemma snd_text_py (want : bool) (e : expr) : snd (text_py F np want e) = snd (to_py want e).
Proof. destruct e as [n|v|vs|kvs|op i m p args]; try reflexivity.
  - cbn [text_py to_py]. destruct (want && prints_with_sign v); reflexivity.
  - destruct args as [|a [|b l]]; [reflexivity| |].
    + destruct i; [rewrite text_py_unary, to_py_unary; reflexivity|].
      destruct m; [rewrite text_py_method, to_py_method|rewrite text_py_func, to_py_func]; reflexivity.
    + destruct i; [rewrite text_py_infix, to_py_infix; reflexivity|].
      destruct m; [rewrite text_py_method, to_py_method|rewrite text_py_func, to_py_func]; reflexivity. Qed.

(* a text flagged as parenthesised is "(" ... ")" *)
Lemma text_py_parens (want : bool) (e : expr) : snd (text_py F np want e) = true ->
  exists t, fst (text_py F np want e) = sparen t.
Proof. destruct e as [n|v|vs|kvs|op i m p args]; try discriminate.
  - cbn [text_py]. destruct (want && prints_with_sign v); [|discriminate]. intros _. eexists. reflexivity.
  - destruct args as [|a [|b l]]; [discriminate| |].
    + destruct i; [rewrite text_py_unary|destruct m; [rewrite text_py_method|rewrite text_py_func]; discriminate].
      cbn [fst snd]. intros ->. eexists. reflexivity.
    + destruct i; [rewrite text_py_infix|destruct m; [rewrite text_py_method|rewrite text_py_func]; discriminate].
      cbn [fst snd]. intros ->. eexists. reflexivity. Qed.

(* ------------------------------------------------------------------ small lexing facts *)
Lemma oapp_two {A} (x y : A) (o : option (list A)) : oapp [x; y] o = ocons x (ocons y o).
Proof. destruct o; reflexivity. Qed.

Lemma lexg_neg (t r : string) : starts_with is_idchar t = true ->
  lexg F (("-" +++ t) +++ r) = ocons (TSym "-") (lexg F (t +++ r)).
Proof. intros H. destruct t as [|c d]; [discriminate H|]. cbn [starts_with] in H.
  change (("-" +++ String c d) +++ r) with (String "-" (String c (d +++ r))).
  change (String c d +++ r) with (String c (d +++ r)). apply lexg_minus. exact H. Qed.

Lemma starts_digit_idchar (t : string) : starts_with is_digit t = true -> starts_with is_idchar t = true.
Proof. destruct t as [|c d]; [discriminate|]. cbn [starts_with]. intros H. unfold is_idchar. rewrite H. apply orb_true_r. Qed.

Lemma dec_of_N_starts (n : N) : starts_with is_digit (dec_of_N n) = true.
Proof. destruct (dec_of_N_head n) as [c [d [E H]]]. rewrite E. exact H. Qed.

Lemma lexg_opname (op : string) (inline : bool) (c : ascii) (r : string) :
  (if inline then smem op sym_texts else ident_ok op) = true -> (c = " "%char \/ c = "("%char) ->
  lexg F (op +++ String c r) = ocons (op_tok op) (lexg F (String c r)).
Proof. intros H Hc. destruct inline; [apply lexg_op; assumption|]. rewrite (op_tok_ident op H).
  apply lexg_ident; [exact H| |]; destruct Hc as [-> | ->]; reflexivity. Qed.

Lemma lexg_dot_ident (op r : string) : ident_ok op = true ->
  lexg F (String "." (op +++ r)) = ocons (TSym ".") (lexg F (op +++ r)).
Proof. intros H. apply ident_ok_spec in H as [H _]. destruct op as [|x op]; [discriminate H|]. cbn [starts_with] in H.
  change (String x op +++ r) with (String x (op +++ r)). apply lexg_dot. exact H. Qed.

Lemma lexg_open (c : ascii) (r : string) : In c brackets -> lexg F (String c r) = ocons (TSym (s1 c)) (lexg F r).
Proof. apply lexg_bracket. Qed.

(* ------------------------------------------------------------------ constants *)
Lemma lexg_val (v : pval) (rest : string) : (forall m, In m (floats_of_val v) -> float_lex_ok F m) ->
  delim_start rest = true -> lexg F (val_text F np v +++ rest) = oapp (val_toks v) (lexg F rest).
Proof. intros Hf Hr. destruct (delim_start_spec rest Hr) as [H1 [H2 H3]].
  destruct v as [|b|z|neg m|neg|s]; cbn [val_text val_toks].
  - rewrite oapp_one. apply lexg_keyword; [reflexivity|reflexivity|reflexivity|exact H1|exact H2].
  - rewrite oapp_one. destruct b; apply lexg_keyword; [reflexivity|reflexivity|reflexivity|exact H1|exact H2|reflexivity|reflexivity|reflexivity|exact H1|exact H2].
  - destruct (Z.ltb z 0).
    + rewrite oapp_two. rewrite lexg_neg by (apply starts_digit_idchar, dec_of_N_starts).
      rewrite (lexg_dec_delim F _ rest Hr). reflexivity.
    + rewrite oapp_one. apply lexg_dec_delim. exact Hr.
  - assert (Hm : float_lex_ok F m) by (apply Hf; left; reflexivity). destruct neg; cbn [app].
    + rewrite oapp_two. rewrite lexg_neg by (apply starts_digit_idchar, Hm). rewrite (lexg_float F m rest Hm Hr). reflexivity.
    + rewrite oapp_one. change (EmptyString +++ frepr F m) with (frepr F m). apply lexg_float; assumption.
  - destruct neg; cbn [app].
    + rewrite oapp_two. rewrite lexg_neg by reflexivity. rewrite (lexg_ident F "inf" rest); [reflexivity|reflexivity|exact H1|exact H2].
    + rewrite oapp_one. change (EmptyString +++ "inf") with "inf". apply lexg_ident; [reflexivity|exact H1|exact H2].
  - rewrite oapp_one. apply lexg_repr_delim. exact Hr. Qed.

(* ------------------------------------------------------------------ separated lists, brackets *)
Definition items_ok {A} (f : A -> string) (g : A -> list tok) (xs : list A) : Prop :=
  forall x r, In x xs -> delim_start r = true -> lexg F (f x +++ r) = oapp (g x) (lexg F r).

Lemma lexg_sjoin {A} (f : A -> string) (g : A -> list tok) (sep : string) (septoks : list tok) :
  (forall r, lexg F (sep +++ r) = oapp septoks (lexg F r)) -> (forall r, delim_start (sep +++ r) = true) ->
  forall (xs : list A), items_ok f g xs -> forall rest, delim_start rest = true ->
  lexg F (sjoin sep (map f xs) +++ rest) = oapp (join_with septoks (map g xs)) (lexg F rest).
Proof. intros Hsep Hdel. induction xs as [|x xs IH]; intros Hit rest Hr.
  - cbn [map sjoin join_with String.append]. rewrite oapp_nil. reflexivity.
  - destruct xs as [|y l].
    + cbn [map sjoin join_with]. apply Hit; [left; reflexivity|exact Hr].
    + cbn [map]. rewrite sjoin_cons2, join_with_cons2. rewrite !sapp_assoc, !oapp_app.
      rewrite (Hit x); [|left; reflexivity|apply Hdel]. rewrite Hsep.
      change (f y :: map f l) with (map f (y :: l)). change (g y :: map g l) with (map g (y :: l)).
      rewrite IH; [reflexivity| |exact Hr]. intros z r Hz. apply Hit. right. exact Hz. Qed.

Lemma comma_sep (r : string) : lexg F (", " +++ r) = oapp [TSym ","] (lexg F r).
Proof. rewrite oapp_one. apply lexg_comma_space. Qed.

Lemma lexg_bracketed {A} (f : A -> string) (g : A -> list tok) (o c : ascii) (xs : list A) (rest : string) :
  In o brackets -> In c [")"; "]"; "}"]%char -> items_ok f g xs ->
  lexg F (String o (sjoin ", " (map f xs) +++ String c rest))
  = oapp (TSym (s1 o) :: join_with [TSym ","] (map g xs) ++ [TSym (s1 c)]) (lexg F rest).
Proof. intros Ho Hc Hit. rewrite (lexg_open o _ Ho).
  assert (Hc2 : In c brackets) by (unfold brackets; cbn [In] in *; tauto).
  assert (Hd : delim_start (String c rest) = true) by (apply delim_start_cons; cbn [In] in *; tauto).
  rewrite (lexg_sjoin f g ", " [TSym ","] comma_sep (fun r => eq_refl) xs Hit _ Hd).
  rewrite (lexg_open c _ Hc2). rewrite oapp_cons, oapp_app, oapp_one. reflexivity. Qed.

Lemma lexg_paren (X : string) (TS : list tok) (rest : string) :
  (forall r, delim_start r = true -> lexg F (X +++ r) = oapp TS (lexg F r)) ->
  lexg F (sparen X +++ rest) = oapp (paren TS) (lexg F rest).
Proof. intros H. unfold sparen, paren. rewrite !sapp_assoc.
  change ("(" +++ X +++ ")" +++ rest) with (String "(" (X +++ String ")" rest)).
  rewrite lexg_open by (unfold brackets; cbn [In]; tauto). rewrite H by reflexivity.
  rewrite lexg_open by (unfold brackets; cbn [In]; tauto). rewrite oapp_cons, oapp_app, oapp_one. reflexivity. Qed.

(* ------------------------------------------------------------------ the statement, expression by expression *)
Definition goodrest (e : expr) (p : bool) (rest : string) : Prop :=
  p = true \/ delim_start rest = true \/ (is_col e = true /\ starts_with (Ascii.eqb "."%char) rest = true).

Definition lex_ok (e : expr) : Prop := forall want rest, goodrest e (snd (text_py F np want e)) rest ->
  lexg F (fst (text_py F np want e) +++ rest) = oapp (fst (to_py want e)) (lexg F rest).

Lemma goodrest_plain (e : expr) (rest : string) : is_col e = false -> goodrest e false rest -> delim_start rest = true.
Proof. intros Hc [G|[G|[G _]]]; [discriminate G|exact G|congruence]. Qed.

Lemma lex_ok_col (n : string) : ident_ok n = true -> lex_ok (ECol n).
Proof. intros Hn want rest G. cbn [text_py to_py fst snd] in *. rewrite oapp_one.
  destruct G as [G|[G|[_ G]]]; [discriminate G| |].
  - destruct (delim_start_spec rest G) as [H1 [H2 _]]. apply lexg_ident; assumption.
  - destruct rest as [|c r]; [discriminate G|]. cbn [starts_with] in G. apply Ascii.eqb_eq in G. subst c.
    apply lexg_ident; [exact Hn|reflexivity|reflexivity]. Qed.

Lemma lex_ok_val (v : pval) : (forall m, In m (floats_of_val v) -> float_lex_ok F m) -> lex_ok (EVal v).
Proof. intros Hf want rest G. cbn [text_py to_py] in *. destruct (want && prints_with_sign v); cbn [fst snd] in *.
  - apply lexg_paren. intros r Hr. apply lexg_val; assumption.
  - apply lexg_val; [exact Hf|]. exact (goodrest_plain (EVal v) rest eq_refl G). Qed.

Lemma in_flat_map_intro {A B} (f : A -> list B) (l : list A) (x : A) (y : B) : In x l -> In y (f x) -> In y (flat_map f l).
Proof. intros H1 H2. apply in_flat_map. exists x. split; assumption. Qed.

Lemma lex_ok_list (vs : list pval) : (forall m, In m (flat_map floats_of_val vs) -> float_lex_ok F m) -> lex_ok (EList vs).
Proof. intros Hf want rest G. cbn [text_py to_py fst snd] in *. rewrite !sapp_assoc.
  change ("[" +++ sjoin ", " (map (val_text F np) vs) +++ "]" +++ rest)
    with (String "[" (sjoin ", " (map (val_text F np) vs) +++ String "]" rest)).
  apply (lexg_bracketed (val_text F np) val_toks "[" "]" vs rest); [unfold brackets; cbn [In]; tauto|cbn [In]; tauto|].
  intros v r Hv Hr. apply lexg_val; [|exact Hr]. intros m Hm. apply Hf. exact (in_flat_map_intro _ _ v m Hv Hm). Qed.

Lemma lex_ok_dict (kvs : list (pval * pval)) :
  (forall m, In m (flat_map (fun kv => floats_of_val (fst kv) ++ floats_of_val (snd kv)) kvs) -> float_lex_ok F m) ->
  lex_ok (EDict kvs).
Proof. intros Hf want rest G. cbn [text_py to_py fst snd] in *. rewrite !sapp_assoc.
  change ("{" +++ sjoin ", " (map (fun kv => val_text F np (fst kv) +++ ": " +++ val_text F np (snd kv)) kvs) +++ "}" +++ rest)
    with (String "{" (sjoin ", " (map (fun kv => val_text F np (fst kv) +++ ": " +++ val_text F np (snd kv)) kvs) +++ String "}" rest)).
  apply (lexg_bracketed (fun kv => val_text F np (fst kv) +++ ": " +++ val_text F np (snd kv))
           (fun kv => val_toks (fst kv) ++ TSym ":" :: val_toks (snd kv)) "{" "}" kvs rest);
    [unfold brackets; cbn [In]; tauto|cbn [In]; tauto|].
  intros kv r Hkv Hr. rewrite !sapp_assoc.
  assert (Hk : forall m, In m (floats_of_val (fst kv)) -> float_lex_ok F m).
  { intros m Hm. apply Hf. apply (in_flat_map_intro _ _ kv m Hkv). apply in_or_app. left. exact Hm. }
  assert (Hv : forall m, In m (floats_of_val (snd kv)) -> float_lex_ok F m).
  { intros m Hm. apply Hf. apply (in_flat_map_intro _ _ kv m Hkv). apply in_or_app. right. exact Hm. }
  rewrite (lexg_val (fst kv) _ Hk) by reflexivity.
  change (": " +++ val_text F np (snd kv) +++ r) with (String ":" (String " " (val_text F np (snd kv) +++ r))).
  rewrite lexg_colon_space. rewrite (lexg_val (snd kv) r Hv Hr). rewrite oapp_app, oapp_cons. reflexivity. Qed.

(* ---- operators, functions, methods *)
Section Op.
Variables (op : string) (inline : bool).
Hypothesis Hop : (if inline then smem op sym_texts else ident_ok op) = true.

(* op "(" args ")" *)
Lemma lexg_call (args : list expr) (rest : string) :
  items_ok (fun a => fst (text_py F np false a)) (fun a => fst (to_py false a)) args ->
  lexg F (op +++ String "(" (sjoin ", " (map (fun a => fst (text_py F np false a)) args) +++ String ")" rest))
  = oapp (op_tok op :: TSym "(" :: join_with [TSym ","] (map (fun a => fst (to_py false a)) args) ++ [TSym ")"]) (lexg F rest).
Proof. intros Hit. rewrite (lexg_opname op inline "(" _ Hop) by (right; reflexivity).
  rewrite (lexg_bracketed _ _ "(" ")" args rest) by (try exact Hit; unfold brackets; cbn [In]; tauto).
  rewrite !oapp_cons. reflexivity. Qed.
End Op.

Lemma lex_ok_items (want : bool) (args : list expr) : (forall a, In a args -> lex_ok a) ->
  items_ok (fun a => fst (text_py F np want a)) (fun a => fst (to_py want a)) args.
Proof. intros IH a r Ha Hr. apply (IH a Ha want r). right. left. exact Hr. Qed.

(* the receiver of a method call, followed by "." *)
Lemma lexg_recv (a : expr) (r : string) : lex_ok a ->
  lexg F (recv_text a +++ String "." r) = oapp (recv_toks a) (lexg F (String "." r)).
Proof. intros Ha. unfold recv_text, recv_toks. rewrite <- (snd_text_py false a).
  destruct (snd (text_py F np false a)) eqn:P; cbn [orb].
  - apply Ha. left. exact P.
  - destruct (is_col a) eqn:C.
    + apply Ha. right. right. split; [exact C|reflexivity].
    + apply lexg_paren. intros r' Hr'. apply Ha. right. left. exact Hr'. Qed.

(* a unary operator and its operand: followed by anything *)
Lemma lexg_unary (op : string) (a : expr) (r : string) : smem op sym_texts = true -> lex_ok a ->
  lexg F (unary_text op a +++ r) = oapp (unary_toks op a) (lexg F r).
Proof. intros Hop Ha. unfold unary_text, unary_toks. rewrite <- (snd_text_py false a). rewrite sapp_assoc.
  destruct (snd (text_py F np false a)) eqn:P.
  - destruct (text_py_parens false a P) as [t Et].
    assert (Er : exists r', fst (text_py F np false a) +++ r = String "(" r') by (rewrite Et; eexists; reflexivity).
    destruct Er as [r' Er]. rewrite Er. rewrite (lexg_opname op true "(" r' Hop) by (right; reflexivity). rewrite <- Er.
    rewrite (Ha false r) by (left; exact P). rewrite oapp_cons. reflexivity.
  - change (sparen (fst (text_py F np false a)) +++ r) with (String "(" ((fst (text_py F np false a) +++ ")") +++ r)).
    rewrite (lexg_opname op true "(" _ Hop) by (right; reflexivity).
    change (String "(" ((fst (text_py F np false a) +++ ")") +++ r)) with (sparen (fst (text_py F np false a)) +++ r).
    rewrite (lexg_paren (fst (text_py F np false a)) (fst (to_py false a)) r); [rewrite oapp_cons; reflexivity|].
    intros r' Hr'. apply Ha. right. left. exact Hr'. Qed.

(* a op b op c: followed by a delimiter *)
Lemma lexg_infix (op : string) (args : list expr) (r : string) : smem op sym_texts = true ->
  (forall a, In a args -> lex_ok a) -> delim_start r = true ->
  lexg F (infix_text op args +++ r) = oapp (infix_toks op args) (lexg F r).
Proof. intros Hop IH Hr. unfold infix_text, infix_toks.
  apply (lexg_sjoin (fun a => fst (text_py F np true a)) (fun a => fst (to_py true a))); [| |apply lex_ok_items; exact IH|exact Hr].
  - intros r'. rewrite !sapp_assoc. change (" " +++ op +++ " " +++ r') with (String " " (op +++ String " " r')).
    rewrite lexg_space. rewrite (lexg_opname op true " " r' Hop) by (left; reflexivity). rewrite lexg_space, oapp_one. reflexivity.
  - intros r'. reflexivity. Qed.

Lemma lex_ok_op (op : string) (inline method : bool) (params : option (list (string * pval))) (args : list expr) :
  (if inline then smem op sym_texts else ident_ok op) = true -> (forall a, In a args -> lex_ok a) ->
  lex_ok (EOp op inline method params args).
Proof. intros Hop IH want rest G.
  pose proof (lex_ok_items false args IH) as Hit.
  destruct args as [|a l].
  { rewrite text_py_nil, to_py_nil. cbn [fst]. rewrite !sapp_assoc.
    change ("(" +++ sjoin ", " [] +++ ")" +++ rest) with (String "(" (sjoin ", " (map (fun a => fst (text_py F np false a)) []) +++ String ")" rest)).
    exact (lexg_call op inline Hop [] rest Hit). }
  destruct inline.
  - destruct l as [|b l].
    + rewrite text_py_unary, to_py_unary. cbn [fst]. assert (Ha : lex_ok a) by (apply IH; left; reflexivity).
      destruct want; [apply lexg_paren; intros r _|]; apply lexg_unary; assumption.
    + rewrite text_py_infix, to_py_infix in *. cbn [fst snd] in *.
      destruct want; [apply lexg_paren; intros r Hr|]; apply lexg_infix; try assumption.
      exact (goodrest_plain (EOp op true method params (a :: b :: l)) rest eq_refl G).
  - destruct method.
    + rewrite text_py_method, to_py_method. cbn [fst]. rewrite !sapp_assoc.
      change ("." +++ op +++ "(" +++ sjoin ", " (map (fun x => fst (text_py F np false x)) l) +++ ")" +++ rest)
        with (String "." (op +++ String "(" (sjoin ", " (map (fun x => fst (text_py F np false x)) l) +++ String ")" rest))).
      rewrite lexg_recv by (apply IH; left; reflexivity). rewrite (lexg_dot_ident op _ Hop).
      rewrite (lexg_call op false Hop l rest) by (intros x r Hx; apply Hit; right; exact Hx).
      rewrite oapp_app, !oapp_cons. reflexivity.
    + rewrite text_py_func, to_py_func. cbn [fst]. rewrite !sapp_assoc.
      change ("(" +++ sjoin ", " (map (fun x => fst (text_py F np false x)) (a :: l)) +++ ")" +++ rest)
        with (String "(" (sjoin ", " (map (fun x => fst (text_py F np false x)) (a :: l)) +++ String ")" rest)).
      exact (lexg_call op false Hop (a :: l) rest Hit). Qed.

(* ------------------------------------------------------------------ all expressions *)
Lemma lex_ok_n : forall (n : nat) (e : expr), esize e < n -> lexable e = true ->
  (forall m, In m (floats_of e) -> float_lex_ok F m) -> lex_ok e.
Proof. induction n as [|n IHn]; intros e Hs Hl Hf; [lia|].
  destruct e as [c|v|vs|kvs|op inline method params args].
  - apply lex_ok_col. exact Hl.
  - apply lex_ok_val. exact Hf.
  - apply lex_ok_list. exact Hf.
  - apply lex_ok_dict. exact Hf.
  - cbn [lexable] in Hl. apply andb_prop in Hl as [Hop Hargs]. apply lex_ok_op; [exact Hop|].
    intros a Ha. apply IHn.
    + pose proof (esize_arg op inline method params args a Ha). lia.
    + rewrite forallb_forall in Hargs. apply Hargs. exact Ha.
    + intros m Hm. apply Hf. cbn [floats_of]. exact (in_flat_map_intro _ _ a m Ha Hm). Qed.

End Printers.

Theorem lexg_text_py : forall (F : ffmt) (np : N -> bool) (e : expr) (want : bool) (rest : string),
  lexable e = true -> (forall m, In m (floats_of e) -> float_lex_ok F m) ->
  (snd (text_py F np want e) = true \/ delim_start rest = true \/ (is_col e = true /\ starts_with (Ascii.eqb "."%char) rest = true)) ->
  lexg F (fst (text_py F np want e) +++ rest) = oapp (fst (to_py want e)) (lexg F rest).
Proof. intros F np e want rest Hl Hf G. exact (lex_ok_n F np (S (esize e)) e (Nat.lt_succ_diag_r _) Hl Hf want rest G). Qed.

Corollary lexg_expr_text : forall (F : ffmt) (np : N -> bool) (e : expr),
  lexable e = true -> (forall m, In m (floats_of e) -> float_lex_ok F m) ->
  lexg F (expr_text F np e) = Some (to_python e).
Proof. intros F np e Hl Hf. unfold expr_text, to_python.
  pose proof (lexg_text_py F np e false EmptyString Hl Hf (or_intror (or_introl eq_refl))) as H.
  rewrite sapp_nil_r in H. rewrite H. rewrite lexg_nil. cbn [oapp option_map]. rewrite app_nil_r. reflexivity. Qed.

Print Assumptions snd_text_py.
Print Assumptions lexg_text_py.
Print Assumptions lexg_expr_text.
