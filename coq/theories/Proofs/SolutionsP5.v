(* C21, part 5: rank_to_average computes rank_avg_spec. *)
From Coq Require Import List Bool Arith ZArith QArith String Lia Permutation Sorted.
Import ListNotations.
From DA Require Import Base.PyRT Base.Val Model.Sem Model.Solutions Proofs.SemBasicP Proofs.SemOrderP
  Proofs.SolutionsP1 Proofs.SolutionsP3 Proofs.SolutionsP4.
Local Open Scope string_scope.
Local Open Scope list_scope.

Lemma set_nth_app r : forall j v s, set_nth (List.length r + j) v (r ++ s) = r ++ set_nth j v s.
Proof. induction r as [|x r IH]; intros j v s; simpl; [reflexivity|]. rewrite IH. reflexivity. Qed.
Lemma set_cell_snoc cs r k x v : ~ In k cs -> List.length r = List.length cs -> set_cell (cs ++ [k]) (r ++ [x]) k v = r ++ [v].
Proof. intros N L. unfold set_cell. rewrite (index_of_app_r _ _ _ N). simpl. destruct (eq_dec k k); [|congruence]. simpl.
  rewrite <- L, set_nth_app. reflexivity. Qed.
Lemma NoDup_map_inj {A B} (f : A -> B) l : NoDup l -> (forall a b, In a l -> In b l -> f a = f b -> a = b) -> NoDup (map f l).
Proof. induction 1 as [|x l N ND IH]; intros H; simpl; constructor.
  - intros I. apply in_map_iff in I as [y [E I]]. apply N. rewrite <- (H y x (or_intror I) (or_introl eq_refl) E). exact I.
  - apply IH. intros a b Ia Ib. apply H; right; assumption. Qed.
Lemma NoDup_of_map {A B} (f : A -> B) l : NoDup (map f l) -> NoDup l.
Proof. induction l as [|x l IH]; simpl; intros H; constructor; inversion H; subst; [|auto]. intros I. apply H2. apply in_map, I. Qed.

Section Rank.
  Variables (fl : flavor) (ob pb : list string) (rank tb : string) (t : table).
  Hypothesis V : rank_valid ob pb rank tb t = true.
  Let cs := cols t.
  Let rs := rows t.
  Let U := tag_from 0 rs.

  Lemma rank_facts :
    ~ In rank cs /\ ~ In tb cs /\ rank <> tb /\ (forall c, In c ob -> In c cs) /\ (forall c, In c pb -> In c cs) /\ NoDup cs
    /\ (forall r, In r rs -> List.length r = List.length cs).
  Proof. unfold rank_valid in V.
    apply andb_true_iff in V as [V0 V7]. apply andb_true_iff in V0 as [V0 V6]. apply andb_true_iff in V0 as [V0 V5].
    apply andb_true_iff in V0 as [V0 V4]. apply andb_true_iff in V0 as [V0 V3]. apply andb_true_iff in V0 as [V1 V2].
    split; [apply negb_mem_notin; exact V1|]. split; [apply negb_mem_notin; exact V2|]. split; [apply seqb_neq; exact V3|].
    split; [apply subset_spec; exact V4|]. split; [apply subset_spec; exact V5|]. split; [apply nodupb_NoDup; exact V6|].
    apply widthb_ok in V7. rewrite Forall_forall in V7. exact V7. Qed.

  Lemma U_row ir : In ir U -> In (snd ir) rs /\ List.length (snd ir) = List.length cs.
  Proof. intros I. assert (In (snd ir) rs) as R by (eapply tag_from_In, I). split; [exact R|]. apply rank_facts, R. Qed.
  Lemma U_NoDup : NoDup U.
  Proof. apply (NoDup_of_map fst). apply tag_from_NoDup_fst. Qed.

  Section WithNb.
    Variable nb : nat -> nat.
    Hypothesis nb_inj : forall i j, (i < List.length rs)%nat -> (j < List.length rs)%nat -> nb i = nb j -> i = j.

    Lemma U_inj a b : In a U -> In b U -> nb (fst a) = nb (fst b) -> a = b.
    Proof. intros Ia Ib E. apply (tag_same_fst rs); [exact Ia|exact Ib|].
      destruct a as [i r], b as [j s]. apply tag0_In in Ia, Ib. apply nb_inj; [| |exact E]; apply nth_error_Some; simpl; congruence. Qed.

    Definition F1 (ir : nat * list val) : list val := snd ir ++ [vnat (nb (fst ir))].
    Definition cs1 : list string := cs ++ [tb].
    Definition t1 : table := mktable cs1 (map F1 U).
    Definition leob (a b : nat * list val) : bool := row_le fl cs (okeys ob) (snd a) (snd b).
    Definition sp (a b : nat * list val) : bool := same_part cs pb (snd a) (snd b).
    Definition le12 (y x : nat * list val) : bool := leob y x && (negb (leob x y) || Nat.leb (nb (fst y)) (nb (fst x))).
    Definition N2 (x : nat * list val) : nat := List.length (filter (fun y => sp x y && le12 y x) U).

    Lemma F1_len ir : In ir U -> List.length (F1 ir) = List.length cs1.
    Proof. intros I. unfold F1, cs1. rewrite !app_length. destruct (U_row ir I) as [_ ->]. reflexivity. Qed.
    Lemma F1_get_old ir c : In ir U -> In c cs -> get cs1 (F1 ir) c = get cs (snd ir) c.
    Proof. intros I Ic. apply get_app_l; [exact Ic|apply U_row, I]. Qed.
    Lemma F1_get_tb ir : In ir U -> get cs1 (F1 ir) tb = vnat (nb (fst ir)).
    Proof. intros I. unfold cs1, F1. rewrite get_app_r; [apply get_head|apply rank_facts|apply U_row, I]. Qed.
    Lemma F1_key ir ks : In ir U -> (forall c, In c ks -> In c cs) -> key_of cs1 ks (F1 ir) = key_of cs ks (snd ir).
    Proof. intros I S. unfold key_of. apply map_ext_in. intros c Ic. apply F1_get_old; auto. Qed.
    Lemma F1_le a b : In a U -> In b U -> row_le fl cs1 (okeys (ob ++ [tb])) (F1 a) (F1 b) = le12 a b.
    Proof. intros Ia Ib. destruct rank_facts as (_ & _ & _ & So & _).
      assert (forall x y, In x U -> In y U -> row_le fl cs1 (okeys ob) (F1 x) (F1 y) = leob x y) as E.
      { intros x y Ix Iy. apply row_le_ext. intros c Ic. unfold okeys in Ic. rewrite map_map in Ic. cbn [fst] in Ic. rewrite map_id in Ic.
        split; apply F1_get_old; auto. }
      rewrite okeys_app, row_le_app, !E by assumption. unfold le12. f_equal. f_equal.
      cbn [okeys map row_le]. rewrite !F1_get_tb by assumption. apply vnat_key_le. Qed.

    (* ---- step 2: cumsum of 1.0 ordered by (ob, tb) inside the partition: the number of rows at or before *)
    Definition w2 : window := mkwin pb (ob ++ [tb]) [].
    Definition e2 : expr := EOp "cumsum" [EConst (vnat 1)].
    Definition rk2 (ir : nat * list val) : val := lookup_pos (wpiece fl w2 t1 e2 (key_of cs1 pb (F1 ir))) (fst ir).
    Definition F2 (ir : nat * list val) : list val := F1 ir ++ [rk2 ir].
    Definition cs2 : list string := cs1 ++ [rank].
    Definition t2 : table := mktable cs2 (map F2 U).

    Lemma rank_notin_cs1 : ~ In rank cs1.
    Proof. destruct rank_facts as (Nr & Nt & Nrt & _). unfold cs1. intros I. apply in_app_or in I as [I|[I|[]]]; [contradiction|congruence]. Qed.

    Lemma step2 : sem_wextend fl [(rank, e2)] w2 t1 = t2.
    Proof. rewrite wextend1. unfold t2, cs2. cbn [cols rows t1]. rewrite (add_end_new cs1 rank rank_notin_cs1). f_equal.
      unfold U. rewrite tag_from_map_tag, map_map. apply map_ext_in. intros ir I. cbn [fst snd w_part w2].
      rewrite (set_cell_new cs1 _ rank _ rank_notin_cs1). reflexivity. Qed.

    Lemma wpart_t1 w k : w_part w = pb ->
      wpart cs1 w (map F1 U) k = map (fun ir => (fst ir, F1 ir)) (filter (fun y => keys_eqv k (key_of cs pb (snd y))) U).
    Proof. intros Wp. unfold wpart, U. rewrite tag_from_map_tag, filter_map_comm. f_equal. apply filter_ext_in. intros y Iy. cbn [snd].
      rewrite Wp, F1_key; [reflexivity|exact Iy|apply rank_facts]. Qed.

    Lemma rk2_val ir : In ir U -> exists q, rk2 ir = qn q /\ q == inject_Z (Z.of_nat (N2 ir)).
    Proof. intros I.
      assert (forall a, In a (wpart cs1 w2 (map F1 U) (key_of cs1 pb (F1 ir))) ->
                        exists a0, a = (fst a0, F1 a0) /\ In a0 U) as Form.
      { intros a Ia. rewrite wpart_t1 in Ia by reflexivity. apply in_map_iff in Ia as [a0 [<- Ia]]. apply filter_In in Ia as [Ia _]. exists a0. split; [reflexivity|exact Ia]. }
      destruct (cumsum_value fl w2 t1 (EConst (vnat 1)) (fun _ => 1) (fst ir, F1 ir)) as [q [Hq Eq]].
      - cbn [rows t1]. unfold U. rewrite tag_from_map_tag. apply in_map_iff. exists ir. split; [reflexivity|exact I].
      - cbn [cols rows t1 snd w_part w2]. intros a b Ia Ib Lab Lba.
        destruct (Form a Ia) as [a0 [-> Ia0]]. destruct (Form b Ib) as [b0 [-> Ib0]].
        unfold wle in Lab, Lba. cbn [w_order w_rev w2 snd mem] in Lab, Lba. change (map (fun c => (c, false)) (ob ++ [tb])) with (okeys (ob ++ [tb])) in Lab, Lba.
        rewrite F1_le in Lab, Lba by assumption. unfold le12 in Lab, Lba.
        apply andb_true_iff in Lab as [A1 A2]. apply andb_true_iff in Lba as [B1 B2]. rewrite B1 in A2. rewrite A1 in B2. cbn [negb orb] in A2, B2.
        apply Nat.leb_le in A2, B2. assert (a0 = b0) as -> by (apply U_inj; auto; lia). reflexivity.
      - intros y _. cbn [eval_expr]. rewrite vnat_eq. reflexivity.
      - exists q. split; [exact Hq|]. rewrite Eq, qsum_const, Qmult_1_r. cbn [cols rows t1 snd w_part w2].
        rewrite wpart_t1 by reflexivity. rewrite filter_map_comm, map_length, filter_filter. unfold N2.
        assert (forall (p p' : nat * list val -> bool) l, (forall x, In x l -> p x = p' x) -> List.length (filter p l) = List.length (filter p' l)) as FL
          by (intros p p' l H; rewrite (filter_ext_in p p' l H); reflexivity).
        rewrite (FL _ (fun y => sp ir y && le12 y ir) U); [reflexivity|].
        intros y Iy. f_equal.
        + unfold sp, same_part. rewrite F1_key; [reflexivity|exact I|apply rank_facts].
        + unfold wle. cbn [w_order w_rev w2 snd mem]. change (map (fun c => (c, false)) (ob ++ [tb])) with (okeys (ob ++ [tb])). apply F1_le; assumption.
    Qed.

    (* ---- step 3: the mean of those numbers over the tie group *)
    Definition w3 : window := mkwin (pb ++ ob) [] [].
    Definition e3 : expr := EOp "mean" [ECol rank].
    Definition v3 (ir : nat * list val) : val :=
      agg_fn fl "mean" (map (fun y => eval_expr fl cs2 (snd y) (ECol rank)) (wpart cs2 w3 (rows t2) (key_of cs2 (pb ++ ob) (F2 ir)))).

    Lemma step3 : sem_wextend fl [(rank, e3)] w3 t2 = mktable cs2 (map (fun ir => F1 ir ++ [v3 ir]) U).
    Proof. rewrite wextend1. cbn [cols rows t2].
      assert (In rank cs2) as Ir by (unfold cs2; apply in_or_app; right; left; reflexivity).
      rewrite (add_end_old cs2 rank Ir). f_equal. unfold U at 1. rewrite tag_from_map_tag, map_map. apply map_ext_in. intros ir I. cbn [fst snd w_part w3].
      assert (In (fst ir, F2 ir) (tag_from 0 (rows t2))) as I2
        by (cbn [rows t2]; unfold U; rewrite tag_from_map_tag; apply in_map_iff; exists ir; split; [reflexivity|exact I]).
      pose proof (mean_value fl (pb ++ ob) t2 (ECol rank) (fst ir, F2 ir) I2) as MV. cbn [cols rows t2 fst snd] in MV. unfold e3, w3. rewrite MV.
      unfold F2 at 1, cs2 at 1. rewrite (set_cell_snoc cs1 (F1 ir) rank _ _ rank_notin_cs1 (F1_len ir I)). reflexivity. Qed.

    (* ---- step 4: drop the tie breaker *)
    Lemma step4 : sem_drop_cols [tb] (mktable cs2 (map (fun ir => F1 ir ++ [v3 ir]) U)) = mktable (cs ++ [rank]) (map (fun ir => snd ir ++ [v3 ir]) U).
    Proof. destruct rank_facts as (Nr & Nt & Nrt & So & Sp & ND & W).
      unfold sem_drop_cols, sem_select_cols. cbn [cols rows].
      assert (filter (fun c => negb (mem c [tb])) cs2 = cs ++ [rank]) as F.
      { unfold cs2, cs1. rewrite !filter_app. cbn [filter].
        assert (mem tb [tb] = true) as M1 by (apply mem_In; left; reflexivity).
        assert (mem rank [tb] = false) as M2 by (apply mem_false; intros [E|[]]; congruence).
        rewrite M1, M2. cbn [negb app]. rewrite app_nil_r. f_equal. apply filter_all. intros a Ia.
        apply negb_true_iff, mem_false. intros [E|[]]. subst a. contradiction. }
      rewrite F. f_equal. rewrite map_map. apply map_ext_in. intros ir I. destruct (U_row ir I) as [_ L].
      unfold cs2, cs1, F1. rewrite <- !app_assoc. cbn [app]. rewrite map_app. cbn [map]. f_equal.
      - apply map_get_app_l; assumption.
      - f_equal. rewrite (get_app_r cs _ _ _ rank Nr L), (get_tail rank tb) by exact Nrt. apply get_head.
    Qed.

    (* ---- the value is the documented one *)
    Lemma sp_cong x y z : sp x y = true -> sp y z = sp x z.
    Proof. unfold sp, same_part. intros E. symmetry. apply keys_eqv_cong_l, E. Qed.

    Lemma v3_spec ir : In ir U -> v3 ir = rank_avg_value fl cs pb ob rs (snd ir).
    Proof. intros I. destruct rank_facts as (Nr & Nt & Nrt & So & Sp & ND & W).
      set (g := fun y : nat * list val => sp ir y && tied fl cs ob (snd y) (snd ir)).
      set (Gf := filter g U).
      assert (forall y, In y U -> List.length (F1 y) = List.length cs1) as L1 by (intros; apply F1_len; assumption).
      (* the tie group, as the window of step 3 sees it *)
      assert (wpart cs2 w3 (rows t2) (key_of cs2 (pb ++ ob) (F2 ir)) = map (fun y => (fst y, F2 y)) Gf) as WP.
      { unfold wpart. cbn [rows t2 w_part w3]. unfold U at 1. rewrite tag_from_map_tag, filter_map_comm. f_equal. apply filter_ext_in. intros y Iy. cbn [snd].
        assert (forall z, In z U -> key_of cs2 (pb ++ ob) (F2 z) = key_of cs pb (snd z) ++ key_of cs ob (snd z)) as K.
        { intros z Iz. rewrite <- key_of_app. unfold key_of. apply map_ext_in. intros c Ic. unfold cs2, F2.
          assert (In c cs) as Icc by (apply in_app_or in Ic as [Ic|Ic]; auto).
          rewrite get_app_l; [apply F1_get_old; assumption| unfold cs1; apply in_or_app; left; exact Icc | apply L1, Iz]. }
        rewrite !K by assumption. rewrite keys_eqv_app by (unfold key_of; rewrite !map_length; reflexivity).
        unfold g, sp, same_part. f_equal. rewrite tied_keys_eqv. apply keys_eqv_sym. }
      assert (In ir Gf) as IG.
      { apply filter_In. split; [exact I|]. unfold g, sp, same_part, tied. rewrite keys_eqv_refl, row_le_refl. reflexivity. }
      unfold v3. rewrite WP, map_map. cbn [snd eval_expr].
      assert (forall y, In y Gf -> get cs2 (F2 y) rank = rk2 y) as GR.
      { intros y Iy. apply filter_In in Iy as [Iy _]. unfold cs2, F2. rewrite (get_app_r cs1 _ _ _ rank rank_notin_cs1 (L1 y Iy)). apply get_head. }
      rewrite (map_ext_in _ rk2 Gf GR).
      rewrite (mean_of_nats fl rk2 N2 Gf); [|intros E; rewrite E in IG; destruct IG|intros y Iy; apply rk2_val; apply filter_In in Iy as [Iy _]; exact Iy].
      (* the counts *)
      set (r := snd ir).
      set (L := List.length (filter (fun r' => before fl cs ob r' r) (filter (same_part cs pb r) rs))).
      set (T := List.length (filter (fun r' => tied fl cs ob r' r) (filter (same_part cs pb r) rs))).
      assert (List.length Gf = T) as ET.
      { unfold T, Gf, g. rewrite filter_filter. unfold U. rewrite <- (filter_snd_length (fun r' => same_part cs pb r r' && tied fl cs ob r' r) rs 0). reflexivity. }
      assert (forall y, In y Gf -> N2 y = (L + List.length (filter (fun z => Nat.leb (nb (fst z)) (nb (fst y))) Gf))%nat) as EN.
      { intros y Iy. apply filter_In in Iy as [Iy Gy]. unfold g in Gy. apply andb_true_iff in Gy as [Sy Ty].
        unfold N2.
        rewrite (filter_ext_in _ (fun z => (sp ir z && before fl cs ob (snd z) r) || (g z && Nat.leb (nb (fst z)) (nb (fst y)))) U).
        - rewrite filter_length_or.
          + f_equal.
            * unfold L. rewrite filter_filter. unfold U. rewrite <- (filter_snd_length (fun r' => same_part cs pb r r' && before fl cs ob r' r) rs 0). reflexivity.
            * unfold Gf. rewrite filter_filter. reflexivity.
          + intros z _. unfold g, before, tied. fold r. destruct (sp ir z); [|reflexivity]. cbn [andb].
            destruct (row_le fl cs (okeys ob) (snd z) r); [|reflexivity]. cbn [andb].
            destruct (row_le fl cs (okeys ob) r (snd z)); reflexivity.
        - intros z Iz. rewrite (sp_cong ir y z Sy). unfold le12, leob, g, before, tied. fold r.
          rewrite (tied_le_l fl cs ob r (snd y) (snd z) Ty), (tied_le_r fl cs ob r (snd y) (snd z) Ty).
          destruct (sp ir z); [|reflexivity]. cbn [andb].
          destruct (row_le fl cs (okeys ob) (snd z) r); [|reflexivity]. cbn [andb].
          destruct (row_le fl cs (okeys ob) r (snd z)); reflexivity. }
      rewrite (map_ext_in N2 _ Gf EN), list_sum_add_const, ET.
      assert (NoDup (map (fun z : nat * list val => nb (fst z)) Gf)) as NDG.
      { apply NoDup_map_inj; [apply NoDup_filter, U_NoDup|].
        intros a b Ia Ib. apply filter_In in Ia as [Ia _]. apply filter_In in Ib as [Ib _]. apply U_inj; assumption. }
      pose proof (count_le_sum (fun z : nat * list val => nb (fst z)) Gf NDG) as CS. rewrite ET in CS.
      pose proof (list_sum_seq L T) as SS.
      unfold rank_avg_value. fold r. fold L. fold T. unfold qmean.
      assert (T <> 0)%nat as T0 by (rewrite <- ET; destruct Gf; [destruct IG|discriminate]).
      destruct (map (fun p => inject_Z (Z.of_nat p)) (seq (S L) T)) as [|q0 ql] eqn:EM.
      { destruct T; [congruence|discriminate]. }
      rewrite <- EM. apply qn_ext. rewrite map_length, seq_length.
      rewrite (qsum_inject_nat (fun p => p) (seq (S L) T)), map_id.
      assert (T * L + list_sum (map (fun y => List.length (filter (fun z => Nat.leb (nb (fst z)) (nb (fst y))) Gf)) Gf) = list_sum (seq (S L) T))%nat as EQN by lia.
      rewrite EQN. reflexivity.
    Qed.

    Lemma rank_steps234 :
      sem_drop_cols [tb] (sem_wextend fl [(rank, e3)] w3 (sem_wextend fl [(rank, e2)] w2 t1)) = rank_avg_spec fl ob pb rank t.
    Proof. rewrite step2, step3, step4. unfold rank_avg_spec. fold cs rs. f_equal.
      transitivity (map (fun r => r ++ [rank_avg_value fl cs pb ob rs r]) (map snd U)); [|unfold U; rewrite tag_from_snd; reflexivity].
      rewrite map_map. apply map_ext_in. intros ir I. f_equal. f_equal. apply v3_spec, I. Qed.
  End WithNb.

  Theorem rank_table_correct :
    sem_drop_cols [tb] (sem_wextend fl [(rank, EOp "mean" [ECol rank])] (mkwin (pb ++ ob) [] [])
                         (sem_wextend fl [(rank, EOp "cumsum" [EConst (vnat 1)])] (mkwin pb (ob ++ [tb]) [])
                            (sem_wextend fl [(tb, EOp "_row_number" [])] (mkwin [] ob []) t)))
    = rank_avg_spec fl ob pb rank t.
  Proof. destruct rank_facts as (Nr & Nt & Nrt & So & Sp & ND & W).
    destruct (row_number_value fl ob [] t tb) as [nb [Inj E]]. rewrite E. fold cs rs U.
    rewrite (add_end_new cs tb Nt).
    rewrite (map_ext_in _ (F1 nb) U) by (intros ir I; apply set_cell_new, Nt).
    apply (rank_steps234 nb Inj). Qed.
End Rank.

Theorem rank_to_average_correct (fl : flavor) (d : op) (ob pb : list string) (rank tb : string) (e : env) (t : table) :
  sem_gen fl d e = Some t -> rank_valid ob pb rank tb t = true ->
  exists out, sem_gen fl (rank_to_average_pipeline d ob pb rank tb) e = Some out /\ tbl_equiv out (rank_avg_spec fl ob pb rank t).
Proof. intros Hd V. exists (rank_avg_spec fl ob pb rank t). split; [|split; [reflexivity|apply Permutation_refl]].
  unfold rank_to_average_pipeline. cbn [sem_gen]. rewrite Hd. cbn [option_map]. f_equal. apply rank_table_correct, V. Qed.
