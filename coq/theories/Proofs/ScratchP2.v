(* C15, part B: the windowed extend step.  pexec_wextend with scratch names outside the user's names = plain_wextend. *)
From Coq Require Import List Bool Arith String Lia FinFun.
Import ListNotations.
From DA Require Import Base.PyRT Model.ScratchNames Proofs.ScratchP1.
Local Open Scope list_scope.

Definition wext_user (ops : list sop) (part order rev : list string) : list string :=
  part ++ order ++ rev ++ flat_map (fun o => so_key o :: arg_cols (so_arg o)) ops.

Record good_wextend (sn : pnames) (u : list string) : Prop := mkgw {
  gw_oi : ~ In (n_orig_index sn) u;
  gw_tg : ~ In (n_temp_g sn) u;
  gw_tmp : forall i, ~ In (n_ext_tmp sn i) u;
  gw_oi_tg : n_orig_index sn <> n_temp_g sn;
  gw_tmp_oi : forall i, n_ext_tmp sn i <> n_orig_index sn;
  gw_tmp_tg : forall i, n_ext_tmp sn i <> n_temp_g sn;
  gw_inj : forall i j, n_ext_tmp sn i = n_ext_tmp sn j -> i = j }.

(* ------------------------------------------------------------------ small list facts *)
Lemma fmapc_id {A} (f : frame A) : fmapc (fun a => a) f = f.
Proof. unfold fmapc. induction f as [|[k a] t IH]; simpl; [reflexivity|]. rewrite IH. reflexivity. Qed.

Lemma Forall2_app_one {X Y} (R : X -> Y -> Prop) l1 l2 x y : Forall2 R l1 l2 -> R x y -> Forall2 R (l1 ++ [x]) (l2 ++ [y]).
Proof. intros H Hxy. apply Forall2_app; [exact H|]. constructor; [exact Hxy|constructor]. Qed.

Lemma Forall2_impl {X Y} (R R' : X -> Y -> Prop) l1 l2 : (forall x y, R x y -> R' x y) -> Forall2 R l1 l2 -> Forall2 R' l1 l2.
Proof. intros H F. induction F; constructor; auto. Qed.

Lemma Forall2_impl_In {X Y} (R R' : X -> Y -> Prop) l1 l2 : (forall x y, In x l1 -> R x y -> R' x y) -> Forall2 R l1 l2 -> Forall2 R' l1 l2.
Proof. intros H F. induction F as [|a b l1 l2 Hab F IH]; constructor; [apply H; [left; reflexivity|exact Hab]|]. apply IH. intros x y Hx. apply H. right. exact Hx. Qed.

Lemma Forall2_map_eq {X Y Z} (g : X -> Z) (h : Y -> Z) l1 l2 : Forall2 (fun x y => g x = h y) l1 l2 -> map g l1 = map h l2.
Proof. intros F. induction F as [|x y l1 l2 E F IH]; simpl; [reflexivity|]. rewrite E, IH. reflexivity. Qed.

Lemma Forall2_In_l {X Y} (R : X -> Y -> Prop) l1 l2 x : Forall2 R l1 l2 -> In x l1 -> exists y, R x y.
Proof. intros F. induction F as [|a b l1 l2 Hab F IH]; intros I; [contradiction|]. destruct I as [<-|I]; [exists b; exact Hab|auto]. Qed.

Section Frames2.
  Context {A : Type}.
  Implicit Types f g : frame A.

  Lemma fselect_erase S g cs X : fselect g cs = Some X -> fselect g (filter (fun c => negb (mem c S)) cs) = Some (erase S X).
  Proof.
    revert X. induction cs as [|c t IH]; simpl; intros X E; [inversion E; reflexivity|].
    destruct (fget g c) as [a|] eqn:Ec; [|discriminate]. destruct (fselect g t) as [r|] eqn:Et; [|discriminate]. inversion E; subst.
    specialize (IH r eq_refl). unfold erase at 1. simpl. fold (erase S r).
    destruct (mem c S); simpl; [exact IH|]. rewrite Ec, IH. reflexivity.
  Qed.

  Lemma fselect_none_erase S g cs :
    (forall c, In c cs -> In c S -> fget g c <> None) -> fselect g cs = None -> fselect g (filter (fun c => negb (mem c S)) cs) = None.
  Proof.
    induction cs as [|c t IH]; simpl; intros H E; [discriminate|].
    assert (Ht : forall c0, In c0 t -> In c0 S -> fget g c0 <> None) by (intros c0 I; apply H; right; exact I).
    destruct (mem c S) eqn:M; simpl.
    - apply IH; [exact Ht|]. destruct (fget g c) as [a|] eqn:Ec.
      + destruct (fselect g t); [discriminate|reflexivity].
      + exfalso. apply (H c); [left; reflexivity|apply mem_In, M|exact Ec].
    - destruct (fget g c) as [a|] eqn:Ec; [|reflexivity].
      destruct (fselect g t) as [r|] eqn:Et; [discriminate|]. rewrite (IH Ht eq_refl). reflexivity.
  Qed.

  Lemma fdel_cons_same c a (t : frame A) : ~ In c (fcols t) -> fdel ((c, a) :: t) c = t.
  Proof. intros N. unfold fdel, dict_pop. simpl. rewrite eqb_refl. simpl. apply (fdel_absent t c N). Qed.

  Lemma fold_fdel_appended f (T : frame A) :
    NoDup (fcols T) -> (forall n, In n (fcols T) -> ~ In n (fcols f)) -> fold_left fdel (fcols T) (f ++ T) = f.
  Proof.
    revert f. induction T as [|[n a] t IH]; intros f N D; simpl; [apply app_nil_r|].
    inversion N as [|x l Hx N']; subst.
    rewrite fdel_app, fdel_absent by (apply D; left; reflexivity). rewrite fdel_cons_same by exact Hx.
    apply IH; [exact N'|]. intros m Hm. apply D. right. exact Hm.
  Qed.

  Lemma fget_app_absent f (T : frame A) c : ~ In c (fcols T) -> fget (f ++ T) c = fget f c.
  Proof. intros N. rewrite fget_app. destruct (fget f c); [reflexivity|]. apply fget_None, N. Qed.

  Lemma fget_app_r f (T : frame A) c : ~ In c (fcols f) -> fget (f ++ T) c = fget T c.
  Proof. intros N. rewrite fget_app. apply fget_None in N. rewrite N. reflexivity. Qed.
End Frames2.

Section WExtend.
  Context {A : Type} (P : prims A) (sn : pnames).
  Let one : A := p_const P "1".
  Let ext := n_ext_tmp sn.

  Definition tcols (temps : list (string * string)) : frame A := map (fun vn => (snd vn, p_const P (fst vn))) temps.

  Section Scan.
    Context (f : frame A) (rev u : list string).
    Context (Htmp : forall i, ~ In (ext i) u) (Hrev : forall c, In c rev -> In c u) (Hf : forall c, In c (fcols f) -> In c u).
    Context (Hinj : forall i j, ext i = ext j -> i = j).

    (* a sort key of the executor is a user column (read from the input) or one of the temp columns *)
    Definition krel (temps : list (string * string)) (n : string) (k : option A * bool) : Prop :=
      (In n u /\ k = (fget f n, negb (mem n rev))) \/ (exists v, In (v, n) temps /\ k = (Some (p_const P v), true)).

    Record sinv (cl cs : list string) (temps : list (string * string)) (res : frame A) (ucols : list string) (keys : list (option A * bool)) (seen : list string) : Prop := mksinv {
      si_cs : cs = ucols;
      si_seen : map fst temps = seen;
      si_names : map snd temps = map ext (seq 0 (List.length temps));
      si_res : res = f ++ tcols temps;
      si_keys : Forall2 (krel temps) cl keys;
      si_filter : filter (fun n => mem n u) cl = cs;
      si_csu : forall c, In c cs -> In c u;
      si_tin : forall vn, In vn temps -> In (snd vn) cl }.

    Lemma krel_mono temps x n k : krel temps n k -> krel (temps ++ [x]) n k.
    Proof. intros [H|[v [I E]]]; [left; exact H|right; exists v; split; [apply in_or_app; left; exact I|exact E]]. Qed.

    Lemma scan_rel ops : (forall o c, In o ops -> so_arg o = ArgCol c -> In c u) ->
      forall cl cs temps res ucols keys seen, sinv cl cs temps res ucols keys seen ->
      let '(cl', temps', res') := ext_scan P sn ops cl cs temps res in
      let '(ucols', keys', seen') := plain_scan P rev f ops ucols keys seen in
      exists cs', sinv cl' cs' temps' res' ucols' keys' seen'.
    Proof.
      induction ops as [|o t IH]; intros Hu cl cs temps res ucols keys seen I; simpl; [exists cs; exact I|].
      assert (Hu' : forall o0 c, In o0 t -> so_arg o0 = ArgCol c -> In c u) by (intros o0 c Ho; apply Hu; right; exact Ho).
      destruct I as [Ics Iseen Inames Ires Ikeys Ifil Icsu Itin]. subst ucols.
      destruct (so_arg o) as [|c|v] eqn:Ea.
      - apply (IH Hu'). constructor. all: try assumption; try reflexivity.
      - assert (Hc : In c u) by (apply (Hu o c); [left; reflexivity|exact Ea]).
        destruct (mem c cs) eqn:Mc.
        + apply (IH Hu'). constructor. all: try assumption; try reflexivity.
        + apply (IH Hu'). constructor. all: try assumption; try reflexivity.
          * apply Forall2_app_one; [exact Ikeys|]. left. split; [exact Hc|reflexivity].
          * rewrite filter_app, Ifil. simpl. assert (M : mem c u = true) by (apply mem_In, Hc). rewrite M. reflexivity.
          * intros c0 Hc0. apply in_app_or in Hc0. destruct Hc0 as [H|[<-|[]]]; [apply Icsu, H|exact Hc].
          * intros vn Hvn. apply in_or_app. left. apply Itin, Hvn.
      - unfold dict_has. rewrite Iseen. destruct (mem v seen) eqn:Mv.
        + apply (IH Hu'). constructor. all: try assumption; try reflexivity.
        + apply (IH Hu'). constructor. all: try assumption; try reflexivity.
          * rewrite map_app, Iseen. reflexivity.
          * rewrite map_app, app_length, Inames. simpl. rewrite Nat.add_1_r, seq_S, map_app. reflexivity.
          * rewrite Ires. unfold tcols. rewrite map_app. simpl. rewrite app_assoc. apply fset_absent.
            unfold fcols. rewrite map_app, in_app_iff. intros [H|H].
            -- apply (Htmp (List.length temps)). apply Hf. exact H.
            -- rewrite map_map in H. simpl in H. fold (map snd temps) in H. change (map (fun x : string * string => snd x) temps) with (map snd temps) in H.
               rewrite Inames in H. apply in_map_iff in H. destruct H as [j [Ej Hj]]. apply Hinj in Ej. apply in_seq in Hj. lia.
          * apply Forall2_app_one.
            -- eapply Forall2_impl; [|exact Ikeys]. intros x y. apply krel_mono.
            -- right. exists v. split; [apply in_or_app; right; left; reflexivity|reflexivity].
          * rewrite filter_app, Ifil. simpl. assert (M : mem (n_ext_tmp sn (List.length temps)) u = false) by (apply mem_false, Htmp). rewrite M. apply app_nil_r.
          * intros vn Hvn. apply in_or_app. apply in_app_or in Hvn. destruct Hvn as [H|[<-|[]]]; [left; apply Itin, H|right; left; reflexivity].
    Qed.
  End Scan.

  (* ---------------- the transform loop *)
  Section Ops.
    Context (S : list string) (temps : list (string * string)) (tmps : list (string * A)) (gkeys : list A) (u : list string).
    Context (HS : forall c, In c u -> ~ In c S) (Hoi : In (n_orig_index sn) S) (Htg : In (n_temp_g sn) S).
    Context (Hnone : forall tx, dict_get temps tx = None -> dict_get tmps tx = None).

    Definition oinv (psub sub : frame A) (oi : A) : Prop :=
      erase S psub = sub /\ fget psub (n_orig_index sn) = Some oi /\ fget psub (n_temp_g sn) <> None
      /\ (forall v nm, dict_get temps v = Some nm -> In nm S /\ fget psub nm = dict_get tmps v).

    Lemma ext_ops_rel ops :
      (forall o, In o ops -> In (so_key o) u /\ forall c, so_arg o = ArgCol c -> In c u) ->
      forall psub sub oi, oinv psub sub oi ->
      match ext_ops P sn temps gkeys ops psub, plain_ext_ops P tmps gkeys ops sub with
      | Some p4, Some s4 => oinv p4 s4 oi
      | None, None => True
      | _, _ => False
      end.
    Proof.
      induction ops as [|o t IH]; intros Hu psub sub oi I; simpl; [exact I|].
      destruct I as (Ie & Io & Ig & It).
      destruct (Hu o (or_introl eq_refl)) as [Hk Hc].
      assert (Hu' : forall o0, In o0 t -> In (so_key o0) u /\ forall c, so_arg o0 = ArgCol c -> In c u) by (intros o0 Ho; apply Hu; right; exact Ho).
      assert (Ecol :
        (match so_arg o with
         | ArgNone => if (String.eqb (so_fn o) "_row_number" || String.eqb (so_fn o) "_count")%bool then Some (p_cumcount P gkeys)
                      else if String.eqb (so_fn o) "_ngroup" then Some (p_ngroup P gkeys)
                      else if String.eqb (so_fn o) "_size" then (_ <- fget psub (n_temp_g sn) ;; Some (p_size P gkeys)) else None
         | ArgCol c => v <- fget psub c ;; Some (p_transform P (so_fn o) (so_extra o) gkeys v)
         | ArgVal tx => name <- dict_get temps tx ;; v <- fget psub name ;; Some (p_transform P (so_fn o) (so_extra o) gkeys v)
         end)
        = (match so_arg o with
           | ArgNone => if (String.eqb (so_fn o) "_row_number" || String.eqb (so_fn o) "_count")%bool then Some (p_cumcount P gkeys)
                        else if String.eqb (so_fn o) "_ngroup" then Some (p_ngroup P gkeys)
                        else if String.eqb (so_fn o) "_size" then Some (p_size P gkeys) else None
           | ArgCol c => v <- fget sub c ;; Some (p_transform P (so_fn o) (so_extra o) gkeys v)
           | ArgVal tx => v <- dict_get tmps tx ;; Some (p_transform P (so_fn o) (so_extra o) gkeys v)
           end)).
      { destruct (so_arg o) as [|c|tx] eqn:Ea.
        - destruct (fget psub (n_temp_g sn)) as [g|]; [reflexivity|congruence].
        - rewrite <- Ie, fget_erase by (apply HS, Hc; reflexivity). reflexivity.
        - destruct (dict_get temps tx) as [nm|] eqn:G; simpl.
          + destruct (It tx nm G) as [_ Fg]. rewrite Fg. reflexivity.
          + rewrite (Hnone tx G). reflexivity. }
      rewrite Ecol. clear Ecol.
      destruct (match so_arg o with
                | ArgNone => if (String.eqb (so_fn o) "_row_number" || String.eqb (so_fn o) "_count")%bool then Some (p_cumcount P gkeys)
                             else if String.eqb (so_fn o) "_ngroup" then Some (p_ngroup P gkeys)
                             else if String.eqb (so_fn o) "_size" then Some (p_size P gkeys) else None
                | ArgCol c => v <- fget sub c ;; Some (p_transform P (so_fn o) (so_extra o) gkeys v)
                | ArgVal tx => v <- dict_get tmps tx ;; Some (p_transform P (so_fn o) (so_extra o) gkeys v)
                end) as [col|]; simpl; [|exact I].
      apply (IH Hu'). assert (Nk : ~ In (so_key o) S) by (apply HS, Hk). repeat split.
      - rewrite erase_fset_user by exact Nk. rewrite Ie. reflexivity.
      - rewrite fget_fset_other; [exact Io|]. intros E. apply Nk. rewrite <- E. exact Hoi.
      - rewrite fget_fset_other; [exact Ig|]. intros E. apply Nk. rewrite <- E. exact Htg.
      - apply (It v nm H).
      - destruct (It v nm H) as [Hin Fg]. rewrite fget_fset_other; [exact Fg|]. intros E. apply Nk. rewrite <- E. exact Hin.
    Qed.
  End Ops.

  (* ---------------- helpers for the main theorem *)
  Lemma add_new_In l cs c : In c (add_new l cs) -> In c l \/ In c cs.
  Proof.
    revert l. induction cs as [|x t IH]; intros l H; simpl in *; [tauto|].
    apply IH in H. destruct H as [H|H]; [|tauto]. destruct (mem x l); [tauto|]. apply in_app_or in H. destruct H as [H|[<-|[]]]; tauto.
  Qed.
  Lemma base_cols_In part order c : In c (base_cols part order) -> In c part \/ In c order.
  Proof. unfold base_cols. intros H. apply add_new_In in H. destruct H as [H|H]; [left; apply In_py_set, H|right; exact H]. Qed.

  Lemma Forall2_map_r {X Y} (R : X -> Y -> Prop) (g : X -> Y) l : (forall x, In x l -> R x (g x)) -> Forall2 R l (map g l).
  Proof. induction l as [|x t IH]; intros H; simpl; constructor; [apply H; left; reflexivity|apply IH; intros y Hy; apply H; right; exact Hy]. Qed.

  Lemma filter_all {X} (p : X -> bool) l : (forall x, In x l -> p x = true) -> filter p l = l.
  Proof. induction l as [|x t IH]; intros H; simpl; [reflexivity|]. rewrite (H x (or_introl eq_refl)), IH; [reflexivity|]. intros y Hy. apply H. right. exact Hy. Qed.

  Lemma dict_get_tabulate (g : string -> A) l v : dict_get (map (fun x => (x, g x)) l) v = if mem v l then Some (g v) else None.
  Proof. induction l as [|x t IH]; simpl; [reflexivity|]. destruct (eq_dec v x) as [->|n]; [reflexivity|exact IH]. Qed.

  Lemma fcols_tcols temps : fcols (tcols temps) = map snd temps.
  Proof. unfold fcols, tcols. rewrite map_map. reflexivity. Qed.

  Theorem wextend_no_capture ops part order rev f :
    good_wextend sn (fcols f ++ wext_user ops part order rev) ->
    pexec_wextend P sn ops part order rev f = plain_wextend P ops part order rev f.
  Proof.
    intros [Goi Gtg Gtmp Goitg Gtmpoi Gtmptg Ginj].
    set (u := fcols f ++ wext_user ops part order rev) in *.
    assert (Upart : forall c, In c part -> In c u) by (intros c H; apply in_or_app; right; unfold wext_user; apply in_or_app; left; exact H).
    assert (Uorder : forall c, In c order -> In c u) by (intros c H; apply in_or_app; right; unfold wext_user; apply in_or_app; right; apply in_or_app; left; exact H).
    assert (Urev : forall c, In c rev -> In c u) by (intros c H; apply in_or_app; right; unfold wext_user; apply in_or_app; right; apply in_or_app; right; apply in_or_app; left; exact H).
    assert (Uf : forall c, In c (fcols f) -> In c u) by (intros c H; apply in_or_app; left; exact H).
    assert (Uops : forall o, In o ops -> In (so_key o) u /\ forall c, so_arg o = ArgCol c -> In c u).
    { intros o Ho. split; [|intros c Ea]; apply in_or_app; right; unfold wext_user; do 3 (apply in_or_app; right); apply in_flat_map; exists o; (split; [exact Ho|]).
      - left. reflexivity.
      - rewrite Ea. right. left. reflexivity. }
    unfold pexec_wextend, plain_wextend. fold one.
    set (cl0 := base_cols part order).
    assert (Ucl0 : forall c, In c cl0 -> In c u) by (intros c H; apply base_cols_In in H; destruct H; auto).
    assert (I0 : sinv f rev u cl0 cl0 [] f cl0 (map (fun c => (fget f c, negb (mem c rev))) cl0) []).
    { constructor; try reflexivity.
      - simpl. symmetry. apply app_nil_r.
      - apply Forall2_map_r. intros c Hc. left. split; [apply Ucl0, Hc|reflexivity].
      - apply filter_all. intros c Hc. apply mem_In, Ucl0, Hc.
      - exact Ucl0.
      - intros vn []. }
    pose proof (scan_rel f rev u Gtmp Uf Ginj ops (fun o c Ho Ea => proj2 (Uops o Ho) c Ea) _ _ _ _ _ _ _ I0) as SR.
    destruct (ext_scan P sn ops cl0 cl0 [] f) as [[cl temps] res1].
    destruct (plain_scan P rev f ops cl0 (map (fun c => (fget f c, negb (mem c rev))) cl0) []) as [[ucols keys] seen].
    destruct SR as [cs' [Ics Iseen Inames Ires Ikeys Ifil Icsu Itin]]. subst cs'.
    set (S := n_orig_index sn :: n_temp_g sn :: map snd temps).
    assert (HS : forall c, In c u -> ~ In c S).
    { intros c Hc [E|[E|H]]; [subst c; contradiction|subst c; contradiction|].
      rewrite Inames in H. apply in_map_iff in H. destruct H as [j [E _]]. subst c. exact (Gtmp j Hc). }
    assert (Hoi : In (n_orig_index sn) S) by (left; reflexivity).
    assert (Htg : In (n_temp_g sn) S) by (right; left; reflexivity).
    assert (Tnm : forall v nm, In (v, nm) temps -> exists j, nm = n_ext_tmp sn j).
    { intros v nm H. assert (H2 : In nm (map snd temps)) by (apply in_map_iff; exists (v, nm); split; [reflexivity|exact H]).
      rewrite Inames in H2. apply in_map_iff in H2. destruct H2 as [j [E _]]. exists j. symmetry. exact E. }
    assert (F1 : forall n, In n cl -> In n u \/ exists v, In (v, n) temps).
    { intros n Hn. destruct (Forall2_In_l _ _ _ _ Ikeys Hn) as [k [[H _]|[v [H _]]]]; [left; exact H|right; exists v; exact H]. }
    assert (NDT : NoDup (fcols (tcols temps))).
    { rewrite fcols_tcols, Inames. apply Injective_map_NoDup; [intros i j E; apply Ginj, E|apply seq_NoDup]. }
    assert (Ru : forall c, In c u -> fget res1 c = fget f c).
    { intros c Hc. rewrite Ires. apply fget_app_absent. rewrite fcols_tcols. intros H. apply (HS c Hc). right. right. exact H. }
    assert (Rt : forall v nm, In (v, nm) temps -> fget res1 nm = Some (p_const P v)).
    { intros v nm H. destruct (Tnm v nm H) as [j E]. rewrite Ires, fget_app_r.
      - apply dict_get_NoDup_In; [exact NDT|]. unfold tcols. apply in_map_iff. exists (v, nm). split; [reflexivity|exact H].
      - intros Hf. subst nm. exact (Gtmp j (Uf _ Hf)). }
    assert (Hfil : filter (fun c => negb (mem c S)) cl = ucols).
    { rewrite <- Ifil. apply filter_ext_in. intros n Hn. destruct (F1 n Hn) as [Hu|[v Hv]].
      - assert (M1 : mem n u = true) by (apply mem_In, Hu). assert (M2 : mem n S = false) by (apply mem_false, HS, Hu). rewrite M1, M2. reflexivity.
      - assert (M2 : mem n S = true). { apply mem_In. right. right. apply in_map_iff. exists (v, n). split; [reflexivity|exact Hv]. }
        assert (M1 : mem n u = false). { apply mem_false. destruct (Tnm v n Hv) as [j ->]. apply Gtmp. }
        rewrite M1, M2. reflexivity. }
    assert (Esel : fselect f ucols = fselect res1 ucols) by (apply fselect_ext; intros c Hc; symmetry; apply Ru, Icsu, Hc).
    destruct (fselect res1 cl) as [X|] eqn:EX; simpl.
    2:{ rewrite Esel, <- Hfil. rewrite (fselect_none_erase S res1 cl); [reflexivity| |exact EX].
        intros c Hc HcS. destruct (F1 c Hc) as [Hu|[v Hv]]; [exfalso; exact (HS c Hu HcS)|]. rewrite (Rt v c Hv). discriminate. }
    rewrite Esel, <- Hfil, (fselect_erase S res1 cl X EX). simpl.
    assert (XG : forall n, In n cl -> fget X n = fget res1 n) by (intros n Hn; apply (fselect_get res1 cl X n EX Hn)).
    set (sub1 := fset X (n_orig_index sn) (p_index P)).
    assert (NclS : forall n, In n cl -> n <> n_orig_index sn /\ n <> n_temp_g sn).
    { intros n Hn. destruct (F1 n Hn) as [Hu|[v Hv]].
      - split; intros ->; contradiction.
      - destruct (Tnm v n Hv) as [j ->]. split; [apply Gtmpoi|apply Gtmptg]. }
    assert (K1 : map (fget sub1) cl = map fst keys).
    { apply Forall2_map_eq. eapply Forall2_impl_In; [|exact Ikeys]. intros n k Hn Hk. simpl.
      destruct (NclS n Hn) as [N1 _]. unfold sub1. rewrite fget_fset_other by exact N1. rewrite (XG n Hn).
      destruct Hk as [[Hu ->]|[v [Hv ->]]]; simpl; [apply Ru, Hu|apply (Rt v n Hv)]. }
    assert (K2 : map (fun c => negb (mem c rev)) cl = map snd keys).
    { apply Forall2_map_eq. eapply Forall2_impl; [|exact Ikeys]. intros n k Hk. simpl.
      destruct Hk as [[Hu ->]|[v [Hv ->]]]; simpl; [reflexivity|].
      destruct (Tnm v n Hv) as [j ->]. assert (M : mem (n_ext_tmp sn j) rev = false) by (apply mem_false; intros H; exact (Gtmp j (Urev _ H))).
      rewrite M. reflexivity. }
    assert (Esort : (match cl0 with
                     | [] => Some sub1
                     | _ :: _ => ks <- freads sub1 cl ;; Some (sort_frame P (combine ks (map (fun c => negb (mem c rev)) cl)) sub1)
                     end)
                    = option_map (fun s => fmapc s sub1)
                        (match cl0 with
                         | [] => Some (fun a : A => a)
                         | _ :: _ => ks <- all_some (map fst keys) ;; Some (p_sort P (combine ks (map snd keys)))
                         end)).
    { destruct cl0 as [|c0 t0]; [simpl; rewrite fmapc_id; reflexivity|]. unfold freads. rewrite K1, K2.
      destruct (all_some (map fst keys)); reflexivity. }
    fold sub1. rewrite Esort. clear Esort.
    destruct (match cl0 with
              | [] => Some (fun a : A => a)
              | _ :: _ => ks <- all_some (map fst keys) ;; Some (p_sort P (combine ks (map snd keys)))
              end) as [s|]; simpl; [|reflexivity].
    set (sub2 := fmapc s sub1). set (sub3 := fset sub2 (n_temp_g sn) one). set (Y2 := fmapc s (erase S X)).
    assert (E3 : erase S sub3 = Y2).
    { unfold sub3, sub2, sub1, Y2. rewrite erase_fset_scratch by exact Htg. rewrite erase_fmapc, erase_fset_scratch by exact Hoi. reflexivity. }
    assert (Egk : (match part with [] => freads sub3 [n_temp_g sn] | _ :: _ => freads sub3 part end)
                  = (match part with [] => Some [one] | _ :: _ => freads Y2 part end)).
    { destruct part as [|p0 pt].
      - unfold freads. simpl. unfold sub3. rewrite fget_fset_same. reflexivity.
      - apply freads_ext. intros c Hc. rewrite <- E3. rewrite fget_erase by (apply HS, Upart, Hc). reflexivity. }
    rewrite Egk. clear Egk.
    destruct (match part with [] => Some [one] | _ :: _ => freads Y2 part end) as [gkeys|]; simpl; [|reflexivity].
    set (tmps := map (fun v => (v, s (p_const P v))) seen).
    assert (Hnone : forall tx, dict_get temps tx = None -> dict_get tmps tx = None).
    { intros tx G. unfold tmps. rewrite dict_get_tabulate. apply dict_get_None in G. unfold dict_keys in G. rewrite Iseen in G.
      apply mem_false in G. rewrite G. reflexivity. }
    assert (OI : oinv S temps tmps sub3 Y2 (s (p_index P))).
    { split; [exact E3|]. split; [|split].
      - unfold sub3, sub2, sub1. rewrite fget_fset_other by exact Goitg. rewrite fget_fmapc, fget_fset_same. reflexivity.
      - unfold sub3. rewrite fget_fset_same. discriminate.
      - intros v nm G. apply dict_get_In in G. split.
        + right. right. apply in_map_iff. exists (v, nm). split; [reflexivity|exact G].
        + assert (Hn : In nm cl) by (apply (Itin (v, nm) G)). destruct (NclS nm Hn) as [N1 N2].
          unfold sub3, sub2, sub1. rewrite fget_fset_other by exact N2. rewrite fget_fmapc, fget_fset_other by exact N1.
          rewrite (XG nm Hn), (Rt v nm G). unfold tmps. rewrite dict_get_tabulate.
          assert (M : mem v seen = true). { apply mem_In. rewrite <- Iseen. apply in_map_iff. exists (v, nm). split; [reflexivity|exact G]. }
          rewrite M. reflexivity. }
    pose proof (ext_ops_rel S temps tmps gkeys u HS Hoi Htg Hnone ops Uops sub3 Y2 (s (p_index P)) OI) as OR.
    destruct (ext_ops P sn temps gkeys ops sub3) as [p4|], (plain_ext_ops P tmps gkeys ops Y2) as [s4|]; simpl; try contradiction; [|reflexivity].
    destruct OR as (Oe & Oo & _ & _). rewrite Oo. simpl.
    assert (Eres : fold_left fdel (map snd temps) res1 = f).
    { rewrite Ires, <- fcols_tcols. apply fold_fdel_appended; [exact NDT|]. intros n Hn Hf. rewrite fcols_tcols, Inames in Hn.
      apply in_map_iff in Hn. destruct Hn as [j [E _]]. subst n. exact (Gtmp j (Uf _ Hf)). }
    rewrite Eres.
    assert (E5 : erase S (sort_frame P [(s (p_index P), true)] p4) = sort_frame P [(s (p_index P), true)] s4).
    { unfold sort_frame. rewrite erase_fmapc, Oe. reflexivity. }
    rewrite (fselect_ext (sort_frame P [(s (p_index P), true)] p4) (sort_frame P [(s (p_index P), true)] s4) (map so_key ops)).
    - reflexivity.
    - intros c Hc. apply in_map_iff in Hc. destruct Hc as [o [<- Ho]]. rewrite <- E5. rewrite fget_erase; [reflexivity|]. apply HS. exact (proj1 (Uops o Ho)).
  Qed.
End WExtend.
