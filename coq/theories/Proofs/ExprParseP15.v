(* Proofs/ExprParseP15.v -- C13, part 3: what the walker builds is printable -- facts about the method table and
   the operator tables (checked by computation once, then used entry by entry). *)
From Coq Require Import List Bool String Ascii ZArith NArith QArith Arith Lia.
Import ListNotations.
From DA Require Import Model.PyExpr Model.ExprPrint Model.ExprParse Model.ExprAst Model.ExprRoundtrip
  Proofs.ExprParseP1 Proofs.ExprParseP2 Proofs.ExprParseP12.
Local Close Scope Q_scope.
Local Open Scope string_scope.
Local Open Scope bool_scope.
Local Open Scope list_scope.

(* ------------------------------------------------------------------ reflexivity of the structural equality *)
Lemma Qeqb_s_refl q : Qeqb_s q q = true.
Proof. unfold Qeqb_s. rewrite Z.eqb_refl, Pos.eqb_refl. reflexivity. Qed.
Lemma pval_eqb_refl v : pval_eqb v v = true.
Proof. destruct v; simpl; try reflexivity.
  - apply Bool.eqb_reflx. - apply Z.eqb_refl. - rewrite Bool.eqb_reflx, Qeqb_s_refl. reflexivity.
  - apply Bool.eqb_reflx. - apply String.eqb_refl. Qed.
Lemma list_eqb_refl {A} (f : A -> A -> bool) l : (forall x, In x l -> f x x = true) -> list_eqb f l l = true.
Proof. induction l as [|x l IH]; intros H; [reflexivity|]. simpl. rewrite (H x (or_introl eq_refl)), IH; [reflexivity|].
  intros y Hy. apply H. right. exact Hy. Qed.
Lemma expr_eqb_refl_n : forall n e, esize e < n -> expr_eqb e e = true.
Proof. induction n as [|n IH]; intros e Hs; [lia|]. destruct e as [x|x|x|x|o i m p xs]; simpl.
  - apply String.eqb_refl.
  - apply pval_eqb_refl.
  - apply list_eqb_refl. intros; apply pval_eqb_refl.
  - apply list_eqb_refl. intros [a b] _. simpl. rewrite !pval_eqb_refl. reflexivity.
  - rewrite String.eqb_refl, !Bool.eqb_reflx. cbn [andb].
    assert (Hp : params_eqb_s p p = true).
    { destruct p as [l|]; [|reflexivity]. simpl. apply list_eqb_refl. intros [a b] _. simpl.
      rewrite String.eqb_refl, pval_eqb_refl. reflexivity. }
    rewrite Hp. cbn [andb]. apply list_eqb_refl. intros a Ha. apply IH.
    pose proof (esize_arg o i m p xs a Ha). lia. Qed.
Lemma expr_eqb_refl e : expr_eqb e e = true.
Proof. apply (expr_eqb_refl_n (S (esize e))). lia. Qed.
Lemma res_expr_eqb_refl r e : r = Ok e -> res_expr_eqb r (Ok e) = true.
Proof. intros ->. simpl. apply expr_eqb_refl. Qed.

(* ------------------------------------------------------------------ constructors, with what they check *)
Lemma mk_expr_inv c op args i m e : mk_expr c op args i m = Ok e ->
  e = EOp op i m None args /\ mem_str op (known c) = true /\ i && m = false.
Proof. unfold mk_expr. destruct (mem_str op (known c)); [|discriminate]. cbn [negb].
  destruct (i && m); [discriminate|]. intros H. inversion H. auto. Qed.

Lemma op_expr_inv c op a b i m chk e : op_expr c op a b i m chk = Ok e ->
  e = EOp op i m None [a; b] /\ mem_str op (known c) = true /\ i && m = false.
Proof. unfold op_expr. destruct (is_none_value a || is_none_value b); [discriminate|].
  destruct (chk && obvious_type_problem a b); [discriminate|]. apply mk_expr_inv. Qed.

(* ------------------------------------------------------------------ the method table, entry by entry *)
Definition mspec_eqb (a b : mspec) : bool :=
  match a, b with
  | MUop x, MUop y => x ==s y
  | MBin x i m k, MBin y i' m' k' => (x ==s y) && Bool.eqb i i' && Bool.eqb m m' && Bool.eqb k k'
  | MRBin x, MRBin y => x ==s y
  | MTri x i m, MTri y i' m' => (x ==s y) && Bool.eqb i i' && Bool.eqb m m'
  | MNeg, MNeg | MPos, MPos | MRPow, MRPow | MShift, MShift | MAround, MAround | MMapv, MMapv
  | MTrimstr, MTrimstr | MCoalesce0, MCoalesce0 => true
  | MFmt x d k, MFmt y d' k' => (x ==s y) && (d ==s d') && Bool.eqb k k'
  | _, _ => false
  end.
Lemma mspec_eqb_eq a b : mspec_eqb a b = true -> a = b.
Proof. destruct a, b; simpl; intros H; try discriminate H; try reflexivity;
  repeat (apply andb_prop in H as [H ?]);
  repeat match goal with
         | E : (_ ==s _) = true |- _ => apply String.eqb_eq in E
         | E : Bool.eqb _ _ = true |- _ => apply Bool.eqb_prop in E
         end; subst; reflexivity. Qed.

Definition finds (name : string) (sp : mspec) : bool :=
  match find_method name method_table with Some sp' => mspec_eqb sp' sp | None => false end.

(* what is needed of one entry so that a call written with a non-dunder name yields a printable expression *)
Definition entry_ok (name : string) (sp : mspec) : bool :=
  if is_dunder name then true else
  match sp with
  | MUop op => negb (is_sym_text op) && negb (is_dunder op) && finds op (MUop op)
  | MBin op i m chk =>
      if m then negb (is_sym_text op) && negb (is_dunder op) && finds op (MBin op i m chk)
      else if i then mem_str op bin2_ops && negb (mem_str op kops) && (remap op_remap op ==s name) && negb (op ==s "**")
      else negb (is_sym_text op)
  | MTri op i m => m && negb i && negb (is_sym_text op) && negb (is_dunder op) && finds op (MTri op i m)
  | MShift => negb (is_sym_text "shift") && finds "shift" MShift
  | MAround => negb (is_sym_text "around")
  | MMapv => negb (is_sym_text "mapv") && finds "mapv" MMapv
  | MTrimstr => negb (is_sym_text "trimstr") && finds "trimstr" MTrimstr
  | MCoalesce0 => negb (is_sym_text "coalesce") && finds "coalesce" (MBin "coalesce" false true true)
  | MFmt op d k => negb (is_sym_text op) && negb (is_dunder op) && finds op (MFmt op d k)
  | MRBin _ | MNeg | MPos | MRPow => false
  end.

Lemma table_ok : forallb (fun kv => entry_ok (fst kv) (snd kv)) method_table = true.
Proof. vm_compute. reflexivity. Qed.

Lemma find_method_In name l sp : find_method name l = Some sp -> In (name, sp) l.
Proof. induction l as [|[k v] l IH]; simpl; [discriminate|]. destruct (name ==s k) eqn:E.
  - apply String.eqb_eq in E. intros H; inversion H; subst. left. reflexivity.
  - intros H. right. apply IH, H. Qed.

Lemma entry_ok_of name sp : find_method name method_table = Some sp -> entry_ok name sp = true.
Proof. intros H. apply find_method_In in H. pose proof table_ok as T. rewrite forallb_forall in T. exact (T _ H). Qed.

Lemma finds_eq name sp : finds name sp = true -> find_method name method_table = Some sp.
Proof. unfold finds. destruct (find_method name method_table) as [sp'|]; [|discriminate]. intros H. apply mspec_eqb_eq in H. subst. reflexivity. Qed.

(* ------------------------------------------------------------------ the operator tokens of the three arithmetic / comparison levels *)
Definition step_ok (op : string) : bool :=
  match find_method (remap op_remap op) method_table with
  | Some (MBin op' i m chk) =>
      if m then negb i && negb (is_sym_text op') && negb (is_dunder op') && finds op' (MBin op' i m chk) && (remap op_remap op ==s op')
      else i && (mem_str op' kops || (mem_str op' bin2_ops && (remap op_remap op' ==s remap op_remap op) && negb (op' ==s "**")))
  | _ => false
  end.

Lemma steps_ok : forallb step_ok ["<"; ">"; "=="; ">="; "<="; "<>"; "!="; "+"; "-"; "*"; "/"; "%+%"; "%?%"; "%"; "//"; "%/%"] = true.
Proof. vm_compute. reflexivity. Qed.

Lemma binop_levels L op : is_binop_at L op = true -> In L [3; 8; 9] ->
  In op ["<"; ">"; "=="; ">="; "<="; "<>"; "!="; "+"; "-"; "*"; "/"; "%+%"; "%?%"; "%"; "//"; "%/%"].
Proof. intros H HL. unfold is_binop_at in H. destruct (binlvl op) as [l|] eqn:B; [|discriminate H].
  apply Nat.eqb_eq in H. subst l. revert B. unfold binlvl.
  destruct (op ==s "or"); [intros B; inversion B; subst; simpl in HL; exfalso; intuition discriminate|].
  destruct (op ==s "and"); [intros B; inversion B; subst; simpl in HL; exfalso; intuition discriminate|].
  destruct (mem_str op ["<"; ">"; "=="; ">="; "<="; "<>"; "!="]) eqn:M3.
  { intros _. apply mem_str_In in M3. simpl in M3. simpl. tauto. }
  destruct (op ==s "|"); [intros B; inversion B; subst; simpl in HL; exfalso; intuition discriminate|].
  destruct (op ==s "^"); [intros B; inversion B; subst; simpl in HL; exfalso; intuition discriminate|].
  destruct (op ==s "&"); [intros B; inversion B; subst; simpl in HL; exfalso; intuition discriminate|].
  destruct (mem_str op ["<<"; ">>"]); [intros B; inversion B; subst; simpl in HL; exfalso; intuition discriminate|].
  destruct (mem_str op ["+"; "-"]) eqn:M8.
  { intros _. apply mem_str_In in M8. simpl in M8. simpl. tauto. }
  destruct (mem_str op ["*"; "/"; "%+%"; "%?%"; "%"; "//"; "%/%"]) eqn:M9.
  { intros _. apply mem_str_In in M9. simpl in M9. simpl. tauto. }
  destruct (op ==s "**"); intros B; inversion B; subst; simpl in HL; exfalso; intuition discriminate. Qed.
