(* C16, part 2: consequences of "natural_join = the SQL join": what one row contributes (m partners -> m rows, none -> one
   NULL-extended row in the preserving join types), row counts, null keys never match, the value of a shared column,
   and Pandas' null-matching merge (refuted in general, proved when no null key can meet a null key). *)
From Coq Require Import List Bool Arith ZArith QArith String Lia Permutation.
Import ListNotations.
From DA Require Import Base.PyRT Base.Val Model.Sem Model.JoinSpec Model.JoinEmul Proofs.SemBasicP Proofs.JoinP1.
Local Open Scope list_scope.

(* ---------- list plumbing *)
Lemma flat_map_app_perm {A B} (f g : A -> list B) l :
  Permutation (flat_map f l ++ flat_map g l) (flat_map (fun x => f x ++ g x) l).
Proof.
  induction l as [|x t IH]; simpl; [constructor|].
  rewrite <- !app_assoc. apply Permutation_app_head.
  eapply perm_trans; [|apply Permutation_app_head, IH].
  rewrite !app_assoc. apply Permutation_app_tail, Permutation_app_comm.
Qed.

Lemma existsb_filter_nil {A} (p : A -> bool) l : existsb p l = false <-> filter p l = [].
Proof.
  induction l as [|x t IH]; simpl; [tauto|]. destruct (p x); simpl; [split; discriminate|exact IH].
Qed.

Lemma flat_map_ext_in {A B} (f g : A -> list B) l : (forall x, In x l -> f x = g x) -> flat_map f l = flat_map g l.
Proof. intros E. induction l as [|x t IH]; simpl; [reflexivity|]. rewrite (E x (or_introl eq_refl)), IH; [reflexivity|].
  intros y I. apply E. right. exact I. Qed.

Lemma length_flat_map {A B} (f : A -> list B) l : List.length (flat_map f l) = list_sum (map (fun x => List.length (f x)) l).
Proof. induction l as [|x t IH]; simpl; [reflexivity|]. rewrite app_length, IH. reflexivity. Qed.

(* ---------- what one left row contributes *)
Section Contribution.
  Variables (on_a on_b : list string) (a b : table).
  Hypothesis Hlen : List.length on_a = List.length on_b.
  Let on := combine on_a on_b.

  Lemma tn_by_left_row :
    map (fun p => select_row (cols a) (cols b) (Some (fst p)) (Some (snd p))) (joined_TN on a b)
    = flat_map (fun r1 => map (fun r2 => select_row (cols a) (cols b) (Some r1) (Some r2)) (partners_of_left on a b r1)) (rows a).
  Proof.
    unfold joined_TN, partners_of_left.
    rewrite <- (flat_map_prod (fun r1 r2 => on_holds (cols a) (cols b) on r1 r2) (fun r1 r2 => select_row (cols a) (cols b) (Some r1) (Some r2))).
    apply flat_map_ext. intros r1. apply flat_map_if_filter.
  Qed.

  (* LEFT join: the result is, row of T1 by row of T1, that row's contribution *)
  Lemma left_join_by_left_row :
    Permutation (sql_join_rows SLeft on a b) (flat_map (left_contribution on a b) (rows a)).
  Proof.
    unfold sql_join_rows. cbv zeta. rewrite tn_by_left_row. unfold unmatched_left.
    rewrite <- (flat_map_ifnot_filter (fun r1 => existsb (fun r2 => on_holds (cols a) (cols b) on r1 r2) (rows b))
                  (fun r1 => select_row (cols a) (cols b) (Some r1) None)).
    eapply perm_trans; [apply flat_map_app_perm|].
    rewrite (flat_map_ext_in _ (left_contribution on a b)); [apply Permutation_refl|].
    intros r1 _. unfold left_contribution, partners_of_left.
    destruct (existsb (fun r2 => on_holds (cols a) (cols b) on r1 r2) (rows b)) eqn:E.
    - rewrite app_nil_r. destruct (filter (fun r2 => on_holds (cols a) (cols b) on r1 r2) (rows b)) eqn:F; [|reflexivity].
      apply existsb_filter_nil in F. congruence.
    - apply existsb_filter_nil in E. rewrite E. reflexivity.
  Qed.

  Lemma inner_join_by_left_row :
    sql_join_rows SInner on a b
    = flat_map (fun r1 => map (fun r2 => select_row (cols a) (cols b) (Some r1) (Some r2)) (partners_of_left on a b r1)) (rows a).
  Proof. unfold sql_join_rows. cbv zeta. apply tn_by_left_row. Qed.

  Lemma full_join_by_left_row :
    Permutation (sql_join_rows SFull on a b)
      (flat_map (left_contribution on a b) (rows a) ++ map (fun r2 => select_row (cols a) (cols b) None (Some r2)) (unmatched_right on a b)).
  Proof.
    pose proof left_join_by_left_row as P. unfold sql_join_rows in *. cbv zeta in *.
    rewrite app_assoc. apply Permutation_app_tail. exact P.
  Qed.

  (* row counts: a left row with m partners contributes m rows; in a LEFT / FULL join one row when m = 0 *)
  Lemma left_contribution_length r1 :
    List.length (left_contribution on a b r1) = Nat.max 1 (List.length (partners_of_left on a b r1)).
  Proof. unfold left_contribution. destruct (partners_of_left on a b r1) as [|p t]; [reflexivity|]. rewrite map_length. simpl. reflexivity. Qed.

  Lemma inner_join_row_count :
    List.length (sql_join_rows SInner on a b) = list_sum (map (fun r1 => List.length (partners_of_left on a b r1)) (rows a)).
  Proof. rewrite inner_join_by_left_row, length_flat_map. f_equal. apply map_ext. intros r1. apply map_length. Qed.

  Lemma left_join_row_count :
    List.length (sql_join_rows SLeft on a b) = list_sum (map (fun r1 => Nat.max 1 (List.length (partners_of_left on a b r1))) (rows a)).
  Proof.
    rewrite (Permutation_length left_join_by_left_row), length_flat_map. f_equal. apply map_ext. intros r1. apply left_contribution_length.
  Qed.

  Lemma full_join_row_count :
    List.length (sql_join_rows SFull on a b)
    = (list_sum (map (fun r1 => Nat.max 1 (List.length (partners_of_left on a b r1))) (rows a)) + List.length (unmatched_right on a b))%nat.
  Proof.
    rewrite (Permutation_length full_join_by_left_row), app_length, map_length, length_flat_map. f_equal. f_equal.
    apply map_ext. intros r1. apply left_contribution_length.
  Qed.

  Lemma right_join_row_count :
    List.length (sql_join_rows SRight on a b)
    = (list_sum (map (fun r1 => List.length (partners_of_left on a b r1)) (rows a)) + List.length (unmatched_right on a b))%nat.
  Proof.
    pose proof inner_join_row_count as I. unfold sql_join_rows in *. cbv zeta in *. rewrite app_length, I, map_length. reflexivity.
  Qed.
End Contribution.

(* the same facts for the reference semantics of natural_join *)
Lemma sem_left_join_by_left_row on_a on_b a b : List.length on_a = List.length on_b ->
  Permutation (rows (sem_join false on_a on_b JLeft a b)) (flat_map (left_contribution (combine on_a on_b) a b) (rows a)).
Proof. intros L. rewrite (sem_join_is_spec _ _ _ _ _ L). apply left_join_by_left_row. Qed.

Lemma sem_full_join_by_left_row on_a on_b a b : List.length on_a = List.length on_b ->
  Permutation (rows (sem_join false on_a on_b JFull a b))
    (flat_map (left_contribution (combine on_a on_b) a b) (rows a)
     ++ map (fun r2 => select_row (cols a) (cols b) None (Some r2)) (unmatched_right (combine on_a on_b) a b)).
Proof. intros L. rewrite (sem_join_is_spec _ _ _ _ _ L). apply full_join_by_left_row. Qed.

Lemma sem_join_row_counts on_a on_b a b : List.length on_a = List.length on_b ->
  let on := combine on_a on_b in
  let m := fun r1 => List.length (partners_of_left on a b r1) in
  List.length (rows (sem_join false on_a on_b JInner a b)) = list_sum (map m (rows a))
  /\ List.length (rows (sem_join false on_a on_b JLeft a b)) = list_sum (map (fun r1 => Nat.max 1 (m r1)) (rows a))
  /\ List.length (rows (sem_join false on_a on_b JRight a b)) = (list_sum (map m (rows a)) + List.length (unmatched_right on a b))%nat
  /\ List.length (rows (sem_join false on_a on_b JFull a b))
     = (list_sum (map (fun r1 => Nat.max 1 (m r1)) (rows a)) + List.length (unmatched_right on a b))%nat.
Proof.
  intros L. cbv zeta. rewrite !(sem_join_is_spec _ _ _ _ _ L). cbn [jt_of sql_join_spec rows].
  repeat split; [apply inner_join_row_count|apply left_join_row_count|apply right_join_row_count|apply full_join_row_count].
Qed.

(* ---------- null keys never match *)
Lemma on_cond_null_left c1 c2 on r1 r2 :
  has_null_key c1 (map fst on) r1 = true -> on_holds c1 c2 on r1 r2 = false.
Proof.
  unfold on_holds, has_null_key. induction on as [|[ka kb] t IH]; simpl; [discriminate|].
  intros H. apply orb_true_iff in H. rewrite is_true_and. destruct H as [H|H].
  - destruct (get c1 r1 ka); try discriminate. reflexivity.
  - rewrite (IH H). apply andb_false_r.
Qed.

Lemma on_cond_null_right c1 c2 on r1 r2 :
  has_null_key c2 (map snd on) r2 = true -> on_holds c1 c2 on r1 r2 = false.
Proof.
  unfold on_holds, has_null_key. induction on as [|[ka kb] t IH]; simpl; [discriminate|].
  intros H. apply orb_true_iff in H. rewrite is_true_and. destruct H as [H|H].
  - destruct (get c2 r2 kb); try discriminate. destruct (get c1 r1 ka); reflexivity.
  - rewrite (IH H). apply andb_false_r.
Qed.

Lemma filter_all_false {A} (p : A -> bool) l : (forall x, p x = false) -> filter p l = [].
Proof. intros E. induction l as [|x t IH]; simpl; [reflexivity|]. rewrite E. exact IH. Qed.

(* a row with a null key has no partner: it appears only NULL-extended (LEFT / FULL), never joined with a row of the other table *)
Lemma null_key_left_row_alone on a b r1 :
  has_null_key (cols a) (map fst on) r1 = true ->
  partners_of_left on a b r1 = [] /\ left_contribution on a b r1 = [select_row (cols a) (cols b) (Some r1) None].
Proof.
  intros H. assert (partners_of_left on a b r1 = []) as E.
  { unfold partners_of_left. apply filter_all_false. intros r2. apply on_cond_null_left, H. }
  split; [exact E|]. unfold left_contribution. rewrite E. reflexivity.
Qed.

Lemma null_key_right_row_alone on a b r2 :
  has_null_key (cols b) (map snd on) r2 = true ->
  partners_of_right on a b r2 = [] /\ right_contribution on a b r2 = [select_row (cols a) (cols b) None (Some r2)].
Proof.
  intros H. assert (partners_of_right on a b r2 = []) as E.
  { unfold partners_of_right. apply filter_all_false. intros r1. apply on_cond_null_right, H. }
  split; [exact E|]. unfold right_contribution. rewrite E. reflexivity.
Qed.

(* in terms of Sem.v: keys_match false rejects every pair in which either key has a null *)
Lemma keys_eqv_null_free ka : forall kb, keys_eqv ka kb = true -> existsb is_null kb = existsb is_null ka.
Proof.
  induction ka as [|x t IH]; intros [|y u]; simpl; try discriminate; [reflexivity|].
  intros H. apply andb_true_iff in H. destruct H as [H1 H2]. rewrite (IH u H2). f_equal.
  destruct x as [|[]| | |], y as [|[]| | |]; simpl in *; try reflexivity; discriminate.
Qed.

Lemma keys_match_null_never ka kb :
  existsb is_null ka = true \/ existsb is_null kb = true -> keys_match false ka kb = false.
Proof.
  unfold keys_match. cbn [orb]. intros [H|H].
  - rewrite H. reflexivity.
  - destruct (keys_eqv ka kb) eqn:E; [|apply andb_false_r]. rewrite <- (keys_eqv_null_free ka kb E), H. reflexivity.
Qed.

(* ---------- the value of each output column *)
Lemma get_map_self (f : string -> val) cs c : In c cs -> get cs (map f cs) c = f c.
Proof.
  intros I. unfold get. destruct (index_of_In c cs I) as [i E]. rewrite E.
  pose proof (index_of_nth_error _ _ _ E) as N.
  rewrite (nth_indep _ VNull (f c)) by (rewrite map_length; eapply index_of_lt; eassumption).
  rewrite map_nth. f_equal. apply nth_error_nth. exact N.
Qed.

Lemma In_out_cols c1 c2 c : In c (out_cols c1 c2) <-> In c c1 \/ In c c2.
Proof.
  unfold out_cols. rewrite in_app_iff, filter_In, negb_true_iff. split.
  - intros [H|[H _]]; auto.
  - intros [H|H]; [left; exact H|]. destruct (mem c c1) eqn:M; [left; apply mem_In, M|right; split; [exact H|reflexivity]].
Qed.

(* a column both tables have: the left value, or the right value where the left is null -- for matched AND unmatched rows *)
Lemma select_row_shared c1 c2 r1 r2 c : In c c1 -> In c c2 ->
  get (out_cols c1 c2) (select_row c1 c2 r1 r2) c = (if is_null (cell c1 r1 c) then cell c2 r2 c else cell c1 r1 c).
Proof.
  intros I1 I2. unfold select_row. rewrite get_map_self by (apply In_out_cols; left; exact I1).
  unfold item_of. apply mem_In in I1, I2. rewrite I1, I2. cbn [eval_item]. rewrite sql_is_null_eq. reflexivity.
Qed.
Lemma select_row_left_only c1 c2 r1 r2 c : In c c1 -> ~ In c c2 ->
  get (out_cols c1 c2) (select_row c1 c2 r1 r2) c = cell c1 r1 c.
Proof.
  intros I1 I2. unfold select_row. rewrite get_map_self by (apply In_out_cols; left; exact I1).
  unfold item_of. apply mem_In in I1. apply mem_false in I2. rewrite I1, I2. reflexivity.
Qed.
Lemma select_row_right_only c1 c2 r1 r2 c : ~ In c c1 -> In c c2 ->
  get (out_cols c1 c2) (select_row c1 c2 r1 r2) c = cell c2 r2 c.
Proof.
  intros I1 I2. unfold select_row. rewrite get_map_self by (apply In_out_cols; right; exact I2).
  unfold item_of. apply mem_false in I1. rewrite I1. reflexivity.
Qed.

(* every row of a natural_join is select_row of a pair (r1, r2) / (r1, NULLs) / (NULLs, r2) drawn from the inputs *)
Lemma sem_join_row_origin on_a on_b jt a b r : List.length on_a = List.length on_b ->
  In r (rows (sem_join false on_a on_b jt a b)) ->
  exists o1 o2, r = select_row (cols a) (cols b) o1 o2
    /\ match o1, o2 with
       | Some r1, Some r2 => In r1 (rows a) /\ In r2 (rows b) /\ on_holds (cols a) (cols b) (combine on_a on_b) r1 r2 = true
       | Some r1, None => In r1 (rows a) /\ partners_of_left (combine on_a on_b) a b r1 = [] /\ (jt = JLeft \/ jt = JFull)
       | None, Some r2 => In r2 (rows b) /\ partners_of_right (combine on_a on_b) a b r2 = [] /\ (jt = JRight \/ jt = JFull)
       | None, None => False
       end.
Proof.
  intros L. rewrite (sem_join_is_spec _ _ _ _ _ L). cbn [sql_join_spec rows]. unfold sql_join_rows. cbv zeta.
  assert (forall x, In x (map (fun p => select_row (cols a) (cols b) (Some (fst p)) (Some (snd p))) (joined_TN (combine on_a on_b) a b)) ->
            exists r1 r2, x = select_row (cols a) (cols b) (Some r1) (Some r2) /\ In r1 (rows a) /\ In r2 (rows b)
                          /\ on_holds (cols a) (cols b) (combine on_a on_b) r1 r2 = true) as TN.
  { intros x H. apply in_map_iff in H. destruct H as [[r1 r2] [<- H]]. unfold joined_TN in H. apply filter_In in H.
    destruct H as [H1 H2]. apply in_prod_iff in H1. exists r1, r2. cbn [fst snd] in *. tauto. }
  assert (forall x, In x (map (fun r1 => select_row (cols a) (cols b) (Some r1) None) (unmatched_left (combine on_a on_b) a b)) ->
            exists r1, x = select_row (cols a) (cols b) (Some r1) None /\ In r1 (rows a) /\ partners_of_left (combine on_a on_b) a b r1 = []) as X1.
  { intros x H. apply in_map_iff in H. destruct H as [r1 [<- H]]. unfold unmatched_left in H. apply filter_In in H.
    destruct H as [H1 H2]. apply negb_true_iff, existsb_filter_nil in H2. exists r1. tauto. }
  assert (forall x, In x (map (fun r2 => select_row (cols a) (cols b) None (Some r2)) (unmatched_right (combine on_a on_b) a b)) ->
            exists r2, x = select_row (cols a) (cols b) None (Some r2) /\ In r2 (rows b) /\ partners_of_right (combine on_a on_b) a b r2 = []) as X2.
  { intros x H. apply in_map_iff in H. destruct H as [r2 [<- H]]. unfold unmatched_right in H. apply filter_In in H.
    destruct H as [H1 H2]. apply negb_true_iff, existsb_filter_nil in H2. exists r2. tauto. }
  intros H. destruct jt; cbn [jt_of] in H; rewrite ?in_app_iff in H.
  - destruct (TN _ H) as [r1 [r2 [E ?]]]. exists (Some r1), (Some r2). tauto.
  - destruct H as [H|H].
    + destruct (TN _ H) as [r1 [r2 [E ?]]]. exists (Some r1), (Some r2). tauto.
    + destruct (X1 _ H) as [r1 [E ?]]. exists (Some r1), None. tauto.
  - destruct H as [H|H].
    + destruct (TN _ H) as [r1 [r2 [E ?]]]. exists (Some r1), (Some r2). tauto.
    + destruct (X2 _ H) as [r2 [E ?]]. exists None, (Some r2). tauto.
  - destruct H as [H|[H|H]].
    + destruct (TN _ H) as [r1 [r2 [E ?]]]. exists (Some r1), (Some r2). tauto.
    + destruct (X1 _ H) as [r1 [E ?]]. exists (Some r1), None. tauto.
    + destruct (X2 _ H) as [r2 [E ?]]. exists None, (Some r2). tauto.
Qed.

(* ---------- Pandas: merge matches a null key with a null key *)
(* no key of the left table contains a null, or none of the right table does: the two rules coincide *)
Definition no_null_keys (cs ks : list string) (t : table) : Prop :=
  forall r, In r (rows t) -> existsb is_null (key_of cs ks r) = false.

Lemma keys_match_nm_eq ka kb : existsb is_null ka = false \/ existsb is_null kb = false ->
  keys_match true ka kb = keys_match false ka kb.
Proof.
  unfold keys_match. cbn [orb]. intros [H|H].
  - rewrite H. reflexivity.
  - destruct (keys_eqv ka kb) eqn:E; [|rewrite !andb_false_r; reflexivity].
    rewrite <- (keys_eqv_null_free ka kb E), H. reflexivity.
Qed.

Lemma pandas_join_no_null_keys on_a on_b jt a b :
  no_null_keys (cols a) on_a a \/ no_null_keys (cols b) on_b b ->
  sem_join true on_a on_b jt a b = sem_join false on_a on_b jt a b.
Proof.
  intros G. rewrite !sem_join_unfold. cbv zeta. f_equal.
  assert (forall ra rb, In ra (rows a) -> In rb (rows b) ->
            keys_match true (key_of (cols a) on_a ra) (key_of (cols b) on_b rb) = keys_match false (key_of (cols a) on_a ra) (key_of (cols b) on_b rb)) as E.
  { intros ra rb Ia Ib. apply keys_match_nm_eq. destruct G as [G|G]; [left; apply G, Ia|right; apply G, Ib]. }
  assert (forall (p q : list val -> list val -> bool) (la lb : list (list val)),
            (forall x y, In x la -> In y lb -> p x y = q x y) -> forall x, In x la -> existsb (p x) lb = existsb (q x) lb) as EX.
  { intros p q la lb H x Ix. induction lb as [|y u IH]; simpl; [reflexivity|]. rewrite H, IH; [reflexivity| | exact Ix | left; reflexivity].
    intros x' y' Ix' Iy'. apply H; [exact Ix'|right; exact Iy']. }
  f_equal; [|f_equal].
  - apply flat_map_ext_in. intros ra Ia. apply flat_map_ext_in. intros rb Ib. rewrite (E ra rb Ia Ib). reflexivity.
  - destruct jt; try reflexivity; apply flat_map_ext_in; intros ra Ia;
      rewrite (EX (fun x y => keys_match true (key_of (cols a) on_a x) (key_of (cols b) on_b y))
                  (fun x y => keys_match false (key_of (cols a) on_a x) (key_of (cols b) on_b y)) (rows a) (rows b) E ra Ia); reflexivity.
  - destruct jt; try reflexivity; apply flat_map_ext_in; intros rb Ib;
      rewrite (EX (fun y x => keys_match true (key_of (cols a) on_a x) (key_of (cols b) on_b y))
                  (fun y x => keys_match false (key_of (cols a) on_a x) (key_of (cols b) on_b y)) (rows b) (rows a)
                  (fun y x Iy Ix => E x y Ix Iy) rb Ib); reflexivity.
Qed.

(* what _natural_join_step does: the marker column exactly when both sides have a row with a null key *)
Lemma has_null_key_row_false cs ks t : has_null_key_row cs ks t = false -> no_null_keys cs ks t.
Proof.
  unfold has_null_key_row, no_null_keys. intros H r I.
  destruct (existsb is_null (key_of cs ks r)) eqn:E; [|reflexivity].
  assert (existsb (fun r0 => existsb is_null (key_of cs ks r0)) (rows t) = true) as X by (apply existsb_exists; exists r; split; assumption).
  congruence.
Qed.

Lemma pandas_join_is_sem_join on_a on_b jt a b : pandas_join on_a on_b jt a b = sem_join false on_a on_b jt a b.
Proof.
  unfold pandas_join. destruct (has_null_key_row (cols a) on_a a) eqn:Ha; [destruct (has_null_key_row (cols b) on_b b) eqn:Hb|]; cbn [andb].
  - reflexivity.
  - apply pandas_join_no_null_keys. right. apply has_null_key_row_false, Hb.
  - apply pandas_join_no_null_keys. left. apply has_null_key_row_false, Ha.
Qed.

Local Open Scope string_scope.
Definition null_witness_a : table := mktable ["k"; "x"] [[VNull; VNum 1]].
Definition null_witness_b : table := mktable ["k"; "y"] [[VNull; VNum 2]].
(* history: the plain merge, without the marker column, pairs the two null keys *)
Lemma markerless_merge_null_keys_refuted :
  exists on_a on_b jt a b, List.length on_a = List.length on_b /\
    ~ Permutation (rows (sem_join true on_a on_b jt a b)) (sql_join_rows (jt_of jt) (combine on_a on_b) a b).
Proof.
  exists ["k"], ["k"], JInner, null_witness_a, null_witness_b. split; [reflexivity|].
  intros P. apply Permutation_length in P. vm_compute in P. discriminate.
Qed.
