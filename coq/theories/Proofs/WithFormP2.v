(* WITH form WITH the common-table-expression cache (use_cte_elim): under the invariant `cache_sound` the WITH list
   produced by to_with_form (Some []) denotes what the nested query denotes, for every compositional engine. *)
From Coq Require Import List Bool Arith String Ascii Lia.
Import ListNotations.
From DA Require Import Base.PyRT Model.NearSql Model.WithForm Proofs.WithFormP1.

(* ------------------------------------------------------------------ containers and keys of sub-terms *)
Lemma conts_table q : is_table q = true -> conts q = [].
Proof. destruct q; simpl; intros H; try discriminate; reflexivity. Qed.
Lemma desc_keys_table fl q : is_table q = true -> desc_keys fl q = [].
Proof. intros H. unfold desc_keys. rewrite conts_table by exact H. reflexivity. Qed.

Definition ckeys (fl : flags) (s : nearsql) (ci : cinfo) : list string :=
  if is_table s then [] else okeys (ckey fl (s, ci)) ++ desc_keys fl s.

Lemma desc_keys_one fl s ci : flat_map (fun c => okeys (ckey fl c)) ((if is_table s then [] else [(s, ci)]) ++ conts s) = ckeys fl s ci.
Proof. unfold ckeys. destruct (is_table s) eqn:It; simpl.
  - rewrite conts_table by exact It. reflexivity.
  - reflexivity. Qed.
Lemma desc_keys_unary fl n t s ci sfx an mg dp k : desc_keys fl (NUnary n t s ci sfx an mg dp k) = ckeys fl s ci.
Proof. apply desc_keys_one. Qed.
Lemma desc_keys_raw1 fl n p s ci sfx an a k : desc_keys fl (NRaw1 n p s ci sfx an a k) = ckeys fl s ci.
Proof. apply desc_keys_one. Qed.
Lemma desc_keys_binary fl n t s1 c1 j s2 c2 sfx an k :
  desc_keys fl (NBinary n t s1 c1 j s2 c2 sfx an k) = ckeys fl s1 c1 ++ ckeys fl s2 c2.
Proof. unfold desc_keys. simpl. rewrite flat_map_app, !desc_keys_one. reflexivity. Qed.

Lemma conts_refs q : forall c, In c (conts q) -> incl (ref_names (fst c)) (ref_names q).
Proof. induction q as [n t|n k|n t s IH ci sfx an mg dp k|n t s1 IH1 c1 j s2 IH2 c2 sfx an k|n p sfx an a k|n p s IH ci sfx an a k];
  simpl; intros c I; try contradiction.
  - apply in_app_iff in I. destruct I as [I|I]; [destruct (is_table s); [contradiction|destruct I as [<-|[]]; apply incl_refl]|apply IH, I].
  - rewrite !in_app_iff in I. destruct I as [[I|I]|[I|I]].
    + destruct (is_table s1); [contradiction|destruct I as [<-|[]]; apply incl_appl, incl_refl].
    + apply incl_appl, IH1, I.
    + destruct (is_table s2); [contradiction|destruct I as [<-|[]]; apply incl_appr, incl_refl].
    + apply incl_appr, IH2, I.
  - apply in_app_iff in I. destruct I as [I|I]; [destruct (is_table s); [contradiction|destruct I as [<-|[]]; apply incl_refl]|apply IH, I].
Qed.

Section C.
Variable T : Type.
Variable E : engine T.
Variable fl : flags.
Variable Q : nearsql.
Hypothesis HS : cache_sound E fl Q.
Hypothesis HN : NoDup (step_names Q).
Hypothesis HD : forall n, In n (step_names Q) -> ~ In n (ref_names Q).
Notation nsem := (nsem E).
Notation csem := (csem E).
Notation run_steps := (run_steps E).

Definition has (s : cache) (k : string) : Prop := dict_get s k <> None.
Definition cached_name (s : cache) (n : string) : Prop := exists k ko, dict_get s k = Some (NCte n ko).

(* what the cache promises while the WITH list is being built; r = the bindings made so far *)
Record CI (s : cache) (r : env T) : Prop := mkCI {
  ci_sem : forall k v, dict_get s k = Some v -> exists n, v = NCte n (Some k) /\ In n (step_names Q) /\
             forall c, In c (conts Q) -> ckey fl c = Some k -> r n = csem r c;
  ci_clo : forall k c k', has s k -> In c (conts Q) -> ckey fl c = Some k -> In k' (desc_keys fl (fst c)) -> has s k' }.

Definition sub_of (q : nearsql) : Prop :=
  incl (conts q) (conts Q) /\ incl (step_names q) (step_names Q) /\ incl (ref_names q) (ref_names Q).

(* binding a step name that is not a cached name keeps the promise *)
Lemma csem_bind_step r m v c : In c (conts Q) -> In m (step_names Q) -> csem (bind m v r) c = csem r c.
Proof. intros Ic Im. apply csem_ext. intros n In_. apply bind_other. intros ->.
  apply (HD m Im). eapply conts_refs; eassumption. Qed.

Lemma CI_bind s r m v : CI s r -> In m (step_names Q) -> (forall n, cached_name s n -> n <> m) -> CI s (bind m v r).
Proof. intros [S C] Im Hn. split; [|exact C].
  intros k v0 G. destruct (S k v0 G) as (n & -> & In_ & Sem). exists n. repeat split; try assumption.
  intros c Ic Kc. rewrite csem_bind_step by assumption. rewrite bind_other; [apply Sem; assumption|].
  apply Hn. exists k, (Some k). exact G. Qed.

Lemma csem_run_steps r (sq : wseq) c :
  In c (conts Q) -> (forall m, In m (map fst sq) -> In m (step_names Q)) -> csem (run_steps r sq) c = csem r c.
Proof. intros Ic Im. apply csem_ext. intros n In_. apply run_steps_other. intros J.
  apply (HD n (Im n J)). eapply conts_refs; eassumption. Qed.

(* ------------------------------------------------------------------ specifications *)
Definition node_spec (q : nearsql) : Prop :=
  forall s r sq last oc',
   CI s r -> (forall n, cached_name s n -> ~ In n (step_names q)) ->
   twf fl (Some s) q = (sq, last, oc') ->
   exists s', oc' = Some s' /\
     NoDup (map fst sq) /\ (forall n, In n (map fst sq) -> In n (tl (step_names q))) /\
     qname last = qname q /\ is_table last = is_table q /\
     (forall cols, nsem (run_steps r sq) last cols = nsem r q cols) /\
     CI s' (run_steps r sq) /\
     (forall n, cached_name s' n -> cached_name s n \/ In n (tl (step_names q))) /\
     (forall k v, dict_get s k = Some v -> dict_get s' k = Some v) /\
     (forall k, In k (desc_keys fl q) -> has s' k) /\
     (forall k, has s' k -> has s k \/ In k (desc_keys fl q)) /\
     ((forall k, In k (desc_keys fl q) -> has s k) -> s' = s).

Definition operand_spec (s0 : nearsql) (ci : cinfo) : Prop :=
  forall s r st sq oc',
   CI s r -> (forall n, cached_name s n -> ~ In n (step_names s0)) ->
   (if is_table s0 then ((s0, ci), [], Some s) else stub_step fl s0 ci (twf fl (Some s) s0)) = (st, sq, oc') ->
   exists s', oc' = Some s' /\
     NoDup (map fst sq) /\ (forall n, In n (map fst sq) -> In n (step_names s0)) /\
     snd st = ci /\
     (forall m, In m (ref_names (fst st)) -> In m (ref_names s0) \/ In m (step_names s0) \/ cached_name s m) /\
     csem (run_steps r sq) st = csem r (s0, ci) /\
     CI s' (run_steps r sq) /\
     (forall n, cached_name s' n -> cached_name s n \/ In n (step_names s0)) /\
     (forall k v, dict_get s k = Some v -> dict_get s' k = Some v) /\
     (forall k, In k (ckeys fl s0 ci) -> has s' k) /\
     (forall k, has s' k -> has s k \/ In k (ckeys fl s0 ci)) /\
     ((forall k, In k (ckeys fl s0 ci) -> has s k) -> s' = s).

Ltac conj_split := repeat match goal with |- _ /\ _ => split end.

Lemma has_set s k v k2 : has (dict_set s k v) k2 <-> k2 = k \/ has s k2.
Proof. unfold has. destruct (string_dec k2 k) as [->|n].
  - rewrite dict_get_set_same. split; [tauto|discriminate].
  - rewrite dict_get_set_other by exact n. tauto. Qed.

Lemma operand_from_node s0 ci :
  (is_table s0 = false -> In (s0, ci) (conts Q)) -> sub_of s0 -> NoDup (step_names s0) -> node_spec s0 -> operand_spec s0 ci.
Proof.
  intros Hc (Sc & Ss & Sr) N NS s r st sq oc' HCI Hcn H.
  destruct (is_table s0) eqn:It.
  { injection H as <- <- <-. exists s. unfold ckeys. rewrite It. conj_split; try exact HCI; try (simpl; tauto); try reflexivity; try (constructor; fail); auto. }
  specialize (Hc eq_refl).
  destruct (twf fl (Some s) s0) as [[sq0 last] oc0] eqn:Et.
  destruct (NS s r sq0 last oc0 HCI Hcn Et) as (s1 & -> & N0 & I0 & Qn & Itl & Sem & CI1 & Cn1 & Mono & K5 & K6 & K7).
  unfold stub_step in H. rewrite Itl, It in H. cbn [fst snd] in H.
  pose proof N as N'. rewrite step_names_head in N' by exact It. inversion N' as [|x l Hx N'']; subst x l.
  assert (mem (qname last) (map fst sq0) = false) as M.
  { apply mem_false. rewrite Qn. intros I. apply Hx, I0, I. }
  assert (In (qname s0) (step_names Q)) as InQ by (apply Ss; rewrite step_names_head by exact It; left; reflexivity).
  assert (forall m, In m (map fst sq0) -> In m (step_names Q)) as Isq0.
  { intros m I. apply Ss. rewrite step_names_head by exact It. right. apply I0, I. }
  assert (forall n, cached_name s1 n -> n <> qname s0) as Cne.
  { intros n Cn ->. destruct (Cn1 _ Cn) as [C|C]; [apply (Hcn _ C); rewrite step_names_head by exact It; left; reflexivity|contradiction]. }
  (* what the appended step is bound to *)
  assert (forall r', run_steps r' (sq0 ++ [(qname last, (last, mk_ci (ccols ci) (cforce ci) None))]) (qname s0)
                     = nsem (run_steps r' sq0) last (ccols ci)) as Bnd.
  { intros r'. rewrite Qn, run_steps_snoc, bind_same. reflexivity. }
  change (mk_key fl (ops_key s0) (ccols ci)) with (ckey fl (s0, ci)) in H.
  destruct (ckey fl (s0, ci)) as [k|] eqn:Ek.
  - (* the container has a key *)
    cbn [oc_lookup] in H. destruct (dict_get s1 k) as [v|] eqn:G.
    + (* found in the cache *)
      injection H as <- <- <-.
      assert (has s k) as Hk.
      { destruct (K6 k) as [Hk|Hk]; [unfold has; rewrite G; discriminate|exact Hk|].
        exfalso. destruct (HS _ _ _ Hc Hc Ek Ek) as (_ & _ & Nk). exact (Nk Hk). }
      assert (s1 = s) as ->.
      { apply K7. intros k' Ik'. eapply (ci_clo _ _ HCI); try eassumption. }
      destruct (ci_sem _ _ HCI k v G) as (n & -> & InQn & Semn).
      exists s. cbn [fst snd]. conj_split; try exact HCI; try (simpl; tauto); try reflexivity; try (constructor; fail); auto.
      * simpl. intros m [<-|[]]. right. right. exists k, (Some k). exact G.
      * rewrite csem_cte. simpl. apply Semn; assumption.
      * unfold ckeys. rewrite It, Ek. simpl. intros k' [<-|Ik']; [exact Hk|]. eapply (ci_clo _ _ HCI); try eassumption.
    + (* not in the cache: emit the step, remember it *)
      rewrite M in H. cbn [oc_insert] in H. injection H as <- <- <-.
      set (cte := NCte (qname last) (Some k)).
      set (sq := sq0 ++ [(qname last, (last, mk_ci (ccols ci) (cforce ci) None))]).
      assert (run_steps r sq (qname s0) = csem r (s0, ci)) as Val.
      { unfold sq. rewrite Bnd, Sem, (csem_nontable _ E r s0 ci It). reflexivity. }
      assert (forall m, In m (map fst sq) -> In m (step_names Q)) as Isq.
      { intros m. unfold sq. rewrite map_app, in_app_iff. simpl. rewrite Qn. intros [I|[<-|[]]]; [apply Isq0, I|exact InQ]. }
      exists (dict_set s1 k cte). cbn [fst snd]. conj_split; try reflexivity.
      * fold sq. unfold sq. rewrite map_app. simpl. apply NoDup_app_intro; [exact N0|repeat constructor; simpl; tauto|].
        intros x I [<-|[]]. rewrite Qn in I. apply Hx, I0, I.
      * intros n. fold sq. unfold sq. rewrite map_app, in_app_iff. simpl. rewrite step_names_head by exact It. rewrite Qn.
        intros [I|[<-|[]]]; [right; apply I0, I|left; reflexivity].
      * unfold cte. simpl. rewrite Qn. intros m [<-|[]]. right. left. rewrite step_names_head by exact It. left; reflexivity.
      * fold sq. unfold cte. rewrite csem_cte, Qn. exact Val.
      * (* the promise for the new cache *)
        fold sq. split.
        -- intros k2 v2 G2. destruct (string_dec k2 k) as [->|Nk].
           ++ rewrite dict_get_set_same in G2. injection G2 as <-. exists (qname last). split; [reflexivity|]. rewrite Qn. split; [exact InQ|].
              intros c Ic Kc. rewrite Val. destruct (HS _ _ _ Hc Ic Ek Kc) as (Eq & _ & _). rewrite Eq.
              symmetry. apply csem_run_steps; assumption.
           ++ rewrite dict_get_set_other in G2 by exact Nk.
              destruct (ci_sem _ _ CI1 k2 v2 G2) as (n & -> & InQn & Semn). exists n. repeat split; [exact InQn|].
              intros c Ic Kc. unfold sq. rewrite run_steps_snoc. rewrite csem_bind_step by (try assumption; rewrite Qn; exact InQ).
              rewrite bind_other; [apply Semn; assumption|]. rewrite Qn. apply Cne. exists k2, (Some k2). exact G2.
        -- intros k2 c k' H2 Ic Kc Ik'. apply has_set. apply has_set in H2. destruct H2 as [->|H2].
           ++ right. apply K5. destruct (HS _ _ _ Ic Hc Kc Ek) as (_ & Eqk & _). apply Eqk, Ik'.
           ++ right. eapply (ci_clo _ _ CI1); eassumption.
      * intros n (k2 & ko & G2). destruct (string_dec k2 k) as [->|Nk].
        -- rewrite dict_get_set_same in G2. unfold cte in G2. injection G2 as <- _. right. rewrite Qn.
           rewrite step_names_head by exact It. left; reflexivity.
        -- rewrite dict_get_set_other in G2 by exact Nk. destruct (Cn1 n) as [C|C]; [exists k2, ko; exact G2|left; exact C|].
           right. rewrite step_names_head by exact It. right; exact C.
      * intros k2 v2 G2. apply Mono in G2. rewrite dict_get_set_other; [exact G2|]. intros ->. congruence.
      * unfold ckeys. rewrite It, Ek. simpl. intros k' [<-|Ik']; apply has_set; [left; reflexivity|right; apply K5, Ik'].
      * unfold ckeys. rewrite It, Ek. simpl. intros k' Hk'. apply has_set in Hk'. destruct Hk' as [->|Hk']; [right; left; reflexivity|].
        destruct (K6 _ Hk') as [A|A]; [left; exact A|right; right; exact A].
      * unfold ckeys. rewrite It, Ek. simpl. intros Hall. exfalso.
        assert (has s k) as Hk by (apply Hall; left; reflexivity).
        unfold has in Hk. destruct (dict_get s k) as [v|] eqn:Gs; [|congruence]. apply Mono in Gs. congruence.
  - (* no key (ops_key None under the repaired stub): emitted, never cached *)
    cbn [oc_lookup] in H. rewrite M in H. cbn [oc_insert] in H. injection H as <- <- <-.
    set (sq := sq0 ++ [(qname last, (last, mk_ci (ccols ci) (cforce ci) None))]).
    exists s1. cbn [fst snd]. conj_split; try reflexivity.
    + fold sq. unfold sq. rewrite map_app. simpl. apply NoDup_app_intro; [exact N0|repeat constructor; simpl; tauto|].
      intros x I [<-|[]]. rewrite Qn in I. apply Hx, I0, I.
    + intros n. fold sq. unfold sq. rewrite map_app, in_app_iff. simpl. rewrite step_names_head by exact It. rewrite Qn.
      intros [I|[<-|[]]]; [right; apply I0, I|left; reflexivity].
    + simpl. rewrite Qn. intros m [<-|[]]. right. left. rewrite step_names_head by exact It. left; reflexivity.
    + fold sq. rewrite csem_cte, Qn. unfold sq. rewrite Bnd, Sem, (csem_nontable _ E r s0 ci It). reflexivity.
    + fold sq. unfold sq. rewrite run_steps_snoc. apply CI_bind; [exact CI1|rewrite Qn; exact InQ|rewrite Qn; exact Cne].
    + intros n C. destruct (Cn1 n C) as [A|A]; [left; exact A|right; rewrite step_names_head by exact It; right; exact A].
    + exact Mono.
    + unfold ckeys. rewrite It, Ek. simpl. exact K5.
    + unfold ckeys. rewrite It, Ek. simpl. exact K6.
    + unfold ckeys. rewrite It, Ek. simpl. exact K7.
Qed.


Lemma has_mono (a b : cache) : (forall k v, dict_get a k = Some v -> dict_get b k = Some v) -> forall k, has a k -> has b k.
Proof. intros M k H. unfold has in *. destruct (dict_get a k) as [v|] eqn:G; [|congruence]. rewrite (M _ _ G). discriminate. Qed.

Lemma trivial_node q s r :
  CI s r -> desc_keys fl q = [] ->
  exists s', Some s = Some s' /\
     NoDup (map fst (@nil (string * container))) /\ (forall n, In n (map fst (@nil (string * container))) -> In n (tl (step_names q))) /\
     qname q = qname q /\ is_table q = is_table q /\
     (forall cols, nsem (run_steps r []) q cols = nsem r q cols) /\
     CI s' (run_steps r []) /\
     (forall n, cached_name s' n -> cached_name s n \/ In n (tl (step_names q))) /\
     (forall k v, dict_get s k = Some v -> dict_get s' k = Some v) /\
     (forall k, In k (desc_keys fl q) -> has s' k) /\
     (forall k, has s' k -> has s k \/ In k (desc_keys fl q)) /\
     ((forall k, In k (desc_keys fl q) -> has s k) -> s' = s).
Proof. intros HCI Dk. exists s. rewrite Dk. conj_split; try exact HCI; try (simpl; tauto); try reflexivity; try (constructor; fail); auto. Qed.

Lemma sub_of_unary n t s ci sfx an mg dp k :
  sub_of (NUnary n t s ci sfx an mg dp k) -> sub_of s /\ (is_table s = false -> In (s, ci) (conts Q)).
Proof. intros (Sc & Ss & Sr). simpl in *. repeat split.
  - intros c I. apply Sc, in_app_iff. tauto.
  - intros m I. apply Ss. right; exact I.
  - exact Sr.
  - intros It. apply Sc. rewrite It. left; reflexivity. Qed.
Lemma sub_of_raw1 n p s ci sfx an a k :
  sub_of (NRaw1 n p s ci sfx an a k) -> sub_of s /\ (is_table s = false -> In (s, ci) (conts Q)).
Proof. intros (Sc & Ss & Sr). simpl in *. repeat split.
  - intros c I. apply Sc, in_app_iff. tauto.
  - intros m I. apply Ss. right; exact I.
  - exact Sr.
  - intros It. apply Sc. rewrite It. left; reflexivity. Qed.
Lemma sub_of_binary n t s1 c1 j s2 c2 sfx an k :
  sub_of (NBinary n t s1 c1 j s2 c2 sfx an k) ->
  (sub_of s1 /\ (is_table s1 = false -> In (s1, c1) (conts Q))) /\ (sub_of s2 /\ (is_table s2 = false -> In (s2, c2) (conts Q))).
Proof. intros (Sc & Ss & Sr). simpl in *. repeat split.
  - intros c I. apply Sc. rewrite !in_app_iff. tauto.
  - intros m I. apply Ss. right. apply in_app_iff. tauto.
  - intros m I. apply Sr. apply in_app_iff. tauto.
  - intros It. apply Sc. rewrite It. left; reflexivity.
  - intros c I. apply Sc. rewrite !in_app_iff. tauto.
  - intros m I. apply Ss. right. apply in_app_iff. tauto.
  - intros m I. apply Sr. apply in_app_iff. tauto.
  - intros It. apply Sc. rewrite It. rewrite !in_app_iff. right. left. left; reflexivity. Qed.

(* a step with one operand (unary step, raw query over a sub-query) *)
Lemma one_operand_node (q s0 : nearsql) (ci : cinfo) (mk : container -> nearsql) :
  step_names q = qname q :: step_names s0 -> is_table q = false -> desc_keys fl q = ckeys fl s0 ci ->
  (forall st, qname (mk st) = qname q /\ is_table (mk st) = false) ->
  (forall r' st r cols, csem r' st = csem r (s0, ci) -> nsem r' (mk st) cols = nsem r q cols) ->
  operand_spec s0 ci ->
  forall s r st sq oc',
    CI s r -> (forall n, cached_name s n -> ~ In n (step_names q)) ->
    (if is_table s0 then ((s0, ci), [], Some s) else stub_step fl s0 ci (twf fl (Some s) s0)) = (st, sq, oc') ->
    exists s', oc' = Some s' /\
     NoDup (map fst sq) /\ (forall n, In n (map fst sq) -> In n (tl (step_names q))) /\
     qname (mk st) = qname q /\ is_table (mk st) = is_table q /\
     (forall cols, nsem (run_steps r sq) (mk st) cols = nsem r q cols) /\
     CI s' (run_steps r sq) /\
     (forall n, cached_name s' n -> cached_name s n \/ In n (tl (step_names q))) /\
     (forall k v, dict_get s k = Some v -> dict_get s' k = Some v) /\
     (forall k, In k (desc_keys fl q) -> has s' k) /\
     (forall k, has s' k -> has s k \/ In k (desc_keys fl q)) /\
     ((forall k, In k (desc_keys fl q) -> has s k) -> s' = s).
Proof.
  intros Sn Itq Dk Hmk Hsem OP s r st sq oc' HCI Hcn H.
  assert (forall n, cached_name s n -> ~ In n (step_names s0)) as Hcn0.
  { intros m C I. apply (Hcn m C). rewrite Sn. right; exact I. }
  destruct (OP s r st sq oc' HCI Hcn0 H) as (s' & -> & N0 & I0 & Eci & Rf & Sem & CI' & Cn' & Mono & K5 & K6 & K7).
  exists s'. rewrite Sn, Dk, Itq. cbn [tl]. destruct (Hmk st) as [Hq Ht].
  conj_split; try assumption; try reflexivity.
  intros cols. apply Hsem. exact Sem.
Qed.

Lemma twf_some_spec q : sub_of q -> NoDup (step_names q) -> terms_ok q = true -> node_spec q.
Proof.
  induction q as [n t|n k|n t s0 IH ci sfx an mg dp k|n t s1 IH1 c1 j s2 IH2 c2 sfx an k|n p sfx an a k|n p s0 IH ci sfx an a k];
  intros Sub N TO s r sq last oc' HCI Hcn H.
  - simpl in H. injection H as <- <- <-. apply trivial_node; [exact HCI|reflexivity].
  - simpl in H. injection H as <- <- <-. apply trivial_node; [exact HCI|reflexivity].
  - (* unary *)
    destruct (sub_of_unary _ _ _ _ _ _ _ _ _ Sub) as [Sub0 Hc].
    simpl in N, TO. apply andb_true_iff in TO. destruct TO as [Tt Ts]. inversion N as [|x l Hn Ns]; subst x l.
    assert (operand_spec s0 ci) as OP by (apply operand_from_node; try assumption; apply IH; assumption).
    simpl in H. destruct (is_table s0) eqn:It.
    + injection H as <- <- <-. apply trivial_node; [exact HCI|]. rewrite desc_keys_unary. unfold ckeys. rewrite It. reflexivity.
    + destruct (stub_step fl s0 ci (twf fl (Some s) s0)) as [[st sq0] oc0] eqn:Es. injection H as <- <- <-.
      apply (one_operand_node (NUnary n t s0 ci sfx an mg dp k) s0 ci
               (fun st => NUnary n (norm_terms t) (fst st) (snd st) sfx an false None k)); try assumption; try reflexivity.
      * apply desc_keys_unary.
      * intros st0. split; reflexivity.
      * intros r' st0 r0 cols Hs. rewrite (norm_terms_ok _ Tt), !nsem_unary. f_equal. rewrite <- Hs. destruct st0; reflexivity.
      * rewrite It. exact Es.
  - (* binary *)
    destruct (sub_of_binary _ _ _ _ _ _ _ _ _ _ Sub) as [[Sub1 Hc1] [Sub2 Hc2]].
    simpl in N, TO. apply andb_true_iff in TO. destruct TO as [TO Ts2]. apply andb_true_iff in TO. destruct TO as [Tt Ts1].
    inversion N as [|x l Hn Ns]; subst x l.
    assert (NoDup (step_names s1)) as N1 by (eapply NoDup_app_l; exact Ns).
    assert (NoDup (step_names s2)) as N2 by (eapply NoDup_app_r; exact Ns).
    assert (operand_spec s1 c1) as OP1 by (apply operand_from_node; try assumption; apply IH1; assumption).
    assert (operand_spec s2 c2) as OP2 by (apply operand_from_node; try assumption; apply IH2; assumption).
    simpl in H. destruct (is_table s1 && is_table s2) eqn:Both.
    + injection H as <- <- <-. apply trivial_node; [exact HCI|]. rewrite desc_keys_binary. unfold ckeys.
      apply andb_true_iff in Both. destruct Both as [-> ->]. reflexivity.
    + destruct (if is_table s1 then (s1, c1, [], Some s) else stub_step fl s1 c1 (twf fl (Some s) s1)) as [[st1 sq1] oc1] eqn:E1.
      assert (forall m, cached_name s m -> ~ In m (step_names s1)) as Hcn1.
      { intros m C I. apply (Hcn m C). simpl. right. apply in_app_iff. left; exact I. }
      destruct (OP1 s r st1 sq1 oc1 HCI Hcn1 E1) as (sa & -> & Nq1 & Iq1 & Ec1 & Rf1 & Sem1 & CIa & Cna & Monoa & K5a & K6a & K7a).
      destruct (if is_table s2 then (s2, c2, [], Some sa) else stub_step fl s2 c2 (twf fl (Some sa) s2)) as [[st2 sq2] oc2] eqn:E2.
      assert (forall m, cached_name sa m -> ~ In m (step_names s2)) as Hcn2.
      { intros m C I. destruct (Cna m C) as [C0|I1].
        - apply (Hcn m C0). simpl. right. apply in_app_iff. right; exact I.
        - exact (NoDup_app_disj _ _ m Ns I1 I). }
      destruct (OP2 sa (run_steps r sq1) st2 sq2 oc2 CIa Hcn2 E2) as (sb & -> & Nq2 & Iq2 & Ec2 & Rf2 & Sem2 & CIb & Cnb & Monob & K5b & K6b & K7b).
      injection H as <- <- <-.
      assert (forall m, In m (map fst sq2) -> ~ In m (map fst sq1)) as Dj.
      { intros m I2 I1. apply (NoDup_app_disj _ _ m Ns); [apply Iq1, I1|apply Iq2, I2]. }
      rewrite merge_seq_id by assumption.
      destruct Sub as (Sc & Ss & Sr).
      exists sb. rewrite desc_keys_binary. cbn [step_names tl qname is_table]. conj_split; try reflexivity.
      * rewrite map_app. apply NoDup_app_intro; [assumption|assumption|]. intros m I1 I2. exact (Dj m I2 I1).
      * intros m. rewrite map_app, !in_app_iff. intros [I|I]; [left; apply Iq1, I|right; apply Iq2, I].
      * intros cols. rewrite (norm_terms_ok _ Tt), !nsem_binary.
        destruct st1 as [s1' c1']. destruct st2 as [s2' c2']. cbn [fst snd] in *. subst c1' c2'. f_equal.
        -- rewrite run_steps_app. rewrite <- Sem1. apply csem_ext. cbn [fst]. intros m Im. apply run_steps_other. intros J.
           apply Iq2 in J. destruct (Rf1 m Im) as [K|[K|K]].
           ++ apply (HD m); [apply Ss; simpl; right; apply in_app_iff; right; exact J|apply Sr; simpl; apply in_app_iff; left; exact K].
           ++ exact (NoDup_app_disj _ _ m Ns K J).
           ++ apply (Hcn m K). simpl. right. apply in_app_iff. right; exact J.
        -- rewrite run_steps_app. rewrite Sem2. apply csem_ext. cbn [fst]. intros m Im. apply run_steps_other. intros J.
           apply Iq1 in J.
           apply (HD m); [apply Ss; simpl; right; apply in_app_iff; left; exact J|apply Sr; simpl; apply in_app_iff; right; exact Im].
      * rewrite run_steps_app. exact CIb.
      * intros m C. destruct (Cnb m C) as [C1|I]; [|right; apply in_app_iff; right; exact I].
        destruct (Cna m C1) as [C0|I]; [left; exact C0|right; apply in_app_iff; left; exact I].
      * intros k0 v G. apply Monob, Monoa, G.
      * intros k0 I. apply in_app_iff in I. destruct I as [I|I]; [apply (has_mono _ _ Monob), K5a, I|apply K5b, I].
      * intros k0 Hk. rewrite in_app_iff. destruct (K6b k0 Hk) as [A|A]; [|right; right; exact A].
        destruct (K6a k0 A) as [B|B]; [left; exact B|right; left; exact B].
      * intros Hall. assert (sa = s) as -> by (apply K7a; intros k0 I; apply Hall, in_app_iff; left; exact I).
        apply K7b. intros k0 I. apply Hall, in_app_iff. right; exact I.
  - simpl in H. injection H as <- <- <-. apply trivial_node; [exact HCI|reflexivity].
  - (* raw query over a sub-query *)
    destruct (sub_of_raw1 _ _ _ _ _ _ _ _ Sub) as [Sub0 Hc].
    simpl in N, TO. inversion N as [|x l Hn Ns]; subst x l.
    assert (operand_spec s0 ci) as OP by (apply operand_from_node; try assumption; apply IH; assumption).
    simpl in H. destruct (is_table s0) eqn:It.
    + injection H as <- <- <-. apply trivial_node; [exact HCI|]. rewrite desc_keys_raw1. unfold ckeys. rewrite It. reflexivity.
    + destruct (stub_step fl s0 ci (twf fl (Some s) s0)) as [[st sq0] oc0] eqn:Es. injection H as <- <- <-.
      apply (one_operand_node (NRaw1 n p s0 ci sfx an a k) s0 ci
               (fun st => NRaw1 n p (fst st) (snd st) sfx an a k)); try assumption; try reflexivity.
      * apply desc_keys_raw1.
      * intros st0. split; reflexivity.
      * intros r' st0 r0 cols Hs. rewrite !nsem_raw1. f_equal. rewrite <- Hs. destruct st0; reflexivity.
      * rewrite It. exact Es.
Qed.

End C.

(* CTE elimination denotes the same table, whenever the cache keys are sound for the query *)
Theorem cte_elim_preserves (T : Type) (E : engine T) (fl : flags) (q : nearsql) (r : env T) :
  hygienic q = true -> cache_sound E fl q ->
  nsem_with E r (fst (to_with_form fl (Some []) q)) = nsem E r q None.
Proof.
  intros H HS. destruct (hygienic_spec q H) as (N & D & TO). unfold to_with_form.
  destruct (twf fl (Some []) q) as [[sq last] oc] eqn:Et. simpl.
  assert (sub_of q q) as Sub by (repeat split; apply incl_refl).
  assert (CI T E fl q [] r) as HCI.
  { split; [intros k v G; discriminate G|intros k c k' Hk; exfalso; apply Hk; reflexivity]. }
  destruct (twf_some_spec T E fl q HS D q Sub N TO [] r sq last oc HCI) as (s' & _ & _ & _ & _ & _ & Sem & _).
  - intros n (k & ko & G). discriminate G.
  - exact Et.
  - unfold nsem_with. simpl. apply Sem.
Qed.
