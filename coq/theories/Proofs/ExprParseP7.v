(* Proofs/ExprParseP7.v -- C13, part 2: `good d` for every well-formed AST (induction on its size). *)
From Coq Require Import List Bool String Ascii ZArith NArith QArith Arith Lia.
Import ListNotations.
From DA Require Import Model.PyExpr Model.ExprParse Model.ExprAst Proofs.ExprParseP1 Proofs.ExprParseP5 Proofs.ExprParseP6.
Local Close Scope Q_scope.
Local Open Scope string_scope.
Local Open Scope bool_scope.
Local Open Scope list_scope.

Lemma at_least_le L d : at_least L d = true -> L <= dlvl d.
Proof. unfold at_least. apply Nat.leb_le. Qed.

(* ---- atoms *)
Ltac atom_tac W :=
  apply good_of;
  [ try reflexivity; exact W | intros p; reflexivity | reflexivity | intros _; simpl; discriminate
  | let s0 := fresh "s" in let H0 := fresh "H" in
    intros _ s0 H0; simpl in H0; try discriminate H0; inversion H0; reflexivity
  | reflexivity | reflexivity ].

Lemma good_name s : good (DName s).
Proof. assert (W : wfn (DName s) = true) by reflexivity. atom_tac W. Qed.

Lemma good_num t : wfn (DNum t) = true -> good (DNum t).
Proof. intros W. destruct t as [s|n|m|s|s|b ty]; simpl in W; try discriminate W.
  - atom_tac W.
  - atom_tac W.
  - subst b. assert (W : wfn (DNum (TOther true ty)) = true) by reflexivity. atom_tac W. Qed.

Lemma good_str t : wfn (DStr t) = true -> good (DStr t).
Proof. intros W. destruct t as [s|n|m|s|s|b ty]; simpl in W; try discriminate W.
  - atom_tac W.
  - destruct b; [discriminate W|]. assert (W' : wfn (DStr (TOther false ty)) = true) by reflexivity. atom_tac W'. Qed.

Lemma good_const k : wfn (DConst k) = true -> good (DConst k).
Proof. intros W. pose proof W as W'. cbn [wfn] in W'. apply mem_str_In in W'. simpl in W'.
  destruct W' as [<-|[<-|[<-|[]]]]; atom_tac W. Qed.

Lemma good_par x : wfn (DPar x) = true -> good (DPar x).
Proof. intros W. atom_tac W. Qed.

(* ---- displays *)
Lemma tests_of_cons t l : tests_of (GTest t :: l) = match tests_of l with Some ts => Some (t :: ts) | None => None end.
Proof. reflexivity. Qed.
Lemma kvs_of_cons k v l :
  kvs_of (GKV k v :: l) = match kvs_of l with Some ts => Some (LNode "key_value" [k; v] :: ts) | None => None end.
Proof. reflexivity. Qed.

Lemma good_coll k items tr : wfn (DColl k items tr) = true -> good (DColl k items tr).
Proof. intros W. apply good_of; try reflexivity; try exact W; try (simpl; discriminate).
  change (p_atom_expr [EGrp k (map (fun a => GTest (strip a)) items) tr] = Some (strip (DColl k items tr))).
  simpl in W. apply andb_prop in W as [_ W].
  destruct k, items as [|x [|y items]]; cbn [p_atom_expr atom map strip trailers]; try discriminate W;
    rewrite ?tests_of_cons, ?tests_of_map; try reflexivity.
  - subst tr. reflexivity.
  - destruct tr; reflexivity. Qed.

Lemma good_dict items tr : wfn (DDict items tr) = true -> good (DDict items tr).
Proof. intros W. apply good_of; try reflexivity; try exact W; try (simpl; discriminate).
  change (p_atom_expr [EGrp BBrace (map (fun kv => GKV (strip (fst kv)) (strip (snd kv))) items) tr] = Some (strip (DDict items tr))).
  destruct items as [|kv items]; cbn [p_atom_expr atom map strip trailers]; [reflexivity|].
  rewrite kvs_of_cons, kvs_of_map. reflexivity. Qed.

(* ---- not / unary / power / trailers *)
Lemma good_not x : wfn (DNot x) = true -> good x -> good (DNot x).
Proof. intros W G. pose proof W as W'. simpl in W'. apply andb_prop in W' as [Hl Wx]. apply at_least_le in Hl.
  apply good_of; try exact W.
  - intros p. cbn [flat]. rewrite prev_after_cons. apply (g_prev x G).
  - cbn [flat dlvl binpos_ok]. simpl bin_ok. apply (binpos_ok_mono 2 (dlvl x)); [exact Hl|exact (g_bin x G)].
  - simpl. lia.
  - simpl. lia.
  - cbn [flat dlvl plvl]. apply p_not_test_not. exact (g_parse x G 2 Hl).
  - cbn [flat forallb]. exact (g_punct x G). Qed.

Lemma good_factor op x : wfn (DFactor op x) = true -> good x -> good (DFactor op x).
Proof. intros W G. pose proof W as W'. simpl in W'. apply andb_prop in W' as [W' Wx]. apply andb_prop in W' as [Hu Hl].
  apply at_least_le in Hl.
  assert (Ho : is_operand_end (ETok (TSym op)) = false).
  { destruct (uop_cases _ Hu) as [ -> | [ -> | -> ] ]; reflexivity. }
  apply good_of; try exact W.
  - intros p. cbn [flat]. rewrite prev_after_cons, Ho. apply (g_prev x G).
  - cbn [flat dlvl binpos_ok]. rewrite Ho. simpl bin_ok. apply (binpos_ok_mono 10 (dlvl x)); [exact Hl|exact (g_bin x G)].
  - intros _ H. simpl in H. inversion H; subst op. discriminate Hu.
  - simpl. lia.
  - cbn [flat dlvl plvl]. apply (p_factor_uop _ _ _ Hu). exact (g_parse x G 10 Hl).
  - cbn [flat forallb]. rewrite (g_punct x G).
    destruct (uop_cases _ Hu) as [ -> | [ -> | -> ] ]; reflexivity. Qed.

Lemma good_power b e : wfn (DPower b e) = true -> good b -> good e -> good (DPower b e).
Proof. intros W Gb Ge. pose proof W as W'. simpl in W'.
  apply andb_prop in W' as [W' We]. apply andb_prop in W' as [W' Hle]. apply andb_prop in W' as [Hlb Wb].
  apply at_least_le in Hlb. apply at_least_le in Hle.
  assert (Bb : binpos_ok 12 false (flat b) = true). { apply (binpos_ok_mono 12 (dlvl b)); [exact Hlb|exact (g_bin b Gb)]. }
  assert (Be : binpos_ok 11 false (flat e) = true).
  { apply binpos_ok_10_11. apply (binpos_ok_mono 10 (dlvl e)); [exact Hle|exact (g_bin e Ge)]. }
  apply good_of; try exact W.
  - intros p. cbn [flat]. rewrite prev_after_app, prev_after_cons. apply (g_prev e Ge).
  - cbn [flat dlvl]. rewrite binpos_ok_app, (binpos_ok_mono 11 12 _ _ ltac:(lia) Bb), (g_prev b Gb).
    cbn [binpos_ok]. change (is_operand_end (ETok (TSym "**"))) with false. rewrite Be. reflexivity.
  - intros _. cbn [flat]. rewrite head_sym_app; [|exact (good_nonempty b Gb)]. apply (g_not b Gb). lia.
  - intros _. cbn [flat]. rewrite head_sym_app; [|exact (good_nonempty b Gb)]. apply (g_uop b Gb). lia.
  - cbn [flat dlvl plvl]. unfold p_factor.
    rewrite (split_app 11 12 ltac:(lia) _ _ _ Bb), (g_prev b Gb), (split_op 11 "**" _ eq_refl).
    pose proof (g_parse e Ge 10 Hle) as Pe. cbn [plvl] in Pe. unfold p_factor in Pe.
    destruct (split_go 11 false (flat e)) as [p1 rest]. rewrite app_nil_r. cbn [p_factor_segs].
    rewrite (strip_uops_none (flat b)); [|apply (g_uop b Gb); lia].
    pose proof (g_parse b Gb 12 Hlb) as Pb. cbn [plvl] in Pb. rewrite Pb, Pe. reflexivity.
  - cbn [flat]. rewrite forallb_app. cbn [forallb]. rewrite (g_punct b Gb), (g_punct e Ge). reflexivity. Qed.

Lemma good_call f args tr : wfn (DCall f args tr) = true -> good f -> good (DCall f args tr).
Proof. intros W G. pose proof W as W'. simpl in W'.
  apply andb_prop in W' as [W' _]. apply andb_prop in W' as [W' _]. apply andb_prop in W' as [Hl Wf].
  apply at_least_le in Hl.
  apply good_of; try exact W.
  - intros p. cbn [flat]. rewrite prev_after_app. reflexivity.
  - cbn [flat dlvl]. rewrite binpos_ok_app, (binpos_ok_mono 12 (dlvl f) _ _ Hl (g_bin f G)). reflexivity.
  - intros _. cbn [flat]. rewrite head_sym_app; [|exact (good_nonempty f G)]. apply (g_not f G). lia.
  - intros _. cbn [flat]. rewrite head_sym_app; [|exact (good_nonempty f G)]. apply (g_uop f G). lia.
  - cbn [flat dlvl plvl]. pose proof (g_parse f G 12 Hl) as Pf. cbn [plvl] in Pf.
    rewrite (p_atom_expr_app _ _ _ Pf). destruct args as [|a args]; [reflexivity|].
    cbn [map trailers]. change (GTest (strip a) :: map (fun a0 => GTest (strip a0)) args) with (map (fun a0 => GTest (strip a0)) (a :: args)).
    rewrite tests_of_map. reflexivity.
  - cbn [flat]. rewrite forallb_app, (g_punct f G). reflexivity. Qed.

Lemma good_attr o n : wfn (DAttr o n) = true -> good o -> good (DAttr o n).
Proof. intros W G. pose proof W as W'. simpl in W'. apply andb_prop in W' as [Hl Wo]. apply at_least_le in Hl.
  apply good_of; try exact W.
  - intros p. cbn [flat]. rewrite prev_after_app. reflexivity.
  - cbn [flat dlvl]. rewrite binpos_ok_app, (binpos_ok_mono 12 (dlvl o) _ _ Hl (g_bin o G)), (g_prev o G). reflexivity.
  - intros _. cbn [flat]. rewrite head_sym_app; [|exact (good_nonempty o G)]. apply (g_not o G). lia.
  - intros _. cbn [flat]. rewrite head_sym_app; [|exact (good_nonempty o G)]. apply (g_uop o G). lia.
  - cbn [flat dlvl plvl]. pose proof (g_parse o G 12 Hl) as Po. cbn [plvl] in Po.
    rewrite (p_atom_expr_app _ _ _ Po). reflexivity.
  - cbn [flat]. rewrite forallb_app, (g_punct o G). reflexivity. Qed.

(* ---- binary levels *)
Lemma good_chain L d0 rest : wfn (DChain L d0 rest) = true -> good d0 ->
  (forall p, In p rest -> good (snd p)) -> good (DChain L d0 rest).
Proof. intros W G0 Gr. pose proof W as W'. simpl in W'.
  apply andb_prop in W' as [W' Hrest]. apply andb_prop in W' as [W' W0]. apply andb_prop in W' as [W' Hl0].
  apply andb_prop in W' as [Hcl Hne]. apply at_least_le in Hl0.
  assert (Hne' : rest <> []). { destruct rest; [discriminate Hne|discriminate]. }
  rewrite forallb_forall in Hrest.
  assert (Hr : forall p, In p rest -> is_binop_at L (fst p) = true /\ S L <= dlvl (snd p)).
  { intros p Hp. specialize (Hrest p Hp). apply andb_prop in Hrest as [Hrest _]. apply andb_prop in Hrest as [Ho Hl].
    split; [exact Ho|apply at_least_le; exact Hl]. }
  assert (HL9 : L <= 9). { destruct L as [|[|[|[|[|[|[|[|[|[|L]]]]]]]]]]; simpl in Hcl; try discriminate Hcl; lia. }
  apply good_of; try exact W.
  - intros p. cbn [flat]. rewrite prev_after_app. apply chain_prev; [|exact Hne'].
    intros q Hq q'. apply (g_prev _ (Gr q Hq)).
  - cbn [flat dlvl]. rewrite binpos_ok_app, (g_prev d0 G0).
    rewrite (binpos_ok_mono L (dlvl d0) _ _ ltac:(lia) (g_bin d0 G0)).
    rewrite (chain_binpos L rest); [reflexivity|].
    intros q Hq. destruct (Hr q Hq) as [Ho Hl]. split; [exact Ho|split].
    + apply (binpos_ok_mono L (dlvl (snd q))); [lia|exact (g_bin _ (Gr q Hq))].
    + apply (g_prev _ (Gr q Hq)).
  - intros H3. cbn [flat]. rewrite head_sym_app; [|exact (good_nonempty d0 G0)]. apply (g_not d0 G0). cbn [dlvl] in H3. lia.
  - cbn [dlvl]. lia.
  - cbn [flat dlvl]. rewrite (plvl_chain L Hcl), flat_map_pairs. cbn [strip].
    apply p_level_join.
    + rewrite <- flat_map_pairs. rewrite flat_map_pairs. apply split_join.
      * apply (binpos_ok_mono (S L) (dlvl d0)); [exact Hl0|exact (g_bin d0 G0)].
      * apply (g_prev d0 G0).
      * apply Forall_forall. intros q Hq. apply in_map_iff in Hq as [p [<- Hp]]. cbn [fst snd].
        destruct (Hr p Hp) as [Ho Hl]. split; [exact Ho|split].
        -- apply (binpos_ok_mono (S L) (dlvl (snd p))); [exact Hl|exact (g_bin _ (Gr p Hp))].
        -- apply (g_prev _ (Gr p Hp)).
    + exact (g_parse d0 G0 (S L) Hl0).
    + clear - Hr Gr. induction rest as [|p rest IH]; [constructor|]. cbn [map]. constructor.
      * cbn [fst snd]. split; [reflexivity|]. apply (g_parse _ (Gr p (or_introl eq_refl))). apply (Hr p (or_introl eq_refl)).
      * apply IH; intros q Hq; [apply Gr|apply Hr]; right; exact Hq.
  - cbn [flat]. rewrite forallb_app, (g_punct d0 G0). apply (chain_punct L).
    intros q Hq. split; [apply (Hr q Hq)|exact (g_punct _ (Gr q Hq))]. Qed.

(* ---- every well-formed AST *)
Lemma good_size : forall n d, dsize d < n -> wfn d = true -> good d.
Proof. induction n as [|n IH]; intros d Hs W; [lia|].
  destruct d as [x|s|t|t|k|L d0 rest|x|op x|b e|f args tr|o nm|k items tr|items tr].
  - apply good_par. exact W.
  - apply good_name.
  - apply good_num. exact W.
  - apply good_str. exact W.
  - apply good_const. exact W.
  - pose proof W as W'. simpl in W'. apply andb_prop in W' as [W' Hrest]. apply andb_prop in W' as [_ W0].
    rewrite forallb_forall in Hrest. simpl in Hs.
    apply good_chain; [exact W|apply IH; [lia|exact W0]|].
    intros p Hp. apply IH; [pose proof (dsize_rest rest p Hp); lia|].
    specialize (Hrest p Hp). apply andb_prop in Hrest as [_ Hw]. exact Hw.
  - pose proof W as W'. simpl in W'. apply andb_prop in W' as [_ Wx]. simpl in Hs.
    apply good_not; [exact W|apply IH; [lia|exact Wx]].
  - pose proof W as W'. simpl in W'. apply andb_prop in W' as [_ Wx]. simpl in Hs.
    apply good_factor; [exact W|apply IH; [lia|exact Wx]].
  - pose proof W as W'. simpl in W'. apply andb_prop in W' as [W' We]. apply andb_prop in W' as [W' _]. apply andb_prop in W' as [_ Wb].
    simpl in Hs. apply good_power; [exact W|apply IH; [lia|exact Wb]|apply IH; [lia|exact We]].
  - pose proof W as W'. simpl in W'. apply andb_prop in W' as [W' _]. apply andb_prop in W' as [W' _]. apply andb_prop in W' as [_ Wf].
    simpl in Hs. apply good_call; [exact W|apply IH; [lia|exact Wf]].
  - pose proof W as W'. simpl in W'. apply andb_prop in W' as [_ Wo]. simpl in Hs.
    apply good_attr; [exact W|apply IH; [lia|exact Wo]].
  - apply good_coll. exact W.
  - apply good_dict. exact W. Qed.

Theorem wf_good d : wfn d = true -> good d.
Proof. intros W. exact (good_size (S (dsize d)) d (Nat.lt_succ_diag_r _) W). Qed.
