(* Basic facts about the reference semantics Model/Sem.v: result columns, row shapes, row counts of
   project / windowed extend.  All statements proved. *)
From Coq Require Import List Bool Arith ZArith QArith String Lia Permutation.
Import ListNotations.
From DA Require Import Base.PyRT Base.Val Model.Sem.

(* ---------- auxiliary: widths of rows *)
Definition width_ok (t : table) : Prop := Forall (fun r => List.length r = List.length (cols t)) (rows t).

Lemma set_cell_length ccs row k v :
  List.length row = List.length ccs -> List.length (set_cell ccs row k v) = List.length (add_end ccs k).
Proof.
  intros L. unfold set_cell, add_end. destruct (index_of k ccs) as [i|] eqn:E.
  - rewrite (index_of_Some_mem _ _ _ E), set_nth_length. exact L.
  - apply index_of_None in E. rewrite E, !app_length, L. reflexivity.
Qed.

Lemma set_cell_get_other ccs row k v c :
  List.length row = List.length ccs -> In c ccs -> c <> k ->
  get (add_end ccs k) (set_cell ccs row k v) c = get ccs row c.
Proof.
  intros L I N. unfold set_cell, add_end, get. destruct (index_of k ccs) as [i|] eqn:Ek.
  - rewrite (index_of_Some_mem _ _ _ Ek). destruct (index_of c ccs) as [j|] eqn:Ec; [|reflexivity].
    apply nth_set_nth_other. intros ->. apply index_of_nth_error in Ek, Ec. congruence.
  - apply index_of_None in Ek. rewrite Ek. destruct (index_of_In c ccs I) as [j Ec].
    rewrite (index_of_app_l _ _ _ _ Ec), Ec. apply app_nth1. rewrite L. eapply index_of_lt; eassumption.
Qed.

Section FoldCells.
  Context {X : Type} (F : string * X -> val).
  Let step := (fun (acc : list val * list string) (ke : string * X) =>
                 let '(row, ccs) := acc in (set_cell ccs row (fst ke) (F ke), add_end ccs (fst ke))).

  Lemma fold_cells_inv l row ccs :
    List.length row = List.length ccs ->
    List.length (fst (fold_left step l (row, ccs))) = List.length (snd (fold_left step l (row, ccs)))
    /\ snd (fold_left step l (row, ccs)) = ext_cols ccs (map fst l).
  Proof.
    revert row ccs. induction l as [|ke l IH]; intros row ccs L; simpl; [split; [exact L|reflexivity]|].
    apply IH. apply set_cell_length. exact L.
  Qed.

  Lemma fold_cells_get l row ccs c :
    List.length row = List.length ccs -> In c ccs -> ~ In c (map fst l) ->
    get (ext_cols ccs (map fst l)) (fst (fold_left step l (row, ccs))) c = get ccs row c.
  Proof.
    revert row ccs. induction l as [|ke l IH]; intros row ccs L I N; simpl; [reflexivity|].
    simpl in N. unfold ext_cols in *. simpl. rewrite IH.
    - apply set_cell_get_other; [exact L|exact I|]. intros ->. apply N. left. reflexivity.
    - apply set_cell_length. exact L.
    - apply In_add_end. left. exact I.
    - intros H. apply N. right. exact H.
  Qed.
End FoldCells.

Lemma tag_from_In n rs ir : In ir (tag_from n rs) -> In (snd ir) rs.
Proof. revert n. induction rs as [|r t IH]; intros n; simpl; [tauto|]. intros [<-|H]; [left; reflexivity|right; eapply IH; eassumption]. Qed.

Lemma tag_from_length n rs : List.length (tag_from n rs) = List.length rs.
Proof. revert n. induction rs as [|r t IH]; intros n; simpl; [reflexivity|]. rewrite IH. reflexivity. Qed.

Lemma tag_from_nth_error n rs i r : nth_error rs i = Some r -> nth_error (tag_from n rs) i = Some ((n + i)%nat, r).
Proof.
  revert n i. induction rs as [|x t IH]; intros n [|i] E; simpl in *; try discriminate.
  - inversion E; subst. rewrite Nat.add_0_r. reflexivity.
  - rewrite (IH (S n) i E). f_equal. f_equal. lia.
Qed.

Lemma width_select_cols cs t : width_ok (sem_select_cols cs t).
Proof. unfold width_ok. simpl. apply Forall_forall. intros r H. apply in_map_iff in H. destruct H as [r0 [<- _]]. apply map_length. Qed.

Lemma extend_row_width fl cs ops r : List.length r = List.length cs ->
  List.length (extend_row fl cs ops r) = List.length (ext_cols cs (map fst ops)).
Proof.
  intros L. unfold extend_row.
  destruct (fold_cells_inv (fun ke => eval_expr fl cs r (snd ke)) ops r cs L) as [H1 H2].
  rewrite <- H2. exact H1.
Qed.

Lemma width_extend fl ops t : width_ok t -> width_ok (sem_extend fl ops t).
Proof.
  unfold width_ok. simpl. rewrite !Forall_forall. intros W r H. apply in_map_iff in H. destruct H as [r0 [<- I]].
  apply extend_row_width. apply W. exact I.
Qed.

Lemma map_fst_tagged {A B C} (g : A * B -> C) (ops : list (A * B)) :
  map fst (map (fun ke => (fst ke, g ke)) ops) = map fst ops.
Proof. induction ops as [|a l IH]; simpl; [reflexivity|]. rewrite IH. reflexivity. Qed.

Lemma width_wextend fl ops w t : width_ok t -> width_ok (sem_wextend fl ops w t).
Proof.
  unfold width_ok. simpl. rewrite !Forall_forall. intros W r H. apply in_map_iff in H. destruct H as [ir [<- I]].
  apply tag_from_In in I. apply W in I.
  destruct (fold_cells_inv (fun kc : string * list (nat * val) => lookup_pos (snd kc) (fst ir))
              (map (fun ke => (fst ke, window_column fl w t (snd ke))) ops) (snd ir) (cols t) I) as [H1 H2].
  rewrite (map_fst_tagged (fun ke => window_column fl w t (snd ke))) in H2. rewrite <- H2. exact H1.
Qed.

Lemma key_of_length cs ks r : List.length (key_of cs ks r) = List.length ks.
Proof. apply map_length. Qed.

Lemma filter_In_sub {A} (f : A -> bool) l x : In x (filter f l) -> In x l.
Proof. intros H. apply filter_In in H. tauto. Qed.

Lemma distinct_keys_sound_aux ks k : In k (distinct_keys ks) -> In k ks.
Proof.
  induction ks as [|a t IH]; simpl; [tauto|]. intros [->|I]; [left; reflexivity|].
  right. apply IH. apply filter_In in I. tauto.
Qed.

Lemma width_project fl ops gb t : width_ok (sem_project fl ops gb t).
Proof.
  unfold width_ok. simpl. apply Forall_forall. intros r H. apply in_map_iff in H. destruct H as [k [<- I]].
  rewrite !app_length, !map_length. f_equal.
  destruct gb as [|g gb]; [destruct I as [<-|[]]; reflexivity|].
  apply distinct_keys_sound_aux in I. apply in_map_iff in I. destruct I as [r0 [<- _]]. apply key_of_length.
Qed.

Lemma width_select_rows fl x t : width_ok t -> width_ok (sem_select_rows fl x t).
Proof.
  unfold width_ok. simpl. rewrite !Forall_forall. intros W r H. apply W. eapply filter_In_sub. exact H.
Qed.

Lemma width_rename m t : width_ok t -> width_ok (sem_rename m t).
Proof. unfold width_ok. simpl. rewrite map_length. tauto. Qed.

Lemma insert_sorted_In {A} (le : A -> A -> bool) x l y : In y (insert_sorted le x l) -> y = x \/ In y l.
Proof.
  induction l as [|a t IH]; simpl; [intros [<-|[]]; left; reflexivity|].
  destruct (le x a); simpl; intros [<-|H]; auto. destruct (IH H); auto.
Qed.

Lemma stable_sort_In {A} (le : A -> A -> bool) l y : In y (stable_sort le l) -> In y l.
Proof.
  induction l as [|a t IH]; simpl; [tauto|]. intros H. apply insert_sorted_In in H. destruct H as [->|H]; auto.
Qed.

Lemma firstn_In {A} n (l : list A) y : In y (firstn n l) -> In y l.
Proof. revert l. induction n as [|n IH]; intros [|a t]; simpl; try tauto. intros [<-|H]; auto. Qed.

Lemma width_order fl cs rev lim t : width_ok t -> width_ok (sem_order fl cs rev lim t).
Proof.
  unfold width_ok. simpl. rewrite !Forall_forall. intros W r H. apply W.
  destruct lim; [apply firstn_In in H|]; eapply stable_sort_In; exact H.
Qed.

Lemma width_join nm on_a on_b jt a b : width_ok (sem_join nm on_a on_b jt a b).
Proof.
  unfold width_ok, sem_join. cbn [cols rows]. apply Forall_forall. intros r H.
  set (out := cols a ++ filter (fun c => negb (mem c (cols a))) (cols b)) in *.
  rewrite !in_app_iff in H. destruct H as [H|[H|H]].
  - apply in_flat_map in H. destruct H as [ra [_ H]]. apply in_flat_map in H. destruct H as [rb [_ H]].
    destruct (keys_match _ _ _); [destruct H as [<-|[]]; apply map_length|destruct H].
  - destruct jt; try destruct H; apply in_flat_map in H; destruct H as [ra [_ H]];
      destruct (existsb _ _); try destruct H as [<-|[]]; try destruct H; apply map_length.
  - destruct jt; try destruct H; apply in_flat_map in H; destruct H as [rb [_ H]];
      destruct (existsb _ _); try destruct H as [<-|[]]; try destruct H; apply map_length.
Qed.

Lemma width_concat idc an bn a b : width_ok a -> width_ok (sem_concat idc an bn a b).
Proof.
  unfold width_ok, sem_concat. intros W. rewrite Forall_forall in W. destruct idc as [c|]; cbn [cols rows]; apply Forall_forall; intros r H;
    rewrite in_app_iff in H.
  - destruct H as [H|H]; apply in_map_iff in H; destruct H as [r0 [<- H]]; rewrite !app_length; simpl; f_equal.
    + apply W. exact H.
    + apply in_map_iff in H. destruct H as [r1 [<- _]]. apply map_length.
  - destruct H as [H|H]; [apply W; exact H|]. apply in_map_iff in H. destruct H as [r1 [<- _]]. apply map_length.
Qed.

(* ---------- C08: the result has exactly the declared columns, in the declared order; rows have that width *)
Lemma sem_cols fl p e t : sem_gen fl p e = Some t -> cols t = column_names p.
Proof.
  revert t. induction p; intros t H; cbn [sem_gen] in H; cbn [column_names].
  - destruct (dict_get e name); inversion H; reflexivity.
  - destruct (sem_gen fl p e) as [t0|]; simpl in H; inversion H. rewrite <- (IHp _ eq_refl). destruct windowed; reflexivity.
  - destruct (sem_gen fl p e) as [t0|]; simpl in H; inversion H. reflexivity.
  - destruct (sem_gen fl p e) as [t0|]; simpl in H; inversion H. rewrite <- (IHp _ eq_refl). reflexivity.
  - destruct (sem_gen fl p e) as [t0|]; simpl in H; inversion H. reflexivity.
  - destruct (sem_gen fl p e) as [t0|]; simpl in H; inversion H. rewrite <- (IHp _ eq_refl). reflexivity.
  - destruct (sem_gen fl p e) as [t0|]; simpl in H; inversion H. rewrite <- (IHp _ eq_refl). reflexivity.
  - destruct (sem_gen fl p e) as [t0|]; simpl in H; inversion H. rewrite <- (IHp _ eq_refl). reflexivity.
  - destruct (sem_gen fl p e) as [t0|]; simpl in H; inversion H. rewrite <- (IHp _ eq_refl). reflexivity.
  - destruct (sem_gen fl p1 e) as [ta|]; [|discriminate]. destruct (sem_gen fl p2 e) as [tb|]; inversion H.
    rewrite <- (IHp1 _ eq_refl), <- (IHp2 _ eq_refl). reflexivity.
  - destruct (sem_gen fl p1 e) as [ta|]; [|discriminate]. destruct (sem_gen fl p2 e) as [tb|]; inversion H.
    rewrite <- (IHp1 _ eq_refl). destruct idcol; simpl; [reflexivity|]. rewrite app_nil_r. reflexivity.
Qed.

Lemma sem_rows_width fl p e t : sem_gen fl p e = Some t -> Forall (fun r => List.length r = List.length (cols t)) (rows t).
Proof.
  change (sem_gen fl p e = Some t -> width_ok t).
  revert t. induction p; intros t H; cbn [sem_gen] in H.
  - destruct (dict_get e name); inversion H. apply width_select_cols.
  - destruct (sem_gen fl p e) as [t0|]; simpl in H; inversion H.
    destruct windowed; [apply width_wextend|apply width_extend]; apply IHp; reflexivity.
  - destruct (sem_gen fl p e) as [t0|]; simpl in H; inversion H. apply width_project.
  - destruct (sem_gen fl p e) as [t0|]; simpl in H; inversion H. apply width_select_rows. apply IHp; reflexivity.
  - destruct (sem_gen fl p e) as [t0|]; simpl in H; inversion H. apply width_select_cols.
  - destruct (sem_gen fl p e) as [t0|]; simpl in H; inversion H. apply width_select_cols.
  - destruct (sem_gen fl p e) as [t0|]; simpl in H; inversion H. apply width_rename. apply IHp; reflexivity.
  - destruct (sem_gen fl p e) as [t0|]; simpl in H; inversion H. apply width_select_cols.
  - destruct (sem_gen fl p e) as [t0|]; simpl in H; inversion H. apply width_order. apply IHp; reflexivity.
  - destruct (sem_gen fl p1 e) as [ta|]; [|discriminate]. destruct (sem_gen fl p2 e) as [tb|]; inversion H. apply width_join.
  - destruct (sem_gen fl p1 e) as [ta|]; [|discriminate]. destruct (sem_gen fl p2 e) as [tb|]; inversion H.
    apply width_concat. apply IHp1; reflexivity.
Qed.

(* the pipeline is defined as soon as every table it mentions is supplied *)
Fixpoint tables_of (p : op) : list string :=
  match p with
  | OTable n _ => [n]
  | OExtend s _ _ _ | OProject s _ _ | OSelectRows s _ | OSelectCols s _ | ODropCols s _ | ORename s _ | OMapCols s _ _ | OOrder s _ _ _ => tables_of s
  | OJoin a b _ _ _ | OConcat a b _ _ _ => tables_of a ++ tables_of b
  end.
Lemma sem_defined fl p e : (forall n, In n (tables_of p) -> dict_get e n <> None) -> exists t, sem_gen fl p e = Some t.
Proof.
  induction p; intros H; cbn [sem_gen]; cbn [tables_of] in H.
  - destruct (dict_get e name) eqn:E; [eexists; reflexivity|]. exfalso. apply (H name); [left; reflexivity|exact E].
  - destruct (IHp H) as [t0 E]. rewrite E. eexists; reflexivity.
  - destruct (IHp H) as [t0 E]. rewrite E. eexists; reflexivity.
  - destruct (IHp H) as [t0 E]. rewrite E. eexists; reflexivity.
  - destruct (IHp H) as [t0 E]. rewrite E. eexists; reflexivity.
  - destruct (IHp H) as [t0 E]. rewrite E. eexists; reflexivity.
  - destruct (IHp H) as [t0 E]. rewrite E. eexists; reflexivity.
  - destruct (IHp H) as [t0 E]. rewrite E. eexists; reflexivity.
  - destruct (IHp H) as [t0 E]. rewrite E. eexists; reflexivity.
  - destruct IHp1 as [ta Ea]; [intros n I; apply H; apply in_app_iff; left; exact I|].
    destruct IHp2 as [tb Eb]; [intros n I; apply H; apply in_app_iff; right; exact I|].
    rewrite Ea, Eb. eexists; reflexivity.
  - destruct IHp1 as [ta Ea]; [intros n I; apply H; apply in_app_iff; left; exact I|].
    destruct IHp2 as [tb Eb]; [intros n I; apply H; apply in_app_iff; right; exact I|].
    rewrite Ea, Eb. eexists; reflexivity.
Qed.

(* ---------- equivalence of keys *)
Lemma Qeq_bool_comm x y : Qeq_bool x y = Qeq_bool y x.
Proof.
  destruct (Qeq_bool x y) eqn:E.
  - symmetry. apply Qeq_bool_iff. apply Qeq_sym. apply Qeq_bool_iff. exact E.
  - destruct (Qeq_bool y x) eqn:E2; [|reflexivity].
    apply Qeq_bool_iff in E2. apply Qeq_sym in E2. apply Qeq_bool_iff in E2. congruence.
Qed.

Lemma Qeq_bool_tr x y z : Qeq_bool x y = true -> Qeq_bool y z = true -> Qeq_bool x z = true.
Proof. intros H1 H2. apply Qeq_bool_iff in H1, H2. apply Qeq_bool_iff. eapply Qeq_trans; eassumption. Qed.

Lemma v_eqv_refl a : v_eqv a a = true.
Proof. destruct a as [|[]| | |]; cbn [v_eqv num_of]; try reflexivity; try apply Qeq_bool_refl. apply String.eqb_refl. Qed.
Lemma v_eqv_sym a b : v_eqv a b = v_eqv b a.
Proof.
  destruct a as [|[]| | |], b as [|[]| | |]; cbn [v_eqv num_of]; try reflexivity; try apply Qeq_bool_comm.
  apply String.eqb_sym.
Qed.
Lemma v_eqv_trans a b c : v_eqv a b = true -> v_eqv b c = true -> v_eqv a c = true.
Proof.
  destruct a as [|[]| | |], b as [|[]| | |], c as [|[]| | |]; cbn [v_eqv num_of]; intros H1 H2;
    try discriminate; try reflexivity; try exact (Qeq_bool_tr _ _ _ H1 H2).
  apply String.eqb_eq in H1, H2. subst. apply String.eqb_refl.
Qed.
Lemma keys_eqv_refl k : keys_eqv k k = true.
Proof. induction k as [|x t IH]; simpl; [reflexivity|]. rewrite v_eqv_refl, IH. reflexivity. Qed.
Lemma keys_eqv_sym a b : keys_eqv a b = keys_eqv b a.
Proof. revert b. induction a as [|x t IH]; intros [|y u]; simpl; try reflexivity. rewrite v_eqv_sym, IH. reflexivity. Qed.
Lemma keys_eqv_trans a b c : keys_eqv a b = true -> keys_eqv b c = true -> keys_eqv a c = true.
Proof.
  revert b c. induction a as [|x t IH]; intros [|y u] [|z v]; simpl; intros H1 H2; try discriminate; try reflexivity.
  apply andb_true_iff in H1, H2. destruct H1 as [A1 B1], H2 as [A2 B2].
  apply andb_true_iff. split; [eapply v_eqv_trans; eassumption|eapply IH; eassumption].
Qed.

(* distinct_keys keeps exactly one representative of every class of equivalent keys (null is a key value of its own) *)
Lemma distinct_keys_complete ks k : In k ks -> exists k', In k' (distinct_keys ks) /\ keys_eqv k' k = true.
Proof.
  induction ks as [|a t IH]; simpl; [tauto|]. intros [->|I].
  - exists k. split; [left; reflexivity|apply keys_eqv_refl].
  - destruct (IH I) as [k' [I' E]]. destruct (keys_eqv a k') eqn:Ea.
    + exists a. split; [left; reflexivity|]. eapply keys_eqv_trans; eassumption.
    + exists k'. split; [|exact E]. right. apply filter_In. split; [exact I'|]. rewrite Ea. reflexivity.
Qed.
Lemma distinct_keys_sound ks k : In k (distinct_keys ks) -> In k ks.
Proof.
  induction ks as [|a t IH]; simpl; [tauto|]. intros [->|I]; [left; reflexivity|].
  right. apply IH. apply filter_In in I. tauto.
Qed.

Lemma FOP_filter {A} (R : A -> A -> Prop) (f : A -> bool) l : ForallOrdPairs R l -> ForallOrdPairs R (filter f l).
Proof.
  induction 1 as [|a l Ha Hl IH]; simpl; [constructor|]. destruct (f a); [|exact IH].
  constructor; [|exact IH]. rewrite Forall_forall in *. intros x Hx. apply Ha. apply filter_In in Hx. tauto.
Qed.

Lemma distinct_keys_pairwise ks : ForallOrdPairs (fun a b => keys_eqv a b = false) (distinct_keys ks).
Proof.
  induction ks as [|a t IH]; simpl; constructor.
  - apply Forall_forall. intros x Hx. apply filter_In in Hx. destruct Hx as [_ Hx]. apply negb_true_iff in Hx. exact Hx.
  - apply FOP_filter. exact IH.
Qed.

(* ---------- C09: project *)
(* without group_by: exactly one row, also on an empty input *)
Lemma project_ungrouped_one_row fl ops t : List.length (rows (sem_project fl ops [] t)) = 1%nat.
Proof. reflexivity. Qed.
(* with group_by: one row per distinct key combination of the input *)
Lemma project_grouped_row_count fl ops gb t : gb <> [] ->
  List.length (rows (sem_project fl ops gb t)) = List.length (distinct_keys (map (key_of (cols t) gb) (rows t))).
Proof. intros N. destruct gb as [|g gb]; [congruence|]. unfold sem_project. cbn [rows]. apply map_length. Qed.
(* every output row starts with its group key and aggregates exactly the input rows with an equivalent key *)
Lemma project_row_content fl ops gb t r : In r (rows (sem_project fl ops gb t)) ->
  exists k, r = k ++ map (fun ke => agg_value fl (cols t) (filter (fun r0 => keys_eqv k (key_of (cols t) gb r0)) (rows t)) (snd ke)) ops
            /\ (gb <> [] -> In k (map (key_of (cols t) gb) (rows t))).
Proof.
  unfold sem_project. cbn [rows]. intros H. apply in_map_iff in H. destruct H as [k [<- I]].
  exists k. split; [reflexivity|]. intros N. destruct gb as [|g gb]; [congruence|]. apply distinct_keys_sound. exact I.
Qed.
(* a row whose key contains a null still belongs to a group of the output *)
Lemma project_null_key_has_group fl ops gb t r0 : gb <> [] -> In r0 (rows t) ->
  exists r k, In r (rows (sem_project fl ops gb t)) /\ firstn (List.length gb) r = k /\ keys_eqv k (key_of (cols t) gb r0) = true.
Proof.
  intros N I.
  destruct (distinct_keys_complete (map (key_of (cols t) gb) (rows t)) (key_of (cols t) gb r0)) as [k [Ik E]].
  { apply in_map. exact I. }
  exists (k ++ map (fun ke => agg_value fl (cols t) (filter (fun r => keys_eqv k (key_of (cols t) gb r)) (rows t)) (snd ke)) ops), k.
  split; [|split; [|exact E]].
  - unfold sem_project. cbn [rows]. destruct gb as [|g gb]; [congruence|].
    apply in_map_iff. exists k. split; [reflexivity|exact Ik].
  - assert (List.length k = List.length gb) as L.
    { apply distinct_keys_sound in Ik. apply in_map_iff in Ik. destruct Ik as [r1 [<- _]]. apply key_of_length. }
    rewrite <- L. rewrite firstn_app, Nat.sub_diag, firstn_all. simpl. apply app_nil_r.
Qed.

(* ---------- C09: windowed extend keeps every input row *)
Lemma wextend_row_count fl ops w t : List.length (rows (sem_wextend fl ops w t)) = List.length (rows t).
Proof. unfold sem_wextend. cbn [rows]. rewrite map_length. apply tag_from_length. Qed.
Lemma extend_row_count fl ops t : List.length (rows (sem_extend fl ops t)) = List.length (rows t).
Proof. unfold sem_extend. cbn [rows]. apply map_length. Qed.
(* ... and leaves the columns it does not assign untouched *)
Lemma wextend_keeps_other_columns fl ops w t i r r' c :
  NoDup (cols t) -> Forall (fun r => List.length r = List.length (cols t)) (rows t) ->
  nth_error (rows t) i = Some r -> nth_error (rows (sem_wextend fl ops w t)) i = Some r' ->
  In c (cols t) -> ~ In c (map fst ops) ->
  get (ext_cols (cols t) (map fst ops)) r' c = get (cols t) r c.
Proof.
  intros _ W Hr Hr' Ic Nc. unfold sem_wextend in Hr'. cbn [rows] in Hr'.
  rewrite nth_error_map, (tag_from_nth_error 0 _ _ _ Hr) in Hr'. simpl in Hr'. inversion Hr' as [E]. clear Hr'.
  rewrite Forall_forall in W. assert (List.length r = List.length (cols t)) as L by (apply W; eapply nth_error_In; eassumption).
  pose proof (fold_cells_get (fun kc : string * list (nat * val) => lookup_pos (snd kc) i)
              (map (fun ke => (fst ke, window_column fl w t (snd ke))) ops) r (cols t) c L Ic) as G.
  rewrite (map_fst_tagged (fun ke => window_column fl w t (snd ke))) in G. apply G. exact Nc.
Qed.

