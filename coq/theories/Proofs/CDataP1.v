(* C17, part 1: the order on key tuples is a total order on canonical keys; insertion sort by key is a permutation,
   commutes with key-preserving maps, and is a FUNCTION OF THE MULTISET when keys are pairwise distinct.
   List utilities (get/cells over appended and mapped rows, dedup, nodupb). *)
From Coq Require Import List Bool Arith ZArith QArith String Ascii Lia Permutation.
Import ListNotations.
From DA Require Import Base.PyRT Base.Val Model.CData.

(* ------------------------------------------------------------------ boolean reflection *)
Lemma nodupb_NoDup {A} `{EqDec A} (l : list A) : nodupb l = true <-> NoDup l.
Proof. induction l as [|x t IH]; simpl.
  - split; [constructor|reflexivity].
  - rewrite andb_true_iff, negb_true_iff, mem_false, IH. split.
    + intros [a b]. constructor; assumption.
    + intros N. inversion N; subst. split; assumption. Qed.

Lemma forallb_Forall {A} (f : A -> bool) l : forallb f l = true <-> Forall (fun x => f x = true) l.
Proof. rewrite forallb_forall, Forall_forall. reflexivity. Qed.

Lemma In_dedup {A} `{EqDec A} (l seen : list A) x : In x (dedup seen l) <-> In x l /\ ~ In x seen.
Proof. revert seen. induction l as [|y t IH]; intros seen; simpl; [tauto|].
  destruct (mem y seen) eqn:M.
  - apply mem_In in M. rewrite IH. split; [tauto|]. intros [[e|i] n]; [subst; contradiction|tauto].
  - apply mem_false in M. simpl. rewrite IH. simpl. split.
    + intros [e|[i n]]; [subst; tauto|]. split; [tauto|]. intros s. apply n. right. exact s.
    + intros [[e|i] n]; [left; exact e|]. destruct (eq_dec y x) as [e|ne]; [left; exact e|].
      right. split; [exact i|]. intros [e|s]; [contradiction|contradiction]. Qed.

Lemma NoDup_dedup {A} `{EqDec A} (l seen : list A) : NoDup (dedup seen l).
Proof. revert seen. induction l as [|y t IH]; intros seen; simpl; [constructor|].
  destruct (mem y seen) eqn:M; [apply IH|]. constructor; [|apply IH].
  rewrite In_dedup. simpl. tauto. Qed.

Lemma dedup_NoDup_id {A} `{EqDec A} (l seen : list A) :
  NoDup l -> (forall x, In x l -> ~ In x seen) -> dedup seen l = l.
Proof. revert seen. induction l as [|y t IH]; intros seen N D; simpl; [reflexivity|].
  inversion N as [|? ? Hy Nt]; subst.
  destruct (mem y seen) eqn:M; [apply mem_In in M; exfalso; exact (D y (or_introl eq_refl) M)|].
  f_equal. apply IH; [exact Nt|]. intros x Hx [e|s]; [subst; contradiction|]. exact (D x (or_intror Hx) s). Qed.

(* ------------------------------------------------------------------ get / cells *)
Lemma get_map_cols (f : string -> val) cs c : In c cs -> get cs (map f cs) c = f c.
Proof. intros I. unfold get. destruct (index_of_In c cs I) as [i E]. rewrite E.
  pose proof (index_of_nth_error _ _ _ E) as N.
  assert (L : (i < List.length cs)%nat) by (eapply index_of_lt; exact E).
  rewrite (nth_indep _ VNull (f c)) by (rewrite map_length; exact L).
  change (f c) with (f c) at 2. rewrite map_nth with (d := c). f_equal.
  apply nth_error_nth with (d := c) in N. exact N. Qed.

Lemma cells_cells cs0 r cs ks : (forall k, In k ks -> In k cs) -> cells cs (cells cs0 r cs) ks = cells cs0 r ks.
Proof. intros S. unfold cells. apply map_ext_in. intros k Hk. apply get_map_cols. apply S, Hk. Qed.

Lemma cells_length cs r ks : List.length (cells cs r ks) = List.length ks.
Proof. apply map_length. Qed.

Lemma cells_app cs r a b : cells cs r (a ++ b) = cells cs r a ++ cells cs r b.
Proof. apply map_app. Qed.

Lemma index_of_app_r c (a b : list string) : ~ In c a ->
  index_of c (a ++ b) = option_map (fun j => (List.length a + j)%nat) (index_of c b).
Proof. induction a as [|x t IH]; intros N; simpl.
  - destruct (index_of c b); reflexivity.
  - destruct (eq_dec c x) as [e|ne]; [subst; exfalso; apply N; left; reflexivity|].
    rewrite IH by (intros I; apply N; right; exact I). destruct (index_of c b); reflexivity. Qed.

Lemma get_app_l a b ra rb c : In c a -> List.length ra = List.length a -> get (a ++ b) (ra ++ rb) c = get a ra c.
Proof. intros I L. unfold get. destruct (index_of_In c a I) as [i E].
  rewrite (index_of_app_l _ _ b _ E), E. apply app_nth1. rewrite L. eapply index_of_lt; exact E. Qed.

Lemma get_app_r a b ra rb c : ~ In c a -> List.length ra = List.length a -> get (a ++ b) (ra ++ rb) c = get b rb c.
Proof. intros N L. unfold get. rewrite index_of_app_r by exact N. destruct (index_of c b) as [j|]; simpl; [|reflexivity].
  rewrite <- L. apply app_nth2_plus. Qed.

Lemma cells_app_l a b ra rb ks : (forall k, In k ks -> In k a) -> List.length ra = List.length a ->
  cells (a ++ b) (ra ++ rb) ks = cells a ra ks.
Proof. intros S L. apply map_ext_in. intros k Hk. apply get_app_l; [apply S, Hk|exact L]. Qed.

Lemma cells_app_r a b ra rb ks : (forall k, In k ks -> ~ In k a) -> List.length ra = List.length a ->
  cells (a ++ b) (ra ++ rb) ks = cells b rb ks.
Proof. intros S L. apply map_ext_in. intros k Hk. apply get_app_r; [apply S, Hk|exact L]. Qed.

Lemma cells_self cs r : List.length r = List.length cs -> NoDup cs -> cells cs r cs = r.
Proof. revert r. induction cs as [|c t IH]; intros [|v r] L N; simpl in *; try discriminate; [reflexivity|].
  inversion N as [|? ? Hc Nt]; subst. unfold get at 1. simpl. destruct (eq_dec c c) as [_|n]; [|congruence]. simpl. f_equal.
  rewrite <- (IH r) at 2 by (try lia; assumption).
  apply map_ext_in. intros k Hk. unfold get. simpl.
  destruct (eq_dec k c) as [e|ne]; [subst; contradiction|]. destruct (index_of k t); reflexivity. Qed.

(* glueing named pieces: the cell of a name that occurs in exactly one piece *)
Lemma get_concat {K} (G : list K) (N : K -> list string) (V : K -> list val) k n :
  In k G -> In n (N k) -> (forall k', In k' G -> List.length (V k') = List.length (N k')) ->
  (forall k', In k' G -> In n (N k') -> k' = k) ->
  get (List.concat (map N G)) (List.concat (map V G)) n = get (N k) (V k) n.
Proof. induction G as [|k1 G IH]; intros Hk Hn HL HU; [destruct Hk|]. simpl.
  destruct (in_dec string_dec n (N k1)) as [i|ni].
  - rewrite get_app_l by (try assumption; apply HL; left; reflexivity).
    rewrite (HU k1 (or_introl eq_refl) i). reflexivity.
  - rewrite get_app_r by (try assumption; apply HL; left; reflexivity).
    apply IH.
    + destruct Hk as [e|Hk]; [subst; contradiction|exact Hk].
    + exact Hn.
    + intros k' Hk'. apply HL. right. exact Hk'.
    + intros k' Hk' Hn'. apply HU; [right; exact Hk'|exact Hn']. Qed.

(* ------------------------------------------------------------------ the order on values *)
Definition keyc (k : list val) : bool := forallb val_canon k.

Lemma key_ok_keyc k : key_ok k = true -> keyc k = true.
Proof. unfold key_ok, keyc. rewrite !forallb_forall. intros h v Hv. specialize (h v Hv).
  apply andb_true_iff in h. tauto. Qed.

Lemma bool_cmp_antisym a b : bool_cmp b a = CompOpp (bool_cmp a b).
Proof. destruct a, b; reflexivity. Qed.

Lemma val_cmp_antisym a b : val_cmp b a = CompOpp (val_cmp a b).
Proof. destruct a as [|x|x|x|x], b as [|y|y|y|y]; simpl; try reflexivity.
  - apply bool_cmp_antisym.
  - apply Z.compare_antisym.
  - symmetry. apply Qcompare_antisym.
  - apply String.compare_antisym. Qed.

Lemma scompare_refl s : String.compare s s = Eq.
Proof. induction s as [|a s IH]; simpl; [reflexivity|]. unfold Ascii.compare. rewrite N.compare_refl. exact IH. Qed.

Lemma val_cmp_refl a : val_cmp a a = Eq.
Proof. destruct a as [|x|x|x|x]; simpl; try reflexivity.
  - destruct x; reflexivity.
  - apply Z.compare_refl.
  - apply Qeq_alt. reflexivity.
  - apply scompare_refl. Qed.

Lemma val_cmp_eq a b : val_canon a = true -> val_canon b = true -> val_cmp a b = Eq -> a = b.
Proof. destruct a as [|x|x|x|x], b as [|y|y|y|y]; simpl; intros ca cb E; try discriminate; try reflexivity.
  - destruct x, y; try discriminate; reflexivity.
  - apply Z.compare_eq in E. congruence.
  - apply (proj1 (eqb_true _ _)) in ca. apply (proj1 (eqb_true _ _)) in cb. apply Qeq_alt in E. apply Qred_complete in E. congruence.
  - apply String.compare_eq_iff in E. congruence. Qed.

Lemma scompare_le_trans a : forall b c, String.compare a b <> Gt -> String.compare b c <> Gt -> String.compare a c <> Gt.
Proof.
  induction a as [|x a IH]; intros [|y b] [|z c]; simpl; try congruence.
  unfold Ascii.compare.
  destruct (N.compare_spec (Ascii.N_of_ascii x) (Ascii.N_of_ascii y));
  destruct (N.compare_spec (Ascii.N_of_ascii y) (Ascii.N_of_ascii z));
  destruct (N.compare_spec (Ascii.N_of_ascii x) (Ascii.N_of_ascii z));
  try congruence; try lia; intros; eauto.
Qed.

Lemma val_cmp_le_trans a b c : val_cmp a b <> Gt -> val_cmp b c <> Gt -> val_cmp a c <> Gt.
Proof. destruct a as [|x|x|x|x], b as [|y|y|y|y], c as [|z|z|z|z]; simpl; try congruence.
  - destruct x, y, z; simpl; congruence.
  - rewrite !Z.compare_le_iff. lia.
  - rewrite <- !Qle_alt. apply Qle_trans.
  - apply scompare_le_trans. Qed.

Definition keyc_all {A} (key : A -> list val) (l : list A) : Prop := Forall (fun x => keyc (key x) = true) l.

Lemma key_cmp_antisym a : forall b, key_cmp b a = CompOpp (key_cmp a b).
Proof. induction a as [|x a IH]; intros [|y b]; simpl; try reflexivity.
  rewrite (val_cmp_antisym x y). destruct (val_cmp x y); simpl; try reflexivity. apply IH. Qed.

Lemma key_cmp_refl a : key_cmp a a = Eq.
Proof. induction a as [|x a IH]; simpl; [reflexivity|]. rewrite val_cmp_refl. exact IH. Qed.

Lemma key_cmp_eq a : forall b, keyc a = true -> keyc b = true -> key_cmp a b = Eq -> a = b.
Proof. induction a as [|x a IH]; intros [|y b] ca cb E; simpl in *; try discriminate; [reflexivity|].
  apply andb_true_iff in ca. apply andb_true_iff in cb. destruct ca as [cx ca], cb as [cy cb].
  destruct (val_cmp x y) eqn:V; try discriminate.
  rewrite (val_cmp_eq x y cx cy V). f_equal. apply IH; assumption. Qed.

Lemma key_cmp_le_trans a : forall b c, keyc a = true -> keyc b = true -> keyc c = true ->
  key_cmp a b <> Gt -> key_cmp b c <> Gt -> key_cmp a c <> Gt.
Proof. induction a as [|x a IH]; intros [|y b] [|z c] ca cb cc; simpl; try congruence.
  apply andb_true_iff in ca. apply andb_true_iff in cb. apply andb_true_iff in cc.
  destruct ca as [cx ca], cb as [cy cb], cc as [cz cc].
  destruct (val_cmp x y) eqn:Vxy.
  - rewrite (val_cmp_eq x y cx cy Vxy). destruct (val_cmp y z) eqn:Vyz; try congruence.
    intros h1 h2. apply (IH b c); assumption.
  - intros _. destruct (val_cmp y z) eqn:Vyz.
    + rewrite <- (val_cmp_eq y z cy cz Vyz). rewrite Vxy. congruence.
    + intros _. destruct (val_cmp x z) eqn:Vxz; try congruence.
      * (* x = z: then y < x and x < y *)
        exfalso. rewrite (val_cmp_eq x z cx cz Vxz) in Vxy. rewrite (val_cmp_antisym y z), Vyz in Vxy. discriminate.
      * exfalso. apply (val_cmp_le_trans x y z); congruence.
    + congruence.
  - congruence. Qed.

(* ------------------------------------------------------------------ sort_by *)
Section SortFacts.
  Context {A : Type} (key : A -> list val).

  Lemma insert_by_perm x l : Permutation (insert_by key x l) (x :: l).
  Proof. induction l as [|y t IH]; simpl; [reflexivity|].
    destruct (cmp_leb _); [reflexivity|]. rewrite IH. apply perm_swap. Qed.

  Lemma sort_by_perm l : Permutation (sort_by key l) l.
  Proof. induction l as [|x t IH]; simpl; [reflexivity|]. rewrite insert_by_perm. constructor. exact IH. Qed.

  Lemma sort_by_length l : List.length (sort_by key l) = List.length l.
  Proof. apply Permutation_length, sort_by_perm. Qed.

  Lemma sort_by_In l x : In x (sort_by key l) <-> In x l.
  Proof. split; apply Permutation_in; [|symmetry]; apply sort_by_perm. Qed.

  (* inserting two elements with different canonical keys commutes, into ANY list *)
  Lemma insert_by_comm a b l : keyc (key a) = true -> keyc (key b) = true -> keyc_all key l -> key a <> key b ->
    insert_by key a (insert_by key b l) = insert_by key b (insert_by key a l).
  Proof. intros ca cb cl ne.
    assert (NE : key_cmp (key a) (key b) <> Eq) by (intros E; apply ne; apply key_cmp_eq; assumption).
    pose proof (key_cmp_antisym (key a) (key b)) as AS.
    induction l as [|y t IH]; simpl.
    - destruct (key_cmp (key a) (key b)) eqn:C; rewrite AS; simpl; try reflexivity. congruence.
    - inversion cl as [|? ? cy ct]; subst. specialize (IH ct).
      pose proof (key_cmp_antisym (key a) (key y)) as ASa. pose proof (key_cmp_antisym (key b) (key y)) as ASb.
      pose proof (key_cmp_le_trans (key a) (key b) (key y) ca cb cy) as T1.
      pose proof (key_cmp_le_trans (key b) (key a) (key y) cb ca cy) as T2.
      pose proof (key_cmp_le_trans (key y) (key a) (key b) cy ca cb) as T3.
      pose proof (key_cmp_le_trans (key y) (key b) (key a) cy cb ca) as T4.
      destruct (key_cmp (key a) (key b)) eqn:Cab; [congruence| |];
      destruct (key_cmp (key b) (key y)) eqn:Cby; destruct (key_cmp (key a) (key y)) eqn:Cay;
      rewrite ?AS, ?ASa, ?ASb in *; simpl in *;
      rewrite ?Cab, ?Cby, ?Cay, ?AS; simpl; try reflexivity;
      try (solve [exfalso; apply T1; congruence | exfalso; apply T2; congruence | exfalso; apply T3; congruence | exfalso; apply T4; congruence]);
      try (rewrite IH; reflexivity).
  Qed.

  (* with pairwise distinct canonical keys the sorted list depends on the multiset only *)
  Lemma sort_by_perm_eq l1 l2 : Permutation l1 l2 -> NoDup (map key l1) -> keyc_all key l1 ->
    sort_by key l1 = sort_by key l2.
  Proof. induction 1 as [|x l l' P IH|x y l|l l' l'' P1 IH1 P2 IH2]; intros N C.
    - reflexivity.
    - simpl. inversion N; inversion C; subst. rewrite IH; auto.
    - simpl. inversion N as [|? ? Hy N']; inversion C as [|? ? cy C']; subst.
      inversion N' as [|? ? Hx N'']; inversion C' as [|? ? cx C'']; subst.
      apply insert_by_comm; try assumption.
      + eapply Permutation_Forall; [symmetry; apply sort_by_perm|exact C''].
      + intros E. apply Hy. left. symmetry. exact E.
    - rewrite IH1 by assumption. apply IH2.
      + eapply Permutation_NoDup; [apply Permutation_map; exact P1|exact N].
      + eapply Permutation_Forall; [exact P1|exact C]. Qed.

  Lemma sort_by_const l : (forall x, In x l -> key x = []) -> sort_by key l = l.
  Proof. induction l as [|x t IH]; intros K; simpl; [reflexivity|].
    rewrite IH by (intros y Hy; apply K; right; exact Hy).
    destruct t as [|y t']; simpl; [reflexivity|].
    rewrite (K x (or_introl eq_refl)), (K y (or_intror (or_introl eq_refl))). reflexivity. Qed.
End SortFacts.

Lemma insert_by_map {A B} (k1 : A -> list val) (k2 : B -> list val) (f : A -> B) x l :
  (forall a, k2 (f a) = k1 a) -> insert_by k2 (f x) (map f l) = map f (insert_by k1 x l).
Proof. intros K. induction l as [|y t IH]; simpl; [reflexivity|].
  rewrite !K. destruct (cmp_leb _); simpl; [reflexivity|]. rewrite IH. reflexivity. Qed.

Lemma sort_by_map {A B} (k1 : A -> list val) (k2 : B -> list val) (f : A -> B) l :
  (forall a, k2 (f a) = k1 a) -> sort_by k2 (map f l) = map f (sort_by k1 l).
Proof. intros K. induction l as [|x t IH]; simpl; [reflexivity|]. rewrite IH. apply insert_by_map. exact K. Qed.

(* sorting by a key and then reading the keys = sorting the keys *)
Lemma map_key_sort_by {A} (key : A -> list val) l : map key (sort_by key l) = sort_by (fun k => k) (map key l).
Proof. symmetry. apply sort_by_map. reflexivity. Qed.

(* ------------------------------------------------------------------ permutations *)
Lemma perm_filter {A} (f : A -> bool) l l' : Permutation l l' -> Permutation (filter f l) (filter f l').
Proof. induction 1 as [|x l l' P IH|x y l|l l' l'' P1 IH1 P2 IH2]; simpl.
  - constructor.
  - destruct (f x); [constructor|]; exact IH.
  - destruct (f x), (f y); try reflexivity. apply perm_swap.
  - etransitivity; eassumption. Qed.

Lemma perm_flat_map {A B} (f : A -> list B) l l' : Permutation l l' -> Permutation (flat_map f l) (flat_map f l').
Proof. induction 1 as [|x l l' P IH|x y l|l l' l'' P1 IH1 P2 IH2]; simpl.
  - constructor.
  - apply Permutation_app_head. exact IH.
  - rewrite !app_assoc. apply Permutation_app_tail. apply Permutation_app_comm.
  - etransitivity; eassumption. Qed.

Lemma perm_flat_map_ext {A B} (f g : A -> list B) l :
  (forall x, In x l -> Permutation (f x) (g x)) -> Permutation (flat_map f l) (flat_map g l).
Proof. induction l as [|x t IH]; intros E; simpl; [constructor|].
  apply Permutation_app; [apply E; left; reflexivity|apply IH; intros y Hy; apply E; right; exact Hy]. Qed.

(* row-major and column-major listings of a matrix of cells *)
Lemma perm_transpose {A B C} (f : A -> B -> C) (la : list A) (lb : list B) :
  Permutation (flat_map (fun a => map (fun b => f a b) lb) la) (flat_map (fun b => map (fun a => f a b) la) lb).
Proof. induction la as [|a ta IH]; simpl.
  - induction lb as [|b tb IHb]; simpl; [constructor|exact IHb].
  - rewrite IH. clear IH. induction lb as [|b tb IHb]; simpl; [constructor|].
    constructor. rewrite <- IHb. rewrite !app_assoc. apply Permutation_app_tail. apply Permutation_app_comm. Qed.

Lemma NoDup_perm_In {A} (l1 l2 : list A) : NoDup l1 -> NoDup l2 -> (forall x, In x l1 <-> In x l2) -> Permutation l1 l2.
Proof. intros. apply NoDup_Permutation; assumption. Qed.

Lemma filter_unique {A} (f : A -> bool) (l : list A) x :
  NoDup l -> In x l -> f x = true -> (forall y, In y l -> f y = true -> y = x) -> filter f l = [x].
Proof. induction l as [|y t IH]; intros N I Fx U; [destruct I|]. simpl.
  inversion N as [|? ? Hy Nt]; subst.
  destruct I as [e|I].
  - subst y. rewrite Fx. f_equal.
    assert (E : forall z, In z t -> f z = false).
    { intros z Hz. destruct (f z) eqn:Fz; [|reflexivity]. rewrite (U z (or_intror Hz) Fz) in Hz. contradiction. }
    clear -E. induction t as [|z t IH]; simpl; [reflexivity|]. rewrite (E z (or_introl eq_refl)). apply IH.
    intros w Hw. apply E. right. exact Hw.
  - destruct (f y) eqn:Fy.
    + rewrite (U y (or_introl eq_refl) Fy) in Hy. contradiction.
    + apply IH; try assumption. intros z Hz. apply U. right. exact Hz. Qed.

(* ------------------------------------------------------------------ hcat *)
Lemma hcat2_map {R} (f g : R -> list val) (l : list R) :
  hcat2 (map f l) (map g l) = map (fun x => f x ++ g x) l.
Proof. unfold hcat2. induction l as [|x t IH]; simpl; [reflexivity|]. rewrite IH. reflexivity. Qed.

Lemma hcat_all_map {R K} (g : K -> R -> list val) (G : list K) (l : list R) :
  hcat_all (List.length l) (map (fun k => map (g k) l) G) = map (fun x => List.concat (map (fun k => g k x) G)) l.
Proof. unfold hcat_all. induction G as [|k G IH]; simpl.
  - induction l as [|x t IHl]; simpl; [reflexivity|]. rewrite IHl. reflexivity.
  - rewrite IH. apply hcat2_map. Qed.
