(* Witnesses.  The keys the code builds do NOT make the cache sound:
     (1) the SQL-level extend merge returns the inner step, changed in place, under the inner step's ops_key; a second use of
         the un-merged inner sub-pipeline has that very key and is replaced by the merged common table expression;
     (2) to_with_form_stub turns an ops_key of None (raw query steps: user SQL, record transforms) into the text "None":
         all such steps with the same column narrowing share one key.
   Both are exhibited on a small concrete engine (tables = lists of rows of integers) and replayed on the real code by the
   check (listed findings).  With the proposed repairs (flags code_repaired) both witnesses translate correctly. *)
From Coq Require Import List Bool Arith String Ascii ZArith.
Import ListNotations.
From DA Require Import Base.PyRT Model.NearSql Model.WithForm Model.SqlMerge Proofs.WithFormP1 Proofs.WithFormP2.
Local Open Scope string_scope.
Local Open Scope list_scope.

(* ------------------------------------------------------------------ a small compositional engine *)
Definition row := list (string * Z).
Definition tab := list row.
Definition rget (r : row) (k : string) : Z := match dict_get r k with Some v => v | None => 0%Z end.
(* the two expressions of the witnesses *)
Definition toy_expr (e : string) (r : row) : Z :=
  if String.eqb e """c"" + 1" then (rget r "c" + 1)%Z
  else if String.eqb e "SUM(""a"") OVER ( ORDER BY ""b"" )" then rget r "a"       (* one-row tables: the running sum is the value *)
  else 0%Z.
Definition toy_term (tms : option terms) (k : string) (r : row) : Z :=
  match tms with
  | Some t => match dict_get t k with
              | Some (Some e) => if String.eqb e k then rget r k else toy_expr e r
              | _ => rget r k
              end
  | None => rget r k
  end.
Definition toy_cols (tms : option terms) (cols : option (list string)) (r : row) : list string :=
  match cols with Some c => c | None => match tms with Some t => map fst t | None => map fst r end end.
Definition toy_select (tms : option terms) (cols : option (list string)) (t : tab) : tab :=
  map (fun r => map (fun k => (k, toy_term tms k r)) (toy_cols tms cols r)) t.
Definition toy_raw0 (p : list string) : tab :=
  match p with
  | ["SELECT a AS p FROM d"] => [[("p", 1%Z)]]
  | ["SELECT c AS p FROM d"] => [[("p", 7%Z)]]
  | _ => []
  end.
Definition toy : engine tab :=
  mk_engine (fun cols t => match cols with [] => t | _ => toy_select None (Some cols) t end)
            (fun tms cols sfx t => toy_select tms cols t)
            (fun tms cols j sfx p1 p2 t1 t2 => toy_select tms cols (t1 ++ t2))          (* UNION ALL *)
            (fun p sfx a => toy_raw0 p)
            (fun p sfx a t => t).
Definition toy_db : env tab := fun n => if String.eqb n """d""" then [[("a", 1%Z); ("b", 4%Z); ("c", 7%Z)]] else [].

(* ------------------------------------------------------------------ witness 1: merged extend shared with its own prefix *)
(*   t2 = t.extend({'x': 'a.cumsum()'}, order_by=['b']);  t2.extend({'c': 'c + 1'}).concat_rows(t2)
     as generated with allow_extend_merges=False (names and keys shortened) *)
Definition w_cols := ["a"; "b"; "c"; "x"].
Definition w_inner (name : string) : nearsql :=
  NUnary name (Some [("a", None); ("b", None); ("c", None); ("x", Some "SUM(""a"") OVER ( ORDER BY ""b"" )")])
         (NTable """d""" (Some [("a", Some """a"""); ("b", Some """b"""); ("c", Some """c""")])) (mk_ci (Some ["a"; "b"; "c"]) false None)
         [] (Some "extend({'x': 'a.cumsum()'}, order_by=['b'])") true
         (Some [("a", ["a"]); ("b", ["b"]); ("c", ["c"]); ("x", ["a"; "b"])]) (Some "extend(t2, [a, b, c, x])").
Definition w_outer : nearsql :=
  NUnary """extend_1""" (Some [("a", None); ("b", None); ("x", None); ("c", Some """c"" + 1")])
         (w_inner """extend_0""") (mk_ci (Some w_cols) false None)
         [] (Some "extend({'c': 'c + 1'})") true
         (Some [("a", ["a"]); ("b", ["b"]); ("x", ["x"]); ("c", ["c"])]) (Some "extend(t3, [a, b, x, c])").
Definition w_unmerged : nearsql :=
  NBinary """concat_rows_3""" (Some [("a", None); ("b", None); ("c", None); ("x", None)])
          w_outer (mk_ci (Some w_cols) true None) "UNION ALL" (w_inner """extend_2""") (mk_ci (Some w_cols) true None)
          [] (Some "concat_rows(...)") (Some "concat(...)").

(* the generation with merges allowed, as the code stands and as repaired *)
Definition w_merged (fl : flags) : nearsql := match merge_tree fl w_unmerged with Some q => q | None => w_unmerged end.

Lemma w_merged_is_merged : exists tm dm,
  w_merged code_as_found =
  NBinary """concat_rows_3""" (Some [("a", None); ("b", None); ("c", None); ("x", None)])
    (NUnary """extend_0""" (Some tm) (NTable """d""" (Some [("a", Some """a"""); ("b", Some """b"""); ("c", Some """c""")]))
            (mk_ci (Some ["a"; "b"; "c"]) false None) [] (Some "extend({'x': 'a.cumsum()'}, order_by=['b']).extend({'c': 'c + 1'})")
            true (Some dm) (Some "extend(t2, [a, b, c, x])"))
    (mk_ci (Some w_cols) true None) "UNION ALL" (w_inner """extend_2""") (mk_ci (Some w_cols) true None)
    [] (Some "concat_rows(...)") (Some "concat(...)")
  /\ dict_get tm "c" = Some (Some """c"" + 1").
Proof. do 2 eexists. split; vm_compute; reflexivity. Qed.

Lemma w_hygienic fl : hygienic (w_merged fl) = true.
Proof. destruct fl as [[] [] [] []]; vm_compute; reflexivity. Qed.

(* the two operands of the UNION ALL have the same cache key and different meanings *)
Lemma w_keys_collide :
  exists c1 c2 k, In c1 (conts (w_merged code_as_found)) /\ In c2 (conts (w_merged code_as_found)) /\
    ckey code_as_found c1 = Some k /\ ckey code_as_found c2 = Some k /\ csem toy toy_db c1 <> csem toy toy_db c2.
Proof.
  eexists (_, _), (_, _), _. split; [|split; [|split; [|split]]].
  - vm_compute. left. reflexivity.
  - vm_compute. right. left. reflexivity.
  - vm_compute. reflexivity.
  - vm_compute. reflexivity.
  - vm_compute. discriminate.
Qed.

Lemma w_not_cache_sound : ~ cache_sound toy code_as_found (w_merged code_as_found).
Proof.
  intros H. destruct w_keys_collide as (c1 & c2 & k & I1 & I2 & K1 & K2 & D).
  destruct (H c1 c2 k I1 I2 K1 K2) as (E & _). exact (D (E toy_db)).
Qed.

(* CTE elimination changes the result: the second operand now also has c + 1 *)
Lemma w_cte_elim_wrong :
  nsem_with toy toy_db (fst (to_with_form code_as_found (Some []) (w_merged code_as_found)))
  <> nsem toy toy_db (w_merged code_as_found) None.
Proof. vm_compute. discriminate. Qed.
Lemma w_values :
  nsem toy toy_db (w_merged code_as_found) None
    = [[("a", 1); ("b", 4); ("c", 8); ("x", 1)]; [("a", 1); ("b", 4); ("c", 7); ("x", 1)]]%Z /\
  nsem_with toy toy_db (fst (to_with_form code_as_found (Some []) (w_merged code_as_found)))
    = [[("a", 1); ("b", 4); ("c", 8); ("x", 1)]; [("a", 1); ("b", 4); ("c", 8); ("x", 1)]]%Z /\
  nsem toy toy_db w_unmerged None = nsem toy toy_db (w_merged code_as_found) None.
Proof. vm_compute. repeat split. Qed.

(* with the merged step re-keyed (repair) the same pipeline translates correctly, and so does it without the cache *)
Lemma w_repaired_right :
  nsem_with toy toy_db (fst (to_with_form code_repaired (Some []) (w_merged code_repaired)))
  = nsem toy toy_db (w_merged code_repaired) None
  /\ nsem_with toy toy_db (fst (to_with_form code_as_found None (w_merged code_as_found)))
  = nsem toy toy_db (w_merged code_as_found) None.
Proof. vm_compute. split; reflexivity. Qed.

(* ------------------------------------------------------------------ witness 2: two raw query steps, ops_key None *)
Definition r_cols := ["p"].
Definition r_query : nearsql :=
  NBinary """concat_rows_0""" (Some [("p", None)])
          (NRaw0 """v1""" ["SELECT a AS p FROM d"] [] (Some "user supplied SQL") false None) (mk_ci (Some r_cols) true None)
          "UNION ALL"
          (NRaw0 """v2""" ["SELECT c AS p FROM d"] [] (Some "user supplied SQL") false None) (mk_ci (Some r_cols) true None)
          [] (Some "concat_rows(...)") (Some "concat(...)").

Lemma r_hygienic : hygienic r_query = true.
Proof. vm_compute. reflexivity. Qed.
Lemma r_keys_are_the_text_None :
  map (ckey code_as_found) (conts r_query) = [Some "None_['p']"; Some "None_['p']"]
  /\ map (ckey code_repaired) (conts r_query) = [None; None].
Proof. vm_compute. split; reflexivity. Qed.
Lemma r_cte_elim_wrong :
  nsem toy toy_db r_query None = [[("p", 1%Z)]; [("p", 7%Z)]] /\
  nsem_with toy toy_db (fst (to_with_form code_as_found (Some []) r_query)) = [[("p", 1%Z)]; [("p", 1%Z)]] /\
  nsem_with toy toy_db (fst (to_with_form code_repaired (Some []) r_query)) = [[("p", 1%Z)]; [("p", 7%Z)]].
Proof. vm_compute. repeat split. Qed.

Theorem cte_elim_preserves_refuted :
  exists (T : Type) (E : engine T) (q : nearsql) (r : env T),
    hygienic q = true /\ (exists u, merge_tree code_as_found u = Some q) /\
    nsem_with E r (fst (to_with_form code_as_found (Some []) q)) <> nsem E r q None.
Proof.
  exists tab, toy, (w_merged code_as_found), toy_db. split; [apply w_hygienic|]. split; [|apply w_cte_elim_wrong].
  exists w_unmerged. vm_compute. reflexivity.
Qed.

Theorem cte_elim_preserves_refuted_none_key :
  exists (T : Type) (E : engine T) (q : nearsql) (r : env T),
    hygienic q = true /\ nsem_with E r (fst (to_with_form code_as_found (Some []) q)) <> nsem E r q None.
Proof.
  exists tab, toy, r_query, toy_db. split; [apply r_hygienic|]. vm_compute. discriminate.
Qed.

(* ------------------------------------------------------------------ the guard is satisfiable: genuine reuse *)
(* two uses of ONE sub-pipeline (equal up to the generated names) under the same key: sound for EVERY engine *)
Definition g_sub (name : string) : nearsql :=
  NUnary name (Some [("a", None); ("y", Some """a"" + 1")]) (NTable """d""" None) (mk_ci (Some ["a"]) false None)
         [] None true (Some [("a", ["a"]); ("y", ["a"])]) (Some "extend(t, [a, y])").
Definition g_query : nearsql :=
  NBinary """natural_join_0""" (Some [("a", Some "COALESCE(l.a, r.a)"); ("y", Some "COALESCE(l.y, r.y)")])
          (g_sub """extend_1""") (mk_ci (Some ["a"; "y"]) false (Some "l")) "LEFT JOIN"
          (g_sub """extend_2""") (mk_ci (Some ["a"; "y"]) false (Some "r")) ["ON l.a = r.a"] None (Some "join(...)").

Lemma g_cache_sound (T : Type) (E : engine T) (fl : flags) : cache_sound E fl g_query.
Proof.
  intros c1 c2 k I1 I2 K1 K2. simpl in I1, I2.
  destruct I1 as [<-|[<-|[]]]; destruct I2 as [<-|[<-|[]]]; (split; [intros r; reflexivity|split; [intros k'; reflexivity|intros []]]).
Qed.
Lemma g_reuses :
  map fst (w_prev (fst (to_with_form code_as_found (Some []) g_query))) = ["""extend_1"""]
  /\ map fst (w_prev (fst (to_with_form code_as_found None g_query))) = ["""extend_1"""; """extend_2"""]
  /\ hygienic g_query = true.
Proof. vm_compute. repeat split. Qed.

(* ------------------------------------------------------------------ the guards of the merge theorem are satisfiable *)
(* columns are integers here; the one expression reads column c only, as its declared dependencies say *)
Definition m_tsem (e : string) (f : string -> option Z) : option Z :=
  if String.eqb e """c"" + 1" then option_map (fun v => (v + 1)%Z) (f "c") else None.
Definition m_terms : terms := [("a", None); ("b", None); ("x", None); ("c", Some """c"" + 1")].
Definition m_deps : depmap := [("a", ["a"]); ("b", ["b"]); ("x", ["x"]); ("c", ["c"])].

Lemma m_merge_happens :
  exists m, sql_merge code_as_found (w_inner """extend_0""") m_terms m_deps "extend({'c': 'c + 1'})" (Some "k") = MYes m.
Proof. eexists. vm_compute. reflexivity. Qed.
Lemma m_guards :
  NoDup (map fst m_deps) /\ (forall c, In c (map fst m_terms) -> In c (map fst m_deps)) /\
  deps_describe m_tsem m_terms m_deps /\
  (forall c d, In c (map fst m_terms) -> In d (deps_of m_deps c) -> In d w_cols).
Proof.
  split; [repeat constructor; simpl; intuition discriminate|]. split; [simpl; tauto|]. split.
  - intros k e G Ne f f' A. unfold m_terms in G. simpl in G.
    repeat match type of G with
    | (if ?c then _ else _) = _ => destruct c as [->|_]; [try discriminate G|]
    end; try discriminate G.
    injection G as <-. unfold m_tsem. simpl. rewrite (A "c"); [reflexivity|]. vm_compute. left; reflexivity.
  - intros c d Ic Id. simpl in Ic. destruct Ic as [<-|[<-|[<-|[<-|[]]]]]; vm_compute in Id; vm_compute; intuition.
Qed.
