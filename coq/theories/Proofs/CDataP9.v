(* C17, part 9: the Polars realisation (Model/CDataPolars.v) agrees with the Pandas one (Model/CData.v) on strict
   specifications and conforming input, up to row and column order. *)
From Coq Require Import List Bool Arith ZArith QArith String Ascii Lia Permutation.
Import ListNotations.
From DA Require Import Base.PyRT Base.Val Model.CData Model.CDataPolars
  Proofs.CDataP1 Proofs.CDataP2 Proofs.CDataP3 Proofs.CDataP4 Proofs.CDataP5 Proofs.CDataP6 Proofs.CDataP7.

(* ------------------------------------------------------------------ nulls-first sort = nulls-last sort on non-null keys *)
Definition nn (k : list val) : bool := forallb non_null k.

Lemma val_cmp_nf_eq a b : non_null a = true -> non_null b = true -> val_cmp_nf a b = val_cmp a b.
Proof. destruct a, b; simpl; intros; try discriminate; reflexivity. Qed.

Lemma key_cmp_nf_eq a : forall b, nn a = true -> nn b = true -> key_cmp_nf a b = key_cmp a b.
Proof. induction a as [|x a IH]; intros [|y b] ha hb; simpl in *; try reflexivity.
  apply andb_true_iff in ha. apply andb_true_iff in hb. destruct ha as [hx ha], hb as [hy hb].
  rewrite (val_cmp_nf_eq x y hx hy). destruct (val_cmp x y); try reflexivity. apply IH; assumption. Qed.

Section SortNfFacts.
  Context {A : Type} (key : A -> list val).

  Lemma insert_by_nf_perm x l : Permutation (insert_by_nf key x l) (x :: l).
  Proof. induction l as [|y t IH]; simpl; [reflexivity|]. destruct (cmp_leb _); [reflexivity|]. rewrite IH. apply perm_swap. Qed.

  Lemma sort_by_nf_perm l : Permutation (sort_by_nf key l) l.
  Proof. induction l as [|x t IH]; simpl; [reflexivity|]. rewrite insert_by_nf_perm. constructor. exact IH. Qed.

  Lemma insert_by_nf_eq x l : nn (key x) = true -> (forall y, In y l -> nn (key y) = true) ->
    insert_by_nf key x l = insert_by key x l.
  Proof. intros hx. induction l as [|y t IH]; intros hl; simpl; [reflexivity|].
    rewrite (key_cmp_nf_eq _ _ hx (hl y (or_introl eq_refl))). destruct (cmp_leb _); [reflexivity|].
    rewrite IH; [reflexivity|]. intros z Hz. apply hl. right. exact Hz. Qed.

  Lemma sort_by_nf_eq l : (forall y, In y l -> nn (key y) = true) -> sort_by_nf key l = sort_by key l.
  Proof. induction l as [|x t IH]; intros hl; simpl; [reflexivity|].
    rewrite IH by (intros y Hy; apply hl; right; exact Hy).
    apply insert_by_nf_eq; [apply hl; left; reflexivity|].
    intros y Hy. apply hl. right. apply (sort_by_In key t y). exact Hy. Qed.
End SortNfFacts.

Lemma sort_rows_nf_perm cs ks rs : Permutation (sort_rows_nf cs ks rs) rs.
Proof. apply sort_by_nf_perm. Qed.

Lemma sort_rows_nf_nil cs rs : sort_rows_nf cs [] rs = rs.
Proof. unfold sort_rows_nf. rewrite sort_by_nf_eq by reflexivity. apply sort_by_const. reflexivity. Qed.

(* ------------------------------------------------------------------ the keyed check *)
Lemma is_keyed_pl_ok ks t : subset ks (cols t) = true ->
  NoDup (map (fun r => cells (cols t) r ks) (rows t)) -> is_keyed_pl ks t = true.
Proof. intros Sub N. unfold is_keyed_pl. destruct (Nat.ltb (List.length (rows t)) 2) eqn:L; [reflexivity|].
  rewrite Sub. apply Nat.ltb_ge in L. destruct ks as [|k0 ks'].
  - exfalso. destruct (rows t) as [|r1 [|r2 rs]]; simpl in L; try lia. simpl in N. inversion N as [|? ? H1 _]; subst. apply H1. left. reflexivity.
  - apply nodupb_NoDup. exact N. Qed.

Lemma is_keyed_pl_select S X : keyed_facts (rs_keys S) X -> is_keyed_pl (rs_keys S) (select_cols (row_columns S) X) = true.
Proof. intros KF.
  assert (RKrc : forall c, In c (rs_keys S) -> In c (row_columns S)) by (intros c Hc; apply In_rc; left; exact Hc).
  apply is_keyed_pl_ok.
  - simpl. apply subset_spec. exact RKrc.
  - simpl. rewrite map_map. rewrite (map_ext _ (fun r => cells (cols X) r (rs_keys S))) by (intros r; apply cells_cells; exact RKrc).
    apply (kf_nodup _ _ KF). Qed.

(* ------------------------------------------------------------------ rowrecs_to_blocks: the same table up to row order *)
Lemma r2b_pl_unfold S T : rows T <> [] -> is_keyed_pl (rs_keys S) (select_cols (row_columns S) T) = true ->
  rowrecs_to_blocks_pl S T =
  Ok (mktable (r2b_cols S)
        (sort_rows_nf (r2b_cols S) (rs_keys S ++ rs_ctkeys S)
           (flat_map (fun cr => map (r2b_row S cr) (rows (select_cols (row_columns S) T))) (rows (rs_ct S))))).
Proof. intros NE K. unfold rowrecs_to_blocks_pl. cbv zeta. rewrite K.
  destruct (rows (select_cols (row_columns S) T)) eqn:E.
  - simpl in E. destruct (rows T); [congruence|discriminate].
  - rewrite <- E. reflexivity. Qed.

Lemma r2b_pl_empty S T : rows T = [] -> rowrecs_to_blocks_pl S T = Ok (mktable (block_columns S) []).
Proof. intros E. unfold rowrecs_to_blocks_pl. cbv zeta. simpl. rewrite E. reflexivity. Qed.

Lemma r2b_agree S X : keyed_facts (rs_keys S) X ->
  exists Z Z', rowrecs_to_blocks S X = Ok Z /\ rowrecs_to_blocks_pl S X = Ok Z' /\ cols Z' = cols Z /\ Permutation (rows Z') (rows Z).
Proof. intros KF. destruct (rows X) eqn:E.
  - do 2 eexists. split; [apply r2b_empty; exact E|]. split; [apply r2b_pl_empty; exact E|]. split; reflexivity.
  - assert (NE : rows X <> []) by (rewrite E; discriminate).
    do 2 eexists. split; [apply (r2b_unfold S X NE (is_keyed_select_ok S X KF))|].
    split; [apply (r2b_pl_unfold S X NE (is_keyed_pl_select S X KF))|]. split; [reflexivity|]. cbn [rows].
    etransitivity; [apply sort_rows_nf_perm|]. apply Permutation_sym. apply sort_rows_perm. Qed.

(* the result of rowrecs_to_blocks is well formed *)
Lemma r2b_wf S X Z : spec_facts S -> rowrecs_to_blocks S X = Ok Z ->
  NoDup (cols Z) /\ forall r, In r (rows Z) -> List.length r = List.length (cols Z).
Proof. intros F. unfold rowrecs_to_blocks. cbv zeta. destruct (rows (select_cols (row_columns S) X)) as [|a l] eqn:ED.
  - intros E. apply Ok_inj in E. subst Z. split; [apply block_columns_nodup; exact F|intros r []].
  - rewrite <- ED. destruct (is_keyed _ _) as [[|]| |]; intros E; try discriminate. apply Ok_inj in E. subst Z. cbn [rows cols]. split.
    + change (rs_keys S ++ rs_ctkeys S ++ value_cols S) with (r2b_cols S).
      eapply Permutation_NoDup; [apply Permutation_sym; apply r2b_cols_perm; exact F|apply block_columns_nodup; exact F].
    + intros r Hr. apply (Permutation_in _ (sort_rows_perm _ _ _)) in Hr.
      apply in_flat_map in Hr. destruct Hr as [cr [_ Hr]]. apply in_map_iff in Hr. destruct Hr as [x [<- _]].
      rewrite !app_length, !cells_length, map_length. reflexivity. Qed.

Lemma tbl_eqv_of_perm Z' Z : cols Z' = cols Z -> Permutation (rows Z') (rows Z) -> NoDup (cols Z) ->
  (forall r, In r (rows Z) -> List.length r = List.length (cols Z)) -> tbl_eqv Z' Z.
Proof. intros Ec P N L. apply tbl_perm_eqv; try assumption; [rewrite Ec; exact N|].
  intros r Hr. rewrite Ec. apply L. apply (Permutation_in _ P). exact Hr. Qed.

(* ------------------------------------------------------------------ blocks_to_rowrecs on Polars, after the groups are formed *)
Definition b2r_tail_pl (S : recspec) (split : list (list val * list (list val))) : res table :=
  let RK := rs_keys S in let CK := rs_ctkeys S in let bc := block_columns S in
  match split with
  | [] => Reject
  | (_, g0) :: rest =>
    if negb (forallb (fun kg => Nat.eqb (List.length (snd kg)) (List.length g0)) rest) then Reject
    else
      let sk := map (fun r => cells bc r RK) g0 in
      let keep := filter (fun c => negb (mem c (RK ++ CK))) bc in
      let pieces := map (fun kg => map (fun r => cells bc r keep) (snd kg)) split in
      match res_all (map (fun kg => lookup_names_pl S (fst kg)) split) with
      | Ok names =>
        if negb (forallb (fun ns => Nat.eqb (List.length ns) (List.length keep)) names) then Reject
        else
          let cs := RK ++ List.concat names in
          if negb (nodupb cs) then Reject
          else
            let body := hcat2 sk (hcat_all (List.length g0) pieces) in
            Ok (mktable cs (match RK with [] => body | _ => sort_rows_nf cs RK body end))
      | _ => Reject
      end
  end.

Lemma b2r_pl_unfold S T :
  rows (select_cols (block_columns S) T) <> [] ->
  is_keyed_pl (rs_keys S ++ rs_ctkeys S) (select_cols (block_columns S) T) = true ->
  blocks_to_rowrecs_pl S T =
  b2r_tail_pl S (map (fun kg : list val * list (list val) =>
                     (fst kg, match rs_keys S with [] => snd kg | _ :: _ => sort_rows_nf (block_columns S) (rs_keys S) (snd kg) end))
                  (partition_pl (rs_ctkeys S) (select_cols (block_columns S) T))).
Proof. intros NE K. unfold blocks_to_rowrecs_pl. cbv zeta. rewrite (match_nonempty _ _ _ NE). rewrite K. reflexivity. Qed.

Lemma lookup_names_pl_ok S cr : spec_facts S -> In cr (rows (rs_ct S)) -> lookup_names_pl S (kap S cr) = Ok (nm S cr).
Proof. intros F Hcr. unfold lookup_names_pl.
  rewrite (filter_unique (fun cr0 => eqb (cells (cols (rs_ct S)) cr0 (rs_ctkeys S)) (kap S cr)) (rows (rs_ct S)) cr).
  - reflexivity.
  - eapply NoDup_map_NoDup. apply (sf_keys_nodup S F).
  - exact Hcr.
  - apply eqb_refl.
  - intros y Hy E. apply eqb_eq in E. eapply NoDup_map_inv; [apply (sf_keys_nodup S F)|exact Hy|exact Hcr|exact E]. Qed.

Lemma b2r_tail_pl_explicit S (F : spec_facts S) {X} (rk : X -> list val) (vals : X -> list val -> list val)
      (brow : X -> list val -> list val) (cr_of : list val -> list val) (Rs : list X) (Ks : list (list val)) :
  Ks <> [] ->
  (forall k, In k Ks -> In (cr_of k) (rows (rs_ct S)) /\ k = kap S (cr_of k)) ->
  (forall x k, In x Rs -> In k Ks -> cells (block_columns S) (brow x (cr_of k)) (rs_keys S) = rk x) ->
  (forall x k, In x Rs -> In k Ks -> cells (block_columns S) (brow x (cr_of k)) (value_cols S) = vals x (cr_of k)) ->
  NoDup (rs_keys S ++ List.concat (map (nm S) (map cr_of Ks))) ->
  exists rows',
    b2r_tail_pl S (map (fun k => (k, map (fun x => brow x (cr_of k)) Rs)) Ks)
    = Ok (mktable (rs_keys S ++ List.concat (map (nm S) (map cr_of Ks))) rows') /\
    Permutation rows' (map (fun x => rk x ++ List.concat (map (vals x) (map cr_of Ks))) Rs).
Proof. intros NE KI Hrk Hvc ND.
  exists (match rs_keys S with
          | [] => map (fun x => rk x ++ List.concat (map (vals x) (map cr_of Ks))) Rs
          | _ :: _ => sort_rows_nf (rs_keys S ++ List.concat (map (nm S) (map cr_of Ks))) (rs_keys S)
                        (map (fun x => rk x ++ List.concat (map (vals x) (map cr_of Ks))) Rs)
          end).
  split; [|destruct (rs_keys S); [reflexivity|apply sort_rows_nf_perm]].
  unfold b2r_tail_pl. cbv zeta. rewrite (keep_eq S F).
  destruct Ks as [|k0 Ks'] eqn:EK; [congruence|]. rewrite <- EK in *. rewrite EK at 1. simpl map at 1. cbv iota beta.
  match goal with |- context [forallb ?f ?l] => assert (FA : forallb f l = true) end.
  { apply forallb_forall. intros kg Hkg. apply in_map_iff in Hkg. destruct Hkg as [k [<- _]]. simpl.
    rewrite !map_length. apply Nat.eqb_refl. }
  rewrite FA. clear FA. simpl negb. cbv iota.
  assert (EN : res_all (map (fun kg : list val * list (list val) => lookup_names_pl S (fst kg))
                          (map (fun k => (k, map (fun x => brow x (cr_of k)) Rs)) Ks))
               = Ok (map (fun k => nm S (cr_of k)) Ks)).
  { rewrite map_map. simpl. clear EK NE Hrk Hvc ND. induction Ks as [|k l IH]; simpl; [reflexivity|].
    destruct (KI k (or_introl eq_refl)) as [Hk Ek]. rewrite Ek at 1. rewrite (lookup_names_pl_ok S _ F Hk).
    rewrite IH by (intros k' Hk'; apply KI; right; exact Hk'). reflexivity. }
  rewrite EN. clear EN.
  match goal with |- context [forallb ?f ?l] => assert (FA : forallb f l = true) end.
  { apply forallb_forall. intros ns Hns. apply in_map_iff in Hns. destruct Hns as [k [<- _]]. rewrite nm_length. apply Nat.eqb_refl. }
  rewrite FA. clear FA. simpl negb. cbv iota.
  rewrite <- (map_map cr_of (nm S)).
  assert (NB : nodupb (rs_keys S ++ List.concat (map (nm S) (map cr_of Ks))) = true) by (apply nodupb_NoDup; exact ND).
  rewrite NB. simpl negb. cbv iota.
  assert (Hk0 : In k0 Ks) by (rewrite EK; left; reflexivity).
  assert (EB : hcat2 (map (fun r => cells (block_columns S) r (rs_keys S)) (map (fun x => brow x (cr_of k0)) Rs))
                 (hcat_all (List.length (map (fun x => brow x (cr_of k0)) Rs))
                    (map (fun kg : list val * list (list val) => map (fun r => cells (block_columns S) r (value_cols S)) (snd kg))
                       (map (fun k => (k, map (fun x => brow x (cr_of k)) Rs)) Ks)))
               = map (fun x => rk x ++ List.concat (map (vals x) (map cr_of Ks))) Rs).
  { rewrite (map_ext (fun x => rk x ++ List.concat (map (vals x) (map cr_of Ks)))
                     (fun x => rk x ++ List.concat (map (fun k => vals x (cr_of k)) Ks))) by (intros x; rewrite map_map; reflexivity).
    rewrite map_length. rewrite !map_map. simpl.
    rewrite (map_ext_in (fun x => cells (block_columns S) (brow x (cr_of k0)) (rs_keys S)) rk) by (intros x Hx; apply Hrk; assumption).
    rewrite (map_ext_in _ (fun k => map (fun x => vals x (cr_of k)) Rs)).
    - rewrite (hcat_all_map (fun k x => vals x (cr_of k)) Ks Rs). apply hcat2_map.
    - intros k Hk. rewrite map_map. apply map_ext_in. intros x Hx. apply Hvc; assumption. }
  rewrite EB. reflexivity. Qed.

Lemma row_columns_nodup S : spec_facts S -> NoDup (row_columns S).
Proof. intros F. unfold row_columns. apply NoDup_app_intro; [apply (sf_rk_nodup S F)|rewrite (content_keys_cnames S F); apply (sf_names_nodup S F)|].
  intros c Hc. rewrite (content_keys_cnames S F). apply (sf_rk_names S F c Hc). Qed.

Section B2RPL.
  Variable S : recspec.
  Hypothesis F : spec_facts S.
  Variable X : Type.
  Variable rk : X -> list val.
  Variable vals : X -> list val -> list val.
  Variable brow : X -> list val -> list val.
  Variable recs : list X.
  Variable T : table.
  Let bc := block_columns S.
  Let RK := rs_keys S.
  Let CK := rs_ctkeys S.
  Let ctrows := rows (rs_ct S).
  Hypothesis Hperm : Permutation (rows (select_cols bc T)) (flat_map (fun x => map (brow x) ctrows) recs).
  Hypothesis Hne : recs <> [].
  Hypothesis Hrk_nodup : NoDup (map rk recs).
  Hypothesis Hrk_ok : forall x, In x recs -> key_ok (rk x) = true.
  Hypothesis Hrk_len : forall x, In x recs -> List.length (rk x) = List.length RK.
  Hypothesis Hb_rk : forall x cr, In x recs -> In cr ctrows -> cells bc (brow x cr) RK = rk x.
  Hypothesis Hb_ck : forall x cr, In x recs -> In cr ctrows -> cells bc (brow x cr) CK = kap S cr.
  Hypothesis Hb_vc : forall x cr, In x recs -> In cr ctrows -> cells bc (brow x cr) (value_cols S) = vals x cr.

  Let d := rows (select_cols bc T).
  Let Ks := dedup [] (map (fun r => cells bc r CK) d).
  Let cr_of (k : list val) : list val := hd [] (filter (fun cr => eqb (kap S cr) k) ctrows).
  Let Rs := sort_by rk recs.

  Lemma pl_d_In r : In r d <-> exists x cr, In x recs /\ In cr ctrows /\ r = brow x cr.
  Proof. apply (b2r_d_In S X brow recs T Hperm). Qed.

  Lemma pl_keyed : is_keyed_pl (RK ++ CK) (select_cols bc T) = true.
  Proof. apply is_keyed_pl_ok.
    - simpl. apply subset_spec. intros c Hc. unfold bc, block_columns. apply in_app_iff in Hc. apply in_app_iff.
      destruct Hc as [i|i]; [left; exact i|right; apply (sf_ck_sub S F); exact i].
    - simpl. eapply Permutation_NoDup; [apply Permutation_map; apply Permutation_sym; exact Hperm|].
      rewrite map_flat_map.
      rewrite (flat_map_ext_in _ (fun x => map (fun cr => rk x ++ kap S cr) ctrows)).
      + apply NoDup_product with (n := List.length RK); [exact Hrk_nodup|apply (sf_keys_nodup S F)|exact Hrk_len].
      + intros x Hx. rewrite map_map. apply map_ext_in. intros cr Hcr.
        rewrite cells_app, (Hb_rk x cr Hx Hcr), (Hb_ck x cr Hx Hcr). reflexivity. Qed.

  Lemma pl_rec_ex : exists x0, In x0 recs.
  Proof. destruct recs as [|x0 rest]; [congruence|]. exists x0. left. reflexivity. Qed.
  Lemma pl_cr_ex : exists cr0, In cr0 ctrows.
  Proof. pose proof (sf_two_rows S F) as L. unfold ctrows. destruct (rows (rs_ct S)) as [|cr0 t]; [simpl in L; lia|]. exists cr0. left. reflexivity. Qed.

  Lemma pl_Ks_In k : In k Ks <-> exists cr, In cr ctrows /\ k = kap S cr.
  Proof. unfold Ks. rewrite In_dedup, in_map_iff. simpl. split.
    - intros [[r [E Hr]] _]. apply pl_d_In in Hr. destruct Hr as [x [cr [Hx [Hcr ->]]]].
      exists cr. split; [exact Hcr|]. rewrite <- E. apply Hb_ck; assumption.
    - intros [cr [Hcr ->]]. destruct pl_rec_ex as [x0 Hx0]. split; [|tauto].
      exists (brow x0 cr). split; [apply Hb_ck; assumption|]. apply pl_d_In. exists x0, cr. auto. Qed.

  Lemma pl_cr_of cr : In cr ctrows -> cr_of (kap S cr) = cr.
  Proof. apply (b2r_cr_of S F). Qed.

  Lemma pl_G_perm : Permutation (map cr_of Ks) ctrows.
  Proof. apply NoDup_Permutation.
    - apply (NoDup_map_NoDup (kap S)). rewrite map_map.
      rewrite (map_ext_in _ (fun k => k)); [rewrite map_id; apply NoDup_dedup|].
      intros k Hk. apply pl_Ks_In in Hk. destruct Hk as [cr [Hcr ->]]. rewrite pl_cr_of by exact Hcr. reflexivity.
    - apply (b2r_ctrows_nodup S F).
    - intros cr. rewrite in_map_iff. split.
      + intros [k [E Hk]]. apply pl_Ks_In in Hk. destruct Hk as [cr' [Hcr' ->]]. rewrite pl_cr_of in E by exact Hcr'. subst. exact Hcr'.
      + intros Hcr. exists (kap S cr). split; [apply pl_cr_of; exact Hcr|]. apply pl_Ks_In. exists cr. auto. Qed.

  Lemma pl_group cr : In cr ctrows ->
    sort_rows_nf bc RK (filter (fun r => eqb (cells bc r CK) (kap S cr)) d) = map (fun x => brow x cr) Rs.
  Proof. intros Hcr. unfold sort_rows_nf. rewrite sort_by_nf_eq.
    - apply (b2r_group S F X rk brow recs T Hperm Hrk_nodup Hrk_ok Hb_rk Hb_ck cr Hcr).
    - intros y Hy. apply filter_In in Hy. destruct Hy as [Hy _]. apply pl_d_In in Hy. destruct Hy as [x [cr' [Hx [Hcr' ->]]]].
      rewrite (Hb_rk x cr' Hx Hcr'). apply key_ok_non_null. apply Hrk_ok. exact Hx. Qed.

  Lemma pl_split :
    map (fun kg : list val * list (list val) =>
           (fst kg, match RK with [] => snd kg | _ :: _ => sort_rows_nf bc RK (snd kg) end))
        (partition_pl CK (select_cols bc T))
    = map (fun k => (k, map (fun x => brow x (cr_of k)) Rs)) Ks.
  Proof. unfold partition_pl. cbn [cols rows select_cols]. fold d. fold bc in d. rewrite map_map.
    change (dedup [] (map (fun r => cells bc r CK) d)) with Ks. apply map_ext_in. intros k Hk. simpl.
    apply pl_Ks_In in Hk. destruct Hk as [cr [Hcr ->]]. rewrite pl_cr_of by exact Hcr. f_equal.
    rewrite <- (pl_group cr Hcr). unfold RK. destruct (rs_keys S) eqn:E; [|reflexivity].
    rewrite sort_rows_nf_nil. reflexivity. Qed.

  Theorem b2r_pl_char :
    exists G rows', Permutation G ctrows /\
      blocks_to_rowrecs_pl S T = Ok (mktable (RK ++ List.concat (map (nm S) G)) rows') /\
      Permutation rows' (map (fun x => rk x ++ List.concat (map (vals x) G)) recs).
  Proof.
    exists (map cr_of Ks).
    assert (Hd : d <> []).
    { intros E. destruct pl_rec_ex as [x0 Hx0]. destruct pl_cr_ex as [cr0 Hcr0].
      assert (I : In (brow x0 cr0) d) by (apply pl_d_In; exists x0, cr0; auto).
      rewrite E in I. destruct I. }
    assert (KI : forall k, In k Ks -> In (cr_of k) ctrows /\ k = kap S (cr_of k)).
    { intros k Hk. apply pl_Ks_In in Hk. destruct Hk as [cr [Hcr ->]]. rewrite pl_cr_of by exact Hcr. auto. }
    assert (KsNE : Ks <> []).
    { intros E. destruct pl_cr_ex as [cr0 Hcr0].
      assert (I : In (kap S cr0) Ks) by (apply pl_Ks_In; exists cr0; auto). rewrite E in I. destruct I. }
    assert (ND : NoDup (rs_keys S ++ List.concat (map (nm S) (map cr_of Ks)))).
    { eapply Permutation_NoDup; [apply Permutation_sym; apply (rowrec_cols_perm S F _ pl_G_perm)|apply row_columns_nodup; exact F]. }
    destruct (b2r_tail_pl_explicit S F rk vals brow cr_of Rs Ks KsNE KI) as [rows' [E P]].
    - intros x k Hx Hk. apply Hb_rk; [apply (sort_by_In rk recs x); exact Hx|apply KI; exact Hk].
    - intros x k Hx Hk. apply Hb_vc; [apply (sort_by_In rk recs x); exact Hx|apply KI; exact Hk].
    - exact ND.
    - exists rows'. split; [apply pl_G_perm|]. split.
      + rewrite (b2r_pl_unfold S T Hd pl_keyed). fold bc RK CK. rewrite pl_split. exact E.
      + etransitivity; [exact P|]. apply Permutation_map. apply sort_by_perm.
  Qed.
End B2RPL.

(* ------------------------------------------------------------------ complete blocks as the blocks of a list of records *)
Lemma complete_blocks_repr S T : strict_spec S = true -> complete_blocks S T = true -> rows T <> [] ->
  exists (recs : list (list val)) (brow : list val -> list val -> list val),
    Permutation (rows (select_cols (block_columns S) T)) (flat_map (fun p => map (brow p) (rows (rs_ct S))) recs) /\
    recs <> [] /\ NoDup recs /\ (forall p, In p recs -> key_ok p = true) /\
    (forall p, In p recs -> List.length p = List.length (rs_keys S)) /\
    (forall p cr, In p recs -> In cr (rows (rs_ct S)) -> cells (block_columns S) (brow p cr) (rs_keys S) = p) /\
    (forall p cr, In p recs -> In cr (rows (rs_ct S)) -> cells (block_columns S) (brow p cr) (rs_ctkeys S) = kap S cr).
Proof. intros HS HC NE. pose proof (strict_spec_facts S HS) as F.
  unfold complete_blocks in HC. apply andb_true_iff in HC. destruct HC as [HC C4].
  apply andb_true_iff in HC. destruct HC as [HC C3]. apply andb_true_iff in HC. destruct HC as [HC Hsub].
  pose proof (proj1 (keyed_by_facts _ _) HC) as KF. pose proof (proj1 (subset_spec _ _) Hsub) as Sub. clear HC Hsub.
  rewrite forallb_forall in C3, C4.
  set (rc := row_columns S) in *. set (RK := rs_keys S) in *. set (CK := rs_ctkeys S) in *. set (VC := value_cols S) in *.
  set (bc := block_columns S) in *. set (ctrows := rows (rs_ct S)) in *.
    set (sel := fun r => cells (cols T) r bc).
    set (d := rows (select_cols bc T)).
    assert (Ed : d = map sel (rows T)) by reflexivity.
    assert (RKbc : forall c, In c RK -> In c bc) by (intros c Hc; apply (rk_in_bc S); exact Hc).
    assert (CKbc : forall c, In c CK -> In c bc) by (intros c Hc; apply (ck_in_bc S F); exact Hc).
    assert (VCbc : forall c, In c VC -> In c bc) by (intros c Hc; apply (vc_in_bc S); exact Hc).
    assert (sel_rk : forall r, cells bc (sel r) RK = cells (cols T) r RK) by (intros r; apply cells_cells; exact RKbc).
    assert (sel_ck : forall r, cells bc (sel r) CK = cells (cols T) r CK) by (intros r; apply cells_cells; exact CKbc).
    assert (sel_key : forall r, cells bc (sel r) RK ++ cells bc (sel r) CK = cells (cols T) r (RK ++ CK)).
    { intros r. rewrite sel_rk, sel_ck, cells_app. reflexivity. }
    assert (d_In : forall x, In x d -> exists r, In r (rows T) /\ x = sel r).
    { intros x Hx. rewrite Ed in Hx. apply in_map_iff in Hx. destruct Hx as [r [E Hr]]. exists r. auto. }
    assert (d_self : forall x, In x d -> cells bc x bc = x).
    { intros x Hx. destruct (d_In x Hx) as [r [_ ->]]. apply cells_cells. auto. }
    assert (Nkey : NoDup (map (fun x => cells bc x RK ++ cells bc x CK) d)).
    { rewrite Ed, map_map. rewrite (map_ext _ (fun r => cells (cols T) r (RK ++ CK))) by exact sel_key. apply (kf_nodup _ _ KF). }
    assert (Nd : NoDup d) by (eapply NoDup_map_NoDup; exact Nkey).
    set (recs := dedup [] (map (fun x => cells bc x RK) d)).
    set (brow := fun (p : list val) (cr : list val) =>
                   hd [] (filter (fun x => eqb (cells bc x RK) p && eqb (cells bc x CK) (kap S cr)) d)).
    assert (recs_In : forall p, In p recs <-> exists x, In x d /\ cells bc x RK = p).
    { intros p. unfold recs. rewrite In_dedup, in_map_iff. simpl. split; [intros [[x [E Hx]] _]; exists x; auto|intros [x [Hx E]]; split; [exists x; auto|tauto]]. }
    assert (Find : forall p cr, In p recs -> In cr ctrows ->
               exists x, In x d /\ cells bc x RK = p /\ cells bc x CK = kap S cr /\ brow p cr = x).
    { intros p cr Hp Hcr. apply recs_In in Hp. destruct Hp as [x1 [Hx1 E1]]. destruct (d_In x1 Hx1) as [r1 [Hr1 ->]].
      specialize (C4 r1 Hr1). rewrite forallb_forall in C4.
      assert (Hk : In (kap S cr) (ct_keys_of S)) by (rewrite ct_keys_of_kap; apply in_map; exact Hcr).
      specialize (C4 _ Hk). apply mem_In in C4. apply in_map_iff in C4. destruct C4 as [r2 [E2 Hr2]].
      rewrite cells_app in E2. apply app_inv_length in E2; [|rewrite !cells_length; reflexivity]. destruct E2 as [E2a E2b].
      exists (sel r2).
      assert (I2 : In (sel r2) d) by (rewrite Ed; apply in_map; exact Hr2).
      assert (P1 : cells bc (sel r2) RK = p) by (rewrite sel_rk, E2a, <- sel_rk; exact E1).
      assert (P2 : cells bc (sel r2) CK = kap S cr) by (rewrite sel_ck; exact E2b).
      split; [exact I2|]. split; [exact P1|]. split; [exact P2|].
      unfold brow. rewrite (filter_unique _ d (sel r2)); [reflexivity|exact Nd|exact I2| |].
      - apply andb_eqb_true. auto.
      - intros y Hy Ey. apply andb_eqb_true in Ey. destruct Ey as [Ey1 Ey2].
        eapply (NoDup_map_inv _ d y (sel r2) Nkey Hy I2). simpl. rewrite Ey1, Ey2, P1, P2. reflexivity. }
    assert (recs_len : forall p, In p recs -> List.length p = List.length RK).
    { intros p Hp. apply recs_In in Hp. destruct Hp as [x [_ <-]]. apply cells_length. }
    assert (Nrecs : NoDup recs) by apply NoDup_dedup.
    assert (keyflat : map (fun x => cells bc x RK ++ cells bc x CK) (flat_map (fun p => map (brow p) ctrows) recs)
                      = flat_map (fun p => map (fun cr => p ++ kap S cr) ctrows) recs).
    { rewrite map_flat_map. apply flat_map_ext_in. intros p Hp. rewrite map_map. apply map_ext_in. intros cr Hcr.
      destruct (Find p cr Hp Hcr) as [x [_ [E1 [E2 ->]]]]. rewrite E1, E2. reflexivity. }
    assert (Hperm : Permutation d (flat_map (fun p => map (brow p) ctrows) recs)).
    { apply NoDup_Permutation; [exact Nd| |].
      - eapply NoDup_map_NoDup. rewrite keyflat.
        apply (NoDup_product (fun p => p) (kap S) recs ctrows (List.length RK)); [rewrite map_id; exact Nrecs|apply (sf_keys_nodup S F)|exact recs_len].
      - intros x. split.
        + intros Hx. destruct (d_In x Hx) as [r [Hr Ex]].
          specialize (C3 r Hr). apply mem_In in C3. rewrite ct_keys_of_kap in C3. apply in_map_iff in C3. destruct C3 as [cr [Ecr Hcr]].
          assert (Hp : In (cells bc x RK) recs) by (apply recs_In; exists x; auto).
          apply in_flat_map. exists (cells bc x RK). split; [exact Hp|]. apply in_map_iff. exists cr. split; [|exact Hcr].
          destruct (Find _ cr Hp Hcr) as [x' [Hx' [E1 [E2 ->]]]].
          eapply (NoDup_map_inv _ d x' x Nkey Hx' Hx). simpl. rewrite E1, E2, Ecr, Ex, sel_ck. reflexivity.
        + intros Hx. apply in_flat_map in Hx. destruct Hx as [p [Hp M]]. apply in_map_iff in M. destruct M as [cr [<- Hcr]].
          destruct (Find p cr Hp Hcr) as [x' [Hx' [_ [_ ->]]]]. exact Hx'. }
    assert (recsNE : recs <> []).
    { destruct (rows T) as [|r1 rs1] eqn:ET; [congruence|]. intros E.
      assert (I : In (cells bc (sel r1) RK) recs) by (apply recs_In; exists (sel r1); split; [rewrite Ed; left; reflexivity|reflexivity]).
      rewrite E in I. destruct I. }
    assert (recs_ok : forall p, In p recs -> key_ok p = true).
    { intros p Hp. apply recs_In in Hp. destruct Hp as [x [Hx <-]]. destruct (d_In x Hx) as [r [Hr ->]].
      pose proof (kf_ok _ _ KF r Hr) as K0. rewrite cells_app, key_ok_app in K0. apply andb_true_iff in K0. rewrite sel_rk. tauto. }
    exists recs, brow. split; [exact Hperm|]. split; [exact recsNE|]. split; [exact Nrecs|]. split; [exact recs_ok|].
    split; [exact recs_len|]. split.
    - intros p cr Hp Hcr. destruct (Find p cr Hp Hcr) as [x [_ [E1 [_ ->]]]]. exact E1.
    - intros p cr Hp Hcr. destruct (Find p cr Hp Hcr) as [x [_ [_ [E2 ->]]]]. exact E2.
Qed.

(* ------------------------------------------------------------------ blocks_to_rowrecs: Pandas and Polars *)
Lemma cells_concat cs r (L : list (list string)) : cells cs r (List.concat L) = List.concat (map (cells cs r) L).
Proof. induction L as [|l L IH]; simpl; [reflexivity|]. rewrite cells_app, IH. reflexivity. Qed.

(* a table of row records RK ++ (names of G), one row per record *)
Lemma rowform_keyed S (F : spec_facts S) G (V : list val -> list val -> list val) recs rows' :
  Permutation G (rows (rs_ct S)) -> NoDup recs -> (forall p, In p recs -> key_ok p = true) ->
  (forall p, In p recs -> List.length p = List.length (rs_keys S)) ->
  Permutation rows' (map (fun p => p ++ List.concat (map (V p) G)) recs) ->
  keyed_by (rs_keys S) (mktable (rs_keys S ++ List.concat (map (nm S) G)) rows') = true.
Proof. intros HG N Kok Len HP. apply keyed_by_facts.
  assert (RI : forall r, In r rows' -> exists p, In p recs /\ r = p ++ List.concat (map (V p) G)).
  { intros r Hr. apply (Permutation_in _ HP) in Hr. apply in_map_iff in Hr. destruct Hr as [p [E Hp]]. exists p. auto. }
  constructor.
  - intros c Hc. cbn [cols]. apply in_app_iff. left. exact Hc.
  - intros r Hr. destruct (RI r Hr) as [p [Hp ->]]. cbn [cols]. rewrite (rowrec_rk S F G p (V p) (Len p Hp)). apply Kok. exact Hp.
  - cbn [rows cols]. eapply Permutation_NoDup; [apply Permutation_map; apply Permutation_sym; exact HP|]. rewrite map_map.
    rewrite (map_ext_in _ (fun p => p)); [rewrite map_id; exact N|]. intros p Hp. apply (rowrec_rk S F G p (V p) (Len p Hp)). Qed.

Theorem b2r_agree S T : strict_spec S = true -> complete_blocks S T = true ->
  exists X X', blocks_to_rowrecs S T = Ok X /\ blocks_to_rowrecs_pl S T = Ok X' /\ tbl_eqv X' X /\
    keyed_by (rs_keys S) X = true /\ Permutation (cols X) (row_columns S) /\
    keyed_by (rs_keys S) X' = true /\ Permutation (cols X') (row_columns S).
Proof. intros HS HC. pose proof (strict_spec_facts S HS) as F.
  destruct (rows T) as [|r0 rs0] eqn:ET.
  - exists (mktable (row_columns S) []), (mktable (row_columns S) []).
    assert (K0 : keyed_by (rs_keys S) (mktable (row_columns S) []) = true).
    { apply keyed_by_facts. constructor; simpl; [intros c Hc; apply In_rc; left; exact Hc|intros r []|constructor]. }
    split; [apply b2r_empty; exact ET|]. split; [unfold blocks_to_rowrecs_pl; cbv zeta; simpl; rewrite ET; reflexivity|].
    split; [split; [reflexivity|constructor]|]. repeat (split; [assumption || reflexivity|]). reflexivity.
  - assert (NE : rows T <> []) by (rewrite ET; discriminate). clear ET r0 rs0.
    destruct (complete_blocks_repr S T HS HC NE) as [recs [brow [Hperm [RNE [NR [Kok [Len [Brk Bck]]]]]]]].
    set (bc := block_columns S) in *. set (VC := value_cols S).
    set (V := fun p cr => cells bc (brow p cr) VC).
    assert (NRm : NoDup (map (fun p : list val => p) recs)) by (rewrite map_id; exact NR).
    destruct (b2r_char S F (list val) (fun p => p) V brow recs T Hperm RNE NRm Kok Len Brk Bck) as [G [rws [HG [E HP]]]];
      [reflexivity|].
    destruct (b2r_pl_char S F (list val) (fun p => p) V brow recs T Hperm RNE NRm Kok Len Brk Bck) as [G' [rws' [HG' [E' HP']]]];
      [reflexivity|].
    eexists. eexists. split; [exact E|]. split; [exact E'|].
    assert (LV : forall p cr, List.length (V p cr) = List.length (nm S cr)) by (intros; unfold V; rewrite cells_length, nm_length; reflexivity).
    split.
    + split.
      * cbn [cols]. rewrite (rowrec_cols_perm S F G' HG'), (rowrec_cols_perm S F G HG). reflexivity.
      * cbn [rows cols select_cols]. etransitivity; [apply Permutation_map; exact HP'|]. rewrite map_map.
        etransitivity; [|apply Permutation_sym; exact HP]. apply Permutation_refl'. apply map_ext_in. intros p Hp.
        rewrite cells_app. rewrite (rowrec_rk S F G' p (V p) (Len p Hp)). f_equal.
        rewrite cells_concat, map_map. f_equal. apply map_ext_in. intros cr Hcr.
        apply (rowrec_names S F G' HG' p (V p) (Len p Hp)); [intros; apply LV|apply (Permutation_in _ HG); exact Hcr].
    + split; [apply (rowform_keyed S F G V recs rws HG NR Kok Len HP)|]. split; [apply (rowrec_cols_perm S F G HG)|].
      split; [apply (rowform_keyed S F G' V recs rws' HG' NR Kok Len HP')|apply (rowrec_cols_perm S F G' HG')].
Qed.

(* ------------------------------------------------------------------ RecordMap.transform: Pandas and Polars *)
Lemma transform_pl_rows_to_blocks S t : subset (row_columns S) (cols t) = true ->
  transform_pl (mkmap None (Some S) true) t = rowrecs_to_blocks_pl S t.
Proof. intros Sub. unfold transform_pl. cbn [columns_needed rm_in rm_out]. rewrite Sub. reflexivity. Qed.

Lemma transform_pl_blocks_to_rows S t : subset (block_columns S) (cols t) = true ->
  transform_pl (mkmap (Some S) None true) t = blocks_to_rowrecs_pl S t.
Proof. intros Sub. unfold transform_pl. cbn [columns_needed rm_in rm_out]. rewrite Sub. cbn [negb]. destruct (blocks_to_rowrecs_pl S t); reflexivity. Qed.

Lemma transform_pl_blocks_to_blocks A B t : subset (block_columns A) (cols t) = true ->
  transform_pl (mkmap (Some A) (Some B) true) t = res_bind (blocks_to_rowrecs_pl A t) (rowrecs_to_blocks_pl B).
Proof. intros Sub. unfold transform_pl. cbn [columns_needed rm_in rm_out]. rewrite Sub. reflexivity. Qed.

Theorem agree_rows_to_blocks S t : strict_spec S = true -> conforming_rows S t = true ->
  exists z z', transform (mkmap None (Some S) true) t = Ok z /\ transform_pl (mkmap None (Some S) true) t = Ok z' /\ tbl_eqv z' z.
Proof. intros HS HC. pose proof (strict_spec_facts S HS) as F.
  unfold conforming_rows in HC. apply andb_true_iff in HC. destruct HC as [HK Sub].
  destruct (r2b_agree S t (proj1 (keyed_by_facts _ _) HK)) as [Z [Z' [E [E' [Ec P]]]]].
  exists Z, Z'. split; [rewrite transform_rows_to_blocks by exact Sub; exact E|].
  split; [rewrite transform_pl_rows_to_blocks by exact Sub; exact E'|].
  destruct (r2b_wf S t Z F E) as [N L]. apply tbl_eqv_of_perm; assumption. Qed.

Theorem agree_blocks_to_rows S t : strict_spec S = true -> complete_blocks S t = true ->
  exists z z', transform (mkmap (Some S) None true) t = Ok z /\ transform_pl (mkmap (Some S) None true) t = Ok z' /\ tbl_eqv z' z.
Proof. intros HS HC. destruct (b2r_agree S t HS HC) as [X [X' [E [E' [EQ _]]]]].
  assert (Sub : subset (block_columns S) (cols t) = true).
  { unfold complete_blocks in HC. repeat (apply andb_true_iff in HC; destruct HC as [HC ?]). assumption. }
  exists X, X'. split; [rewrite transform_blocks_to_rows by exact Sub; exact E|].
  split; [rewrite transform_pl_blocks_to_rows by exact Sub; exact E'|exact EQ]. Qed.

Theorem agree_blocks_to_blocks A B t :
  strict_spec A = true -> strict_spec B = true -> same_records A B = true -> complete_blocks A t = true ->
  exists z z', transform (mkmap (Some A) (Some B) true) t = Ok z /\ transform_pl (mkmap (Some A) (Some B) true) t = Ok z' /\ tbl_eqv z' z.
Proof. intros HA HB SR HC. pose proof (strict_spec_facts B HB) as FB.
  destruct (b2r_agree A t HA HC) as [X [X' [E [E' [[PC PR] [KX [PX [KX' PX']]]]]]]].
  assert (Sub : subset (block_columns A) (cols t) = true).
  { unfold complete_blocks in HC. repeat (apply andb_true_iff in HC; destruct HC as [HC ?]). assumption. }
  destruct (same_records_facts A B SR) as [RKe CKe].
  assert (KB' : keyed_facts (rs_keys B) X').
  { apply (keyed_facts_perm_keys (rs_keys A)); [apply keyed_by_facts; exact KX'|]. intros c. symmetry. apply RKe. }
  assert (rcBX : forall c, In c (row_columns B) -> In c (cols X)).
  { intros c Hc. apply (Permutation_in _ (Permutation_sym PX)). apply In_rc. apply In_rc in Hc.
    destruct Hc as [Hc|Hc]; [left; apply RKe; exact Hc|right; apply CKe; exact Hc]. }
  destruct (r2b_agree B X' KB') as [Z1 [Z1' [F1 [F1' [Ec1 P1]]]]].
  destruct (r2b_cong B X' X Z1) as [Z [F2 [Ec2 P2]]]; [|exact F1|].
  - (* the selected rows of X' and of X agree *)
    cbn [rows select_cols]. cbn [rows select_cols] in PR.
    assert (Q : Permutation (map (fun x => cells (cols X) x (row_columns B)) (map (fun r => cells (cols X') r (cols X)) (rows X')))
                            (map (fun x => cells (cols X) x (row_columns B)) (rows X))) by (apply Permutation_map; exact PR).
    rewrite map_map in Q. rewrite (map_ext _ (fun r => cells (cols X') r (row_columns B))) in Q by (intros r; apply cells_cells; exact rcBX).
    exact Q.
  - exists Z, Z1'.
    split; [rewrite transform_blocks_to_blocks by exact Sub; rewrite E; exact F2|].
    split; [rewrite transform_pl_blocks_to_blocks by exact Sub; rewrite E'; exact F1'|].
    destruct (r2b_wf B X Z FB F2) as [N L]. apply tbl_eqv_of_perm; [congruence| |exact N|exact L].
    etransitivity; [exact P1|]. apply Permutation_sym. exact P2. Qed.
