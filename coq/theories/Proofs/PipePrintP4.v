(* Proofs/PipePrintP4.v -- C12, token level: the shift-reduce parser of Model/PipePrintSyn.v reads back the layout of
   EVERY well-formed syntax tree:

     Theorem parse_flatten : forall s, wf_syn s = true -> parse_py (flatten s) = Some s.

   Route: (1) a nested induction principle for `syn`; (2) `els_of s`, the elements a tree contributes to the piece it
   stands in, and `mk_chain (els_of s) = Some s`; (3) the scanning lemma `scan_all`: scanning `flatten s` from an EMPTY
   piece leaves `rev (els_of s)` on the piece and nothing else changed; the four bracket kinds share one generic
   lemma about comma-separated item lists (Section Items); (4) the end-of-input test. *)
From Coq Require Import List Bool String Ascii NArith Arith Lia.
Import ListNotations.
From DA Require Import Model.PipePrintStr Model.PipePrintSyn.
Local Open Scope string_scope.
Local Open Scope bool_scope.
Local Open Scope list_scope.

(* ------------------------------------------------------------------ 1. nested induction *)
Section SynInd.
  Variable P : syn -> Prop.
  Hypothesis HAtom : forall t, P (SAtom t).
  Hypothesis HList : forall xs, Forall P xs -> P (SList xs).
  Hypothesis HTuple : forall xs, Forall P xs -> P (STuple xs).
  Hypothesis HDict : forall tr kvs, Forall (fun kv => P (fst kv) /\ P (snd kv)) kvs -> P (SDict tr kvs).
  Hypothesis HPar : forall x, P x -> P (SPar x).
  Hypothesis HCall : forall path args, Forall (fun a => P (snd a)) args -> P (SCall path args).
  Hypothesis HMeth : forall recv m args, P recv -> Forall (fun a => P (snd a)) args -> P (SMeth recv m args).

  Fixpoint syn_nested_ind (s : syn) : P s :=
    match s with
    | SAtom t => HAtom t
    | SList xs =>
        HList xs ((fix go (l : list syn) : Forall P l :=
                     match l with
                     | [] => Forall_nil _
                     | x :: t => @Forall_cons _ _ x t (syn_nested_ind x) (go t)
                     end) xs)
    | STuple xs =>
        HTuple xs ((fix go (l : list syn) : Forall P l :=
                      match l with
                      | [] => Forall_nil _
                      | x :: t => @Forall_cons _ _ x t (syn_nested_ind x) (go t)
                      end) xs)
    | SDict tr kvs =>
        HDict tr kvs ((fix go (l : list (syn * syn)) : Forall (fun kv => P (fst kv) /\ P (snd kv)) l :=
                         match l with
                         | [] => Forall_nil _
                         | kv :: t =>
                             @Forall_cons _ (fun kv => P (fst kv) /\ P (snd kv)) kv t
                               (match kv as kv0 return P (fst kv0) /\ P (snd kv0) with
                                | (k, v) => conj (syn_nested_ind k) (syn_nested_ind v)
                                end) (go t)
                         end) kvs)
    | SPar x => HPar x (syn_nested_ind x)
    | SCall path args =>
        HCall path args ((fix go (l : list (option string * syn)) : Forall (fun a => P (snd a)) l :=
                            match l with
                            | [] => Forall_nil _
                            | a :: t =>
                                @Forall_cons _ (fun a => P (snd a)) a t
                                  (match a as a0 return P (snd a0) with (o, x) => syn_nested_ind x end) (go t)
                            end) args)
    | SMeth recv m args =>
        HMeth recv m args (syn_nested_ind recv)
          ((fix go (l : list (option string * syn)) : Forall (fun a => P (snd a)) l :=
              match l with
              | [] => Forall_nil _
              | a :: t =>
                  @Forall_cons _ (fun a => P (snd a)) a t
                    (match a as a0 return P (snd a0) with (o, x) => syn_nested_ind x end) (go t)
              end) args)
    end.
End SynInd.

(* ------------------------------------------------------------------ 2. vocabulary *)
Definition sep : list ptok := [TkSym ","].

(* the layout of one argument / one dict entry *)
Definition farg (a : option string * syn) : list ptok :=
  match fst a with
  | Some k => TkName k :: TkSym "=" :: flatten (snd a)
  | None => flatten (snd a)
  end.
Definition fkv (kv : syn * syn) : list ptok := flatten (fst kv) ++ TkSym ":" :: flatten (snd kv).
Definition dict_tail (tr : bool) (kvs : list (syn * syn)) : list ptok :=
  if tr && negb (match kvs with [] => true | _ => false end) then [TkSym ","] else [].

(* ("." NAME)* *)
Fixpoint dot_path (p : list string) : list ptok :=
  match p with
  | [] => []
  | n :: more => TkSym "." :: TkName n :: dot_path more
  end.

(* the elements a tree contributes to the piece it stands in *)
Fixpoint els_of (s : syn) : list el :=
  match s with
  | SAtom t => [ETok t]
  | SCall path args => map ETok (path_toks path) ++ [EArgs args]
  | SMeth recv m args => els_of recv ++ [ETok (TkSym "."); ETok (TkName m); EArgs args]
  | _ => [ESyn s]
  end.

Lemma flatten_list : forall xs, flatten (SList xs) = TkSym "[" :: tjoin sep (map flatten xs) ++ [TkSym "]"].
Proof. reflexivity. Qed.
Lemma flatten_tuple : forall xs, flatten (STuple xs) = TkSym "(" :: tjoin sep (map flatten xs) ++ [TkSym ")"].
Proof. reflexivity. Qed.
Lemma flatten_dict : forall tr kvs,
  flatten (SDict tr kvs) = TkSym "{" :: tjoin sep (map fkv kvs) ++ dict_tail tr kvs ++ [TkSym "}"].
Proof. reflexivity. Qed.
Lemma flatten_par : forall x, flatten (SPar x) = TkSym "(" :: flatten x ++ [TkSym ")"].
Proof. reflexivity. Qed.
Lemma flatten_call : forall path args,
  flatten (SCall path args) = path_toks path ++ TkSym "(" :: tjoin sep (map farg args) ++ [TkSym ")"].
Proof. reflexivity. Qed.
Lemma flatten_meth : forall recv m args,
  flatten (SMeth recv m args)
  = flatten recv ++ TkSym "." :: TkName m :: TkSym "(" :: tjoin sep (map farg args) ++ [TkSym ")"].
Proof. reflexivity. Qed.

Lemma wf_atom : forall t, wf_syn (SAtom t) = atom_ok t.
Proof. reflexivity. Qed.
Lemma wf_list : forall xs, wf_syn (SList xs) = forallb wf_syn xs.
Proof. reflexivity. Qed.
Lemma wf_tuple : forall xs, wf_syn (STuple xs) = Nat.leb 2 (List.length xs) && forallb wf_syn xs.
Proof. reflexivity. Qed.
Lemma wf_dict : forall tr kvs,
  wf_syn (SDict tr kvs)
  = forallb (fun kv => wf_syn (fst kv) && wf_syn (snd kv)) kvs
    && (negb tr || negb (match kvs with [] => true | _ => false end)).
Proof. reflexivity. Qed.
Lemma wf_par : forall x, wf_syn (SPar x) = wf_syn x.
Proof. reflexivity. Qed.
Lemma wf_call : forall path args,
  wf_syn (SCall path args)
  = nonempty_path path && forallb (fun n => negb (is_const_name n)) path && forallb (fun a => wf_syn (snd a)) args.
Proof. reflexivity. Qed.
Lemma wf_meth : forall recv m args,
  wf_syn (SMeth recv m args)
  = recv_ok recv && negb (is_const_name m) && wf_syn recv && forallb (fun a => wf_syn (snd a)) args.
Proof. reflexivity. Qed.

Lemma path_toks_cons : forall p n, path_toks (n :: p) = TkName n :: dot_path p.
Proof.
  induction p as [|m p IH]; intro n.
  - reflexivity.
  - change (path_toks (n :: m :: p)) with (TkName n :: TkSym "." :: path_toks (m :: p)).
    rewrite IH. reflexivity.
Qed.

(* layouts followed by the rest of the input, right-nested *)
Lemma list_layout : forall xs rest,
  flatten (SList xs) ++ rest = TkSym "[" :: tjoin sep (map flatten xs) ++ TkSym "]" :: rest.
Proof. intros. rewrite flatten_list. cbn [app]. rewrite <- app_assoc. reflexivity. Qed.
Lemma tuple_layout : forall xs rest,
  flatten (STuple xs) ++ rest = TkSym "(" :: tjoin sep (map flatten xs) ++ TkSym ")" :: rest.
Proof. intros. rewrite flatten_tuple. cbn [app]. rewrite <- app_assoc. reflexivity. Qed.
Lemma par_layout : forall x rest,
  flatten (SPar x) ++ rest = TkSym "(" :: tjoin sep (map flatten [x]) ++ TkSym ")" :: rest.
Proof. intros. rewrite flatten_par. cbn [app map tjoin]. rewrite <- app_assoc. reflexivity. Qed.
Lemma dict_layout : forall tr kvs rest,
  flatten (SDict tr kvs) ++ rest = TkSym "{" :: tjoin sep (map fkv kvs) ++ dict_tail tr kvs ++ TkSym "}" :: rest.
Proof. intros. rewrite flatten_dict. cbn [app]. rewrite <- !app_assoc. reflexivity. Qed.
Lemma call_layout : forall n p args rest,
  flatten (SCall (n :: p) args) ++ rest
  = TkName n :: dot_path p ++ TkSym "(" :: tjoin sep (map farg args) ++ TkSym ")" :: rest.
Proof.
  intros. rewrite flatten_call, path_toks_cons. cbn [app]. rewrite <- app_assoc. cbn [app].
  rewrite <- app_assoc. reflexivity.
Qed.
Lemma meth_layout : forall recv m args rest,
  flatten (SMeth recv m args) ++ rest
  = flatten recv ++ TkSym "." :: TkName m :: TkSym "(" :: tjoin sep (map farg args) ++ TkSym ")" :: rest.
Proof.
  intros. rewrite flatten_meth. rewrite <- app_assoc. cbn [app]. rewrite <- app_assoc. reflexivity.
Qed.

(* ------------------------------------------------------------------ 3. single steps of the scanner *)
Lemma pscan_name : forall n ts cur stack,
  pscan (TkName n :: ts) cur stack = pscan ts (push_el (ETok (TkName n)) cur) stack.
Proof. reflexivity. Qed.
Lemma pscan_int : forall n ts cur stack,
  pscan (TkInt n :: ts) cur stack = pscan ts (push_el (ETok (TkInt n)) cur) stack.
Proof. reflexivity. Qed.
Lemma pscan_str : forall l ts cur stack,
  pscan (TkStr l :: ts) cur stack = pscan ts (push_el (ETok (TkStr l)) cur) stack.
Proof. reflexivity. Qed.
Lemma pscan_dot : forall ts cur stack,
  pscan (TkSym "." :: ts) cur stack = pscan ts (push_el (ETok (TkSym ".")) cur) stack.
Proof. reflexivity. Qed.
Lemma pscan_lparen : forall ts cur stack,
  pscan (TkSym "(" :: ts) cur stack
  = pscan ts (new_frame (if head_is_callee cur then BCall else BParen)) (cur :: stack).
Proof. reflexivity. Qed.
Lemma pscan_lbrack : forall ts cur stack,
  pscan (TkSym "[" :: ts) cur stack = pscan ts (new_frame BList) (cur :: stack).
Proof. reflexivity. Qed.
Lemma pscan_lbrace : forall ts cur stack,
  pscan (TkSym "{" :: ts) cur stack = pscan ts (new_frame BDict) (cur :: stack).
Proof. reflexivity. Qed.
Lemma pscan_comma : forall ts cur p st,
  pscan (TkSym "," :: ts) cur (p :: st)
  = match add_item cur with
    | Some f => pscan ts (mkfr (fk f) (fitems f) true PNo []) (p :: st)
    | None => None
    end.
Proof. reflexivity. Qed.
Lemma pscan_colon : forall ts its c piece stack,
  pscan (TkSym ":" :: ts) (mkfr BDict its c PNo piece) stack
  = match mk_chain (rev piece) with
    | Some k => pscan ts (mkfr BDict its c (PKey k) []) stack
    | None => None
    end.
Proof. reflexivity. Qed.
Lemma pscan_eq : forall ts its c k stack,
  pscan (TkSym "=" :: ts) (mkfr BCall its c PNo [ETok (TkName k)]) stack
  = pscan ts (mkfr BCall its c (PKw k) []) stack.
Proof. reflexivity. Qed.
Definition do_close (s : string) (ts : list ptok) (cur parent : frame) (st : list frame) : option syn :=
  if closes (fk cur) s then
    match close_frame cur with
    | Some e => pscan ts (push_el e parent) st
    | None => None
    end
  else None.
Lemma pscan_rparen : forall ts cur parent st,
  pscan (TkSym ")" :: ts) cur (parent :: st) = do_close ")" ts cur parent st.
Proof. reflexivity. Qed.
Lemma pscan_rbrack : forall ts cur parent st,
  pscan (TkSym "]" :: ts) cur (parent :: st) = do_close "]" ts cur parent st.
Proof. reflexivity. Qed.
Lemma pscan_rbrace : forall ts cur parent st,
  pscan (TkSym "}" :: ts) cur (parent :: st) = do_close "}" ts cur parent st.
Proof. reflexivity. Qed.
Lemma pscan_end : forall k piece,
  pscan [] (mkfr k [] false PNo piece) [] = mk_chain (rev piece).
Proof. reflexivity. Qed.

Lemma do_close_ok : forall s ts cur parent st e,
  closes (fk cur) s = true -> close_frame cur = Some e ->
  do_close s ts cur parent st = pscan ts (push_el e parent) st.
Proof. intros s ts cur parent st e H1 H2. unfold do_close. rewrite H1, H2. reflexivity. Qed.

Local Opaque pscan.

(* ------------------------------------------------------------------ 4. the chain evaluator on els_of *)
Lemma path_go_dot : forall p acc a r,
  path_go acc (map ETok (dot_path p) ++ EArgs a :: r) = trailers (SCall (rev acc ++ p) a) r.
Proof.
  induction p as [|m p IH]; intros acc a r.
  - cbn [dot_path map app path_go]. rewrite app_nil_r. reflexivity.
  - cbn [dot_path map app path_go]. change (ksym_is (TkSym ".") ".") with true. cbv iota.
    rewrite IH. cbn [rev]. rewrite <- app_assoc. reflexivity.
Qed.

Lemma mk_chain_els_app : forall s, wf_syn s = true -> recv_ok s = true ->
  forall r, mk_chain (els_of s ++ r) = trailers s r.
Proof.
  induction s as [t|xs|xs|tr kvs|x IH|path args|recv IH m args]; intros Hwf Hr r; try reflexivity.
  - discriminate Hr.
  - rewrite wf_call in Hwf. destruct path as [|n p]; [discriminate Hwf|].
    apply andb_prop in Hwf. destruct Hwf as [Hwf _]. apply andb_prop in Hwf. destruct Hwf as [_ Hp].
    cbn [forallb] in Hp. apply andb_prop in Hp. destruct Hp as [Hn _].
    apply negb_true_iff in Hn.
    cbn [els_of]. rewrite path_toks_cons. cbn [map app]. unfold mk_chain. rewrite Hn.
    rewrite <- app_assoc. cbn [app]. rewrite path_go_dot. reflexivity.
  - rewrite wf_meth in Hwf.
    apply andb_prop in Hwf. destruct Hwf as [Hwf _]. apply andb_prop in Hwf. destruct Hwf as [Hwf Hwr].
    apply andb_prop in Hwf. destruct Hwf as [Hro _].
    cbn [els_of]. rewrite <- app_assoc. rewrite IH by assumption. reflexivity.
Qed.

Lemma mk_chain_els : forall s, wf_syn s = true -> mk_chain (els_of s) = Some s.
Proof.
  intros s Hwf. destruct s as [t|xs|xs|tr kvs|x|path args|recv m args]; try reflexivity.
  - rewrite wf_atom in Hwf. destruct t as [n|n|l|y]; try reflexivity.
    + cbn [atom_ok] in Hwf. cbn [els_of]. unfold mk_chain. rewrite Hwf. reflexivity.
    + discriminate Hwf.
  - rewrite <- (app_nil_r (els_of (SCall path args))). rewrite mk_chain_els_app by (assumption || reflexivity).
    reflexivity.
  - rewrite <- (app_nil_r (els_of (SMeth recv m args))). rewrite mk_chain_els_app by (assumption || reflexivity).
    reflexivity.
Qed.

Lemma rev_els_call : forall n p args,
  rev (els_of (SCall (n :: p) args)) = EArgs args :: rev (map ETok (dot_path p)) ++ [ETok (TkName n)].
Proof. intros. cbn [els_of]. rewrite path_toks_cons. rewrite rev_app_distr. reflexivity. Qed.
Lemma rev_els_meth : forall recv m args,
  rev (els_of (SMeth recv m args)) = EArgs args :: ETok (TkName m) :: ETok (TkSym ".") :: rev (els_of recv).
Proof. intros. cbn [els_of]. rewrite rev_app_distr. reflexivity. Qed.

Lemma els_rev_cons : forall s, exists e l, rev (els_of s) = e :: l.
Proof.
  intros s. destruct s as [t|xs|xs|tr kvs|x|path args|recv m args]; try (eexists; eexists; reflexivity).
  - cbn [els_of]. rewrite rev_app_distr. eexists; eexists; reflexivity.
  - rewrite rev_els_meth. eexists; eexists; reflexivity.
Qed.

Lemma piece_nonempty : forall x k its c pd, piece_empty (mkfr k its c pd (rev (els_of x))) = false.
Proof.
  intros x k its c pd. destruct (els_rev_cons x) as [e [l H]]. unfold piece_empty. cbn [fpiece]. rewrite H.
  reflexivity.
Qed.

(* ------------------------------------------------------------------ 5. comma-separated items, generically *)
Section Items.
  Variable A : Type.
  Variable k : bk.
  Variable lay : A -> list ptok.        (* the layout of one item *)
  Variable pnd : A -> pend.             (* what is pending when the item's last piece is complete *)
  Variable pc : A -> list el.           (* that last piece *)
  Variable it : A -> item.              (* the item it becomes *)

  Definition item_spec (a : A) : Prop :=
    (forall its c rest stack,
        pscan (lay a ++ rest) (mkfr k its c PNo []) stack = pscan rest (mkfr k its c (pnd a) (pc a)) stack)
    /\ (forall its c, add_item (mkfr k its c (pnd a) (pc a)) = Some (mkfr k (it a :: its) c PNo []))
    /\ (forall its c, piece_empty (mkfr k its c (pnd a) (pc a)) = false).

  (* the frame just before the closing bracket (or the trailing comma): the last item still on the piece *)
  Fixpoint final_frame (its : list item) (c : bool) (a : A) (more : list A) : frame :=
    match more with
    | [] => mkfr k its c (pnd a) (pc a)
    | b :: more' => final_frame (it a :: its) true b more'
    end.
  Definition final_comma (c : bool) (more : list A) : bool := match more with [] => c | _ => true end.

  Lemma scan_items : forall more a its c rest p st,
    Forall item_spec (a :: more) ->
    pscan (tjoin sep (map lay (a :: more)) ++ rest) (mkfr k its c PNo []) (p :: st)
    = pscan rest (final_frame its c a more) (p :: st).
  Proof.
    induction more as [|b more IH]; intros a its c rest p st HF.
    - inversion HF as [|? ? [H1 _] _]; subst. cbn [map tjoin final_frame]. apply H1.
    - inversion HF as [|? ? [H1 [H2 _]] HF']; subst.
      change (tjoin sep (map lay (a :: b :: more))) with (lay a ++ sep ++ tjoin sep (map lay (b :: more))).
      rewrite <- app_assoc. rewrite H1. unfold sep at 1. cbn [app].
      rewrite pscan_comma, H2. cbn [fk fitems].
      rewrite IH by assumption. reflexivity.
  Qed.

  Lemma final_add : forall more a its c,
    Forall item_spec (a :: more) ->
    add_item (final_frame its c a more)
    = Some (mkfr k (rev (map it (a :: more)) ++ its) (final_comma c more) PNo []).
  Proof.
    induction more as [|b more IH]; intros a its c HF.
    - inversion HF as [|? ? [_ [H2 _]] _]; subst. cbn [final_frame]. rewrite H2. reflexivity.
    - inversion HF as [|? ? _ HF']; subst. cbn [final_frame]. rewrite IH by assumption.
      f_equal. f_equal.
      + cbn [map rev]. rewrite <- !app_assoc. reflexivity.
      + destruct more; reflexivity.
  Qed.

  Lemma final_nonempty : forall more a its c,
    Forall item_spec (a :: more) -> piece_empty (final_frame its c a more) = false.
  Proof.
    induction more as [|b more IH]; intros a its c HF.
    - inversion HF as [|? ? [_ [_ H3]] _]; subst. apply H3.
    - inversion HF as [|? ? _ HF']; subst. cbn [final_frame]. apply IH. assumption.
  Qed.

  Lemma final_fk : forall more a its c, fk (final_frame its c a more) = k.
  Proof. induction more as [|b more IH]; intros; cbn [final_frame]; [reflexivity|apply IH]. Qed.
End Items.

(* closing a bracket whose last piece is not empty *)
Lemma close_call : forall f its c pd pc,
  piece_empty f = false -> add_item f = Some (mkfr BCall its c pd pc) ->
  close_frame f = option_map EArgs (arg_items (rev its)).
Proof. intros f its c pd pc H1 H2. unfold close_frame. rewrite H1, H2. reflexivity. Qed.
Lemma close_list : forall f its c pd pc,
  piece_empty f = false -> add_item f = Some (mkfr BList its c pd pc) ->
  close_frame f = option_map (fun xs => ESyn (SList xs)) (pos_items (rev its)).
Proof. intros f its c pd pc H1 H2. unfold close_frame. rewrite H1, H2. reflexivity. Qed.
Lemma close_dict : forall f its c pd pc,
  piece_empty f = false -> add_item f = Some (mkfr BDict its c pd pc) ->
  close_frame f = option_map (fun kvs => ESyn (SDict false kvs)) (kv_items (rev its)).
Proof. intros f its c pd pc H1 H2. unfold close_frame. rewrite H1, H2. reflexivity. Qed.
Lemma close_paren : forall f its c pd pc,
  piece_empty f = false -> add_item f = Some (mkfr BParen its c pd pc) ->
  close_frame f = match pos_items (rev its) with
                  | Some [x] => if c then Some (ESyn (STuple [x])) else Some (ESyn (SPar x))
                  | Some xs => Some (ESyn (STuple xs))
                  | None => None
                  end.
Proof. intros f its c pd pc H1 H2. unfold close_frame. rewrite H1, H2. reflexivity. Qed.
Lemma close_dict_trailing : forall its,
  close_frame (mkfr BDict its true PNo [])
  = option_map (fun kvs => ESyn (SDict true kvs)) (kv_items (rev its)).
Proof. reflexivity. Qed.

Lemma pos_items_map : forall xs, pos_items (map IPos xs) = Some xs.
Proof. induction xs as [|x xs IH]; [reflexivity|]. cbn [map pos_items]. rewrite IH. reflexivity. Qed.
Lemma kv_items_map : forall kvs, kv_items (map (fun kv => IKV (fst kv) (snd kv)) kvs) = Some kvs.
Proof.
  induction kvs as [|[k v] kvs IH]; [reflexivity|]. cbn [map kv_items fst snd]. rewrite IH. reflexivity.
Qed.

Definition arg_pend (a : option string * syn) : pend :=
  match fst a with Some kw => PKw kw | None => PNo end.
Definition arg_item (a : option string * syn) : item :=
  match fst a with Some kw => IKw kw (snd a) | None => IPos (snd a) end.

Lemma arg_items_map : forall args, arg_items (map arg_item args) = Some args.
Proof.
  induction args as [|[[kw|] x] args IH]; [reflexivity| |];
    cbn [map arg_items arg_item fst snd]; rewrite IH; reflexivity.
Qed.

(* ------------------------------------------------------------------ 6. the scanning lemma *)
Definition scan_ok (s : syn) : Prop :=
  wf_syn s = true ->
  forall rest k its c pd stack,
    pscan (flatten s ++ rest) (mkfr k its c pd []) stack
    = pscan rest (mkfr k its c pd (rev (els_of s))) stack.

Definition pos_spec (k : bk) : syn -> Prop :=
  item_spec syn k flatten (fun _ => PNo) (fun x => rev (els_of x)) IPos.
Definition arg_spec : option string * syn -> Prop :=
  item_spec (option string * syn) BCall farg arg_pend (fun a => rev (els_of (snd a))) arg_item.
Definition kv_spec : syn * syn -> Prop :=
  item_spec (syn * syn) BDict fkv (fun kv => PKey (fst kv)) (fun kv => rev (els_of (snd kv)))
    (fun kv => IKV (fst kv) (snd kv)).

Lemma pos_spec_of : forall k x, k = BParen \/ k = BList -> wf_syn x = true -> scan_ok x -> pos_spec k x.
Proof.
  intros k x Hk Hwf Hs. unfold pos_spec, item_spec. repeat split.
  - intros. apply Hs. assumption.
  - intros its c. unfold add_item. cbn [fpiece fk fpend fitems fcomma]. rewrite rev_involutive.
    rewrite mk_chain_els by assumption. destruct Hk; subst k; reflexivity.
  - intros. apply piece_nonempty.
Qed.

Lemma arg_spec_of : forall a, wf_syn (snd a) = true -> scan_ok (snd a) -> arg_spec a.
Proof.
  intros [o x] Hwf Hs. cbn [snd] in *. unfold arg_spec, item_spec. repeat split.
  - intros its c rest stack. destruct o as [kw|]; unfold farg, arg_pend; cbn [fst snd app].
    + rewrite pscan_name. unfold push_el. cbn [fk fitems fcomma fpend fpiece].
      rewrite pscan_eq. apply Hs. assumption.
    + apply Hs. assumption.
  - intros its c. unfold add_item. cbn [fpiece fk fpend fitems fcomma snd]. rewrite rev_involutive.
    rewrite mk_chain_els by assumption. destruct o; reflexivity.
  - intros. apply piece_nonempty.
Qed.

Lemma kv_spec_of : forall kv,
  wf_syn (fst kv) = true -> wf_syn (snd kv) = true -> scan_ok (fst kv) -> scan_ok (snd kv) -> kv_spec kv.
Proof.
  intros [x v] Hwx Hwv Hsx Hsv. cbn [fst snd] in *. unfold kv_spec, item_spec. repeat split.
  - intros its c rest stack. unfold fkv. cbn [fst snd]. rewrite <- app_assoc. cbn [app].
    rewrite Hsx by assumption. rewrite pscan_colon. rewrite rev_involutive.
    rewrite mk_chain_els by assumption. apply Hsv. assumption.
  - intros its c. unfold add_item. cbn [fpiece fk fpend fitems fcomma fst snd]. rewrite rev_involutive.
    rewrite mk_chain_els by assumption. reflexivity.
  - intros. apply piece_nonempty.
Qed.

Lemma Forall_pos_spec : forall k xs, k = BParen \/ k = BList ->
  Forall scan_ok xs -> forallb wf_syn xs = true -> Forall (pos_spec k) xs.
Proof.
  intros k xs Hk HF. induction HF as [|x xs Hx HF IH]; intro Hwf; [constructor|].
  cbn [forallb] in Hwf. apply andb_prop in Hwf. destruct Hwf as [Hwx Hwxs].
  constructor; [apply pos_spec_of; assumption|apply IH; assumption].
Qed.

Lemma Forall_arg_spec : forall args,
  Forall (fun a => scan_ok (snd a)) args -> forallb (fun a => wf_syn (snd a)) args = true -> Forall arg_spec args.
Proof.
  intros args HF. induction HF as [|a args Ha HF IH]; intro Hwf; [constructor|].
  cbn [forallb] in Hwf. apply andb_prop in Hwf. destruct Hwf as [Hwa Hwargs].
  constructor; [apply arg_spec_of; assumption|apply IH; assumption].
Qed.

Lemma Forall_kv_spec : forall kvs,
  Forall (fun kv => scan_ok (fst kv) /\ scan_ok (snd kv)) kvs ->
  forallb (fun kv => wf_syn (fst kv) && wf_syn (snd kv)) kvs = true -> Forall kv_spec kvs.
Proof.
  intros kvs HF. induction HF as [|kv kvs [Hk Hv] HF IH]; intro Hwf; [constructor|].
  cbn [forallb] in Hwf. apply andb_prop in Hwf. destruct Hwf as [Hw Hwkvs].
  apply andb_prop in Hw. destruct Hw as [Hwk Hwv].
  constructor; [apply kv_spec_of; assumption|apply IH; assumption].
Qed.

(* --- the four brackets *)
Lemma scan_list_bracket : forall xs, Forall (pos_spec BList) xs ->
  forall rest k its c pd stack,
    pscan (TkSym "[" :: tjoin sep (map flatten xs) ++ TkSym "]" :: rest) (mkfr k its c pd []) stack
    = pscan rest (mkfr k its c pd [ESyn (SList xs)]) stack.
Proof.
  intros xs HF rest k its c pd stack. rewrite pscan_lbrack. unfold new_frame.
  destruct xs as [|a more].
  - cbn [map tjoin app]. rewrite pscan_rbrack. reflexivity.
  - unfold pos_spec in HF. rewrite (scan_items _ _ _ _ _ _ more a [] false _ _ _ HF).
    rewrite pscan_rbrack.
    rewrite (do_close_ok _ _ _ _ _ (ESyn (SList (a :: more)))); [reflexivity| |].
    + rewrite final_fk. reflexivity.
    + rewrite (close_list _ _ _ _ _ (final_nonempty _ _ _ _ _ _ _ _ _ _ HF) (final_add _ _ _ _ _ _ _ _ _ _ HF)).
      rewrite app_nil_r, rev_involutive, pos_items_map. reflexivity.
Qed.

Lemma scan_paren_bracket : forall a more, Forall (pos_spec BParen) (a :: more) ->
  forall rest k its c pd stack,
    pscan (TkSym "(" :: tjoin sep (map flatten (a :: more)) ++ TkSym ")" :: rest) (mkfr k its c pd []) stack
    = pscan rest (mkfr k its c pd [ESyn (match more with [] => SPar a | _ => STuple (a :: more) end)]) stack.
Proof.
  intros a more HF rest k its c pd stack. rewrite pscan_lparen.
  change (head_is_callee (mkfr k its c pd [])) with false. cbv iota. unfold new_frame.
  unfold pos_spec in HF. rewrite (scan_items _ _ _ _ _ _ more a [] false _ _ _ HF).
  rewrite pscan_rparen.
  rewrite (do_close_ok _ _ _ _ _ (ESyn (match more with [] => SPar a | _ => STuple (a :: more) end)));
    [reflexivity| |].
  - rewrite final_fk. reflexivity.
  - rewrite (close_paren _ _ _ _ _ (final_nonempty _ _ _ _ _ _ _ _ _ _ HF) (final_add _ _ _ _ _ _ _ _ _ _ HF)).
    rewrite app_nil_r, rev_involutive, pos_items_map. destruct more; reflexivity.
Qed.

Lemma scan_args_bracket : forall args, Forall arg_spec args ->
  forall rest parent stack,
    pscan (tjoin sep (map farg args) ++ TkSym ")" :: rest) (mkfr BCall [] false PNo []) (parent :: stack)
    = pscan rest (push_el (EArgs args) parent) stack.
Proof.
  intros args HF rest parent stack. destruct args as [|a more].
  - cbn [map tjoin app]. rewrite pscan_rparen. reflexivity.
  - unfold arg_spec in HF. rewrite (scan_items _ _ _ _ _ _ more a [] false _ _ _ HF).
    rewrite pscan_rparen.
    rewrite (do_close_ok _ _ _ _ _ (EArgs (a :: more))); [reflexivity| |].
    + rewrite final_fk. reflexivity.
    + rewrite (close_call _ _ _ _ _ (final_nonempty _ _ _ _ _ _ _ _ _ _ HF) (final_add _ _ _ _ _ _ _ _ _ _ HF)).
      rewrite app_nil_r, rev_involutive, arg_items_map. reflexivity.
Qed.

Lemma scan_dict_bracket : forall tr kvs, Forall kv_spec kvs ->
  negb tr || negb (match kvs with [] => true | _ => false end) = true ->
  forall rest k its c pd stack,
    pscan (TkSym "{" :: tjoin sep (map fkv kvs) ++ dict_tail tr kvs ++ TkSym "}" :: rest) (mkfr k its c pd []) stack
    = pscan rest (mkfr k its c pd [ESyn (SDict tr kvs)]) stack.
Proof.
  intros tr kvs HF Htr rest k its c pd stack. rewrite pscan_lbrace. unfold new_frame.
  destruct kvs as [|a more].
  - destruct tr; [discriminate Htr|]. cbn [map tjoin app dict_tail andb]. rewrite pscan_rbrace. reflexivity.
  - unfold kv_spec in HF. rewrite (scan_items _ _ _ _ _ _ more a [] false _ _ _ HF).
    pose proof (final_nonempty _ _ _ _ _ _ _ _ [] false HF) as Hne.
    pose proof (final_add _ _ _ _ _ _ _ _ [] false HF) as Hadd.
    destruct tr; unfold dict_tail; cbn [andb negb app].
    + rewrite pscan_comma, Hadd. cbn [fk fitems]. rewrite pscan_rbrace.
      rewrite (do_close_ok _ _ _ _ _ (ESyn (SDict true (a :: more)))); [reflexivity|reflexivity|].
      rewrite close_dict_trailing. rewrite app_nil_r, rev_involutive, kv_items_map. reflexivity.
    + rewrite pscan_rbrace.
      rewrite (do_close_ok _ _ _ _ _ (ESyn (SDict false (a :: more)))); [reflexivity| |].
      * rewrite final_fk. reflexivity.
      * rewrite (close_dict _ _ _ _ _ Hne Hadd).
        rewrite app_nil_r, rev_involutive, kv_items_map. reflexivity.
Qed.

(* --- dotted paths *)
Lemma scan_dots : forall p rest k its c pd piece stack,
  pscan (dot_path p ++ rest) (mkfr k its c pd piece) stack
  = pscan rest (mkfr k its c pd (rev (map ETok (dot_path p)) ++ piece)) stack.
Proof.
  induction p as [|m p IH]; intros rest k its c pd piece stack.
  - reflexivity.
  - cbn [dot_path app]. rewrite pscan_dot, pscan_name. unfold push_el. cbn [fk fitems fcomma fpend fpiece].
    rewrite IH. cbn [map rev]. rewrite <- !app_assoc. reflexivity.
Qed.

Lemma head_callee_path : forall p n k its c pd piece,
  is_const_name n = false -> forallb (fun n => negb (is_const_name n)) p = true ->
  head_is_callee (mkfr k its c pd (rev (map ETok (dot_path p)) ++ ETok (TkName n) :: piece)) = true.
Proof.
  induction p as [|m p IH]; intros n k its c pd piece Hn Hp.
  - unfold head_is_callee. cbn [dot_path map rev app fpiece]. rewrite Hn. reflexivity.
  - cbn [forallb] in Hp. apply andb_prop in Hp. destruct Hp as [Hm Hp]. apply negb_true_iff in Hm.
    cbn [dot_path map rev]. rewrite <- !app_assoc. cbn [app]. apply IH; assumption.
Qed.

(* --- every tree *)
Lemma scan_all : forall s, scan_ok s.
Proof.
  apply syn_nested_ind; unfold scan_ok.
  - (* atom *)
    intros t Hwf rest k its c pd stack. rewrite wf_atom in Hwf.
    change (flatten (SAtom t) ++ rest) with (t :: rest).
    destruct t as [n|n|l|y]; [rewrite pscan_name|rewrite pscan_int|rewrite pscan_str|discriminate Hwf]; reflexivity.
  - (* list *)
    intros xs HF Hwf rest k its c pd stack. rewrite wf_list in Hwf. rewrite list_layout.
    apply scan_list_bracket. apply Forall_pos_spec; auto.
  - (* tuple *)
    intros xs HF Hwf rest k its c pd stack. rewrite wf_tuple in Hwf.
    apply andb_prop in Hwf. destruct Hwf as [Hlen Hwf]. rewrite tuple_layout.
    destruct xs as [|a [|b more]]; [discriminate Hlen|discriminate Hlen|].
    apply (scan_paren_bracket a (b :: more)). apply Forall_pos_spec; auto.
  - (* dict *)
    intros tr kvs HF Hwf rest k its c pd stack. rewrite wf_dict in Hwf.
    apply andb_prop in Hwf. destruct Hwf as [Hwf Htr]. rewrite dict_layout.
    apply scan_dict_bracket; [apply Forall_kv_spec; assumption|assumption].
  - (* parenthesised *)
    intros x Hx Hwf rest k its c pd stack. rewrite wf_par in Hwf. rewrite par_layout.
    apply (scan_paren_bracket x []). constructor; [|constructor].
    apply pos_spec_of; auto.
  - (* call *)
    intros path args HF Hwf rest k its c pd stack. rewrite wf_call in Hwf.
    destruct path as [|n p]; [discriminate Hwf|].
    apply andb_prop in Hwf. destruct Hwf as [Hwf Hwa]. apply andb_prop in Hwf. destruct Hwf as [_ Hp].
    cbn [forallb] in Hp. apply andb_prop in Hp. destruct Hp as [Hn Hp]. apply negb_true_iff in Hn.
    rewrite call_layout. rewrite pscan_name. unfold push_el. cbn [fk fitems fcomma fpend fpiece].
    rewrite scan_dots. rewrite pscan_lparen. rewrite head_callee_path by assumption. unfold new_frame.
    rewrite scan_args_bracket by (apply Forall_arg_spec; assumption).
    unfold push_el. cbn [fk fitems fcomma fpend fpiece]. rewrite rev_els_call. reflexivity.
  - (* method call *)
    intros recv m args Hrecv HF Hwf rest k its c pd stack. rewrite wf_meth in Hwf.
    apply andb_prop in Hwf. destruct Hwf as [Hwf Hwa]. apply andb_prop in Hwf. destruct Hwf as [Hwf Hwr].
    apply andb_prop in Hwf. destruct Hwf as [_ Hm]. apply negb_true_iff in Hm.
    rewrite meth_layout. rewrite Hrecv by assumption.
    rewrite pscan_dot, pscan_name, pscan_lparen. unfold push_el. cbn [fk fitems fcomma fpend fpiece].
    unfold head_is_callee. cbn [fpiece]. rewrite Hm. cbn [negb]. unfold new_frame.
    rewrite scan_args_bracket by (apply Forall_arg_spec; assumption).
    unfold push_el. cbn [fk fitems fcomma fpend fpiece]. rewrite rev_els_meth. reflexivity.
Qed.

(* ------------------------------------------------------------------ 7. the theorem *)
Theorem parse_flatten : forall s : syn, wf_syn s = true -> parse_py (flatten s) = Some s.
Proof.
  intros s Hwf. unfold parse_py, new_frame. rewrite <- (app_nil_r (flatten s)).
  rewrite (scan_all s Hwf). rewrite pscan_end. rewrite rev_involutive. apply mk_chain_els. assumption.
Qed.

(* concrete trees, by computation *)
Example parse_flatten_ex1 :
  let s := SMeth (SCall ["data_algebra"; "TableDescription"]
                    [(Some "table_name", SAtom (TkStr "'d'"));
                     (Some "column_names", SList [SAtom (TkStr "'x'"); SAtom (TkStr "'y'")])])
             "extend" [(None, SDict true [(SAtom (TkStr "'z'"), SAtom (TkStr "'x + 1'"))]);
                       (Some "partition_by", STuple [SAtom (TkInt 1); SPar (SAtom (TkName "None"))])] in
  wf_syn s = true /\ parse_py (flatten s) = Some s.
Proof. vm_compute. split; reflexivity. Qed.

Print Assumptions parse_flatten.
