(* C17, part 8: with value_suffix "" compose() really builds a composite_ok map -- proved here for the composites
   rows -> blocks B -> blocks C (the shape that was wrong before /repo 031522a). *)
From Coq Require Import List Bool Arith ZArith QArith String Ascii Lia Permutation.
Import ListNotations.
From DA Require Import Base.PyRT Base.Val Model.CData Proofs.CDataP1 Proofs.CDataP2 Proofs.CDataP3 Proofs.CDataP4 Proofs.CDataP5 Proofs.CDataP6 Proofs.CDataP7.

Lemma append_nil_r (s : string) : (s ++ "")%string = s.
Proof. induction s as [|a s IH]; simpl; [reflexivity|]. rewrite IH. reflexivity. Qed.

(* ------------------------------------------------------------------ sufficient conditions for the constructor to accept *)
Lemma existsb_false {A} (f : A -> bool) l : (forall x, In x l -> f x = false) -> existsb f l = false.
Proof. induction l as [|x t IH]; intros h; simpl; [reflexivity|]. rewrite (h x (or_introl eq_refl)). apply IH.
  intros y Hy. apply h. right. exact Hy. Qed.

Lemma mk_spec_intro ct rk ctk :
  (2 <= List.length (rows ct))%nat -> NoDup (cols ct) -> ctk <> [] ->
  (forall c, In c ctk -> In c (cols ct)) -> (List.length ctk < List.length (cols ct))%nat ->
  (forall c, In c rk -> ~ In c ctk) ->
  (forall r, In r (rows ct) -> key_ok (cells (cols ct) r ctk) = true) ->
  NoDup (map (fun r => cells (cols ct) r ctk) (rows ct)) ->
  forallb is_str_nonempty (raw_content ct ctk) = true ->
  (forall c, In c rk -> ~ In c (map val_str (raw_content ct ctk))) ->
  NoDup (map val_str (raw_content ct ctk)) ->
  mk_spec ct rk (Some ctk) true = Some (mkspec rk ct ctk true).
Proof. intros L2 Nc NE Sub Lk Drk Kok Knd Str Dn Nn.
  assert (K : is_keyed ctk ct = Ok true) by (apply is_keyed_ok; [apply subset_spec; exact Sub|exact Kok|exact Knd]).
  unfold mk_spec. cbv zeta.
  assert (E1 : Nat.ltb (List.length (rows ct)) 1 = false) by (apply Nat.ltb_ge; lia). rewrite E1.
  assert (E2 : Nat.ltb (List.length (cols ct)) 2 = false).
  { apply Nat.ltb_ge. destruct ctk; [congruence|]. simpl in Lk. lia. }
  rewrite E2.
  assert (E3 : nodupb (cols ct) = true) by (apply nodupb_NoDup; exact Nc). rewrite E3. simpl negb. cbv iota.
  assert (E4 : Nat.ltb 1 (List.length (rows ct)) = true) by (apply Nat.ltb_lt; lia). rewrite E4. rewrite K.
  assert (E0 : match ctk with [] => true | _ :: _ => false end = false) by (destruct ctk; [congruence|reflexivity]).
  rewrite E0. cbn [orb andb].
  assert (E5 : subset ctk (cols ct) = true) by (apply subset_spec; exact Sub). rewrite E5. cbn [negb].
  assert (E6 : Nat.leb (List.length (cols ct)) (List.length ctk) = false) by (apply Nat.leb_gt; exact Lk). rewrite E6.
  assert (E7 : disjointb rk ctk = true) by (apply disjointb_spec; exact Drk). rewrite E7. cbn [negb].
  rewrite existsb_false.
  - rewrite Str. cbn [negb].
    assert (E8 : disjointb rk (map val_str (raw_content ct ctk)) = true) by (apply disjointb_spec; exact Dn). rewrite E8. cbn [negb].
    assert (E9 : nodupb (map val_str (raw_content ct ctk)) = true) by (apply nodupb_NoDup; exact Nn). rewrite E9. reflexivity.
  - intros ck Hck. apply existsb_false. intros v Hv. unfold getcol in Hv. apply in_map_iff in Hv. destruct Hv as [r [<- Hr]].
    pose proof (proj1 (key_ok_cells _ _ _) (Kok r Hr) ck Hck) as h. apply andb_true_iff in h. destruct h as [h _]. rewrite h. reflexivity. Qed.

Lemma strict_spec_intro rk ct ctk :
  mk_spec ct rk (Some ctk) true = Some (mkspec rk ct ctk true) -> (2 <= List.length (rows ct))%nat ->
  NoDup rk -> (forall c, In c rk -> ~ In c (cols ct)) -> NoDup ctk ->
  (forall r, In r (rows ct) -> key_ok (cells (cols ct) r ctk) = true) ->
  (forall r, In r (rows ct) -> List.length r = List.length (cols ct)) ->
  strict_spec (mkspec rk ct ctk true) = true.
Proof. intros M L2 Nrk Drk Nck Kok Len. unfold strict_spec. simpl. rewrite M.
  assert (R : is_row_spec (mkspec rk ct ctk true) = false) by (unfold is_row_spec; simpl; apply Nat.leb_gt; lia). rewrite R. simpl.
  unfold spec_extra. simpl. rewrite !andb_true_iff. repeat split.
  - apply nodupb_NoDup. exact Nrk.
  - apply disjointb_spec. exact Drk.
  - apply nodupb_NoDup. exact Nck.
  - apply forallb_forall. exact Kok.
  - apply forallb_forall. intros r Hr. apply Nat.eqb_eq. apply Len. exact Hr. Qed.

(* the value cells of a strict specification are non-empty strings *)
Lemma strict_spec_names_str S : strict_spec S = true -> forallb is_str_nonempty (raw_content (rs_ct S) (rs_ctkeys S)) = true.
Proof. unfold strict_spec. intros H.
  apply andb_true_iff in H. destruct H as [H _]. apply andb_true_iff in H. destruct H as [H Hm].
  destruct (mk_spec (rs_ct S) (rs_keys S) (Some (rs_ctkeys S)) true) as [s'|] eqn:M; [clear Hm|discriminate].
  unfold mk_spec in M. cbv zeta in M.
  repeat match type of M with (if ?c then _ else _) = _ => let E := fresh "c" in destruct c eqn:E; [discriminate M|] end.
  apply negb_false_iff in c9. exact c9. Qed.

Lemma spec_simb_refl C : spec_simb C C = true.
Proof. unfold spec_simb. rewrite !eqb_refl. simpl. apply perm_eqb_spec. reflexivity. Qed.

(* ------------------------------------------------------------------ a control table read back from an example run *)
(* h C cr: the control row cr as compose() finds it in the transformed example: its key cells, then its names as strings *)
Definition hrow (C : recspec) (cr : list val) : list val := kap C cr ++ map VStr (nm C cr).

Lemma filter_app_disjoint_l (ck vc : list string) : (forall c, In c vc -> ~ In c ck) ->
  filter (fun c => negb (mem c ck)) (ck ++ vc) = vc.
Proof. intros D. rewrite filter_app. rewrite filter_none.
  - simpl. apply filter_all. intros c Hc. apply negb_true_iff. apply mem_false. apply D. exact Hc.
  - intros c Hc. apply negb_false_iff. apply mem_In. exact Hc. Qed.

Section LayoutSpec.
  Variable C : recspec.
  Hypothesis HC : strict_spec C = true.
  Variable rk : list string.
  Variable rso : table.
  Let CK := rs_ctkeys C. Let VC := value_cols C. Let ctrows := rows (rs_ct C).
  Hypothesis Hcols : cols rso = CK ++ VC.
  Hypothesis Hrows : Permutation (rows rso) (map (hrow C) ctrows).
  Hypothesis Nrk : NoDup rk.
  Hypothesis Erk : forall c, In c rk <-> In c (rs_keys C).
  Let F := strict_spec_facts C HC.
  Let so := mkspec rk rso CK true.

  Lemma ls_vc_not_ck c : In c VC -> ~ In c CK.
  Proof. intros Hc. apply value_cols_In in Hc. tauto. Qed.

  Lemma ls_row r : In r (rows rso) -> exists cr, In cr ctrows /\ r = hrow C cr.
  Proof. intros Hr. apply (Permutation_in _ Hrows) in Hr. apply in_map_iff in Hr. destruct Hr as [cr [E Hcr]]. exists cr. auto. Qed.

  Lemma ls_cells_ck cr : cells (cols rso) (hrow C cr) CK = kap C cr.
  Proof. rewrite Hcols. unfold hrow. rewrite cells_app_l; [|auto|unfold kap; apply cells_length].
    apply cells_self; [unfold kap; apply cells_length|apply (sf_ck_nodup C F)]. Qed.

  Lemma ls_get_vc cr c : In c VC -> get (cols rso) (hrow C cr) c = VStr (val_str (get (cols (rs_ct C)) cr c)).
  Proof. intros Hc. rewrite Hcols. unfold hrow. rewrite get_app_r; [|apply ls_vc_not_ck; exact Hc|unfold kap; apply cells_length].
    unfold nm. rewrite map_map. apply (get_map_cols (fun c0 => VStr (val_str (get (cols (rs_ct C)) cr c0)))). exact Hc. Qed.

  Lemma ls_value_cols : value_cols so = VC.
  Proof. unfold value_cols, so. simpl. rewrite Hcols. apply filter_app_disjoint_l. apply ls_vc_not_ck. Qed.

  Lemma ls_nm cr : nm so (hrow C cr) = nm C cr.
  Proof. unfold nm at 1. rewrite ls_value_cols. unfold so. simpl. unfold nm. apply map_ext_in. intros c Hc.
    rewrite (ls_get_vc cr c Hc). reflexivity. Qed.

  Lemma ls_kap cr : kap so (hrow C cr) = kap C cr.
  Proof. unfold kap at 1. unfold so. simpl. apply ls_cells_ck. Qed.

  Lemma ls_layout : Permutation (ct_layout so) (ct_layout C).
  Proof. unfold ct_layout. change (rows (rs_ct so)) with (rows rso).
    etransitivity; [apply Permutation_map; exact Hrows|]. rewrite map_map. apply Permutation_refl'. apply map_ext. intros cr.
    fold (kap so (hrow C cr)). fold (nm so (hrow C cr)). rewrite ls_kap, ls_nm. reflexivity. Qed.

  Lemma ls_cnames : Permutation (cnames so) (cnames C).
  Proof. rewrite (cnames_perm so), (cnames_perm C). change (rows (rs_ct so)) with (rows rso).
    rewrite (perm_flat_map (nm so) _ _ Hrows). rewrite flat_map_map. apply Permutation_refl'. apply flat_map_ext. intros cr. apply ls_nm. Qed.

  Lemma ls_two_rows : (2 <= List.length (rows rso))%nat.
  Proof. rewrite (Permutation_length Hrows), map_length. apply (sf_two_rows C F). Qed.

  Lemma ls_cols_nodup : NoDup (cols rso).
  Proof. rewrite Hcols. apply NoDup_app_intro; [apply (sf_ck_nodup C F)|apply value_cols_nodup; exact F|].
    intros c Hc Hv. exact (ls_vc_not_ck c Hv Hc). Qed.

  Lemma ls_vc_ne : VC <> [].
  Proof. (* the control table has a non-key column: its columns are distinct and more numerous than the keys *)
    intros E. pose proof (sf_ck_nodup C F) as Nck. pose proof (sf_cc_nodup C F) as Ncc.
    assert (Sub : forall c, In c (cols (rs_ct C)) -> In c CK).
    { intros c Hc. destruct (in_dec string_dec c CK) as [i|ni]; [exact i|]. exfalso.
      assert (I : In c VC) by (apply value_cols_In; auto). rewrite E in I. destruct I. }
    (* mk_spec rejects when every column is a key *)
    clear E. pose proof HC as H0. unfold strict_spec in H0. apply andb_true_iff in H0. destruct H0 as [H1 _]. apply andb_true_iff in H1. destruct H1 as [_ Hm].
    destruct (mk_spec (rs_ct C) (rs_keys C) (Some (rs_ctkeys C)) true) as [s'|] eqn:M; [|discriminate].
    unfold mk_spec in M. cbv zeta in M.
    repeat match type of M with (if ?c then _ else _) = _ => let E := fresh "c" in destruct c eqn:E; [discriminate M|] end.
    apply Nat.leb_gt in c5. pose proof (NoDup_incl_length Ncc Sub). fold CK in c5. lia. Qed.

  Lemma ls_keys_ok r : In r (rows rso) -> key_ok (cells (cols rso) r CK) = true.
  Proof. intros Hr. destruct (ls_row r Hr) as [cr [Hcr ->]]. rewrite ls_cells_ck. apply (sf_keys_ok C F). exact Hcr. Qed.

  Lemma ls_keys_nodup : NoDup (map (fun r => cells (cols rso) r CK) (rows rso)).
  Proof. eapply Permutation_NoDup; [apply Permutation_map; apply Permutation_sym; exact Hrows|]. rewrite map_map.
    rewrite (map_ext _ (kap C)) by (intros cr; apply ls_cells_ck). apply (sf_keys_nodup C F). Qed.

  Lemma ls_names_str : forallb is_str_nonempty (raw_content rso CK) = true.
  Proof. pose proof (strict_spec_names_str C HC) as SC. rewrite forallb_forall in SC. apply forallb_forall. intros v Hv.
    unfold raw_content in Hv. apply in_flat_map in Hv. destruct Hv as [c [Hc Hv]].
    destruct (mem c CK) eqn:M; [destruct Hv|]. apply mem_false in M.
    assert (HcV : In c VC). { rewrite Hcols in Hc. apply in_app_iff in Hc. destruct Hc; [contradiction|assumption]. }
    unfold getcol in Hv. apply in_map_iff in Hv. destruct Hv as [r [<- Hr]]. destruct (ls_row r Hr) as [cr [Hcr ->]].
    rewrite (ls_get_vc cr c HcV).
    assert (I : In (get (cols (rs_ct C)) cr c) (raw_content (rs_ct C) (rs_ctkeys C))).
    { unfold raw_content. apply in_flat_map. exists c. apply value_cols_In in HcV. destruct HcV as [a b]. split; [exact a|].
      apply mem_false in b. rewrite b. unfold getcol. apply (in_map (fun r0 => get (cols (rs_ct C)) r0 c)). exact Hcr. }
    specialize (SC _ I). destruct (get (cols (rs_ct C)) cr c) as [| | | |s0]; try discriminate. exact SC. Qed.

  Lemma ls_mk_spec : mk_spec rso rk (Some CK) true = Some so.
  Proof. apply mk_spec_intro.
    - apply ls_two_rows.
    - apply ls_cols_nodup.
    - apply (sf_ck_ne C F).
    - intros c Hc. rewrite Hcols. apply in_app_iff. left. exact Hc.
    - rewrite Hcols, app_length. pose proof ls_vc_ne. destruct VC; [congruence|simpl; lia].
    - intros c Hc. apply (sf_rk_ck C F). apply Erk. exact Hc.
    - apply ls_keys_ok.
    - apply ls_keys_nodup.
    - apply ls_names_str.
    - intros c Hc Hn. change (map val_str (raw_content rso CK)) with (cnames so) in Hn.
      apply (Permutation_in _ ls_cnames) in Hn. apply (sf_rk_names C F c); [apply Erk; exact Hc|exact Hn].
    - change (map val_str (raw_content rso CK)) with (cnames so).
      eapply Permutation_NoDup; [apply Permutation_sym; apply ls_cnames|apply (sf_names_nodup C F)]. Qed.

  Lemma ls_strict : strict_spec so = true.
  Proof. apply strict_spec_intro.
    - apply ls_mk_spec.
    - apply ls_two_rows.
    - exact Nrk.
    - intros c Hc. rewrite Hcols. intros I. apply in_app_iff in I. destruct I as [I|I].
      + apply (sf_rk_ck C F c); [apply Erk; exact Hc|exact I].
      + apply value_cols_In in I. apply (sf_rk_cc C F c); [apply Erk; exact Hc|tauto].
    - apply (sf_ck_nodup C F).
    - apply ls_keys_ok.
    - intros r Hr. destruct (ls_row r Hr) as [cr [_ ->]]. rewrite Hcols. unfold hrow, kap.
      rewrite !app_length, cells_length, map_length, nm_length. reflexivity. Qed.

  Lemma ls_sim : rk = rs_keys C -> spec_simb C so = true.
  Proof. intros E. unfold spec_simb. rewrite ls_value_cols. unfold so at 1 2. simpl. rewrite E, !eqb_refl. simpl.
    apply perm_eqb_spec. apply Permutation_sym. apply ls_layout. Qed.
End LayoutSpec.

(* ------------------------------------------------------------------ DataFrame.drop of the record-key columns *)
Lemma combine_app {A B} (l1 l2 : list A) (m1 m2 : list B) : List.length l1 = List.length m1 ->
  combine (l1 ++ l2) (m1 ++ m2) = combine l1 m1 ++ combine l2 m2.
Proof. revert m1. induction l1 as [|x l1 IH]; intros [|y m1] L; simpl in *; try discriminate; [reflexivity|].
  rewrite IH by lia. reflexivity. Qed.

Lemma map_snd_combine {A B} (l : list A) (m : list B) : List.length l = List.length m -> map snd (combine l m) = m.
Proof. revert m. induction l as [|x l IH]; intros [|y m] L; simpl in *; try discriminate; [reflexivity|]. rewrite IH by lia. reflexivity. Qed.

Lemma drop_row (rk rest : list string) (a b : list val) :
  (forall c, In c rest -> ~ In c rk) -> List.length a = List.length rk -> List.length b = List.length rest ->
  map snd (filter (fun cv : string * val => negb (mem (fst cv) rk)) (combine (rk ++ rest) (a ++ b))) = b.
Proof. intros D La Lb. rewrite combine_app by (symmetry; exact La). rewrite filter_app. rewrite filter_none.
  - simpl. rewrite filter_all; [apply map_snd_combine; symmetry; exact Lb|].
    intros [c v] I. simpl. apply negb_true_iff. apply mem_false. apply D. apply in_combine_l in I. exact I.
  - intros [c v] I. simpl. apply negb_false_iff. apply mem_In. apply in_combine_l in I. exact I. Qed.

(* ------------------------------------------------------------------ compose on rows -> B -> C *)
Section ComposeRowsBlocks.
  Variables B C : recspec.
  Hypothesis HB : strict_spec B = true.
  Hypothesis HC : strict_spec C = true.
  Hypothesis SR : same_records B C = true.
  Hypothesis ERK : rs_keys B = rs_keys C.
  Let FB := strict_spec_facts B HB.
  Let FC := strict_spec_facts C HC.
  Let RK := rs_keys B.
  Let nms := content_keys B.
  Let rkrow : list val := map (fun k => VStr (k ++ " record key")%string) RK.
  Let r0 : list val := rkrow ++ map VStr nms.
  Let inp : table := mktable (RK ++ nms) [r0].
  Let s1 := mkmap None (Some B) true.
  Let s2 := mkmap (Some B) (Some C) true.

  Lemma crb_nms_not_rk c : In c nms -> ~ In c RK.
  Proof. intros Hc Hr. unfold nms in Hc. rewrite (content_keys_cnames B FB) in Hc. exact (sf_rk_names B FB c Hr Hc). Qed.

  Lemma crb_example : example_input "" s1 = Some inp.
  Proof. unfold example_input, s1. cbn [map_record_keys rm_in rm_out].
    assert (Ef : filter (fun k => negb (mem k (rs_keys B))) (row_columns B) = nms)
      by (unfold row_columns; apply filter_app_disjoint_l; exact crb_nms_not_rk).
    rewrite Ef.
    rewrite (map_ext (fun k => VStr (k ++ "")%string) VStr) by (intros k; rewrite append_nil_r; reflexivity).
    unfold inp, r0, rkrow, RK. destruct (rs_keys B) eqn:E; reflexivity. Qed.

  Lemma crb_rkrow_len : List.length rkrow = List.length RK.
  Proof. apply map_length. Qed.

  Lemma crb_cells_rk : cells (cols inp) r0 RK = rkrow.
  Proof. unfold inp, r0. cbn [cols]. rewrite cells_app_l by (auto using crb_rkrow_len).
    apply cells_self; [apply crb_rkrow_len|apply (sf_rk_nodup B FB)]. Qed.

  Lemma crb_get_name n : In n nms -> get (cols inp) r0 n = VStr n.
  Proof. intros Hn. unfold inp, r0. cbn [cols]. rewrite get_app_r; [|apply crb_nms_not_rk; exact Hn|apply crb_rkrow_len].
    apply (get_map_cols VStr). exact Hn. Qed.

  Lemma crb_keyed : keyed_facts RK inp.
  Proof. constructor.
    - intros c Hc. unfold inp. cbn [cols]. apply in_app_iff. left. exact Hc.
    - intros r [<-|[]]. rewrite crb_cells_rk. unfold key_ok, rkrow. apply forallb_forall. intros v Hv.
      apply in_map_iff in Hv. destruct Hv as [k [<- _]]. reflexivity.
    - cbn [rows map]. constructor; [intros []|constructor]. Qed.

  Lemma crb_conforming : conforming_rows B inp = true.
  Proof. unfold conforming_rows. apply andb_true_iff. split; [apply keyed_by_facts; exact crb_keyed|].
    apply subset_spec. intros c Hc. exact Hc. Qed.

  Lemma crb_C_names_in_nms cr n : In cr (rows (rs_ct C)) -> In n (nm C cr) -> In n nms.
  Proof. intros Hcr Hn. destruct (same_records_facts B C SR) as [_ CKe]. apply CKe.
    rewrite (content_keys_cnames C FC). eapply nm_In_cnames; eassumption. Qed.

  (* what rowrecs_to_blocks C makes of the example row: one row per control row of C *)
  Lemma crb_direct : exists Z0, rowrecs_to_blocks C inp = Ok Z0 /\ cols Z0 = r2b_cols C /\
    Permutation (rows Z0) (map (fun cr => rkrow ++ hrow C cr) (rows (rs_ct C))).
  Proof. assert (KC : keyed_facts (rs_keys C) inp) by (rewrite <- ERK; exact crb_keyed).
    eexists. split; [apply r2b_unfold; [discriminate|apply is_keyed_select_ok; exact KC]|]. split; [reflexivity|].
    cbn [rows]. etransitivity; [apply sort_rows_perm|]. rewrite r2b_rows_direct. unfold ct_layout. rewrite flat_map_map.
    cbn [rows inp map fst snd]. rewrite flat_map_singleton. apply Permutation_refl'. apply map_ext_in. intros cr Hcr.
    change (cols {| cols := RK ++ nms; rows := [r0] |}) with (cols inp). rewrite <- ERK. fold RK. rewrite crb_cells_rk.
    fold (kap C cr). fold (nm C cr). unfold hrow. f_equal. f_equal.
    unfold cells. apply map_ext_in. intros n Hn. apply crb_get_name. eapply crb_C_names_in_nms; eassumption. Qed.

  Theorem compose_rows_blocks_ok :
    exists c, compose "" s2 s1 = CMap c /\ composite_ok None (Some C) c = true.
  Proof.
    destruct crb_direct as [Z0 [EZ0 [Ec0 P0]]].
    destruct (through_blocks_and_back B C inp HB FC SR crb_conforming Z0 EZ0) as [Y [X2 [Z2 [E1 [PY [E2 [E3 [Ec Pr]]]]]]]].
    assert (T1 : transform s1 inp = Ok Y).
    { unfold s1. rewrite transform_rows_to_blocks; [exact E1|]. apply subset_spec. intros c Hc. exact Hc. }
    assert (T2 : transform s2 Y = Ok Z2).
    { unfold s2. rewrite transform_blocks_to_blocks by (apply (perm_subset _ _ _ PY); auto). rewrite E2. exact E3. }
    (* the record-key columns dropped from the output *)
    set (rest := rs_ctkeys C ++ value_cols C).
    assert (Drest : forall c, In c rest -> ~ In c RK).
    { intros c Hc Hr. unfold RK in Hr. rewrite ERK in Hr. unfold rest in Hc. apply in_app_iff in Hc. destruct Hc as [Hc|Hc].
      - exact (sf_rk_ck C FC c Hr Hc).
      - apply value_cols_In in Hc. exact (sf_rk_cc C FC c Hr (proj1 Hc)). }
    assert (EcZ : cols Z2 = RK ++ rest) by (rewrite Ec, Ec0; unfold r2b_cols, rest, RK; rewrite ERK; reflexivity).
    set (dropf := fun r : list val => map snd (filter (fun cv : string * val => negb (mem (fst cv) RK)) (combine (cols Z2) r))).
    set (rso := mktable (filter (fun c => negb (mem c RK)) (cols Z2)) (map dropf (rows Z2))).
    assert (D2 : drop_cols RK Z2 = Some rso).
    { unfold drop_cols. rewrite (proj2 (subset_spec RK (cols Z2))); [reflexivity|]. intros c Hc. rewrite EcZ. apply in_app_iff. left. exact Hc. }
    assert (D1 : exists rsi, drop_cols RK inp = Some rsi).
    { unfold drop_cols. rewrite (proj2 (subset_spec RK (cols inp))); [eexists; reflexivity|]. intros c Hc. apply in_app_iff. left. exact Hc. }
    destruct D1 as [rsi D1].
    assert (Hcols : cols rso = rs_ctkeys C ++ value_cols C).
    { unfold rso. cbn [cols]. rewrite EcZ. apply filter_app_disjoint_l. exact Drest. }
    assert (Hrows : Permutation (rows rso) (map (hrow C) (rows (rs_ct C)))).
    { unfold rso. cbn [rows]. etransitivity; [apply Permutation_map; etransitivity; [exact Pr|exact P0]|]. rewrite map_map.
      apply Permutation_refl'. apply map_ext. intros cr. unfold dropf. rewrite EcZ. apply drop_row.
      - exact Drest.
      - apply crb_rkrow_len.
      - unfold hrow, rest, kap. rewrite !app_length, cells_length, map_length, nm_length. reflexivity. }
    assert (Nrk : NoDup RK) by apply (sf_rk_nodup B FB).
    assert (Erk : forall c, In c RK <-> In c (rs_keys C)) by (intros c; unfold RK; rewrite ERK; reflexivity).
    pose proof (ls_mk_spec C HC RK rso Hcols Hrows Erk) as MS.
    pose proof (ls_strict C HC RK rso Hcols Hrows Nrk Erk) as SS.
    pose proof (ls_sim C HC RK rso Hcols Hrows ERK) as SIM.
    set (so := mkspec RK rso (rs_ctkeys C) true) in *.
    exists (mkmap None (Some so) true). split.
    - unfold compose. unfold s1 at 1, s2 at 1. cbn [map_record_keys rm_in rm_out].
      assert (SE : set_eqb (rs_keys B) (rs_keys B) = true).
      { unfold set_eqb. rewrite (proj2 (subset_spec _ _)) by auto. reflexivity. }
      rewrite SE. cbn [negb]. rewrite crb_example. fold s1 s2. rewrite T1. cbn [res_bind]. rewrite T2.
      fold RK. rewrite D1, D2. unfold s1 at 1 2, s2 at 1 2 3. cbn [rm_strict rm_in rm_out andb].
      assert (L1 : Nat.ltb (List.length (rows inp)) 2 = true) by reflexivity. rewrite L1.
      assert (L2 : Nat.ltb (List.length (rows Z2)) 2 = false).
      { apply Nat.ltb_ge. rewrite (Permutation_length Pr), (Permutation_length P0), map_length. apply (sf_two_rows C FC). }
      rewrite L2. fold RK. rewrite MS. rewrite (mk_map_rows_to_blocks so (strict_spec_facts so SS)). reflexivity.
    - unfold composite_ok. cbn [rm_in rm_out rm_strict]. rewrite SS, SIM. reflexivity.
  Qed.
End ComposeRowsBlocks.

(* compose() IS sequential application for rows -> B -> C (value_suffix "", i.e. the code since /repo 031522a) *)
Theorem compose_sound_rows_blocks_full B C t :
  strict_spec B = true -> strict_spec C = true -> same_records B C = true -> rs_keys B = rs_keys C ->
  conforming_rows B t = true ->
  exists c y z zc, compose "" (mkmap (Some B) (Some C) true) (mkmap None (Some B) true) = CMap c /\
    transform (mkmap None (Some B) true) t = Ok y /\ transform (mkmap (Some B) (Some C) true) y = Ok z /\
    transform c t = Ok zc /\ tbl_eqv zc z.
Proof. intros HB HC SR ERK CB. destruct (compose_rows_blocks_ok B C HB HC SR ERK) as [c [E OK]].
  destruct (compose_sound_rows_blocks "" B C t c HB HC SR CB E OK) as [y [z [zc [T1 [T2 [T3 EQ]]]]]].
  exists c, y, z, zc. auto. Qed.

(* ------------------------------------------------------------------ compose on A -> B -> rows *)
Lemma mk_spec_some ct rk ctk st s : mk_spec ct rk (Some ctk) st = Some s -> s = mkspec rk ct ctk st.
Proof. unfold mk_spec. cbv zeta. intros M.
  repeat match type of M with (if ?c then _ else _) = _ => let E := fresh "c" in destruct c eqn:E; [discriminate M|] end.
  inversion M. reflexivity. Qed.

Lemma spec_eqb_refl A : spec_eqb A A = true.
Proof. unfold spec_eqb. rewrite !eqb_refl. simpl. apply Bool.eqb_reflx. Qed.

Lemma strict_spec_mk_spec A : strict_spec A = true ->
  mk_spec (rs_ct A) (rs_keys A) (Some (rs_ctkeys A)) true = Some A.
Proof. intros HA. pose proof (sf_strict A (strict_spec_facts A HA)) as ST.
  unfold strict_spec in HA. apply andb_true_iff in HA. destruct HA as [H _]. apply andb_true_iff in H. destruct H as [_ Hm].
  destruct (mk_spec (rs_ct A) (rs_keys A) (Some (rs_ctkeys A)) true) as [s'|] eqn:M; [|discriminate].
  rewrite (mk_spec_some _ _ _ _ _ M). destruct A as [k ct ck st]. simpl in *. subst st. reflexivity. Qed.

Lemma length_flat_map_map {A B C} (f : A -> B -> C) (la : list A) (lb : list B) :
  List.length (flat_map (fun a => map (f a) lb) la) = (List.length la * List.length lb)%nat.
Proof. induction la as [|a t IH]; [reflexivity|]. cbn [flat_map]. rewrite app_length, map_length, IH. reflexivity. Qed.

Lemma r2b_row_count S X Z : rowrecs_to_blocks S X = Ok Z -> rows X <> [] ->
  List.length (rows Z) = (List.length (rows (rs_ct S)) * List.length (rows X))%nat.
Proof. unfold rowrecs_to_blocks. cbv zeta. intros E NE.
  destruct (rows (select_cols (row_columns S) X)) as [|a l] eqn:ED.
  - simpl in ED. destruct (rows X); [congruence|discriminate].
  - rewrite <- ED in E. destruct (is_keyed _ _) as [[|]| |]; try discriminate. apply Ok_inj in E. subst Z. cbn [rows].
    unfold sort_rows. rewrite sort_by_length.
    assert (LD : List.length (rows (select_cols (row_columns S) X)) = List.length (rows X)) by (simpl; apply map_length).
    rewrite <- LD. apply (length_flat_map_map (fun cr r => cells (row_columns S) r (rs_keys S) ++ cells (cols (rs_ct S)) cr (rs_ctkeys S) ++ cells (row_columns S) r (map (fun c => val_str (get (cols (rs_ct S)) cr c)) (value_cols S)))). Qed.

Section ComposeBlocksRows.
  Variables A B : recspec.
  Hypothesis HA : strict_spec A = true.
  Hypothesis HB : strict_spec B = true.
  Hypothesis SR : same_records A B = true.
  Let FA := strict_spec_facts A HA.
  Let FB := strict_spec_facts B HB.
  Let RK := rs_keys A. Let CK := rs_ctkeys A. Let CC := cols (rs_ct A). Let ctrows := rows (rs_ct A).
  Let rkrow : list val := map (fun k => VStr (k ++ " record key")%string) RK.
  Let inp : table := mktable (RK ++ CC) (map (fun cr => rkrow ++ cr) ctrows).
  Let s1 := mkmap (Some A) (Some B) true.
  Let s2 := mkmap (Some B) None true.

  Lemma cbr_rkrow_len : List.length rkrow = List.length RK.
  Proof. apply map_length. Qed.

  Lemma cbr_cell_str cr c : In cr ctrows -> In c CC -> ~ In c CK -> VStr (val_str (get CC cr c) ++ "") = get CC cr c.
  Proof. intros Hcr Hc Hk. rewrite append_nil_r.
    pose proof (strict_spec_names_str A HA) as SC. rewrite forallb_forall in SC.
    assert (I : In (get CC cr c) (raw_content (rs_ct A) (rs_ctkeys A))).
    { unfold raw_content. apply in_flat_map. exists c. split; [exact Hc|]. apply mem_false in Hk. fold CK. rewrite Hk.
      unfold getcol. apply (in_map (fun r0 => get (cols (rs_ct A)) r0 c)). exact Hcr. }
    specialize (SC _ I). destruct (get CC cr c) as [| | | |s0]; try discriminate. reflexivity. Qed.

  Lemma cbr_example : example_input "" s1 = Some inp.
  Proof. unfold example_input, s1. cbn [map_record_keys rm_in rm_out]. fold CC CK ctrows RK.
    assert (E : map (fun cr => map (fun c => if mem c CK then get CC cr c else VStr (val_str (get CC cr c) ++ "")) CC) ctrows = ctrows).
    { rewrite <- (map_id ctrows) at 2. apply map_ext_in. intros cr Hcr.
      transitivity (cells CC cr CC).
      - apply map_ext_in. intros c Hc. destruct (mem c CK) eqn:M; [reflexivity|]. apply mem_false in M. apply cbr_cell_str; assumption.
      - apply cells_self; [apply (sf_rows_len A FA); exact Hcr|apply (sf_cc_nodup A FA)]. }
    rewrite E. unfold inp, rkrow. destruct RK eqn:ER; [|reflexivity].
    cbn [map app cols rows]. rewrite map_id. destruct (rs_ct A); reflexivity. Qed.

  Lemma cbr_cells_rk cr : cells (RK ++ CC) (rkrow ++ cr) RK = rkrow.
  Proof. rewrite cells_app_l by (auto using cbr_rkrow_len). apply cells_self; [apply cbr_rkrow_len|apply (sf_rk_nodup A FA)]. Qed.

  Lemma cbr_cells_ck cr : cells (RK ++ CC) (rkrow ++ cr) CK = kap A cr.
  Proof. rewrite cells_app_r; [reflexivity| |apply cbr_rkrow_len]. intros c Hc Hr. exact (sf_rk_ck A FA c Hr Hc). Qed.

  Lemma cbr_rkrow_ok : key_ok rkrow = true.
  Proof. unfold key_ok, rkrow. apply forallb_forall. intros v Hv. apply in_map_iff in Hv. destruct Hv as [k [<- _]]. reflexivity. Qed.

  Lemma cbr_complete : complete_blocks A inp = true.
  Proof. unfold complete_blocks. rewrite !andb_true_iff. repeat split.
    - apply keyed_by_facts. constructor.
      + intros c Hc. unfold inp. cbn [cols]. apply in_app_iff in Hc. apply in_app_iff.
        destruct Hc as [Hc|Hc]; [left; exact Hc|right; apply (sf_ck_sub A FA); exact Hc].
      + intros r Hr. unfold inp in Hr. cbn [rows] in Hr. apply in_map_iff in Hr. destruct Hr as [cr [<- Hcr]].
        cbn [cols inp]. fold RK CK. rewrite cells_app, cbr_cells_rk, cbr_cells_ck, key_ok_app, cbr_rkrow_ok, (sf_keys_ok A FA cr Hcr). reflexivity.
      + cbn [rows cols inp]. rewrite map_map. fold RK CK.
        rewrite (map_ext _ (fun cr => rkrow ++ kap A cr)) by (intros cr; rewrite cells_app, cbr_cells_rk, cbr_cells_ck; reflexivity).
        rewrite <- (map_map (kap A) (fun k => rkrow ++ k)). apply NoDup_map_inj_in; [apply (sf_keys_nodup A FA)|].
        intros x y _ _ E. apply app_inv_head in E. exact E.
    - apply subset_spec. intros c Hc. exact Hc.
    - apply forallb_forall. intros r Hr. cbn [rows inp] in Hr. apply in_map_iff in Hr. destruct Hr as [cr [<- Hcr]].
      apply mem_In. cbn [cols inp]. fold CK. rewrite cbr_cells_ck. rewrite ct_keys_of_kap. apply in_map. exact Hcr.
    - apply forallb_forall. intros r Hr. cbn [rows inp] in Hr. apply in_map_iff in Hr. destruct Hr as [cr [<- Hcr]].
      apply forallb_forall. intros k Hk. rewrite ct_keys_of_kap in Hk. apply in_map_iff in Hk. destruct Hk as [cr' [<- Hcr']].
      apply mem_In. cbn [cols rows inp]. fold RK CK. rewrite cbr_cells_rk. rewrite map_map. apply in_map_iff. exists cr'. split; [|exact Hcr'].
      rewrite cells_app, cbr_cells_rk, cbr_cells_ck. reflexivity. Qed.

  Lemma cbr_drop_inp : drop_cols RK inp = Some (rs_ct A).
  Proof. unfold drop_cols. rewrite (proj2 (subset_spec RK (cols inp))) by (intros c Hc; apply in_app_iff; left; exact Hc).
    cbn [cols rows inp]. rewrite filter_app_disjoint_l by (intros c Hc Hr; exact (sf_rk_cc A FA c Hr Hc)).
    rewrite map_map. rewrite (map_ext_in _ (fun cr => cr)).
    - rewrite map_id. unfold CC, ctrows. destruct (rs_ct A); reflexivity.
    - intros cr Hcr. apply drop_row; [intros c Hc Hr; exact (sf_rk_cc A FA c Hr Hc)|apply cbr_rkrow_len|apply (sf_rows_len A FA); exact Hcr]. Qed.

  Theorem compose_blocks_rows_ok : exists c, compose "" s2 s1 = CMap c /\ composite_ok (Some A) None c = true.
  Proof.
    destruct (compose_blocks_rows A B inp HA HB SR cbr_complete) as [y [z [zc [T1 [T2 [T3 [PC EQ]]]]]]].
    destruct (roundtrip_blocks A inp HA cbr_complete) as [X1 [B1 [E1 [PX [_ [E2 EQ1]]]]]].
    assert (Sub : subset (block_columns A) (cols inp) = true) by (apply subset_spec; intros c Hc; exact Hc).
    rewrite transform_blocks_to_rows in T3 by exact Sub. rewrite E1 in T3. apply Ok_inj in T3. subst zc.
    destruct (same_records_facts A B SR) as [RKe CKe].
    (* the result has fewer than two rows, and carries the record keys *)
    assert (LX : (List.length (rows X1) < 2)%nat).
    { destruct (rows X1) as [|x1 l1] eqn:EX; [simpl; lia|].
      assert (NE : rows X1 <> []) by (rewrite EX; discriminate).
      pose proof (r2b_row_count A X1 B1 E2 NE) as CNT.
      destruct EQ1 as [_ PR1]. apply Permutation_length in PR1. simpl in PR1. rewrite !map_length in PR1.
      fold ctrows in CNT. rewrite PR1 in CNT. pose proof (sf_two_rows A FA) as L2. fold ctrows in L2. rewrite EX in CNT. simpl in CNT.
      destruct l1; [simpl; lia|]. simpl in CNT. nia. }
    assert (Lz : (List.length (rows z) < 2)%nat).
    { destruct EQ as [_ PR]. apply Permutation_length in PR. simpl in PR. rewrite !map_length in PR. rewrite PR. exact LX. }
    assert (Subz : subset RK (cols z) = true).
    { apply subset_spec. intros c Hc. apply (Permutation_in _ PC). apply (Permutation_in _ (Permutation_sym PX)). apply In_rc. left. exact Hc. }
    exists (mkmap (Some A) None true). split.
    - unfold compose. unfold s1 at 1, s2 at 1. cbn [map_record_keys rm_in rm_out].
      assert (SE : set_eqb (rs_keys A) (rs_keys B) = true).
      { unfold set_eqb. rewrite (proj2 (subset_spec _ _)) by (intros c Hc; apply RKe; exact Hc).
        rewrite (proj2 (subset_spec _ _)) by (intros c Hc; apply RKe; exact Hc). reflexivity. }
      rewrite SE. cbn [negb]. rewrite cbr_example. fold s1 in T1. fold s2 in T2. rewrite T1. cbn [res_bind]. rewrite T2.
      fold RK. rewrite cbr_drop_inp. unfold drop_cols at 1. rewrite Subz.
      unfold s1, s2. cbn [rm_strict rm_in rm_out andb].
      assert (L1 : Nat.ltb (List.length (rows inp)) 2 = false).
      { apply Nat.ltb_ge. cbn [rows inp]. rewrite map_length. apply (sf_two_rows A FA). }
      rewrite L1. assert (L2 : Nat.ltb (List.length (rows z)) 2 = true) by (apply Nat.ltb_lt; exact Lz). rewrite L2.
      fold RK CK. unfold RK, CK. rewrite (strict_spec_mk_spec A HA). rewrite (mk_map_blocks_to_rows A FA). reflexivity.
    - unfold composite_ok. cbn [rm_in rm_out rm_strict]. rewrite spec_eqb_refl. reflexivity.
  Qed.
End ComposeBlocksRows.

Theorem compose_sound_blocks_rows_full A B t :
  strict_spec A = true -> strict_spec B = true -> same_records A B = true -> complete_blocks A t = true ->
  exists c y z zc, compose "" (mkmap (Some B) None true) (mkmap (Some A) (Some B) true) = CMap c /\
    transform (mkmap (Some A) (Some B) true) t = Ok y /\ transform (mkmap (Some B) None true) y = Ok z /\
    transform c t = Ok zc /\ Permutation (cols zc) (cols z) /\ tbl_eqv z (select_cols (row_columns B) zc).
Proof. intros HA HB SR CT. destruct (compose_blocks_rows_ok A B HA HB SR) as [c [E OK]].
  destruct (compose_sound_blocks_rows "" A B t c HA HB SR CT E OK) as [y [z [zc [T1 [T2 [T3 [P EQ]]]]]]].
  exists c, y, z, zc. repeat (split; [assumption|]). assumption. Qed.

(* ------------------------------------------------------------------ compose on A -> B -> C *)
Lemma get_map2 {K} (f : K -> string) (g : K -> val) (l : list K) c0 :
  NoDup (map f l) -> In c0 l -> get (map f l) (map g l) (f c0) = g c0.
Proof. induction l as [|x t IH]; intros N I; [destruct I|]. simpl in N. inversion N as [|? ? Hx Nt]; subst.
  unfold get. simpl. destruct (eq_dec (f c0) (f x)) as [e|ne].
  - simpl. destruct I as [<-|I]; [reflexivity|]. exfalso. apply Hx. rewrite <- e. apply in_map. exact I.
  - destruct I as [<-|I]; [congruence|]. specialize (IH Nt I). unfold get in IH.
    destruct (index_of (f c0) (map f t)) as [j|]; simpl; exact IH. Qed.

Section ComposeBlocksBlocks.
  Variables A B C : recspec.
  Hypothesis HA : strict_spec A = true.
  Hypothesis HB : strict_spec B = true.
  Hypothesis HC : strict_spec C = true.
  Hypothesis SAB : same_records A B = true.
  Hypothesis SBC : same_records B C = true.
  Hypothesis ERK : rs_keys A = rs_keys C.
  Let FA := strict_spec_facts A HA.
  Let FB := strict_spec_facts B HB.
  Let FC := strict_spec_facts C HC.
  Let RK := rs_keys A. Let CK := rs_ctkeys A. Let CC := cols (rs_ct A). Let VC := value_cols A. Let ctrows := rows (rs_ct A).
  Let bc := block_columns A.
  Let rkrow : list val := map (fun k => VStr (k ++ " record key")%string) RK.
  Let inp : table := mktable (RK ++ CC) (map (fun cr => rkrow ++ cr) ctrows).
  Let s1 := mkmap (Some A) (Some B) true.
  Let s2 := mkmap (Some B) (Some C) true.

  (* the example as row records: the one row blocks_to_rowrecs A makes of it *)
  Lemma cbb_rows_form : exists X1, blocks_to_rowrecs A inp = Ok X1 /\ Permutation (cols X1) (row_columns A) /\
    keyed_by RK X1 = true /\
    exists x, rows X1 = [x] /\ cells (cols X1) x RK = rkrow /\
      forall cr n, In cr ctrows -> In n (nm A cr) -> get (cols X1) x n = VStr n.
  Proof.
    assert (Lrk : List.length rkrow = List.length RK) by apply map_length.
    assert (Nbc : NoDup bc) by (apply block_columns_nodup; exact FA).
    assert (Lrow : forall cr, In cr ctrows -> List.length (rkrow ++ cr) = List.length bc).
    { intros cr Hcr. unfold bc, block_columns. rewrite !app_length, Lrk. f_equal. apply (sf_rows_len A FA). exact Hcr. }
    destruct (b2r_char A FA unit (fun _ => rkrow) (fun _ cr => cells bc (rkrow ++ cr) VC) (fun _ cr => rkrow ++ cr) [tt] inp)
      as [G [rows' [HG [EB HP]]]].
    - cbn [flat_map]. rewrite app_nil_r. cbn [rows select_cols cols inp]. rewrite map_map. fold bc.
      apply Permutation_refl'. apply map_ext_in. intros cr Hcr. apply cells_self; [apply Lrow; exact Hcr|exact Nbc].
    - discriminate.
    - cbn [map]. constructor; [intros []|constructor].
    - intros x _. apply (cbr_rkrow_ok A).
    - intros x _. exact Lrk.
    - intros x cr _ Hcr. apply (cbr_cells_rk A HA).
    - intros x cr _ Hcr. apply (cbr_cells_ck A HA).
    - reflexivity.
    - cbn [map] in HP. apply Permutation_sym in HP. apply Permutation_length_1_inv in HP.
      set (V := fun cr => cells bc (rkrow ++ cr) VC) in *.
      assert (LV : forall cr, In cr G -> List.length (V cr) = List.length (nm A cr)) by (intros; unfold V; rewrite cells_length, nm_length; reflexivity).
      exists (mktable (rs_keys A ++ List.concat (map (nm A) G)) rows'). split; [exact EB|]. split; [apply (rowrec_cols_perm A FA G HG)|].
      subst rows'. split.
      + apply keyed_by_facts. constructor.
        * intros c Hc. cbn [cols]. apply in_app_iff. left. exact Hc.
        * intros r [<-|[]]. cbn [cols]. unfold RK. rewrite (rowrec_rk A FA G rkrow V Lrk). apply (cbr_rkrow_ok A).
        * cbn [rows map]. constructor; [intros []|constructor].
      + eexists. split; [reflexivity|]. cbn [cols]. split; [unfold RK; apply (rowrec_rk A FA G rkrow V Lrk)|].
        intros cr n Hcr Hn. rewrite (rowrec_get A FA G HG rkrow V Lrk LV cr n Hcr Hn).
        unfold V, bc, block_columns. rewrite cells_app_r; [|intros c Hc Hr; apply value_cols_In in Hc; exact (sf_rk_cc A FA c Hr (proj1 Hc))|exact Lrk].
        unfold nm in Hn |- *. apply in_map_iff in Hn. destruct Hn as [c0 [<- Hc0]].
        unfold cells, VC. rewrite (get_map2 (fun c => val_str (get (cols (rs_ct A)) cr c)) (get (cols (rs_ct A)) cr) (value_cols A) c0);
          [|apply (nm_NoDup A cr FA Hcr)|exact Hc0].
        apply value_cols_In in Hc0. destruct Hc0 as [a b].
        rewrite <- (cbr_cell_str A HA cr c0 Hcr a b). rewrite append_nil_r. reflexivity.
  Qed.

  Theorem compose_blocks_blocks_ok : exists c, compose "" s2 s1 = CMap c /\ composite_ok (Some A) (Some C) c = true.
  Proof.
    destruct cbb_rows_form as [X1 [E1 [PX [KX [x [EX [Xrk Xget]]]]]]].
    destruct (same_records_facts A B SAB) as [RKab CKab]. destruct (same_records_facts B C SBC) as [RKbc CKbc].
    assert (Sub : subset (block_columns A) (cols inp) = true) by (apply subset_spec; intros c Hc; exact Hc).
    assert (CB : conforming_rows B X1 = true).
    { unfold conforming_rows. apply andb_true_iff. split.
      - apply keyed_by_facts. apply (keyed_facts_perm_keys (rs_keys A)); [apply keyed_by_facts; exact KX|]. intros c. symmetry. apply RKab.
      - apply (perm_subset _ _ _ PX). intros c Hc. apply In_rc. apply In_rc in Hc.
        destruct Hc as [Hc|Hc]; [left; apply RKab; exact Hc|right; apply CKab; exact Hc]. }
    (* rowrecs_to_blocks C on the row form, explicitly *)
    assert (KC : keyed_facts (rs_keys C) X1) by (rewrite <- ERK; apply keyed_by_facts; exact KX).
    assert (NEX : rows X1 <> []) by (rewrite EX; discriminate).
    pose proof (r2b_unfold C X1 NEX (is_keyed_select_ok C X1 KC)) as EZ0.
    set (Z0 := mktable (r2b_cols C) _) in EZ0.
    assert (P0 : Permutation (rows Z0) (map (fun cr => rkrow ++ hrow C cr) (rows (rs_ct C)))).
    { unfold Z0. cbn [rows]. etransitivity; [apply sort_rows_perm|]. rewrite r2b_rows_direct. unfold ct_layout. rewrite flat_map_map.
      rewrite EX. cbn [map fst snd]. rewrite flat_map_singleton. apply Permutation_refl'. apply map_ext_in. intros cr Hcr.
      rewrite <- ERK. fold RK. rewrite Xrk. fold (kap C cr). fold (nm C cr). unfold hrow. f_equal. f_equal.
      unfold cells. apply map_ext_in. intros n Hn.
      (* a name of C is a name of A: it sits in some control row of A *)
      assert (InA : In n (cnames A)).
      { rewrite <- (content_keys_cnames A FA). apply CKab. apply CKbc. rewrite (content_keys_cnames C FC). eapply nm_In_cnames; eassumption. }
      apply (Permutation_in _ (cnames_perm A)) in InA. apply in_flat_map in InA. destruct InA as [crA [HcrA HnA]].
      apply (Xget crA n HcrA HnA). }
    destruct (through_blocks_and_back B C X1 HB FC SBC CB Z0 EZ0) as [Y [X2 [Z2 [F1 [PY [F2 [F3 [Ec Pr]]]]]]]].
    assert (T1 : transform s1 inp = Ok Y).
    { unfold s1. rewrite transform_blocks_to_blocks by exact Sub. rewrite E1. exact F1. }
    assert (T2 : transform s2 Y = Ok Z2).
    { unfold s2. rewrite transform_blocks_to_blocks by (apply (perm_subset _ _ _ PY); auto). rewrite F2. exact F3. }
    set (rest := rs_ctkeys C ++ value_cols C).
    assert (Drest : forall c, In c rest -> ~ In c RK).
    { intros c Hc Hr. unfold RK in Hr. rewrite ERK in Hr. unfold rest in Hc. apply in_app_iff in Hc. destruct Hc as [Hc|Hc].
      - exact (sf_rk_ck C FC c Hr Hc).
      - apply value_cols_In in Hc. exact (sf_rk_cc C FC c Hr (proj1 Hc)). }
    assert (EcZ : cols Z2 = RK ++ rest) by (rewrite Ec; unfold Z0, r2b_cols, rest, RK; cbn [cols]; rewrite ERK; reflexivity).
    set (dropf := fun r : list val => map snd (filter (fun cv : string * val => negb (mem (fst cv) RK)) (combine (cols Z2) r))).
    set (rso := mktable (filter (fun c => negb (mem c RK)) (cols Z2)) (map dropf (rows Z2))).
    assert (D2 : drop_cols RK Z2 = Some rso).
    { unfold drop_cols. rewrite (proj2 (subset_spec RK (cols Z2))); [reflexivity|]. intros c Hc. rewrite EcZ. apply in_app_iff. left. exact Hc. }
    assert (Lrk : List.length rkrow = List.length RK) by apply map_length.
    assert (Hcols : cols rso = rs_ctkeys C ++ value_cols C).
    { unfold rso. cbn [cols]. rewrite EcZ. apply filter_app_disjoint_l. exact Drest. }
    assert (Hrows : Permutation (rows rso) (map (hrow C) (rows (rs_ct C)))).
    { unfold rso. cbn [rows]. etransitivity; [apply Permutation_map; etransitivity; [exact Pr|exact P0]|]. rewrite map_map.
      apply Permutation_refl'. apply map_ext. intros cr. unfold dropf. rewrite EcZ. apply drop_row.
      - exact Drest.
      - exact Lrk.
      - unfold hrow, rest, kap. rewrite !app_length, cells_length, map_length, nm_length. reflexivity. }
    assert (Nrk : NoDup RK) by apply (sf_rk_nodup A FA).
    assert (Erk : forall c, In c RK <-> In c (rs_keys C)) by (intros c; unfold RK; rewrite ERK; reflexivity).
    pose proof (ls_mk_spec C HC RK rso Hcols Hrows Erk) as MS.
    pose proof (ls_strict C HC RK rso Hcols Hrows Nrk Erk) as SS.
    pose proof (ls_sim C HC RK rso Hcols Hrows ERK) as SIM.
    pose proof (ls_cnames C RK rso Hcols Hrows) as CN.
    set (so := mkspec RK rso (rs_ctkeys C) true) in *.
    pose proof (strict_spec_facts so SS) as Fso.
    assert (SRso : same_records A so = true).
    { unfold same_records, set_eqb. rewrite !andb_true_iff. repeat split; apply subset_spec; intros c Hc; try exact Hc.
      - rewrite (content_keys_cnames so Fso). apply (Permutation_in _ (Permutation_sym CN)).
        rewrite <- (content_keys_cnames C FC). apply CKbc. apply CKab. exact Hc.
      - apply CKab. apply CKbc. rewrite (content_keys_cnames C FC). apply (Permutation_in _ CN). rewrite <- (content_keys_cnames so Fso). exact Hc. }
    exists (mkmap (Some A) (Some so) true). split.
    - unfold s1, s2 in *. unfold compose. cbn [map_record_keys rm_in rm_out].
      assert (SE : set_eqb (rs_keys A) (rs_keys B) = true).
      { unfold set_eqb. rewrite (proj2 (subset_spec _ _)) by (intros c Hc; apply RKab; exact Hc).
        rewrite (proj2 (subset_spec _ _)) by (intros c Hc; apply RKab; exact Hc). reflexivity. }
      pose proof (cbr_example A B HA) as EXI. pose proof (cbr_drop_inp A HA) as DI.
      fold RK CC ctrows rkrow inp in EXI, DI.
      rewrite SE. cbn [negb]. rewrite EXI. rewrite T1. cbn [res_bind]. rewrite T2.
      fold RK. rewrite DI. rewrite D2.
      cbn [rm_strict rm_in rm_out andb].
      assert (L1 : Nat.ltb (List.length (rows inp)) 2 = false).
      { apply Nat.ltb_ge. cbn [rows inp]. rewrite map_length. apply (sf_two_rows A FA). }
      rewrite L1.
      assert (L2 : Nat.ltb (List.length (rows Z2)) 2 = false).
      { apply Nat.ltb_ge. rewrite (Permutation_length Pr), (Permutation_length P0), map_length. apply (sf_two_rows C FC). }
      rewrite L2. unfold RK. rewrite (strict_spec_mk_spec A HA). fold RK. rewrite MS.
      rewrite (mk_map_blocks_to_blocks A so FA Fso SRso). reflexivity.
    - unfold composite_ok. cbn [rm_in rm_out rm_strict]. rewrite spec_eqb_refl, SS, SIM. reflexivity.
  Qed.
End ComposeBlocksBlocks.

Theorem compose_sound_blocks_blocks_full A B C t :
  strict_spec A = true -> strict_spec B = true -> strict_spec C = true ->
  same_records A B = true -> same_records B C = true -> rs_keys A = rs_keys C -> complete_blocks A t = true ->
  exists c y z zc, compose "" (mkmap (Some B) (Some C) true) (mkmap (Some A) (Some B) true) = CMap c /\
    transform (mkmap (Some A) (Some B) true) t = Ok y /\ transform (mkmap (Some B) (Some C) true) y = Ok z /\
    transform c t = Ok zc /\ tbl_eqv zc z.
Proof. intros HA HB HC SAB SBC ERK CT. destruct (compose_blocks_blocks_ok A B C HA HB HC SAB SBC ERK) as [c [E OK]].
  destruct (compose_sound_blocks_blocks "" A B C t c HA HB HC SAB SBC CT E OK) as [y [z [zc [T1 [T2 [T3 EQ]]]]]].
  exists c, y, z, zc. repeat (split; [assumption|]). assumption. Qed.
