(* C07 -- proofs about Model/Compose.v, part 4: when act_on accepts; witnesses showing that the hypotheses of the main
   theorems are needed, and that the forwarding of the tree before the C07 fixes breaks the property. *)
From Coq Require Import List Bool Arith String QArith Lia Setoid.
Import ListNotations.
From DA Require Import Base.PyRT Base.Val Model.Sem Proofs.SemBasicP Model.Compose Proofs.ComposeP Proofs.ComposeP2 Proofs.ComposeP3.
Local Open Scope string_scope.
Local Open Scope list_scope.

(* a >> b on a single-table pipeline b is defined exactly when b's tables are consistent and the column SETS agree *)
Lemma rshift_accepts_iff k a b cs :
  only_table k b -> dict_get (leaves b) k = Some cs ->
  rshift a b = if tables_consistent (leaves b) && set_eqb (column_names a) cs then Some (compose_at k a b) else None.
Proof.
  intros O D. unfold rshift. rewrite (act_on_single k b a O), D. unfold compose_at.
  destruct (tables_consistent (leaves b)); [|reflexivity]. destruct (set_eqb (column_names a) cs); reflexivity.
Qed.

(* ---------------------------------------------------------------- witnesses *)
Definition q (n : Z) : val := VNum (Qred (n # 1)).
Definition t_d : table := mktable ["x"; "g"] [[q 1; q 1]; [q 2; q 1]; [q 3; q 2]].
Definition env_d : env := [("d", t_d)].
Definition a_ext : op := OExtend (OTable "d" ["x"; "g"]) [("y", EOp "+" [ECol "x"; EConst (q 1)])] false (mkwin [] [] []).

(* 1. the boundary condition cannot be dropped: the replacement brings one column more than the leaf declares *)
Definition b_narrow : op := OSelectRows (OTable "e" ["x"; "g"]) (EOp ">" [ECol "x"; EConst (q 1)]).
Lemma boundary_needed :
  built_ok b_narrow = true /\
  sem_gen fl_spec (replace_leaves [("e", a_ext)] b_narrow) env_d <> sem_gen fl_spec b_narrow (override fl_spec env_d [("e", a_ext)]).
Proof. split; [reflexivity|]. vm_compute. discriminate. Qed.

(* 2. equal column SETS (all that act_on and DataOpArrow.act_on test) do not give equal tables: the column order of
      the composed pipeline is the replacement's, the column order of sequential application is the leaf's *)
Definition a_swapped : op := OSelectCols (OTable "d" ["x"; "g"]) ["g"; "x"].
Definition b_keep : op := OSelectRows (OTable "e" ["x"; "g"]) (EOp ">" [ECol "x"; EConst (q 1)]).
Lemma set_boundary_column_order :
  exists c, rshift a_swapped b_keep = Some c /\
            sem_gen fl_spec c env_d <> sem_gen fl_spec b_keep (env_set env_d "e" (sem_gen fl_spec a_swapped env_d)).
Proof. eexists. split; [vm_compute; reflexivity|]. vm_compute. discriminate. Qed.

(* 3. before the fix MapColumnsNode.replace_leaves forwarded only the remapping: the composed pipeline keeps column g *)
Definition b_mapdel : op := OMapCols (OTable "e" ["x"; "g"; "y"]) [("xx", "x")] ["g"].
Lemma map_columns_before_fix :
  built_ok b_mapdel = true /\ boundary_ok [("e", a_ext)] b_mapdel = true /\
  sem_gen fl_spec (replace_leaves_with fw_before_fixes [("e", a_ext)] b_mapdel) env_d
    <> sem_gen fl_spec b_mapdel (override fl_spec env_d [("e", a_ext)]).
Proof. split; [reflexivity|]. split; [reflexivity|]. vm_compute. discriminate. Qed.

(* 4. before the fix ExtendNode.replace_leaves forwarded partition_by=[] for a node built with partition_by=1: the
      rebuilt node is no longer windowed, and `_size()` is not evaluated over the whole table any more *)
Definition b_size1 : op := OExtend (OTable "e" ["x"; "g"; "y"]) [("n", EOp "_size" [])] true (mkwin [] [] []).
Lemma extend_partition_one_before_fix :
  built_ok b_size1 = true /\ boundary_ok [("e", a_ext)] b_size1 = true /\
  sem_gen fl_spec (replace_leaves_with fw_before_fixes [("e", a_ext)] b_size1) env_d
    <> sem_gen fl_spec b_size1 (override fl_spec env_d [("e", a_ext)]).
Proof. split; [reflexivity|]. split; [reflexivity|]. vm_compute. discriminate. Qed.

(* the same two inputs satisfy the property with the forwarding of the fixed code (instances of replace_leaves_sem) *)
Lemma map_columns_after_fix :
  sem_gen fl_spec (replace_leaves [("e", a_ext)] b_mapdel) env_d = sem_gen fl_spec b_mapdel (override fl_spec env_d [("e", a_ext)]).
Proof. apply replace_leaves_sem; reflexivity. Qed.
Lemma extend_partition_one_after_fix :
  sem_gen fl_spec (replace_leaves [("e", a_ext)] b_size1) env_d = sem_gen fl_spec b_size1 (override fl_spec env_d [("e", a_ext)]).
Proof. apply replace_leaves_sem; reflexivity. Qed.

(* ---------------------------------------------------------------- non-vacuity instances *)
Definition b_win : op :=
  OOrder (OExtend (OSelectRows (OTable "e" ["x"; "g"; "y"]) (EOp ">" [ECol "x"; EConst (q 0)]))
                  [("c", EOp "cumsum" [ECol "y"])] true (mkwin ["g"] ["x"] ["x"]))
         ["x"] ["x"] (Some 2%nat).
Definition c_join : op :=
  OJoin (OTable "f" ["x"; "g"; "y"; "c"]) (OProject (OTable "f" ["x"; "g"; "y"; "c"]) [("m", EOp "max" [ECol "c"])] ["g"]) ["g"] ["g"] JLeft.

Lemma example_hypotheses :
  built_ok b_win = true /\ leaf_declares "e" (column_names a_ext) b_win = true /\ nodupb (column_names a_ext) = true /\
  built_ok c_join = true /\ leaf_declares "f" (column_names (compose_at "e" a_ext b_win)) c_join = true /\
  (exists t, sem_gen fl_spec (compose_at "f" (compose_at "e" a_ext b_win) c_join) env_d = Some t /\ List.length (rows t) = 2%nat).
Proof. repeat split; try reflexivity. eexists. split; [vm_compute; reflexivity|reflexivity]. Qed.

Lemma example_arrows :
  exists a b c, data_op_arrow a_ext None = Some a /\ data_op_arrow b_win None = Some b /\ arrow_rshift a b = Some c /\
                dom c = ["x"; "g"] /\ cod c = ["c"; "g"; "x"; "y"] /\ column_names a_ext = a_incoming b.
Proof. eexists. eexists. eexists. repeat split; vm_compute; reflexivity. Qed.

Lemma example_rshift_assoc :
  only_table "e" b_win /\ only_table "f" c_join /\ leaves_nodup b_win = true /\
  exists r, obind (rshift a_ext b_win) (fun ab => rshift ab c_join) = Some r.
Proof.
  split; [intros n [<-|[]]; reflexivity|]. split; [intros n [<-|[<-|[]]]; reflexivity|]. split; [reflexivity|].
  eexists. vm_compute. reflexivity.
Qed.

(* ---------------------------------------------------------------- statements as used by Props/C07.v *)
Lemma composed_columns m p : built_ok p = true -> boundary_ok m p = true -> column_names (replace_leaves m p) = column_names p.
Proof. intros B1 B2. rewrite (replace_leaves_subst m p B1). apply subst_column_names. exact B2. Qed.

Lemma compose_assoc ka kb a b c : built_ok b = true -> built_ok c = true -> (ka = kb \/ ~ In ka (table_names c)) ->
  compose_at kb (compose_at ka a b) c = compose_at ka a (compose_at kb b c)
  /\ forall fl env, sem_gen fl (compose_at kb (compose_at ka a b) c) env = sem_gen fl (compose_at ka a (compose_at kb b c)) env.
Proof. intros Bb Bc H. pose proof (compose_assoc_tree ka kb a b c Bb Bc H) as E. split; [exact E|]. intros fl env. rewrite E. reflexivity. Qed.

Lemma without_boundary_refuted :
  exists fl m p env, built_ok p = true /\ sem_gen fl (replace_leaves m p) env <> sem_gen fl p (override fl env m).
Proof. exists fl_spec, [("e", a_ext)], b_narrow, env_d. exact boundary_needed. Qed.

Lemma set_boundary_refuted :
  exists fl a b c env, rshift a b = Some c /\ sem_gen fl c env <> sem_gen fl b (env_set env "e" (sem_gen fl a env)).
Proof. destruct set_boundary_column_order as [c [R N]]. exists fl_spec, a_swapped, b_keep, c, env_d. split; assumption. Qed.

Lemma map_columns_before_fix_refuted :
  exists fl m p env, built_ok p = true /\ boundary_ok m p = true /\
  sem_gen fl (replace_leaves_with fw_before_fixes m p) env <> sem_gen fl p (override fl env m).
Proof. exists fl_spec, [("e", a_ext)], b_mapdel, env_d. exact map_columns_before_fix. Qed.

Lemma extend_partition_one_before_fix_refuted :
  exists fl m p env, built_ok p = true /\ boundary_ok m p = true /\
  sem_gen fl (replace_leaves_with fw_before_fixes m p) env <> sem_gen fl p (override fl env m).
Proof. exists fl_spec, [("e", a_ext)], b_size1, env_d. exact extend_partition_one_before_fix. Qed.
