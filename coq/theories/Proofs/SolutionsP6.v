(* C21, part 6: auxiliary facts for last_observed_carried_forward: the latest element of a list, counting with 0/1
   weights, strict monotonicity of counts, set_cell as a map, the row shape of a left join result. *)
From Coq Require Import List Bool Arith ZArith QArith String Lia Permutation Sorted.
Import ListNotations.
From DA Require Import Base.PyRT Base.Val Model.Sem Model.Solutions Proofs.SemBasicP Proofs.SemOrderP
  Proofs.SolutionsP1 Proofs.SolutionsP3 Proofs.SolutionsP4.
Local Open Scope string_scope.
Local Open Scope list_scope.

(* ------------------------------------------------------------------ latest *)
Section Latest.
  Context {A : Type} (le : A -> A -> bool).
  Hypothesis le_total : forall a b, le a b = true \/ le b a = true.
  Hypothesis le_trans : forall a b c, le a b = true -> le b c = true -> le a c = true.
  Let step := (fun (best : option A) (c : A) => match best with None => Some c | Some b => if le b c then Some c else Some b end).

  Lemma latest_acc l : forall b, exists m, fold_left step l (Some b) = Some m /\ (m = b \/ In m l) /\ le b m = true /\ (forall y, In y l -> le y m = true).
  Proof. induction l as [|x l IH]; intros b.
    - exists b. split; [reflexivity|]. split; [left; reflexivity|]. split; [destruct (le_total b b); assumption|]. intros y [].
    - cbn [fold_left step]. destruct (le b x) eqn:E.
      + destruct (IH x) as [m [F [I [L M]]]]. exists m. split; [exact F|]. split; [right; destruct I as [->|I]; [left; reflexivity|right; exact I]|].
        split; [eapply le_trans; eassumption|]. intros y [<-|Iy]; [exact L|apply M, Iy].
      + destruct (IH b) as [m [F [I [L M]]]]. exists m. split; [exact F|]. split; [destruct I as [->|I]; [left; reflexivity|right; right; exact I]|].
        split; [exact L|]. intros y [<-|Iy]; [|apply M, Iy]. destruct (le_total b x) as [H|H]; [congruence|]. eapply le_trans; eassumption. Qed.
  Lemma latest_nil : latest le [] = None.
  Proof. reflexivity. Qed.
  Lemma latest_some l : l <> [] -> exists m, latest le l = Some m /\ In m l /\ (forall y, In y l -> le y m = true).
  Proof. destruct l as [|x l]; [congruence|]. intros _. unfold latest. cbn [fold_left]. destruct (latest_acc l x) as [m [F [I [L M]]]].
    exists m. split; [exact F|]. split; [destruct I as [->|I]; [left; reflexivity|right; exact I]|]. intros y [<-|Iy]; [exact L|apply M, Iy]. Qed.
End Latest.
Lemma latest_map {A B} (f : A -> B) (le : B -> B -> bool) l :
  latest le (map f l) = option_map f (latest (fun a b => le (f a) (f b)) l).
Proof. unfold latest. assert (forall acc, fold_left (fun best c => match best with None => Some c | Some b => if le b c then Some c else Some b end) (map f l) (option_map f acc)
    = option_map f (fold_left (fun best c => match best with None => Some c | Some b => if le (f b) (f c) then Some c else Some b end) l acc)) as G.
  { induction l as [|x l IH]; intros acc; [reflexivity|]. cbn [map fold_left]. rewrite <- IH. f_equal. destruct acc as [b|]; [|reflexivity]. cbn [option_map]. destruct (le (f b) (f x)); reflexivity. }
  apply (G None). Qed.

(* ------------------------------------------------------------------ counting *)
Lemma qsum_indicator {A} (p : A -> bool) (h : A -> Q) l : (forall y, In y l -> h y == if p y then 1 else 0) ->
  qsum (map h l) == inject_Z (Z.of_nat (List.length (filter p l))).
Proof. induction l as [|x l IH]; intros H; [reflexivity|]. cbn [map filter]. rewrite qsum_cons, (H x (or_introl eq_refl)), IH by (intros y I; apply H; right; exact I).
  destruct (p x); cbn [List.length]; [rewrite Nat2Z.inj_succ; unfold Z.succ; rewrite inject_Z_plus; ring|ring]. Qed.
Lemma filter_length_le {A} (p q : A -> bool) l : (forall y, In y l -> p y = true -> q y = true) -> (List.length (filter p l) <= List.length (filter q l))%nat.
Proof. induction l as [|x l IH]; intros H; [apply le_n|]. cbn [filter].
  assert (List.length (filter p l) <= List.length (filter q l))%nat as E by (apply IH; intros y I; apply H; right; exact I).
  pose proof (H x (or_introl eq_refl)) as Hx. destruct (p x), (q x); cbn [List.length]; try lia; try (specialize (Hx eq_refl); discriminate). Qed.
Lemma filter_length_lt {A} (p q : A -> bool) l z : (forall y, In y l -> p y = true -> q y = true) -> In z l -> p z = false -> q z = true ->
  (List.length (filter p l) < List.length (filter q l))%nat.
Proof. induction l as [|x l IH]; intros H I Pz Qz; [destruct I|]. cbn [filter].
  assert (forall y, In y l -> p y = true -> q y = true) as H' by (intros y Iy; apply H; right; exact Iy).
  pose proof (filter_length_le p q l H') as LE. pose proof (H x (or_introl eq_refl)) as Hx.
  destruct I as [->|I].
  - rewrite Pz, Qz. cbn [List.length]. lia.
  - specialize (IH H' I Pz Qz). destruct (p x), (q x); cbn [List.length]; try lia; try (specialize (Hx eq_refl); discriminate). Qed.
Lemma filter_singleton {A} (p : A -> bool) l x : NoDup l -> In x l -> p x = true -> (forall y, In y l -> p y = true -> y = x) -> filter p l = [x].
Proof. induction l as [|a l IH]; intros ND I Px U; [destruct I|]. inversion ND as [|? ? Na ND']; subst. cbn [filter]. destruct I as [->|I].
  - rewrite Px. f_equal. apply filter_none. intros y Iy. destruct (p y) eqn:E; [|reflexivity]. exfalso. apply Na. rewrite <- (U y (or_intror Iy) E). exact Iy.
  - destruct (p a) eqn:E; [exfalso; apply Na; rewrite (U a (or_introl eq_refl) E); exact I|]. apply IH; auto. intros y Iy. apply U. right. exact Iy. Qed.
Lemma existsb_filter {A} (p : A -> bool) l : existsb p l = negb (match filter p l with [] => true | _ => false end).
Proof. induction l as [|x l IH]; [reflexivity|]. cbn [existsb filter]. destruct (p x); [reflexivity|exact IH]. Qed.
Lemma flat_map_if {A B} (p : A -> bool) (g : A -> B) l : flat_map (fun b => if p b then [g b] else []) l = map g (filter p l).
Proof. induction l as [|x l IH]; [reflexivity|]. cbn [flat_map filter]. destruct (p x); cbn [map app]; rewrite IH; reflexivity. Qed.
Lemma perm_flat_map_app {A B} (f g : A -> list B) l : Permutation (flat_map f l ++ flat_map g l) (flat_map (fun a => f a ++ g a) l).
Proof. induction l as [|x l IH]; [constructor|]. cbn [flat_map]. rewrite <- !app_assoc. apply Permutation_app_head.
  eapply perm_trans; [apply Permutation_app_swap_app|]. apply Permutation_app_head, IH. Qed.
Lemma flat_map_single_each {A B} (f : A -> list B) (g : A -> B) l : (forall a, In a l -> f a = [g a]) -> flat_map f l = map g l.
Proof. induction l as [|x l IH]; intros H; [reflexivity|]. cbn [flat_map map]. rewrite (H x (or_introl eq_refl)), IH; [reflexivity|]. intros a I. apply H. right. exact I. Qed.

(* ------------------------------------------------------------------ rows as maps over the column list *)
Lemma get_map (f : string -> val) cs c : In c cs -> get cs (map f cs) c = f c.
Proof. intros I. unfold get. destruct (index_of_In c cs I) as [i E]. rewrite E.
  pose proof (index_of_nth_error _ _ _ E) as N. pose proof (index_of_lt _ _ _ E) as L.
  rewrite (nth_indep _ VNull (f c)) by (rewrite map_length; exact L). rewrite map_nth.
  f_equal. apply nth_error_nth. exact N. Qed.
Lemma set_nth_map (f : string -> val) v : forall cs i c, nth_error cs i = Some c -> NoDup cs ->
  set_nth i v (map f cs) = map (fun x => if String.eqb x c then v else f x) cs.
Proof. induction cs as [|x cs IH]; intros [|i] c E ND; simpl in *; try discriminate; inversion ND as [|? ? Nx ND']; subst.
  - inversion E; subst. rewrite String.eqb_refl. f_equal. apply map_ext_in. intros y Iy.
    destruct (String.eqb_spec y c) as [->|]; [contradiction|reflexivity].
  - assert (x <> c) as N by (intros ->; apply Nx; eapply nth_error_In, E).
    destruct (String.eqb_spec x c); [contradiction|]. f_equal. apply IH; assumption. Qed.
Lemma set_cell_as_map cs r k v : NoDup cs -> List.length r = List.length cs -> In k cs ->
  set_cell cs r k v = map (fun c => if String.eqb c k then v else get cs r c) cs.
Proof. intros ND L I. unfold set_cell. destruct (index_of_In k cs I) as [i E]. rewrite E.
  rewrite <- (map_get_id cs r ND L) at 1. apply set_nth_map; [eapply index_of_nth_error, E|exact ND]. Qed.

(* the two values of the where(0, 1) marker *)
Lemma vnat01_eq fl (b : bool) : truth (compare_vals fl CEq (if b then vnat 0 else vnat 1) (vnat 1)) = negb b.
Proof. destruct b; rewrite !vnat_eq; reflexivity. Qed.
Lemma qn_eqv_nat q1 q2 a b : q1 == inject_Z (Z.of_nat a) -> q2 == inject_Z (Z.of_nat b) -> v_eqv (qn q1) (qn q2) = Nat.eqb a b.
Proof. intros E1 E2. unfold qn, v_eqv, num_of. apply eq_true_iff_eq. rewrite Qeq_bool_iff, Nat.eqb_eq, !Qred_correct, E1, E2.
  unfold Qeq, inject_Z. simpl. lia. Qed.
