(* C12, part 6: one lemma per node class -- evaluating the arguments a node prints and running the builder on them gives the
   node back, for nodes in builder-normal form. *)
From Coq Require Import List Bool String Ascii ZArith NArith QArith Arith Lia.
Import ListNotations.
From DA Require Import Base.PyRT Model.Equiv Gen.G_MergeOps Proofs.EquivP1 Proofs.EquivP2.
From DA Require Import Model.PyExpr Model.ExprPrint Model.ExprParse Model.ExprRoundtrip Model.PipePrintStr Model.PipePrintSyn Model.PipePrint.
From DA Require Import Proofs.ExprParseP14 Proofs.PipePrintP5.
Local Close Scope Q_scope.
Local Open Scope string_scope.
Local Open Scope bool_scope.
Local Open Scope list_scope.

Ltac split_andb :=
  repeat match goal with
         | H : _ && _ = true |- _ => apply andb_true_iff in H; destruct H
         end.

Lemma mapM_app {A B} (f : A -> option B) (l1 l2 : list A) r1 r2 :
  mapM f l1 = Some r1 -> mapM f l2 = Some r2 -> mapM f (l1 ++ l2) = Some (r1 ++ r2).
Proof. revert r1. induction l1 as [|x t IH]; intros r1 H1 H2; simpl in *.
  - inversion H1. exact H2.
  - destruct (f x) as [y|]; [|discriminate]. destruct (mapM f t) as [ys|] eqn:Ft; [|discriminate]. inversion H1; subst.
    rewrite (IH ys eq_refl H2). reflexivity. Qed.
Lemma mapM_as_str l : mapM as_str (map YStr l) = Some l.
Proof. rewrite mapM_map. simpl. apply mapM_Some. Qed.

Lemma strip_trivial_id p : is_trivial p = false -> strip_trivial p = p.
Proof. destruct p; try reflexivity. destruct limit; [reflexivity|discriminate]. Qed.
Lemma strip_select_id p : select_src_ok p = true -> strip_select p = p.
Proof. destruct p; try reflexivity; try discriminate. destruct limit; [reflexivity|discriminate]. Qed.

Lemma str_upper_join_types jt : smem jt join_types = true -> standardize_join_type jt = Some jt.
Proof. unfold smem, join_types. cbn [existsb]. intros H.
  repeat (apply orb_true_iff in H; destruct H as [H|H]); try discriminate;
    apply String.eqb_eq in H; subst jt; reflexivity. Qed.

Lemma map_fst_combine {A B} (a : list A) (b : list B) : List.length a = List.length b -> map fst (combine a b) = a.
Proof. revert b. induction a as [|x t IH]; intros [|y u] L; try discriminate; [reflexivity|]. cbn. f_equal. apply IH. injection L as L. exact L. Qed.
Lemma map_snd_combine {A B} (a : list A) (b : list B) : List.length a = List.length b -> map snd (combine a b) = b.
Proof. revert b. induction a as [|x t IH]; intros [|y u] L; try discriminate; [reflexivity|]. cbn. f_equal. apply IH. injection L as L. exact L. Qed.

Section Builders.
Variable E : penv.
Hypothesis unq : forall s, py_unquote (py_repr (e_np E) s) = Some s.
Hypothesis lexh : forall e, lexable e = true -> (forall m, In m (floats_of e) -> float_lex_ok (e_F E) m) ->
  lexg (e_F E) (expr_text (e_F E) (e_np E) e) = Some (to_python e).

(* the float constants of an expression satisfy the repr / float() assumption *)
Definition px_floats_ok (x : pexpr) : Prop :=
  forall e, to_e x = Some e -> forall m, In m (floats_of e) -> float_lex_ok (e_F E) m.

Lemma parse_px_ok cols x : expr_ok E cols x = true -> px_floats_ok x ->
  exists e, to_e x = Some e /\ parse_px E cols (expr_text (e_F E) (e_np E) e) = Some x.
Proof. unfold expr_ok, px_floats_ok. intros H Fl. destruct (to_e x) as [e|] eqn:Te; [|discriminate]. split_andb.
  exists e. split; [reflexivity|]. unfold parse_px, parse_text. rewrite (lexh e) by (try assumption; apply Fl; reflexivity).
  rewrite (printable_roundtrip (e_cfg E) cols e) by assumption. apply of_to_e; assumption. Qed.

Lemma eval_expr_syn cols x : expr_ok E cols x = true -> px_floats_ok x ->
  exists sx t, expr_syn E x = Some sx /\ eval_syn E sx = Some (YStr t) /\ parse_px E cols t = Some x /\ wf_syn sx = true.
Proof. intros H Fl. destruct (parse_px_ok cols x H Fl) as [e [Te Pe]]. unfold expr_syn. rewrite Te. simpl option_map.
  exists (str_syn E (expr_text (e_F E) (e_np E) e)), (expr_text (e_F E) (e_np E) e).
  repeat split; [apply eval_str; exact unq|exact Pe]. Qed.

(* ---- argument lists *)
Lemma eval_args_cons k x v rest vs :
  eval_syn E x = Some v -> eval_args E rest = Some vs -> eval_args E ((k, x) :: rest) = Some ((k, v) :: vs).
Proof. intros Hx Hr. unfold eval_args in *. cbn [mapM fst snd]. rewrite Hx. simpl option_map. rewrite Hr. reflexivity. Qed.
Lemma eval_args_nil : eval_args E [] = Some [].
Proof. reflexivity. Qed.
Lemma eval_args_app a1 a2 v1 v2 : eval_args E a1 = Some v1 -> eval_args E a2 = Some v2 -> eval_args E (a1 ++ a2) = Some (v1 ++ v2).
Proof. apply mapM_app. Qed.
Lemma eval_opt_arg b k x v : eval_syn E x = Some v -> eval_args E (opt_arg b k x) = Some (if b then [(Some k, v)] else []).
Proof. intros H. destruct b; [|reflexivity]. apply eval_args_cons; [exact H|reflexivity]. Qed.

Lemma wf_strs l : wf_syn (strs_syn E l) = true.
Proof. unfold strs_syn. cbn [wf_syn]. induction l as [|x t IH]; [reflexivity|]. cbn [map forallb]. rewrite IH. reflexivity. Qed.
Lemma wf_str s : wf_syn (str_syn E s) = true.
Proof. reflexivity. Qed.
Lemma wf_sdict (kvs : list (string * syn)) :
  forallb (fun kv => wf_syn (snd kv)) kvs = true -> wf_syn (SDict false (map (fun kv => (str_syn E (fst kv), snd kv)) kvs)) = true.
Proof. intros H. cbn [wf_syn]. rewrite andb_true_r. induction kvs as [|kv t IH]; [reflexivity|]. cbn [map forallb fst snd] in *.
  apply andb_true_iff in H. destruct H as [Ha Ht]. rewrite Ha, (IH Ht). reflexivity. Qed.

(* a dict of printed strings -> printed strings *)
Lemma eval_ssdict (m : list (string * string)) :
  eval_syn E (SDict false (map (fun kv => (str_syn E (fst kv), str_syn E (snd kv))) m))
  = Some (YDict (map (fun kw => (YStr (fst kw), snd kw)) (map (fun kv => (fst kv, YStr (snd kv))) m))).
Proof. replace (map (fun kv : string * string => (str_syn E (fst kv), str_syn E (snd kv))) m)
    with (map (fun kv : string * syn => (str_syn E (fst kv), snd kv)) (map (fun kv : string * string => (fst kv, str_syn E (snd kv))) m))
    by (rewrite map_map; reflexivity).
  apply (eval_sdict E unq). induction m as [|kv t IH]; [constructor|]. cbn [map]. constructor; [|exact IH].
  cbn [fst snd]. split; [reflexivity|apply eval_str; exact unq]. Qed.
Lemma wf_ssdict (m : list (string * string)) :
  wf_syn (SDict false (map (fun kv => (str_syn E (fst kv), str_syn E (snd kv))) m)) = true.
Proof. cbn [wf_syn]. rewrite andb_true_r. induction m as [|kv t IH]; [reflexivity|]. cbn [map forallb fst snd]. rewrite IH. reflexivity. Qed.
Lemma map_fst_pairs {A B} (m : list (string * A)) (f : A -> B) : map fst (map (fun kv => (fst kv, f (snd kv))) m) = map fst m.
Proof. rewrite map_map. reflexivity. Qed.

(* ---- TableDescription *)
Lemma table_ok name cols quals : normal E (ETable name cols quals) = true ->
  exists s, syn_of_op E (ETable name cols quals) = Some s /\ wf_syn s = true /\ eval_syn E s = Some (YOp (ETable name cols quals)).
Proof. cbn [normal]. intros H. split_andb. eexists. split; [reflexivity|]. split.
  - cbn [wf_syn nonempty_path forallb is_const_name smem existsb const_names String.eqb Ascii.eqb Bool.eqb negb andb orb fst snd app].
    rewrite wf_strs. destruct quals as [|q0 qt]; [reflexivity|]. cbn [nonempty opt_arg app forallb snd]. rewrite wf_ssdict. reflexivity.
  - rewrite eval_call.
    assert (Ea : eval_args E ([(Some "table_name", str_syn E name); (Some "column_names", strs_syn E cols)]
                    ++ opt_arg (nonempty quals) "qualifiers" (SDict false (map (fun kv => (str_syn E (fst kv), str_syn E (snd kv))) quals)))
                 = Some ([(Some "table_name", YStr name); (Some "column_names", YList (map YStr cols))]
                    ++ (if nonempty quals then [(Some "qualifiers", YDict (map (fun kw => (YStr (fst kw), snd kw)) (map (fun kv => (fst kv, YStr (snd kv))) quals)))] else []))).
    { apply eval_args_app; [|apply eval_opt_arg, eval_ssdict].
      apply eval_args_cons; [apply eval_str; exact unq|]. apply eval_args_cons; [apply eval_strs; exact unq|reflexivity]. }
    rewrite Ea. clear Ea. unfold call_global. cbn [path_is]. unfold g_table.
    destruct (nonempty quals) eqn:Nq.
    + cbn [app]. cbn [pos_args flat_map fst snd app kws_ok kw_names kwarg]. cbn -[nodups mapM as_sdict cols_ok].
      rewrite mapM_as_str.
      rewrite (as_sdict_distinct (map (fun kv : string * string => (fst kv, YStr (snd kv))) quals))
        by (rewrite map_fst_pairs; apply nodups_NoDup; assumption).
      rewrite mapM_map. cbn [fst snd as_str option_map].
      rewrite (mapM_ext _ (fun kw => Some kw)) by (intros [k v] _; reflexivity). rewrite mapM_Some. rewrite H. reflexivity.
    + destruct quals; [|discriminate Nq]. cbn. rewrite mapM_as_str, H. reflexivity. Qed.

(* ---- the common shape of a method-call node *)
Definition good (p : eop) : Prop :=
  exists s, syn_of_op E p = Some s /\ wf_syn s = true /\ recv_ok s = true /\ eval_syn E s = Some (YOp p).

Lemma table_good name cols quals : normal E (ETable name cols quals) = true -> good (ETable name cols quals).
Proof. intros H. destruct (table_ok name cols quals H) as [s [S1 [S2 S3]]]. exists s. repeat split; try assumption.
  cbn [syn_of_op] in S1. inversion S1. reflexivity. Qed.

Definition wf_args (args : list (option string * syn)) : bool := forallb (fun a => wf_syn (snd a)) args.
Lemma wf_meth_node ss m args : wf_syn ss = true -> recv_ok ss = true -> is_const_name m = false -> wf_args args = true ->
  wf_syn (SMeth ss m args) = true.
Proof. intros W R M A. cbn [wf_syn]. rewrite R, M, W. exact A. Qed.

Lemma meth_good src m args vals node :
  good src -> eval_args E args = Some vals -> wf_args args = true -> is_const_name m = false ->
  call_method_op E src m vals = Some node ->
  forall sn, (forall ss, syn_of_op E src = Some ss -> sn = Some (SMeth ss m args)) -> syn_of_op E node = sn -> good node.
Proof. intros [ss [S1 [S2 [S3 S4]]]] Ea Wa Mc Cm sn Hsn Hn. exists (SMeth ss m args). split; [rewrite Hn; apply Hsn; exact S1|].
  split; [apply wf_meth_node; assumption|]. split; [reflexivity|]. rewrite eval_meth, S4, Ea, Cm. reflexivity. Qed.

Lemma wf_args_app a b : wf_args (a ++ b) = wf_args a && wf_args b.
Proof. apply forallb_app. Qed.
Lemma wf_opt_arg b k x : wf_syn x = true -> wf_args (opt_arg b k x) = true.
Proof. intros H. destruct b; [cbn; rewrite H; reflexivity|reflexivity]. Qed.

(* ---- select_columns *)
Lemma select_cols_good s cs : normal E (ESelectCols s cs) = true -> good s -> good (ESelectCols s cs).
Proof. cbn [normal]. intros H G. split_andb.
  eapply (meth_good s "select_columns" [(None, strs_syn E cs)] [(None, YList (map YStr cs))]); try eassumption; try reflexivity.
  - apply eval_args_cons; [apply eval_strs; exact unq|reflexivity].
  - cbn [wf_args forallb snd]. rewrite wf_strs. reflexivity.
  - change (call_method_op E s "select_columns" [(None, YList (map YStr cs))]) with (b_select_columns s [(None, YList (map YStr cs))]).
    unfold b_select_columns. rewrite as_strs1_list. rewrite strip_select_id by assumption.
    repeat match goal with Hx : _ = true |- _ => rewrite Hx end. reflexivity.
  - intros ss Hs. cbn [syn_of_op]. rewrite Hs. reflexivity. Qed.

(* ---- drop_columns *)
Lemma drop_cols_good s ds : normal E (EDropCols s ds) = true -> good s -> good (EDropCols s ds).
Proof. cbn [normal]. intros H G. split_andb.
  eapply (meth_good s "drop_columns" [(None, strs_syn E ds)] [(None, YList (map YStr ds))]); try eassumption; try reflexivity.
  - apply eval_args_cons; [apply eval_strs; exact unq|reflexivity].
  - cbn [wf_args forallb snd]. rewrite wf_strs. reflexivity.
  - change (call_method_op E s "drop_columns" [(None, YList (map YStr ds))]) with (b_drop_columns s [(None, YList (map YStr ds))]).
    unfold b_drop_columns. rewrite as_strs1_list.
    match goal with Hn : negb (is_trivial s) = true |- _ => apply negb_true_iff in Hn; rewrite (strip_trivial_id s Hn) end.
    destruct ds as [|d0 dt]; [discriminate|].
    repeat match goal with Hx : _ = true |- _ => rewrite Hx end. reflexivity.
  - intros ss Hs. cbn [syn_of_op]. rewrite Hs. reflexivity. Qed.

(* ---- rename_columns *)
Lemma as_sdict_strs (m : list (string * string)) : NoDup (map fst m) ->
  as_sdict (YDict (map (fun kw => (YStr (fst kw), snd kw)) (map (fun kv => (fst kv, YStr (snd kv))) m)))
  = Some (map (fun kv => (fst kv, YStr (snd kv))) m).
Proof. intros N. apply as_sdict_distinct. rewrite map_fst_pairs. exact N. Qed.

Lemma rename_good s m : normal E (ERename s m) = true -> good s -> good (ERename s m).
Proof. cbn [normal]. intros H G. split_andb.
  eapply (meth_good s "rename_columns" [(None, SDict false (map (fun kv => (str_syn E (fst kv), str_syn E (snd kv))) m))]
            [(None, YDict (map (fun kw => (YStr (fst kw), snd kw)) (map (fun kv => (fst kv, YStr (snd kv))) m)))]); try eassumption; try reflexivity.
  - apply eval_args_cons; [apply eval_ssdict|reflexivity].
  - cbn [wf_args forallb snd]. rewrite wf_ssdict. reflexivity.
  - match goal with |- call_method_op E s "rename_columns" ?a = _ => change (call_method_op E s "rename_columns" a) with (b_rename_columns s a) end.
    unfold b_rename_columns. rewrite as_sdict_strs by (apply nodups_NoDup; assumption).
    destruct m as [|m0 mt]; [discriminate|]. remember (m0 :: mt) as mm eqn:Emm.
    assert (Ne : map (fun kv : string * string => (fst kv, YStr (snd kv))) mm <> []) by (subst mm; discriminate).
    destruct (map (fun kv : string * string => (fst kv, YStr (snd kv))) mm) as [|x0 xt] eqn:Em; [contradiction|]. rewrite <- Em.
    rewrite mapM_map. cbn [fst snd as_str option_map].
    rewrite (mapM_ext _ (fun kw => Some kw)) by (intros [k v] _; reflexivity). rewrite mapM_Some.
    match goal with Hn : negb (is_trivial s) = true |- _ => apply negb_true_iff in Hn; rewrite (strip_trivial_id s Hn) end.
    repeat match goal with Hx : _ = true |- _ => rewrite Hx end. reflexivity.
  - intros ss Hs. cbn [syn_of_op]. rewrite Hs. reflexivity. Qed.

(* ---- map_columns *)
Lemma map_cols_good s m dels : normal E (EMapCols s m dels) = true -> good s -> good (EMapCols s m dels).
Proof. cbn [normal]. intros H G. split_andb.
  remember (map (fun kv : string * string => (fst kv, str_syn E (snd kv))) m ++ map (fun k : string => (k, none_syn)) dels) as kvs eqn:Ekvs.
  remember (map (fun kv : string * string => (fst kv, YStr (snd kv))) m ++ map (fun k : string => (k, YNone)) dels) as vs eqn:Evs.
  assert (Eprint : map (fun kv : string * string => (str_syn E (fst kv), str_syn E (snd kv))) m ++ map (fun k : string => (str_syn E k, none_syn)) dels
                   = map (fun kv : string * syn => (str_syn E (fst kv), snd kv)) kvs).
  { subst kvs. rewrite map_app, !map_map. reflexivity. }
  assert (Ev : eval_syn E (SDict false (map (fun kv : string * syn => (str_syn E (fst kv), snd kv)) kvs))
               = Some (YDict (map (fun kw => (YStr (fst kw), snd kw)) vs))).
  { apply (eval_sdict E unq). subst kvs vs. apply Forall2_app.
    - clear - unq. induction m as [|kv t IH]; [constructor|]. cbn [map]. constructor; [|exact IH]. split; [reflexivity|apply eval_str; exact unq].
    - clear. induction dels as [|k t IH]; [constructor|]. cbn [map]. constructor; [|exact IH]. split; reflexivity. }
  assert (Kv : map fst vs = map fst m ++ dels).
  { subst vs. rewrite map_app, !map_map. cbn [fst]. rewrite map_id. reflexivity. }
  assert (Wk : forallb (fun kv : string * syn => wf_syn (snd kv)) kvs = true).
  { subst kvs. rewrite forallb_app.
    apply andb_true_iff. split; apply forallb_forall; intros x Hx; apply in_map_iff in Hx; destruct Hx as [y [<- _]]; reflexivity. }
  assert (Ne : vs <> []).
  { subst vs. destruct m; [|discriminate]. destruct dels; [|discriminate]. discriminate. }
  assert (F1 : forallb (fun kv : string * pyv => match snd kv with YStr _ | YNone => true | _ => false end) vs = true).
  { subst vs. rewrite forallb_app. apply andb_true_iff. split; apply forallb_forall; intros x Hx; apply in_map_iff in Hx; destruct Hx as [y [<- _]]; reflexivity. }
  assert (F2 : flat_map (fun kv : string * pyv => match snd kv with YStr n => [(fst kv, n)] | _ => [] end) vs = m).
  { subst vs. rewrite flat_map_app.
    replace (flat_map (fun kv : string * pyv => match snd kv with YStr n => [(fst kv, n)] | _ => [] end) (map (fun k : string => (k, YNone)) dels)) with (@nil (string * string))
      by (clear; induction dels as [|k t IH]; [reflexivity|exact IH]).
    rewrite app_nil_r. clear. induction m as [|[k v] t IH]; [reflexivity|]. cbn [map flat_map fst snd app]. rewrite IH. reflexivity. }
  assert (F3 : flat_map (fun kv : string * pyv => match snd kv with YNone => [fst kv] | _ => [] end) vs = dels).
  { subst vs. rewrite flat_map_app.
    replace (flat_map (fun kv : string * pyv => match snd kv with YNone => [fst kv] | _ => [] end) (map (fun kv : string * string => (fst kv, YStr (snd kv))) m)) with (@nil string)
      by (clear; induction m as [|k t IH]; [reflexivity|exact IH]).
    cbn [app]. clear. induction dels as [|k t IH]; [reflexivity|]. cbn [map flat_map fst snd app]. rewrite IH. reflexivity. }
  clear Evs Ekvs.
  eapply (meth_good s "map_columns" [(None, SDict false (map (fun kv : string * syn => (str_syn E (fst kv), snd kv)) kvs))]
            [(None, YDict (map (fun kw => (YStr (fst kw), snd kw)) vs))]); try eassumption; try reflexivity.
  - apply eval_args_cons; [exact Ev|reflexivity].
  - cbn [wf_args forallb snd]. rewrite wf_sdict; [reflexivity|exact Wk].
  - match goal with |- call_method_op E s "map_columns" ?a = _ => change (call_method_op E s "map_columns" a) with (b_map_columns s a) end.
    unfold b_map_columns. rewrite as_sdict_distinct by (rewrite Kv; apply nodups_NoDup; assumption).
    destruct vs as [|v0 vt]; [contradiction|].
    rewrite F1, F2, F3, Kv.
    match goal with Hn : negb (is_trivial s) = true |- _ => apply negb_true_iff in Hn; rewrite (strip_trivial_id s Hn) end.
    repeat match goal with Hx : _ = true |- _ => rewrite Hx end. reflexivity.
  - intros ss Hs. cbn [syn_of_op]. rewrite Hs, Eprint. reflexivity. Qed.

(* ---- order_rows *)
Lemma order_good s cs rev limit : normal E (EOrder s cs rev limit) = true -> good s -> good (EOrder s cs rev limit).
Proof. cbn [normal]. intros H G. split_andb.
  set (A := [(None : option string, YList (map YStr cs))] ++ (if nonempty rev then [(Some "reverse", YList (map YStr rev))] else [])
               ++ match limit with Some n => [(Some "limit", YInt (N.of_nat n))] | None => [] end).
  assert (P1 : pos_args A = [YList (map YStr cs)]) by (unfold A; destruct rev, limit; reflexivity).
  assert (P2 : kws_ok ["reverse"; "limit"] A = true) by (unfold A; destruct rev, limit; reflexivity).
  assert (P3 : match kwarg "reverse" A with None | Some YNone => Some [] | Some r => as_strs1 r end = Some rev).
  { unfold A; destruct rev as [|r0 rt], limit; try reflexivity; cbn [nonempty app kwarg fst snd String.eqb Ascii.eqb Bool.eqb];
      exact (as_strs1_list (r0 :: rt)). }
  assert (P4 : as_limit (kwarg "limit" A) = Some limit).
  { unfold A; destruct rev as [|r0 rt], limit; cbn; rewrite ?Nnat.Nat2N.id; reflexivity. }
  eapply (meth_good s "order_rows"
            ([(None, strs_syn E cs)] ++ opt_arg (nonempty rev) "reverse" (strs_syn E rev)
               ++ match limit with Some n => [(Some "limit", SAtom (TkInt (N.of_nat n)))] | None => [] end) A); try eassumption; try reflexivity.
  - unfold A. apply eval_args_app; [apply eval_args_cons; [apply eval_strs; exact unq|reflexivity]|].
    apply eval_args_app; [apply eval_opt_arg, eval_strs; exact unq|]. destruct limit; reflexivity.
  - rewrite !wf_args_app. cbn [wf_args forallb snd]. rewrite wf_strs, wf_opt_arg by apply wf_strs. destruct limit; reflexivity.
  - change (call_method_op E s "order_rows" A) with (b_order_rows s A).
    match goal with Hn : negb (is_trivial s) = true |- _ => apply negb_true_iff in Hn; pose proof (strip_trivial_id s Hn) as St end.
    unfold b_order_rows. rewrite P1, P2, as_strs1_list, P3, P4, St.
    match goal with Hx : nonempty cs || _ = true |- _ =>
      destruct (nonempty cs); [cbn [negb andb]|destruct limit; [cbn [negb andb]|discriminate Hx]] end;
    repeat match goal with Hx : _ = true |- _ => rewrite Hx end; reflexivity.
  - intros ss Hs. cbn [syn_of_op]. rewrite Hs. reflexivity. Qed.

(* ---- natural_join *)
Definition on_val (ab : string * string) : pyv :=
  if String.eqb (fst ab) (snd ab) then YStr (fst ab) else YTuple [YStr (fst ab); YStr (snd ab)].
Lemma eval_on_syn oa ob : eval_syn E (on_syn E oa ob) = Some (YList (map on_val (combine oa ob))).
Proof. unfold on_syn. rewrite eval_list, mapM_map.
  rewrite (mapM_ext _ (fun ab => Some (on_val ab))); [rewrite mapM_some_map; reflexivity|].
  intros [a b] _. unfold on_val. cbn [fst snd]. destruct (String.eqb a b); [apply eval_str; exact unq|].
  rewrite eval_tuple. cbn [mapM]. rewrite !eval_str by exact unq. reflexivity. Qed.
Lemma wf_on_syn oa ob : wf_syn (on_syn E oa ob) = true.
Proof. unfold on_syn. cbn [wf_syn]. apply forallb_forall. intros x Hx. apply in_map_iff in Hx. destruct Hx as [[a b] [<- _]].
  cbn [fst snd]. destruct (String.eqb a b); reflexivity. Qed.
Lemma on_lists_val oa ob : List.length oa = List.length ob ->
  on_lists (Some (YList (map on_val (combine oa ob)))) = Some (oa, ob).
Proof. intros L. cbn [on_lists]. rewrite mapM_map.
  assert (M : mapM (fun ab : string * string =>
                 match on_val ab with
                 | YStr s => Some (s, s)
                 | YTuple [YStr x; YStr y] | YList [YStr x; YStr y] => Some (x, y)
                 | _ => None
                 end) (combine oa ob) = Some (combine oa ob)).
  { rewrite (mapM_ext _ (fun ab => Some ab)); [apply mapM_Some|]. intros [a b] _. unfold on_val. cbn [fst snd].
    destruct (String.eqb a b) eqn:Eab; [apply String.eqb_eq in Eab; subst b; reflexivity|reflexivity]. }
  rewrite M. cbn [option_map]. rewrite (map_fst_combine oa ob L), (map_snd_combine oa ob L). reflexivity. Qed.

Lemma join_good a b oa ob jt : normal E (EJoin a b oa ob jt) = true -> good a -> good b -> good (EJoin a b oa ob jt).
Proof. cbn [normal]. intros H Ga Gb. split_andb. destruct Gb as [sb [B1 [B2 [B3 B4]]]].
  set (A := [(Some "b", YOp b); (Some "on", YList (map on_val (combine oa ob))); (Some "jointype", YStr jt)]).
  eapply (meth_good a "natural_join" [(Some "b", sb); (Some "on", on_syn E oa ob); (Some "jointype", str_syn E jt)] A); try eassumption; try reflexivity.
  - unfold A. apply eval_args_cons; [exact B4|]. apply eval_args_cons; [apply eval_on_syn|]. apply eval_args_cons; [apply eval_str; exact unq|reflexivity].
  - cbn [wf_args forallb snd]. rewrite B2, wf_on_syn. reflexivity.
  - change (call_method_op E a "natural_join" A) with (b_natural_join a A). unfold b_natural_join.
    change (pos_args A) with (@nil pyv). change (kws_ok ["b"; "on"; "jointype"] A) with true.
    change (kwarg "b" A) with (Some (YOp b)). change (kwarg "jointype" A) with (Some (YStr jt)).
    change (kwarg "on" A) with (Some (YList (map on_val (combine oa ob)))).
    rewrite on_lists_val by (apply Nat.eqb_eq; assumption). rewrite str_upper_join_types by assumption.
    match goal with Hn : negb (is_trivial a) = true |- _ => apply negb_true_iff in Hn; rewrite (strip_trivial_id a Hn) end.
    repeat match goal with Hx : _ = true |- _ => rewrite Hx end. reflexivity.
  - intros ss Hs. cbn [syn_of_op]. rewrite B1, Hs. reflexivity. Qed.

(* ---- concat_rows *)
Lemma concat_good a b idc an bn : normal E (EConcat a b idc an bn) = true -> good a -> good b -> good (EConcat a b idc an bn).
Proof. cbn [normal]. intros H Ga Gb. split_andb. destruct Gb as [sb [B1 [B2 [B3 B4]]]].
  set (A := [(Some "b", YOp b); (Some "id_column", match idc with Some c => YStr c | None => YNone end); (Some "a_name", YStr an); (Some "b_name", YStr bn)]).
  eapply (meth_good a "concat_rows"
            [(Some "b", sb); (Some "id_column", match idc with Some c => str_syn E c | None => none_syn end);
             (Some "a_name", str_syn E an); (Some "b_name", str_syn E bn)] A); try eassumption; try reflexivity.
  - unfold A. apply eval_args_cons; [exact B4|]. apply eval_args_cons; [destruct idc; [apply eval_str; exact unq|reflexivity]|].
    apply eval_args_cons; [apply eval_str; exact unq|]. apply eval_args_cons; [apply eval_str; exact unq|reflexivity].
  - cbn [wf_args forallb snd]. rewrite B2. destruct idc; reflexivity.
  - change (call_method_op E a "concat_rows" A) with (b_concat_rows a A). unfold b_concat_rows.
    change (pos_args A) with (@nil pyv). change (kws_ok ["b"; "id_column"; "a_name"; "b_name"] A) with true.
    change (kwarg "b" A) with (Some (YOp b)). change (kwarg "a_name" A) with (Some (YStr an)). change (kwarg "b_name" A) with (Some (YStr bn)).
    change (kwarg "id_column" A) with (Some (match idc with Some c => YStr c | None => YNone end)).
    match goal with Hn : negb (is_trivial a) = true |- _ => apply negb_true_iff in Hn; rewrite (strip_trivial_id a Hn) end.
    destruct idc; repeat match goal with Hx : _ = true |- _ => rewrite Hx end; reflexivity.
  - intros ss Hs. cbn [syn_of_op]. rewrite B1, Hs. reflexivity. Qed.

End Builders.
