(* Proofs/ExprParseP6.v -- C13, part 2: every well-formed AST, flattened, is parsed back by the level parsers. *)
From Coq Require Import List Bool String Ascii ZArith NArith QArith Arith Lia.
Import ListNotations.
From DA Require Import Model.PyExpr Model.ExprParse Model.ExprAst Proofs.ExprParseP1 Proofs.ExprParseP5.
Local Close Scope Q_scope.
Local Open Scope string_scope.
Local Open Scope bool_scope.
Local Open Scope list_scope.

(* ------------------------------------------------------------------ size *)
Fixpoint dsize (d : dtree) : nat :=
  match d with
  | DPar x | DNot x | DFactor _ x | DAttr x _ => S (dsize x)
  | DChain _ d0 rest => S (dsize d0 + fold_right (fun p n => dsize (snd p) + n) 0 rest)
  | DPower b e => S (dsize b + dsize e)
  | DCall f args _ => S (dsize f + fold_right (fun a n => dsize a + n) 0 args)
  | DColl _ items _ => S (fold_right (fun a n => dsize a + n) 0 items)
  | DDict items _ => S (fold_right (fun kv n => dsize (fst kv) + dsize (snd kv) + n) 0 items)
  | _ => 1
  end.

Lemma dsize_rest (rest : list (string * dtree)) p : In p rest -> dsize (snd p) <= fold_right (fun p n => dsize (snd p) + n) 0 rest.
Proof. induction rest as [|q rest IH]; simpl; intros H; [destruct H|]. destruct H as [->|H]; [lia|]. specialize (IH H). lia. Qed.
Lemma dsize_items (items : list dtree) x : In x items -> dsize x <= fold_right (fun a n => dsize a + n) 0 items.
Proof. induction items as [|q items IH]; simpl; intros H; [destruct H|]. destruct H as [->|H]; [lia|]. specialize (IH H). lia. Qed.
Lemma dsize_kvs (items : list (dtree * dtree)) kv : In kv items ->
  dsize (fst kv) + dsize (snd kv) <= fold_right (fun kv n => dsize (fst kv) + dsize (snd kv) + n) 0 items.
Proof. induction items as [|q items IH]; simpl; intros H; [destruct H|]. destruct H as [->|H]; [lia|]. specialize (IH H). lia. Qed.

(* ------------------------------------------------------------------ what holds of every well-formed AST *)
Definition no_punct (e : elem) : bool :=
  match e with ETok t => negb (sym_is t "," || sym_is t ":") | _ => true end.

Record good (d : dtree) : Prop := mkgood {
  g_prev : forall p, prev_after p (flat d) = true;
  g_bin : binpos_ok (dlvl d) false (flat d) = true;
  g_not : 3 <= dlvl d -> head_sym (flat d) <> Some "not";
  g_uop : 11 <= dlvl d -> forall s, head_sym (flat d) = Some s -> is_uop s = false;
  g_parse : forall L, L <= dlvl d -> plvl L (flat d) = Some (strip d);
  g_punct : forallb no_punct (flat d) = true
}.

Lemma dlvl_le12 d : wfn d = true -> dlvl d <= 12.
Proof. destruct d; simpl; try lia. intros H. repeat (apply andb_prop in H as [H _]).
  destruct L as [|[|[|[|[|[|[|[|[|[|L]]]]]]]]]]; simpl in H; try discriminate H; lia. Qed.

(* the parse at every level follows from the parse at the node's own level *)
Lemma good_of d : wfn d = true ->
  (forall p, prev_after p (flat d) = true) -> binpos_ok (dlvl d) false (flat d) = true ->
  (3 <= dlvl d -> head_sym (flat d) <> Some "not") ->
  (11 <= dlvl d -> forall s, head_sym (flat d) = Some s -> is_uop s = false) ->
  plvl (dlvl d) (flat d) = Some (strip d) -> forallb no_punct (flat d) = true -> good d.
Proof. intros W H1 H2 H3 H4 H5 H6. constructor; try assumption.
  intros L HL. rewrite (plvl_descend (dlvl d) (flat d)) with (k := dlvl d - L); [exact H5| |apply dlvl_le12; exact W|lia].
  split; [exact H2|split; [exact H3|exact H4]]. Qed.

Lemma good_nonempty d : good d -> flat d <> [].
Proof. intros G E. pose proof (g_prev d G false) as H. rewrite E in H. discriminate H. Qed.

Lemma head_sym_app a b : a <> [] -> head_sym (a ++ b) = head_sym a.
Proof. destruct a; [congruence|reflexivity]. Qed.

(* ------------------------------------------------------------------ operator tokens *)
Lemma binlvl_not_const s l : binlvl s = Some l -> mem_str s ["None"; "True"; "False"] = false.
Proof. intros H. destruct (mem_str s ["None"; "True"; "False"]) eqn:M; [|reflexivity].
  apply mem_str_In in M. simpl in M. destruct M as [<-|[<-|[<-|[]]]]; discriminate H. Qed.

Lemma binop_not_operand L s : is_binop_at L s = true -> is_operand_end (ETok (TSym s)) = false.
Proof. intros H. apply is_binop_at_lvl in H. simpl. exact (binlvl_not_const _ _ H). Qed.

Lemma binop_no_punct L s : is_binop_at L s = true -> no_punct (ETok (TSym s)) = true.
Proof. intros H. apply is_binop_at_lvl in H. simpl.
  destruct (s ==s ",") eqn:E1; [apply String.eqb_eq in E1; subst; discriminate H|].
  destruct (s ==s ":") eqn:E2; [apply String.eqb_eq in E2; subst; discriminate H|]. reflexivity. Qed.

Lemma uop_cases s : is_uop s = true -> s = "+" \/ s = "-" \/ s = "~".
Proof. intros H. apply mem_str_In in H. simpl in H. intuition. Qed.

(* ------------------------------------------------------------------ chains *)
Lemma flat_map_pairs (rest : list (string * dtree)) :
  flat_map (fun p => ETok (TSym (fst p)) :: flat (snd p)) rest
  = flat_map (fun q : string * list elem => ETok (TSym (fst q)) :: snd q) (map (fun p => (fst p, flat (snd p))) rest).
Proof. induction rest as [|p rest IH]; simpl; [reflexivity|]. rewrite IH. reflexivity. Qed.

Lemma chain_prev (rest : list (string * dtree)) q :
  (forall p, In p rest -> forall q', prev_after q' (flat (snd p)) = true) -> rest <> [] ->
  prev_after q (flat_map (fun p => ETok (TSym (fst p)) :: flat (snd p)) rest) = true.
Proof. revert q. induction rest as [|p rest IH]; intros q H Hne; [congruence|].
  cbn [flat_map]. rewrite <- app_comm_cons, prev_after_cons, prev_after_app.
  destruct rest as [|p' rest'].
  - simpl. apply H. left. reflexivity.
  - apply IH; [intros x Hx; apply H; right; exact Hx|discriminate]. Qed.

Lemma chain_binpos L (rest : list (string * dtree)) :
  (forall p, In p rest -> is_binop_at L (fst p) = true /\ binpos_ok L false (flat (snd p)) = true
                          /\ prev_after false (flat (snd p)) = true) ->
  binpos_ok L true (flat_map (fun p => ETok (TSym (fst p)) :: flat (snd p)) rest) = true.
Proof. induction rest as [|p rest IH]; intros H; [reflexivity|].
  destruct (H p (or_introl eq_refl)) as [Hop [Hb Hp]].
  cbn [flat_map]. rewrite <- app_comm_cons. cbn [binpos_ok]. rewrite binpos_ok_app.
  rewrite (binop_not_operand _ _ Hop), Hb, Hp. rewrite IH; [|intros x Hx; apply H; right; exact Hx].
  rewrite !andb_true_r. unfold bin_ok. rewrite (is_binop_at_lvl _ _ Hop). apply Nat.leb_refl. Qed.

Lemma chain_punct L (rest : list (string * dtree)) :
  (forall p, In p rest -> is_binop_at L (fst p) = true /\ forallb no_punct (flat (snd p)) = true) ->
  forallb no_punct (flat_map (fun p => ETok (TSym (fst p)) :: flat (snd p)) rest) = true.
Proof. induction rest as [|p rest IH]; intros H; [reflexivity|].
  destruct (H p (or_introl eq_refl)) as [Hop Hb].
  cbn [flat_map]. rewrite <- app_comm_cons. cbn [forallb]. rewrite forallb_app, Hb, (binop_no_punct _ _ Hop).
  rewrite IH; [reflexivity|intros x Hx; apply H; right; exact Hx]. Qed.

Lemma plvl_chain L : is_chain_level L = true ->
  plvl L = p_level (level_name L) (level_keeps L) L (plvl (S L)).
Proof. destruct L as [|[|[|[|[|[|[|[|[|[|L]]]]]]]]]]; simpl; intros H; try discriminate H; reflexivity. Qed.

(* ------------------------------------------------------------------ not, unary operators, power *)
Lemma wrap_nots_S n t : wrap_nots (S n) t = LNode "not" [wrap_nots n t].
Proof. reflexivity. Qed.

Lemma p_not_test_not es t : p_not_test es = Some t -> p_not_test (ETok (TSym "not") :: es) = Some (LNode "not" [t]).
Proof. unfold p_not_test. cbn [strip_nots]. change ("not" ==s "not") with true. cbv iota.
  destruct (strip_nots es) as [n b]. destruct (p_comparison b) as [x|]; simpl; [|discriminate].
  intros H. inversion H. reflexivity. Qed.

Lemma p_factor_segs_uop op s more : is_uop op = true ->
  p_factor_segs (ETok (TSym op) :: s) more
  = option_map (fun t => LNode "factor" [LTok (TSym op); t]) (p_factor_segs s more).
Proof. intros Hu. destruct more as [|[s1 x1] more']; cbn [p_factor_segs strip_uops]; rewrite Hu;
  destruct (strip_uops s) as [ops b]; destruct (p_atom_expr b) as [bt|]; try reflexivity.
  destruct (p_factor_segs x1 more') as [e|]; reflexivity. Qed.

Lemma p_factor_uop op es t : is_uop op = true -> p_factor es = Some t ->
  p_factor (ETok (TSym op) :: es) = Some (LNode "factor" [LTok (TSym op); t]).
Proof. intros Hu. unfold p_factor. cbn [split_go]. cbn [andb].
  assert (Ho : is_operand_end (ETok (TSym op)) = false).
  { destruct (uop_cases _ Hu) as [ -> | [ -> | -> ] ]; reflexivity. }
  rewrite Ho. destruct (split_go 11 false es) as [p rest]. rewrite (p_factor_segs_uop _ _ _ Hu).
  intros H. rewrite H. reflexivity. Qed.

(* ------------------------------------------------------------------ trailers *)
Lemma trailers_app_n : forall n r0 a t r, List.length r0 <= n -> trailers a r0 = Some t -> trailers a (r0 ++ r) = trailers t r.
Proof. induction n as [|n IH]; intros r0 a t r Hl H.
  - destruct r0; [|simpl in Hl; lia]. simpl in H. inversion H. reflexivity.
  - destruct r0 as [|e r0]; [simpl in H; inversion H; reflexivity|].
    simpl in Hl. destruct e as [tk|k items tr].
    + destruct tk as [s|nn|m|s|d|b ty]; try discriminate H.
      destruct r0 as [|e2 r0]; [discriminate H|]. destruct e2 as [[nm| | | | |]|]; try discriminate H.
      cbn [trailers app] in *. destruct (d ==s "."); [|discriminate H]. apply IH; [simpl in Hl; lia|exact H].
    + destruct k; try discriminate H. destruct items as [|g items].
      * cbn [trailers app] in *. apply IH; [lia|exact H].
      * cbn [trailers app] in *. destruct (tests_of (g :: items)); [|discriminate H]. apply IH; [lia|exact H]. Qed.

Lemma p_atom_expr_app es t r : p_atom_expr es = Some t -> p_atom_expr (es ++ r) = trailers t r.
Proof. destruct es as [|e r0]; [discriminate|]. cbn [p_atom_expr app]. destruct (atom e) as [a|]; [|discriminate].
  apply (trailers_app_n (List.length r0)). lia. Qed.

Lemma tests_of_map (items : list dtree) : tests_of (map (fun a => GTest (strip a)) items) = Some (map strip items).
Proof. unfold tests_of. induction items as [|x items IH]; simpl; [reflexivity|]. rewrite IH. reflexivity. Qed.

Lemma kvs_of_map (items : list (dtree * dtree)) :
  kvs_of (map (fun kv => GKV (strip (fst kv)) (strip (snd kv))) items)
  = Some (map (fun kv => LNode "key_value" [strip (fst kv); strip (snd kv)]) items).
Proof. unfold kvs_of. induction items as [|x items IH]; simpl; [reflexivity|]. rewrite IH. reflexivity. Qed.
