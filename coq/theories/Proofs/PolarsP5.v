(* C03, part 5: the project step of the Polars executor model computes the Pandas-flavoured sem_project on the same input
   (temporary group / constant-one columns, group_by().agg, final select, the all-null row on an empty ungrouped input). *)
From Coq Require Import List Bool Arith ZArith QArith Qreduction String Lia Permutation.
Import ListNotations.
From DA Require Import Base.PyRT Base.PyStr Base.Val Model.Sem Model.PolarsExec Proofs.SemOrderP Proofs.SemBasicP
  Proofs.PolarsP1 Proofs.PolarsP2 Proofs.PolarsP3 Proofs.PolarsP4.
Local Open Scope string_scope.
Local Open Scope list_scope.

(* ------------------------------------------------------------------ small list facts *)
Lemma filter_map_commute {A B} (p : B -> bool) (f : A -> B) l : filter p (map f l) = map f (filter (fun x => p (f x)) l).
Proof. induction l as [|x t IH]; simpl; [reflexivity|]. destruct (p (f x)); simpl; rewrite IH; reflexivity. Qed.
Lemma filter_all {A} (p : A -> bool) l : (forall x, In x l -> p x = true) -> filter p l = l.
Proof. induction l as [|x t IH]; simpl; intros H; [reflexivity|]. rewrite (H x) by (left; reflexivity). rewrite IH; [reflexivity|]. intros y I. apply H. right. exact I. Qed.
Lemma filter_ext_in' {A} (p q : A -> bool) l : (forall x, In x l -> p x = q x) -> filter p l = filter q l.
Proof. induction l as [|x t IH]; simpl; intros H; [reflexivity|]. rewrite (H x) by (left; reflexivity). rewrite IH; [reflexivity|]. intros y I. apply H. right. exact I. Qed.

Lemma distinct_keys_const {A} k (l : list A) : l <> [] -> keys_eqv k k = true -> distinct_keys (map (fun _ => k) l) = [k].
Proof.
  intros N R. destruct l as [|x t]; [congruence|]. clear N. simpl. f_equal.
  induction t as [|y t IH]; simpl; [reflexivity|]. rewrite R. simpl. rewrite IH. reflexivity.
Qed.

Lemma get_cons_skip g ks v vals c : c <> g -> get (g :: ks) (v :: vals) c = get ks vals c.
Proof. intros N. unfold get. simpl. destruct (eq_dec c g); [congruence|]. destruct (index_of c ks); reflexivity. Qed.

(* ------------------------------------------------------------------ the loop of _project_step on vocabulary aggregates *)
Definition agg_x (one : string) (e : expr) : plx := match tr_expr one false e with Ok x => x | _ => PLit VNull end.

Lemma fold_project one ops temps acc names : forallb agg_vocab (map snd ops) = true ->
  fold_left (project_fold_step one) ops (Ok (temps, acc, names)) = Ok (temps, acc ++ map (fun ke => (fst ke, agg_x one (snd ke))) ops, names).
Proof.
  revert acc. induction ops as [|ke t IH]; intros acc V; [simpl; rewrite app_nil_r; reflexivity|].
  cbn [map forallb] in V. apply andb_true_iff in V. destruct V as [V1 V2].
  destruct (agg_plx_value one (snd ke) V1) as [x [T _]].
  assert (project_fold_step one (Ok (temps, acc, names)) ke = Ok (temps, acc ++ [(fst ke, x)], names)) as S1.
  { unfold project_fold_step. cbn [rbind]. rewrite (agg_vocab_promote _ _ _ _ V1), T. reflexivity. }
  cbn [fold_left map]. rewrite S1, IH by exact V2. rewrite <- app_assoc. cbn [app]. unfold agg_x at 2. rewrite T. reflexivity.
Qed.

(* ------------------------------------------------------------------ temporary columns of a project / windowed extend *)
Lemma req_temps_agg z o es : forallb agg_vocab es = true ->
  req_temps z o es = if existsb needs_one es then [(o, CPlain (lit_int 1))] else [].
Proof.
  intros V. unfold req_temps.
  assert (existsb needs_zero es = false) as Z.
  { apply not_true_iff_false. intros E. apply existsb_exists in E. destruct E as [e [I E]].
    rewrite forallb_forall in V. rewrite (agg_vocab_zero e (V e I)) in E. discriminate. }
  rewrite Z. reflexivity.
Qed.

Lemma with_columns_if_lits t temps : lit_temps temps ->
  with_columns_if t temps = mktable (ext_cols (cols t) (map fst temps)) (map (temps_row t temps) (rows t)).
Proof.
  intros LT. destruct temps as [|kx tl].
  - destruct t as [cs rs]. unfold with_columns_if, ext_cols. cbn [map fold_left cols rows]. f_equal.
    rewrite <- (map_id rs) at 1. apply map_ext. intros r. reflexivity.
  - unfold with_columns_if. unfold pl_with_columns. f_equal. apply (rows_with_lit_temps t (kx :: tl) LT).
Qed.

(* what the rest of the step needs to know about the frame with its temporaries: they are literal columns, named away
   from the names in use (85ef226), and the column of ones -- when an aggregate counts rows -- holds ones *)
Record temps_ok (temps : list (string * colx)) (used : list string) (one : string) (need_one : bool) : Prop := {
  to_lit : lit_temps temps;
  to_fresh : forall k, In k (map fst temps) -> ~ In k used;
  to_one : need_one = true -> last_for one temps = Some (one, CPlain (lit_int 1)) }.

Lemma temps_user temps used one need c : temps_ok temps used one need -> In c used -> ~ In c (map fst temps).
Proof. intros TO I N. exact (to_fresh _ _ _ _ TO c N I). Qed.

Lemma temps_one t temps used one need r : temps_ok temps used one need -> need = true -> List.length r = List.length (cols t) ->
  get (ext_cols (cols t) (map fst temps)) (temps_row t temps r) one = qn (inject_Z 1).
Proof. intros [LT _ O] N L. rewrite temps_row_get by assumption. rewrite (O N). reflexivity. Qed.

Lemma argval_temps t temps used one need e r : temps_ok temps used one need -> agg_vocab e = true -> List.length r = List.length (cols t) ->
  (forall c, In c (expr_cols e) -> In c used) ->
  argval e (ext_cols (cols t) (map fst temps)) (temps_row t temps r) = argval e (cols t) r.
Proof.
  intros TO V L NR. destruct e as [c|v|op [|a [|b rest]]]; cbn [agg_vocab] in V; try discriminate; try reflexivity.
  apply andb_true_iff in V. destruct V as [_ S]. destruct a as [c| |]; try discriminate.
  cbn [argval eval_expr]. apply temps_row_get_user; [apply (to_lit _ _ _ _ TO)|exact L|].
  apply (temps_user temps used one need c TO). apply NR. cbn. auto.
Qed.

Lemma key_of_temps t temps used one need ks r : temps_ok temps used one need -> List.length r = List.length (cols t) ->
  (forall c, In c ks -> In c used) ->
  key_of (ext_cols (cols t) (map fst temps)) ks (temps_row t temps r) = key_of (cols t) ks r.
Proof.
  intros TO L NR. unfold key_of. apply map_ext_in. intros c I.
  apply temps_row_get_user; [apply (to_lit _ _ _ _ TO)|exact L|]. apply (temps_user temps used one need c TO). auto.
Qed.

(* the value group_by().agg computes for one aggregate over the rows (with temporaries) of a group *)
Lemma agg_over_temps t temps used one need e grp pos :
  temps_ok temps used one need -> agg_vocab e = true -> (uses_one e = true -> need = true) ->
  (forall r, In r grp -> List.length r = List.length (cols t)) ->
  (forall c, In c (expr_cols e) -> In c used) ->
  plx_at (ext_cols (cols t) (map fst temps)) (map (temps_row t temps) grp) pos (agg_x one e) = agg_value fl_pandas (cols t) grp e.
Proof.
  intros TO V U W NR. destruct (agg_plx_value one e V) as [x [T E]]. unfold agg_x. rewrite T.
  rewrite E.
  - rewrite agg_value_unfold by exact V. f_equal. rewrite map_map. apply map_ext_in. intros r I.
    eapply argval_temps; eauto.
  - intros Uo r I. apply in_map_iff in I. destruct I as [r0 [<- I0]]. eapply (temps_one t); eauto.
Qed.

(* ------------------------------------------------------------------ the scratch names of a step *)
(* l = the step's group_by / partition_by list: when it is empty a constant stand-in column is added first *)
Lemma step_temps_ok (l : list string) base used (es : list expr) : forallb agg_vocab es = true ->
  let T := fresh base used in
  let names1 := match l with [] => T :: used | _ => used end in
  let z := fresh zero_base names1 in
  let o := fresh one_base (z :: names1) in
  let temps := (match l with [] => [(T, CPlain (lit_int 1))] | _ => [] end) ++ req_temps z o es in
  temps_ok temps used o (existsb needs_one es) /\ (l = [] -> last_for T temps = Some (T, CPlain (lit_int 1))).
Proof.
  intros V T names1 z o temps. unfold temps. rewrite (req_temps_agg _ _ _ V).
  assert (~ In T used) as FT by (apply fresh_not_in).
  assert (~ In o (z :: names1)) as FO by (apply fresh_not_in).
  assert (forall c, In c used -> In c names1) as Sub by (intros c I; unfold names1; destruct l; [right|]; exact I).
  split; [constructor|].
  - unfold lit_temps. apply Forall_app. split.
    + destruct l; [|constructor]. constructor; [eexists; reflexivity|constructor].
    + destruct (existsb needs_one es); [|constructor]. constructor; [eexists; reflexivity|constructor].
  - intros k I. rewrite map_app, in_app_iff in I. destruct I as [I|I].
    + destruct l; [|destruct I]. destruct I as [<-|[]]. exact FT.
    + destruct (existsb needs_one es); [|destruct I]. destruct I as [<-|[]]. intros Iu. apply FO. right. apply Sub. exact Iu.
  - intros N. rewrite N. rewrite last_for_app. cbn [last_for fst]. destruct (eq_dec o o); [reflexivity|congruence].
  - intros ->. rewrite last_for_app. destruct (existsb needs_one es); cbn [last_for fst].
    + destruct (eq_dec T o) as [E|_]; [exfalso; apply FO; right; left; exact E|].
      destruct (eq_dec T T); [reflexivity|congruence].
    + destruct (eq_dec T T); [reflexivity|congruence].
Qed.

Lemma needs_one_of_uses (ops : list (string * expr)) e : forallb agg_vocab (map snd ops) = true -> In e (map snd ops) -> uses_one e = true ->
  existsb needs_one (map snd ops) = true.
Proof.
  intros V I U. apply existsb_exists. exists e. split; [exact I|]. apply agg_vocab_one; [|exact U].
  rewrite forallb_forall in V. auto.
Qed.

Lemma agg_empty_null e : agg_vocab e = true -> mem (agg_of e) ["sum"; "count"; "size"; "_size"] = false ->
  agg_value fl_pandas [] [] e = VNull /\ forall cs, agg_value fl_pandas cs [] e = VNull.
Proof.
  destruct e as [c|v|op [|a [|b rest]]]; cbn [agg_vocab agg_of]; try discriminate; intros V M.
  - split_mem V; try discriminate; discriminate.
  - apply andb_true_iff in V. destruct V as [V S]. split_mem V; try discriminate; try (cbn in M; discriminate); split; try intros cs; reflexivity.
Qed.

Lemma project_step_same declared ops gb t t2 :
  good t -> declared = gb ++ map fst ops ->
  forallb agg_vocab (map snd ops) = true ->
  (forall c, In c gb \/ In c (flat_map (fun ke => expr_cols (snd ke)) ops) -> In c (cols t)) ->
  (gb = [] -> rows t = [] -> forallb (fun ke => negb (mem (agg_of (snd ke)) ["sum"; "count"; "size"; "_size"])) ops = true) ->
  pl_project_step declared (cols t) ops gb t = Ok t2 -> t2 = sem_project fl_pandas ops gb t.
Proof.
  intros [ND W] -> V NR GE H. unfold pl_project_step in H.
  set (used := cols t ++ map fst ops) in *.
  set (G := fresh project_group_base used) in *.
  set (names1 := match gb with [] => G :: used | _ :: _ => used end) in *.
  set (z := fresh zero_base names1) in *.
  set (o := fresh one_base (z :: names1)) in *.
  set (temps0 := match gb with [] => [(G, CPlain (lit_int 1))] | _ :: _ => [] end) in *.
  set (temps := temps0 ++ req_temps z o (map snd ops)) in *.
  destruct (step_temps_ok gb project_group_base used (map snd ops) V) as [TO LG].
  fold G names1 z o temps0 temps in TO, LG.
  assert (forall c, In c (cols t) -> In c used) as SubU by (intros c I; unfold used; apply in_or_app; left; exact I).
  rewrite fold_project in H by exact V. cbn [rbind app] in H.
  set (produced := map (fun ke => (fst ke, agg_x o (snd ke))) ops) in *.
  rewrite (with_columns_if_lits t temps (to_lit _ _ _ _ TO)) in H.
  set (cs1 := ext_cols (cols t) (map fst temps)) in *.
  set (w1 := temps_row t temps) in *.
  assert (map fst produced = map fst ops) as MF by (unfold produced; rewrite map_map; reflexivity).
  (* the aggregates of a group *)
  assert (forall grp pos, (forall r, In r grp -> In r (rows t)) ->
            map (fun kx => plx_at cs1 (map w1 grp) pos (snd kx)) produced = map (fun ke => agg_value fl_pandas (cols t) grp (snd ke)) ops) as AG.
  { intros grp pos Sub. unfold produced. rewrite map_map. apply map_ext_in. intros ke Ike. cbn [snd].
    assert (In (snd ke) (map snd ops)) as Ie by (apply in_map; exact Ike).
    apply (agg_over_temps t temps used o _ (snd ke) grp pos TO).
    - rewrite forallb_forall in V. auto.
    - intros U. eapply needs_one_of_uses; eauto.
    - intros r I. apply width_row; auto.
    - intros c Ic. apply SubU, NR. right. apply in_flat_map. exists ke. auto. }
  apply rbind_ok in H. destruct H as [r2 [H2 H]]. apply rbind_ok in H. destruct H as [r3 [H3 H]].
  unfold pl_group_agg in H2. cbn [cols rows] in H2.
  destruct (negb (nodupb _)) eqn:ENd in H2; [discriminate|]. apply negb_false_iff in ENd. apply nodupb_NoDup in ENd.
  inversion H2; subst r2; clear H2. rewrite MF in *.
  destruct gb as [|g gb'].
  - (* no group_by: the temporary constant group column *)
    assert (forall r, In r (rows t) -> key_of cs1 [G] (w1 r) = [qn (inject_Z 1)]) as KG.
    { intros r I. unfold key_of. cbn [map]. f_equal. unfold cs1, w1. rewrite temps_row_get by (try apply (to_lit _ _ _ _ TO); apply width_row; auto).
      rewrite (LG eq_refl). reflexivity. }
    destruct (rows t) as [|x rest] eqn:ER.
    + (* empty input *)
      cbn [map distinct_keys rows] in H3.
      assert (rows r3 = []) as R3.
      { unfold select_if in H3. destruct temps; [inversion H3; reflexivity|]. apply pl_select_ok in H3. destruct H3 as [-> _]. reflexivity. }
      assert (cols r3 = map fst ops) as C3.
      { unfold select_if in H3. unfold temps, temps0 in H3. cbn [app] in H3. apply pl_select_ok in H3. destruct H3 as [-> _]. reflexivity. }
      rewrite R3, C3 in H. inversion H; subst t2; clear H.
      unfold sem_project. rewrite ER. cbn [app map filter]. f_equal. f_equal. rewrite map_map.
      apply map_ext_in. intros ke Ike. symmetry.
      specialize (GE eq_refl eq_refl). rewrite forallb_forall in GE. specialize (GE ke Ike). apply negb_true_iff in GE.
      rewrite forallb_forall in V. apply (agg_empty_null (snd ke)); [apply V; apply in_map; exact Ike|exact GE].
    + (* one group holding every row *)
      rewrite <- ER in *.
      assert (rows t <> []) as NE by (rewrite ER; discriminate).
      assert (map (key_of cs1 [G]) (map w1 (rows t)) = map (fun _ => [qn (inject_Z 1)]) (rows t)) as MK.
      { rewrite map_map. apply map_ext_in. exact KG. }
      rewrite MK, (distinct_keys_const [qn (inject_Z 1)] (rows t) NE eq_refl) in H3. cbn [map] in H3.
      assert (filter (fun r => keys_eqv [qn (inject_Z 1)] (key_of cs1 [G] r)) (map w1 (rows t)) = map w1 (rows t)) as FA.
      { apply filter_all. intros r1 I1. apply in_map_iff in I1. destruct I1 as [r [<- I]]. rewrite (KG r I). reflexivity. }
      rewrite FA, (AG (rows t) 0%nat (fun r I => I)) in H3.
      assert (t2 = r3) as ->.
      { destruct (rows r3) eqn:E3; [|inversion H; reflexivity].
        exfalso. unfold select_if in H3. unfold temps, temps0 in H3. cbn [app] in H3. apply pl_select_ok in H3. destruct H3 as [-> _].
        cbn in E3. discriminate. }
      clear H. unfold select_if in H3. unfold temps, temps0 in H3. cbn [app] in H3. apply pl_select_ok in H3. destruct H3 as [-> [NDo _]].
      unfold sem_project, sem_select_cols. cbn [cols rows app map]. f_equal. f_equal.
      rewrite (filter_all (fun r => keys_eqv [] (key_of (cols t) [] r))) by (intros; reflexivity).
      set (vals := map (fun ke => agg_value fl_pandas (cols t) (rows t) (snd ke)) ops).
      cbn [app] in ENd. inversion ENd as [|? ? NG NDk]; subst.
      transitivity (map (get (map fst ops) vals) (map fst ops)).
      * apply map_ext_in. intros c Ic. apply get_cons_skip. intros ->. apply NG. exact Ic.
      * apply get_map_self; [exact NDk|]. unfold vals. rewrite !map_length. reflexivity.
  - (* group_by given *)
    assert (forall r, In r (rows t) -> key_of cs1 (g :: gb') (w1 r) = key_of (cols t) (g :: gb') r) as KG.
    { intros r I. apply (key_of_temps t temps used o _ (g :: gb') r TO); [apply width_row; auto|]. intros c Ic. apply SubU, NR. left. exact Ic. }
    assert (map (key_of cs1 (g :: gb')) (map w1 (rows t)) = map (key_of (cols t) (g :: gb')) (rows t)) as MK.
    { rewrite map_map. apply map_ext_in. exact KG. }
    rewrite MK in H3.
    assert (r3 = sem_project fl_pandas ops (g :: gb') t) as E3.
    { assert (mktable ((g :: gb') ++ map fst ops)
                (map (fun k => k ++ map (fun kx => plx_at cs1 (filter (fun r => keys_eqv k (key_of cs1 (g :: gb') r)) (map w1 (rows t))) 0 (snd kx)) produced)
                     (distinct_keys (map (key_of (cols t) (g :: gb')) (rows t)))) = sem_project fl_pandas ops (g :: gb') t) as EP.
      { unfold sem_project. f_equal. apply map_ext. intros k. f_equal.
        rewrite filter_map_commute.
        rewrite (filter_ext_in' (fun x => keys_eqv k (key_of cs1 (g :: gb') (w1 x))) (fun r => keys_eqv k (key_of (cols t) (g :: gb') r)))
          by (intros r I; rewrite (KG r I); reflexivity).
        apply AG. intros r I. apply filter_In in I. tauto. }
      rewrite EP in H3. unfold select_if in H3. destruct temps.
      - inversion H3. reflexivity.
      - apply pl_select_ok in H3. destruct H3 as [-> [NDo _]].
        change ((g :: gb') ++ map fst ops) with (cols (sem_project fl_pandas ops (g :: gb') t)).
        apply select_self; [exact NDo|apply width_project]. }
    subst r3. inversion H. reflexivity.
Qed.

Lemma project_step_nodup declared src (ops : list (string * expr)) gb t t2 :
  forallb agg_vocab (map snd ops) = true -> pl_project_step declared src ops gb t = Ok t2 -> NoDup (gb ++ map fst ops).
Proof.
  intros V H. unfold pl_project_step in H. rewrite fold_project in H by exact V. cbn [rbind app] in H.
  apply rbind_ok in H. destruct H as [r2 [H2 _]]. unfold pl_group_agg in H2.
  destruct (negb (nodupb _)) eqn:ENd in H2; [discriminate|]. apply negb_false_iff in ENd. apply nodupb_NoDup in ENd.
  rewrite map_map in ENd. cbn [fst] in ENd. destruct gb as [|g gb']; [|exact ENd].
  cbn [app] in ENd |- *. inversion ENd; assumption.
Qed.

(* ------------------------------------------------------------------ sem_project does not depend on the order of the input rows *)
Lemma FOP_NoDup (l : list (list val)) : ForallOrdPairs (fun a b => keys_eqv a b = false) l -> NoDup l.
Proof.
  induction 1 as [|a l Ha Hl IH]; constructor; [|exact IH].
  intros I. rewrite Forall_forall in Ha. specialize (Ha a I). rewrite keys_eqv_refl in Ha. discriminate.
Qed.

Lemma distinct_keys_perm L L' : Permutation L L' ->
  (forall a b, In a L' -> In b L' -> keys_eqv a b = true -> a = b) ->
  Permutation (distinct_keys L) (distinct_keys L').
Proof.
  intros P EQ. apply NoDup_Permutation; try (apply FOP_NoDup, distinct_keys_pairwise).
  assert (forall M x, (forall a b, In a M -> In b M -> keys_eqv a b = true -> a = b) -> (In x (distinct_keys M) <-> In x M)) as G.
  { intros M x E. split; [apply distinct_keys_sound|]. intros I. destruct (distinct_keys_complete M x I) as [k' [Ik E']].
    rewrite (E k' x (distinct_keys_sound _ _ Ik) I E') in Ik. exact Ik. }
  intros x. rewrite (G L'), (G L) by (try exact EQ; intros a b Ia Ib; apply EQ; eapply Permutation_in; eassumption).
  split; intros I; eapply Permutation_in; try eassumption. apply Permutation_sym. exact P.
Qed.

Lemma agg_value_perm cs grp grp' e : agg_vocab e = true -> Permutation grp grp' ->
  agg_value fl_pandas cs grp e = agg_value fl_pandas cs grp' e.
Proof.
  intros V P. rewrite !agg_value_unfold by exact V. apply agg_fn_perm; [apply agg_vocab_name; exact V|].
  apply Permutation_map. exact P.
Qed.

Lemma project_perm (ops : list (string * expr)) gb t t' :
  cols t = cols t' -> Permutation (rows t) (rows t') ->
  forallb agg_vocab (map snd ops) = true ->
  (forall r1 r2, In r1 (rows t') -> In r2 (rows t') ->
     keys_eqv (key_of (cols t') gb r1) (key_of (cols t') gb r2) = true -> key_of (cols t') gb r1 = key_of (cols t') gb r2) ->
  Permutation (rows (sem_project fl_pandas ops gb t)) (rows (sem_project fl_pandas ops gb t')).
Proof.
  intros C P V EQ. unfold sem_project. cbn [rows]. rewrite C.
  set (F := fun rs k => k ++ map (fun ke => agg_value fl_pandas (cols t') (filter (fun r => keys_eqv k (key_of (cols t') gb r)) rs) (snd ke)) ops).
  change (Permutation (map (F (rows t)) (match gb with [] => [[]] | _ :: _ => distinct_keys (map (key_of (cols t') gb) (rows t)) end))
                      (map (F (rows t')) (match gb with [] => [[]] | _ :: _ => distinct_keys (map (key_of (cols t') gb) (rows t')) end))).
  assert (forall k, F (rows t) k = F (rows t') k) as FE.
  { intros k. unfold F. f_equal. apply map_ext_in. intros ke Ike. apply agg_value_perm.
    - rewrite forallb_forall in V. apply V. apply in_map. exact Ike.
    - apply SemOrderP.perm_filter. exact P. }
  rewrite (map_ext _ _ FE). apply Permutation_map. destruct gb as [|g gb']; [apply Permutation_refl|].
  apply distinct_keys_perm; [apply Permutation_map; exact P|].
  intros a b Ia Ib E. apply in_map_iff in Ia, Ib. destruct Ia as [r1 [<- I1]], Ib as [r2 [<- I2]]. apply EQ; assumption.
Qed.
