(* Proofs/ExprParseP14.v -- C13, part 3: two-argument operators, calls, and the round trip of every printable
   expression. *)
From Coq Require Import List Bool String Ascii ZArith NArith QArith Arith Lia.
Import ListNotations.
From DA Require Import Model.PyExpr Model.ExprPrint Model.ExprParse Model.ExprAst Model.ExprRoundtrip
  Proofs.ExprParseP1 Proofs.ExprParseP2 Proofs.ExprParseP9 Proofs.ExprParseP10 Proofs.ExprParseP11 Proofs.ExprParseP12
  Proofs.ExprParseP13.
Local Close Scope Q_scope.
Local Open Scope string_scope.
Local Open Scope bool_scope.
Local Open Scope list_scope.

Section RT.
Variables (c : cfg) (dd : list string).

(* ---- a node  operand op operand *)
Lemma walk_bin_arith name op sa sb a b :
  In name ["arith_expr"; "term"] -> mem_str op ["+"; "*"] = false ->
  walk c dd sa = Ok a -> walk c dd sb = Ok b ->
  walk c dd (LNode name [sa; LTok (TSym op); sb]) = call_method c (remap op_remap op) a [b].
Proof. intros Hn Ho Ha Hb. rewrite walk_node_eq, (wn_arith c name _ _ _ _ Hn).
  cbn [List.length Nat.ltb Nat.leb Nat.even orb map odds evens nth tok_text].
  unfold kopsel. cbn [all_some all_same forallb]. rewrite Ho. rewrite Ha, Hb. cbn [chain_fold]. reflexivity. Qed.

Lemma walk_bin_cmp op sa sb a b :
  walk c dd sa = Ok a -> walk c dd sb = Ok b ->
  walk c dd (LNode "comparison" [sa; LTok (TSym op); sb]) = call_method c (remap op_remap op) a [b].
Proof. intros Ha Hb. rewrite walk_node_eq, wn_comparison.
  cbn [List.length Nat.ltb Nat.leb Nat.even orb map odds evens nth tok_text].
  rewrite Ha, Hb. cbn [chain_fold]. reflexivity. Qed.

Lemma walk_power sa sb a b :
  walk c dd sa = Ok a -> walk c dd sb = Ok b ->
  walk c dd (LNode "power" [sa; sb]) = call_method c "__pow__" a [b].
Proof. intros Ha Hb. rewrite walk_node_eq, wn_power. cbn [List.length Nat.ltb Nat.leb map all_ok]. rewrite Ha, Hb.
  cbn [pow_fold]. destruct (call_method c "__pow__" a [b]); reflexivity. Qed.

Lemma printable_inline_inv op m p args : printable c dd (EOp op true m p args) = true ->
  p = None /\ m = false /\ forallb (printable c dd) args = true /\ mem_str op (known c) = true.
Proof. cbn [printable]. intros H. apply andb_prop in H as [H Hx]. apply andb_prop in H as [Hp Ha].
  apply andb_prop in Hx as [Hx _]. apply andb_prop in Hx as [Hm Hk]. apply negb_true_iff in Hm.
  destruct p; [discriminate Hp|]. auto. Qed.

Lemma rt_bin2 op m p a b : printable c dd (EOp op true m p [a; b]) = true -> mem_str op kops = false ->
  rt_ok c dd a -> rt_ok c dd b -> rt_ok c dd (EOp op true m p [a; b]).
Proof. intros H Hk Ra Rb. destruct (printable_inline_inv _ _ _ _ H) as [-> [-> [_ Hkn]]].
  cbn [printable] in H. rewrite Hk in H. apply andb_prop in H as [_ H]. apply andb_prop in H as [_ H].
  apply andb_prop in H as [H Hcall]. apply andb_prop in H as [Hmem _].
  apply res_expr_eqb_Ok in Hcall.
  pose proof (bin2_sym op Hmem) as Hsym.
  destruct (op ==s "**") eqn:Epow.
  - (* power *)
    apply String.eqb_eq in Epow. subst op.
    change (remap op_remap "**") with "__pow__" in Hcall.
    constructor.
    + intros want. rewrite dt_pow, tp_inline, unparse_par_when. cbn [unparse map join_with].
      rewrite (rt_unparse c dd a Ra true), (rt_unparse c dd b Rb true). destruct want; reflexivity.
    + intros want. rewrite dt_pow, wfn_par_when. cbn [wfn]. rewrite (rt_wfn c dd a Ra true), (rt_wfn c dd b Rb true).
      unfold at_least. rewrite (rt_lvl12 c dd a Ra). pose proof (rt_lvl10 c dd b Rb).
      replace (Nat.leb 10 (dlvl (dtree_of true b))) with true; [reflexivity|symmetry; apply Nat.leb_le; lia].
    + rewrite dt_pow. simpl. lia.
    + rewrite dt_pow. reflexivity.
    + intros want. rewrite dt_pow, strip_par_when. cbn [strip].
      rewrite (walk_power _ _ a b (rt_walk c dd a Ra true) (rt_walk c dd b Rb true)). exact Hcall.
  - (* the other eleven *)
    assert (Hlv : exists L, binop_level op = L /\ is_binop_at L op = true /\ is_chain_level L = true /\ L <= 9
                  /\ level_keeps L = true
                  /\ ((In (level_name L) ["arith_expr"; "term"] /\ mem_str op ["+"; "*"] = false) \/ level_name L = "comparison")).
    { apply mem_str_In in Hmem. simpl in Hmem.
      destruct Hmem as [<-|[<-|[<-|[<-|[<-|[<-|[<-|[<-|[<-|[<-|[<-|[<-|[]]]]]]]]]]]]]; try discriminate Epow;
        eexists; (split; [reflexivity|]); cbn; repeat split; try lia; try (left; split; [tauto|reflexivity]); try (right; reflexivity). }
    destruct Hlv as [L [HL [Hbin [Hcl [HL9 [Hkeep Hname]]]]]].
    constructor.
    + intros want. rewrite (dt_chain want op false None a b [] Epow), tp_inline, unparse_par_when. cbn [unparse map flat_map fst snd join_with].
      rewrite (rt_unparse c dd a Ra true), (rt_unparse c dd b Rb true), (op_tok_sym op Hsym), app_nil_r.
      destruct want; reflexivity.
    + intros want. rewrite (dt_chain want op false None a b [] Epow), wfn_par_when, HL. cbn [wfn map forallb fst snd].
      rewrite Hcl, Hbin, (rt_wfn c dd a Ra true), (rt_wfn c dd b Rb true). unfold at_least.
      pose proof (rt_lvl10 c dd a Ra). pose proof (rt_lvl10 c dd b Rb).
      replace (Nat.leb (S L) (dlvl (dtree_of true a))) with true by (symmetry; apply Nat.leb_le; lia).
      replace (Nat.leb (S L) (dlvl (dtree_of true b))) with true by (symmetry; apply Nat.leb_le; lia). reflexivity.
    + rewrite (dt_chain true op false None a b [] Epow). simpl. lia.
    + rewrite (dt_chain true op false None a b [] Epow). reflexivity.
    + intros want. rewrite (dt_chain want op false None a b [] Epow), strip_par_when, HL. cbn [strip map fst snd].
      unfold mk_chain. rewrite Hkeep. cbn [flat_map fst snd app].
      destruct Hname as [[Hn Hnk]|Hn].
      * rewrite (walk_bin_arith _ op _ _ a b Hn Hnk (rt_walk c dd a Ra true) (rt_walk c dd b Rb true)). exact Hcall.
      * rewrite Hn, (walk_bin_cmp op _ _ a b (rt_walk c dd a Ra true) (rt_walk c dd b Rb true)). exact Hcall. Qed.

(* ---- calls *)
Lemma args_unparse (xs : list expr) : (forall x, In x xs -> rt_ok c dd x) ->
  map unparse (map (dtree_of false) xs) = map (fun x => fst (to_py false x)) xs.
Proof. intros H. rewrite map_map. apply map_ext_in. intros x Hx. exact (rt_unparse c dd x (H x Hx) false). Qed.

Lemma args_wfn (xs : list expr) : (forall x, In x xs -> rt_ok c dd x) -> forallb wfn (map (dtree_of false) xs) = true.
Proof. intros H. rewrite forallb_forall. intros d Hd. apply in_map_iff in Hd as [x [<- Hx]]. exact (rt_wfn c dd x (H x Hx) false). Qed.

Lemma args_walk (xs : list expr) : (forall x, In x xs -> rt_ok c dd x) ->
  all_ok (map (walk c dd) (map strip (map (dtree_of false) xs))) = Ok xs.
Proof. intros H. rewrite !map_map. rewrite (all_ok_map_Ok _ (fun x => x)); [rewrite map_id; reflexivity|].
  intros x Hx. exact (rt_walk c dd x (H x Hx) false). Qed.

(* the second child of a funccall node and what the walker makes of it *)
Definition args_node (ds : list dtree) : ltree :=
  match ds with [] => LNone | _ => LNode "arguments" (map strip ds) end.

Lemma call_args_node (xs : list expr) : (forall x, In x xs -> rt_ok c dd x) ->
  call_args [args_node (map (dtree_of false) xs)]
    (match args_node (map (dtree_of false) xs) with LNode _ acs => Some (map (walk c dd) acs) | _ => None end) = Ok xs.
Proof. intros H. destruct xs as [|x xs]; [reflexivity|]. cbn [map args_node call_args].
  exact (args_walk (x :: xs) H). Qed.

Lemma rt_method op p a0 rest : printable c dd (EOp op false true p (a0 :: rest)) = true ->
  (forall x, In x (a0 :: rest) -> rt_ok c dd x) -> rt_ok c dd (EOp op false true p (a0 :: rest)).
Proof. intros H R. cbn [printable] in H. apply andb_prop in H as [H Hx]. apply andb_prop in H as [Hp _].
  destruct p as [l|]; [discriminate Hp|]. clear Hp. apply andb_prop in Hx as [Hs Hcall]. apply andb_prop in Hs as [Hs Hdu].
  apply negb_true_iff in Hs. apply negb_true_iff in Hdu.
  apply res_expr_eqb_Ok in Hcall.
  pose proof (R a0 (or_introl eq_refl)) as R0.
  assert (Rr : forall x, In x rest -> rt_ok c dd x) by (intros x Hx; apply R; right; exact Hx).
  assert (Hrecv_u : unparse (recv_tree a0) = recv_toks a0).
  { unfold recv_tree, recv_toks. rewrite unparse_par_when, (rt_unparse c dd a0 R0 false). destruct (is_col a0); reflexivity. }
  assert (Hrecv_12 : dlvl (recv_tree a0) = 12).
  { unfold recv_tree. destruct a0; reflexivity. }
  constructor.
  - intros want. rewrite dt_method, tp_method. cbn [unparse]. rewrite Hrecv_u, (op_tok_name op Hs), commas_join, (args_unparse rest Rr).
    rewrite <- app_assoc. reflexivity.
  - intros want. rewrite dt_method. cbn [wfn]. unfold at_least. cbn [dlvl]. rewrite Hrecv_12. cbn [Nat.leb].
    unfold recv_tree. rewrite wfn_par_when, (rt_wfn c dd a0 R0 false), (args_wfn rest Rr). reflexivity.
  - rewrite dt_method. simpl. lia.
  - rewrite dt_method. reflexivity.
  - intros want. rewrite dt_method.
    change (strip (DCall (DAttr (recv_tree a0) op) (map (dtree_of false) rest) false))
      with (LNode "funccall" [LNode "getattr" [strip (recv_tree a0); LTok (TName op)]; args_node (map (dtree_of false) rest)]).
    rewrite walk_node_eq, wn_funccall. cbn [List.length Nat.ltb Nat.leb map tok_text].
    change ("getattr" ==s "getattr") with true. cbv iota.
    unfold recv_tree at 1. rewrite strip_par_when, (rt_walk c dd a0 R0 false).
    rewrite (call_args_node rest Rr), Hdu. exact Hcall. Qed.

Lemma rt_fn op p args : printable c dd (EOp op false false p args) = true ->
  (forall x, In x args -> rt_ok c dd x) -> rt_ok c dd (EOp op false false p args).
Proof. intros H R. cbn [printable] in H. apply andb_prop in H as [H Hx]. apply andb_prop in H as [Hp _].
  destruct p as [l|]; [discriminate Hp|]. clear Hp. apply andb_prop in Hx as [Hs Hk]. apply negb_true_iff in Hs.
  constructor.
  - intros want. rewrite dt_fn, tp_fn. cbn [unparse]. rewrite (op_tok_name op Hs), commas_join, (args_unparse args R). reflexivity.
  - intros want. rewrite dt_fn. cbn [wfn]. rewrite (args_wfn args R). reflexivity.
  - rewrite dt_fn. simpl. lia.
  - rewrite dt_fn. reflexivity.
  - intros want. rewrite dt_fn.
    change (strip (DCall (DName op) (map (dtree_of false) args) false))
      with (LNode "funccall" [LNode "var" [LTok (TName op)]; args_node (map (dtree_of false) args)]).
    rewrite walk_node_eq, wn_funccall. cbn [List.length Nat.ltb Nat.leb map tok_text].
    change ("var" ==s "getattr") with false. change (negb ("var" ==s "var")) with false. cbv iota.
    rewrite (call_args_node args R). unfold mk_expr. rewrite Hk. reflexivity. Qed.

(* ---- every printable expression *)
Lemma rt_size : forall n e, esize e < n -> printable c dd e = true -> rt_ok c dd e.
Proof. induction n as [|n IH]; intros e Hs H; [lia|].
  destruct e as [nm|v|vs|kvs|op i m p args].
  - apply rt_col. exact H.
  - apply rt_val. exact H.
  - apply rt_list. exact H.
  - apply rt_dict. exact H.
  - assert (R : forall x, In x args -> rt_ok c dd x).
    { intros x Hx. apply IH; [pose proof (esize_arg op i m p args x Hx); lia|].
      cbn [printable] in H. apply andb_prop in H as [H _]. apply andb_prop in H as [_ Ha].
      rewrite forallb_forall in Ha. exact (Ha x Hx). }
    destruct i.
    + (* inline *)
      destruct args as [|a [|b more]].
      * cbn [printable] in H. rewrite !andb_false_r in H. discriminate H.
      * apply rt_unary; [exact H|apply R; left; reflexivity].
      * destruct (mem_str op kops) eqn:Hk; [apply rt_kop; assumption|].
        destruct more as [|x more].
        -- apply rt_bin2; [exact H|exact Hk|apply R; left; reflexivity|apply R; right; left; reflexivity].
        -- cbn [printable] in H. rewrite Hk in H. rewrite andb_false_r in H. cbn [andb] in H.
           rewrite !andb_false_r in H. discriminate H.
    + destruct m.
      * destruct args as [|a0 rest]; [cbn [printable] in H; rewrite !andb_false_r in H; discriminate H|].
        apply rt_method; assumption.
      * apply rt_fn; assumption. Qed.

Theorem printable_roundtrip e : printable c dd e = true -> is_term e = true -> parse c dd (to_python e) = Ok e.
Proof. intros H Ht. pose proof (rt_size (S (esize e)) e (Nat.lt_succ_diag_r _) H) as R.
  unfold parse, to_python. rewrite <- (rt_unparse c dd e R false).
  rewrite (lark_of_unparse _ (rt_wfn c dd e R false)). unfold parse_tree. rewrite (rt_walk c dd e R false), Ht. reflexivity. Qed.

End RT.
