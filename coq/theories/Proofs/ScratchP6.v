(* C15, part B: the names the executor chooses since fix c06ea4b (`code_names`) are never among the names in use, are
   pairwise different, and so satisfy the guards of the no-capture theorems: for every step that refers to existing
   columns the Pandas step equals the plain step -- no guard on how the user's columns are called. *)
From Coq Require Import List Bool Arith String Ascii Lia.
Import ListNotations.
From DA Require Import Base.PyRT Base.PyStr Model.Rename Model.ScratchNames Model.ScratchRename.
From DA Require Import Proofs.RenameP1 Proofs.ScratchP1 Proofs.ScratchP2 Proofs.ScratchP3 Proofs.ScratchP4 Proofs.ScratchP5.
Local Open Scope list_scope.

(* ------------------------------------------------------------------ strings: padding, stripping, reversal *)
Lemma pad_shift k s : (pad k ++ String "_" s)%string = String "_" (pad k ++ s).
Proof. induction k as [|k IH]; simpl; [reflexivity|]. rewrite IH. reflexivity. Qed.

Lemma pad_snoc k : (pad k ++ "_")%string = pad (S k).
Proof. induction k as [|k IH]; simpl; [reflexivity|]. rewrite IH. reflexivity. Qed.

Fixpoint lstrip_us (s : string) : string :=
  match s with
  | String c t => if Ascii.eqb c "_" then lstrip_us t else s
  | EmptyString => EmptyString
  end.
Lemma lstrip_pad k s : lstrip_us (pad k ++ s) = lstrip_us s.
Proof. induction k as [|k IH]; simpl; [reflexivity|exact IH]. Qed.

Fixpoint srev (s : string) : string := match s with EmptyString => EmptyString | String c t => (srev t ++ String c EmptyString)%string end.
Lemma srev_app a b : srev (a ++ b) = (srev b ++ srev a)%string.
Proof.
  induction a as [|c a IH]; simpl; [rewrite str_append_nil_r; reflexivity|]. rewrite IH, str_append_assoc. reflexivity.
Qed.
Lemma srev_pad k : srev (pad k) = pad k.
Proof. induction k as [|k IH]; simpl; [reflexivity|]. rewrite IH. apply pad_snoc. Qed.

(* the number of leading underscores is determined when a different character follows *)
Lemma pad_count_unique a b c d s t : c <> "_"%char -> d <> "_"%char -> (pad a ++ String c s)%string = (pad b ++ String d t)%string -> a = b.
Proof.
  revert b. induction a as [|a IH]; intros [|b] Hc Hd E; simpl in E.
  - reflexivity.
  - inversion E. congruence.
  - inversion E. congruence.
  - inversion E. f_equal. apply (IH b Hc Hd). assumption.
Qed.

(* ------------------------------------------------------------------ _unused_column_name *)
Lemma unused_name_spec fuel : forall base taken,
  exists k, k <= fuel /\ unused_name fuel base taken = (pad k ++ base)%string
            /\ (forall j, j < k -> In (pad j ++ base)%string taken) /\ (k < fuel -> ~ In (pad k ++ base)%string taken).
Proof.
  induction fuel as [|f IH]; intros base taken; simpl.
  - exists 0. repeat split; try lia.
  - destruct (mem base taken) eqn:M.
    + destruct (IH (String "_" base) taken) as [k [Hk [E [Hall Hfree]]]]. exists (S k). split; [lia|]. split; [|split].
      * rewrite E, pad_shift. reflexivity.
      * intros [|j] Hj; [apply mem_In, M|]. specialize (Hall j ltac:(lia)). rewrite pad_shift in Hall. exact Hall.
      * intros Hlt. specialize (Hfree ltac:(lia)). rewrite pad_shift in Hfree. exact Hfree.
    + exists 0. split; [lia|]. split; [reflexivity|]. split; [intros j Hj; lia|]. intros _. apply mem_false, M.
Qed.

Lemma padded_distinct base i j : (pad i ++ base)%string = (pad j ++ base)%string -> i = j.
Proof. intros E. apply (f_equal String.length) in E. rewrite !str_length_app, !pad_length in E. lia. Qed.

Theorem unused_not_in base taken : ~ In (unused base taken) taken.
Proof.
  unfold unused. destruct (unused_name_spec (List.length taken) base taken) as [k [Hk [E [Hall Hfree]]]]. rewrite E.
  destruct (Nat.eq_dec k (List.length taken)) as [->|Hne]; [|apply Hfree; lia].
  intros Hin.
  assert (Incl : incl (map (fun j => (pad j ++ base)%string) (seq 0 (S (List.length taken)))) taken).
  { intros x Hx. apply in_map_iff in Hx. destruct Hx as [j [<- Hj]]. apply in_seq in Hj.
    destruct (Nat.eq_dec j (List.length taken)) as [->|Hn]; [exact Hin|apply Hall; lia]. }
  assert (ND : NoDup (map (fun j => (pad j ++ base)%string) (seq 0 (S (List.length taken))))).
  { apply NoDup_map_inj_on; [apply seq_NoDup|]. intros a b _ _. apply padded_distinct. }
  pose proof (NoDup_incl_length ND Incl) as L. rewrite map_length, seq_length in L. lia.
Qed.

Lemma unused_shape base taken : exists k, unused base taken = (pad k ++ base)%string.
Proof. unfold unused. destruct (unused_name_spec (List.length taken) base taken) as [k [_ [E _]]]. exists k. exact E. Qed.

(* two chosen names with bases that differ after their leading underscores are different *)
Lemma unused_sep b1 b2 t1 t2 : lstrip_us b1 <> lstrip_us b2 -> unused b1 t1 <> unused b2 t2.
Proof.
  intros N E. destruct (unused_shape b1 t1) as [k1 E1], (unused_shape b2 t2) as [k2 E2]. rewrite E1, E2 in E.
  apply N. rewrite <- (lstrip_pad k1 b1), <- (lstrip_pad k2 b2), E. reflexivity.
Qed.
Lemma unused_same_strip b1 b2 t1 t2 : unused b1 t1 = unused b2 t2 -> lstrip_us b1 = lstrip_us b2.
Proof.
  intros E. destruct (unused_shape b1 t1) as [k1 E1], (unused_shape b2 t2) as [k2 E2]. rewrite E1, E2 in E.
  rewrite <- (lstrip_pad k1 b1), <- (lstrip_pad k2 b2), E. reflexivity.
Qed.

(* ------------------------------------------------------------------ the join suffix loop *)
Definition bad_suffix (common taken : list string) (sfx : string) : bool := existsb (fun c => mem (c ++ sfx)%string taken) common.

Lemma unused_suffix_spec fuel : forall sfx common taken,
  exists k, k <= fuel /\ unused_suffix fuel sfx common taken = (sfx ++ pad k)%string
            /\ (forall j, j < k -> bad_suffix common taken (sfx ++ pad j) = true)
            /\ (k < fuel -> bad_suffix common taken (sfx ++ pad k) = false).
Proof.
  induction fuel as [|f IH]; intros sfx common taken; simpl.
  - exists 0. simpl. rewrite str_append_nil_r. split; [lia|]. split; [reflexivity|]. split; intros; lia.
  - fold (bad_suffix common taken sfx). destruct (bad_suffix common taken sfx) eqn:B.
    + destruct (IH (sfx ++ "_")%string common taken) as [k [Hk [E [Hall Hfree]]]]. exists (S k).
      assert (Sh : forall j, ((sfx ++ "_") ++ pad j)%string = (sfx ++ pad (S j))%string) by (intros j; rewrite str_append_assoc; reflexivity).
      split; [lia|]. split; [|split].
      * rewrite E. apply Sh.
      * intros [|j] Hj; [simpl; rewrite str_append_nil_r; exact B|]. rewrite <- Sh. apply Hall. lia.
      * intros Hlt. rewrite <- Sh. apply Hfree. lia.
    + exists 0. simpl. rewrite str_append_nil_r. split; [lia|]. split; [reflexivity|]. split; [intros j Hj; lia|]. intros _. exact B.
Qed.

Local Open Scope string_scope.
Lemma trailing_count c c' j j' : c ++ "_tmp_right_col" ++ pad j = c' ++ "_tmp_right_col" ++ pad j' -> j = j'.
Proof.
  intros E. apply (f_equal srev) in E. rewrite !srev_app, !srev_pad in E. simpl in E.
  rewrite !str_append_assoc in E. simpl in E.
  eapply (pad_count_unique j j' "l" "l"); [discriminate|discriminate|exact E].
Qed.

Theorem unused_suffix_ok common taken :
  bad_suffix common taken (unused_suffix (List.length taken) "_tmp_right_col" common taken) = false.
Proof.
  destruct (unused_suffix_spec (List.length taken) "_tmp_right_col" common taken) as [k [Hk [E [Hall Hfree]]]]. rewrite E.
  destruct (Nat.eq_dec k (List.length taken)) as [->|Hne]; [|apply Hfree; lia].
  destruct (bad_suffix common taken ("_tmp_right_col" ++ pad (List.length taken))) eqn:B; [|reflexivity]. exfalso.
  (* every j <= |taken| contributes an element of taken with exactly j trailing underscores: one too many *)
  assert (W : forall m, m <= S (List.length taken) ->
            exists L, List.length L = m /\ NoDup L /\ incl L taken /\ forall x, In x L -> exists j c, j < m /\ x = c ++ "_tmp_right_col" ++ pad j).
  { induction m as [|m IHm]; intros Hm.
    - exists []. repeat split; [constructor|intros x []|intros x []].
    - destruct (IHm ltac:(lia)) as [L [HL [ND [Inc Sh]]]].
      assert (Bm : bad_suffix common taken ("_tmp_right_col" ++ pad m) = true).
      { destruct (Nat.eq_dec m (List.length taken)) as [->|Hn]; [exact B|apply Hall; lia]. }
      unfold bad_suffix in Bm. apply existsb_exists in Bm. destruct Bm as [c [_ Hc]]. apply mem_In in Hc.
      exists ((c ++ "_tmp_right_col" ++ pad m) :: L). repeat split.
      + simpl. rewrite HL. reflexivity.
      + constructor; [|exact ND]. intros Hin. destruct (Sh _ Hin) as [j [c' [Hj Ex]]]. apply trailing_count in Ex. lia.
      + intros x [<-|Hx]; [exact Hc|apply Inc, Hx].
      + intros x [<-|Hx]; [exists m, c; split; [lia|reflexivity]|]. destruct (Sh x Hx) as [j [c' [Hj Ex]]]. exists j, c'. split; [lia|exact Ex]. }
  destruct (W (S (List.length taken)) (le_n _)) as [L [HL [ND [Inc _]]]].
  pose proof (NoDup_incl_length ND Inc) as Len. lia.
Qed.

Lemma suffix_shape common taken : exists k, unused_suffix (List.length taken) "_tmp_right_col" common taken = "_tmp_right_col" ++ pad k.
Proof. destruct (unused_suffix_spec (List.length taken) "_tmp_right_col" common taken) as [k [_ [E _]]]. exists k. exact E. Qed.

Lemma suffixed_not_merge c k m : c ++ "_tmp_right_col" ++ pad k <> pad m ++ "data_algebra_temp_merge_col".
Proof.
  intros E. apply (f_equal srev) in E. rewrite !srev_app, !srev_pad in E. simpl in E. rewrite !str_append_assoc in E. simpl in E.
  destruct k as [|k]; simpl in E; [|discriminate]. discriminate.
Qed.

Lemma suffixed_not_nullkey c k m : c ++ "_tmp_right_col" ++ pad k <> pad m ++ "data_algebra_temp_null_key_col".
Proof.
  intros E. apply (f_equal srev) in E. rewrite !srev_app, !srev_pad in E. simpl in E. rewrite !str_append_assoc in E. simpl in E.
  destruct k as [|k]; simpl in E; [|discriminate]. discriminate.
Qed.

(* ------------------------------------------------------------------ the chosen names are good *)
Section Good.
  Context (in_use common u : list string) (Hu : forall c, In c u -> In c in_use).

  Lemma code_not_user base : ~ In (unused base in_use) u.
  Proof. intros H. exact (unused_not_in base in_use (Hu _ H)). Qed.

  Theorem code_good_project : good_project (code_names in_use common) u.
  Proof.
    constructor; cbn [code_names n_table_temp n_proj_tmp].
    - apply code_not_user.
    - intros i. apply code_not_user.
    - intros i. apply unused_sep. simpl. discriminate.
    - intros i j E. apply unused_same_strip in E. simpl in E. apply (str_app_inv_head "data_algebra_project_temp_col_") in E. apply dec_inj, E.
  Qed.

  Theorem code_good_wextend : good_wextend (code_names in_use common) u.
  Proof.
    constructor; cbn [code_names n_orig_index n_temp_g n_ext_tmp].
    - apply code_not_user.
    - apply code_not_user.
    - intros i. apply code_not_user.
    - apply unused_sep. simpl. discriminate.
    - intros i. apply unused_sep. simpl. discriminate.
    - intros i. apply unused_sep. simpl. discriminate.
    - intros i j E. apply unused_same_strip in E. simpl in E. apply (str_app_inv_head "data_algebra_extend_temp_col_") in E. apply dec_inj, E.
  Qed.

  Theorem code_good_join : good_join (code_names in_use common) common u.
  Proof.
    constructor; cbn [code_names n_merge n_nullkey n_right].
    - apply code_not_user.
    - intros c Hc H. pose proof (unused_suffix_ok common in_use) as B. unfold bad_suffix in B.
      assert (X : existsb (fun c0 => mem (c0 ++ unused_suffix (List.length in_use) "_tmp_right_col" common in_use) in_use) common = true).
      { apply existsb_exists. exists c. split; [exact Hc|apply mem_In, Hu, H]. }
      rewrite X in B. discriminate.
    - intros c _. destruct (suffix_shape common in_use) as [k ->]. destruct (unused_shape "data_algebra_temp_merge_col" in_use) as [m ->]. apply suffixed_not_merge.
    - apply code_not_user.
    - intros c _. destruct (suffix_shape common in_use) as [k ->]. destruct (unused_shape "data_algebra_temp_null_key_col" in_use) as [m ->]. apply suffixed_not_nullkey.
    - apply unused_sep. simpl. discriminate.
    - intros a b _ _ E. apply str_app_inv_tail in E. exact E.
  Qed.
End Good.
Local Close Scope string_scope.

(* ------------------------------------------------------------------ the Pandas steps as they are *)
Section Code.
  Context {A : Type} (P : prims A).

  Theorem pandas_steps_never_capture s (f g : frame A) :
    NoDup (fcols f) -> NoDup (fcols g) -> step_refers_to_frame s f g -> pexec_code P s f g = plain P s f g.
  Proof.
    intros Nf Ng W. unfold pexec_code. destruct s as [ops gb|ops part order rev|how on nk]; simpl in *.
    - apply project_no_capture. apply code_good_project. intros c Hc. unfold proj_user in Hc. rewrite in_app_iff in *.
      destruct Hc as [Hc|Hc]; [left; apply W; rewrite in_app_iff; left; exact Hc|].
      apply in_flat_map in Hc. destruct Hc as [o [Ho [<-|Hc]]]; [right; apply in_map, Ho|].
      left. apply W. rewrite in_app_iff. right. apply in_flat_map. exists o. split; assumption.
    - apply wextend_no_capture. apply code_good_wextend. intros c Hc. rewrite in_app_iff in *. destruct Hc as [Hc|Hc]; [left; exact Hc|].
      unfold wext_user in Hc. rewrite !in_app_iff in Hc.
      destruct Hc as [Hc|[Hc|[Hc|Hc]]]; try (left; apply W; rewrite !in_app_iff; tauto).
      apply in_flat_map in Hc. destruct Hc as [o [Ho [<-|Hc]]]; [right; apply in_map, Ho|].
      left. apply W. rewrite !in_app_iff. right. right. right. apply in_flat_map. exists o. split; assumption.
    - apply join_no_capture; [exact Nf|exact Ng|]. apply code_good_join. intros c Hc. rewrite !in_app_iff in *.
      destruct Hc as [Hc|[Hc|Hc]]; [left; exact Hc|right; exact Hc|left; apply W, Hc].
  Qed.
End Code.

(* ------------------------------------------------------------------ the property for the Pandas steps as they are *)
Section CodeEquivariant.
  Context {A : Type} (P : prims A) (rho : string -> string) (Hinj : injective rho).

  Lemma arg_cols_rename a c : In c (arg_cols (rename_arg rho a)) -> exists c0, c = rho c0 /\ In c0 (arg_cols a).
  Proof. destruct a as [|c0|v]; simpl; try tauto. intros [<-|[]]. exists c0. split; [reflexivity|left; reflexivity]. Qed.

  Lemma ops_args_rename ops c :
    In c (flat_map (fun o => arg_cols (so_arg o)) (map (rename_sop rho) ops)) -> exists c0, c = rho c0 /\ In c0 (flat_map (fun o => arg_cols (so_arg o)) ops).
  Proof.
    intros H. apply in_flat_map in H. destruct H as [o' [Ho' Hc]]. apply in_map_iff in Ho'. destruct Ho' as [o [<- Ho]]. simpl in Hc.
    destruct (arg_cols_rename _ _ Hc) as [c0 [-> H0]]. exists c0. split; [reflexivity|]. apply in_flat_map. exists o. split; assumption.
  Qed.

  Lemma refers_rename s (f g : frame A) :
    step_refers_to_frame s f g -> step_refers_to_frame (rename_step rho s) (rename_frame rho f) (rename_frame rho g).
  Proof.
    assert (Cols : fcols (rename_frame rho f) = map rho (fcols f)) by (unfold rename_frame, fcols; rewrite !map_map; reflexivity).
    destruct s as [ops gb|ops part order rev|how on nk]; simpl; intros W c Hc; rewrite Cols.
    - rewrite in_app_iff in Hc. destruct Hc as [Hc|Hc].
      + apply in_map_iff in Hc. destruct Hc as [c0 [<- H0]]. apply in_map, W. rewrite in_app_iff. left. exact H0.
      + destruct (ops_args_rename _ _ Hc) as [c0 [-> H0]]. apply in_map, W. rewrite in_app_iff. right. exact H0.
    - rewrite !in_app_iff in Hc. destruct Hc as [Hc|[Hc|[Hc|Hc]]].
      + apply in_map_iff in Hc. destruct Hc as [c0 [<- H0]]. apply in_map, W. rewrite !in_app_iff. tauto.
      + apply in_map_iff in Hc. destruct Hc as [c0 [<- H0]]. apply in_map, W. rewrite !in_app_iff. tauto.
      + apply in_map_iff in Hc. destruct Hc as [c0 [<- H0]]. apply in_map, W. rewrite !in_app_iff. tauto.
      + destruct (ops_args_rename _ _ Hc) as [c0 [-> H0]]. apply in_map, W. rewrite !in_app_iff. tauto.
    - apply in_map_iff in Hc. destruct Hc as [c0 [<- H0]]. apply in_map, W, H0.
  Qed.

  (* renaming the user's columns -- to ANY names, the executor's base names included -- renames the step's result *)
  Theorem pandas_steps_rename_equivariant s (f g : frame A) :
    NoDup (fcols f) -> NoDup (fcols g) -> step_refers_to_frame s f g ->
    pexec_code P (rename_step rho s) (rename_frame rho f) (rename_frame rho g) = option_map (rename_frame rho) (pexec_code P s f g).
  Proof.
    intros Nf Ng W.
    rewrite (pandas_steps_never_capture P (rename_step rho s) (rename_frame rho f) (rename_frame rho g)
               (rf_nodup rho Hinj f Nf) (rf_nodup rho Hinj g Ng) (refers_rename s f g W)).
    rewrite (pandas_steps_never_capture P s f g Nf Ng W). apply (plain_equivariant P rho Hinj).
  Qed.
End CodeEquivariant.
