(* SQLGEN: regression witnesses -- the generator as it was BEFORE two repairs, evaluated by the SQL semantics. *)
From Coq Require Import List Bool Arith ZArith QArith String.
Import ListNotations.
From DA Require Import Base.PyRT Base.Val Model.Sem Model.ColumnsUsed Model.SqlGen Model.SqlSem.
Local Open Scope string_scope.
Local Open Scope list_scope.

Definition rx_t := OTable "t" ["a"; "b"].
Definition rx_env : env := [("t", mktable ["a"; "b"] [[VNum 1; VNum 2]; [VNum 3; VNull]; [VNum 5; VNum 6]])].
Definition one : expr := EConst (VNum 1).

(* c520ee9.  t.project({s: a.sum()}).extend({c: 1}).select_columns([c]) : every output of the un-grouped project is pruned.
   Before the repair project_to_near_sql wrote a step without terms (SELECT * FROM t): no aggregation, one row per row of t. *)
Definition rx_proj_ops := [("s", EOp "sum" [ECol "a"])].
Definition rx_p1 := OSelectCols (OExtend (OProject rx_t rx_proj_ops []) [("c", one)] false no_window) ["c"].
Definition rx_q1_pre : tnear :=
  TUnary (mkvn "extend" 1) (Some [("c", TmExpr one)])
         (project_step_pre_c520ee9 (TTable "t" None) (OProject rx_t rx_proj_ops []) rx_proj_ops [] [] 0)
         (mk_tci (Some []) false None) SfxNone true (Some [("c", [])]).

Lemma c520ee9_regression :
  option_map (fun t => List.length (rows t)) (sem_gen fl_sqlite rx_p1 rx_env) = Some 1%nat /\
  option_map (fun t => List.length (rows t)) (nsem fl_sqlite rx_q1_pre rx_env) = Some 3%nat /\
  match to_near d_sqlite rx_p1 None 0 with Ok (q, _) => nsem fl_sqlite q rx_env = sem_gen fl_sqlite rx_p1 rx_env | _ => False end.
Proof. split; [vm_compute; reflexivity|]. split; vm_compute; reflexivity. Qed.

(* 6f11e66.  A final t.order_rows([a]) over a stored table that has a column the description does not declare.
   Before the repair order_to_near_sql wrote no terms for a final order_rows (SELECT * ... ORDER BY): the undeclared column
   came back with the result. *)
Definition rx_p2 := OOrder rx_t ["a"] ["a"] None.
Definition rx_env_wide : env := [("t", mktable ["a"; "b"; "zz"] [[VNum 1; VNum 2; VStr "x"]; [VNum 3; VNull; VStr "y"]])].
Definition rx_q2_pre : tnear := order_step_pre_6f11e66 (TTable "t" (Some ["a"; "b"])) ["a"; "b"] true ["a"] ["a"] None 0.

Lemma f6f11e66_regression :
  option_map cols (nsem fl_sqlite rx_q2_pre rx_env_wide) = Some ["a"; "b"; "zz"] /\
  match to_near d_sqlite rx_p2 None 0 with
  | Ok (q, _) => option_map cols (nsem fl_sqlite q rx_env_wide) = Some (column_names rx_p2) /\
                 nsem fl_sqlite q rx_env = sem_gen fl_sqlite rx_p2 rx_env
  | _ => False end.
Proof. split; [vm_compute; reflexivity|]. vm_compute. split; reflexivity. Qed.
