(* C12, part 8: printing a builder-normal pipeline and evaluating the text gives the pipeline back (induction over the
   operator tree), and what follows: `==`, equal meaning, injectivity of the printer; the expression-level statement. *)
From Coq Require Import List Bool String Ascii ZArith NArith QArith Arith Lia.
Import ListNotations.
From DA Require Import Base.PyRT Base.Val Model.Sem Model.Equiv Proofs.EquivP1 Proofs.EquivP2 Proofs.EquivP5 Proofs.EquivP6.
From DA Require Import Model.PyExpr Model.ExprPrint Model.ExprParse Model.ExprRoundtrip Model.PipePrintStr Model.PipePrintSyn Model.PipePrint.
From DA Require Import Proofs.ExprParseP14 Proofs.PipePrintP4 Proofs.PipePrintP5 Proofs.PipePrintP6 Proofs.PipePrintP7.
Local Close Scope Q_scope.
Local Open Scope string_scope.
Local Open Scope bool_scope.
Local Open Scope list_scope.

(* the float constants of a pipeline satisfy the repr / float() assumption *)
Fixpoint floats_ok_op (E : penv) (p : eop) : Prop :=
  match p with
  | ETable _ _ _ => True
  | EExtend s ops _ _ _ _ | EProject s ops _ => ops_floats_ok E ops /\ floats_ok_op E s
  | ESelectRows s e => px_floats_ok E e /\ floats_ok_op E s
  | ESelectCols s _ | EDropCols s _ | ERename s _ | EMapCols s _ _ | EOrder s _ _ _ | EConvert s _ => floats_ok_op E s
  | EJoin a b _ _ _ | EConcat a b _ _ _ => floats_ok_op E a /\ floats_ok_op E b
  end.

Section Main.
Variable E : penv.
Hypothesis unq : forall s, py_unquote (py_repr (e_np E) s) = Some s.
Hypothesis lexh : forall e, lexable e = true -> (forall m, In m (floats_of e) -> float_lex_ok (e_F E) m) ->
  lexg (e_F E) (expr_text (e_F E) (e_np E) e) = Some (to_python e).

Lemma normal_src_extend s ops part order rev w : normal E (EExtend s ops part order rev w) = true -> normal E s = true.
Proof. cbn [normal]. intros H. repeat (apply andb_true_iff in H; destruct H as [H _]). exact H. Qed.

Lemma all_good p : normal E p = true -> floats_ok_op E p -> good E p.
Proof. induction p as [name cols quals|s IH ops part order rev w|s IH ops gb|s IH e|s IH cs|s IH ds|s IH m|s IH m dels|s IH cs rev limit
                       |a IHa b IHb oa ob jt|a IHa b IHb idc an bn|s IH rm]; intros N F.
  - apply (table_good E unq). exact N.
  - destruct F as [Fo Fs]. apply (extend_good E unq lexh); [exact N|exact Fo|]. apply IH; [|exact Fs]. exact (normal_src_extend _ _ _ _ _ _ N).
  - destruct F as [Fo Fs]. apply (project_good E unq lexh); [exact N|exact Fo|]. apply IH; [|exact Fs].
    cbn [normal] in N. repeat (apply andb_true_iff in N; destruct N as [N _]). exact N.
  - destruct F as [Fe Fs]. apply (select_rows_good E unq lexh); [exact N|exact Fe|]. apply IH; [|exact Fs].
    cbn [normal] in N. repeat (apply andb_true_iff in N; destruct N as [N _]). exact N.
  - apply (select_cols_good E unq); [exact N|]. apply IH; [|exact F]. cbn [normal] in N. repeat (apply andb_true_iff in N; destruct N as [N _]). exact N.
  - apply (drop_cols_good E unq); [exact N|]. apply IH; [|exact F]. cbn [normal] in N. repeat (apply andb_true_iff in N; destruct N as [N _]). exact N.
  - apply (rename_good E unq); [exact N|]. apply IH; [|exact F]. cbn [normal] in N. repeat (apply andb_true_iff in N; destruct N as [N _]). exact N.
  - apply (map_cols_good E unq); [exact N|]. apply IH; [|exact F]. cbn [normal] in N. repeat (apply andb_true_iff in N; destruct N as [N _]). exact N.
  - apply (order_good E unq); [exact N|]. apply IH; [|exact F]. cbn [normal] in N. repeat (apply andb_true_iff in N; destruct N as [N _]). exact N.
  - destruct F as [Fa Fb]. pose proof N as N'. cbn [normal] in N'.
    repeat match goal with Hx : _ && _ = true |- _ => apply andb_true_iff in Hx; destruct Hx end.
    apply (join_good E unq); [exact N|apply IHa; assumption|apply IHb; assumption].
  - destruct F as [Fa Fb]. pose proof N as N'. cbn [normal] in N'.
    repeat match goal with Hx : _ && _ = true |- _ => apply andb_true_iff in Hx; destruct Hx end.
    apply (concat_good E unq); [exact N|apply IHa; assumption|apply IHb; assumption].
  - apply (convert_good E unq); [exact N|]. apply IH; [|exact F]. cbn [normal] in N. repeat (apply andb_true_iff in N; destruct N as [N _]). exact N. Qed.

(* printing and evaluating the text gives the pipeline back *)
Theorem print_rebuild p : normal E p = true -> floats_ok_op E p ->
  exists ts, print_op E p = Some ts /\ rebuild E ts = Some p.
Proof. intros N F. destruct (all_good p N F) as [s [S1 [S2 [S3 S4]]]].
  exists (flatten (SPar s)). split; [unfold print_op, pipe_syn; rewrite S1; reflexivity|].
  unfold rebuild. rewrite (parse_flatten (SPar s)) by exact S2.
  change (eval_syn E (SPar s)) with (eval_syn E s). rewrite S4. reflexivity. Qed.

(* ... hence a pipeline that `==` the original *)
Corollary print_rebuild_eq p : normal E p = true -> floats_ok_op E p ->
  exists ts p', print_op E p = Some ts /\ rebuild E ts = Some p' /\ pipeline_eqb p p' = true /\ pipeline_eqb p' p = true.
Proof. intros N F. destruct (print_rebuild p N F) as [ts [P R]]. exists ts, p. repeat split; try assumption; apply pipeline_eqb_refl. Qed.

(* the printer is injective on normal pipelines: the text determines the tree *)
Corollary print_injective p q : normal E p = true -> normal E q = true -> floats_ok_op E p -> floats_ok_op E q ->
  print_op E p = print_op E q -> p = q.
Proof. intros Np Nq Fp Fq Eq. destruct (print_rebuild p Np Fp) as [ts [P R]]. destruct (print_rebuild q Nq Fq) as [ts' [P' R']].
  rewrite Eq, P' in P. inversion P; subst ts'. rewrite R in R'. inversion R'. reflexivity. Qed.

End Main.
