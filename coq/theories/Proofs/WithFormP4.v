(* Inlining the common table expressions of the WITH form again gives a query that denotes what the original query
   denotes (for every compositional engine): the WITH form is the nested form with sub-queries given names. *)
From Coq Require Import List Bool Arith String Ascii Lia.
Import ListNotations.
From DA Require Import Base.PyRT Model.NearSql Model.WithForm Proofs.WithFormP1.

Definition sub1 (m : list (string * nearsql)) (s : nearsql) : nearsql :=
  match s with NCte c _ => match dict_get m c with Some d => d | None => s end | _ => subst m s end.
Definition defs (m : list (string * nearsql)) (sq : wseq) : list (string * nearsql) :=
  fold_left (fun m nc => (fst nc, subst m (fst (snd nc))) :: m) sq m.

Lemma inline_defs_defs sq : inline_defs sq = defs [] sq.
Proof. reflexivity. Qed.
Lemma is_table_subst m q : is_table (subst m q) = is_table q.
Proof. destruct q; reflexivity. Qed.
Lemma defs_app m a b : defs m (a ++ b) = defs (defs m a) b.
Proof. unfold defs. apply fold_left_app. Qed.
Lemma defs_dom sq : forall m, map fst (defs m sq) = rev (map fst sq) ++ map fst m.
Proof. induction sq as [|[n c] t IH]; intros m; [reflexivity|]. simpl. rewrite IH. simpl. rewrite <- app_assoc. reflexivity. Qed.
Lemma defs_other sq : forall m n, ~ In n (map fst sq) -> dict_get (defs m sq) n = dict_get m n.
Proof. induction sq as [|[k c] t IH]; intros m n H; [reflexivity|]. simpl in *. rewrite IH by tauto. simpl.
  destruct (eq_dec n k) as [->|_]; [tauto|reflexivity]. Qed.

Definition fresh (m : list (string * nearsql)) (q : nearsql) : Prop :=
  forall n, In n (map fst m) -> ~ In n (step_names q) /\ ~ In n (ref_names q).

Section P.
Variable T : Type.
Variable E : engine T.
Variable fl : flags.
Notation nsem := (nsem E).
Notation csem := (csem E).

Definition inl_spec (q : nearsql) : Prop :=
  forall sq last oc, twf fl None q = (sq, last, oc) -> forall m0, fresh m0 q ->
    forall r cols, nsem r (subst (defs m0 sq) last) cols = nsem r q cols.

Lemma inline_operand s ci :
  NoDup (step_names s) -> (forall n, In n (step_names s) -> ~ In n (ref_names s)) -> spec_none T E fl s -> inl_spec s ->
  forall st sq oc, (if is_table s then ((s, ci), [], None) else stub_step fl s ci (twf fl None s)) = (st, sq, oc) ->
  forall m0, fresh m0 s ->
  forall m', (forall n, In n (step_names s) \/ In n (ref_names s) -> dict_get m' n = dict_get (defs m0 sq) n) ->
  forall r, csem r (sub1 m' (fst st), snd st) = csem r (s, ci).
Proof.
  intros N D S I st sq oc H m0 F m' A r. destruct (is_table s) eqn:It.
  - injection H as <- <- <-. cbn [fst snd]. destruct s; try discriminate It; cbn [sub1 subst]; [reflexivity|].
    rewrite A by (right; left; reflexivity). cbn [defs fold_left].
    assert (dict_get m0 name = None) as ->; [|reflexivity].
    apply dict_get_None. intros J. destruct (F name J) as [_ K]. apply K. left; reflexivity.
  - destruct (twf fl None s) as [[sq0 last] oc0] eqn:Et.
    destruct (S _ _ _ Et) as (-> & N0 & I0 & Qn & Itl & Sem).
    unfold stub_step in H. rewrite Itl, It in H. simpl in H.
    pose proof N as N'. rewrite step_names_head in N' by exact It. inversion N' as [|x l Hx N'']; subst x l.
    assert (mem (qname last) (map fst sq0) = false) as M.
    { apply mem_false. rewrite Qn. intros J. apply Hx, I0, J. }
    rewrite M in H. injection H as <- <- <-. cbn [fst snd sub1].
    rewrite A by (left; rewrite step_names_head by exact It; rewrite Qn; left; reflexivity).
    rewrite defs_app. cbn [defs fold_left fst snd dict_get].
    destruct (eq_dec (qname last) (qname last)) as [_|Ne]; [|congruence].
    rewrite csem_nontable by (rewrite is_table_subst, Itl; exact It).
    rewrite (csem_nontable _ E r s ci It). apply (I _ _ _ Et m0 F).
Qed.

Lemma fresh_sub m q s : fresh m q -> incl (step_names s) (step_names q) -> incl (ref_names s) (ref_names q) -> fresh m s.
Proof. intros F Is Ir n J. destruct (F n J) as [A B]. split; intros K; [apply A, Is, K|apply B, Ir, K]. Qed.

Lemma inline_node q :
  NoDup (step_names q) -> (forall n, In n (step_names q) -> ~ In n (ref_names q)) -> terms_ok q = true -> inl_spec q.
Proof.
  induction q as [n t|n k|n t s IH ci sfx an mg dp k|n t s1 IH1 c1 j s2 IH2 c2 sfx an k|n p sfx an a k|n p s IH ci sfx an a k];
  intros N D TO sq last oc H m0 F r cols; simpl in H.
  - injection H as <- <- <-. reflexivity.
  - injection H as <- <- <-. reflexivity.
  - (* unary *)
    simpl in N, D, TO. apply andb_true_iff in TO. destruct TO as [Tt Ts]. inversion N as [|x l Hn Ns]; subst x l.
    assert (forall m, In m (step_names s) -> ~ In m (ref_names s)) as Ds by (intros m J; apply D; right; exact J).
    assert (fresh m0 s) as Fs by (apply (fresh_sub m0 _ s F); [intros m J; right; exact J|apply incl_refl]).
    destruct (is_table s) eqn:It.
    + injection H as <- <- <-. cbn [defs fold_left].
      change (subst m0 (NUnary n t s ci sfx an mg dp k)) with (NUnary n t (sub1 m0 s) ci sfx an mg dp k).
      rewrite !nsem_unary. f_equal.
      apply (inline_operand s ci Ns Ds (twf_none_spec T E fl s Ns Ds Ts) (IH Ns Ds Ts) (s, ci) [] None) with (m0 := m0); [rewrite It; reflexivity|exact Fs|].
      intros; reflexivity.
    + destruct (stub_step fl s ci (twf fl None s)) as [[st sq0] oc0] eqn:Es. injection H as <- <- <-.
      change (subst (defs m0 sq0) (NUnary n (norm_terms t) (fst st) (snd st) sfx an false None k))
        with (NUnary n (norm_terms t) (sub1 (defs m0 sq0) (fst st)) (snd st) sfx an false None k).
      rewrite (norm_terms_ok _ Tt), !nsem_unary. f_equal.
      apply (inline_operand s ci Ns Ds (twf_none_spec T E fl s Ns Ds Ts) (IH Ns Ds Ts) st sq0 oc0) with (m0 := m0); [rewrite It; exact Es|exact Fs|].
      intros; reflexivity.
  - (* binary *)
    simpl in N, D, TO. apply andb_true_iff in TO. destruct TO as [TO Ts2]. apply andb_true_iff in TO. destruct TO as [Tt Ts1].
    inversion N as [|x l Hn Ns]; subst x l.
    assert (NoDup (step_names s1)) as N1 by (eapply NoDup_app_l; exact Ns).
    assert (NoDup (step_names s2)) as N2 by (eapply NoDup_app_r; exact Ns).
    assert (forall m, In m (step_names s1) -> ~ In m (ref_names s1)) as D1.
    { intros m I J. apply (D m); [right; apply in_app_iff; tauto|apply in_app_iff; tauto]. }
    assert (forall m, In m (step_names s2) -> ~ In m (ref_names s2)) as D2.
    { intros m I J. apply (D m); [right; apply in_app_iff; tauto|apply in_app_iff; tauto]. }
    pose proof (twf_none_spec T E fl s1 N1 D1 Ts1) as S1. pose proof (twf_none_spec T E fl s2 N2 D2 Ts2) as S2.
    assert (fresh m0 s1) as F1.
    { apply (fresh_sub m0 _ s1 F); [intros m J; right; apply in_app_iff; tauto|intros m J; apply in_app_iff; tauto]. }
    assert (fresh m0 s2) as F2.
    { apply (fresh_sub m0 _ s2 F); [intros m J; right; apply in_app_iff; tauto|intros m J; apply in_app_iff; tauto]. }
    destruct (is_table s1 && is_table s2) eqn:Both.
    + injection H as <- <- <-. cbn [defs fold_left].
      change (subst m0 (NBinary n t s1 c1 j s2 c2 sfx an k)) with (NBinary n t (sub1 m0 s1) c1 j (sub1 m0 s2) c2 sfx an k).
      apply andb_true_iff in Both. destruct Both as [It1 It2]. rewrite !nsem_binary. f_equal.
      * apply (inline_operand s1 c1 N1 D1 S1 (IH1 N1 D1 Ts1) (s1, c1) [] None) with (m0 := m0); [rewrite It1; reflexivity|exact F1|intros; reflexivity].
      * apply (inline_operand s2 c2 N2 D2 S2 (IH2 N2 D2 Ts2) (s2, c2) [] None) with (m0 := m0); [rewrite It2; reflexivity|exact F2|intros; reflexivity].
    + destruct (if is_table s1 then (s1, c1, [], None) else stub_step fl s1 c1 (twf fl None s1)) as [[st1 sq1] oc1] eqn:E1.
      destruct (operand_none_holds T E fl s1 c1 N1 S1 _ _ _ E1) as (-> & Nq1 & Iq1 & R1 & Ec1 & Sem1).
      destruct (if is_table s2 then (s2, c2, [], None) else stub_step fl s2 c2 (twf fl None s2)) as [[st2 sq2] oc2] eqn:E2.
      destruct (operand_none_holds T E fl s2 c2 N2 S2 _ _ _ E2) as (-> & Nq2 & Iq2 & R2 & Ec2 & Sem2).
      injection H as <- <- <-.
      assert (forall m, In m (map fst sq2) -> ~ In m (map fst sq1)) as Dj.
      { intros m I2 I1. apply (NoDup_app_disj _ _ m Ns); [apply Iq1, I1|apply Iq2, I2]. }
      rewrite merge_seq_id by assumption. rewrite defs_app.
      set (mA := defs m0 sq1). set (mB := defs mA sq2).
      change (subst mB (NBinary n (norm_terms t) (fst st1) (snd st1) j (fst st2) (snd st2) sfx an k))
        with (NBinary n (norm_terms t) (sub1 mB (fst st1)) (snd st1) j (sub1 mB (fst st2)) (snd st2) sfx an k).
      rewrite (norm_terms_ok _ Tt), !nsem_binary. rewrite Ec1, Ec2. f_equal.
      * rewrite <- Ec1 at 1. apply (inline_operand s1 c1 N1 D1 S1 (IH1 N1 D1 Ts1) st1 sq1 None E1 m0 F1).
        intros m Hm. unfold mB. apply defs_other. intros J. apply Iq2 in J. destruct Hm as [K|K].
        -- exact (NoDup_app_disj _ _ m Ns K J).
        -- apply (D m); [right; apply in_app_iff; right; exact J|apply in_app_iff; left; exact K].
      * rewrite <- Ec2 at 1. apply (inline_operand s2 c2 N2 D2 S2 (IH2 N2 D2 Ts2) st2 sq2 None E2 mA); [|intros; reflexivity].
        intros m J. unfold mA in J. rewrite defs_dom, in_app_iff, <- in_rev in J. destruct J as [J|J]; [|exact (F2 m J)].
        apply Iq1 in J. split; intros K.
        -- exact (NoDup_app_disj _ _ m Ns J K).
        -- apply (D m); [right; apply in_app_iff; left; exact J|apply in_app_iff; right; exact K].
  - injection H as <- <- <-. reflexivity.
  - (* raw query over a sub-query *)
    simpl in N, D, TO. inversion N as [|x l Hn Ns]; subst x l.
    assert (forall m, In m (step_names s) -> ~ In m (ref_names s)) as Ds by (intros m J; apply D; right; exact J).
    assert (fresh m0 s) as Fs by (apply (fresh_sub m0 _ s F); [intros m J; right; exact J|apply incl_refl]).
    destruct (is_table s) eqn:It.
    + injection H as <- <- <-. cbn [defs fold_left].
      change (subst m0 (NRaw1 n p s ci sfx an a k)) with (NRaw1 n p (sub1 m0 s) ci sfx an a k).
      rewrite !nsem_raw1. f_equal.
      apply (inline_operand s ci Ns Ds (twf_none_spec T E fl s Ns Ds TO) (IH Ns Ds TO) (s, ci) [] None) with (m0 := m0); [rewrite It; reflexivity|exact Fs|].
      intros; reflexivity.
    + destruct (stub_step fl s ci (twf fl None s)) as [[st sq0] oc0] eqn:Es. injection H as <- <- <-.
      change (subst (defs m0 sq0) (NRaw1 n p (fst st) (snd st) sfx an a k))
        with (NRaw1 n p (sub1 (defs m0 sq0) (fst st)) (snd st) sfx an a k).
      rewrite !nsem_raw1. f_equal.
      apply (inline_operand s ci Ns Ds (twf_none_spec T E fl s Ns Ds TO) (IH Ns Ds TO) st sq0 oc0) with (m0 := m0); [rewrite It; exact Es|exact Fs|].
      intros; reflexivity.
Qed.

(* use_with on / off: the WITH form with its common table expressions inlined again denotes the original query *)
Theorem with_form_inlined_preserves q r :
  hygienic q = true -> nsem r (inline_ctes (fst (to_with_form fl None q))) None = nsem r q None.
Proof.
  intros H. destruct (hygienic_spec q H) as (N & D & TO). unfold to_with_form, inline_ctes.
  destruct (twf fl None q) as [[sq last] oc] eqn:Et. cbn [fst w_prev w_last]. rewrite inline_defs_defs.
  apply (inline_node q N D TO _ _ _ Et []). intros n [].
Qed.
End P.
