(* Proofs about the REGENERATED value_to_sql (Gen/G_ValueToSql.v) over the Python value model of Model/PyVal.v, against the
   literal-token lexing rules of Model/Lex.v. *)
From Coq Require Import List Bool Arith ZArith Ascii String Lia ZifyBool.
From Coq Require Import DecimalN.
Import ListNotations.
From DA Require Import Base.PyRT Base.PyStr Model.Lex Model.PyVal Gen.G_Quote Gen.G_ValueToSql Proofs.QuoteP.
Local Open Scope string_scope.

(* ---------------------------------------------------------------- digit sequences *)

Lemma char_digit_char (d : digit) : char_digit (digit_char d) = Some d.
Proof. destruct d; reflexivity. Qed.

Definition starts_with_digit (s : string) : bool :=
  match s with String c _ => match char_digit c with Some _ => true | None => false end | EmptyString => false end.

Lemma read_digits_nodigit (rest : string) : starts_with_digit rest = false -> read_digits rest = ([], rest).
Proof.
  destruct rest as [|c r]; [reflexivity|]. cbn [starts_with_digit read_digits].
  destruct (char_digit c); [discriminate | reflexivity].
Qed.

Lemma read_digits_dstr (ds : list digit) (rest : string) :
  starts_with_digit rest = false -> read_digits (dstr ds ++ rest) = (ds, rest).
Proof.
  intros H. induction ds as [|d ds IH].
  - cbn [dstr append]. apply read_digits_nodigit, H.
  - cbn [dstr append read_digits]. rewrite char_digit_char, IH. reflexivity.
Qed.

Lemma dval_acc_lin (ds : list digit) : forall acc, dval_acc ds acc = (acc * 10 ^ Z.of_nat (List.length ds) + dval ds)%Z.
Proof.
  induction ds as [|d ds IH]; intros acc.
  - unfold dval. cbn. lia.
  - unfold dval. cbn [dval_acc List.length].
    rewrite (IH (10 * acc + digit_val d)%Z), (IH (10 * 0 + digit_val d)%Z).
    rewrite Nat2Z.inj_succ, Z.pow_succ_r by lia. ring.
Qed.

Lemma dval_acc_app (a b : list digit) : forall acc, dval_acc (a ++ b)%list acc = dval_acc b (dval_acc a acc).
Proof. induction a as [|x a IH]; intros acc; cbn [List.app dval_acc]; [reflexivity | apply IH]. Qed.

Lemma dval_app (a b : list digit) : dval (a ++ b)%list = (dval a * 10 ^ Z.of_nat (List.length b) + dval b)%Z.
Proof. unfold dval at 1. rewrite dval_acc_app, dval_acc_lin. reflexivity. Qed.

Lemma dval_repeat0 (k : nat) : dval (repeat d0 k) = 0%Z.
Proof.
  induction k as [|k IH]; [reflexivity|].
  unfold dval in *. cbn [repeat dval_acc digit_val]. exact IH.
Qed.

Lemma dval_lead0 (k : nat) (ds : list digit) : dval (repeat d0 k ++ ds)%list = dval ds.
Proof. rewrite dval_app, dval_repeat0. lia. Qed.

Lemma dval_cons0 (ds : list digit) : dval (d0 :: ds) = dval ds.
Proof. reflexivity. Qed.

(* the stdlib's decimal printing of N, read back *)
Lemma of_uint_acc_dval (u : Decimal.uint) : forall acc : positive,
  Zpos (Pos.of_uint_acc u acc) = dval_acc (digits_of_uint u) (Zpos acc).
Proof.
  induction u as [|u IH|u IH|u IH|u IH|u IH|u IH|u IH|u IH|u IH|u IH]; intros acc;
    cbn [Pos.of_uint_acc digits_of_uint dval_acc digit_val]; [reflexivity|..]; rewrite IH; f_equal; lia.
Qed.

Lemma of_uint_dval (u : Decimal.uint) : Z.of_N (Pos.of_uint u) = dval (digits_of_uint u).
Proof.
  induction u as [|u IH|u IH|u IH|u IH|u IH|u IH|u IH|u IH|u IH|u IH];
    cbn [Pos.of_uint digits_of_uint]; [reflexivity | rewrite dval_cons0; exact IH |..];
    unfold dval; cbn [dval_acc digit_val Z.of_N]; rewrite of_uint_acc_dval; reflexivity.
Qed.

Lemma dval_digits_of_N (n : N) : dval (digits_of_N n) = Z.of_N n.
Proof.
  unfold digits_of_N. rewrite <- of_uint_dval.
  change (Pos.of_uint (N.to_uint n)) with (N.of_uint (N.to_uint n)). rewrite DecimalN.Unsigned.of_to. reflexivity.
Qed.

Lemma digits_of_uint_nonnil (u : Decimal.uint) : u <> Decimal.Nil -> digits_of_uint u <> [].
Proof. destruct u; intros H; try discriminate; congruence. Qed.

Lemma digits_of_N_nonnil (n : N) : digits_of_N n <> [].
Proof.
  unfold digits_of_N. apply digits_of_uint_nonnil.
  destruct n as [|p]; [discriminate|]. cbn [N.to_uint]. apply DecimalPos.Unsigned.to_uint_nonnil.
Qed.

(* ---------------------------------------------------------------- numeric literal tokens *)

Lemma ends_token_first (c : ascii) (r : string) : ends_token (String c r) = true ->
  char_digit c = None /\ Ascii.eqb c "." = false /\ (Ascii.eqb c "e" || Ascii.eqb c "E") = false.
Proof.
  cbn [ends_token]. destruct c as [[|] [|] [|] [|] [|] [|] [|] [|]]; vm_compute; intros H; repeat split; congruence.
Qed.

Lemma read_fraction_nodot (c : ascii) (r : string) : Ascii.eqb c "." = false -> read_fraction (String c r) = (None, String c r).
Proof. intros H. destruct c as [[|] [|] [|] [|] [|] [|] [|] [|]]; try reflexivity; discriminate H. Qed.

Lemma ends_token_reads (rest : string) : ends_token rest = true ->
  starts_with_digit rest = false /\ read_fraction rest = (None, rest) /\ read_exponent rest = (None, rest).
Proof.
  destruct rest as [|c r]; [intros; repeat split; reflexivity|].
  intros H. apply ends_token_first in H. destruct H as (Hd & Hdot & He). repeat split.
  - cbn [starts_with_digit]. rewrite Hd. reflexivity.
  - apply read_fraction_nodot, Hdot.
  - cbn [read_exponent]. rewrite He. reflexivity.
Qed.

(* the text of an unsigned numeric literal with the given parts, followed by rest *)
Definition exp_text (exs : option (bool * list digit)) (rest : string) : string :=
  match exs with None => rest | Some (sg, e) => String "e" (String (if sg then "-" else "+")%char (dstr e ++ rest)) end.
Definition frac_text (fp : option (list digit)) (rest : string) : string :=
  match fp with None => rest | Some f => String "." (dstr f ++ rest) end.
Definition num_text (ip : list digit) (fp : option (list digit)) (exs : option (bool * list digit)) (rest : string) : string :=
  dstr ip ++ frac_text fp (exp_text exs rest).
Definition exs_val (exs : option (bool * list digit)) : option Z :=
  option_map (fun se : bool * list digit => if fst se then (- dval (snd se))%Z else dval (snd se)) exs.

Lemma read_unsigned_num_text (neg : bool) (ip : list digit) (fp : option (list digit)) (exs : option (bool * list digit)) (rest : string) :
  ip <> [] -> match fp with Some f => f <> [] | None => True end ->
  match exs with Some (_, e) => e <> [] | None => True end -> ends_token rest = true ->
  read_unsigned neg (num_text ip fp exs rest) = Some (mk_numtok neg ip fp (exs_val exs), rest).
Proof.
  intros Hip Hfp Hex Hr. destruct (ends_token_reads rest Hr) as (R1 & R2 & R3).
  assert (E1 : starts_with_digit (exp_text exs rest) = false)
    by (destruct exs as [[sg e]|]; [reflexivity | exact R1]).
  assert (S1 : starts_with_digit (frac_text fp (exp_text exs rest)) = false)
    by (destruct fp as [f|]; [reflexivity | exact E1]).
  assert (S2 : read_fraction (frac_text fp (exp_text exs rest)) = (fp, exp_text exs rest)).
  { destruct fp as [f|].
    - cbn [frac_text read_fraction]. rewrite (read_digits_dstr f _ E1). destruct f; [congruence | reflexivity].
    - cbn [frac_text]. destruct exs as [[sg e]|]; [reflexivity | exact R2]. }
  assert (S3 : read_exponent (exp_text exs rest) = (exs_val exs, rest)).
  { destruct exs as [[sg e]|]; [|exact R3].
    destruct sg; cbn [exp_text read_exponent]; cbn; rewrite (read_digits_dstr e _ R1); (destruct e; [congruence | reflexivity]). }
  unfold read_unsigned, num_text. rewrite (read_digits_dstr ip _ S1).
  destruct ip as [|i0 ip']; [congruence|]. rewrite S2, S3. reflexivity.
Qed.

(* the string quote of every dialect is the single or the double quote character *)
Definition quote_ok (q : ascii) : bool := Ascii.eqb q "'" || Ascii.eqb q """".

Lemma quote_ok_not (c q : ascii) : quote_ok q = true -> (is_word_char c = true \/ c = "-"%char) -> Ascii.eqb c q = false.
Proof.
  intros H W. destruct (Ascii.eqb c q) eqn:Q; [|reflexivity].
  apply Ascii.eqb_eq in Q. subst q. unfold quote_ok in H. apply orb_true_iff in H.
  destruct H as [H|H]; apply Ascii.eqb_eq in H; subst c; (destruct W as [W|W]; [vm_compute in W|]; discriminate).
Qed.

Lemma digit_char_word (d : digit) : is_word_char (digit_char d) = true.
Proof. destruct d; reflexivity. Qed.

Lemma read_number_digit (d : digit) (s : string) :
  read_number (String (digit_char d) s) = read_unsigned false (String (digit_char d) s).
Proof. destruct d; reflexivity. Qed.

Definition sign_text (neg : bool) : string := if neg then "-" else "".

Lemma read_value_number (fam : family) (q : ascii) (neg : bool) (ip : list digit) (fp : option (list digit))
      (exs : option (bool * list digit)) (rest : string) :
  quote_ok q = true -> ip <> [] -> match fp with Some f => f <> [] | None => True end ->
  match exs with Some (_, e) => e <> [] | None => True end -> ends_token rest = true ->
  read_value fam q (sign_text neg ++ num_text ip fp exs rest) = Some (SNum (mk_numtok neg ip fp (exs_val exs)), rest).
Proof.
  intros Hq Hip Hfp Hex Hr. destruct neg.
  - cbn [sign_text append read_value]. rewrite (quote_ok_not "-" q Hq) by (right; reflexivity).
    cbn [Ascii.eqb Bool.eqb orb read_number]. rewrite read_unsigned_num_text by assumption. rewrite Hr. reflexivity.
  - cbn [sign_text append]. destruct ip as [|d tl]; [congruence|].
    unfold num_text. cbn [dstr append read_value].
    rewrite (quote_ok_not (digit_char d) q Hq) by (left; apply digit_char_word).
    rewrite char_digit_char, orb_true_r, read_number_digit.
    change (String (digit_char d) (dstr tl ++ frac_text fp (exp_text exs rest))) with (num_text (d :: tl) fp exs rest).
    rewrite read_unsigned_num_text by assumption. rewrite Hr. reflexivity.
Qed.

(* ---------------------------------------------------------------- what a numeric token denotes *)

(* the token t denotes (+/-) m * 10^e  (its own mantissa may carry k extra trailing zeros) *)
Definition num_denotes (t : numtok) (neg : bool) (m e : Z) : Prop :=
  nt_neg t = neg /\ exists k, (0 <= k)%Z /\ nt_mant t = (m * 10 ^ k)%Z /\ (nt_exp10 t + k = e)%Z.

Lemma int_reads (fam : family) (q : ascii) (z : Z) (rest : string) : quote_ok q = true -> ends_token rest = true ->
  exists t, read_value fam q (py_str_int z ++ rest) = Some (SNum t, rest) /\
            nt_is_integer t = true /\ nt_neg t = (z <? 0)%Z /\ nt_mant t = Z.abs z.
Proof.
  intros Hq Hr.
  assert (G : forall neg n, read_value fam q (sign_text neg ++ dstr (digits_of_N n) ++ rest)
                            = Some (SNum (mk_numtok neg (digits_of_N n) None None), rest)).
  { intros neg n. exact (read_value_number fam q neg (digits_of_N n) None None rest Hq (digits_of_N_nonnil n) I I Hr). }
  assert (M : forall neg n, nt_mant (mk_numtok neg (digits_of_N n) None None) = Z.of_N n).
  { intros neg n. unfold nt_mant. cbn [nt_ip nt_fp]. rewrite app_nil_r. apply dval_digits_of_N. }
  destruct z as [|p|p].
  - exists (mk_numtok false (digits_of_N 0) None None). split; [exact (G false 0%N)|]. rewrite M. repeat split.
  - exists (mk_numtok false (digits_of_N (Npos p)) None None). split; [exact (G false (Npos p))|]. rewrite M. repeat split.
  - exists (mk_numtok true (digits_of_N (Npos p)) None None). split; [exact (G true (Npos p))|]. rewrite M. repeat split.
Qed.

Lemma exp_pad_dval (ds : list digit) : dval (match ds with [_] => d0 :: ds | _ => ds end) = dval ds.
Proof. destruct ds as [|a [|b c]]; reflexivity. Qed.
Lemma exp_pad_nonnil (ds : list digit) : ds <> [] -> match ds with [_] => d0 :: ds | _ => ds end <> [].
Proof. destruct ds as [|a [|b c]]; intros H; congruence. Qed.

Lemma float_fin_reads (fam : family) (q : ascii) (neg : bool) (ds : list digit) (decpt : Z) (rest : string) :
  quote_ok q = true -> ds <> [] -> ends_token rest = true ->
  exists t, read_value fam q (float_repr_fin neg ds decpt ++ rest) = Some (SNum t, rest) /\
            num_denotes t neg (dval ds) (decpt - Z.of_nat (List.length ds)).
Proof.
  intros Hq Hds Hr. unfold float_repr_fin. rewrite str_append_assoc.
  change (if neg then "-" else "") with (sign_text neg).
  destruct ((decpt <=? -4) || (16 <? decpt))%Z eqn:Eexp.
  - (* exponent form *)
    destruct ds as [|d tl]; [congruence|].
    set (e := (decpt - 1)%Z).
    set (ed := match digits_of_N (Z.to_N (Z.abs e)) with [x] => d0 :: digits_of_N (Z.to_N (Z.abs e)) | _ => digits_of_N (Z.to_N (Z.abs e)) end).
    assert (Hed : ed <> []) by (apply exp_pad_nonnil, digits_of_N_nonnil).
    assert (Ved : dval ed = Z.abs e) by (unfold ed; rewrite exp_pad_dval, dval_digits_of_N; lia).
    assert (T : (String (digit_char d) (match tl with [] => "" | _ :: _ => String "." (dstr tl) end ++ String "e" (exp_str e))) ++ rest
                = num_text [d] (match tl with [] => None | _ :: _ => Some tl end) (Some ((e <? 0)%Z, ed)) rest).
    { unfold num_text, exp_str. fold ed. destruct tl as [|x tl']; cbn [dstr append frac_text exp_text].
      - destruct (e <? 0)%Z; reflexivity.
      - rewrite str_append_assoc. cbn [append]. destruct (e <? 0)%Z; reflexivity. }
    rewrite T.
    eexists. split.
    + apply read_value_number; try assumption; [discriminate | destruct tl; [exact I | discriminate]].
    + split; [reflexivity|]. exists 0%Z. split; [lia|].
      unfold nt_mant, nt_exp10, exs_val. cbn [nt_ip nt_fp nt_ex option_map fst snd]. rewrite Ved.
      destruct tl as [|x tl']; cbn [List.app List.length]; split; try (rewrite Z.pow_0_r; lia);
        destruct (e <? 0)%Z eqn:Es; unfold e in *; lia.
  - apply orb_false_iff in Eexp. destruct Eexp as [E1 E2].
    destruct (decpt <=? 0)%Z eqn:E0.
    + (* 0.000ddd *)
      assert (T : String "0" (String "." (dstr (repeat d0 (Z.to_nat (- decpt)) ++ ds)%list)) ++ rest
                  = num_text [d0] (Some (repeat d0 (Z.to_nat (- decpt)) ++ ds)%list) None rest) by reflexivity.
      rewrite T. eexists. split.
      * apply read_value_number; try assumption; [discriminate | | exact I].
        intros H. apply app_eq_nil in H. destruct H as [_ H]. congruence.
      * split; [reflexivity|]. exists 0%Z. split; [lia|].
        unfold nt_mant, nt_exp10, exs_val. cbn [option_map nt_ip nt_fp nt_ex]. cbn [List.app]. rewrite dval_cons0, dval_lead0.
        rewrite app_length, repeat_length. split; [rewrite Z.pow_0_r; lia | lia].
    + destruct (Z.of_nat (List.length ds) <=? decpt)%Z eqn:En.
      * (* ddd000.0 *)
        set (j := Z.to_nat (decpt - Z.of_nat (List.length ds))).
        assert (T : (dstr (ds ++ repeat d0 j)%list ++ ".0") ++ rest = num_text (ds ++ repeat d0 j)%list (Some [d0]) None rest).
        { rewrite str_append_assoc. reflexivity. }
        rewrite T. eexists. split.
        -- apply read_value_number; try assumption; [ | discriminate | exact I].
           intros H. apply app_eq_nil in H. destruct H as [H _]. congruence.
        -- split; [reflexivity|]. exists (Z.of_nat j + 1)%Z. split; [lia|].
           unfold nt_mant, nt_exp10, exs_val. cbn [option_map nt_ip nt_fp nt_ex List.length].
           rewrite dval_app, dval_app, dval_repeat0, repeat_length. cbn [List.length].
           change (dval [d0]) with 0%Z. split.
           ++ rewrite Z.pow_add_r by lia. change (Z.of_nat 1) with 1%Z. ring.
           ++ unfold j. lia.
      * (* dd.ddd *)
        set (k := Z.to_nat decpt).
        assert (T : (dstr (firstn k ds) ++ String "." (dstr (skipn k ds))) ++ rest
                    = num_text (firstn k ds) (Some (skipn k ds)) None rest).
        { rewrite str_append_assoc. reflexivity. }
        rewrite T.
        assert (Hk : (0 < k < List.length ds)%nat) by (unfold k; lia).
        eexists. split.
        -- apply read_value_number; try assumption; [ | | exact I].
           ++ intros H. apply (f_equal (@List.length digit)) in H. rewrite firstn_length in H. cbn in H. lia.
           ++ intros H. apply (f_equal (@List.length digit)) in H. rewrite skipn_length in H. cbn in H. lia.
        -- split; [reflexivity|]. exists 0%Z. split; [lia|].
           unfold nt_mant, nt_exp10, exs_val. cbn [option_map nt_ip nt_fp nt_ex]. rewrite firstn_skipn, skipn_length.
           split; [rewrite Z.pow_0_r; lia | unfold k; lia].
Qed.

(* ---------------------------------------------------------------- NULL / TRUE / FALSE *)

Fixpoint all_word (w : string) : bool := match w with EmptyString => true | String c w' => is_word_char c && all_word w' end.

Lemma read_word_app (w rest : string) : all_word w = true -> ends_token rest = true -> read_word (w ++ rest) = (w, rest).
Proof.
  intros Hw Hr. induction w as [|c w IH].
  - cbn [append]. destruct rest as [|c r]; [reflexivity|]. cbn [ends_token] in Hr. cbn [read_word].
    destruct (is_word_char c); [discriminate | reflexivity].
  - cbn [all_word] in Hw. apply andb_true_iff in Hw. destruct Hw as [Hc Hw].
    cbn [append read_word]. rewrite Hc, (IH Hw). reflexivity.
Qed.

Lemma read_value_word (fam : family) (q c : ascii) (w rest : string) :
  quote_ok q = true -> ends_token rest = true -> is_word_char c = true -> all_word w = true ->
  char_digit c = None -> Ascii.eqb c "-" = false ->
  read_value fam q (String c w ++ rest) =
    (if String.eqb (String c w) "NULL" then Some (SNull, rest)
     else if String.eqb (String c w) "TRUE" then Some (SBool true, rest)
     else if String.eqb (String c w) "FALSE" then Some (SBool false, rest) else None).
Proof.
  intros Hq Hr Hc Hw Hd Hm. cbn [append]. unfold read_value.
  rewrite (quote_ok_not c q Hq) by (left; exact Hc). rewrite Hm, Hd. cbn [orb].
  change (String c (w ++ rest)) with (String c w ++ rest).
  rewrite read_word_app by (try assumption; cbn [all_word]; rewrite Hc, Hw; reflexivity). reflexivity.
Qed.

Lemma read_value_null (fam : family) (q : ascii) (rest : string) :
  quote_ok q = true -> ends_token rest = true -> read_value fam q ("NULL" ++ rest) = Some (SNull, rest).
Proof. intros Hq Hr. rewrite read_value_word by (try assumption; reflexivity). reflexivity. Qed.
Lemma read_value_true (fam : family) (q : ascii) (rest : string) :
  quote_ok q = true -> ends_token rest = true -> read_value fam q ("TRUE" ++ rest) = Some (SBool true, rest).
Proof. intros Hq Hr. rewrite read_value_word by (try assumption; reflexivity). reflexivity. Qed.
Lemma read_value_false (fam : family) (q : ascii) (rest : string) :
  quote_ok q = true -> ends_token rest = true -> read_value fam q ("FALSE" ++ rest) = Some (SBool false, rest).
Proof. intros Hq Hr. rewrite read_value_word by (try assumption; reflexivity). reflexivity. Qed.

(* ---------------------------------------------------------------- value_to_sql *)

(* the literal token sv denotes the Python value v *)
Inductive same_value : pyval -> sqlval -> Prop :=
  | SV_none : same_value PNone SNull
  | SV_nan : same_value (PFloat FNan) SNull                    (* value_to_sql writes NaN as NULL on purpose *)
  | SV_str (s : string) : same_value (PStr s) (SStr s)
  | SV_bool (b : bool) : same_value (PBool b) (SBool b)
  | SV_int (z : Z) (t : numtok) : nt_is_integer t = true -> nt_neg t = (z <? 0)%Z -> nt_mant t = Z.abs z -> same_value (PInt z) (SNum t)
  | SV_float (neg : bool) (ds : list digit) (decpt : Z) (t : numtok) :
      num_denotes t neg (dval ds) (decpt - Z.of_nat (List.length ds)) -> same_value (PFloat (FFin neg ds decpt)) (SNum t)
  | SV_value (x : pyval) (sv : sqlval) : same_value x sv -> same_value (PValue x) sv.

(* the scalar values value_to_sql is asked to write: None, str, bool, int, float (finite or NaN), expr_rep.Value of one *)
Fixpoint scalar_ok (v : pyval) : Prop :=
  match v with
  | PNone | PStr _ | PBool _ | PInt _ | PFloat FNan => True
  | PFloat (FFin _ ds _) => ds <> []
  | PValue x => scalar_ok x
  | _ => False
  end.
Fixpoint no_backslash (v : pyval) : Prop :=
  match v with PStr s => has_char (Ascii.eqb "\"%char) s = false | PValue x => no_backslash x | _ => True end.

Lemma value_to_sql_reads_back (fam : family) (q : ascii) (v : pyval) (rest : string) :
  quote_ok q = true -> scalar_ok v -> (fam = Backslash -> no_backslash v) ->
  ends_token rest = true -> starts_with_char q rest = false ->
  exists sv, read_value fam q (value_to_sql (q1 q) v ++ rest) = Some (sv, rest) /\ same_value v sv.
Proof.
  intros Hq Hv Hb Hr Hs. induction v as [ |s|b|z|f|l|l|l|x IH|o]; cbn [scalar_ok] in Hv; try contradiction.
  - exists SNull. split; [apply read_value_null; assumption | constructor].
  - assert (Q : q <> "\"%char).
    { intros E. subst q. discriminate Hq. }
    assert (R : read_string_lit fam q (quote_string (q1 q) s ++ rest) = Some (s, rest)).
    { destruct fam; [apply quote_string_roundtrip_std, Hs|].
      apply quote_string_roundtrip_bs_partial; [exact Q | exact (Hb eq_refl) | exact Hs]. }
    exists (SStr s). split; [|constructor].
    cbn [value_to_sql]. rewrite quote_string_shape in *. cbn [read_value]. rewrite Ascii.eqb_refl, R. reflexivity.
  - exists (SBool b). split; [|constructor]. destruct b; cbn [value_to_sql]; [apply read_value_true | apply read_value_false]; assumption.
  - destruct (int_reads fam q z rest Hq Hr) as (t & R & H1 & H2 & H3).
    exists (SNum t). split; [exact R | constructor; assumption].
  - destruct f as [|ng|ng ds decpt]; try contradiction.
    + exists SNull. split; [apply read_value_null; assumption | constructor].
    + destruct (float_fin_reads fam q ng ds decpt rest Hq Hv Hr) as (t & R & D).
      exists (SNum t). split; [exact R | constructor; exact D].
  - cbn [no_backslash] in Hb. destruct (IH Hv Hb) as (sv & R & S).
    exists sv. split; [exact R | constructor; exact S].
Qed.

(* an infinite float is written as `inf` / `-inf`, which is not a literal of any dialect *)
Lemma value_to_sql_inf_refuted :
  read_value Std "'"%char (value_to_sql "'" (PFloat (FInf false)) ++ " AS x") = None /\
  read_value Std "'"%char (value_to_sql "'" (PFloat (FInf true)) ++ " AS x") = None.
Proof. split; vm_compute; reflexivity. Qed.

(* list values (is_in lists, tuples, expr_rep.ListTerm): a parenthesised, comma-separated list whose items are all
   written by value_to_sql itself *)
Lemma value_to_sql_list_items (qs : string) (l : list pyval) :
  value_to_sql qs (PList l) = "(" ++ str_join ", " (map (value_to_sql qs) l) ++ ")" /\
  value_to_sql qs (PTuple l) = "(" ++ str_join ", " (map (value_to_sql qs) l) ++ ")" /\
  value_to_sql qs (PListTerm l) = "(" ++ str_join ", " (map (value_to_sql qs) l) ++ ")".
Proof. cbn [value_to_sql]. rewrite !str_append_assoc. repeat split; reflexivity. Qed.
