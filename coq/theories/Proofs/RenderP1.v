(* Text generation: the token stream of to_sql() does not depend on the layout options (annotate, initial_commas,
   sql_indent); every comment the generator writes is inert (C14's theorem about _clean_annotation, imported). *)
From Coq Require Import List Bool Arith String Ascii.
Import ListNotations.
From DA Require Import Base.PyRT Base.PyStr Model.Lex Model.NearSql Model.WithForm Model.Render Gen.G_Quote Proofs.QuoteP.
Local Open Scope string_scope.
Local Open Scope list_scope.

Definition ltoks (ls : list (list item)) : list string := flat_map (flat_map tok_of) ls.

(* a SELECT list as tokens: the terms separated by commas *)
Fixpoint inter (ts : list string) : list string :=
  match ts with [] => [] | t :: r => t :: (if is_nil r then [] else "," :: inter r) end.

(* what a block contributes to the token stream: no layout option in sight *)
Definition block_toks (b : block) : list string :=
  match b_c b with
  | BText s => [s]
  | BSelect _ => ["SELECT"]
  | BComment _ | BHeader _ => []
  | BTerms ts => inter ts
  end.

Lemma terms_lines_initial o ind : initial_commas o = true -> forall ts first,
  ltoks (terms_lines o ind first ts) = if first then inter ts else if is_nil ts then [] else "," :: inter ts.
Proof.
  intros Ic. induction ts as [|t r IH]; intros first; [destruct first; reflexivity|].
  unfold ltoks in *. cbn [terms_lines]. rewrite Ic. cbn [flat_map]. rewrite (IH false).
  destruct first; cbn [flat_map tok_of app inter is_nil]; destruct r; reflexivity.
Qed.

Lemma terms_lines_trailing o ind : initial_commas o = false -> forall ts first,
  ltoks (terms_lines o ind first ts) = inter ts.
Proof.
  intros Ic. induction ts as [|t r IH]; intros first; [reflexivity|].
  unfold ltoks in *. cbn [terms_lines]. rewrite Ic. cbn [flat_map]. rewrite (IH false).
  destruct r; cbn [is_nil flat_map tok_of app inter]; reflexivity.
Qed.

Lemma block_lines_toks o b : ltoks (block_lines o b) = block_toks b.
Proof.
  unfold block_lines, block_toks. destruct (b_c b) as [s|[a|]|a|s|ts]; try reflexivity.
  - destruct (annotate o); reflexivity.
  - destruct (annotate o); reflexivity.
  - destruct (initial_commas o) eqn:Ic; [rewrite terms_lines_initial by exact Ic|rewrite terms_lines_trailing by exact Ic]; reflexivity.
Qed.

Lemma toks_blocks o bs : toks o bs = flat_map block_toks bs.
Proof.
  unfold toks, sql_lines. induction bs as [|b t IH]; [reflexivity|].
  cbn [flat_map]. rewrite flat_map_app, IH. f_equal. apply block_lines_toks.
Qed.

(* which blocks are written depends on use_with / use_cte_elim only *)
Lemma to_sql_blocks_layout_free d fl o1 o2 q :
  use_with o1 = use_with o2 -> use_cte_elim o1 = use_cte_elim o2 -> to_sql_blocks d fl o1 q = to_sql_blocks d fl o2 q.
Proof. intros H1 H2. unfold to_sql_blocks. rewrite H1, H2. reflexivity. Qed.

Theorem render_tokens_invariant d fl o1 o2 q :
  use_with o1 = use_with o2 -> use_cte_elim o1 = use_cte_elim o2 ->
  toks o1 (to_sql_blocks d fl o1 q) = toks o2 (to_sql_blocks d fl o2 q).
Proof. intros H1 H2. rewrite (to_sql_blocks_layout_free d fl o1 o2 q H1 H2), !toks_blocks. reflexivity. Qed.

(* ------------------------------------------------------------------ comments *)
Lemma clean_is_cleaned a : _clean_annotation (Some a) = Some (clean a).
Proof. unfold clean. destruct (_clean_annotation (Some a)) eqn:E; [reflexivity|].
  rewrite clean_annotation_shape in E. discriminate. Qed.

(* an annotation comment ends exactly at the newline written after it, whatever the annotation contains *)
Lemma annotation_comment_inert a rest :
  skip_comment (String.append (String.append "-- " (clean a)) (String "010"%char rest)) = Some rest.
Proof.
  rewrite str_append_assoc. apply (comment_is_inert a). apply clean_is_cleaned.
Qed.

(* every comment item is the LAST item of its line and is either an annotation comment or a line of to_sql's preamble *)
Lemma block_comments o b l s :
  In l (block_lines o b) -> In (IComment s) l ->
  (exists pre, l = pre ++ [IComment s]) /\
  ((exists a, s = String.append "-- " (clean a)) \/ b_c b = BHeader s).
Proof.
  unfold block_lines. destruct (b_c b) as [t|[a|]|a|h|ts]; intros Il Ic.
  - destruct Il as [<-|[]]. simpl in Ic. destruct Ic as [E|[E|[]]]; discriminate.
  - destruct (annotate o).
    + destruct Il as [<-|[]]. simpl in Ic. destruct Ic as [E|[E|[E|[E|[]]]]]; try discriminate. injection E as <-.
      split; [exists [IWs (repeat_str (sql_indent o) (b_ind b)); ITok "SELECT"; IWs "  "]; reflexivity|left; exists a; reflexivity].
    + destruct Il as [<-|[]]. simpl in Ic. destruct Ic as [E|[E|[]]]; discriminate.
  - destruct Il as [<-|[]]. simpl in Ic. destruct Ic as [E|[E|[]]]; discriminate.
  - destruct Il as [<-|[]]. simpl in Ic. destruct Ic as [E|[E|[]]]; try discriminate. injection E as <-.
    split; [exists [IWs (repeat_str (sql_indent o) (b_ind b))]; reflexivity|left; exists a; reflexivity].
  - destruct (annotate o); [|contradiction]. destruct Il as [<-|[]]. simpl in Ic. destruct Ic as [E|[E|[]]]; try discriminate.
    injection E as <-. split; [exists [IWs (repeat_str (sql_indent o) (b_ind b))]; reflexivity|right; reflexivity].
  - exfalso. revert l Il Ic. generalize true as first. induction ts as [|t r IH]; intros first l Il Ic; [contradiction|].
    cbn [terms_lines] in Il. destruct Il as [<-|Il]; [|exact (IH _ _ Il Ic)].
    destruct (initial_commas o).
    + simpl in Ic. destruct first; destruct Ic as [E|[E|[E|[E|[]]]]]; discriminate.
    + destruct (is_nil r); simpl in Ic.
      * destruct Ic as [E|[E|[]]]; discriminate.
      * destruct Ic as [E|[E|[E|[E|[]]]]]; discriminate.
Qed.

Theorem comments_are_inert o bs l s rest :
  In l (sql_lines o bs) -> In (IComment s) l ->
  (forall b h, In b bs -> b_c b = BHeader h -> has_char is_eol h = false /\ exists h', h = String "-" (String "-" h')) ->
  (exists pre, l = pre ++ [IComment s]) /\ skip_comment (String.append s (String "010"%char rest)) = Some rest.
Proof.
  unfold sql_lines. intros Il Ic Hh. apply in_flat_map in Il. destruct Il as (b & Ib & Il).
  destruct (block_comments o b l s Il Ic) as [Pre [[a ->]|Hb]]; split; try exact Pre.
  - apply annotation_comment_inert.
  - destruct (Hh b s Ib Hb) as [Ne [h' ->]]. cbn [String.append skip_comment]. f_equal.
    change (String "-" (String "-" h')) with (String.append "--" h') in Ne.
    apply skip_line_no_eol. simpl in Ne. exact Ne.
Qed.

(* for examples: a text given line by line *)
Definition text_of_lines (ls : list string) : string :=
  concat_str (map (fun l => String.append l (String "010"%char EmptyString)) ls).
