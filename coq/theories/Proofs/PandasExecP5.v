(* PEXEC, part 5: _natural_join_step (suffix for the right copies, scratch key for an empty `on`, pandas.merge with its row and
   column order, the coalescing loop res.loc[is_null, c] = res.loc[is_null, c + suffix], dropping the suffixed and scratch
   columns) refines sem_join with pandas' key rule (null keys match): the columns of the reference semantics, every cell
   COALESCE(left, right), the rows up to a permutation.  All statements proved. *)
From Coq Require Import List Bool Arith ZArith QArith String Ascii Lia Permutation Sorted.
Import ListNotations.
From DA Require Import Base.PyRT Base.Val Model.Sem Model.PdPrim Model.PandasExec
  Proofs.SemBasicP Proofs.SemOrderP Proofs.ComposeP5 Proofs.PandasExecP1 Proofs.PandasExecP2 Proofs.PandasExecP3 Proofs.PandasExecP4.
Local Open Scope string_scope.
Local Open Scope list_scope.

(* ------------------------------------------------------------------ the pairs of rows a merge produces *)
Section Pairs.
  Context {A B : Type}.
  Variables (lk : A -> list val) (rk : B -> list val).
  Definition pair := (option A * option B)%type.
  Definition mt (a : A) (b : B) : bool := keys_eqv (lk a) (rk b).

  Definition pairs_inner (la : list A) (lb : list B) : list pair :=
    flat_map (fun a => map (fun b => (Some a, Some b)) (filter (mt a) lb)) la.
  Definition pairs_leftj (la : list A) (lb : list B) : list pair :=
    flat_map (fun a => match filter (mt a) lb with [] => [(Some a, None)] | ms => map (fun b => (Some a, Some b)) ms end) la.
  Definition pairs_rightj (la : list A) (lb : list B) : list pair :=
    flat_map (fun b => match filter (fun a => mt a b) la with [] => [(None, Some b)] | ms => map (fun a => (Some a, Some b)) ms end) lb.
  Definition pairs_right_only (la : list A) (lb : list B) : list pair :=
    flat_map (fun b => match filter (fun a => mt a b) la with [] => [(None, Some b)] | _ => [] end) lb.
  Definition pairs_left_only (la : list A) (lb : list B) : list pair :=
    flat_map (fun a => match filter (mt a) lb with [] => [(Some a, None)] | _ => [] end) la.
  Definition pair_key (p : pair) : list val :=
    match p with (Some a, _) => lk a | (None, Some b) => rk b | (None, None) => [] end.
  Definition gen_pairs (how : merge_how) (la : list A) (lb : list B) : list pair :=
    match how with
    | HInner => pairs_inner la lb
    | HLeft => pairs_leftj la lb
    | HRight => pairs_rightj la lb
    | HOuter => stable_sort (fun p q => keys_le (pair_key p) (pair_key q)) (pairs_leftj la lb ++ pairs_right_only la lb)
    end.
  (* the order in which the reference semantics lists them: matches, then unmatched left rows, then unmatched right rows *)
  Definition sem_pairs (how : merge_how) (la : list A) (lb : list B) : list pair :=
    pairs_inner la lb ++ (match how with HLeft | HOuter => pairs_left_only la lb | _ => [] end)
                      ++ (match how with HRight | HOuter => pairs_right_only la lb | _ => [] end).

  Lemma perm_flat_map_app {X Y} (f g : X -> list Y) l : Permutation (flat_map (fun x => f x ++ g x) l) (flat_map f l ++ flat_map g l).
  Proof.
    induction l as [|x l IH]; simpl; [constructor|]. rewrite <- !app_assoc. apply Permutation_app_head.
    eapply perm_trans; [apply Permutation_app_head, IH|]. apply Permutation_app_swap_app.
  Qed.

  Lemma leftj_perm la lb : Permutation (pairs_leftj la lb) (pairs_inner la lb ++ pairs_left_only la lb).
  Proof.
    unfold pairs_leftj, pairs_inner, pairs_left_only. eapply perm_trans; [|apply perm_flat_map_app].
    apply perm_flat_map_ext. intros a. destruct (filter (mt a) lb); simpl; [apply Permutation_refl|rewrite app_nil_r; apply Permutation_refl].
  Qed.

  (* exchanging the two nested loops *)
  Lemma flat_map_swap {X Y Z} (f : X -> Y -> list Z) lx ly :
    Permutation (flat_map (fun x => flat_map (fun y => f x y) ly) lx) (flat_map (fun y => flat_map (fun x => f x y) lx) ly).
  Proof.
    induction lx as [|x lx IH]; simpl.
    - induction ly as [|y ly IHy]; simpl; [constructor|exact IHy].
    - eapply perm_trans; [apply Permutation_app_head, IH|]. clear IH.
      induction ly as [|y ly IHy]; simpl; [constructor|].
      rewrite <- !app_assoc. apply Permutation_app_head.
      eapply perm_trans; [|apply Permutation_app_head, IHy]. apply Permutation_app_swap_app.
  Qed.

  Lemma inner_as_nested la lb : pairs_inner la lb = flat_map (fun a => flat_map (fun b => if mt a b then [(Some a, Some b)] else []) lb) la.
  Proof.
    unfold pairs_inner. apply flat_map_ext. intros a. induction lb as [|b lb IH]; simpl; [reflexivity|].
    destruct (mt a b); simpl; rewrite IH; reflexivity.
  Qed.
  Lemma rightj_perm la lb : Permutation (pairs_rightj la lb) (pairs_inner la lb ++ pairs_right_only la lb).
  Proof.
    assert (Permutation (flat_map (fun b => map (fun a => (Some a, Some b)) (filter (fun a => mt a b) la)) lb) (pairs_inner la lb)) as Pi.
    { rewrite inner_as_nested. eapply perm_trans; [|apply Permutation_sym, flat_map_swap].
      apply perm_flat_map_ext. intros b. induction la as [|a la IH]; simpl; [constructor|].
      destruct (mt a b); simpl; [constructor; exact IH|exact IH]. }
    eapply perm_trans; [|apply Permutation_app_tail, Pi]. unfold pairs_rightj, pairs_right_only.
    eapply perm_trans; [|apply perm_flat_map_app].
    apply perm_flat_map_ext. intros b. destruct (filter (fun a => mt a b) la); simpl; [apply Permutation_refl|rewrite app_nil_r; apply Permutation_refl].
  Qed.

  Lemma gen_pairs_perm how la lb : Permutation (gen_pairs how la lb) (sem_pairs how la lb).
  Proof.
    unfold gen_pairs, sem_pairs. destruct how.
    - rewrite !app_nil_r. apply Permutation_refl.
    - rewrite app_nil_r. apply leftj_perm.
    - cbn [app]. apply rightj_perm.
    - eapply perm_trans; [apply stable_sort_perm|]. rewrite app_assoc. apply Permutation_app_tail, leftj_perm.
  Qed.
End Pairs.

Arguments pair : clear implicits.

(* sem_pairs depends on the keys only through the match test *)
Lemma sem_pairs_ext {A B} (lk lk' : A -> list val) (rk rk' : B -> list val) how la lb :
  (forall a b, mt lk rk a b = mt lk' rk' a b) -> sem_pairs lk rk how la lb = sem_pairs lk' rk' how la lb.
Proof.
  intros E. unfold sem_pairs, pairs_inner, pairs_left_only, pairs_right_only.
  assert (forall a, filter (mt lk rk a) lb = filter (mt lk' rk' a) lb) as F1 by (intros a; apply filter_ext; intros b; apply E).
  assert (forall b, filter (fun a => mt lk rk a b) la = filter (fun a => mt lk' rk' a b) la) as F2 by (intros b; apply filter_ext; intros a; apply E).
  f_equal; [|f_equal].
  - apply flat_map_ext. intros a. rewrite F1. reflexivity.
  - destruct how; try reflexivity; apply flat_map_ext; intros a; rewrite F1; reflexivity.
  - destruct how; try reflexivity; apply flat_map_ext; intros b; rewrite F2; reflexivity.
Qed.

Definition pmap {A B A' B'} (f : A -> A') (g : B -> B') (p : pair A B) : pair A' B' := (option_map f (fst p), option_map g (snd p)).

Lemma filter_map_comm {X Y} (f : X -> Y) (p : Y -> bool) l : filter p (map f l) = map f (filter (fun x => p (f x)) l).
Proof. induction l as [|x l IH]; simpl; [reflexivity|]. destruct (p (f x)); simpl; rewrite IH; reflexivity. Qed.
Lemma flat_map_map {X Y Z} (f : X -> Y) (h : Y -> list Z) l : flat_map h (map f l) = flat_map (fun x => h (f x)) l.
Proof. induction l as [|x l IH]; simpl; [reflexivity|]. rewrite IH. reflexivity. Qed.
Lemma map_flat_map {X Y Z} (k : Y -> Z) (h : X -> list Y) l : map k (flat_map h l) = flat_map (fun x => map k (h x)) l.
Proof. induction l as [|x l IH]; simpl; [reflexivity|]. rewrite map_app, IH. reflexivity. Qed.

Lemma sem_pairs_map {A B A' B'} (f : A -> A') (g : B -> B') (lk : A' -> list val) (rk : B' -> list val) how la lb :
  sem_pairs lk rk how (map f la) (map g lb) = map (pmap f g) (sem_pairs (fun a => lk (f a)) (fun b => rk (g b)) how la lb).
Proof.
  unfold sem_pairs. rewrite !map_app. f_equal; [|f_equal].
  - unfold pairs_inner. rewrite flat_map_map, map_flat_map. apply flat_map_ext. intros a.
    rewrite filter_map_comm, !map_map. reflexivity.
  - assert (pairs_left_only lk rk (map f la) (map g lb) = map (pmap f g) (pairs_left_only (fun a => lk (f a)) (fun b => rk (g b)) la lb)) as E.
    { unfold pairs_left_only. rewrite flat_map_map, map_flat_map. apply flat_map_ext. intros a. rewrite filter_map_comm.
      unfold mt. destruct (filter _ lb); reflexivity. }
    destruct how; try reflexivity; exact E.
  - assert (pairs_right_only lk rk (map f la) (map g lb) = map (pmap f g) (pairs_right_only (fun a => lk (f a)) (fun b => rk (g b)) la lb)) as E.
    { unfold pairs_right_only. rewrite flat_map_map, map_flat_map. apply flat_map_ext. intros b. rewrite filter_map_comm.
      unfold mt. destruct (filter _ la); reflexivity. }
    destruct how; try reflexivity; exact E.
Qed.

(* ------------------------------------------------------------------ sem_join in terms of pairs *)
Definition sem_mk (ca cb : list string) (p : pair (list val) (list val)) : list val :=
  map (fun c => let va := match fst p with Some r => if mem c ca then get ca r c else VNull | None => VNull end in
                let vb := match snd p with Some r => if mem c cb then get cb r c else VNull | None => VNull end in
                if is_null va then vb else va) (ca ++ filter (fun c => negb (mem c ca)) cb).

Lemma existsb_filter_nil {X} (f : X -> bool) l : existsb f l = false <-> filter f l = [].
Proof.
  induction l as [|x l IH]; simpl; [tauto|]. destruct (f x); simpl; [split; discriminate|exact IH].
Qed.

Lemma sem_join_as_pairs on_a on_b jt a b :
  sem_join true on_a on_b jt a b
  = mktable (cols a ++ filter (fun c => negb (mem c (cols a))) (cols b))
            (map (sem_mk (cols a) (cols b)) (sem_pairs (key_of (cols a) on_a) (key_of (cols b) on_b) (how_of jt) (rows a) (rows b))).
Proof.
  unfold sem_join. f_equal. unfold sem_pairs. rewrite !map_app. f_equal; [|f_equal].
  - rewrite inner_as_nested, map_flat_map. apply flat_map_ext. intros ra. rewrite map_flat_map. apply flat_map_ext. intros rb.
    unfold keys_match, mt. cbn [orb andb]. destruct (keys_eqv _ _); reflexivity.
  - assert (flat_map (fun ra => if existsb (fun rb => keys_match true (key_of (cols a) on_a ra) (key_of (cols b) on_b rb)) (rows b) then []
                               else [sem_mk (cols a) (cols b) (Some ra, None)]) (rows a)
            = map (sem_mk (cols a) (cols b)) (pairs_left_only (key_of (cols a) on_a) (key_of (cols b) on_b) (rows a) (rows b))) as E.
    { unfold pairs_left_only. rewrite map_flat_map. apply flat_map_ext. intros ra.
      destruct (existsb _ (rows b)) eqn:Ex.
      - destruct (filter (mt (key_of (cols a) on_a) (key_of (cols b) on_b) ra) (rows b)) eqn:Ef; [|reflexivity].
        exfalso. apply existsb_filter_nil in Ef. unfold keys_match in Ex. cbn [orb andb] in Ex. unfold mt in Ef. congruence.
      - apply existsb_filter_nil in Ex. unfold keys_match in Ex. cbn [orb andb] in Ex. unfold mt. rewrite Ex. reflexivity. }
    destruct jt; cbn [how_of]; try reflexivity; exact E.
  - assert (flat_map (fun rb => if existsb (fun ra => keys_match true (key_of (cols a) on_a ra) (key_of (cols b) on_b rb)) (rows a) then []
                               else [sem_mk (cols a) (cols b) (None, Some rb)]) (rows b)
            = map (sem_mk (cols a) (cols b)) (pairs_right_only (key_of (cols a) on_a) (key_of (cols b) on_b) (rows a) (rows b))) as E.
    { unfold pairs_right_only. rewrite map_flat_map. apply flat_map_ext. intros rb.
      destruct (existsb _ (rows a)) eqn:Ex.
      - destruct (filter (fun ra => mt (key_of (cols a) on_a) (key_of (cols b) on_b) ra rb) (rows a)) eqn:Ef; [|reflexivity].
        exfalso. apply existsb_filter_nil in Ef. unfold keys_match in Ex. cbn [orb andb] in Ex. unfold mt in Ef. congruence.
      - apply existsb_filter_nil in Ex. unfold keys_match in Ex. cbn [orb andb] in Ex. unfold mt. rewrite Ex. reflexivity. }
    destruct jt; cbn [how_of]; try reflexivity; exact E.
Qed.

Lemma merge_pairs_gen how L R lon ron :
  merge_pairs how L R lon ron = gen_pairs (key_of (cols L) lon) (key_of (cols R) ron) how (rows L) (rows R).
Proof. destruct how; reflexivity. Qed.
