(* PEXEC, part 5: _natural_join_step (suffix for the right copies, scratch key for an empty `on`, pandas.merge with its row and
   column order, the coalescing loop res.loc[is_null, c] = res.loc[is_null, c + suffix], dropping the suffixed and scratch
   columns) refines sem_join with pandas' key rule (null keys match): the columns of the reference semantics, every cell
   COALESCE(left, right), the rows up to a permutation.  All statements proved. *)
From Coq Require Import List Bool Arith ZArith QArith String Ascii Lia Permutation Sorted.
Import ListNotations.
From DA Require Import Base.PyRT Base.Val Model.Sem Model.PdPrim Model.PandasExec
  Proofs.SemBasicP Proofs.SemOrderP Proofs.ComposeP5 Proofs.PandasExecP1 Proofs.PandasExecP2 Proofs.PandasExecP3 Proofs.PandasExecP4.
Local Open Scope string_scope.
Local Open Scope list_scope.


(* ------------------------------------------------------------------ the pairs of rows a merge produces *)
Section Pairs.
  Context {A B : Type}.
  Variable m : A -> B -> bool.                              (* the match test *)
  Variables (lk : A -> list val) (rk : B -> list val).      (* the keys, used only to ORDER the rows of an outer merge *)
  Definition pair := (option A * option B)%type.

  Definition pairs_inner (la : list A) (lb : list B) : list pair :=
    flat_map (fun a => map (fun b => (Some a, Some b)) (filter (m a) lb)) la.
  Definition pairs_leftj (la : list A) (lb : list B) : list pair :=
    flat_map (fun a => match filter (m a) lb with [] => [(Some a, None)] | ms => map (fun b => (Some a, Some b)) ms end) la.
  Definition pairs_rightj (la : list A) (lb : list B) : list pair :=
    flat_map (fun b => match filter (fun a => m a b) la with [] => [(None, Some b)] | ms => map (fun a => (Some a, Some b)) ms end) lb.
  Definition pairs_right_only (la : list A) (lb : list B) : list pair :=
    flat_map (fun b => match filter (fun a => m a b) la with [] => [(None, Some b)] | _ => [] end) lb.
  Definition pairs_left_only (la : list A) (lb : list B) : list pair :=
    flat_map (fun a => match filter (m a) lb with [] => [(Some a, None)] | _ => [] end) la.
  Definition pair_key (p : pair) : list val :=
    match p with (Some a, _) => lk a | (None, Some b) => rk b | (None, None) => [] end.
  Definition gen_pairs (how : merge_how) (la : list A) (lb : list B) : list pair :=
    match how with
    | HInner => pairs_inner la lb
    | HLeft => pairs_leftj la lb
    | HRight => pairs_rightj la lb
    | HOuter => stable_sort (fun p q => keys_le (pair_key p) (pair_key q)) (pairs_leftj la lb ++ pairs_right_only la lb)
    end.
  (* the order in which the reference semantics lists them: matches, then unmatched left rows, then unmatched right rows *)
  Definition sem_pairs (how : merge_how) (la : list A) (lb : list B) : list pair :=
    pairs_inner la lb ++ (match how with HLeft | HOuter => pairs_left_only la lb | _ => [] end)
                      ++ (match how with HRight | HOuter => pairs_right_only la lb | _ => [] end).

  Lemma perm_flat_map_app {X Y} (f g : X -> list Y) l : Permutation (flat_map (fun x => f x ++ g x) l) (flat_map f l ++ flat_map g l).
  Proof.
    induction l as [|x l IH]; simpl; [constructor|]. rewrite <- !app_assoc. apply Permutation_app_head.
    eapply perm_trans; [apply Permutation_app_head, IH|]. apply Permutation_app_swap_app.
  Qed.

  Lemma leftj_perm la lb : Permutation (pairs_leftj la lb) (pairs_inner la lb ++ pairs_left_only la lb).
  Proof.
    unfold pairs_leftj, pairs_inner, pairs_left_only. eapply perm_trans; [|apply perm_flat_map_app].
    apply perm_flat_map_ext. intros a. destruct (filter (m a) lb); simpl; [apply Permutation_refl|rewrite app_nil_r; apply Permutation_refl].
  Qed.

  (* exchanging the two nested loops *)
  Lemma flat_map_swap {X Y Z} (f : X -> Y -> list Z) lx ly :
    Permutation (flat_map (fun x => flat_map (fun y => f x y) ly) lx) (flat_map (fun y => flat_map (fun x => f x y) lx) ly).
  Proof.
    induction lx as [|x lx IH]; simpl.
    - induction ly as [|y ly IHy]; simpl; [constructor|exact IHy].
    - eapply perm_trans; [apply Permutation_app_head, IH|]. clear IH.
      induction ly as [|y ly IHy]; simpl; [constructor|].
      rewrite <- !app_assoc. apply Permutation_app_head.
      eapply perm_trans; [|apply Permutation_app_head, IHy]. apply Permutation_app_swap_app.
  Qed.

  Lemma inner_as_nested la lb : pairs_inner la lb = flat_map (fun a => flat_map (fun b => if m a b then [(Some a, Some b)] else []) lb) la.
  Proof.
    unfold pairs_inner. apply flat_map_ext. intros a. induction lb as [|b lb IH]; simpl; [reflexivity|].
    destruct (m a b); simpl; rewrite IH; reflexivity.
  Qed.
  Lemma rightj_perm la lb : Permutation (pairs_rightj la lb) (pairs_inner la lb ++ pairs_right_only la lb).
  Proof.
    assert (Permutation (flat_map (fun b => map (fun a => (Some a, Some b)) (filter (fun a => m a b) la)) lb) (pairs_inner la lb)) as Pi.
    { rewrite inner_as_nested. eapply perm_trans; [|apply Permutation_sym, flat_map_swap].
      apply perm_flat_map_ext. intros b. induction la as [|a la IH]; simpl; [constructor|].
      destruct (m a b); simpl; [constructor; exact IH|exact IH]. }
    eapply perm_trans; [|apply Permutation_app_tail, Pi]. unfold pairs_rightj, pairs_right_only.
    eapply perm_trans; [|apply perm_flat_map_app].
    apply perm_flat_map_ext. intros b. destruct (filter (fun a => m a b) la); simpl; [apply Permutation_refl|rewrite app_nil_r; apply Permutation_refl].
  Qed.

  Lemma gen_pairs_perm how la lb : Permutation (gen_pairs how la lb) (sem_pairs how la lb).
  Proof.
    unfold gen_pairs, sem_pairs. destruct how.
    - rewrite !app_nil_r. apply Permutation_refl.
    - rewrite app_nil_r. apply leftj_perm.
    - cbn [app]. apply rightj_perm.
    - eapply perm_trans; [apply stable_sort_perm|]. rewrite app_assoc. apply Permutation_app_tail, leftj_perm.
  Qed.

  Lemma sem_pairs_matched how la lb a b : In (Some a, Some b) (sem_pairs how la lb) -> m a b = true.
  Proof.
    unfold sem_pairs. rewrite !in_app_iff. intros [I|[I|I]].
    - unfold pairs_inner in I. apply in_flat_map in I. destruct I as [a' [_ I]]. apply in_map_iff in I. destruct I as [b' [E I]].
      inversion E; subst. apply filter_In in I. tauto.
    - exfalso. destruct how; try contradiction; unfold pairs_left_only in I; apply in_flat_map in I; destruct I as [a' [_ I]];
        destruct (filter _ lb); try contradiction; destruct I as [E|[]]; discriminate.
    - exfalso. destruct how; try contradiction; unfold pairs_right_only in I; apply in_flat_map in I; destruct I as [b' [_ I]];
        destruct (filter _ la); try contradiction; destruct I as [E|[]]; discriminate.
  Qed.
  Lemma sem_pairs_from how la lb p : In p (sem_pairs how la lb) ->
    (forall a, fst p = Some a -> In a la) /\ (forall b, snd p = Some b -> In b lb) /\ (fst p <> None \/ snd p <> None).
  Proof.
    unfold sem_pairs. rewrite !in_app_iff. intros [I|[I|I]].
    - unfold pairs_inner in I. apply in_flat_map in I. destruct I as [a' [Ia I]]. apply in_map_iff in I. destruct I as [b' [<- I]].
      apply filter_In in I. cbn [fst snd]. split; [intros a E; inversion E; subst; exact Ia|]. split; [intros b E; inversion E; subst; tauto|left; discriminate].
    - destruct how; try contradiction; unfold pairs_left_only in I; apply in_flat_map in I; destruct I as [a' [Ia I]];
        destruct (filter _ lb); try contradiction; destruct I as [<-|[]]; cbn [fst snd];
        (split; [intros a E; inversion E; subst; exact Ia|]; split; [intros b E; discriminate|left; discriminate]).
    - destruct how; try contradiction; unfold pairs_right_only in I; apply in_flat_map in I; destruct I as [b' [Ib I]];
        destruct (filter _ la); try contradiction; destruct I as [<-|[]]; cbn [fst snd];
        (split; [intros a E; discriminate|]; split; [intros b E; inversion E; subst; exact Ib|right; discriminate]).
  Qed.
End Pairs.

Arguments pair : clear implicits.

Lemma flat_map_ext_in {X Y} (f g : X -> list Y) l : (forall x, In x l -> f x = g x) -> flat_map f l = flat_map g l.
Proof. induction l as [|a l IH]; intros H; simpl; [reflexivity|]. rewrite (H a (or_introl eq_refl)), IH; [reflexivity|]. intros x I. apply H. right. exact I. Qed.

(* sem_pairs depends only on the match test, on the listed rows *)
Lemma sem_pairs_ext_in {A B} (m m' : A -> B -> bool) how la lb :
  (forall a b, In a la -> In b lb -> m a b = m' a b) -> sem_pairs m how la lb = sem_pairs m' how la lb.
Proof.
  intros E. unfold sem_pairs, pairs_inner, pairs_left_only, pairs_right_only.
  assert (forall a, In a la -> filter (m a) lb = filter (m' a) lb) as F1 by (intros a Ia; apply filter_ext_in; intros b Ib; apply E; assumption).
  assert (forall b, In b lb -> filter (fun a => m a b) la = filter (fun a => m' a b) la) as F2 by (intros b Ib; apply filter_ext_in; intros a Ia; apply E; assumption).
  f_equal; [|f_equal].
  - apply flat_map_ext_in. intros a Ia. rewrite (F1 a Ia). reflexivity.
  - destruct how; try reflexivity; apply flat_map_ext_in; intros a Ia; rewrite (F1 a Ia); reflexivity.
  - destruct how; try reflexivity; apply flat_map_ext_in; intros b Ib; rewrite (F2 b Ib); reflexivity.
Qed.

Definition pmap {A B A' B'} (f : A -> A') (g : B -> B') (p : pair A B) : pair A' B' := (option_map f (fst p), option_map g (snd p)).

Lemma filter_map_comm {X Y} (f : X -> Y) (p : Y -> bool) l : filter p (map f l) = map f (filter (fun x => p (f x)) l).
Proof. induction l as [|x l IH]; simpl; [reflexivity|]. destruct (p (f x)); simpl; rewrite IH; reflexivity. Qed.
Lemma flat_map_map {X Y Z} (f : X -> Y) (h : Y -> list Z) l : flat_map h (map f l) = flat_map (fun x => h (f x)) l.
Proof. induction l as [|x l IH]; simpl; [reflexivity|]. rewrite IH. reflexivity. Qed.
Lemma map_flat_map {X Y Z} (k : Y -> Z) (h : X -> list Y) l : map k (flat_map h l) = flat_map (fun x => map k (h x)) l.
Proof. induction l as [|x l IH]; simpl; [reflexivity|]. rewrite map_app, IH. reflexivity. Qed.

Lemma sem_pairs_map {A B A' B'} (f : A -> A') (g : B -> B') (m : A' -> B' -> bool) how la lb :
  sem_pairs m how (map f la) (map g lb) = map (pmap f g) (sem_pairs (fun a b => m (f a) (g b)) how la lb).
Proof.
  unfold sem_pairs. rewrite !map_app. f_equal; [|f_equal].
  - unfold pairs_inner. rewrite flat_map_map, map_flat_map. apply flat_map_ext. intros a.
    rewrite filter_map_comm, !map_map. reflexivity.
  - assert (pairs_left_only m (map f la) (map g lb) = map (pmap f g) (pairs_left_only (fun a b => m (f a) (g b)) la lb)) as E.
    { unfold pairs_left_only. rewrite flat_map_map, map_flat_map. apply flat_map_ext. intros a. rewrite filter_map_comm.
      destruct (filter _ lb); reflexivity. }
    destruct how; try reflexivity; exact E.
  - assert (pairs_right_only m (map f la) (map g lb) = map (pmap f g) (pairs_right_only (fun a b => m (f a) (g b)) la lb)) as E.
    { unfold pairs_right_only. rewrite flat_map_map, map_flat_map. apply flat_map_ext. intros b. rewrite filter_map_comm.
      destruct (filter _ la); reflexivity. }
    destruct how; try reflexivity; exact E.
Qed.

(* ------------------------------------------------------------------ sem_join in terms of pairs *)
Definition sem_mk (ca cb : list string) (p : pair (list val) (list val)) : list val :=
  map (fun c => let va := match fst p with Some r => if mem c ca then get ca r c else VNull | None => VNull end in
                let vb := match snd p with Some r => if mem c cb then get cb r c else VNull | None => VNull end in
                if is_null va then vb else va) (ca ++ filter (fun c => negb (mem c ca)) cb).

Lemma existsb_filter_nil {X} (f : X -> bool) l : existsb f l = false <-> filter f l = [].
Proof.
  induction l as [|x l IH]; simpl; [tauto|]. destruct (f x); simpl; [split; discriminate|exact IH].
Qed.

Definition join_match (nm : bool) (ca cb on_a on_b : list string) (ra rb : list val) : bool :=
  keys_match nm (key_of ca on_a ra) (key_of cb on_b rb).

Lemma sem_join_as_pairs nm on_a on_b jt a b :
  sem_join nm on_a on_b jt a b
  = mktable (cols a ++ filter (fun c => negb (mem c (cols a))) (cols b))
            (map (sem_mk (cols a) (cols b)) (sem_pairs (join_match nm (cols a) (cols b) on_a on_b) (how_of jt) (rows a) (rows b))).
Proof.
  unfold sem_join. f_equal. unfold sem_pairs. rewrite !map_app. f_equal; [|f_equal].
  - rewrite inner_as_nested, map_flat_map. apply flat_map_ext. intros ra. rewrite map_flat_map. apply flat_map_ext. intros rb.
    unfold join_match. destruct (keys_match nm _ _); reflexivity.
  - assert (flat_map (fun ra => if existsb (fun rb => keys_match nm (key_of (cols a) on_a ra) (key_of (cols b) on_b rb)) (rows b) then []
                               else [sem_mk (cols a) (cols b) (Some ra, None)]) (rows a)
            = map (sem_mk (cols a) (cols b)) (pairs_left_only (join_match nm (cols a) (cols b) on_a on_b) (rows a) (rows b))) as E.
    { unfold pairs_left_only. rewrite map_flat_map. apply flat_map_ext. intros ra.
      destruct (existsb _ (rows b)) eqn:Ex.
      - destruct (filter (join_match nm (cols a) (cols b) on_a on_b ra) (rows b)) eqn:Ef; [|reflexivity].
        exfalso. apply existsb_filter_nil in Ef. unfold join_match in Ef. congruence.
      - apply existsb_filter_nil in Ex. unfold join_match. rewrite Ex. reflexivity. }
    destruct jt; cbn [how_of]; try reflexivity; exact E.
  - assert (flat_map (fun rb => if existsb (fun ra => keys_match nm (key_of (cols a) on_a ra) (key_of (cols b) on_b rb)) (rows a) then []
                               else [sem_mk (cols a) (cols b) (None, Some rb)]) (rows b)
            = map (sem_mk (cols a) (cols b)) (pairs_right_only (join_match nm (cols a) (cols b) on_a on_b) (rows a) (rows b))) as E.
    { unfold pairs_right_only. rewrite map_flat_map. apply flat_map_ext. intros rb.
      destruct (existsb _ (rows a)) eqn:Ex.
      - destruct (filter (fun ra => join_match nm (cols a) (cols b) on_a on_b ra rb) (rows a)) eqn:Ef; [|reflexivity].
        exfalso. apply existsb_filter_nil in Ef. unfold join_match in Ef. congruence.
      - apply existsb_filter_nil in Ex. unfold join_match. rewrite Ex. reflexivity. }
    destruct jt; cbn [how_of]; try reflexivity; exact E.
Qed.

Lemma merge_pairs_gen how L R lon ron :
  merge_pairs how L R lon ron
  = gen_pairs (fun ra rb => keys_eqv (key_of (cols L) lon ra) (key_of (cols R) ron rb)) (key_of (cols L) lon) (key_of (cols R) ron) how (rows L) (rows R).
Proof. destruct how; reflexivity. Qed.

(* ------------------------------------------------------------------ cells of a merged row *)
Lemma get_map_inj (ren : string -> string) (g : string -> val) l c :
  NoDup (map ren l) -> In c l -> get (map ren l) (map g l) (ren c) = g c.
Proof.
  induction l as [|x l IH]; intros N I; [contradiction|]. cbn [map] in *. inversion N as [|? ? Nx Nl]; subst.
  destruct I as [->|I].
  - apply get_cons_same.
  - rewrite get_cons_other; [apply IH; assumption|]. intros E. apply Nx. rewrite <- E. apply in_map. exact I.
Qed.

Lemma sapp_inj_l a b s : sapp a s = sapp b s -> a = b.
Proof.
  unfold sapp. revert b. induction a as [|x a IH]; intros b H.
  - destruct b as [|y b]; [reflexivity|]. exfalso. simpl in H. apply (f_equal String.length) in H. simpl in H.
    change (String.length s = S (String.length (String.append b s))) in H.
    pose proof (sapp_length b s) as L. unfold sapp in L. rewrite L in H. lia.
  - destruct b as [|y b].
    + exfalso. simpl in H. apply (f_equal String.length) in H. simpl in H. pose proof (sapp_length a s) as L. unfold sapp in L. rewrite L in H. lia.
    + simpl in H. inversion H; subst. f_equal. apply IH. assumption.
Qed.

Lemma NoDup_app_r {X} (l m : list X) : NoDup (l ++ m) -> NoDup m.
Proof. induction l as [|x l IH]; simpl; intros N; [exact N|]. inversion N; subst. apply IH. assumption. Qed.
Lemma NoDup_app_l {X} (l m : list X) : NoDup (l ++ m) -> NoDup l.
Proof. induction l as [|x l IH]; simpl; intros N; [constructor|]. inversion N as [|? ? Nx Nl]; subst. constructor; [|apply IH, Nl]. intros I. apply Nx, in_app_iff. left. exact I. Qed.
Lemma NoDup_app_disj {X} (l m : list X) x : NoDup (l ++ m) -> In x l -> ~ In x m.
Proof.
  induction l as [|y l IH]; simpl; intros N I J; [contradiction|]. inversion N as [|? ? Ny Nl]; subst. destruct I as [->|I].
  - apply Ny. apply in_app_iff. right. exact J.
  - apply (IH Nl I J).
Qed.

Section Merge.
  Variables (L R : table) (lon ron : list string) (sfx : string).
  Hypothesis WL : width_ok L.
  Hypothesis WR : width_ok R.
  Let kept := merge_right_cols lon ron (cols R).
  Let ren := fun c => if mem c (cols L) then sapp c sfx else c.
  Let out := merge_cols (cols L) (cols R) lon ron sfx.
  Hypothesis Nout : NoDup out.

  Definition fL (p : pair (list val) (list val)) (c : string) : val :=
    match fst p with
    | Some ra => get (cols L) ra c
    | None => match snd p with
              | Some rb => if same_named_key lon ron c then get (cols R) rb c else VNull
              | None => VNull
              end
    end.
  Definition fR (p : pair (list val) (list val)) (c : string) : val :=
    match snd p with Some rb => get (cols R) rb c | None => VNull end.
  Definition g0 (p : pair (list val) (list val)) (x : string) : val := get out (merge_row (cols L) (cols R) lon ron p) x.

  Lemma out_eq : out = cols L ++ map ren kept.
  Proof. reflexivity. Qed.
  Lemma merge_row_eq p : merge_row (cols L) (cols R) lon ron p = map (fL p) (cols L) ++ map (fR p) kept.
  Proof. reflexivity. Qed.

  Lemma g0_left p x : In x (cols L) -> g0 p x = fL p x.
  Proof.
    intros I. unfold g0. rewrite out_eq, merge_row_eq. rewrite get_app_l; [|apply map_length|exact I].
    rewrite get_map_cols. apply mem_In in I. rewrite I. reflexivity.
  Qed.
  Lemma ren_not_left c : In c kept -> ~ In (ren c) (cols L).
  Proof.
    intros I J. rewrite out_eq in Nout. apply (NoDup_app_disj _ _ _ Nout J). apply in_map, I.
  Qed.
  Lemma g0_right p c : In c kept -> g0 p (ren c) = fR p c.
  Proof.
    intros I. unfold g0. rewrite out_eq, merge_row_eq. rewrite get_app_r; [|apply map_length|apply ren_not_left, I].
    apply get_map_inj; [|exact I]. rewrite out_eq in Nout. apply NoDup_app_r in Nout. exact Nout.
  Qed.
  Lemma merge_row_length p : List.length (merge_row (cols L) (cols R) lon ron p) = List.length out.
  Proof. rewrite out_eq, merge_row_eq, !app_length, !map_length. reflexivity. Qed.
End Merge.

(* ------------------------------------------------------------------ one round of the coalescing loop *)
Lemma add_end_mem (cs : list string) c : In c cs -> add_end cs c = cs.
Proof. intros I. unfold add_end. apply mem_In in I. rewrite I. reflexivity. Qed.

Lemma coalesce_step {X} F (PP : list X) (val : X -> string -> val) c c2 F' :
  width_ok F -> Forall2 (fun rF p => forall x, In x (cols F) -> get (cols F) rF x = val p x) (rows F) PP ->
  (is_null <- pd_isnull c F ;; r <- pd_loc_set_from is_null c c2 F ;; pd_del c2 r) = Some F' ->
  In c (cols F) /\ In c2 (cols F) /\ width_ok F' /\ cols F' = remove_elem c2 (cols F) /\
  Forall2 (fun rF p => forall x, In x (cols F') -> get (cols F') rF x
                                  = if eq_dec x c then (if is_null (val p c) then val p c2 else val p c) else val p x) (rows F') PP.
Proof.
  intros W F2 H. unfold pd_isnull, pd_col in H. destruct (mem c (cols F)) eqn:Mc; cbn [option_map obind] in H; [|discriminate].
  unfold pd_loc_set_from in H. rewrite Mc in H. destruct (mem c2 (cols F)) eqn:Mc2; cbn [andb] in H; [|discriminate].
  unfold getcol, nrows in H. rewrite !map_length, Nat.eqb_refl in H. cbn [obind] in H.
  unfold pd_del in H. cbn [cols] in H. rewrite Mc2 in H. inversion H; subst F'. clear H.
  apply mem_In in Mc. apply mem_In in Mc2. split; [exact Mc|]. split; [exact Mc2|]. split; [apply width_select_cols|]. split; [reflexivity|].
  cbn [cols rows sem_select_cols]. rewrite (map_map (fun r => get (cols F) r c) is_null), combine_self_map, !map_map. cbn [fst snd].
  rewrite <- (map_id PP). unfold width_ok in W. revert W F2. generalize (rows F) as rs. intros rs W F2.
  induction F2 as [|rF p rs PP Hr F2 IH]; cbn [map]; constructor; [|apply IH; inversion W; assumption].
  intros x Ix. rewrite get_map_cols. apply mem_In in Ix as Mx. rewrite Mx. apply In_remove_elem in Ix. destruct Ix as [Ix Nx].
  assert (List.length rF = List.length (cols F)) as Lr by (inversion W; assumption).
  destruct (is_null (get (cols F) rF c)) eqn:En.
  - rewrite <- (add_end_mem (cols F) c Mc) at 1. rewrite (set_cell_get _ _ _ _ _ Lr).
    rewrite <- (Hr c Mc), En. destruct (eq_dec x c); [apply Hr, Mc2|apply Hr, Ix].
  - rewrite <- (Hr c Mc), En. destruct (eq_dec x c) as [->|n]; [reflexivity|apply Hr, Ix].
Qed.


(* ------------------------------------------------------------------ the whole loop *)
Section Loop.
  Context {X : Type}.
  Variables (PP : list X) (g : X -> string -> val) (names : list string) (sfx : string) (cols0 : list string).

  (* the shared column x has a suffixed right copy (in the frame the loop starts from) *)
  Definition kb (x : string) : bool := mem (sapp x sfx) cols0.
  Definition coal (done : list string) (x : string) : bool := mem x done && kb x.
  Definition valD (done : list string) (p : X) (x : string) : val :=
    if coal done x then (if is_null (g p x) then g p (sapp x sfx) else g p x) else g p x.
  Definition dropped (done : list string) : list string := map (fun c => sapp c sfx) (filter kb done).
  Definition JInv (F : table) (done : list string) : Prop :=
    width_ok F /\ cols F = filter (fun x => negb (mem x (dropped done))) cols0 /\
    Forall2 (fun rF p => forall x, In x (cols F) -> get (cols F) rF x = valD done p x) (rows F) PP.

  Lemma jstep_none cs : fold_left (jstep sfx) cs None = None.
  Proof. induction cs as [|c cs IH]; simpl; [reflexivity|exact IH]. Qed.

  Lemma coalesce_fold cs : forall done F F',
    (forall c, In c (done ++ cs) -> In c names /\ ~ In (sapp c sfx) names) -> NoDup (done ++ cs) ->
    JInv F done -> fold_left (jstep sfx) cs (Some F) = Some F' -> JInv F' (rev cs ++ done).
  Proof.
    induction cs as [|c cs IH]; intros done F F' Hn Nd Inv H.
    - simpl in H. inversion H; subst. exact Inv.
    - cbn [fold_left] in H. cbn [rev]. rewrite <- app_assoc. cbn [app].
      assert (~ In c done) as Ncd. { intros I. apply NoDup_remove_2 in Nd. apply Nd. apply in_app_iff. left. exact I. }
      assert (forall c0, In c0 ((c :: done) ++ cs) -> In c0 names /\ ~ In (sapp c0 sfx) names) as Hn'.
      { intros c0 I. apply Hn. cbn [app] in I. destruct I as [<-|I]; [apply in_app_iff; right; left; reflexivity|].
        apply in_app_iff in I. apply in_app_iff. destruct I as [I|I]; [left; exact I|right; right; exact I]. }
      assert (NoDup ((c :: done) ++ cs)) as Nd'.
      { cbn [app]. constructor; [apply NoDup_remove_2 in Nd; exact Nd|apply NoDup_remove_1 in Nd; exact Nd]. }
      destruct Inv as [W [Cf Fr]].
      (* the test `(c + suffix) in res.columns` sees what the starting frame had: no earlier round dropped this copy *)
      assert (mem (sapp c sfx) (cols F) = kb c) as Ek.
      { rewrite Cf. unfold kb. destruct (mem (sapp c sfx) cols0) eqn:M0.
        - apply mem_In, filter_In. split; [apply mem_In, M0|]. apply negb_true_iff, mem_false. intros Id. unfold dropped in Id.
          apply in_map_iff in Id. destruct Id as [c' [E' I']]. apply filter_In in I'. destruct I' as [I' _]. apply sapp_inj_l in E'. subst c'. contradiction.
        - apply mem_false. intros I. apply filter_In in I. destruct I as [I _]. apply mem_In in I. congruence. }
      unfold jstep at 2 in H. cbn [obind] in H. rewrite Ek in H. destruct (kb c) eqn:Kc.
      + destruct (is_null0 <- pd_isnull c F ;; r <- pd_loc_set_from is_null0 c (sapp c sfx) F ;; pd_del (sapp c sfx) r) as [F1|] eqn:E1;
          [|rewrite jstep_none in H; discriminate].
        destruct (coalesce_step F PP (valD done) c (sapp c sfx) F1 W Fr E1) as [Ic [Ic2 [W1 [C1 F1r]]]].
        apply (IH (c :: done) F1 F' Hn' Nd'); [|exact H]. split; [exact W1|]. split.
        * rewrite C1, Cf. unfold remove_elem. rewrite filter_filter. apply filter_ext. intros x. unfold dropped. cbn [filter]. rewrite Kc. cbn [map mem].
          unfold eqb. destruct (eq_dec (sapp c sfx) x), (eq_dec x (sapp c sfx)); try congruence; cbn [negb]; [rewrite andb_false_r|rewrite andb_true_r]; reflexivity.
        * assert (In c names /\ ~ In (sapp c sfx) names) as [Icn Nc2] by (apply Hn; apply in_app_iff; right; left; reflexivity).
          assert (~ In (sapp c sfx) done) as N2d. { intros I. apply Nc2. apply (Hn (sapp c sfx)). apply in_app_iff. left. exact I. }
          eapply Forall2_weaken; [|exact F1r]. intros rF p Hr x Ix. rewrite (Hr x Ix). unfold valD, coal. cbn [mem].
          destruct (eq_dec x c) as [->|n].
          -- replace (mem c done) with false by (symmetry; apply mem_false, Ncd). rewrite Kc. cbn [andb].
             replace (mem (sapp c sfx) done) with false by (symmetry; apply mem_false, N2d). cbn [andb]. reflexivity.
          -- reflexivity.
      + (* no suffixed copy: nothing happens *)
        apply (IH (c :: done) F F' Hn' Nd'); [|exact H]. split; [exact W|]. split.
        * rewrite Cf. unfold dropped. cbn [filter]. rewrite Kc. reflexivity.
        * eapply Forall2_weaken; [|exact Fr]. intros rF p Hr x Ix. rewrite (Hr x Ix). unfold valD, coal. cbn [mem].
          destruct (eq_dec x c) as [->|n]; [rewrite Kc, !andb_false_r; reflexivity|reflexivity].
  Qed.
End Loop.

Lemma keys_eqv_null_at (ka kb : list val) i : keys_eqv ka kb = true -> is_null (nth i ka VNull) = true -> nth i kb VNull = VNull.
Proof.
  revert kb i. induction ka as [|x ka IH]; intros [|y kb] [|i] E N; simpl in *; try discriminate; try reflexivity.
  - apply andb_true_iff in E. destruct E as [E _]. destruct x; try discriminate. destruct y; try discriminate. reflexivity.
  - apply andb_true_iff in E. destruct E as [_ E]. apply (IH kb i E N).
Qed.

Definition sem_cell (ca cb : list string) (p : pair (list val) (list val)) (c : string) : val :=
  let va := match fst p with Some r => if mem c ca then get ca r c else VNull | None => VNull end in
  let vb := match snd p with Some r => if mem c cb then get cb r c else VNull | None => VNull end in
  if is_null va then vb else va.

Lemma key_pair_null cl cr on_a on_b ra rb c :
  In (c, c) (combine on_a on_b) -> keys_eqv (key_of cl on_a ra) (key_of cr on_b rb) = true ->
  is_null (get cl ra c) = true -> get cr rb c = VNull.
Proof.
  intros I E N. destruct (In_nth_error _ _ I) as [i Hi].
  assert (nth_error on_a i = Some c /\ nth_error on_b i = Some c) as [Ea Eb].
  { clear -Hi. revert on_b i Hi. induction on_a as [|a on_a IH]; intros [|b on_b] [|i] H; simpl in *; try discriminate.
    - inversion H; subst. split; reflexivity.
    - apply IH, H. }
  pose proof (keys_eqv_null_at _ _ i E) as K. unfold key_of in K.
  rewrite (nth_indep _ VNull (get cl ra "")) in K by (rewrite map_length; apply nth_error_Some; congruence).
  rewrite (map_nth (get cl ra)) in K. rewrite (nth_error_nth _ _ _ Ea) in K. specialize (K N).
  rewrite (nth_indep _ VNull (get cr rb "")) in K by (rewrite map_length; apply nth_error_Some; congruence).
  rewrite (map_nth (get cr rb)) in K. rewrite (nth_error_nth _ _ _ Eb) in K. exact K.
Qed.

Lemma Forall2_map_r {A B C} (P : A -> C -> Prop) (f : B -> C) l m : Forall2 P l (map f m) -> Forall2 (fun a b => P a (f b)) l m.
Proof. revert l. induction m as [|b m IH]; intros l F; simpl in F; inversion F; subst; constructor; auto. Qed.

(* ------------------------------------------------------------------ merge + deletions + loop against the reference join *)
(* The frames actually merged, L and R, are the two inputs possibly carrying one more key column each (the constant scratch key of an
   empty `on`, or the null-key marker); their rows are given per ITEM (an input row with its position), because the marker
   depends on the position. *)
Section Core.
  Context {IA IB : Type}.
  Variables (l r : table) (la : list IA) (lb : list IB) (rowA : IA -> list val) (rowB : IB -> list val).
  Hypothesis Hla : rows l = map rowA la.
  Hypothesis Hlb : rows r = map rowB lb.
  Variables (on_a on_b : list string) (how : merge_how) (sfx : string).
  Let cl := cols l.
  Let cr := cols r.
  Let common := set_inter cl cr.
  Let names := set_union cl cr.
  Let semout := cl ++ filter (fun c => negb (mem c cl)) cr.
  Hypothesis Hsfx : forall c, In c common -> ~ In (sapp c sfx) names.
  Hypothesis Ha : forall c, In c on_a -> In c cl.
  Hypothesis Hb : forall c, In c on_b -> In c cr.

  Variables (L R : table) (lon ron dels : list string) (extL : IA -> list val) (extR : IB -> list val).
  Hypothesis HcL : cols L = cl ++ dels.
  Hypothesis HcR : cols R = cr ++ dels.
  Hypothesis HrL : rows L = map extL la.
  Hypothesis HrR : rows R = map extR lb.
  Hypothesis HgL : forall a c, In a la -> In c cl -> get (cols L) (extL a) c = get cl (rowA a) c.
  Hypothesis HgR : forall b c, In b lb -> In c cr -> get (cols R) (extR b) c = get cr (rowB b) c.
  Hypothesis Hdel : forall s, In s dels -> ~ In s names.
  Hypothesis Hsn : forall c, same_named_key lon ron c = true <-> (In c dels \/ In (c, c) (combine on_a on_b)).
  Hypothesis Hmt : forall a b, In a la -> In b lb ->
    keys_eqv (key_of (cols L) lon (extL a)) (key_of (cols R) ron (extR b)) = join_match false cl cr on_a on_b (rowA a) (rowB b).

  Let kept := merge_right_cols lon ron (cols R).
  Let ren := fun c => if mem c (cols L) then sapp c sfx else c.
  Let out := merge_cols (cols L) (cols R) lon ron sfx.
  Let cols0 := filter (fun x => negb (mem x dels)) out.
  Let PP := merge_pairs how L R lon ron.
  Let m0 := fun (a : IA) (b : IB) => join_match false cl cr on_a on_b (rowA a) (rowB b).
  Let SP0 := sem_pairs m0 how la lb.
  Let ext := pmap extL extR.
  Let rw := pmap rowA rowB.
  Let gg := g0 L R lon ron sfx.

  Lemma in_names_l c : In c cl -> In c names.  Proof. intros I. apply In_set_union. left. exact I. Qed.
  Lemma in_names_r c : In c cr -> In c names.  Proof. intros I. apply In_set_union. right. exact I. Qed.

  Lemma PP_perm : Permutation PP (map ext SP0).
  Proof.
    unfold PP. rewrite merge_pairs_gen. eapply perm_trans; [apply gen_pairs_perm|]. rewrite HrL, HrR, sem_pairs_map.
    unfold ext, SP0. rewrite (sem_pairs_ext_in _ m0); [apply Permutation_refl|]. intros a b Ia Ib. apply Hmt; assumption.
  Qed.

  Lemma fL_ext p0 c : In p0 SP0 -> In c cl ->
    fL L R lon ron (ext p0) c = match fst p0 with
                                | Some a => get cl (rowA a) c
                                | None => match snd p0 with
                                          | Some b => if same_named_key lon ron c then get cr (rowB b) c else VNull
                                          | None => VNull
                                          end
                                end.
  Proof.
    intros I Ic. destruct (sem_pairs_from _ (fun _ => []) (fun _ => []) _ _ _ _ I) as [Fa [Fb _]]. unfold fL, ext, pmap. destruct p0 as [[a|] [b|]]; cbn [fst snd option_map].
    - apply HgL; [apply Fa; reflexivity|exact Ic].
    - apply HgL; [apply Fa; reflexivity|exact Ic].
    - destruct (same_named_key lon ron c) eqn:Sn; [|reflexivity]. apply HgR; [apply Fb; reflexivity|].
      apply Hsn in Sn. destruct Sn as [Sd|Sc]; [exfalso; apply (Hdel c Sd), in_names_l, Ic|]. apply Hb. eapply in_combine_r. exact Sc.
    - reflexivity.
  Qed.
  Lemma fR_ext p0 c : In p0 SP0 -> In c cr -> fR R (ext p0) c = match snd p0 with Some b => get cr (rowB b) c | None => VNull end.
  Proof.
    intros I Ic. destruct (sem_pairs_from _ (fun _ => []) (fun _ => []) _ _ _ _ I) as [_ [Fb _]]. unfold fR, ext, pmap. destruct p0 as [oa [b|]]; cbn [fst snd option_map]; [|reflexivity].
    apply HgR; [apply Fb; reflexivity|exact Ic].
  Qed.

  Lemma NoDup_cl : NoDup out -> NoDup cl.
  Proof. intros Nout. unfold out, merge_cols in Nout. rewrite HcL in Nout. apply NoDup_app_l, NoDup_app_l in Nout. exact Nout. Qed.

  Lemma not_same_named c : In c names -> ~ In (c, c) (combine on_a on_b) -> same_named_key lon ron c = false.
  Proof.
    intros In0 Nc. destruct (same_named_key lon ron c) eqn:Sn; [|reflexivity]. exfalso. apply Hsn in Sn. destruct Sn as [Sd|Sc]; [apply (Hdel c Sd In0)|exact (Nc Sc)].
  Qed.

  (* a shared column has a suffixed right copy unless it is a key pair with the same name on both sides *)
  Lemma shared_kept c : In c cl -> In c cr -> same_named_key lon ron c = false -> In c kept /\ ren c = sapp c sfx.
  Proof.
    intros Il Ir Sn. split.
    - unfold kept, merge_right_cols. apply filter_In. split; [rewrite HcR; apply in_app_iff; left; exact Ir|]. rewrite Sn. reflexivity.
    - unfold ren. replace (mem c (cols L)) with true; [reflexivity|]. symmetry. apply mem_In. rewrite HcL. apply in_app_iff. left. exact Il.
  Qed.
  Lemma right_only_kept c : ~ In c cl -> In c cr -> In c kept /\ ren c = c.
  Proof.
    intros Nl Ir. assert (~ In c dels) as Nd by (intros I; apply (Hdel c I), in_names_r, Ir). split.
    - unfold kept, merge_right_cols. apply filter_In. split; [rewrite HcR; apply in_app_iff; left; exact Ir|].
      apply negb_true_iff. apply not_same_named; [apply in_names_r, Ir|]. intros Sc. apply Nl, Ha. eapply in_combine_l. exact Sc.
    - unfold ren. replace (mem c (cols L)) with false; [reflexivity|]. symmetry. apply mem_false. rewrite HcL. intros I. apply in_app_iff in I. tauto.
  Qed.

  (* which shared columns the loop coalesces *)
  Lemma kb_common c : NoDup out -> In c common -> kb sfx cols0 c = negb (same_named_key lon ron c).
  Proof.
    intros Nout Ic. apply In_set_inter in Ic. destruct Ic as [Il Ir]. unfold kb, cols0.
    destruct (same_named_key lon ron c) eqn:Sn; cbn [negb].
    - (* folded into one key column by merge: no suffixed copy *)
      apply mem_false. intros I. apply filter_In in I. destruct I as [Io Nd]. apply negb_true_iff, mem_false in Nd.
      unfold out, merge_cols in Io. apply in_app_iff in Io. destruct Io as [Io|Io].
      + rewrite HcL in Io. apply in_app_iff in Io. destruct Io as [Io|Io]; [|contradiction].
        apply (Hsfx c); [apply In_set_inter; split; assumption|apply in_names_l, Io].
      + apply in_map_iff in Io. destruct Io as [c0 [E0 Ik]]. unfold merge_right_cols in Ik. apply filter_In in Ik. destruct Ik as [Ir0 Ns0].
        destruct (mem c0 (cols L)) eqn:M0.
        * apply sapp_inj_l in E0. subst c0. rewrite Sn in Ns0. discriminate.
        * subst c0. rewrite HcR in Ir0. apply in_app_iff in Ir0. destruct Ir0 as [Ir0|Id0].
          -- apply (Hsfx c); [apply In_set_inter; split; assumption|apply in_names_r, Ir0].
          -- apply negb_true_iff in Ns0. assert (same_named_key lon ron (sapp c sfx) = true) as T by (apply Hsn; left; exact Id0). congruence.
    - destruct (shared_kept c Il Ir Sn) as [Ik Er]. apply mem_In, filter_In. split.
      + unfold out, merge_cols. apply in_app_iff. right. fold kept. rewrite <- Er. apply in_map_iff. exists c. split; [reflexivity|exact Ik].
      + apply negb_true_iff, mem_false. intros Id.
        assert (In (sapp c sfx) (cols L)) as IL by (rewrite HcL; apply in_app_iff; right; exact Id).
        rewrite <- Er in IL. revert IL. apply (ren_not_left L R lon ron sfx Nout c Ik).
  Qed.

  (* ---- the value the loop leaves in column x, against the cell of the reference join *)
  Lemma final_cell p0 x : NoDup out -> In p0 SP0 -> In x semout ->
    valD gg sfx cols0 (rev common) (ext p0) x = sem_cell cl cr (rw p0) x.
  Proof.
    intros Nout I Ix. unfold valD, coal, gg.
    assert (mem x (rev common) = mem x common) as ->.
    { destruct (mem x common) eqn:M; [apply mem_In, in_rev; rewrite rev_involutive; apply mem_In, M|].
      apply mem_false. intros J. apply in_rev in J. apply mem_false in M. contradiction. }
    unfold semout in Ix. apply in_app_iff in Ix.
    destruct (sem_pairs_from _ (fun _ => []) (fun _ => []) _ _ _ _ I) as [Fa [Fb _]].
    destruct (in_dec string_dec x cl) as [Il|Nl].
    - (* a left column *)
      assert (In x (cols L)) as IL by (rewrite HcL; apply in_app_iff; left; exact Il).
      rewrite !(g0_left L R lon ron sfx _ x IL). rewrite (fL_ext p0 x I Il).
      destruct (in_dec string_dec x cr) as [Ir|Nr].
      + assert (In x common) as Ic by (apply In_set_inter; split; assumption).
        replace (mem x common) with true by (symmetry; apply mem_In, Ic). rewrite (kb_common x Nout Ic). cbn [andb].
        destruct (same_named_key lon ron x) eqn:Sn; cbn [negb].
        * (* a key with the same name on both sides *)
          assert (In (x, x) (combine on_a on_b)) as Ixx.
          { apply Hsn in Sn. destruct Sn as [Sd|Sc]; [exfalso; apply (Hdel x Sd), in_names_l, Il|exact Sc]. }
          unfold sem_cell, rw, pmap. apply mem_In in Il as Ml. apply mem_In in Ir as Mr. rewrite Ml, Mr.
          destruct p0 as [[a|] [b|]]; cbn [fst snd option_map].
          -- destruct (is_null (get cl (rowA a) x)) eqn:En; [|reflexivity].
             assert (m0 a b = true) as Mab by (apply (sem_pairs_matched _ (fun _ => []) (fun _ => []) _ _ _ _ _ I)).
             unfold m0, join_match, keys_match in Mab. apply andb_true_iff in Mab. destruct Mab as [_ Mab].
             rewrite (key_pair_null cl cr on_a on_b (rowA a) (rowB b) x Ixx Mab En).
             destruct (get cl (rowA a) x); try discriminate. reflexivity.
          -- destruct (is_null (get cl (rowA a) x)) eqn:En; [|reflexivity]. destruct (get cl (rowA a) x); try discriminate. reflexivity.
          -- reflexivity.
          -- reflexivity.
        * (* a shared column that is coalesced *)
          destruct (shared_kept x Il Ir Sn) as [Ik Er]. rewrite <- Er.
          rewrite (g0_right L R lon ron sfx Nout _ x Ik). rewrite (fR_ext p0 x I Ir).
          unfold sem_cell, rw, pmap. apply mem_In in Il as Ml. apply mem_In in Ir as Mr. rewrite Ml, Mr.
          destruct p0 as [[a|] [b|]]; cbn [fst snd option_map]; reflexivity.
      + (* only on the left *)
        replace (mem x common) with false by (symmetry; apply mem_false; intros J; apply In_set_inter in J; tauto). cbn [andb].
        rewrite (not_same_named x (in_names_l x Il)) by (intros Sc; apply Nr, Hb; eapply in_combine_r; exact Sc).
        unfold sem_cell, rw, pmap. apply mem_In in Il as Ml. rewrite Ml. replace (mem x cr) with false by (symmetry; apply mem_false, Nr).
        destruct p0 as [[a|] [b|]]; cbn [fst snd option_map]; try reflexivity; destruct (is_null (get cl (rowA a) x)) eqn:En; try reflexivity;
          destruct (get cl (rowA a) x); try discriminate; reflexivity.
    - (* only on the right *)
      destruct Ix as [Ix|Ix]; [contradiction|]. apply filter_In in Ix. destruct Ix as [Ir _].
      replace (mem x common) with false by (symmetry; apply mem_false; intros J; apply In_set_inter in J; tauto). cbn [andb].
      destruct (right_only_kept x Nl Ir) as [Ik Er]. rewrite <- Er at 1.
      rewrite (g0_right L R lon ron sfx Nout _ x Ik). rewrite (fR_ext p0 x I Ir).
      unfold sem_cell, rw, pmap. replace (mem x cl) with false by (symmetry; apply mem_false, Nl). apply mem_In in Ir as Mr. rewrite Mr.
      destruct p0 as [[a|] [b|]]; cbn [fst snd option_map]; reflexivity.
  Qed.

  Lemma fold_del_length cs t t' : fold_left (fun acc c => r0 <- acc ;; pd_del c r0) cs (Some t) = Some t' -> width_ok t ->
    Forall2 (fun r' r0 => forall x, In x (cols t') -> get (cols t') r' x = get (cols t) r0 x) (rows t') (rows t).
  Proof.
    intros H W. destruct (fold_del_rows _ _ _ H W) as [_ [_ [_ F]]]. eapply Forall2_weaken; [|exact F].
    intros a b Hab x Ix. rewrite (Hab x). apply mem_In in Ix. rewrite Ix. reflexivity.
  Qed.

  Lemma core_refines x :
    (res0 <- pd_merge how L R lon ron sfx ;;
     res1 <- fold_left (fun acc s => r0 <- acc ;; pd_del s r0) dels (Some res0) ;;
     fold_left (jstep sfx) common (Some res1)) = Some x ->
    refines x (mktable semout (map (fun p0 => sem_mk cl cr (rw p0)) SP0)) /\ width_ok x.
  Proof.
    unfold pd_merge. destruct (_ && _ && _ && _); [|discriminate]. fold out.
    destruct (nodup_names out) eqn:Nd; cbn [obind]; [|discriminate]. fold PP.
    assert (NoDup out) as Nout by (apply nodup_names_sound, Nd).
    set (res0 := mktable out (map (merge_row (cols L) (cols R) lon ron) PP)).
    assert (width_ok res0) as W0.
    { unfold width_ok, res0. cbn [cols rows]. apply Forall_forall. intros r0 I. apply in_map_iff in I. destruct I as [p [<- _]].
      apply (merge_row_length L R lon ron sfx). }
    destruct (fold_left _ dels (Some res0)) as [res1|] eqn:Ed; cbn [obind]; [|discriminate].
    destruct (fold_del_rows _ _ _ Ed W0) as [C1 [W1 [L1 _]]]. pose proof (fold_del_length _ _ _ Ed W0) as F1. cbn [cols rows] in C1, F1.
    fold cols0 in C1. intros Hf.
    assert (JInv PP gg sfx cols0 res1 []) as J0.
    { split; [exact W1|]. split; [rewrite C1; unfold dropped; cbn [filter map mem negb]; rewrite filter_true; reflexivity|].
      unfold res0 in F1. cbn [rows cols] in F1. apply Forall2_map_r in F1. eapply Forall2_weaken; [|exact F1].
      intros a p Hap x0 Ix0. rewrite (Hap x0 Ix0). unfold valD, coal. cbn [mem andb]. reflexivity. }
    assert (NoDup common) as Nc by (apply NoDup_filter, (NoDup_cl Nout)).
    assert (forall c, In c ([] ++ common) -> In c names /\ ~ In (sapp c sfx) names) as Hn.
    { intros c Ic. cbn [app] in Ic. split; [|apply Hsfx, Ic]. apply In_set_inter in Ic. apply in_names_l. tauto. }
    pose proof (coalesce_fold PP gg names sfx cols0 common [] res1 x Hn Nc J0 Hf) as [Wx [Cx Fx]]. rewrite app_nil_r in Cx, Fx.
    split; [|exact Wx].
    (* columns of the result *)
    assert (forall c, In c (dropped sfx cols0 (rev common)) <-> exists c0, In c0 common /\ same_named_key lon ron c0 = false /\ c = sapp c0 sfx) as Dr.
    { intros c. unfold dropped. rewrite in_map_iff. split.
      - intros [c0 [E0 I0]]. apply filter_In in I0. destruct I0 as [I0 K0]. apply (proj2 (in_rev _ _)) in I0.
        rewrite (kb_common c0 Nout I0) in K0. apply negb_true_iff in K0. exists c0. split; [exact I0|]. split; [exact K0|symmetry; exact E0].
      - intros [c0 [I0 [K0 E0]]]. exists c0. split; [symmetry; exact E0|]. apply filter_In. split; [apply (proj1 (in_rev _ _)), I0|].
        rewrite (kb_common c0 Nout I0), K0. reflexivity. }
    assert (forall c, In c semout -> In c (cols x)) as Sub.
    { intros c Ic. assert (In c names) as Icn.
      { unfold semout in Ic. apply in_app_iff in Ic. destruct Ic as [Ic|Ic]; [apply in_names_l, Ic|apply filter_In in Ic; apply in_names_r; tauto]. }
      rewrite Cx. apply filter_In. split.
      - unfold cols0. apply filter_In. split.
        + unfold semout in Ic. apply in_app_iff in Ic. unfold out, merge_cols. destruct Ic as [Ic|Ic].
          * apply in_app_iff. left. rewrite HcL. apply in_app_iff. left. exact Ic.
          * apply filter_In in Ic. destruct Ic as [Ir Nl]. apply negb_true_iff, mem_false in Nl. destruct (right_only_kept c Nl Ir) as [Ik Er].
            apply in_app_iff. right. fold kept. rewrite <- Er. apply in_map_iff. exists c. split; [reflexivity|exact Ik].
        + apply negb_true_iff, mem_false. intros Id. apply (Hdel c Id Icn).
      - apply negb_true_iff, mem_false. intros Id. apply Dr in Id. destruct Id as [c0 [I0 [_ E0]]]. apply (Hsfx c0 I0). rewrite <- E0. exact Icn. }
    assert (forall c, In c (cols x) -> In c semout) as Sup.
    { intros c Ic. rewrite Cx in Ic. apply filter_In in Ic. destruct Ic as [Ic Nd0]. unfold cols0 in Ic. apply filter_In in Ic. destruct Ic as [Io Ndel].
      apply negb_true_iff, mem_false in Ndel. apply negb_true_iff, mem_false in Nd0.
      unfold out, merge_cols in Io. apply in_app_iff in Io. unfold semout. apply in_app_iff. destruct Io as [Io|Io].
      - rewrite HcL in Io. apply in_app_iff in Io. destruct Io as [Io|Io]; [left; exact Io|contradiction].
      - apply in_map_iff in Io. destruct Io as [c0 [E0 Ik]]. unfold merge_right_cols in Ik. apply filter_In in Ik. destruct Ik as [Ir0 Nsn].
        rewrite HcR in Ir0. apply in_app_iff in Ir0. apply negb_true_iff in Nsn.
        destruct Ir0 as [Ir0|Id0]; [|exfalso; assert (same_named_key lon ron c0 = true) as T by (apply Hsn; left; exact Id0); congruence].
        destruct (in_dec string_dec c0 cl) as [Il0|Nl0].
        + (* a shared column with a suffixed copy: the loop dropped it *)
          exfalso. apply Nd0. apply Dr. exists c0. split; [apply In_set_inter; split; assumption|]. split; [exact Nsn|].
          rewrite <- E0. replace (mem c0 (cols L)) with true; [reflexivity|]. symmetry. apply mem_In. rewrite HcL. apply in_app_iff. left. exact Il0.
        + right. assert (mem c0 (cols L) = false) as Mf.
          { apply mem_false. rewrite HcL. intros I. apply in_app_iff in I. destruct I as [I|I]; [contradiction|apply (Hdel c0 I), in_names_r, Ir0]. }
          rewrite Mf in E0. subst c. apply filter_In. split; [exact Ir0|]. apply negb_true_iff, mem_false, Nl0. }
    (* the rows *)
    exists (mktable semout (map (fun p => map (fun c => valD gg sfx cols0 (rev common) p c) semout) PP)). split; [|split].
    - split; cbn [cols rows]; [intros c; split; [apply Sup|apply Sub]|].
      rewrite <- (map_id (rows x)). revert Fx. generalize (rows x) as rs. generalize PP as pp. intros pp rs Fx.
      induction Fx as [|a p rs pp Hap Fx IH]; cbn [map]; constructor; [|exact IH].
      intros c. rewrite (get_map_cols (fun c0 => valD gg sfx cols0 (rev common) p c0)). destruct (mem c semout) eqn:M.
      + apply Hap. apply Sub. apply mem_In, M.
      + apply get_absent. intros Ic. apply Sup in Ic. apply mem_In in Ic. congruence.
    - reflexivity.
    - cbn [rows]. eapply perm_trans; [apply Permutation_map, PP_perm|]. rewrite map_map.
      assert (map (fun x0 => map (fun c => valD gg sfx cols0 (rev common) (ext x0) c) semout) SP0 = map (fun p0 => sem_mk cl cr (rw p0)) SP0) as ->; [|apply Permutation_refl].
      apply map_ext_in. intros p0 I0. unfold sem_mk. apply map_ext_in. intros c Ic. apply (final_cell p0 c Nout I0 Ic).
  Qed.
End Core.

(* ------------------------------------------------------------------ _natural_join_step *)
Lemma same_named_spec lon ron c : same_named_key lon ron c = true <-> In (c, c) (combine lon ron).
Proof.
  unfold same_named_key. rewrite existsb_exists. split.
  - intros [[a b] [I E]]. cbn [fst snd] in E. apply andb_true_iff in E. destruct E as [E1 E2].
    apply String.eqb_eq in E1. apply String.eqb_eq in E2. subst. exact I.
  - intros I. exists (c, c). split; [exact I|]. cbn [fst snd]. rewrite String.eqb_refl. reflexivity.
Qed.

Lemma map_snd_tag (rs : list (list val)) : forall n, map snd (tag_from n rs) = rs.
Proof. induction rs as [|r rs IH]; intros n; simpl; [reflexivity|]. rewrite IH. reflexivity. Qed.

Lemma combine_marker {X} (G : nat * bool -> X) (f : list val -> bool) (rs : list (list val)) : forall n,
  combine rs (map G (combine (seq n (List.length rs)) (map f rs))) = map (fun it => (snd it, G (fst it, f (snd it)))) (tag_from n rs).
Proof. induction rs as [|r rs IH]; intros n; simpl; [reflexivity|]. rewrite IH. reflexivity. Qed.

Lemma keys_eqv_snoc ka kb x y : List.length ka = List.length kb -> keys_eqv (ka ++ [x]) (kb ++ [y]) = keys_eqv ka kb && v_eqv x y.
Proof.
  revert kb. induction ka as [|a ka IH]; intros [|b kb] L; simpl in L; try discriminate; simpl.
  - rewrite andb_true_r. reflexivity.
  - rewrite IH by lia. rewrite andb_assoc. reflexivity.
Qed.
Lemma keys_eqv_null_same ka kb : keys_eqv ka kb = true -> existsb is_null ka = existsb is_null kb.
Proof.
  revert kb. induction ka as [|a ka IH]; intros [|b kb] E; simpl in E; try discriminate; [reflexivity|].
  apply andb_true_iff in E. destruct E as [E1 E2]. simpl. rewrite (IH kb E2). f_equal.
  destruct a, b; simpl in *; try reflexivity; try discriminate.
Qed.
Lemma marker_eqv (nl nr : bool) i j :
  v_eqv (if nl then vint (Z.of_nat (S i)) else vint 0) (if nr then vint (- Z.of_nat (S j)) else vint 0) = negb nl && negb nr.
Proof.
  unfold vint, v_eqv. destruct nl, nr; cbn [num_of negb andb].
  - apply not_true_iff_false. intros E. apply Qeq_bool_iff in E. unfold Qeq, inject_Z in E. cbn [Qnum Qden] in E. lia.
  - apply not_true_iff_false. intros E. apply Qeq_bool_iff in E. unfold Qeq, inject_Z in E. cbn [Qnum Qden] in E. lia.
  - apply not_true_iff_false. intros E. apply Qeq_bool_iff in E. unfold Qeq, inject_Z in E. cbn [Qnum Qden] in E. lia.
  - reflexivity.
Qed.

Lemma key_of_snoc cs ks (r : list val) n v : List.length r = List.length cs -> (forall c, In c ks -> In c cs) -> ~ In n cs ->
  key_of (cs ++ [n]) (ks ++ [n]) (r ++ [v]) = key_of cs ks r ++ [v].
Proof.
  intros L S N. unfold key_of. rewrite map_app. f_equal.
  - apply map_ext_in. intros c Ic. apply get_app_l; [exact L|apply S, Ic].
  - cbn [map]. rewrite (get_app_r _ _ _ _ _ L N). unfold get. cbn [index_of]. destruct (eq_dec n n); [reflexivity|congruence].
Qed.

Lemma combine_app {X Y} (l1 l2 : list X) (m1 m2 : list Y) : List.length l1 = List.length m1 -> combine (l1 ++ l2) (m1 ++ m2) = combine l1 m1 ++ combine l2 m2.
Proof. revert m1. induction l1 as [|x l1 IH]; intros [|y m1] L; simpl in L; try discriminate; simpl; [reflexivity|]. rewrite IH by lia. reflexivity. Qed.
Lemma existsb_id_true (l : list bool) : existsb (fun b => b) l = true <-> In true l.
Proof. rewrite existsb_exists. split; [intros [b [I E]]; subst; exact I|intros I; exists true; split; [exact I|reflexivity]]. Qed.

Lemma sem_join_tagged on_a on_b jt l r :
  sem_join false on_a on_b jt l r
  = mktable (cols l ++ filter (fun c => negb (mem c (cols l))) (cols r))
            (map (fun p0 => sem_mk (cols l) (cols r) (pmap (@snd nat (list val)) (@snd nat (list val)) p0))
                 (sem_pairs (fun a b : nat * list val => join_match false (cols l) (cols r) on_a on_b (snd a) (snd b)) (how_of jt)
                            (tag_from 0 (rows l)) (tag_from 0 (rows r)))).
Proof.
  rewrite sem_join_as_pairs. f_equal. rewrite <- (map_snd_tag (rows l) 0) at 1. rewrite <- (map_snd_tag (rows r) 0) at 1.
  rewrite sem_pairs_map, map_map. reflexivity.
Qed.

Theorem px_join_refines declared on_a on_b jt l r x :
  width_ok l -> width_ok r ->
  (forall c, In c on_a -> In c (cols l)) -> (forall c, In c on_b -> In c (cols r)) -> List.length on_a = List.length on_b ->
  same_set declared (cols l ++ filter (fun c => negb (mem c (cols l))) (cols r)) ->
  px_join declared on_a on_b jt l r = Some x -> refines x (sem_join false on_a on_b jt l r) /\ width_ok x.
Proof.
  intros Wl Wr Ha Hb Hlen Sd. unfold px_join, px_join_gen.
  destruct (Nat.eqb (nrows l) 0 && Nat.eqb (nrows r) 0) eqn:E0.
  - (* both sides empty *)
    rewrite sem_join_as_pairs.
    intros H. inversion H; subst x. apply andb_true_iff in E0. destruct E0 as [El Er]. apply Nat.eqb_eq in El, Er. unfold nrows in El, Er.
    apply length_zero_nil in El. apply length_zero_nil in Er. rewrite El, Er.
    split; [|unfold width_ok, pd_empty_frame; cbn [rows]; constructor].
    apply refines_of_eqv. unfold pd_empty_frame. split; cbn [cols rows]; [exact Sd|].
    destruct jt; cbn; constructor.
  - rewrite sem_join_tagged.
    set (common := set_inter (cols l) (cols r)). set (names := set_union (cols l) (cols r)). set (sfx := right_suffix common names).
    assert (forall c, In c common -> ~ In (sapp c sfx) names) as Hsfx by (intros c Ic; apply right_suffix_fresh, Ic).
    set (la := tag_from 0 (rows l)). set (lb := tag_from 0 (rows r)).
    assert (rows l = map snd la) as Hla by (unfold la; rewrite map_snd_tag; reflexivity).
    assert (rows r = map snd lb) as Hlb by (unfold lb; rewrite map_snd_tag; reflexivity).
    assert (forall a, In a la -> List.length (snd a) = List.length (cols l)) as Lla.
    { intros a Ia. unfold width_ok in Wl. rewrite Forall_forall in Wl. apply Wl. unfold la in Ia. apply tag_from_In in Ia. exact Ia. }
    assert (forall b, In b lb -> List.length (snd b) = List.length (cols r)) as Llb.
    { intros b Ib. unfold width_ok in Wr. rewrite Forall_forall in Wr. apply Wr. unfold lb in Ib. apply tag_from_In in Ib. exact Ib. }
    destruct on_a as [|a0 on_a'] eqn:Ea.
    + (* ---- empty `on`: a constant scratch key in both frames; no key is null, so no marker *)
      destruct on_b as [|b0 on_b']; [|discriminate]. set (S := unused_column_name base_merge_col names).
      pose proof (unused_column_name_fresh base_merge_col names) as FS. fold S in FS.
      assert (~ In S (cols l)) as Sl by (intros I; apply FS, In_set_union; left; exact I).
      assert (~ In S (cols r)) as Sr by (intros I; apply FS, In_set_union; right; exact I).
      cbv beta iota zeta.
      assert (forall t0, ~ In S (cols t0) -> width_ok t0 ->
                pd_isnull_any [S] (pd_set_scalar S vone t0) = Some (map (fun _ => false) (rows t0))) as Nn.
      { intros t0 St W0. unfold pd_isnull_any, pd_set_scalar. cbn [cols rows].
        replace (subset [S] (add_end (cols t0) S)) with true by (symmetry; apply subset_spec; intros c [<-|[]]; apply In_add_end; right; reflexivity).
        f_equal. rewrite map_map. apply map_ext_in. intros r0 I0. rewrite (add_end_new _ _ St), (set_cell_new _ _ _ _ St). cbn [key_of map existsb].
        unfold width_ok in W0. rewrite Forall_forall in W0. rewrite (get_app_r _ _ _ _ _ (W0 r0 I0) St).
        unfold get. cbn [index_of]. destruct (eq_dec S S); [reflexivity|congruence]. }
      rewrite (Nn l Sl Wl), (Nn r Sr Wr). cbn [obind].
      assert (forall (rs : list (list val)), existsb (fun b : bool => b) (map (fun _ => false) rs) = false) as Ef
        by (intros rs; induction rs; simpl; [reflexivity|assumption]).
      rewrite (Ef (rows l)). cbn [andb obind]. unfold clean_copy, pd_reset_index.
      intros H.
      destruct (pd_merge (how_of jt) (pd_set_scalar S vone l) (pd_set_scalar S vone r) [S] [S] sfx) as [res0|] eqn:Em; cbn [obind] in H; [|discriminate].
      destruct (pd_del S res0) as [res1|] eqn:Ed; cbn [obind] in H; [|discriminate].
      destruct (fold_left (jstep sfx) common (Some res1)) as [res2|] eqn:Ef2; cbn [obind] in H; [|discriminate]. inversion H; subst x. clear H.
      apply (core_refines l r la lb (@snd nat (list val)) (@snd nat (list val)) [] [] (how_of jt) sfx Hsfx Ha Hb
               (pd_set_scalar S vone l) (pd_set_scalar S vone r) [S] [S] [S]
               (fun a => set_cell (cols l) (snd a) S vone) (fun b => set_cell (cols r) (snd b) S vone)).
      * unfold pd_set_scalar. cbn [cols]. apply add_end_new, Sl.
      * unfold pd_set_scalar. cbn [cols]. apply add_end_new, Sr.
      * unfold pd_set_scalar. cbn [rows]. rewrite Hla, map_map. reflexivity.
      * unfold pd_set_scalar. cbn [rows]. rewrite Hlb, map_map. reflexivity.
      * intros a c Ia Ic. unfold pd_set_scalar. cbn [cols]. rewrite (add_end_new _ _ Sl), (set_cell_new _ _ _ _ Sl).
        apply get_app_l; [apply Lla, Ia|exact Ic].
      * intros b c Ib Ic. unfold pd_set_scalar. cbn [cols]. rewrite (add_end_new _ _ Sr), (set_cell_new _ _ _ _ Sr).
        apply get_app_l; [apply Llb, Ib|exact Ic].
      * intros s [<-|[]]. exact FS.
      * intros c. rewrite same_named_spec. cbn [combine In]. split; [intros [E|[]]; inversion E; left; left; reflexivity|].
        intros [[->|[]]|[]]. left. reflexivity.
      * intros a b Ia Ib. unfold pd_set_scalar. cbn [cols key_of map]. rewrite (add_end_new _ _ Sl), (add_end_new _ _ Sr).
        rewrite (set_cell_new _ _ _ _ Sl), (set_cell_new _ _ _ _ Sr).
        rewrite (get_app_r _ _ _ _ _ (Lla a Ia) Sl), (get_app_r _ _ _ _ _ (Llb b Ib) Sr).
        unfold get. cbn [index_of]. destruct (eq_dec S S); [|congruence]. reflexivity.
      * rewrite Em. cbn [obind fold_left]. rewrite Ed. cbn [obind]. exact Ef2.
    + (* ---- keyed join *)
      cbv beta iota zeta. rewrite <- Ea in *. clear Ea a0 on_a'.
      set (ka := key_of (cols l) on_a). set (kb' := key_of (cols r) on_b).
      unfold pd_isnull_any.
      replace (subset on_a (cols l)) with true by (symmetry; apply subset_spec; exact Ha).
      replace (subset on_b (cols r)) with true by (symmetry; apply subset_spec; exact Hb). cbn [obind].
      fold ka kb'.
      set (nl := map (fun r0 => existsb is_null (ka r0)) (rows l)). set (nr := map (fun r0 => existsb is_null (kb' r0)) (rows r)).
      assert (forall a b, In a la -> In b lb -> List.length (ka (snd a)) = List.length (kb' (snd b))) as Lk
        by (intros a b _ _; unfold ka, kb', key_of; rewrite !map_length; exact Hlen).
      destruct (existsb (fun b : bool => b) nl && existsb (fun b : bool => b) nr) eqn:Eany.
      * (* both sides have a row with a null key: the marker column joins the keys *)
        set (N := unused_column_name base_null_key names).
        pose proof (unused_column_name_fresh base_null_key names) as FN. fold N in FN.
        assert (~ In N (cols l)) as Nl by (intros I; apply FN, In_set_union; left; exact I).
        assert (~ In N (cols r)) as Nr by (intros I; apply FN, In_set_union; right; exact I).
        destruct (pd_set_col N (marker_left nl) l) as [L|] eqn:EL; cbn [obind]; [|discriminate].
        destruct (pd_set_col N (marker_right nr) r) as [R|] eqn:ER; cbn [obind]; [|discriminate].
        destruct (pd_set_col_inv _ _ _ _ EL) as [_ [CL RL]]. destruct (pd_set_col_inv _ _ _ _ ER) as [_ [CR RR]].
        rewrite (add_end_new _ _ Nl) in CL. rewrite (add_end_new _ _ Nr) in CR.
        set (extL := fun a : nat * list val => set_cell (cols l) (snd a) N (if existsb is_null (ka (snd a)) then vint (Z.of_nat (Datatypes.S (fst a))) else vint 0)).
        set (extR := fun b : nat * list val => set_cell (cols r) (snd b) N (if existsb is_null (kb' (snd b)) then vint (- Z.of_nat (Datatypes.S (fst b))) else vint 0)).
        assert (rows L = map extL la) as HrL.
        { rewrite RL. unfold marker_left, nl. rewrite map_length.
          rewrite (combine_marker (fun ib : nat * bool => if snd ib then vint (Z.of_nat (Datatypes.S (fst ib))) else vint 0) (fun r0 => existsb is_null (ka r0)) (rows l) 0).
          rewrite map_map. reflexivity. }
        assert (rows R = map extR lb) as HrR.
        { rewrite RR. unfold marker_right, nr. rewrite map_length.
          rewrite (combine_marker (fun ib : nat * bool => if snd ib then vint (- Z.of_nat (Datatypes.S (fst ib))) else vint 0) (fun r0 => existsb is_null (kb' r0)) (rows r) 0).
          rewrite map_map. reflexivity. }
        unfold clean_copy, pd_reset_index. intros H.
        destruct (pd_merge (how_of jt) L R (on_a ++ [N]) (on_b ++ [N]) sfx) as [res0|] eqn:Em; cbn [obind] in H; [|discriminate].
        destruct (pd_del N res0) as [res1|] eqn:Ed; cbn [obind] in H; [|discriminate].
        destruct (fold_left (jstep sfx) common (Some res1)) as [res2|] eqn:Ef2; cbn [obind] in H; [|discriminate]. inversion H; subst x. clear H.
        apply (core_refines l r la lb (@snd nat (list val)) (@snd nat (list val)) on_a on_b (how_of jt) sfx Hsfx Ha Hb
                 L R (on_a ++ [N]) (on_b ++ [N]) [N] extL extR CL CR HrL HrR).
        -- intros a c Ia Ic. rewrite CL. unfold extL. rewrite (set_cell_new _ _ _ _ Nl). apply get_app_l; [apply Lla, Ia|exact Ic].
        -- intros b c Ib Ic. rewrite CR. unfold extR. rewrite (set_cell_new _ _ _ _ Nr). apply get_app_l; [apply Llb, Ib|exact Ic].
        -- intros s [<-|[]]. exact FN.
        -- intros c. rewrite same_named_spec. rewrite combine_app by exact Hlen. cbn [combine]. rewrite in_app_iff. cbn [In].
           split; [intros [I|[E|[]]]; [right; exact I|inversion E; left; left; reflexivity]|].
           intros [[->|[]]|I]; [right; left; reflexivity|left; exact I].
        -- intros a b Ia Ib. rewrite CL, CR. unfold extL, extR. rewrite (set_cell_new _ _ _ _ Nl), (set_cell_new _ _ _ _ Nr).
           rewrite (key_of_snoc _ _ _ _ _ (Lla a Ia) Ha Nl), (key_of_snoc _ _ _ _ _ (Llb b Ib) Hb Nr). fold ka kb'.
           rewrite (keys_eqv_snoc _ _ _ _ (Lk a b Ia Ib)), marker_eqv. unfold join_match, keys_match. cbn [orb]. fold ka kb'.
           destruct (keys_eqv (ka (snd a)) (kb' (snd b))) eqn:Ek; [|rewrite andb_false_r; reflexivity].
           rewrite <- (keys_eqv_null_same _ _ Ek). destruct (existsb is_null (ka (snd a))); reflexivity.
        -- rewrite Em. cbn [obind fold_left]. rewrite Ed. cbn [obind]. exact Ef2.
      * (* at most one side has null keys: pandas' "null matches null" never fires *)
        cbn [obind]. unfold clean_copy, pd_reset_index. intros H.
        destruct (pd_merge (how_of jt) l r on_a on_b sfx) as [res0|] eqn:Em; cbn [obind] in H; [|discriminate].
        destruct (fold_left (jstep sfx) common (Some res0)) as [res2|] eqn:Ef2; cbn [obind] in H; [|discriminate]. inversion H; subst x. clear H.
        apply (core_refines l r la lb (@snd nat (list val)) (@snd nat (list val)) on_a on_b (how_of jt) sfx Hsfx Ha Hb
                 l r on_a on_b [] (@snd nat (list val)) (@snd nat (list val))).
        -- rewrite app_nil_r. reflexivity.
        -- rewrite app_nil_r. reflexivity.
        -- exact Hla.
        -- exact Hlb.
        -- reflexivity.
        -- reflexivity.
        -- intros s [].
        -- intros c. rewrite same_named_spec. cbn [In]. tauto.
        -- intros a b Ia Ib. unfold join_match, keys_match. cbn [orb]. fold ka kb'.
           destruct (keys_eqv (ka (snd a)) (kb' (snd b))) eqn:Ek; [|rewrite andb_false_r; reflexivity].
           destruct (existsb is_null (ka (snd a))) eqn:En; [|reflexivity]. exfalso.
           assert (existsb is_null (kb' (snd b)) = true) as En' by (rewrite <- (keys_eqv_null_same _ _ Ek); exact En).
           assert (existsb (fun b0 : bool => b0) nl = true) as T1.
           { apply existsb_id_true. unfold nl. apply in_map_iff. exists (snd a). split; [exact En|]. unfold la in Ia. apply tag_from_In in Ia. exact Ia. }
           assert (existsb (fun b0 : bool => b0) nr = true) as T2.
           { apply existsb_id_true. unfold nr. apply in_map_iff. exists (snd b). split; [exact En'|]. unfold lb in Ib. apply tag_from_In in Ib. exact Ib. }
           rewrite T1, T2 in Eany. discriminate.
        -- rewrite Em. cbn [obind fold_left]. exact Ef2.
Qed.
