(* PEXEC, part 5: _natural_join_step (suffix for the right copies, scratch key for an empty `on`, pandas.merge with its row and
   column order, the coalescing loop res.loc[is_null, c] = res.loc[is_null, c + suffix], dropping the suffixed and scratch
   columns) refines sem_join with pandas' key rule (null keys match): the columns of the reference semantics, every cell
   COALESCE(left, right), the rows up to a permutation.  All statements proved. *)
From Coq Require Import List Bool Arith ZArith QArith String Ascii Lia Permutation Sorted.
Import ListNotations.
From DA Require Import Base.PyRT Base.Val Model.Sem Model.PdPrim Model.PandasExec
  Proofs.SemBasicP Proofs.SemOrderP Proofs.ComposeP5 Proofs.PandasExecP1 Proofs.PandasExecP2 Proofs.PandasExecP3 Proofs.PandasExecP4.
Local Open Scope string_scope.
Local Open Scope list_scope.


(* ------------------------------------------------------------------ the pairs of rows a merge produces *)
Section Pairs.
  Context {A B : Type}.
  Variable m : A -> B -> bool.                              (* the match test *)
  Variables (lk : A -> list val) (rk : B -> list val).      (* the keys, used only to ORDER the rows of an outer merge *)
  Definition pair := (option A * option B)%type.

  Definition pairs_inner (la : list A) (lb : list B) : list pair :=
    flat_map (fun a => map (fun b => (Some a, Some b)) (filter (m a) lb)) la.
  Definition pairs_leftj (la : list A) (lb : list B) : list pair :=
    flat_map (fun a => match filter (m a) lb with [] => [(Some a, None)] | ms => map (fun b => (Some a, Some b)) ms end) la.
  Definition pairs_rightj (la : list A) (lb : list B) : list pair :=
    flat_map (fun b => match filter (fun a => m a b) la with [] => [(None, Some b)] | ms => map (fun a => (Some a, Some b)) ms end) lb.
  Definition pairs_right_only (la : list A) (lb : list B) : list pair :=
    flat_map (fun b => match filter (fun a => m a b) la with [] => [(None, Some b)] | _ => [] end) lb.
  Definition pairs_left_only (la : list A) (lb : list B) : list pair :=
    flat_map (fun a => match filter (m a) lb with [] => [(Some a, None)] | _ => [] end) la.
  Definition pair_key (p : pair) : list val :=
    match p with (Some a, _) => lk a | (None, Some b) => rk b | (None, None) => [] end.
  Definition gen_pairs (how : merge_how) (la : list A) (lb : list B) : list pair :=
    match how with
    | HInner => pairs_inner la lb
    | HLeft => pairs_leftj la lb
    | HRight => pairs_rightj la lb
    | HOuter => stable_sort (fun p q => keys_le (pair_key p) (pair_key q)) (pairs_leftj la lb ++ pairs_right_only la lb)
    end.
  (* the order in which the reference semantics lists them: matches, then unmatched left rows, then unmatched right rows *)
  Definition sem_pairs (how : merge_how) (la : list A) (lb : list B) : list pair :=
    pairs_inner la lb ++ (match how with HLeft | HOuter => pairs_left_only la lb | _ => [] end)
                      ++ (match how with HRight | HOuter => pairs_right_only la lb | _ => [] end).

  Lemma perm_flat_map_app {X Y} (f g : X -> list Y) l : Permutation (flat_map (fun x => f x ++ g x) l) (flat_map f l ++ flat_map g l).
  Proof.
    induction l as [|x l IH]; simpl; [constructor|]. rewrite <- !app_assoc. apply Permutation_app_head.
    eapply perm_trans; [apply Permutation_app_head, IH|]. apply Permutation_app_swap_app.
  Qed.

  Lemma leftj_perm la lb : Permutation (pairs_leftj la lb) (pairs_inner la lb ++ pairs_left_only la lb).
  Proof.
    unfold pairs_leftj, pairs_inner, pairs_left_only. eapply perm_trans; [|apply perm_flat_map_app].
    apply perm_flat_map_ext. intros a. destruct (filter (m a) lb); simpl; [apply Permutation_refl|rewrite app_nil_r; apply Permutation_refl].
  Qed.

  (* exchanging the two nested loops *)
  Lemma flat_map_swap {X Y Z} (f : X -> Y -> list Z) lx ly :
    Permutation (flat_map (fun x => flat_map (fun y => f x y) ly) lx) (flat_map (fun y => flat_map (fun x => f x y) lx) ly).
  Proof.
    induction lx as [|x lx IH]; simpl.
    - induction ly as [|y ly IHy]; simpl; [constructor|exact IHy].
    - eapply perm_trans; [apply Permutation_app_head, IH|]. clear IH.
      induction ly as [|y ly IHy]; simpl; [constructor|].
      rewrite <- !app_assoc. apply Permutation_app_head.
      eapply perm_trans; [|apply Permutation_app_head, IHy]. apply Permutation_app_swap_app.
  Qed.

  Lemma inner_as_nested la lb : pairs_inner la lb = flat_map (fun a => flat_map (fun b => if m a b then [(Some a, Some b)] else []) lb) la.
  Proof.
    unfold pairs_inner. apply flat_map_ext. intros a. induction lb as [|b lb IH]; simpl; [reflexivity|].
    destruct (m a b); simpl; rewrite IH; reflexivity.
  Qed.
  Lemma rightj_perm la lb : Permutation (pairs_rightj la lb) (pairs_inner la lb ++ pairs_right_only la lb).
  Proof.
    assert (Permutation (flat_map (fun b => map (fun a => (Some a, Some b)) (filter (fun a => m a b) la)) lb) (pairs_inner la lb)) as Pi.
    { rewrite inner_as_nested. eapply perm_trans; [|apply Permutation_sym, flat_map_swap].
      apply perm_flat_map_ext. intros b. induction la as [|a la IH]; simpl; [constructor|].
      destruct (m a b); simpl; [constructor; exact IH|exact IH]. }
    eapply perm_trans; [|apply Permutation_app_tail, Pi]. unfold pairs_rightj, pairs_right_only.
    eapply perm_trans; [|apply perm_flat_map_app].
    apply perm_flat_map_ext. intros b. destruct (filter (fun a => m a b) la); simpl; [apply Permutation_refl|rewrite app_nil_r; apply Permutation_refl].
  Qed.

  Lemma gen_pairs_perm how la lb : Permutation (gen_pairs how la lb) (sem_pairs how la lb).
  Proof.
    unfold gen_pairs, sem_pairs. destruct how.
    - rewrite !app_nil_r. apply Permutation_refl.
    - rewrite app_nil_r. apply leftj_perm.
    - cbn [app]. apply rightj_perm.
    - eapply perm_trans; [apply stable_sort_perm|]. rewrite app_assoc. apply Permutation_app_tail, leftj_perm.
  Qed.

  Lemma sem_pairs_matched how la lb a b : In (Some a, Some b) (sem_pairs how la lb) -> m a b = true.
  Proof.
    unfold sem_pairs. rewrite !in_app_iff. intros [I|[I|I]].
    - unfold pairs_inner in I. apply in_flat_map in I. destruct I as [a' [_ I]]. apply in_map_iff in I. destruct I as [b' [E I]].
      inversion E; subst. apply filter_In in I. tauto.
    - exfalso. destruct how; try contradiction; unfold pairs_left_only in I; apply in_flat_map in I; destruct I as [a' [_ I]];
        destruct (filter _ lb); try contradiction; destruct I as [E|[]]; discriminate.
    - exfalso. destruct how; try contradiction; unfold pairs_right_only in I; apply in_flat_map in I; destruct I as [b' [_ I]];
        destruct (filter _ la); try contradiction; destruct I as [E|[]]; discriminate.
  Qed.
  Lemma sem_pairs_from how la lb p : In p (sem_pairs how la lb) ->
    (forall a, fst p = Some a -> In a la) /\ (forall b, snd p = Some b -> In b lb) /\ (fst p <> None \/ snd p <> None).
  Proof.
    unfold sem_pairs. rewrite !in_app_iff. intros [I|[I|I]].
    - unfold pairs_inner in I. apply in_flat_map in I. destruct I as [a' [Ia I]]. apply in_map_iff in I. destruct I as [b' [<- I]].
      apply filter_In in I. cbn [fst snd]. split; [intros a E; inversion E; subst; exact Ia|]. split; [intros b E; inversion E; subst; tauto|left; discriminate].
    - destruct how; try contradiction; unfold pairs_left_only in I; apply in_flat_map in I; destruct I as [a' [Ia I]];
        destruct (filter _ lb); try contradiction; destruct I as [<-|[]]; cbn [fst snd];
        (split; [intros a E; inversion E; subst; exact Ia|]; split; [intros b E; discriminate|left; discriminate]).
    - destruct how; try contradiction; unfold pairs_right_only in I; apply in_flat_map in I; destruct I as [b' [Ib I]];
        destruct (filter _ la); try contradiction; destruct I as [<-|[]]; cbn [fst snd];
        (split; [intros a E; discriminate|]; split; [intros b E; inversion E; subst; exact Ib|right; discriminate]).
  Qed.
End Pairs.

Arguments pair : clear implicits.

Lemma flat_map_ext_in {X Y} (f g : X -> list Y) l : (forall x, In x l -> f x = g x) -> flat_map f l = flat_map g l.
Proof. induction l as [|a l IH]; intros H; simpl; [reflexivity|]. rewrite (H a (or_introl eq_refl)), IH; [reflexivity|]. intros x I. apply H. right. exact I. Qed.

(* sem_pairs depends only on the match test, on the listed rows *)
Lemma sem_pairs_ext_in {A B} (m m' : A -> B -> bool) how la lb :
  (forall a b, In a la -> In b lb -> m a b = m' a b) -> sem_pairs m how la lb = sem_pairs m' how la lb.
Proof.
  intros E. unfold sem_pairs, pairs_inner, pairs_left_only, pairs_right_only.
  assert (forall a, In a la -> filter (m a) lb = filter (m' a) lb) as F1 by (intros a Ia; apply filter_ext_in; intros b Ib; apply E; assumption).
  assert (forall b, In b lb -> filter (fun a => m a b) la = filter (fun a => m' a b) la) as F2 by (intros b Ib; apply filter_ext_in; intros a Ia; apply E; assumption).
  f_equal; [|f_equal].
  - apply flat_map_ext_in. intros a Ia. rewrite (F1 a Ia). reflexivity.
  - destruct how; try reflexivity; apply flat_map_ext_in; intros a Ia; rewrite (F1 a Ia); reflexivity.
  - destruct how; try reflexivity; apply flat_map_ext_in; intros b Ib; rewrite (F2 b Ib); reflexivity.
Qed.

Definition pmap {A B A' B'} (f : A -> A') (g : B -> B') (p : pair A B) : pair A' B' := (option_map f (fst p), option_map g (snd p)).

Lemma filter_map_comm {X Y} (f : X -> Y) (p : Y -> bool) l : filter p (map f l) = map f (filter (fun x => p (f x)) l).
Proof. induction l as [|x l IH]; simpl; [reflexivity|]. destruct (p (f x)); simpl; rewrite IH; reflexivity. Qed.
Lemma flat_map_map {X Y Z} (f : X -> Y) (h : Y -> list Z) l : flat_map h (map f l) = flat_map (fun x => h (f x)) l.
Proof. induction l as [|x l IH]; simpl; [reflexivity|]. rewrite IH. reflexivity. Qed.
Lemma map_flat_map {X Y Z} (k : Y -> Z) (h : X -> list Y) l : map k (flat_map h l) = flat_map (fun x => map k (h x)) l.
Proof. induction l as [|x l IH]; simpl; [reflexivity|]. rewrite map_app, IH. reflexivity. Qed.

Lemma sem_pairs_map {A B A' B'} (f : A -> A') (g : B -> B') (m : A' -> B' -> bool) how la lb :
  sem_pairs m how (map f la) (map g lb) = map (pmap f g) (sem_pairs (fun a b => m (f a) (g b)) how la lb).
Proof.
  unfold sem_pairs. rewrite !map_app. f_equal; [|f_equal].
  - unfold pairs_inner. rewrite flat_map_map, map_flat_map. apply flat_map_ext. intros a.
    rewrite filter_map_comm, !map_map. reflexivity.
  - assert (pairs_left_only m (map f la) (map g lb) = map (pmap f g) (pairs_left_only (fun a b => m (f a) (g b)) la lb)) as E.
    { unfold pairs_left_only. rewrite flat_map_map, map_flat_map. apply flat_map_ext. intros a. rewrite filter_map_comm.
      destruct (filter _ lb); reflexivity. }
    destruct how; try reflexivity; exact E.
  - assert (pairs_right_only m (map f la) (map g lb) = map (pmap f g) (pairs_right_only (fun a b => m (f a) (g b)) la lb)) as E.
    { unfold pairs_right_only. rewrite flat_map_map, map_flat_map. apply flat_map_ext. intros b. rewrite filter_map_comm.
      destruct (filter _ la); reflexivity. }
    destruct how; try reflexivity; exact E.
Qed.

(* ------------------------------------------------------------------ sem_join in terms of pairs *)
Definition sem_mk (ca cb : list string) (p : pair (list val) (list val)) : list val :=
  map (fun c => let va := match fst p with Some r => if mem c ca then get ca r c else VNull | None => VNull end in
                let vb := match snd p with Some r => if mem c cb then get cb r c else VNull | None => VNull end in
                if is_null va then vb else va) (ca ++ filter (fun c => negb (mem c ca)) cb).

Lemma existsb_filter_nil {X} (f : X -> bool) l : existsb f l = false <-> filter f l = [].
Proof.
  induction l as [|x l IH]; simpl; [tauto|]. destruct (f x); simpl; [split; discriminate|exact IH].
Qed.

Definition join_match (nm : bool) (ca cb on_a on_b : list string) (ra rb : list val) : bool :=
  keys_match nm (key_of ca on_a ra) (key_of cb on_b rb).

Lemma sem_join_as_pairs nm on_a on_b jt a b :
  sem_join nm on_a on_b jt a b
  = mktable (cols a ++ filter (fun c => negb (mem c (cols a))) (cols b))
            (map (sem_mk (cols a) (cols b)) (sem_pairs (join_match nm (cols a) (cols b) on_a on_b) (how_of jt) (rows a) (rows b))).
Proof.
  unfold sem_join. f_equal. unfold sem_pairs. rewrite !map_app. f_equal; [|f_equal].
  - rewrite inner_as_nested, map_flat_map. apply flat_map_ext. intros ra. rewrite map_flat_map. apply flat_map_ext. intros rb.
    unfold join_match. destruct (keys_match nm _ _); reflexivity.
  - assert (flat_map (fun ra => if existsb (fun rb => keys_match nm (key_of (cols a) on_a ra) (key_of (cols b) on_b rb)) (rows b) then []
                               else [sem_mk (cols a) (cols b) (Some ra, None)]) (rows a)
            = map (sem_mk (cols a) (cols b)) (pairs_left_only (join_match nm (cols a) (cols b) on_a on_b) (rows a) (rows b))) as E.
    { unfold pairs_left_only. rewrite map_flat_map. apply flat_map_ext. intros ra.
      destruct (existsb _ (rows b)) eqn:Ex.
      - destruct (filter (join_match nm (cols a) (cols b) on_a on_b ra) (rows b)) eqn:Ef; [|reflexivity].
        exfalso. apply existsb_filter_nil in Ef. unfold join_match in Ef. congruence.
      - apply existsb_filter_nil in Ex. unfold join_match. rewrite Ex. reflexivity. }
    destruct jt; cbn [how_of]; try reflexivity; exact E.
  - assert (flat_map (fun rb => if existsb (fun ra => keys_match nm (key_of (cols a) on_a ra) (key_of (cols b) on_b rb)) (rows a) then []
                               else [sem_mk (cols a) (cols b) (None, Some rb)]) (rows b)
            = map (sem_mk (cols a) (cols b)) (pairs_right_only (join_match nm (cols a) (cols b) on_a on_b) (rows a) (rows b))) as E.
    { unfold pairs_right_only. rewrite map_flat_map. apply flat_map_ext. intros rb.
      destruct (existsb _ (rows a)) eqn:Ex.
      - destruct (filter (fun ra => join_match nm (cols a) (cols b) on_a on_b ra rb) (rows a)) eqn:Ef; [|reflexivity].
        exfalso. apply existsb_filter_nil in Ef. unfold join_match in Ef. congruence.
      - apply existsb_filter_nil in Ex. unfold join_match. rewrite Ex. reflexivity. }
    destruct jt; cbn [how_of]; try reflexivity; exact E.
Qed.

Lemma merge_pairs_gen how L R lon ron :
  merge_pairs how L R lon ron
  = gen_pairs (fun ra rb => keys_eqv (key_of (cols L) lon ra) (key_of (cols R) ron rb)) (key_of (cols L) lon) (key_of (cols R) ron) how (rows L) (rows R).
Proof. destruct how; reflexivity. Qed.

(* ------------------------------------------------------------------ cells of a merged row *)
Lemma get_map_inj (ren : string -> string) (g : string -> val) l c :
  NoDup (map ren l) -> In c l -> get (map ren l) (map g l) (ren c) = g c.
Proof.
  induction l as [|x l IH]; intros N I; [contradiction|]. cbn [map] in *. inversion N as [|? ? Nx Nl]; subst.
  destruct I as [->|I].
  - apply get_cons_same.
  - rewrite get_cons_other; [apply IH; assumption|]. intros E. apply Nx. rewrite <- E. apply in_map. exact I.
Qed.

Lemma sapp_inj_l a b s : sapp a s = sapp b s -> a = b.
Proof.
  unfold sapp. revert b. induction a as [|x a IH]; intros b H.
  - destruct b as [|y b]; [reflexivity|]. exfalso. simpl in H. apply (f_equal String.length) in H. simpl in H.
    change (String.length s = S (String.length (String.append b s))) in H.
    pose proof (sapp_length b s) as L. unfold sapp in L. rewrite L in H. lia.
  - destruct b as [|y b].
    + exfalso. simpl in H. apply (f_equal String.length) in H. simpl in H. pose proof (sapp_length a s) as L. unfold sapp in L. rewrite L in H. lia.
    + simpl in H. inversion H; subst. f_equal. apply IH. assumption.
Qed.

Lemma NoDup_app_r {X} (l m : list X) : NoDup (l ++ m) -> NoDup m.
Proof. induction l as [|x l IH]; simpl; intros N; [exact N|]. inversion N; subst. apply IH. assumption. Qed.
Lemma NoDup_app_l {X} (l m : list X) : NoDup (l ++ m) -> NoDup l.
Proof. induction l as [|x l IH]; simpl; intros N; [constructor|]. inversion N as [|? ? Nx Nl]; subst. constructor; [|apply IH, Nl]. intros I. apply Nx, in_app_iff. left. exact I. Qed.
Lemma NoDup_app_disj {X} (l m : list X) x : NoDup (l ++ m) -> In x l -> ~ In x m.
Proof.
  induction l as [|y l IH]; simpl; intros N I J; [contradiction|]. inversion N as [|? ? Ny Nl]; subst. destruct I as [->|I].
  - apply Ny. apply in_app_iff. right. exact J.
  - apply (IH Nl I J).
Qed.

Section Merge.
  Variables (L R : table) (lon ron : list string) (sfx : string).
  Hypothesis WL : width_ok L.
  Hypothesis WR : width_ok R.
  Let kept := merge_right_cols lon ron (cols R).
  Let ren := fun c => if mem c (cols L) then sapp c sfx else c.
  Let out := merge_cols (cols L) (cols R) lon ron sfx.
  Hypothesis Nout : NoDup out.

  Definition fL (p : pair (list val) (list val)) (c : string) : val :=
    match fst p with
    | Some ra => get (cols L) ra c
    | None => match snd p with
              | Some rb => if same_named_key lon ron c then get (cols R) rb c else VNull
              | None => VNull
              end
    end.
  Definition fR (p : pair (list val) (list val)) (c : string) : val :=
    match snd p with Some rb => get (cols R) rb c | None => VNull end.
  Definition g0 (p : pair (list val) (list val)) (x : string) : val := get out (merge_row (cols L) (cols R) lon ron p) x.

  Lemma out_eq : out = cols L ++ map ren kept.
  Proof. reflexivity. Qed.
  Lemma merge_row_eq p : merge_row (cols L) (cols R) lon ron p = map (fL p) (cols L) ++ map (fR p) kept.
  Proof. reflexivity. Qed.

  Lemma g0_left p x : In x (cols L) -> g0 p x = fL p x.
  Proof.
    intros I. unfold g0. rewrite out_eq, merge_row_eq. rewrite get_app_l; [|apply map_length|exact I].
    rewrite get_map_cols. apply mem_In in I. rewrite I. reflexivity.
  Qed.
  Lemma ren_not_left c : In c kept -> ~ In (ren c) (cols L).
  Proof.
    intros I J. rewrite out_eq in Nout. apply (NoDup_app_disj _ _ _ Nout J). apply in_map, I.
  Qed.
  Lemma g0_right p c : In c kept -> g0 p (ren c) = fR p c.
  Proof.
    intros I. unfold g0. rewrite out_eq, merge_row_eq. rewrite get_app_r; [|apply map_length|apply ren_not_left, I].
    apply get_map_inj; [|exact I]. rewrite out_eq in Nout. apply NoDup_app_r in Nout. exact Nout.
  Qed.
  Lemma merge_row_length p : List.length (merge_row (cols L) (cols R) lon ron p) = List.length out.
  Proof. rewrite out_eq, merge_row_eq, !app_length, !map_length. reflexivity. Qed.
End Merge.

(* ------------------------------------------------------------------ one round of the coalescing loop *)
Lemma add_end_mem (cs : list string) c : In c cs -> add_end cs c = cs.
Proof. intros I. unfold add_end. apply mem_In in I. rewrite I. reflexivity. Qed.

Lemma coalesce_step {X} F (PP : list X) (val : X -> string -> val) c c2 F' :
  width_ok F -> Forall2 (fun rF p => forall x, In x (cols F) -> get (cols F) rF x = val p x) (rows F) PP ->
  (is_null <- pd_isnull c F ;; r <- pd_loc_set_from is_null c c2 F ;; pd_del c2 r) = Some F' ->
  In c (cols F) /\ In c2 (cols F) /\ width_ok F' /\ cols F' = remove_elem c2 (cols F) /\
  Forall2 (fun rF p => forall x, In x (cols F') -> get (cols F') rF x
                                  = if eq_dec x c then (if is_null (val p c) then val p c2 else val p c) else val p x) (rows F') PP.
Proof.
  intros W F2 H. unfold pd_isnull, pd_col in H. destruct (mem c (cols F)) eqn:Mc; cbn [option_map obind] in H; [|discriminate].
  unfold pd_loc_set_from in H. rewrite Mc in H. destruct (mem c2 (cols F)) eqn:Mc2; cbn [andb] in H; [|discriminate].
  unfold getcol, nrows in H. rewrite !map_length, Nat.eqb_refl in H. cbn [obind] in H.
  unfold pd_del in H. cbn [cols] in H. rewrite Mc2 in H. inversion H; subst F'. clear H.
  apply mem_In in Mc. apply mem_In in Mc2. split; [exact Mc|]. split; [exact Mc2|]. split; [apply width_select_cols|]. split; [reflexivity|].
  cbn [cols rows sem_select_cols]. rewrite (map_map (fun r => get (cols F) r c) is_null), combine_self_map, !map_map. cbn [fst snd].
  rewrite <- (map_id PP). unfold width_ok in W. revert W F2. generalize (rows F) as rs. intros rs W F2.
  induction F2 as [|rF p rs PP Hr F2 IH]; cbn [map]; constructor; [|apply IH; inversion W; assumption].
  intros x Ix. rewrite get_map_cols. apply mem_In in Ix as Mx. rewrite Mx. apply In_remove_elem in Ix. destruct Ix as [Ix Nx].
  assert (List.length rF = List.length (cols F)) as Lr by (inversion W; assumption).
  destruct (is_null (get (cols F) rF c)) eqn:En.
  - rewrite <- (add_end_mem (cols F) c Mc) at 1. rewrite (set_cell_get _ _ _ _ _ Lr).
    rewrite <- (Hr c Mc), En. destruct (eq_dec x c); [apply Hr, Mc2|apply Hr, Ix].
  - rewrite <- (Hr c Mc), En. destruct (eq_dec x c) as [->|n]; [reflexivity|apply Hr, Ix].
Qed.


(* ------------------------------------------------------------------ the whole loop *)
Section Loop.
  Context {X : Type}.
  Variables (PP : list X) (g : X -> string -> val) (names : list string) (sfx : string) (cols0 : list string).

  (* the shared column x has a suffixed right copy (in the frame the loop starts from) *)
  Definition kb (x : string) : bool := mem (sapp x sfx) cols0.
  Definition coal (done : list string) (x : string) : bool := mem x done && kb x.
  Definition valD (done : list string) (p : X) (x : string) : val :=
    if coal done x then (if is_null (g p x) then g p (sapp x sfx) else g p x) else g p x.
  Definition dropped (done : list string) : list string := map (fun c => sapp c sfx) (filter kb done).
  Definition JInv (F : table) (done : list string) : Prop :=
    width_ok F /\ cols F = filter (fun x => negb (mem x (dropped done))) cols0 /\
    Forall2 (fun rF p => forall x, In x (cols F) -> get (cols F) rF x = valD done p x) (rows F) PP.

  Lemma jstep_none cs : fold_left (jstep sfx) cs None = None.
  Proof. induction cs as [|c cs IH]; simpl; [reflexivity|exact IH]. Qed.

  Lemma coalesce_fold cs : forall done F F',
    (forall c, In c (done ++ cs) -> In c names /\ ~ In (sapp c sfx) names) -> NoDup (done ++ cs) ->
    JInv F done -> fold_left (jstep sfx) cs (Some F) = Some F' -> JInv F' (rev cs ++ done).
  Proof.
    induction cs as [|c cs IH]; intros done F F' Hn Nd Inv H.
    - simpl in H. inversion H; subst. exact Inv.
    - cbn [fold_left] in H. cbn [rev]. rewrite <- app_assoc. cbn [app].
      assert (~ In c done) as Ncd. { intros I. apply NoDup_remove_2 in Nd. apply Nd. apply in_app_iff. left. exact I. }
      assert (forall c0, In c0 ((c :: done) ++ cs) -> In c0 names /\ ~ In (sapp c0 sfx) names) as Hn'.
      { intros c0 I. apply Hn. cbn [app] in I. destruct I as [<-|I]; [apply in_app_iff; right; left; reflexivity|].
        apply in_app_iff in I. apply in_app_iff. destruct I as [I|I]; [left; exact I|right; right; exact I]. }
      assert (NoDup ((c :: done) ++ cs)) as Nd'.
      { cbn [app]. constructor; [apply NoDup_remove_2 in Nd; exact Nd|apply NoDup_remove_1 in Nd; exact Nd]. }
      destruct Inv as [W [Cf Fr]].
      (* the test `(c + suffix) in res.columns` sees what the starting frame had: no earlier round dropped this copy *)
      assert (mem (sapp c sfx) (cols F) = kb c) as Ek.
      { rewrite Cf. unfold kb. destruct (mem (sapp c sfx) cols0) eqn:M0.
        - apply mem_In, filter_In. split; [apply mem_In, M0|]. apply negb_true_iff, mem_false. intros Id. unfold dropped in Id.
          apply in_map_iff in Id. destruct Id as [c' [E' I']]. apply filter_In in I'. destruct I' as [I' _]. apply sapp_inj_l in E'. subst c'. contradiction.
        - apply mem_false. intros I. apply filter_In in I. destruct I as [I _]. apply mem_In in I. congruence. }
      unfold jstep at 2 in H. cbn [obind] in H. rewrite Ek in H. destruct (kb c) eqn:Kc.
      + destruct (is_null0 <- pd_isnull c F ;; r <- pd_loc_set_from is_null0 c (sapp c sfx) F ;; pd_del (sapp c sfx) r) as [F1|] eqn:E1;
          [|rewrite jstep_none in H; discriminate].
        destruct (coalesce_step F PP (valD done) c (sapp c sfx) F1 W Fr E1) as [Ic [Ic2 [W1 [C1 F1r]]]].
        apply (IH (c :: done) F1 F' Hn' Nd'); [|exact H]. split; [exact W1|]. split.
        * rewrite C1, Cf. unfold remove_elem. rewrite filter_filter. apply filter_ext. intros x. unfold dropped. cbn [filter]. rewrite Kc. cbn [map mem].
          unfold eqb. destruct (eq_dec (sapp c sfx) x), (eq_dec x (sapp c sfx)); try congruence; cbn [negb]; [rewrite andb_false_r|rewrite andb_true_r]; reflexivity.
        * assert (In c names /\ ~ In (sapp c sfx) names) as [Icn Nc2] by (apply Hn; apply in_app_iff; right; left; reflexivity).
          assert (~ In (sapp c sfx) done) as N2d. { intros I. apply Nc2. apply (Hn (sapp c sfx)). apply in_app_iff. left. exact I. }
          eapply Forall2_weaken; [|exact F1r]. intros rF p Hr x Ix. rewrite (Hr x Ix). unfold valD, coal. cbn [mem].
          destruct (eq_dec x c) as [->|n].
          -- replace (mem c done) with false by (symmetry; apply mem_false, Ncd). rewrite Kc. cbn [andb].
             replace (mem (sapp c sfx) done) with false by (symmetry; apply mem_false, N2d). cbn [andb]. reflexivity.
          -- reflexivity.
      + (* no suffixed copy: nothing happens *)
        apply (IH (c :: done) F F' Hn' Nd'); [|exact H]. split; [exact W|]. split.
        * rewrite Cf. unfold dropped. cbn [filter]. rewrite Kc. reflexivity.
        * eapply Forall2_weaken; [|exact Fr]. intros rF p Hr x Ix. rewrite (Hr x Ix). unfold valD, coal. cbn [mem].
          destruct (eq_dec x c) as [->|n]; [rewrite Kc, !andb_false_r; reflexivity|reflexivity].
  Qed.
End Loop.

Lemma keys_eqv_null_at (ka kb : list val) i : keys_eqv ka kb = true -> is_null (nth i ka VNull) = true -> nth i kb VNull = VNull.
Proof.
  revert kb i. induction ka as [|x ka IH]; intros [|y kb] [|i] E N; simpl in *; try discriminate; try reflexivity.
  - apply andb_true_iff in E. destruct E as [E _]. destruct x; try discriminate. destruct y; try discriminate. reflexivity.
  - apply andb_true_iff in E. destruct E as [_ E]. apply (IH kb i E N).
Qed.

Definition sem_cell (ca cb : list string) (p : pair (list val) (list val)) (c : string) : val :=
  let va := match fst p with Some r => if mem c ca then get ca r c else VNull | None => VNull end in
  let vb := match snd p with Some r => if mem c cb then get cb r c else VNull | None => VNull end in
  if is_null va then vb else va.

Lemma key_pair_null cl cr on_a on_b ra rb c :
  In (c, c) (combine on_a on_b) -> keys_eqv (key_of cl on_a ra) (key_of cr on_b rb) = true ->
  is_null (get cl ra c) = true -> get cr rb c = VNull.
Proof.
  intros I E N. destruct (In_nth_error _ _ I) as [i Hi].
  assert (nth_error on_a i = Some c /\ nth_error on_b i = Some c) as [Ea Eb].
  { clear -Hi. revert on_b i Hi. induction on_a as [|a on_a IH]; intros [|b on_b] [|i] H; simpl in *; try discriminate.
    - inversion H; subst. split; reflexivity.
    - apply IH, H. }
  pose proof (keys_eqv_null_at _ _ i E) as K. unfold key_of in K.
  rewrite (nth_indep _ VNull (get cl ra "")) in K by (rewrite map_length; apply nth_error_Some; congruence).
  rewrite (map_nth (get cl ra)) in K. rewrite (nth_error_nth _ _ _ Ea) in K. specialize (K N).
  rewrite (nth_indep _ VNull (get cr rb "")) in K by (rewrite map_length; apply nth_error_Some; congruence).
  rewrite (map_nth (get cr rb)) in K. rewrite (nth_error_nth _ _ _ Eb) in K. exact K.
Qed.

Lemma Forall2_map_r {A B C} (P : A -> C -> Prop) (f : B -> C) l m : Forall2 P l (map f m) -> Forall2 (fun a b => P a (f b)) l m.
Proof. revert l. induction m as [|b m IH]; intros l F; simpl in F; inversion F; subst; constructor; auto. Qed.
