(* C21, part 4: order lemmas (lexicographic orders, tie groups) and the counting identities behind rank_to_average. *)
From Coq Require Import List Bool Arith ZArith QArith String Lia Permutation Sorted.
Import ListNotations.
From DA Require Import Base.PyRT Base.Val Model.Sem Model.Solutions Proofs.SemBasicP Proofs.SemOrderP Proofs.SolutionsP1 Proofs.SolutionsP3.
Local Open Scope string_scope.
Local Open Scope list_scope.

(* ------------------------------------------------------------------ row_le: extensional in the cells it reads, lexicographic *)
Lemma row_le_ext fl cs cs' keys a b a' b' :
  (forall c, In c (map fst keys) -> get cs a c = get cs' a' c /\ get cs b c = get cs' b' c) ->
  row_le fl cs keys a b = row_le fl cs' keys a' b'.
Proof. induction keys as [|[c d] k IH]; intros H; simpl; [reflexivity|].
  destruct (H c (or_introl eq_refl)) as [-> ->]. rewrite IH; [reflexivity|]. intros c' I. apply H. right. exact I. Qed.
Lemma row_le_app fl cs k1 k2 a b :
  row_le fl cs (k1 ++ k2) a b = row_le fl cs k1 a b && (negb (row_le fl cs k1 b a) || row_le fl cs k2 a b).
Proof. induction k1 as [|[c d] k IH]; simpl; [reflexivity|].
  rewrite (v_eqv_sym (get cs b c) (get cs a c)). destruct (v_eqv (get cs a c) (get cs b c)) eqn:E; [exact IH|].
  destruct (v_le_dir (nulls_first fl d) d (get cs a c) (get cs b c)) eqn:X; [|reflexivity].
  destruct (v_le_dir (nulls_first fl d) d (get cs b c) (get cs a c)) eqn:Y; [|reflexivity].
  exfalso. eapply v_le_dir_antisym; eassumption. Qed.
Lemma row_le_refl fl cs k a : row_le fl cs k a a = true.
Proof. destruct (row_le_total fl cs k a a); assumption. Qed.
Lemma okeys_app a b : okeys (a ++ b) = okeys a ++ okeys b.
Proof. apply map_app. Qed.

(* tied in the ascending order on ob  =  equal keys on ob *)
Lemma tied_keys_eqv fl cs ob a b : tied fl cs ob a b = keys_eqv (key_of cs ob a) (key_of cs ob b).
Proof. unfold tied, okeys, key_of. induction ob as [|c ob IH]; simpl; [reflexivity|].
  rewrite (v_eqv_sym (get cs b c) (get cs a c)). destruct (v_eqv (get cs a c) (get cs b c)) eqn:E; [exact IH|]. simpl.
  destruct (v_le_dir _ false (get cs a c) (get cs b c)) eqn:X; [|reflexivity].
  destruct (v_le_dir _ false (get cs b c) (get cs a c)) eqn:Y; [|reflexivity].
  exfalso. eapply v_le_dir_antisym; eassumption. Qed.
Lemma keys_eqv_app a a' b b' : List.length a = List.length a' -> keys_eqv (a ++ b) (a' ++ b') = keys_eqv a a' && keys_eqv b b'.
Proof. revert a'. induction a as [|x a IH]; intros [|y a'] L; simpl in *; try discriminate; [reflexivity|].
  rewrite IH by lia. rewrite andb_assoc. reflexivity. Qed.
Lemma key_of_app cs k1 k2 r : key_of cs (k1 ++ k2) r = key_of cs k1 r ++ key_of cs k2 r.
Proof. apply map_app. Qed.
(* rows tied with x compare with any third row exactly as x does *)
Lemma tied_le_l fl cs ob x y z : tied fl cs ob y x = true -> row_le fl cs (okeys ob) z y = row_le fl cs (okeys ob) z x.
Proof. unfold tied. intros T. apply andb_true_iff in T as [T1 T2]. apply eq_true_iff_eq. split; intros H; eapply row_le_trans; eassumption. Qed.
Lemma tied_le_r fl cs ob x y z : tied fl cs ob y x = true -> row_le fl cs (okeys ob) y z = row_le fl cs (okeys ob) x z.
Proof. unfold tied. intros T. apply andb_true_iff in T as [T1 T2]. apply eq_true_iff_eq. split; intros H; eapply row_le_trans; eassumption. Qed.

(* the order on the naturals written by _row_number *)
Lemma vnat_key_le nf a b : (if v_eqv (vnat a) (vnat b) then true else v_le_dir nf false (vnat a) (vnat b)) = Nat.leb a b.
Proof. rewrite !vnat_eq. unfold v_eqv, v_le_dir, v_le, num_of.
  destruct (Qeq_bool (Z.of_nat a # 1) (Z.of_nat b # 1)) eqn:E.
  - apply Qeq_bool_iff in E. unfold Qeq in E. simpl in E. symmetry. apply Nat.leb_le. lia.
  - apply eq_true_iff_eq. rewrite Qle_bool_iff, Nat.leb_le. unfold Qle. simpl. lia. Qed.
Lemma vnat_eqv a b : v_eqv (vnat a) (vnat b) = Nat.eqb a b.
Proof. rewrite !vnat_eq. unfold v_eqv, num_of. apply eq_true_iff_eq. rewrite Qeq_bool_iff, Nat.eqb_eq. unfold Qeq. simpl. lia. Qed.

(* ------------------------------------------------------------------ filters and counts *)
Lemma filter_filter {A} (p q : A -> bool) l : filter p (filter q l) = filter (fun x => q x && p x) l.
Proof. induction l as [|x t IH]; simpl; [reflexivity|]. destruct (q x); simpl; [destruct (p x); rewrite IH; reflexivity|exact IH]. Qed.
Lemma filter_length_or {A} (p q : A -> bool) l : (forall x, In x l -> p x && q x = false) ->
  List.length (filter (fun x => p x || q x) l) = (List.length (filter p l) + List.length (filter q l))%nat.
Proof. induction l as [|x t IH]; intros H; [reflexivity|]. pose proof (H x (or_introl eq_refl)) as Hx.
  assert (List.length (filter (fun x => p x || q x) t) = (List.length (filter p t) + List.length (filter q t))%nat) as E
    by (apply IH; intros y I; apply H; right; exact I).
  cbn [filter]. destruct (p x), (q x); cbn [orb andb List.length] in *; try discriminate; lia. Qed.
Lemma filter_snd_length (p : list val -> bool) rs n :
  List.length (filter (fun ir : nat * list val => p (snd ir)) (tag_from n rs)) = List.length (filter p rs).
Proof. revert n. induction rs as [|r t IH]; intros n; simpl; [reflexivity|]. destruct (p r); simpl; rewrite IH; reflexivity. Qed.

(* sum over a list of distinct naturals of the number of elements at or below each = T(T+1)/2 *)
Lemma list_sum_cons x l : list_sum (x :: l) = (x + list_sum l)%nat.
Proof. reflexivity. Qed.
Lemma count_le_aux {X} (nb : X -> nat) a (G H : list X) :
  list_sum (map (fun y => List.length (if Nat.leb (nb a) (nb y) then a :: filter (fun z => Nat.leb (nb z) (nb y)) G else filter (fun z => Nat.leb (nb z) (nb y)) G)) H)
  = (list_sum (map (fun y => List.length (filter (fun z => Nat.leb (nb z) (nb y)) G)) H) + List.length (filter (fun y => Nat.leb (nb a) (nb y)) H))%nat.
Proof. induction H as [|y H IHH]; [reflexivity|]. cbn [map app filter]. rewrite ?list_sum_cons. rewrite IHH. destruct (Nat.leb (nb a) (nb y)); cbn [List.length]; lia. Qed.
Lemma count_le_sum {X} (nb : X -> nat) (G : list X) : NoDup (map nb G) ->
  (2 * list_sum (map (fun y => List.length (filter (fun z => Nat.leb (nb z) (nb y)) G)) G) = List.length G * (List.length G + 1))%nat.
Proof. induction G as [|a G IH]; intros ND; [reflexivity|]. inversion ND as [|? ? Na ND']; subst. specialize (IH ND').
  cbn [map app filter List.length]. rewrite ?list_sum_cons. rewrite Nat.leb_refl. cbn [List.length].
  rewrite (count_le_aux nb a G G).
  assert (List.length (filter (fun z => Nat.leb (nb z) (nb a)) G) + List.length (filter (fun y => Nat.leb (nb a) (nb y)) G) = List.length G)%nat as E2.
  { clear IH ND ND'. induction G as [|y G IHG]; [reflexivity|]. cbn [filter].
    assert (nb y <> nb a) as Ny by (intros E; apply Na; left; exact E).
    assert (~ In (nb a) (map nb G)) as Na' by (intros I; apply Na; right; exact I). specialize (IHG Na').
    destruct (Nat.leb_spec (nb y) (nb a)), (Nat.leb_spec (nb a) (nb y)); cbn [List.length]; lia. }
  lia. Qed.
Lemma list_sum_seq L T : (2 * list_sum (seq (S L) T) = 2 * T * L + T * (T + 1))%nat.
Proof. revert L. induction T as [|T IH]; intros L; [reflexivity|]. cbn [seq app]. rewrite ?list_sum_cons. specialize (IH (S L)). lia. Qed.
Lemma qsum_inject_nat {X} (f : X -> nat) l : qsum (map (fun x => inject_Z (Z.of_nat (f x))) l) == inject_Z (Z.of_nat (list_sum (map f l))).
Proof. induction l as [|x t IH]; [reflexivity|]. cbn [map app]. rewrite ?list_sum_cons. rewrite qsum_cons, IH, Nat2Z.inj_add, inject_Z_plus. reflexivity. Qed.
Lemma list_sum_add_const {X} (f : X -> nat) c l : list_sum (map (fun x => c + f x)%nat l) = (List.length l * c + list_sum (map f l))%nat.
Proof. induction l as [|x t IH]; [reflexivity|]. cbn [map app List.length]. rewrite ?list_sum_cons. rewrite IH. lia. Qed.

(* mean of values that are (up to ==) the naturals f y *)
Lemma mean_of_nats {X} fl (v : X -> val) (f : X -> nat) (G : list X) :
  G <> [] -> (forall y, In y G -> exists q, v y = qn q /\ q == inject_Z (Z.of_nat (f y))) ->
  agg_fn fl "mean" (map v G) = qn (inject_Z (Z.of_nat (list_sum (map f G))) / inject_Z (Z.of_nat (List.length G))).
Proof. intros NE H.
  assert (exists l, nums (map v G) = l /\ List.length l = List.length G /\ qsum l == inject_Z (Z.of_nat (list_sum (map f G)))) as [l [El [Ll Sl]]].
  { clear NE. induction G as [|y G IH]; [exists []; repeat split; reflexivity|].
    destruct IH as [l [El [Ll Sl]]]; [intros z I; apply H; right; exact I|].
    destruct (H y (or_introl eq_refl)) as [q [Eq Qq]]. exists (Qred q :: l). cbn [map nums flat_map]. fold (nums (map v G)).
    rewrite Eq, El. cbn [num_of qn app]. repeat split; [cbn [List.length]; lia|].
    cbn [app]. rewrite ?list_sum_cons. rewrite qsum_cons, Sl, Qred_correct, Qq, Nat2Z.inj_add, inject_Z_plus. reflexivity. }
  unfold agg_fn. rewrite El. destruct l as [|x l]; [destruct G; [congruence|discriminate]|].
  apply qn_ext. rewrite Sl, Ll. reflexivity. Qed.
