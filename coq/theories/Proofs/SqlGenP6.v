(* SQLGEN, part 6: steps that return the sub-query they were given (select_columns / drop_columns narrow its terms, an extend
   none of whose outputs is used passes it on), UNION ALL (concat_rows), and the compiler-correctness theorem for stage (i). *)
From Coq Require Import List Bool Arith ZArith QArith String Lia.
Import ListNotations.
From DA Require Import Base.PyRT Base.Val Model.Sem Proofs.SemBasicP Model.ColumnsUsed Proofs.ColumnsUsedP1 Proofs.ColumnsUsedP2
  Proofs.ColumnsUsedP3 Proofs.ColumnsUsedP4 Proofs.ComposeP Model.SqlGen Model.SqlSem Proofs.SqlGenP1 Proofs.SqlGenP2 Proofs.SqlGenP3
  Proofs.SqlGenP4 Proofs.SqlGenP5.
Local Open Scope list_scope.

(* ------------------------------------------------------------------ the fragment of stage (i) *)
Definition window_is_empty (w : window) : bool := is_nil (w_part w) && is_nil (w_order w) && is_nil (w_rev w).
(* the source of an id-column concat is not an order_rows without limit (the builder's `.extend({id: label})` would skip it:
   rows in another order); over an un-windowed extend the builder merges the label into that ExtendNode, anything else gets
   a new ExtendNode on top *)
Definition concat_src_ok (a : op) : bool :=
  match a with
  | OOrder _ _ _ None => false
  | _ => true
  end.
(* m = the dialect merges extends at SQL level (allow_extend_merges); a WINDOWED extend is covered when it does not *)
(* the step generated for p may be one extend_to_near_sql merges into (an extend step, possibly narrowed by select_columns /
   drop_columns above it) *)
Fixpoint mergeable_src (p : op) : bool :=
  match p with
  | OExtend _ _ _ _ => true
  | OSelectCols s _ | ODropCols s _ => mergeable_src s
  | _ => false
  end.
(* ... and that step may carry window items *)
Fixpoint win_top (p : op) : bool :=
  match p with
  | OExtend _ _ wd _ => wd
  | OSelectCols s _ | ODropCols s _ => win_top s
  | _ => false
  end.

Definition join_covered (d : dialect) (fl : flavor) (jt : jointype) : bool :=
  d_join_carry d && negb (f_join_null_match fl) &&
  match jt with JRight => negb (d_rewrite_right d) | JFull => negb (d_rewrite_full d) | _ => true end.

Fixpoint stage1 (m : bool) (jok : jointype -> bool) (p : op) : bool :=
  match p with
  | OTable _ _ => true
  | OExtend s _ wd w => stage1 m jok s && (if wd then true else window_is_empty w)
  | OSelectRows s _ | OSelectCols s _ | ODropCols s _ | ORename s _ | OMapCols s _ _ | OOrder s _ _ _ => stage1 m jok s
  | OConcat a b idc _ _ => stage1 m jok a && stage1 m jok b &&
                           match idc with Some _ => concat_src_ok a && concat_src_ok b | None => true end
  | OProject s ops gb => stage1 m jok s && negb (is_nil gb && is_nil ops)       (* the builder: "project must have ops or group_by" *)
  | OJoin a b _ _ jt => stage1 m jok a && stage1 m jok b && jok jt
  end.

(* every table description of p is bound to a stored table with exactly the declared columns *)
Definition wf_env (e : env) (p : op) : Prop :=
  forall n cs, In (n, cs) (table_descrs p) -> exists st, dict_get e n = Some st /\ wf_table_for cs st.

Lemma window_empty_is w : window_is_empty w = true -> w = no_window.
Proof. destruct w as [[|a p] [|b o] [|c r]]; try discriminate. reflexivity. Qed.

Lemma stage1_cols_nonempty mg jok p : builder_ok p = true -> stage1 mg jok p = true -> column_names p <> [].
Proof.
  induction p as [n cs|s IH ops wd w|s IH ops gb|s IH x|s IH cs|s IH ds|s IH m|s IH m dels|s IH cs rev lim|a IHa b IHb on_a on_b jt|a IHa b IHb idc an bn];
    intros BO St; simpl in St; try discriminate.
  - simpl in BO. apply andb_true_iff in BO. destruct BO as [B _]. simpl. destruct cs; [discriminate|discriminate].
  - apply andb_true_iff in St. destruct St as [St _].
    destruct (bok_extend_full _ _ _ _ BO) as [BOs _]. specialize (IH BOs St). simpl. intros X.
    destruct (column_names s) as [|c0 t] eqn:E; [congruence|]. assert (In c0 (ext_cols (c0 :: t) (map fst ops))) as I by (apply in_ext_cols; left; left; reflexivity).
    rewrite X in I. destruct I.
  - apply andb_true_iff in St. destruct St as [_ St]. simpl. destruct gb; [destruct ops; [discriminate|discriminate]|discriminate].
  - apply bok_select_rows in BO. exact (IH BO St).
  - simpl in BO. rewrite !andb_true_iff in BO. simpl. destruct cs; [destruct BO as [[[_ B] _] _]; discriminate|discriminate].
  - simpl in BO. rewrite !andb_true_iff in BO. destruct BO as [_ B]. intros X. simpl in X. rewrite X in B. discriminate.
  - destruct (bok_rename _ _ BO) as [BOs _]. specialize (IH BOs St). simpl. destruct (column_names s); [congruence|discriminate].
  - simpl in BO. rewrite !andb_true_iff in BO. destruct BO as [_ B]. intros X. simpl in X. rewrite X in B. discriminate.
  - apply bok_order in BO. exact (IH BO St).
  - rewrite !andb_true_iff in St. destruct St as [[Sa _] _]. destruct (bok_join _ _ _ _ _ BO) as [BOa _]. specialize (IHa BOa Sa).
    simpl. destruct (column_names a); [congruence|discriminate].
  - rewrite !andb_true_iff in St. destruct St as [[Sa _] _]. destruct (bok_concat _ _ _ _ _ BO) as [BOa _]. specialize (IHa BOa Sa).
    simpl. destruct (column_names a); [congruence|discriminate].
Qed.

Section Stage1.
Variable fl : flavor.
Variable e : env.

(* ------------------------------------------------------------------ the same sub-query against a different table *)
Lemma delivers_transfer q u T T' :
  Delivers fl e q u T -> sel [] T' = sel [] T -> (forall K, incl K u -> sel K T' = sel K T) -> incl u (cols T') ->
  Delivers fl e q u T'.
Proof.
  intros D E0 EK Ic. destruct D as [A B C0 C D0 E1]. constructor; try assumption.
  - intros K NE N IK. destruct (C K NE N IK) as [R [Q1 [Q2 [Q3 Q4]]]]. exists R. split; [exact Q1|]. split; [congruence|]. split.
    + intros IKu. rewrite (EK K IKu). apply Q3, IKu.
    + intros C1 N1 I1 I2. rewrite (EK C1 I2). apply Q4; assumption.
  - destruct D0 as [R [Q1 Q2]]. exists R. split; [exact Q1|congruence].
  - intros n ts Eq. destruct (E1 n ts Eq) as [st [G1 G2]]. exists st. split; [exact G1|congruence].
Qed.

Lemma restrict_terms_nil q : restrict_terms q [] = Some (empty_terms q).
Proof. destruct q; reflexivity. Qed.

(* select_columns_to_near_sql / drop_columns_to_near_sql: T' is a projection of T that keeps every requested column *)
Lemma delivers_narrowing q us T keep u T' :
  Delivers fl e q us T -> NoDup keep -> incl keep us -> incl u keep -> incl u (cols T') ->
  sel [] T' = sel [] T -> (forall C, incl C u -> sel C T' = sel C T) ->
  forall q', (if terms_is_none q then (match keep with [] => Some (empty_terms q) | _ => None end) else narrow_or_first q keep) = Some q' ->
  Delivers fl e q' u T'.
Proof.
  intros D Nk Iku Iuk IuT E0 EC q' Eq.
  assert (incl u us) as Iuus by (intros x Hx; apply Iku, Iuk, Hx).
  destruct (terms_is_none q) eqn:TN.
  - destruct keep as [|k0 keep']; [|discriminate]. injection Eq as <-.
    assert (u = []) as -> by (destruct u as [|x u']; [reflexivity|destruct (Iuk x (or_introl eq_refl))]).
    assert (tkeys q = []) as EK by (destruct q as [n [ts|]|nm [l|] s ci sfx mg dp|nm [l|] s1 c1 j s2 c2 on]; try discriminate; reflexivity).
    apply (delivers_empty_terms fl e q T T'); [|exact EK|exact E0]. apply (delivers_mono fl e q us [] T D). intros x [].
  - unfold narrow_or_first in Eq. destruct keep as [|k1 keep'].
    + assert (u = []) as -> by (destruct u as [|x u']; [reflexivity|destruct (Iuk x (or_introl eq_refl))]).
      destruct (tkeys q) as [|k0 rest] eqn:EK.
      * rewrite restrict_terms_nil in Eq. injection Eq as <-.
        apply (delivers_empty_terms fl e q T T'); [|exact EK|exact E0]. apply (delivers_mono fl e q us [] T D). intros x [].
      * apply (delivers_narrow fl e q us T [k0] q' [] T' D Eq).
        { discriminate. }
        { constructor; [intros []|constructor]. }
        { intros x []. }
        { intros x []. }
        { intros x []. }
        { exact E0. }
        { intros C IC. destruct C as [|c C']; [exact E0|destruct (IC c (or_introl eq_refl))]. }
    + assert (restrict_terms q (k1 :: keep') = Some q') as Eq' by (destruct (tkeys q); exact Eq).
      apply (delivers_narrow fl e q us T (k1 :: keep') q' u T' D Eq'); try assumption. discriminate.
Qed.

(* ------------------------------------------------------------------ extend with no requested output *)
Lemma sel_extend_unused ops S K :
  width_ok S -> (forall k, In k K -> ~ In k (map fst ops)) -> sel K (sem_extend fl ops S) = sel K S.
Proof.
  intros W H. unfold sem_select_cols, sem_extend. cbn [cols rows]. f_equal. rewrite map_map.
  apply map_ext_in. intros r Ir. apply map_ext_in. intros k Ik. unfold extend_row.
  assert (List.length r = List.length (cols S)) as L by (unfold width_ok in W; rewrite Forall_forall in W; apply W, Ir).
  rewrite (fold_cells_get_full (fun ke => eval_expr fl (cols S) r (snd ke)) ops r (cols S) k L).
  rewrite (last_for_not_key k ops (H k Ik)). reflexivity.
Qed.

(* ------------------------------------------------------------------ UNION ALL *)
Lemma extend_fold_snd (F : list val -> string * expr -> val) (ops : list (string * expr)) r0 : forall row ccs,
  snd (fold_left (fun (acc : list val * list string) ke => let '(row, ccs) := acc in (set_cell ccs row (fst ke) (F r0 ke), add_end ccs (fst ke))) ops (row, ccs))
  = ext_cols ccs (map fst ops).
Proof. induction ops as [|ke t IH]; intros row ccs; simpl; [reflexivity|]. rewrite IH. reflexivity. Qed.

(* appending a constant assignment to an extend = a second extend (the builder's merge of the id column) *)
Lemma sem_extend_app_const ops c v S :
  sem_extend fl (ops ++ [(c, EConst v)]) S = sem_extend fl [(c, EConst v)] (sem_extend fl ops S).
Proof.
  unfold sem_extend. cbn [cols rows]. f_equal.
  - unfold ext_cols. rewrite map_app, fold_left_app. reflexivity.
  - rewrite map_map. apply map_ext. intros r. unfold extend_row. rewrite fold_left_app. cbn [fold_left].
    pose proof (extend_fold_snd (fun r0 ke => eval_expr fl (cols S) r0 (snd ke)) ops r r (cols S)) as E2.
    destruct (fold_left _ ops (r, cols S)) as [row ccs] eqn:EF. cbn [snd] in E2. cbn [fst snd eval_expr]. rewrite E2. reflexivity.
Qed.

Lemma sem_extend_const_fresh c v A : mem c (cols A) = false -> width_ok A ->
  sem_extend fl [(c, EConst v)] A = mktable (cols A ++ [c]) (map (fun r => r ++ [v]) (rows A)).
Proof.
  intros M W. unfold sem_extend, ext_cols. simpl. unfold add_end. rewrite M. f_equal.
  apply map_ext_in. intros r Ir. unfold extend_row. simpl. unfold set_cell. apply index_of_None in M. rewrite M. reflexivity.
Qed.

(* the rows of a concat, column by column, are the rows of its two (labelled) operands *)
Lemma sel_concat idc an bn A B K :
  NoDup (cols A) -> width_ok A -> width_ok B -> (forall c, In c (cols A) <-> In c (cols B)) ->
  match idc with Some c => ~ In c (cols A) | None => True end ->
  let A' := match idc with Some c => mktable (cols A ++ [c]) (map (fun r => r ++ [VStr an]) (rows A)) | None => A end in
  let B' := match idc with Some c => mktable (cols B ++ [c]) (map (fun r => r ++ [VStr bn]) (rows B)) | None => B end in
  incl K (cols A') ->
  sel K (sem_concat idc an bn A B) = mktable K (rows (sel K A') ++ rows (sel K B')).
Proof.
  intros NA WA WB EAB Hc A' B' IK. unfold sem_concat. destruct idc as [c|].
  - unfold sem_select_cols. subst A' B'. cbn [cols rows] in *. f_equal. rewrite map_app. f_equal.
    rewrite !map_map. apply map_ext_in. intros r Ir. apply map_ext_in. intros k Ik.
    assert (List.length r = List.length (cols B)) as L by (unfold width_ok in WB; rewrite Forall_forall in WB; apply WB, Ir).
    specialize (IK k Ik). apply in_app_iff in IK. destruct IK as [IkA|[<-|[]]].
    + rewrite (get_app_l (cols A) [c] _ [VStr bn] k) by (try apply map_length; exact IkA).
      rewrite (get_app_l (cols B) [c] r [VStr bn] k L) by (apply EAB, IkA). apply get_sel_row, IkA.
    + rewrite (get_app_r (cols A) [c] _ [VStr bn] c) by (try apply map_length; exact Hc).
      rewrite (get_app_r (cols B) [c] r [VStr bn] c L) by (intros I; apply Hc, EAB, I). reflexivity.
  - unfold sem_select_cols. subst A' B'. cbn [cols rows] in *. f_equal. rewrite map_app. f_equal.
    rewrite map_map. apply map_ext_in. intros r Ir. apply map_ext_in. intros k Ik. apply get_sel_row. apply IK, Ik.
Qed.

Lemma union_all_sel uj A B : union_all (sel uj A) (sel uj B) = Some (mktable uj (rows (sel uj A) ++ rows (sel uj B))).
Proof. unfold union_all. cbn [cols]. rewrite Nat.eqb_refl. reflexivity. Qed.

Lemma delivers_union nm uj ql qr TA TB u T :
  Delivers fl e ql uj TA -> Delivers fl e qr uj TB -> NoDup uj -> uj <> [] -> incl u uj -> incl u (cols T) ->
  (forall K, incl K uj -> sel K T = mktable K (rows (sel K TA) ++ rows (sel K TB))) ->
  Delivers fl e (TBinary nm (norm (pass_terms uj)) ql (mk_tci (Some uj) true None) TUnion qr (mk_tci (Some uj) true None) []) u T.
Proof.
  intros DL DR Nuj NE Iu IuT HT.
  destruct (deliver_csem fl e ql uj TA uj true None DL Nuj (incl_refl _)) as [A' [EA [_ XA]]].
  destruct (deliver_csem fl e qr uj TB uj true None DR Nuj (incl_refl _)) as [B' [EB [_ XB]]].
  assert (A' = sel uj TA) as -> by (apply XA; [exact NE|destruct ql; reflexivity]).
  assert (B' = sel uj TB) as -> by (apply XB; [exact NE|destruct qr; reflexivity]).
  assert (norm (pass_terms uj) = Some (pass_terms uj)) as EN by (destruct uj; [congruence|reflexivity]).
  rewrite EN.
  set (U := mktable uj (rows (sel uj TA) ++ rows (sel uj TB))).
  assert (forall want, qsem fl e (TBinary nm (Some (pass_terms uj)) ql (mk_tci (Some uj) true None) TUnion qr (mk_tci (Some uj) true None) []) want
                       = sql_select fl false (Some (pass_terms uj)) want SfxNone U) as EQ.
  { intros want. cbn [qsem]. unfold csem in EA, EB.
    assert (by_name ql (mk_tci (Some uj) true None) = false) as B1 by (destruct ql; reflexivity).
    assert (by_name qr (mk_tci (Some uj) true None) = false) as B2 by (destruct qr; reflexivity).
    rewrite B1 in *. rewrite B2 in *. cbn [tc_cols] in *. rewrite EA, EB, union_all_sel. reflexivity. }
  assert (sel [] U = sel [] T) as E0.
  { rewrite (HT [] (fun x (H : In x []) => match H with end)). unfold U, sem_select_cols. cbn [cols rows]. f_equal. rewrite map_app, !map_map. reflexivity. }
  assert (forall K, K <> [] -> incl K uj -> sql_select fl false (Some (pass_terms uj)) (Some K) SfxNone U = Some (sel K U)) as ES.
  { intros K NK IK. rewrite (sql_select_scalar fl false (pass_terms uj) K SfxNone U NK eq_refl).
    - f_equal. unfold sem_select_cols. f_equal. apply map_ext. intros r. apply map_ext. intros k. rewrite term_of_pass. reflexivity.
    - intros k _. rewrite term_of_pass. reflexivity. }
  assert (forall K, incl K uj -> sel K U = sel K T) as EU.
  { intros K IK. rewrite (HT K IK). unfold U, sem_select_cols. cbn [cols rows]. f_equal. rewrite map_app, !map_map. f_equal;
      apply map_ext; intros r; apply map_ext_in; intros k Ik; apply get_sel_row, IK, Ik. }
  constructor.
  - simpl. rewrite keys_pass. exact Nuj.
  - simpl. rewrite keys_pass. exact Iu.
  - exact IuT.
  - intros K NK NDK IK. simpl in IK. rewrite keys_pass in IK. rewrite EQ, (ES K NK IK). eexists. split; [reflexivity|]. split.
    + rewrite sel_nil_sel. exact E0.
    + split; [intros _; apply EU, IK|]. intros C _ IC _. rewrite (sel_sel C K U IC). apply EU. intros x Hx. apply IK, IC, Hx.
  - rewrite EQ. exists U. split; [|exact E0]. unfold sql_select. destruct uj; [congruence|reflexivity].
  - intros n ts X. discriminate.
Qed.

End Stage1.
