(* C17, part 2: what a strict specification guarantees; table_is_keyed_by_columns on keyed data; the result of
   rowrecs_to_blocks and of blocks_to_rowrecs as explicit lists of rows (up to row order). *)
From Coq Require Import List Bool Arith ZArith QArith String Ascii Lia Permutation.
Import ListNotations.
From DA Require Import Base.PyRT Base.Val Model.CData Proofs.CDataP1.

(* control key tuple and value-cell names of one control-table row *)
Definition kap (S : recspec) (cr : list val) : list val := cells (cols (rs_ct S)) cr (rs_ctkeys S).
Definition nm (S : recspec) (cr : list val) : list string :=
  map (fun c => val_str (get (cols (rs_ct S)) cr c)) (value_cols S).
Definition cnames (S : recspec) : list string := map val_str (raw_content (rs_ct S) (rs_ctkeys S)).

Lemma ct_keys_of_kap S : ct_keys_of S = map (kap S) (rows (rs_ct S)).
Proof. reflexivity. Qed.

(* ------------------------------------------------------------------ small list facts *)
Lemma filter_all {A} (f : A -> bool) l : (forall x, In x l -> f x = true) -> filter f l = l.
Proof. induction l as [|x t IH]; intros h; simpl; [reflexivity|].
  rewrite (h x (or_introl eq_refl)). f_equal. apply IH. intros y Hy. apply h. right. exact Hy. Qed.

Lemma filter_none {A} (f : A -> bool) l : (forall x, In x l -> f x = false) -> filter f l = [].
Proof. induction l as [|x t IH]; intros h; simpl; [reflexivity|].
  rewrite (h x (or_introl eq_refl)). apply IH. intros y Hy. apply h. right. exact Hy. Qed.

Lemma flat_map_if_filter {A B} (p : A -> bool) (f : A -> list B) l :
  flat_map (fun c => if p c then [] else f c) l = flat_map f (filter (fun c => negb (p c)) l).
Proof. induction l as [|x t IH]; simpl; [reflexivity|]. destruct (p x); simpl; rewrite IH; reflexivity. Qed.

Lemma map_flat_map {A B C} (g : B -> C) (f : A -> list B) l : map g (flat_map f l) = flat_map (fun x => map g (f x)) l.
Proof. induction l as [|x t IH]; simpl; [reflexivity|]. rewrite map_app, IH. reflexivity. Qed.

Lemma flat_map_map {A B C} (g : A -> B) (f : B -> list C) l : flat_map f (map g l) = flat_map (fun x => f (g x)) l.
Proof. induction l as [|x t IH]; simpl; [reflexivity|]. rewrite IH. reflexivity. Qed.

Lemma concat_map_flat_map {A B} (f : A -> list B) l : List.concat (map f l) = flat_map f l.
Proof. symmetry. apply flat_map_concat_map. Qed.

Lemma NoDup_map_inj_in {A B} (f : A -> B) l : NoDup l -> (forall x y, In x l -> In y l -> f x = f y -> x = y) -> NoDup (map f l).
Proof. induction 1 as [|x l Hx N IH]; intros I; simpl; constructor.
  - intros M. apply in_map_iff in M. destruct M as [y [E Hy]].
    rewrite (I y x (or_intror Hy) (or_introl eq_refl) E) in Hy. contradiction.
  - apply IH. intros a b Ha Hb. apply I; right; assumption. Qed.

Lemma NoDup_map_NoDup {A B} (f : A -> B) l : NoDup (map f l) -> NoDup l.
Proof. induction l as [|x t IH]; simpl; intros N; constructor; inversion N; subst.
  - intros I. apply H1. apply in_map. exact I.
  - apply IH. assumption. Qed.

Lemma NoDup_map_inv {A B} (f : A -> B) l x y : NoDup (map f l) -> In x l -> In y l -> f x = f y -> x = y.
Proof. induction l as [|z t IH]; simpl; intros N Hx Hy E; [destruct Hx|]. inversion N as [|? ? Hz Nt]; subst.
  destruct Hx as [<-|Hx], Hy as [<-|Hy]; try reflexivity.
  - exfalso. apply Hz. rewrite E. apply in_map. exact Hy.
  - exfalso. apply Hz. rewrite <- E. apply in_map. exact Hx.
  - apply IH; assumption. Qed.


Lemma NoDup_app_intro {A} (l1 l2 : list A) : NoDup l1 -> NoDup l2 -> (forall x, In x l1 -> ~ In x l2) -> NoDup (l1 ++ l2).
Proof. induction 1 as [|x l Hx N IH]; intros N2 D; simpl; [exact N2|]. constructor.
  - rewrite in_app_iff. intros [i|i]; [contradiction|]. exact (D x (or_introl eq_refl) i).
  - apply IH; [exact N2|]. intros y Hy. apply D. right. exact Hy. Qed.

Lemma NoDup_app_remove_l {A} (l1 l2 : list A) : NoDup (l1 ++ l2) -> NoDup l2.
Proof. induction l1 as [|x t IH]; simpl; intros N; [exact N|]. inversion N; subst. apply IH. assumption. Qed.
Lemma NoDup_app_remove_r {A} (l1 l2 : list A) : NoDup (l1 ++ l2) -> NoDup l1.
Proof. induction l1 as [|x t IH]; simpl; intros N; [constructor|]. inversion N as [|? ? Hx Nt]; subst. constructor.
  - intros I. apply Hx. apply in_app_iff. left. exact I.
  - apply IH. exact Nt. Qed.

Lemma app_inv_length {A} (a1 a2 b1 b2 : list A) : List.length a1 = List.length a2 -> a1 ++ b1 = a2 ++ b2 -> a1 = a2 /\ b1 = b2.
Proof. revert a2. induction a1 as [|x a1 IH]; intros [|y a2] L E; simpl in *; try discriminate; [tauto|].
  inversion E; subst. destruct (IH a2) as [e1 e2]; [lia|assumption|]. subst. tauto. Qed.

(* keys (a x ++ b y) over a product are distinct when both factors are and the first components have one length *)
Lemma NoDup_product {X Y} (a : X -> list val) (b : Y -> list val) (xs : list X) (ys : list Y) n :
  NoDup (map a xs) -> NoDup (map b ys) -> (forall x, In x xs -> List.length (a x) = n) ->
  NoDup (flat_map (fun x => map (fun y => a x ++ b y) ys) xs).
Proof. intros Na Nb L. induction xs as [|x xs IH]; simpl; [constructor|].
  inversion Na as [|? ? Hx Nx]; subst.
  apply NoDup_app_intro.
  - rewrite <- (map_map b (fun k => a x ++ k)). apply NoDup_map_inj_in; [exact Nb|].
    intros u v _ _ E. apply app_inv_head in E. exact E.
  - apply IH; [exact Nx|]. intros y Hy. apply L. right. exact Hy.
  - intros k Hk Hk2. apply in_map_iff in Hk. destruct Hk as [y [E Hy]]. subst k.
    apply in_flat_map in Hk2. destruct Hk2 as [x' [Hx' M]]. apply in_map_iff in M. destruct M as [y' [E' Hy']].
    apply app_inv_length in E'; [|rewrite (L x' (or_intror Hx')), (L x (or_introl eq_refl)); reflexivity].
    destruct E' as [E1 _]. apply Hx. rewrite <- E1. apply in_map. exact Hx'. Qed.

(* ------------------------------------------------------------------ what strict_spec gives *)
Record spec_facts (S : recspec) : Prop := {
  sf_cc_nodup : NoDup (cols (rs_ct S));
  sf_ck_ne : rs_ctkeys S <> [];
  sf_ck_sub : forall c, In c (rs_ctkeys S) -> In c (cols (rs_ct S));
  sf_rk_ck : forall c, In c (rs_keys S) -> ~ In c (rs_ctkeys S);
  sf_keys_nodup : NoDup (ct_keys_of S);
  sf_rk_names : forall c, In c (rs_keys S) -> ~ In c (cnames S);
  sf_names_nodup : NoDup (cnames S);
  sf_rk_nodup : NoDup (rs_keys S);
  sf_rk_cc : forall c, In c (rs_keys S) -> ~ In c (cols (rs_ct S));
  sf_ck_nodup : NoDup (rs_ctkeys S);
  sf_keys_ok : forall cr, In cr (rows (rs_ct S)) -> key_ok (kap S cr) = true;
  sf_rows_len : forall cr, In cr (rows (rs_ct S)) -> List.length cr = List.length (cols (rs_ct S));
  sf_two_rows : (2 <= List.length (rows (rs_ct S)))%nat;
  sf_strict : rs_strict S = true
}.

Lemma key_ok_non_null k : key_ok k = true -> forallb non_null k = true.
Proof. unfold key_ok. rewrite !forallb_forall. intros h v Hv. specialize (h v Hv). apply andb_true_iff in h. tauto. Qed.

Lemma strict_spec_facts S : strict_spec S = true -> spec_facts S.
Proof. unfold strict_spec. intros H.
  apply andb_true_iff in H. destruct H as [H Hx]. apply andb_true_iff in H. destruct H as [H Hm].
  apply andb_true_iff in H. destruct H as [Hs Hr].
  unfold spec_extra in Hx. repeat (apply andb_true_iff in Hx; destruct Hx as [Hx ?]).
  rename H into x_len, H0 into x_kok, H1 into x_cknd, H2 into x_rkcc. rename Hx into x_rknd.
  apply negb_true_iff in Hr. unfold is_row_spec in Hr. apply Nat.leb_gt in Hr.
  destruct (mk_spec (rs_ct S) (rs_keys S) (Some (rs_ctkeys S)) true) as [s'|] eqn:M; [clear Hm|discriminate].
  unfold mk_spec in M. cbv zeta in M.
  repeat match type of M with (if ?c then _ else _) = _ => let E := fresh "c" in destruct c eqn:E; [discriminate M|] end.
  clear M.
  assert (N1 : Nat.ltb 1 (List.length (rows (rs_ct S))) = true) by (apply Nat.ltb_lt; lia).
  rewrite N1 in *. simpl in c2, c3.
  assert (ckne : rs_ctkeys S <> []) by (intros E; rewrite E in c3; discriminate).
  apply negb_false_iff in c1, c4, c6, c9, c10.
  assert (kok : forall cr, In cr (rows (rs_ct S)) -> key_ok (kap S cr) = true).
  { intros cr Hcr. rewrite forallb_forall in x_kok. apply x_kok. exact Hcr. }
  constructor.
  - apply nodupb_NoDup. exact c1.
  - exact ckne.
  - apply subset_spec. exact c4.
  - apply disjointb_spec. exact c6.
  - (* control keys distinct: from table_is_keyed_by_columns *)
    destruct (is_keyed (rs_ctkeys S) (rs_ct S)) as [[|]| |] eqn:K; try discriminate.
    unfold is_keyed in K. assert (L2 : Nat.ltb (List.length (rows (rs_ct S))) 2 = false) by (apply Nat.ltb_ge; lia).
    rewrite L2, c4 in K. destruct (rs_ctkeys S) as [|k0 ks0] eqn:EK; [congruence|]. rewrite <- EK in *.
    rewrite filter_all in K.
    + destruct (map _ _) eqn:EM in K; [discriminate|]. rewrite <- EM in K. inversion K as [K']. apply nodupb_NoDup in K'. exact K'.
    + intros k Hk. apply in_map_iff in Hk. destruct Hk as [cr [E Hcr]]. subst k. apply key_ok_non_null. apply kok. exact Hcr.
  - apply disjointb_spec. exact c10.
  - rewrite andb_true_r in c11. apply negb_false_iff in c11. apply nodupb_NoDup. exact c11.
  - apply nodupb_NoDup. exact x_rknd.
  - apply disjointb_spec. exact x_rkcc.
  - apply nodupb_NoDup. exact x_cknd.
  - exact kok.
  - intros cr Hcr. rewrite forallb_forall in x_len. apply Nat.eqb_eq. apply x_len. exact Hcr.
  - lia.
  - exact Hs.
Qed.

(* the value-cell names: the constructor's column-by-column list is a rearrangement of the row-by-row list *)
Lemma cnames_perm S : Permutation (cnames S) (flat_map (nm S) (rows (rs_ct S))).
Proof. unfold cnames, raw_content, nm, value_cols.
  rewrite flat_map_if_filter, map_flat_map. unfold getcol.
  etransitivity; [|apply perm_transpose].
  apply Permutation_refl' . apply flat_map_ext. intros c. rewrite map_map. reflexivity. Qed.

Lemma content_keys_cnames S : spec_facts S -> content_keys S = cnames S.
Proof. intros F. unfold content_keys. apply dedup_NoDup_id; [apply (sf_names_nodup S F)|]. intros x _ [].  Qed.

Lemma value_cols_In S c : In c (value_cols S) <-> In c (cols (rs_ct S)) /\ ~ In c (rs_ctkeys S).
Proof. unfold value_cols. rewrite filter_In, negb_true_iff, mem_false. reflexivity. Qed.

Lemma nm_length S cr : List.length (nm S cr) = List.length (value_cols S).
Proof. apply map_length. Qed.

Lemma nm_In_cnames S cr n : In cr (rows (rs_ct S)) -> In n (nm S cr) -> In n (cnames S).
Proof. intros Hcr Hn. eapply Permutation_in; [symmetry; apply cnames_perm|]. apply in_flat_map. exists cr. tauto. Qed.

(* a name belongs to one control row only *)
Lemma nm_disjoint S cr1 cr2 n : spec_facts S -> In cr1 (rows (rs_ct S)) -> In cr2 (rows (rs_ct S)) ->
  In n (nm S cr1) -> In n (nm S cr2) -> cr1 = cr2.
Proof. intros F H1 H2 I1 I2.
  assert (N : NoDup (flat_map (nm S) (rows (rs_ct S)))).
  { eapply Permutation_NoDup; [apply cnames_perm|apply (sf_names_nodup S F)]. }
  clear F. revert H1 H2 N. induction (rows (rs_ct S)) as [|cr t IH]; intros H1 H2 N; [destruct H1|]. simpl in N.
  assert (Nt : NoDup (flat_map (nm S) t)) by (apply NoDup_app_remove_l in N; exact N).
  assert (D : forall x, In x (nm S cr) -> ~ In x (flat_map (nm S) t)).
  { intros x Hx Ht. clear -N Hx Ht. induction (nm S cr) as [|y l IHl]; [destruct Hx|]. simpl in N. inversion N as [|? ? Hy Nl]; subst.
    destruct Hx as [<-|Hx]; [apply Hy; apply in_app_iff; right; exact Ht|apply IHl; assumption]. }
  destruct H1 as [<-|H1], H2 as [<-|H2]; try reflexivity.
  - exfalso. apply (D n I1). apply in_flat_map. exists cr2. tauto.
  - exfalso. apply (D n I2). apply in_flat_map. exists cr1. tauto.
  - apply IH; assumption. Qed.

Lemma nm_NoDup S cr : spec_facts S -> In cr (rows (rs_ct S)) -> NoDup (nm S cr).
Proof. intros F Hcr.
  assert (N : NoDup (flat_map (nm S) (rows (rs_ct S)))).
  { eapply Permutation_NoDup; [apply cnames_perm|apply (sf_names_nodup S F)]. }
  clear F. induction (rows (rs_ct S)) as [|cr' t IH]; [destruct Hcr|]. simpl in N.
  destruct Hcr as [<-|Hcr]; [apply NoDup_app_remove_r in N; exact N|apply IH; [exact Hcr|apply NoDup_app_remove_l in N; exact N]]. Qed.

(* ------------------------------------------------------------------ table_is_keyed_by_columns *)
Lemma is_keyed_ok ks t : subset ks (cols t) = true ->
  (forall r, In r (rows t) -> key_ok (cells (cols t) r ks) = true) ->
  NoDup (map (fun r => cells (cols t) r ks) (rows t)) -> is_keyed ks t = Ok true.
Proof. intros Sub K N. unfold is_keyed. destruct (Nat.ltb (List.length (rows t)) 2) eqn:L; [reflexivity|].
  rewrite Sub. apply Nat.ltb_ge in L. destruct ks as [|k0 ks'].
  - exfalso. destruct (rows t) as [|r1 [|r2 rs]]; simpl in L; try lia. simpl in N. inversion N as [|? ? H1 _]; subst. apply H1. left. reflexivity.
  - rewrite filter_all.
    + destruct (rows t) as [|r1 rs] eqn:E; [simpl in L; lia|]. simpl map at 1. cbv iota. f_equal. apply nodupb_NoDup. exact N.
    + intros k Hk. apply in_map_iff in Hk. destruct Hk as [r [<- Hr]]. apply key_ok_non_null. apply K. exact Hr. Qed.

Lemma sort_rows_nil cs rs : sort_rows cs [] rs = rs.
Proof. unfold sort_rows. apply sort_by_const. reflexivity. Qed.

Lemma sort_rows_perm cs ks rs : Permutation (sort_rows cs ks rs) rs.
Proof. apply sort_by_perm. Qed.

(* ------------------------------------------------------------------ rowrecs_to_blocks, unfolded *)
Definition r2b_row (S : recspec) (cr x : list val) : list val :=
  cells (row_columns S) x (rs_keys S) ++ kap S cr ++ cells (row_columns S) x (nm S cr).
Definition r2b_cols (S : recspec) : list string := rs_keys S ++ rs_ctkeys S ++ value_cols S.

Lemma r2b_unfold S T : rows T <> [] -> is_keyed (rs_keys S) (select_cols (row_columns S) T) = Ok true ->
  rowrecs_to_blocks S T =
  Ok (mktable (r2b_cols S)
        (sort_rows (r2b_cols S) (rs_keys S ++ rs_ctkeys S)
           (flat_map (fun cr => map (r2b_row S cr) (rows (select_cols (row_columns S) T))) (rows (rs_ct S))))).
Proof. intros NE K. unfold rowrecs_to_blocks. cbv zeta. rewrite K.
  destruct (rows (select_cols (row_columns S) T)) eqn:E.
  - simpl in E. destruct (rows T); [congruence|discriminate].
  - rewrite <- E. reflexivity. Qed.

Lemma r2b_empty S T : rows T = [] -> rowrecs_to_blocks S T = Ok (mktable (block_columns S) []).
Proof. intros E. unfold rowrecs_to_blocks. cbv zeta. simpl. rewrite E. reflexivity. Qed.

Lemma b2r_empty S T : rows T = [] -> blocks_to_rowrecs S T = Ok (mktable (row_columns S) []).
Proof. intros E. unfold blocks_to_rowrecs. cbv zeta. simpl. rewrite E. reflexivity. Qed.
