(* Proofs/ExprParseP1.v -- C13, part 1: the tree built by the walker computes Python's meaning of the parse tree. *)
From Coq Require Import List Bool String Ascii ZArith NArith QArith Arith Lia.
Import ListNotations.
From DA Require Import Model.PyExpr Model.ExprParse Model.ExprSem.
Local Close Scope Q_scope.
Local Open Scope string_scope.
Local Open Scope bool_scope.
Local Open Scope list_scope.

(* ------------------------------------------------------------------ generic list facts *)
Lemma mem_str_In s l : mem_str s l = true <-> In s l.
Proof. unfold mem_str. rewrite existsb_exists. split.
  - intros [x [Hx E]]. apply String.eqb_eq in E. subst. exact Hx.
  - intros H. exists s. split; [exact H|apply String.eqb_refl]. Qed.

Lemma list_ind2 {A} (P : list A -> Prop) :
  P [] -> (forall x, P [x]) -> (forall x y l, P l -> P (x :: y :: l)) -> forall l, P l.
Proof. intros H0 H1 H2. fix IH 1. intros [|x [|y l]]; [exact H0|apply H1|apply H2, IH]. Qed.

Lemma evens_cons2 {A} (x y : A) l : evens (x :: y :: l) = x :: evens l.
Proof. reflexivity. Qed.
Lemma odds_cons2 {A} (x y : A) l : odds (x :: y :: l) = y :: odds l.
Proof. reflexivity. Qed.

Lemma evens_map {A B} (f : A -> B) l : evens (map f l) = map f (evens l).
Proof. induction l as [|x|x y l IH] using list_ind2; [reflexivity|reflexivity|].
  cbn [map]. rewrite !evens_cons2. cbn [map]. rewrite IH. reflexivity. Qed.
Lemma odds_map {A B} (f : A -> B) l : odds (map f l) = map f (odds l).
Proof. induction l as [|x|x y l IH] using list_ind2; [reflexivity|reflexivity|].
  cbn [map]. rewrite !odds_cons2. cbn [map]. rewrite IH. reflexivity. Qed.

Lemma evens_In {A} (x : A) l : In x (evens l) -> In x l.
Proof. induction l as [|y|y z l IH] using list_ind2; simpl; intros H; tauto. Qed.

Lemma all_ok_map_inv {A B} (f : A -> res B) l r :
  all_ok (map f l) = Ok r -> Forall2 (fun x y => f x = Ok y) l r.
Proof. revert r. induction l as [|x l IH]; simpl; intros r H.
  - inversion H. constructor.
  - destruct (f x) eqn:Fx; [|discriminate]. destruct (all_ok (map f l)) eqn:R; [|discriminate].
    inversion H; subst. constructor; [exact Fx|apply IH; reflexivity]. Qed.

Lemma all_some_map_inv {A B} (f : A -> option B) l r :
  all_some (map f l) = Some r -> Forall2 (fun x y => f x = Some y) l r.
Proof. revert r. induction l as [|x l IH]; simpl; intros r H.
  - inversion H. constructor.
  - destruct (f x) eqn:Fx; [|discriminate]. destruct (all_some (map f l)) eqn:R; [|discriminate].
    inversion H; subst. constructor; [exact Fx|apply IH; reflexivity]. Qed.

Lemma all_some_of_Forall2 {A B} (f : A -> option B) l r :
  Forall2 (fun x y => f x = Some y) l r -> all_some (map f l) = Some r.
Proof. induction 1 as [|x y l r Hxy _ IH]; simpl; [reflexivity|]. rewrite Hxy, IH. reflexivity. Qed.

(* ------------------------------------------------------------------ size of trees *)
Fixpoint lsize (t : ltree) : nat :=
  match t with
  | LNode _ cs => S (fold_right (fun c n => lsize c + n) 0 cs)
  | _ => 1
  end.

Lemma lsize_child d cs x : In x cs -> lsize x < lsize (LNode d cs).
Proof. simpl. induction cs as [|y cs IH]; simpl; intros H; [destruct H|].
  destruct H as [->|H]; [lia|]. specialize (IH H). lia. Qed.

(* ------------------------------------------------------------------ unfolding *)
Lemma walk_node_eq c dd d cs :
  walk c dd (LNode d cs) =
  walk_node c d cs (map (walk c dd) cs)
    (match cs with LNode _ gcs :: _ => Some (map (walk c dd) gcs) | _ => None end)
    (match cs with _ :: LNode _ acs :: _ => Some (map (walk c dd) acs) | _ => None end).
Proof. reflexivity. Qed.

Lemma py_node_eq fsem en d cs :
  py_meaning fsem en (LNode d cs) =
  py_node fsem d cs (map (py_meaning fsem en) cs)
    (match cs with LNode _ gcs :: _ => Some (map (py_meaning fsem en) gcs) | _ => None end)
    (match cs with _ :: LNode _ acs :: _ => Some (map (py_meaning fsem en) acs) | _ => None end).
Proof. reflexivity. Qed.

(* ------------------------------------------------------------------ the methods reached by operators *)
Lemma mk_expr_Ok c op args i m e : mk_expr c op args i m = Ok e -> e = EOp op i m None args.
Proof. unfold mk_expr. destruct (negb (mem_str op (known c))); [discriminate|].
  destruct (i && m); [discriminate|]. intros H. inversion H. reflexivity. Qed.

Lemma op_expr_Ok c op a b i m chk e : op_expr c op a b i m chk = Ok e -> e = EOp op i m None [a; b].
Proof. unfold op_expr. destruct (is_none_value a || is_none_value b); [discriminate|].
  destruct (chk && obvious_type_problem a b); [discriminate|]. apply mk_expr_Ok. Qed.

Lemma uop_expr_Ok c op a i e : uop_expr c op a i = Ok e -> e = EOp op i (negb i) None [a].
Proof. unfold uop_expr. destruct (is_none_value a); [discriminate|]. apply mk_expr_Ok. Qed.

Lemma triop_expr_Ok c op a x y i m e : triop_expr c op a x y i m = Ok e -> e = EOp op i m None [a; x; y].
Proof. unfold triop_expr. destruct (is_none_value a); [discriminate|]. apply mk_expr_Ok. Qed.

(* a method given by `MBin op i m chk` applied to one argument *)
Lemma call_method_bin c name op i m chk a b e :
  find_method name method_table = Some (MBin op i m chk) ->
  call_method c name a [b] = Ok e -> e = EOp op i m None [a; b].
Proof. intros F. unfold call_method. destruct (negb (is_term a)); [discriminate|]. rewrite F. apply op_expr_Ok. Qed.

(* ------------------------------------------------------------------ evaluation of the built expressions *)
Lemma eval_EOp fsem en op i m p args vs :
  all_some (map (eval fsem en) args) = Some vs -> eval fsem en (EOp op i m p args) = eval_op fsem op vs.
Proof. intros H. simpl. rewrite H. reflexivity. Qed.

Lemma eval_bin fsem en op i m p a b va vb :
  eval fsem en a = Some va -> eval fsem en b = Some vb ->
  eval fsem en (EOp op i m p [a; b]) = eval_op fsem op [va; vb].
Proof. intros Ha Hb. apply eval_EOp. simpl. rewrite Ha, Hb. reflexivity. Qed.

(* the six arithmetic operators: text -> method -> expression -> arith *)
Lemma arith_ops_walk o :
  mem_str o ["+"; "-"; "*"; "/"; "//"; "%"] = true ->
  exists name, remap op_remap o = name /\ find_method name method_table = Some (MBin o true false true)
               /\ forall fsem a b, eval_op fsem o [a; b] = arith o a b.
Proof. intros H. apply mem_str_In in H. simpl in H.
  destruct H as [<-|[<-|[<-|[<-|[<-|[<-|[]]]]]]]; eexists; (split; [reflexivity|split; [reflexivity|]]); intros fsem a b; reflexivity. Qed.

Lemma cmp_Some_op o x y b : cmp o x y = Some b -> In o ["=="; "!="; "<>"; "<"; "<="; ">"; ">="].
Proof. unfold cmp. intros H.
  destruct (o ==s "==") eqn:E1; [apply String.eqb_eq in E1; subst; simpl; tauto|].
  destruct (o ==s "!=") eqn:E2; [apply String.eqb_eq in E2; subst; simpl; tauto|].
  destruct (o ==s "<>") eqn:E3; [apply String.eqb_eq in E3; subst; simpl; tauto|].
  destruct (o ==s "<") eqn:E4; [apply String.eqb_eq in E4; subst; simpl; tauto|].
  destruct (o ==s "<=") eqn:E5; [apply String.eqb_eq in E5; subst; simpl; tauto|].
  destruct (o ==s ">") eqn:E6; [apply String.eqb_eq in E6; subst; simpl; tauto|].
  destruct (o ==s ">=") eqn:E7; [apply String.eqb_eq in E7; subst; simpl; tauto|].
  exfalso. cbn [orb] in H. destruct (ord_q x), (ord_q y); discriminate H. Qed.

Lemma cmp_ne_alias x y : cmp "<>" x y = cmp "!=" x y.
Proof. unfold cmp. simpl. reflexivity. Qed.

Lemma cmp_ops_walk o :
  In o ["=="; "!="; "<>"; "<"; "<="; ">"; ">="] ->
  exists name o', remap op_remap o = name /\ find_method name method_table = Some (MBin o' true false true)
               /\ (forall fsem a b, eval_op fsem o' [a; b] = option_map PBool (cmp o' a b))
               /\ (forall a b, cmp o' a b = cmp o a b).
Proof. simpl. intros H.
  destruct H as [<-|[<-|[<-|[<-|[<-|[<-|[<-|[]]]]]]]]; do 2 eexists;
    (split; [reflexivity|split; [reflexivity|split; [intros; reflexivity|intros; reflexivity]]]). Qed.

(* ------------------------------------------------------------------ agreement of the two meanings *)
Section Meaning.
Variables (c : cfg) (dd : list string) (fsem : fsem_t) (en : env).

Definition agrees (t : ltree) : Prop :=
  forall e v, walk c dd t = Ok e -> py_meaning fsem en t = Some v -> eval fsem en e = Some v.

Lemma agrees_tok tk : agrees (LTok tk).
Proof. intros e v Hw Hp. destruct tk as [s|n|[m|]|s|s|b ty]; simpl in *; try discriminate.
  - destruct (mem_str s dd); [|discriminate]. inversion Hw; subst. simpl. exact Hp.
  - inversion Hw; inversion Hp; subst. reflexivity.
  - inversion Hw; inversion Hp; subst. reflexivity.
  - inversion Hw; inversion Hp; subst. reflexivity. Qed.

Lemma children_agree cs args vals :
  (forall x, In x cs -> agrees x) ->
  all_ok (map (walk c dd) cs) = Ok args -> all_some (map (py_meaning fsem en) cs) = Some vals ->
  all_some (map (eval fsem en) args) = Some vals.
Proof. intros IH Hw Hp. apply all_ok_map_inv in Hw. apply all_some_map_inv in Hp. apply all_some_of_Forall2.
  revert vals Hp. induction Hw as [|x e cs' args' Hxe Hrest IHr]; intros vals Hp; inversion Hp; subst; constructor.
  - apply (IH x); [left; reflexivity|exact Hxe|assumption].
  - apply IHr; [intros z0 Hz0; apply IH; right; exact Hz0|assumption]. Qed.

Lemma chain_fold_Err ops rs e : chain_fold c Err ops rs = Ok e -> False.
Proof. destruct ops as [|o ops]; simpl; [discriminate|]. destruct rs; discriminate. Qed.

Lemma py_chain_arith_None ops vs v : py_chain_arith None ops vs = Some v -> False.
Proof. destruct ops as [|[o|] ops], vs as [|[x|] vs]; simpl; discriminate. Qed.

Lemma chain_arith_agree : forall (ops ccs : list ltree) acc va e v,
  (forall x, In x ccs -> agrees x) ->
  eval fsem en acc = Some va ->
  chain_fold c (Ok acc) (map tok_text ops) (map (walk c dd) ccs) = Ok e ->
  py_chain_arith (Some va) (map tok_text ops) (map (py_meaning fsem en) ccs) = Some v ->
  eval fsem en e = Some v.
Proof. induction ops as [|o ops IH]; intros ccs acc va e v IHc Ha Hw Hp.
  - destruct ccs; simpl in *; [|discriminate Hp]. inversion Hw; inversion Hp; subst. exact Ha.
  - destruct ccs as [|c1 ccs]; cbn [map chain_fold py_chain_arith] in Hw, Hp.
    { destruct (tok_text o); discriminate Hp. }
    destruct (tok_text o) as [os|] eqn:To; [|discriminate Hp].
    destruct (py_meaning fsem en c1) as [v1|] eqn:P1; [|discriminate Hp].
    destruct (mem_str os ["+"; "-"; "*"; "/"; "//"; "%"]) eqn:M; [|discriminate Hp].
    destruct (walk c dd c1) as [b|] eqn:W1; [|discriminate Hw].
    destruct (arith_ops_walk os M) as [name [Hn [Hf Hev]]].
    rewrite Hn in Hw.
    destruct (call_method c name acc [b]) as [e1|] eqn:Cm; [|exfalso; eapply chain_fold_Err; exact Hw].
    pose proof (call_method_bin _ _ _ _ _ _ _ _ _ Hf Cm) as ->.
    assert (Hb : eval fsem en b = Some v1). { apply (IHc c1); [left; reflexivity|exact W1|exact P1]. }
    destruct (arith os va v1) as [v2|] eqn:Ar; [|exfalso; eapply py_chain_arith_None; exact Hp].
    eapply (IH ccs _ v2); [intros x Hx; apply IHc; right; exact Hx| |exact Hw|exact Hp].
    rewrite (eval_bin _ _ _ _ _ _ _ _ va v1 Ha Hb). rewrite Hev. exact Ar. Qed.

Lemma all_some_map_Some {A} (l : list A) : all_some (map Some l) = Some l.
Proof. induction l as [|x l IH]; simpl; [reflexivity|]. rewrite IH. reflexivity. Qed.

Lemma py_chain_all_same o : forall ops vs acc v,
  Forall (fun x => x = Some o) ops -> py_chain_arith acc ops vs = Some v ->
  exists rest, vs = map Some rest /\ fold_arith o acc rest = Some v.
Proof. induction ops as [|x ops IH]; intros vs acc v Hall Hp.
  - destruct vs; simpl in Hp; [|discriminate]. exists []. split; [reflexivity|exact Hp].
  - inversion Hall as [|? ? Hx Hrest]; subst. destruct vs as [|[v1|] vs]; cbn [py_chain_arith] in Hp; try discriminate Hp.
    destruct acc as [a|]; [|discriminate Hp].
    destruct (mem_str o ["+"; "-"; "*"; "/"; "//"; "%"]); [|discriminate Hp].
    destruct (IH vs _ v Hrest Hp) as [rest [-> Hf]]. exists (v1 :: rest). split; [reflexivity|exact Hf]. Qed.

End Meaning.
