(* PEXEC, part 6: the windowed branch of _extend_step (scratch names chosen away from the frame, constant stand-in columns, the
   sub-frame of partition / order / value columns, _data_algebra_orig_index, sort by partition + order + value columns, groupby +
   transform per term, sort back by the original index, copy out) refines sem_wextend, for EVERY sorting routine that returns a
   sorted permutation.  Premise (C18 / C27): a term whose value depends on the order inside the partition needs an order_by that is
   strict inside each partition.  All statements proved. *)
From Coq Require Import List Bool Arith ZArith QArith String Ascii Lia Permutation Sorted.
Import ListNotations.
From DA Require Import Base.PyRT Base.Val Model.Sem Model.PdPrim Model.PandasExec Model.PermGuard
  Proofs.SemBasicP Proofs.SemOrderP Proofs.PermP1 Proofs.PermP3 Proofs.ComposeP5
  Proofs.PandasExecP1 Proofs.PandasExecP2 Proofs.PandasExecP3 Proofs.PandasExecP4.
Local Open Scope string_scope.
Local Open Scope list_scope.

(* ------------------------------------------------------------------ frames described row by row *)
(* F has one row per item, and the cell of row i under a column name x of F is phi (item i) x *)
Definition descr {I : Type} (F : table) (items : list I) (phi : I -> string -> val) : Prop :=
  width_ok F /\ Forall2 (fun row it => forall x, In x (cols F) -> get (cols F) row x = phi it x) (rows F) items.

Lemma descr_len {I} F (items : list I) phi : descr F items phi -> List.length (rows F) = List.length items.
Proof. intros [_ F2]. apply (Forall2_len _ _ _ F2). Qed.

Lemma descr_weaken {I} F (items : list I) phi phi' :
  descr F items phi -> (forall it x, In it items -> In x (cols F) -> phi it x = phi' it x) -> descr F items phi'.
Proof.
  intros [W F2] H. split; [exact W|]. revert H. induction F2 as [|row it rs its Hr F2 IH]; intros H; constructor.
  - intros x Ix. rewrite (Hr x Ix). apply H; [left; reflexivity|exact Ix].
  - apply IH. intros it' x I' Ix. apply H; [right; exact I'|exact Ix].
Qed.

Lemma descr_select {I} cs F F' (items : list I) phi : descr F items phi -> pd_select cs F = Some F' -> descr F' items phi /\ cols F' = cs.
Proof.
  intros [W F2] H. apply pd_select_inv in H. destruct H as [-> Sub]. split; [|reflexivity]. split; [apply width_select_cols|].
  cbn [cols rows sem_select_cols]. rewrite <- (map_id items). revert F2. generalize (rows F) as rs. intros rs F2.
  induction F2 as [|row it rs its Hr F2 IH]; cbn [map]; [constructor|]. constructor; [|exact IH].
  intros x Ix. rewrite get_map_cols. apply mem_In in Ix as M. rewrite M. apply Hr, Sub, Ix.
Qed.

Lemma descr_getcol {I} F (items : list I) phi c : descr F items phi -> In c (cols F) -> getcol F c = map (fun it => phi it c) items.
Proof. intros [_ F2] Ic. unfold getcol. eapply Forall2_map_eq; [exact F2|]. intros a b H. apply H, Ic. Qed.

Lemma descr_keys {I} F (items : list I) phi ks : descr F items phi -> (forall c, In c ks -> In c (cols F)) ->
  map (key_of (cols F) ks) (rows F) = map (fun it => map (phi it) ks) items.
Proof. intros [_ F2] S. eapply Forall2_map_eq; [exact F2|]. intros a b H. unfold key_of. apply map_ext_in. intros c Ic. apply H, S, Ic. Qed.

Lemma descr_set_col_aux {I} (cs : list string) c (f : I -> val) (phi : I -> string -> val) : forall rs (its : list I),
  Forall (fun r : list val => List.length r = List.length cs) rs ->
  Forall2 (fun row it => forall x, In x cs -> get cs row x = phi it x) rs its ->
  Forall2 (fun row it => forall x, In x (add_end cs c) -> get (add_end cs c) row x = if eq_dec x c then f it else phi it x)
          (map (fun p : list val * I => set_cell cs (fst p) c (f (snd p))) (combine rs its)) its.
Proof.
  intros rs its W F2. induction F2 as [|row it rs its Hr F2 IH]; cbn [combine map]; [constructor|].
  inversion W as [|? ? Lr Wt]; subst. constructor; [|apply IH, Wt].
  intros x Ix. cbn [fst snd]. rewrite (set_cell_get _ _ _ _ _ Lr). destruct (eq_dec x c) as [->|n]; [reflexivity|].
  apply Hr. apply In_add_end in Ix. destruct Ix as [Ix|Ix]; [exact Ix|contradiction].
Qed.
Lemma descr_set_col {I} c (f : I -> val) F F' (items : list I) phi :
  descr F items phi -> pd_set_col c (map f items) F = Some F' ->
  descr F' items (fun it x => if eq_dec x c then f it else phi it x) /\ cols F' = add_end (cols F) c.
Proof.
  intros [W F2] H. pose proof (width_set_col _ _ _ _ W H) as W'. destruct (pd_set_col_inv _ _ _ _ H) as [L [C R]].
  split; [|exact C]. split; [exact W'|]. rewrite C, R. rewrite combine_map_r, map_map. cbn [fst snd].
  apply descr_set_col_aux; assumption.
Qed.

Lemma descr_set_scalar {I} c v F (items : list I) phi :
  descr F items phi -> descr (pd_set_scalar c v F) items (fun it x => if eq_dec x c then v else phi it x).
Proof.
  intros [W F2]. split; [apply width_set_scalar, W|]. pose proof (set_scalar_row_eqv c v F W) as S. cbn [cols pd_set_scalar] in *.
  revert S F2. generalize (rows (pd_set_scalar c v F)) as rs'. generalize (rows F) as rs. intros rs rs' S. revert items.
  induction S as [|r' r rs' rs Hr S IH]; intros items F2; inversion F2 as [|? it ? its Hi F2']; subst; [constructor|]. constructor; [|apply IH, F2'].
  intros x Ix. rewrite (Hr x). destruct (eq_dec x c) as [->|n]; [reflexivity|]. apply Hi. apply In_add_end in Ix. destruct Ix as [Ix|Ix]; [exact Ix|contradiction].
Qed.

(* sorting a described frame: the items are permuted into a list sorted by the same comparison read through phi *)
Definition row_le_phi {I} (phi : I -> string -> val) (keys : list (string * bool)) (a b : I) : bool :=
  row_le fl_pandas (map fst keys) keys (map (fun kd => phi a (fst kd)) keys) (map (fun kd => phi b (fst kd)) keys).

Fixpoint rle {I} (phi : I -> string -> val) (keys : list (string * bool)) (a b : I) : bool :=
  match keys with
  | [] => true
  | (c, d) :: t => if v_eqv (phi a c) (phi b c) then rle phi t a b else v_le_dir (nulls_first fl_pandas d) d (phi a c) (phi b c)
  end.

Lemma row_le_rle {I} (phi : I -> string -> val) cs keys ra rb (a b : I) :
  (forall c, In c (map fst keys) -> get cs ra c = phi a c) -> (forall c, In c (map fst keys) -> get cs rb c = phi b c) ->
  row_le fl_pandas cs keys ra rb = rle phi keys a b.
Proof.
  induction keys as [|[c d] t IH]; intros Ha Hb; cbn [row_le rle]; [reflexivity|].
  rewrite (Ha c) by (left; reflexivity). rewrite (Hb c) by (left; reflexivity).
  rewrite IH; [reflexivity| |]; intros c0 I0; [apply Ha|apply Hb]; right; exact I0.
Qed.

Lemma rle_total {I} (phi : I -> string -> val) keys a b : rle phi keys a b = true \/ rle phi keys b a = true.
Proof.
  induction keys as [|[c d] t IH]; cbn [rle]; [left; reflexivity|]. rewrite (v_eqv_sym (phi b c) (phi a c)).
  destruct (v_eqv (phi a c) (phi b c)); [exact IH|apply v_le_dir_total].
Qed.
Lemma rle_trans {I} (phi : I -> string -> val) keys a b c : rle phi keys a b = true -> rle phi keys b c = true -> rle phi keys a c = true.
Proof.
  induction keys as [|[x d] t IH]; cbn [rle]; [reflexivity|].
  destruct (v_eqv (phi a x) (phi b x)) eqn:E1; destruct (v_eqv (phi b x) (phi c x)) eqn:E2.
  - rewrite (SemOrderP.v_eqv_cong_l _ _ _ E1), E2. exact IH.
  - rewrite (SemOrderP.v_eqv_cong_l _ _ _ E1), E2. intros _ H. rewrite (v_le_dir_cong_l _ _ _ _ _ E1). exact H.
  - rewrite <- (SemOrderP.v_eqv_cong_r _ _ _ E2), E1. intros H _. rewrite <- (v_le_dir_cong_r _ _ _ _ _ E2). exact H.
  - intros H1 H2. destruct (v_eqv (phi a x) (phi c x)) eqn:E3.
    + exfalso. rewrite (v_le_dir_cong_l _ _ _ _ _ E3) in H1. rewrite (SemOrderP.v_eqv_sym) in E2.
      apply (v_le_dir_antisym _ _ _ _ E2 H1 H2).
    + eapply v_le_dir_trans; eassumption.
Qed.

Lemma descr_sort {I} srt keys F F' (items : list I) phi :
  sorter_ok srt -> descr F items phi -> pd_sort_values_with srt keys F = Some F' ->
  exists items', Permutation items' items /\ StronglySorted (fun a b => rle phi (pd_sort_keys keys) a b = true) items' /\
                 descr F' items' phi /\ cols F' = cols F.
Proof.
  intros So [W F2] H. unfold pd_sort_values_with in H. destruct (subset (map fst keys) (cols F)) eqn:Sb; [|discriminate].
  inversion H; subst F'. clear H. set (le := row_le fl_pandas (cols F) (pd_sort_keys keys)).
  destruct (So le (rows F)) as [P S]; [intros; apply row_le_total|intros; eapply row_le_trans; eassumption|].
  destruct (Forall2_perm_l _ _ _ _ (Permutation_sym P) F2) as [items' [Pi Fi]].
  exists items'. split; [apply Permutation_sym, Pi|].
  assert (forall c, In c (map fst (pd_sort_keys keys)) -> In c (cols F)) as Sk.
  { intros c Ic. unfold pd_sort_keys in Ic. rewrite map_map in Ic. cbn [fst] in Ic. apply (proj1 (subset_spec _ _) Sb), Ic. }
  split; [|split; [split|reflexivity]].
  - eapply sorted_transfer; [|exact Fi|exact S]. intros a a' b b' Ra Rb. unfold le. apply row_le_rle; intros c Ic; [apply Ra|apply Rb]; apply Sk, Ic.
  - unfold width_ok. cbn [cols rows]. apply Forall_forall. intros r0 I0. unfold width_ok in W. rewrite Forall_forall in W. apply W.
    eapply Permutation_in; eassumption.
  - cbn [cols rows]. exact Fi.
Qed.

(* ------------------------------------------------------------------ groupby(...).transform: position inside the group *)
Lemma tag_vals_nth_error (L : list (list val * val)) : forall n j x, nth_error L j = Some x -> nth_error (tag_vals n L) j = Some ((n + j)%nat, x).
Proof.
  induction L as [|y L IH]; intros n j x H; [destruct j; discriminate|]. destruct j as [|j]; simpl in *.
  - inversion H; subst. rewrite Nat.add_0_r. reflexivity.
  - rewrite (IH (S n) j x H). f_equal. f_equal. lia.
Qed.
Lemma tag_vals_length (L : list (list val * val)) n : List.length (tag_vals n L) = List.length L.
Proof. revert n. induction L as [|y L IH]; intros n; simpl; [reflexivity|]. rewrite IH. reflexivity. Qed.

Lemma filter_tag_vals_snd (Q : list val * val -> bool) (L : list (list val * val)) : forall n,
  map (fun jkv : nat * (list val * val) => snd (snd jkv)) (filter (fun jkv => Q (snd jkv)) (tag_vals n L)) = map snd (filter Q L).
Proof. induction L as [|y L IH]; intros n; simpl; [reflexivity|]. destruct (Q y); simpl; rewrite IH; reflexivity. Qed.

Lemma tag_vals_tags_ge (L : list (list val * val)) : forall n p, In p (tag_vals n L) -> (n <= fst p)%nat.
Proof. induction L as [|y L IH]; intros n p I; simpl in I; [contradiction|]. destruct I as [<-|I]; [simpl; lia|]. apply IH in I. lia. Qed.

Lemma pos_of_tag_filter (Q : list val * val -> bool) (L : list (list val * val)) : forall n j x,
  nth_error L j = Some x -> Q x = true ->
  pos_of_tag (n + j) (map (fun jkv : nat * (list val * val) => (fst jkv, snd (snd jkv))) (filter (fun jkv => Q (snd jkv)) (tag_vals n L)))
  = List.length (filter Q (firstn j L)).
Proof.
  induction L as [|y L IH]; intros n j x H Qx; [destruct j; discriminate|]. destruct j as [|j]; simpl in H.
  - inversion H; subst y. simpl. rewrite Qx. simpl. rewrite Nat.add_0_r, Nat.eqb_refl. reflexivity.
  - cbn [tag_vals filter firstn snd]. destruct (Q y) eqn:Qy; cbn [map pos_of_tag fst List.length].
    + replace (Nat.eqb n (n + S j)) with false by (symmetry; apply Nat.eqb_neq; lia).
      replace (n + S j)%nat with (S n + j)%nat by lia. rewrite (IH (S n) j x H Qx). reflexivity.
    + replace (n + S j)%nat with (S n + j)%nat by lia. apply (IH (S n) j x H Qx).
Qed.

Lemma filter_map_comm' {X Y} (f : X -> Y) (p : Y -> bool) l : filter p (map f l) = map f (filter (fun x => p (f x)) l).
Proof. induction l as [|x l IH]; simpl; [reflexivity|]. destruct (p (f x)); simpl; rewrite IH; reflexivity. Qed.

Lemma grouped_apply_length f rkeys vals : List.length (grouped_apply f rkeys vals) = List.length (combine rkeys vals).
Proof. unfold grouped_apply. rewrite map_length, tag_vals_length. reflexivity. Qed.

Lemma grouped_apply_nth {I} (f : list val -> list val) (K : I -> list val) (V : I -> val) (S : list I) j it :
  nth_error S j = Some it ->
  nth j (grouped_apply f (map K S) (map V S)) VNull
  = nth (List.length (filter (fun it' => keys_eqv (K it) (K it')) (firstn j S)))
        (f (map V (filter (fun it' => keys_eqv (K it) (K it')) S))) VNull.
Proof.
  intros H. unfold grouped_apply. set (L := combine (map K S) (map V S)).
  assert (L = map (fun x => (K x, V x)) S) as EL by (unfold L; rewrite combine_map_l, combine_self_map, map_map; reflexivity).
  assert (nth_error L j = Some (K it, V it)) as HL by (rewrite EL; apply (map_nth_error (fun x => (K x, V x))), H).
  pose proof (tag_vals_nth_error L 0 j _ HL) as HT. cbn [Nat.add] in HT.
  rewrite (nth_indep _ VNull (nth 0 (map (fun _ => VNull) (tag_vals 0 L)) VNull)) by (rewrite map_length, tag_vals_length; apply nth_error_Some; congruence).
  erewrite (nth_error_nth (map _ (tag_vals 0 L))); [|apply map_nth_error, HT]. cbn [fst snd].
  set (Q := fun kv : list val * val => keys_eqv (K it) (fst kv)).
  change (fun jkv : nat * (list val * val) => keys_eqv (K it) (fst (snd jkv))) with (fun jkv : nat * (list val * val) => Q (snd jkv)).
  rewrite (map_map (fun jkv : nat * (list val * val) => (fst jkv, snd (snd jkv))) snd). cbn [snd].
  rewrite (filter_tag_vals_snd Q L 0).
  rewrite <- (Nat.add_0_l j) at 1. rewrite (pos_of_tag_filter Q L 0 j (K it, V it) HL) by (unfold Q; cbn [fst]; apply keys_eqv_refl).
  rewrite EL. rewrite firstn_map, !filter_map_comm', map_length, map_map. reflexivity.
Qed.
