(* PEXEC, part 6: the windowed branch of _extend_step (scratch names chosen away from the frame, constant stand-in columns, the
   sub-frame of partition / order / value columns, _data_algebra_orig_index, sort by partition + order + value columns, groupby +
   transform per term, sort back by the original index, copy out) refines sem_wextend, for EVERY sorting routine that returns a
   sorted permutation.  Premise (C18 / C27): a term whose value depends on the order inside the partition needs an order_by that is
   strict inside each partition.  All statements proved. *)
From Coq Require Import List Bool Arith ZArith QArith String Ascii Lia Permutation Sorted.
Import ListNotations.
From DA Require Import Base.PyRT Base.Val Model.Sem Model.PdPrim Model.PandasExec Model.PermGuard
  Proofs.SemBasicP Proofs.SemOrderP Proofs.PermP1 Proofs.PermP3 Proofs.ComposeP5
  Proofs.PandasExecP1 Proofs.PandasExecP2 Proofs.PandasExecP3 Proofs.PandasExecP4.
Local Open Scope string_scope.
Local Open Scope list_scope.

(* ------------------------------------------------------------------ frames described row by row *)
(* F has one row per item, and the cell of row i under a column name x of F is phi (item i) x *)
Definition descr {I : Type} (F : table) (items : list I) (phi : I -> string -> val) : Prop :=
  width_ok F /\ Forall2 (fun row it => forall x, In x (cols F) -> get (cols F) row x = phi it x) (rows F) items.

Lemma descr_len {I} F (items : list I) phi : descr F items phi -> List.length (rows F) = List.length items.
Proof. intros [_ F2]. apply (Forall2_len _ _ _ F2). Qed.

Lemma descr_weaken {I} F (items : list I) phi phi' :
  descr F items phi -> (forall it x, In it items -> In x (cols F) -> phi it x = phi' it x) -> descr F items phi'.
Proof.
  intros [W F2] H. split; [exact W|]. revert H. induction F2 as [|row it rs its Hr F2 IH]; intros H; constructor.
  - intros x Ix. rewrite (Hr x Ix). apply H; [left; reflexivity|exact Ix].
  - apply IH. intros it' x I' Ix. apply H; [right; exact I'|exact Ix].
Qed.

Lemma descr_select {I} cs F F' (items : list I) phi : descr F items phi -> pd_select cs F = Some F' -> descr F' items phi /\ cols F' = cs.
Proof.
  intros [W F2] H. apply pd_select_inv in H. destruct H as [-> Sub]. split; [|reflexivity]. split; [apply width_select_cols|].
  cbn [cols rows sem_select_cols]. rewrite <- (map_id items). revert F2. generalize (rows F) as rs. intros rs F2.
  induction F2 as [|row it rs its Hr F2 IH]; cbn [map]; [constructor|]. constructor; [|exact IH].
  intros x Ix. rewrite get_map_cols. apply mem_In in Ix as M. rewrite M. apply Hr, Sub, Ix.
Qed.

Lemma descr_getcol {I} F (items : list I) phi c : descr F items phi -> In c (cols F) -> getcol F c = map (fun it => phi it c) items.
Proof. intros [_ F2] Ic. unfold getcol. eapply Forall2_map_eq; [exact F2|]. intros a b H. apply H, Ic. Qed.

Lemma descr_keys {I} F (items : list I) phi ks : descr F items phi -> (forall c, In c ks -> In c (cols F)) ->
  map (key_of (cols F) ks) (rows F) = map (fun it => map (phi it) ks) items.
Proof. intros [_ F2] S. eapply Forall2_map_eq; [exact F2|]. intros a b H. unfold key_of. apply map_ext_in. intros c Ic. apply H, S, Ic. Qed.

Lemma descr_set_col_aux {I} (cs : list string) c (f : I -> val) (phi : I -> string -> val) : forall rs (its : list I),
  Forall (fun r : list val => List.length r = List.length cs) rs ->
  Forall2 (fun row it => forall x, In x cs -> get cs row x = phi it x) rs its ->
  Forall2 (fun row it => forall x, In x (add_end cs c) -> get (add_end cs c) row x = if eq_dec x c then f it else phi it x)
          (map (fun p : list val * I => set_cell cs (fst p) c (f (snd p))) (combine rs its)) its.
Proof.
  intros rs its W F2. induction F2 as [|row it rs its Hr F2 IH]; cbn [combine map]; [constructor|].
  inversion W as [|? ? Lr Wt]; subst. constructor; [|apply IH, Wt].
  intros x Ix. cbn [fst snd]. rewrite (set_cell_get _ _ _ _ _ Lr). destruct (eq_dec x c) as [->|n]; [reflexivity|].
  apply Hr. apply In_add_end in Ix. destruct Ix as [Ix|Ix]; [exact Ix|contradiction].
Qed.
Lemma descr_set_col {I} c (f : I -> val) F F' (items : list I) phi :
  descr F items phi -> pd_set_col c (map f items) F = Some F' ->
  descr F' items (fun it x => if eq_dec x c then f it else phi it x) /\ cols F' = add_end (cols F) c.
Proof.
  intros [W F2] H. pose proof (width_set_col _ _ _ _ W H) as W'. destruct (pd_set_col_inv _ _ _ _ H) as [L [C R]].
  split; [|exact C]. split; [exact W'|]. rewrite C, R. rewrite combine_map_r, map_map. cbn [fst snd].
  apply descr_set_col_aux; assumption.
Qed.

Lemma descr_set_scalar {I} c v F (items : list I) phi :
  descr F items phi -> descr (pd_set_scalar c v F) items (fun it x => if eq_dec x c then v else phi it x).
Proof.
  intros [W F2]. split; [apply width_set_scalar, W|]. pose proof (set_scalar_row_eqv c v F W) as S. cbn [cols pd_set_scalar] in *.
  revert S F2. generalize (rows (pd_set_scalar c v F)) as rs'. generalize (rows F) as rs. intros rs rs' S. revert items.
  induction S as [|r' r rs' rs Hr S IH]; intros items F2; inversion F2 as [|? it ? its Hi F2']; subst; [constructor|]. constructor; [|apply IH, F2'].
  intros x Ix. rewrite (Hr x). destruct (eq_dec x c) as [->|n]; [reflexivity|]. apply Hi. apply In_add_end in Ix. destruct Ix as [Ix|Ix]; [exact Ix|contradiction].
Qed.

(* sorting a described frame: the items are permuted into a list sorted by the same comparison read through phi *)
Definition row_le_phi {I} (phi : I -> string -> val) (keys : list (string * bool)) (a b : I) : bool :=
  row_le fl_pandas (map fst keys) keys (map (fun kd => phi a (fst kd)) keys) (map (fun kd => phi b (fst kd)) keys).

Fixpoint rle {I} (phi : I -> string -> val) (keys : list (string * bool)) (a b : I) : bool :=
  match keys with
  | [] => true
  | (c, d) :: t => if v_eqv (phi a c) (phi b c) then rle phi t a b else v_le_dir (nulls_first fl_pandas d) d (phi a c) (phi b c)
  end.

Lemma row_le_rle {I} (phi : I -> string -> val) cs keys ra rb (a b : I) :
  (forall c, In c (map fst keys) -> get cs ra c = phi a c) -> (forall c, In c (map fst keys) -> get cs rb c = phi b c) ->
  row_le fl_pandas cs keys ra rb = rle phi keys a b.
Proof.
  induction keys as [|[c d] t IH]; intros Ha Hb; cbn [row_le rle]; [reflexivity|].
  rewrite (Ha c) by (left; reflexivity). rewrite (Hb c) by (left; reflexivity).
  rewrite IH; [reflexivity| |]; intros c0 I0; [apply Ha|apply Hb]; right; exact I0.
Qed.

Lemma rle_total {I} (phi : I -> string -> val) keys a b : rle phi keys a b = true \/ rle phi keys b a = true.
Proof.
  induction keys as [|[c d] t IH]; cbn [rle]; [left; reflexivity|]. rewrite (v_eqv_sym (phi b c) (phi a c)).
  destruct (v_eqv (phi a c) (phi b c)); [exact IH|apply v_le_dir_total].
Qed.
Lemma rle_trans {I} (phi : I -> string -> val) keys a b c : rle phi keys a b = true -> rle phi keys b c = true -> rle phi keys a c = true.
Proof.
  induction keys as [|[x d] t IH]; cbn [rle]; [reflexivity|].
  destruct (v_eqv (phi a x) (phi b x)) eqn:E1; destruct (v_eqv (phi b x) (phi c x)) eqn:E2.
  - rewrite (SemOrderP.v_eqv_cong_l _ _ _ E1), E2. exact IH.
  - rewrite (SemOrderP.v_eqv_cong_l _ _ _ E1), E2. intros _ H. rewrite (v_le_dir_cong_l _ _ _ _ _ E1). exact H.
  - rewrite <- (SemOrderP.v_eqv_cong_r _ _ _ E2), E1. intros H _. rewrite <- (v_le_dir_cong_r _ _ _ _ _ E2). exact H.
  - intros H1 H2. destruct (v_eqv (phi a x) (phi c x)) eqn:E3.
    + exfalso. rewrite (v_le_dir_cong_l _ _ _ _ _ E3) in H1. rewrite (SemOrderP.v_eqv_sym) in E2.
      apply (v_le_dir_antisym _ _ _ _ E2 H1 H2).
    + eapply v_le_dir_trans; eassumption.
Qed.

Lemma descr_sort {I} srt keys F F' (items : list I) phi :
  sorter_ok srt -> descr F items phi -> pd_sort_values_with srt keys F = Some F' ->
  exists items', Permutation items' items /\ StronglySorted (fun a b => rle phi (pd_sort_keys keys) a b = true) items' /\
                 descr F' items' phi /\ cols F' = cols F.
Proof.
  intros So [W F2] H. unfold pd_sort_values_with in H. destruct (subset (map fst keys) (cols F)) eqn:Sb; [|discriminate].
  inversion H; subst F'. clear H. set (le := row_le fl_pandas (cols F) (pd_sort_keys keys)).
  destruct (So le (rows F)) as [P S]; [intros; apply row_le_total|intros; eapply row_le_trans; eassumption|].
  destruct (Forall2_perm_l _ _ _ _ (Permutation_sym P) F2) as [items' [Pi Fi]].
  exists items'. split; [apply Permutation_sym, Pi|].
  assert (forall c, In c (map fst (pd_sort_keys keys)) -> In c (cols F)) as Sk.
  { intros c Ic. unfold pd_sort_keys in Ic. rewrite map_map in Ic. cbn [fst] in Ic. apply (proj1 (subset_spec _ _) Sb), Ic. }
  split; [|split; [split|reflexivity]].
  - eapply sorted_transfer; [|exact Fi|exact S]. intros a a' b b' Ra Rb. unfold le. apply row_le_rle; intros c Ic; [apply Ra|apply Rb]; apply Sk, Ic.
  - unfold width_ok. cbn [cols rows]. apply Forall_forall. intros r0 I0. unfold width_ok in W. rewrite Forall_forall in W. apply W.
    eapply Permutation_in; eassumption.
  - cbn [cols rows]. exact Fi.
Qed.

(* ------------------------------------------------------------------ groupby(...).transform: position inside the group *)
Lemma tag_vals_nth_error (L : list (list val * val)) : forall n j x, nth_error L j = Some x -> nth_error (tag_vals n L) j = Some ((n + j)%nat, x).
Proof.
  induction L as [|y L IH]; intros n j x H; [destruct j; discriminate|]. destruct j as [|j]; simpl in *.
  - inversion H; subst. rewrite Nat.add_0_r. reflexivity.
  - rewrite (IH (S n) j x H). f_equal. f_equal. lia.
Qed.
Lemma tag_vals_length (L : list (list val * val)) n : List.length (tag_vals n L) = List.length L.
Proof. revert n. induction L as [|y L IH]; intros n; simpl; [reflexivity|]. rewrite IH. reflexivity. Qed.

Lemma filter_tag_vals_snd (Q : list val * val -> bool) (L : list (list val * val)) : forall n,
  map (fun jkv : nat * (list val * val) => snd (snd jkv)) (filter (fun jkv => Q (snd jkv)) (tag_vals n L)) = map snd (filter Q L).
Proof. induction L as [|y L IH]; intros n; simpl; [reflexivity|]. destruct (Q y); simpl; rewrite IH; reflexivity. Qed.

Lemma tag_vals_tags_ge (L : list (list val * val)) : forall n p, In p (tag_vals n L) -> (n <= fst p)%nat.
Proof. induction L as [|y L IH]; intros n p I; simpl in I; [contradiction|]. destruct I as [<-|I]; [simpl; lia|]. apply IH in I. lia. Qed.

Lemma pos_of_tag_filter (Q : list val * val -> bool) (L : list (list val * val)) : forall n j x,
  nth_error L j = Some x -> Q x = true ->
  pos_of_tag (n + j) (map (fun jkv : nat * (list val * val) => (fst jkv, snd (snd jkv))) (filter (fun jkv => Q (snd jkv)) (tag_vals n L)))
  = List.length (filter Q (firstn j L)).
Proof.
  induction L as [|y L IH]; intros n j x H Qx; [destruct j; discriminate|]. destruct j as [|j]; simpl in H.
  - inversion H; subst y. simpl. rewrite Qx. simpl. rewrite Nat.add_0_r, Nat.eqb_refl. reflexivity.
  - cbn [tag_vals filter firstn snd]. destruct (Q y) eqn:Qy; cbn [map pos_of_tag fst List.length].
    + replace (Nat.eqb n (n + S j)) with false by (symmetry; apply Nat.eqb_neq; lia).
      replace (n + S j)%nat with (S n + j)%nat by lia. rewrite (IH (S n) j x H Qx). reflexivity.
    + replace (n + S j)%nat with (S n + j)%nat by lia. apply (IH (S n) j x H Qx).
Qed.

Lemma filter_map_comm' {X Y} (f : X -> Y) (p : Y -> bool) l : filter p (map f l) = map f (filter (fun x => p (f x)) l).
Proof. induction l as [|x l IH]; simpl; [reflexivity|]. destruct (p (f x)); simpl; rewrite IH; reflexivity. Qed.

Lemma grouped_apply_length f rkeys vals : List.length (grouped_apply f rkeys vals) = List.length (combine rkeys vals).
Proof. unfold grouped_apply. rewrite map_length, tag_vals_length. reflexivity. Qed.

Lemma grouped_apply_nth {I} (f : list val -> list val) (K : I -> list val) (V : I -> val) (S : list I) j it :
  nth_error S j = Some it ->
  nth j (grouped_apply f (map K S) (map V S)) VNull
  = nth (List.length (filter (fun it' => keys_eqv (K it) (K it')) (firstn j S)))
        (f (map V (filter (fun it' => keys_eqv (K it) (K it')) S))) VNull.
Proof.
  intros H. unfold grouped_apply. set (L := combine (map K S) (map V S)).
  assert (L = map (fun x => (K x, V x)) S) as EL by (unfold L; rewrite combine_map_l, combine_self_map, map_map; reflexivity).
  assert (nth_error L j = Some (K it, V it)) as HL by (rewrite EL; apply (map_nth_error (fun x => (K x, V x))), H).
  pose proof (tag_vals_nth_error L 0 j _ HL) as HT. cbn [Nat.add] in HT.
  rewrite (nth_indep _ VNull (nth 0 (map (fun _ => VNull) (tag_vals 0 L)) VNull)) by (rewrite map_length, tag_vals_length; apply nth_error_Some; congruence).
  erewrite (nth_error_nth (map _ (tag_vals 0 L))); [|apply map_nth_error, HT]. cbn [fst snd].
  set (Q := fun kv : list val * val => keys_eqv (K it) (fst kv)).
  change (fun jkv : nat * (list val * val) => keys_eqv (K it) (fst (snd jkv))) with (fun jkv : nat * (list val * val) => Q (snd jkv)).
  rewrite (map_map (fun jkv : nat * (list val * val) => (fst jkv, snd (snd jkv))) snd). cbn [snd].
  rewrite (filter_tag_vals_snd Q L 0).
  rewrite <- (Nat.add_0_l j) at 1. rewrite (pos_of_tag_filter Q L 0 j (K it, V it) HL) by (unfold Q; cbn [fst]; apply keys_eqv_refl).
  rewrite EL. rewrite firstn_map, !filter_map_comm', map_length, map_map. reflexivity.
Qed.

Lemma nth_error_filter_firstn {X} (P : X -> bool) (S : list X) : forall j x, nth_error S j = Some x -> P x = true ->
  nth_error (filter P S) (List.length (filter P (firstn j S))) = Some x.
Proof.
  induction S as [|y S IH]; intros j x H Px; [destruct j; discriminate|]. destruct j as [|j]; simpl in H.
  - inversion H; subst. simpl. rewrite Px. reflexivity.
  - simpl. destruct (P y); simpl; apply (IH j x H Px).
Qed.

(* the transform written per item: the window function over the item's group (in frame order), read at the item's tag *)
Lemma grouped_apply_lookup {X} (f : list val -> list val) (K : nat * X -> list val) (V : nat * X -> val) (S : list (nat * X)) :
  NoDup (map fst S) ->
  grouped_apply f (map K S) (map V S)
  = map (fun it => let G := filter (fun it' => keys_eqv (K it) (K it')) S in
                   lookup_pos (combine (map fst G) (f (map V G))) (fst it)) S.
Proof.
  intros N.
  assert (List.length (grouped_apply f (map K S) (map V S)) = List.length S) as LG
    by (rewrite grouped_apply_length, combine_length, !map_length, Nat.min_id; reflexivity).
  apply (nth_ext _ _ VNull VNull).
  - rewrite LG, map_length. reflexivity.
  - intros j Lj. rewrite LG in Lj.
    destruct (nth_error S j) as [it|] eqn:Hj; [|apply nth_error_None in Hj; lia].
    rewrite (grouped_apply_nth f K V S j it Hj).
    set (F := fun it0 : nat * X => let G := filter (fun it' => keys_eqv (K it0) (K it')) S in
                                   lookup_pos (combine (map fst G) (f (map V G))) (fst it0)).
    rewrite (nth_error_nth (map F S) j VNull (map_nth_error F j S Hj)). unfold F. cbv zeta.
    destruct it as [i x]. symmetry.
    apply (lookup_combine (filter (fun it' => keys_eqv (K (i, x)) (K it')) S) _ i _ x).
    + apply NoDup_map_fst_filter, N.
    + apply nth_error_filter_firstn; [exact Hj|apply keys_eqv_refl].
Qed.

(* ------------------------------------------------------------------ the collection loop without constant arguments *)
Definition vcols_step (acc : list string) (ke : string * expr) : list string :=
  match win_shape (snd ke) with Some (_, Some (WCol c), _) => add_end acc c | _ => acc end.

Lemma wcollect_fold cs keys ops : forall cl nm res st,
  forallb (win_ok_b cs keys) ops = true ->
  fold_left (fun acc ke => s <- acc ;; wcollect s ke) ops (Some (mkws cl [] nm res)) = Some st ->
  st = mkws (fold_left vcols_step ops cl) [] nm res.
Proof.
  induction ops as [|ke ops IH]; intros cl nm res st Ok H; simpl in H; [inversion H; reflexivity|].
  cbn [forallb] in Ok. apply andb_true_iff in Ok. destruct Ok as [Ok1 Ok].
  unfold wcollect at 2 in H. unfold win_ok_b in Ok1. cbn [fold_left]. unfold vcols_step at 2.
  destruct (win_shape (snd ke)) as [[[fn [[c|v]|]] ex]|]; try discriminate; cbn [obind ws_cols ws_temps ws_names ws_res] in H.
  - unfold add_end. destruct (mem c cl); apply (IH _ _ _ _ Ok H).
  - apply (IH _ _ _ _ Ok H).
Qed.

Lemma vcols_prefix ops : forall cl, exists extra, fold_left vcols_step ops cl = cl ++ extra.
Proof.
  induction ops as [|ke ops IH]; intros cl; [exists []; rewrite app_nil_r; reflexivity|]. cbn [fold_left].
  unfold vcols_step at 2. destruct (win_shape (snd ke)) as [[[fn [[c|v]|]] ex]|]; try apply IH.
  unfold add_end. destruct (mem c cl); [apply IH|]. destruct (IH (cl ++ [c])) as [ex' E]. exists (c :: ex'). rewrite E, <- app_assoc. reflexivity.
Qed.
Lemma vcols_In ops : forall cl x, In x (fold_left vcols_step ops cl) <->
  In x cl \/ exists ke fn ex, In ke ops /\ win_shape (snd ke) = Some (fn, Some (WCol x), ex).
Proof.
  induction ops as [|ke ops IH]; intros cl x; cbn [fold_left].
  - split; [tauto|]. intros [I|[ke [fn [ex [[] _]]]]]. exact I.
  - rewrite IH. unfold vcols_step. split.
    + intros [I|[ke' [fn [ex [I E]]]]].
      * destruct (win_shape (snd ke)) as [[[fn [[c|v]|]] ex]|] eqn:Ew; try (left; exact I).
        apply In_add_end in I. destruct I as [I| ->]; [left; exact I|]. right. exists ke, fn, ex. split; [left; reflexivity|exact Ew].
      * right. exists ke', fn, ex. split; [right; exact I|exact E].
    + intros [I|[ke' [fn [ex [[<-|I] E]]]]].
      * left. destruct (win_shape (snd ke)) as [[[fn [[c|v]|]] ex]|]; try exact I. apply In_add_end. left. exact I.
      * left. rewrite E. apply In_add_end. right. reflexivity.
      * right. exists ke', fn, ex. split; assumption.
Qed.
Lemma vcols_nodup ops : forall cl, NoDup cl -> NoDup (fold_left vcols_step ops cl).
Proof.
  induction ops as [|ke ops IH]; intros cl N; [exact N|]. cbn [fold_left]. apply IH. unfold vcols_step.
  destruct (win_shape (snd ke)) as [[[fn [[c|v]|]] ex]|]; try exact N. apply NoDup_add_end, N.
Qed.

(* ------------------------------------------------------------------ sorted lists, prefixes of the sort key *)
Lemma SS_filter {X} (R : X -> X -> Prop) (P : X -> bool) l : StronglySorted R l -> StronglySorted R (filter P l).
Proof.
  induction 1 as [|x l S IH F]; simpl; [constructor|]. destruct (P x); [|exact IH]. constructor; [exact IH|].
  rewrite Forall_forall in *. intros y Iy. apply filter_In in Iy. apply F. tauto.
Qed.
Lemma SS_weaken_in {X} (R R' : X -> X -> Prop) l : StronglySorted R l -> (forall a b, In a l -> In b l -> R a b -> R' a b) -> StronglySorted R' l.
Proof.
  induction 1 as [|x l S IH F]; intros H; constructor.
  - apply IH. intros a b Ia Ib. apply H; right; assumption.
  - rewrite Forall_forall in *. intros y Iy. apply H; [left; reflexivity|right; exact Iy|apply F, Iy].
Qed.
Lemma SS_all {X} (R : X -> X -> Prop) l : (forall a b, R a b) -> StronglySorted R l.
Proof. intros H. induction l as [|x l IH]; constructor; [exact IH|]. apply Forall_forall. intros y _. apply H. Qed.

Lemma rle_app_eqv {I} (phi : I -> string -> val) k1 k2 a b :
  (forall c, In c (map fst k1) -> v_eqv (phi a c) (phi b c) = true) -> rle phi (k1 ++ k2) a b = rle phi k2 a b.
Proof.
  induction k1 as [|[c d] k1 IH]; intros H; [reflexivity|]. cbn [app rle]. rewrite (H c) by (left; reflexivity).
  apply IH. intros c0 I0. apply H. right. exact I0.
Qed.
Lemma rle_prefix {I} (phi : I -> string -> val) k1 k2 a b : rle phi (k1 ++ k2) a b = true -> rle phi k1 a b = true.
Proof.
  induction k1 as [|[c d] k1 IH]; [reflexivity|]. cbn [app rle]. destruct (v_eqv (phi a c) (phi b c)); [exact IH|tauto].
Qed.

Lemma keys_eqv_each (ks : list string) (f g : string -> val) :
  keys_eqv (map f ks) (map g ks) = true -> forall c, In c ks -> v_eqv (f c) (g c) = true.
Proof.
  induction ks as [|k ks IH]; intros E c I; [contradiction|]. cbn [map keys_eqv] in E. apply andb_true_iff in E. destruct E as [E1 E2].
  destruct I as [<-|I]; [exact E1|apply IH; assumption].
Qed.

(* numbers: cumcount() + 1 *)
Lemma qn_plus_one n : num2 Qplus (qn (inject_Z (Z.of_nat n))) vone = qn (inject_Z (Z.of_nat (S n))).
Proof.
  unfold num2, qn, vone, vnat. cbn [num_of]. f_equal. apply Qred_complete. rewrite Qred_correct.
  unfold inject_Z, Qplus, Qeq. cbn [Qnum Qden]. rewrite Nat2Z.inj_succ. lia.
Qed.
Lemma nth_number_from (l : list val) : forall i j, (j < List.length l)%nat -> nth j (number_from i l) VNull = qn (inject_Z (Z.of_nat (i + j))).
Proof.
  induction l as [|x l IH]; intros i j L; simpl in L; [lia|]. destruct j as [|j]; simpl.
  - rewrite Nat.add_0_r. reflexivity.
  - rewrite IH by lia. f_equal. f_equal. f_equal. lia.
Qed.
Lemma number_from_length (l : list val) i : List.length (number_from i l) = List.length l.
Proof. revert i. induction l as [|x l IH]; intros i; simpl; [reflexivity|]. rewrite IH. reflexivity. Qed.

(* ------------------------------------------------------------------ the value of one window term *)
Lemma map_snd_tag_from (rs : list (list val)) : forall n, map snd (tag_from n rs) = rs.
Proof. induction rs as [|r rs IH]; intros n; simpl; [reflexivity|]. rewrite IH. reflexivity. Qed.

Section Term.
  Variables (t : table) (w : window).
  Let cs := cols t.
  Let T0 := tag_from 0 (rows t).
  Variable S : list (nat * list val).
  Hypothesis PS : Permutation S T0.
  Let samepart (r0 : list val) (it' : nat * list val) : bool := keys_eqv (key_of cs (w_part w) r0) (key_of cs (w_part w) (snd it')).
  Hypothesis Ssorted : forall r0, StronglySorted (fun a b : nat * list val => row_le fl_pandas cs (okeys_of w) (snd a) (snd b) = true) (filter (samepart r0) S).
  Definition Gof (r0 : list val) : list (nat * list val) := filter (samepart r0) S.

  Lemma NoDup_tags : NoDup (map fst S).
  Proof. eapply Permutation_NoDup; [apply Permutation_map, Permutation_sym, PS|]. unfold T0. rewrite tag_from_fst. apply seq_NoDup. Qed.

  Lemma Gof_perm r0 : Permutation (map snd (Gof r0)) (part_rows cs (w_part w) (rows t) r0).
  Proof.
    unfold Gof, part_rows, samepart.
    rewrite <- (filter_map_comm' snd (fun r2 => keys_eqv (key_of cs (w_part w) r0) (key_of cs (w_part w) r2)) S).
    apply perm_filter. rewrite <- (map_snd_tag_from (rows t) 0). apply Permutation_map, PS.
  Qed.

  Lemma Gof_sorted_part r0 : In r0 (rows t) -> window_total fl_pandas cs w (rows t) ->
    map snd (Gof r0) = sorted_part fl_pandas cs w (rows t) r0.
  Proof.
    intros Ir G. destruct (G r0 Ir) as [Nd Tot]. unfold sorted_part.
    apply (sorted_perm_unique (row_le fl_pandas cs (okeys_of w))).
    - apply (sorted_transfer (fun (it : nat * list val) (r1 : list val) => snd it = r1)
                             (fun a b : nat * list val => row_le fl_pandas cs (okeys_of w) (snd a) (snd b))
                             (row_le fl_pandas cs (okeys_of w)) (Gof r0) (map snd (Gof r0))).
      + intros a a' b b' Ea Eb. rewrite <- Ea, <- Eb. reflexivity.
      + generalize (Gof r0). intros l0. induction l0 as [|x l0 IH]; simpl; constructor; [reflexivity|exact IH].
      + apply (Ssorted r0).
    - apply stable_sort_sorted; [intros; apply row_le_total|intros; eapply row_le_trans; eassumption].
    - eapply perm_trans; [apply Gof_perm|]. apply Permutation_sym, stable_sort_perm.
    - intros a b Ia Ib. apply Tot; eapply Permutation_in; try eassumption; apply Gof_perm.
  Qed.

  (* the looked-up value of a term at the row with tag i, against the reference value at row i *)
  Lemma term_value fn extra (V : nat * list val -> val) (arg : option expr) i r :
    In (i, r) S ->
    (forall l : list (nat * list val), win_fn fl_pandas fn extra (map V l) = win_fn fl_pandas fn extra (map (arg_val fl_pandas cs arg) (map snd l))) ->
    (order_sensitive fn = true -> window_total fl_pandas cs w (rows t)) ->
    forall j', nth_error (sorted_part fl_pandas cs w (rows t) r) j' = Some r ->
    lookup_pos (combine (map fst (Gof r)) (win_fn fl_pandas fn extra (map V (Gof r)))) i
    = nth j' (win_fn fl_pandas fn extra (map (arg_val fl_pandas cs arg) (sorted_part fl_pandas cs w (rows t) r))) VNull.
  Proof.
    intros Ii HV Gd j' Hj'.
    assert (In r (rows t)) as Ir.
    { apply (Permutation_in _ PS) in Ii. unfold T0 in Ii. apply tag_from_In in Ii. exact Ii. }
    assert (In (i, r) (Gof r)) as IG by (apply filter_In; split; [exact Ii|unfold samepart; apply keys_eqv_refl]).
    destruct (In_nth_error _ _ IG) as [rank Hrank].
    rewrite (lookup_combine (Gof r) _ i rank r (NoDup_map_fst_filter _ _ NoDup_tags) Hrank).
    rewrite (HV (Gof r)). destruct (order_sensitive fn) eqn:Os.
    - (* order-sensitive: the group IS the ordered partition of the reference semantics *)
      pose proof (Gd eq_refl) as G. rewrite (Gof_sorted_part r Ir G). f_equal.
      destruct (G r Ir) as [Nd _].
      assert (NoDup (sorted_part fl_pandas cs w (rows t) r)) as NdS.
      { unfold sorted_part. eapply Permutation_NoDup; [apply Permutation_sym, stable_sort_perm|exact Nd]. }
      apply (proj1 (NoDup_nth_error _) NdS); [apply nth_error_Some; rewrite <- (Gof_sorted_part r Ir G), (map_nth_error snd _ _ Hrank); discriminate|].
      rewrite Hj', <- (Gof_sorted_part r Ir G). apply (map_nth_error snd _ _ Hrank).
    - (* a group aggregate: one value for the whole group, whatever its order *)
      rewrite !(win_fn_broadcast fl_pandas fn extra _ Os).
      assert (Permutation (map snd (Gof r)) (sorted_part fl_pandas cs w (rows t) r)) as Pg.
      { eapply perm_trans; [apply Gof_perm|]. unfold sorted_part. apply Permutation_sym, stable_sort_perm. }
      rewrite (nth_map_const _ _ rank) by (rewrite map_length, map_length; apply nth_error_Some; congruence).
      rewrite (nth_map_const _ _ j') by (rewrite map_length; apply nth_error_Some; congruence).
      apply agg_fn_perm, Permutation_map, Pg.
  Qed.
End Term.

(* ------------------------------------------------------------------ small facts used by the assembly *)
Lemma py_set_nodup (l : list string) : NoDup l -> py_set l = l.
Proof.
  unfold py_set. assert (forall acc, NoDup (acc ++ l) -> fold_left add_end l acc = acc ++ l) as H.
  { induction l as [|x l IH]; intros acc N; simpl; [rewrite app_nil_r; reflexivity|].
    assert (~ In x acc) as Nx. { intros I. apply NoDup_remove_2 in N. apply N. apply in_app_iff. left. exact I. }
    rewrite (add_end_new _ _ Nx). rewrite IH; [rewrite <- app_assoc; reflexivity|]. rewrite <- app_assoc. exact N. }
  intros N. apply (H [] N).
Qed.
Lemma fold_add_end_nodup (a b : list string) : NoDup (a ++ b) -> fold_left add_end b a = a ++ b.
Proof.
  revert a. induction b as [|x b IH]; intros a N; simpl; [rewrite app_nil_r; reflexivity|].
  assert (~ In x a) as Nx. { intros I. apply NoDup_remove_2 in N. apply N. apply in_app_iff. left. exact I. }
  rewrite (add_end_new _ _ Nx). rewrite IH; [rewrite <- app_assoc; reflexivity|]. rewrite <- app_assoc. exact N.
Qed.
Lemma NoDup_app_l' {X} (l m : list X) : NoDup (l ++ m) -> NoDup l.
Proof. induction l as [|x l IH]; simpl; intros N; [constructor|]. inversion N as [|? ? Nx Nl]; subst. constructor; [|apply IH, Nl]. intros I. apply Nx, in_app_iff. left. exact I. Qed.

Lemma get_map_fst {X} (H : string * X -> val) (l : list (string * X)) ke :
  NoDup (map fst l) -> In ke l -> get (map fst l) (map H l) (fst ke) = H ke.
Proof.
  induction l as [|x l IH]; intros N I; [contradiction|]. cbn [map] in *. inversion N as [|? ? Nx Nl]; subst. destruct I as [->|I].
  - apply get_cons_same.
  - rewrite get_cons_other; [apply IH; assumption|]. intros E. apply Nx. rewrite <- E. apply in_map. exact I.
Qed.

Lemma vnat_cmp i j : (if v_eqv (vnat i) (vnat j) then true else v_le_dir (nulls_first fl_pandas false) false (vnat i) (vnat j)) = Nat.leb i j.
Proof.
  unfold vnat, v_eqv, v_le_dir, v_le, nulls_first. cbn [num_of f_nulls_first_asc fl_pandas].
  destruct (Qeq_bool (inject_Z (Z.of_nat i)) (inject_Z (Z.of_nat j))) eqn:E.
  - apply Qeq_bool_iff in E. unfold Qeq, inject_Z in E. cbn [Qnum Qden] in E. symmetry. apply Nat.leb_le. lia.
  - destruct (Qle_bool (inject_Z (Z.of_nat i)) (inject_Z (Z.of_nat j))) eqn:L.
    + apply Qle_bool_iff in L. unfold Qle, inject_Z in L. cbn [Qnum Qden] in L. symmetry. apply Nat.leb_le. lia.
    + symmetry. apply Nat.leb_gt. destruct (Nat.lt_ge_cases j i) as [H|H]; [exact H|]. exfalso.
      assert (Qle_bool (inject_Z (Z.of_nat i)) (inject_Z (Z.of_nat j)) = true) as T; [|congruence].
      apply Qle_bool_iff. unfold Qle, inject_Z. cbn [Qnum Qden]. lia.
Qed.

Lemma tag_from_sorted (rs : list (list val)) : forall n, StronglySorted (fun a b : nat * list val => Nat.leb (fst a) (fst b) = true) (tag_from n rs).
Proof.
  induction rs as [|r rs IH]; intros n; simpl; constructor; [apply IH|].
  apply Forall_forall. intros [i0 r0] I. apply tag_from_In_nth in I. destruct I as [j [E _]]. cbn [fst]. apply Nat.leb_le. lia.
Qed.

(* ------------------------------------------------------------------ the loop over the window terms *)
Section Apply.
  Variables (cs : list string) (S : list (nat * list val)) (K : nat * list val -> list val) (standin : string).
  Hypothesis NdS : NoDup (map fst S).

  Definition lk (f : list val -> list val) (V : nat * list val -> val) (it : nat * list val) : val :=
    let G := filter (fun it' => keys_eqv (K it) (K it')) S in lookup_pos (combine (map fst G) (f (map V G))) (fst it).

  Definition OUT (ke : string * expr) (it : nat * list val) : val :=
    match win_shape (snd ke) with
    | Some (fn, None, _) =>
        match strip_underscore fn with
        | Some z => if String.eqb z "row_number" || String.eqb z "count"
                    then num2 Qplus (lk (number_from 0) (fun _ => VNull) it) vone
                    else lk (win_fn fl_pandas (transform_op_map z) []) (fun _ => vone) it
        | None => VNull
        end
    | Some (fn, Some (WCol c), ex) => lk (win_fn fl_pandas (transform_op_map fn) ex) (fun it' => get cs (snd it') c) it
    | _ => VNull
    end.

  Lemma transform_lookup fn ex (V : nat * list val -> val) vs :
    pd_grouped_transform (map K S) (map V S) fn ex = Some vs -> vs = map (lk (win_fn fl_pandas fn ex) V) S.
  Proof.
    unfold pd_grouped_transform. destruct (_ && _); [|discriminate]. intros H. inversion H. apply grouped_apply_lookup, NdS.
  Qed.

  Lemma wapply_step sub phi ke sub' :
    descr sub S phi ->
    (In standin (cols sub) /\ forall it, In it S -> phi it standin = vone) ->
    (forall fn c ex, win_shape (snd ke) = Some (fn, Some (WCol c), ex) -> In c (cols sub) /\ forall it, In it S -> phi it c = get cs (snd it) c) ->
    wapply (map K S) standin [] sub ke = Some sub' ->
    descr sub' S (fun it x => if eq_dec x (fst ke) then OUT ke it else phi it x) /\ cols sub' = add_end (cols sub) (fst ke).
  Proof.
    intros D [Ist Hst] Hc. unfold wapply, OUT. destruct (win_shape (snd ke)) as [[[fn [[c|v]|]] ex]|] eqn:Ew; try discriminate.
    - (* fn(column, literals) *)
      destruct (Hc fn c ex eq_refl) as [Ic Hcv]. unfold pd_col. apply mem_In in Ic as Mc. rewrite Mc. cbn [obind].
      rewrite (descr_getcol _ _ _ c D (proj1 (mem_In _ _) Mc)).
      rewrite (map_ext_in _ (fun it => get cs (snd it) c)) by (intros it I; apply Hcv, I).
      destruct (pd_grouped_transform _ _ _ _) as [vs|] eqn:Et; cbn [obind]; [|discriminate].
      rewrite (transform_lookup _ _ _ _ Et). intros H. apply (descr_set_col _ _ _ _ _ _ D H).
    - (* fn() *)
      destruct (strip_underscore fn) as [z|]; cbn [obind]; [|discriminate].
      destruct (String.eqb z "row_number" || String.eqb z "count").
      + unfold pd_grouped_cumcount. rewrite (map_map K (fun _ => VNull)).
        rewrite (grouped_apply_lookup (number_from 0) K (fun _ => VNull) S NdS). rewrite map_map.
        intros H. apply (descr_set_col _ (fun it => num2 Qplus (lk (number_from 0) (fun _ => VNull) it) vone) _ _ _ _ D H).
      + destruct (String.eqb z "ngroup"); [discriminate|]. destruct (String.eqb z "size") eqn:Ez; [|discriminate].
        unfold pd_col. apply mem_In in Ist as Ms. rewrite Ms. cbn [obind].
        rewrite (descr_getcol _ _ _ standin D Ist). rewrite (map_ext_in _ (fun _ => vone)) by (intros it I; apply Hst, I).
        destruct (pd_grouped_transform _ _ _ _) as [vs|] eqn:Et; cbn [obind]; [|discriminate].
        rewrite (transform_lookup _ _ _ _ Et). intros H. apply (descr_set_col _ _ _ _ _ _ D H).
  Qed.

  Fixpoint out_of (ops : list (string * expr)) (x : string) : option (string * expr) :=
    match ops with [] => None | ke :: t => if String.eqb (fst ke) x then Some ke else out_of t x end.

  Lemma wapply_fold ops keysall : forall sub phi sub',
    NoDup (map fst ops) -> (forall k, In k (map fst ops) -> In k keysall) ->
    descr sub S phi ->
    (In standin (cols sub) /\ ~ In standin keysall /\ forall it, In it S -> phi it standin = vone) ->
    (forall ke fn c ex, In ke ops -> win_shape (snd ke) = Some (fn, Some (WCol c), ex) ->
        (~ In c keysall \/ c = fst ke) /\ In c (cols sub) /\ forall it, In it S -> phi it c = get cs (snd it) c) ->
    fold_left (fun acc ke => s <- acc ;; wapply (map K S) standin [] s ke) ops (Some sub) = Some sub' ->
    descr sub' S (fun it x => match out_of ops x with Some ke => OUT ke it | None => phi it x end)
    /\ cols sub' = fold_left add_end (map fst ops) (cols sub).
  Proof.
    induction ops as [|ke ops IH]; intros sub phi sub' Nd Sub D Hst Hc H.
    - simpl in H. inversion H; subst. split; [|reflexivity]. eapply descr_weaken; [exact D|]. intros it x _ _. reflexivity.
    - cbn [fold_left obind] in H. destruct (wapply (map K S) standin [] sub ke) as [sub1|] eqn:E1.
      2:{ exfalso. clear -H. induction ops as [|k o IHo]; simpl in H; [discriminate|apply IHo, H]. }
      cbn [map] in Nd. inversion Nd as [|? ? Nk Nt]; subst.
      destruct Hst as [Ist [Nst Hst]].
      destruct (wapply_step sub phi ke sub1 D (conj Ist Hst)) as [D1 C1].
      { intros fn c ex Ew. destruct (Hc ke fn c ex (or_introl eq_refl) Ew) as [_ [Ic Hv]]. split; assumption. }
      { exact E1. }
      destruct (IH sub1 _ sub' Nt (fun k I => Sub k (or_intror I)) D1) as [D' C'].
      + split; [rewrite C1; apply In_add_end; left; exact Ist|]. split; [exact Nst|]. intros it I.
        destruct (eq_dec standin (fst ke)) as [E|_]; [exfalso; apply Nst, Sub; left; symmetry; exact E|]. apply Hst, I.
      + intros ke2 fn c ex I2 Ew. destruct (Hc ke2 fn c ex (or_intror I2) Ew) as [Hk [Ic Hv]]. split; [exact Hk|]. split; [rewrite C1; apply In_add_end; left; exact Ic|].
        intros it I. destruct (eq_dec c (fst ke)) as [E|_]; [|apply Hv, I].
        exfalso. destruct Hk as [Hk|Hk].
        * apply Hk, Sub. left. symmetry. exact E.
        * apply Nk. rewrite <- E, Hk. apply in_map, I2.
      + exact H.
      + split; [|rewrite C', C1; reflexivity]. eapply descr_weaken; [exact D'|]. intros it x _ _. cbn [out_of].
        destruct (String.eqb (fst ke) x) eqn:Ex.
        * apply String.eqb_eq in Ex. subst x. replace (out_of ops (fst ke)) with (@None (string * expr)).
          -- destruct (eq_dec (fst ke) (fst ke)); [reflexivity|congruence].
          -- symmetry. clear -Nk. induction ops as [|k o IHo]; [reflexivity|]. cbn [out_of]. destruct (String.eqb (fst k) (fst ke)) eqn:E.
             ++ exfalso. apply Nk. apply String.eqb_eq in E. rewrite <- E. left. reflexivity.
             ++ apply IHo. intros I. apply Nk. right. exact I.
        * destruct (out_of ops x); [reflexivity|]. destruct (eq_dec x (fst ke)) as [E|_]; [|reflexivity].
          exfalso. rewrite E, String.eqb_refl in Ex. discriminate.
  Qed.
End Apply.

(* ------------------------------------------------------------------ a window term of the executor against the reference *)
Lemma all_consts_flat rest ex : all_consts rest = Some ex -> flat_map (fun x => match x with EConst v => [v] | _ => [] end) rest = ex.
Proof.
  revert ex. induction rest as [|a rest IH]; intros ex H; simpl in H; [inversion H; reflexivity|].
  destruct a as [c|v|o args]; try discriminate. destruct (all_consts rest) as [ex'|]; [|discriminate]. inversion H; subst. simpl. rewrite (IH ex' eq_refl). reflexivity.
Qed.
Lemma number_from_ext (l l' : list val) i : List.length l = List.length l' -> number_from i l = number_from i l'.
Proof. revert l' i. induction l as [|x l IH]; intros [|y l'] i L; simpl in *; try discriminate; [reflexivity|]. f_equal. apply IH. lia. Qed.
Lemma strip_underscore_inv fn z : strip_underscore fn = Some z -> fn = String "_" z.
Proof.
  unfold strip_underscore. destruct fn as [|a fn]; [discriminate|]. destruct fn as [|b fn]; [destruct a as [[] [] [] [] [] [] [] []]; discriminate|].
  destruct a as [[] [] [] [] [] [] [] []]; try discriminate. intros H. inversion H. reflexivity.
Qed.

Section Final.
  Variables (t : table) (w : window) (S : list (nat * list val)) (K : nat * list val -> list val).
  Let cs := cols t.
  Hypothesis PS : Permutation S (tag_from 0 (rows t)).
  Hypothesis Ssorted : forall r0, StronglySorted (fun a b : nat * list val => row_le fl_pandas cs (okeys_of w) (snd a) (snd b) = true)
                                    (filter (fun it' => keys_eqv (key_of cs (w_part w) r0) (key_of cs (w_part w) (snd it'))) S).
  Hypothesis HK : forall it it', keys_eqv (K it) (K it') = keys_eqv (key_of cs (w_part w) (snd it)) (key_of cs (w_part w) (snd it')).

  Lemma lk_Gof f V it : lk S K f V it = lookup_pos (combine (map fst (Gof t w S (snd it))) (f (map V (Gof t w S (snd it))))) (fst it).
  Proof. unfold lk, Gof. rewrite (filter_ext _ (fun it' => keys_eqv (key_of cs (w_part w) (snd it)) (key_of cs (w_part w) (snd it')))) by (intros it'; apply HK). reflexivity. Qed.

  Lemma out_value keys ke i r :
    win_ok_b cs keys ke = true -> In (i, r) S -> nth_error (rows t) i = Some r ->
    (expr_order_sensitive (snd ke) = true -> window_total fl_pandas cs w (rows t)) ->
    (match win_shape (snd ke) with Some (fn, None, _) => exists z, strip_underscore fn = Some z /\ (z = "row_number" \/ z = "count" \/ z = "size") | _ => True end) ->
    OUT cs S K ke (i, r) = lookup_pos (window_column fl_pandas w t (snd ke)) i.
  Proof.
    intros Ok Ii Hi Gd Hz. unfold OUT. unfold win_ok_b in Ok. destruct (snd ke) as [c0|v0|fn args] eqn:Ee; try discriminate.
    destruct args as [|a rest].
    - (* fn() *)
      cbn [win_shape] in *. destruct Hz as [z [Ez Hz]]. rewrite Ez. apply strip_underscore_inv in Ez.
      destruct (window_value_at fl_pandas w t (EOp fn []) fn None [] i r eq_refl Hi) as [j' [Hj' Ev]]. rewrite Ev. clear Ev.
      unfold expr_order_sensitive in Gd. cbn [win_parts] in Gd.
      assert (j' < List.length (sorted_part fl_pandas (cols t) w (rows t) r))%nat as Lj by (apply nth_error_Some; congruence).
      destruct Hz as [-> | [-> | ->]]; subst fn; cbn [String.eqb orb Ascii.eqb Bool.eqb andb].
      + rewrite lk_Gof. cbn [fst snd]. change (number_from 0) with (win_fn fl_pandas "cumcount" []).
        assert (forall l : list (nat * list val), win_fn fl_pandas "cumcount" [] (map (fun _ => VNull) l)
                  = win_fn fl_pandas "cumcount" [] (map (arg_val fl_pandas (cols t) None) (map snd l))) as HV
          by (intros l; change (win_fn fl_pandas "cumcount" []) with (number_from 0); apply number_from_ext; rewrite !map_length; reflexivity).
        rewrite (term_value t w S PS Ssorted "cumcount" [] (fun _ => VNull) None i r Ii HV (fun _ => Gd eq_refl) j' Hj').
        change (win_fn fl_pandas "cumcount" []) with (number_from 0). change (win_fn fl_pandas "_row_number" []) with (number_from 1).
        rewrite !nth_number_from by (rewrite map_length; exact Lj). cbn [Nat.add]. apply qn_plus_one.
      + rewrite lk_Gof. cbn [fst snd]. change (number_from 0) with (win_fn fl_pandas "cumcount" []).
        assert (forall l : list (nat * list val), win_fn fl_pandas "cumcount" [] (map (fun _ => VNull) l)
                  = win_fn fl_pandas "cumcount" [] (map (arg_val fl_pandas (cols t) None) (map snd l))) as HV
          by (intros l; change (win_fn fl_pandas "cumcount" []) with (number_from 0); apply number_from_ext; rewrite !map_length; reflexivity).
        rewrite (term_value t w S PS Ssorted "cumcount" [] (fun _ => VNull) None i r Ii HV (fun _ => Gd eq_refl) j' Hj').
        change (win_fn fl_pandas "cumcount" []) with (number_from 0). change (win_fn fl_pandas "_count" []) with (number_from 1).
        rewrite !nth_number_from by (rewrite map_length; exact Lj). cbn [Nat.add]. apply qn_plus_one.
      + rewrite lk_Gof. cbn [fst snd transform_op_map String.eqb Ascii.eqb Bool.eqb].
        assert (forall l : list (nat * list val), win_fn fl_pandas "size" [] (map (fun _ => vone) l)
                  = win_fn fl_pandas "size" [] (map (arg_val fl_pandas (cols t) None) (map snd l))) as HV
          by (intros l; rewrite !(win_fn_broadcast fl_pandas "size" [] _ eq_refl), !map_map;
              assert (agg_fn fl_pandas "size" (map (fun _ : nat * list val => vone) l)
                      = agg_fn fl_pandas "size" (map (fun x : nat * list val => arg_val fl_pandas (cols t) None (snd x)) l)) as ->;
              [destruct l; [reflexivity|cbn; rewrite !map_length; reflexivity]|reflexivity]).
        rewrite (term_value t w S PS Ssorted "size" [] (fun _ => vone) None i r Ii HV (fun C => False_ind _ (Bool.diff_false_true C)) j' Hj'). reflexivity.
    - (* fn(column, literals) *)
      destruct a as [c|v|o args']; try discriminate; cbn [win_shape] in *;
        [|destruct (all_consts rest); cbn [option_map] in Ok; discriminate Ok].
      destruct (all_consts rest) as [ex|] eqn:Ea; cbn [option_map] in *; [|discriminate].
      apply andb_true_iff in Ok. destruct Ok as [_ Nav]. apply negb_true_iff in Nav.
      unfold transform_op_map. rewrite Nav.
      destruct (window_value_at fl_pandas w t (EOp fn (ECol c :: rest)) fn (Some (ECol c)) ex i r) as [j' [Hj' Ev]];
        [cbn [win_parts]; rewrite (all_consts_flat _ _ Ea); reflexivity|exact Hi|]. rewrite Ev. clear Ev.
      rewrite lk_Gof. cbn [fst snd]. apply (term_value t w S PS Ssorted fn ex _ (Some (ECol c)) i r Ii).
      + intros l. rewrite map_map. reflexivity.
      + intros Os. apply Gd. unfold expr_order_sensitive. cbn [win_parts]. exact Os.
      + exact Hj'.
  Qed.
End Final.

(* ------------------------------------------------------------------ the windowed branch of _extend_step *)
Lemma descr_tagged t : width_ok t -> descr t (tag_from 0 (rows t)) (fun it x => get (cols t) (snd it) x).
Proof.
  intros W. split; [exact W|]. generalize 0%nat. induction (rows t) as [|r rs IH]; intros n; simpl; constructor; [|apply IH].
  intros x _. reflexivity.
Qed.

Lemma sem_wextend_get ops w t i r c :
  width_ok t -> NoDup (map fst ops) -> nth_error (rows t) i = Some r ->
  exists row, nth_error (rows (sem_wextend fl_pandas ops w t)) i = Some row /\
    get (cols (sem_wextend fl_pandas ops w t)) row c
    = match out_of ops c with Some ke => lookup_pos (window_column fl_pandas w t (snd ke)) i | None => get (cols t) r c end.
Proof.
  intros W N Hi. unfold sem_wextend. cbn [cols rows].
  pose proof (tag_from_nth_error 0 _ _ _ Hi) as Ht. cbn [Nat.add] in Ht.
  eexists. split; [apply map_nth_error, Ht|]. cbn [fst snd].
  set (wcols := map (fun ke : string * expr => (fst ke, window_column fl_pandas w t (snd ke))) ops).
  assert (List.length r = List.length (cols t)) as Lr by (unfold width_ok in W; rewrite Forall_forall in W; apply W; eapply nth_error_In; exact Hi).
  set (F := fun kc : string * list (nat * val) => lookup_pos (snd kc) i).
  assert (ext_cols (cols t) (map fst ops) = ext_cols (cols t) (map fst wcols)) as Ec by (unfold wcols; rewrite map_map; reflexivity).
  transitivity (match last_assign F wcols c with Some v => v | None => get (cols t) r c end).
  { destruct (fold_cells_inv F wcols r (cols t) Lr) as [_ H2]. rewrite Ec, <- H2. apply (fold_get F wcols r (cols t) c Lr). }
  assert (NoDup (map fst wcols)) as Nw by (unfold wcols; rewrite map_map; exact N).
  rewrite (last_assign_nodup F wcols c Nw).
  unfold wcols. rewrite !map_map. cbn [fst snd]. clear -N.
  induction ops as [|ke ops IH]; cbn [map mem out_of]; [reflexivity|].
  inversion N as [|? ? Nk Nt]; subst. destruct (eq_dec c (fst ke)) as [->|n].
  - rewrite String.eqb_refl. rewrite get_cons_same. reflexivity.
  - replace (String.eqb (fst ke) c) with false by (symmetry; apply String.eqb_neq; congruence).
    rewrite (get_cons_other _ _ _ _ _ n). apply IH, Nt.
Qed.

Lemma sort_keys_asc (vcl rev : list string) :
  pd_sort_keys (map (fun c => (c, negb (mem c rev))) vcl) = map (fun c => (c, mem c rev)) vcl.
Proof. unfold pd_sort_keys. rewrite map_map. apply map_ext. intros c. cbn [fst snd]. rewrite negb_involutive. reflexivity. Qed.

Lemma disjointb_not_in (a b : list string) x : disjointb a b = true -> In x b -> ~ In x a.
Proof. intros D Ib Ia. apply (proj1 (disjointb_spec _ _) D x Ia Ib). Qed.

Lemma Forall2_of_nth {A B} (R : A -> B -> Prop) (l : list A) (m : list B) :
  List.length l = List.length m -> (forall i a b, nth_error l i = Some a -> nth_error m i = Some b -> R a b) -> Forall2 R l m.
Proof.
  revert m. induction l as [|a l IH]; intros [|b m] L H; simpl in L; try discriminate; constructor.
  - apply (H 0%nat); reflexivity.
  - apply IH; [lia|]. intros i a0 b0 Ha Hb. apply (H (S i)); assumption.
Qed.
Lemma Forall2_nth_error' {A B} (R : A -> B -> Prop) l l' i a : Forall2 R l l' -> nth_error l i = Some a -> exists a', nth_error l' i = Some a' /\ R a a'.
Proof.
  intros F. revert i. induction F as [|x y l l' Rxy F IH]; intros [|i] H; simpl in *; try discriminate.
  - inversion H; subst. exists y. split; [reflexivity|exact Rxy].
  - apply IH, H.
Qed.
Lemma out_of_Some ops c ke : out_of ops c = Some ke -> In ke ops /\ fst ke = c.
Proof.
  induction ops as [|k o IH]; cbn [out_of]; [discriminate|]. destruct (String.eqb (fst k) c) eqn:E.
  - intros H. inversion H; subst. split; [left; reflexivity|apply String.eqb_eq, E].
  - intros H. destruct (IH H). split; [right; assumption|assumption].
Qed.
Lemma out_of_None ops c : out_of ops c = None <-> ~ In c (map fst ops).
Proof.
  induction ops as [|k o IH]; cbn [out_of map]; [split; [intros _ []|reflexivity]|]. destruct (String.eqb (fst k) c) eqn:E.
  - split; [discriminate|]. intros N. exfalso. apply N. left. apply String.eqb_eq, E.
  - rewrite IH. apply String.eqb_neq in E. split; [intros N [I|I]; [congruence|exact (N I)]|intros N I; apply N; right; exact I].
Qed.
Lemma win_ok_b_same_set cs cs' keys ke : same_set cs cs' -> win_ok_b cs keys ke = win_ok_b cs' keys ke.
Proof. intros S. unfold win_ok_b. destruct (win_shape (snd ke)) as [[[fn [[c|v]|]] ex]|]; try reflexivity. rewrite (mem_same_set _ _ c S). reflexivity. Qed.
Lemma nth_error_combine {A B} (l : list A) (m : list B) i a b : nth_error l i = Some a -> nth_error m i = Some b -> nth_error (combine l m) i = Some (a, b).
Proof. revert m i. induction l as [|x l IH]; intros [|y m] [|i] Ha Hb; simpl in *; try discriminate; [inversion Ha; inversion Hb; reflexivity|apply IH; assumption]. Qed.

Theorem px_extend_windowed_eqv srt ops w t x cs0 :
  sorter_ok srt -> width_ok t -> same_set (cols t) cs0 -> (0 < nrows t)%nat ->
  nodup_names (map fst ops) = true -> ops <> [] ->
  disjointb (map fst ops) (w_part w ++ w_order w) = true -> subset (w_part w ++ w_order w) cs0 = true ->
  nodup_names (w_part w ++ w_order w) = true ->
  forallb (win_ok_b cs0 (map fst ops)) ops = true ->
  px_extend_windowed srt ops w t = Some x ->
  width_ok x /\ same_set (cols x) (ext_cols (cols t) (map fst ops)) /\
  ((ops_order_sensitive ops = true -> window_total fl_pandas (cols t) w (rows t)) -> tab_eqv x (sem_wextend fl_pandas ops w t)).
Proof.
  intros So Wt Sc Pn Nk0 Nops Dj Sb Npo0 Ok. unfold px_extend_windowed.
  set (keys := map fst ops) in *. set (names0 := set_union (cols t) keys).
  set (standin := unused_column_name base_standin names0). set (names1 := names0 ++ [standin]).
  set (orig := unused_column_name base_orig_index names1). set (names2 := names1 ++ [orig]).
  pose proof (unused_column_name_fresh base_standin names0) as Fst. fold standin in Fst.
  pose proof (unused_column_name_fresh base_orig_index names1) as For. fold orig in For.
  clearbody standin orig.
  assert (NoDup keys) as Nk by (apply nodup_names_sound; exact Nk0).
  assert (NoDup (w_part w ++ w_order w)) as Npo by (apply nodup_names_sound; exact Npo0).
  assert (forall c, In c (cols t) -> In c names0) as In0 by (intros c I; apply In_set_union; left; exact I).
  assert (forall c, In c keys -> In c names0) as Ik0 by (intros c I; apply In_set_union; right; exact I).
  assert (orig <> standin) as Nos by (intros E; apply For, in_app_iff; right; left; symmetry; exact E).
  assert (~ In orig names0) as For0 by (intros I; apply For, in_app_iff; left; exact I).
  (* the sub-frame's columns *)
  set (cl0 := fold_left add_end (w_order w) (py_set (w_part w))).
  assert (cl0 = w_part w ++ w_order w) as Ecl0.
  { unfold cl0. rewrite (py_set_nodup _ (NoDup_app_l' _ _ Npo)). apply fold_add_end_nodup, Npo. }
  destruct (fold_left _ ops (Some (mkws cl0 [] names2 t))) as [st|] eqn:Ew; cbn [obind]; [|discriminate].
  rewrite (wcollect_fold cs0 keys ops cl0 names2 t st Ok Ew). cbn [ws_cols ws_res ws_temps]. clear Ew st.
  set (vcl := fold_left vcols_step ops cl0).
  destruct (vcols_prefix ops cl0) as [extra Evcl]. fold vcl in Evcl.
  assert (forall c, In c vcl -> In c (cols t)) as Vin.
  { intros c Ic. apply vcols_In in Ic. destruct Ic as [Ic|[ke [fn [ex [Ike Esh]]]]].
    - apply Sc. rewrite Ecl0 in Ic. apply (proj1 (subset_spec _ _) Sb), Ic.
    - apply Sc. apply (proj1 (forallb_forall _ _) Ok) in Ike. unfold win_ok_b in Ike. rewrite Esh in Ike.
      apply andb_true_iff in Ike. destruct Ike as [Ike _]. apply andb_true_iff in Ike. destruct Ike as [Ike _]. apply mem_In, Ike. }
  (* sub-frame: the selected columns and the original index *)
  set (T0 := tag_from 0 (rows t)). set (phi0 := fun (it : nat * list val) (c : string) => get (cols t) (snd it) c).
  pose proof (descr_tagged t Wt) as D0. fold T0 phi0 in D0.
  destruct (pd_select vcl t) as [sub0|] eqn:E0; cbn [obind]; [|discriminate].
  destruct (descr_select _ _ _ _ _ D0 E0) as [Ds0 Cs0]. unfold clean_copy, pd_reset_index.
  assert (pd_range_index sub0 = map (fun it : nat * list val => vnat (fst it)) T0) as Er.
  { unfold pd_range_index, nrows. rewrite (descr_len _ _ _ Ds0). unfold T0. rewrite tag_from_length, <- (map_map fst vnat), tag_from_fst. reflexivity. }
  rewrite Er. destruct (pd_set_col orig _ sub0) as [sub1|] eqn:E1; cbn [obind]; [|discriminate].
  destruct (descr_set_col _ _ _ _ _ _ Ds0 E1) as [Ds1 Cs1]. rewrite Cs0 in Cs1.
  assert (~ In orig vcl) as Nov by (intros I; apply For0, In0, Vin, I).
  rewrite (add_end_new _ _ Nov) in Cs1.
  set (phi1 := fun (it : nat * list val) (x0 : string) => if eq_dec x0 orig then vnat (fst it) else phi0 it x0) in *.
  (* the sort by partition, order and value columns *)
  set (okeys := okeys_of w).
  destruct (if Nat.ltb 0 (List.length cl0) then _ else _) as [sub2|] eqn:E2; cbn [obind]; [|discriminate].
  assert (exists S, Permutation S T0 /\ descr sub2 S phi1 /\ cols sub2 = vcl ++ [orig] /\
            forall r0, StronglySorted (fun a b : nat * list val => row_le fl_pandas (cols t) okeys (snd a) (snd b) = true)
                         (filter (fun it' => keys_eqv (key_of (cols t) (w_part w) r0) (key_of (cols t) (w_part w) (snd it'))) S)) as [S [PS [Ds2 [Cs2 SSp]]]].
  { destruct (Nat.ltb 0 (List.length cl0)) eqn:El.
    - destruct (pd_sort_values_with srt _ sub1) as [sub2'|] eqn:Es; cbn [option_map] in E2; [|discriminate]. inversion E2; subst sub2'. clear E2.
      destruct (descr_sort srt _ _ _ _ _ So Ds1 Es) as [S [PS [SS [Ds2 Cs2]]]]. exists S. split; [exact PS|]. split; [exact Ds2|]. split; [rewrite Cs2; exact Cs1|].
      rewrite sort_keys_asc in SS. intros r0. apply SS_filter with (P := fun it' => keys_eqv (key_of (cols t) (w_part w) r0) (key_of (cols t) (w_part w) (snd it'))) in SS.
      eapply SS_weaken_in; [exact SS|]. intros a b Ia Ib Hab. apply filter_In in Ia. apply filter_In in Ib. destruct Ia as [_ Pa]. destruct Ib as [_ Pb].
      (* inside one partition the comparison on (partition, order, value) columns reduces to the order columns *)
      rewrite Evcl, Ecl0, <- app_assoc, !map_app in Hab.
      assert (forall c, In c (w_part w ++ w_order w) -> c <> orig) as Npo_orig.
      { intros c Ic ->. apply For0, In0, Sc. apply (proj1 (subset_spec _ _) Sb), Ic. }
      rewrite rle_app_eqv in Hab.
      2:{ intros c Ic. rewrite map_map in Ic. cbn [fst] in Ic. rewrite map_id in Ic. unfold phi1.
          destruct (eq_dec c orig) as [E|_]; [exfalso; apply (Npo_orig c); [apply in_app_iff; left; exact Ic|exact E]|].
          unfold phi0. apply (keys_eqv_each (w_part w) (get (cols t) (snd a)) (get (cols t) (snd b))); [|exact Ic].
          unfold key_of in Pa, Pb. rewrite keys_eqv_sym in Pa. apply (keys_eqv_trans _ _ _ Pa Pb). }
      apply rle_prefix in Hab. rewrite <- Hab. unfold okeys, okeys_of. apply row_le_rle.
      + intros c Ic. rewrite map_map in Ic. cbn [fst] in Ic. rewrite map_id in Ic. unfold phi1, phi0.
        destruct (eq_dec c orig) as [E|_]; [exfalso; apply (Npo_orig c); [apply in_app_iff; right; exact Ic|exact E]|reflexivity].
      + intros c Ic. rewrite map_map in Ic. cbn [fst] in Ic. rewrite map_id in Ic. unfold phi1, phi0.
        destruct (eq_dec c orig) as [E|_]; [exfalso; apply (Npo_orig c); [apply in_app_iff; right; exact Ic|exact E]|reflexivity].
    - inversion E2; subst sub2. exists T0. split; [apply Permutation_refl|]. split; [exact Ds1|]. split; [exact Cs1|].
      intros r0. apply Nat.ltb_ge in El. assert (cl0 = []) as Ecl by (apply length_zero_nil; lia). rewrite Ecl0 in Ecl. apply app_eq_nil in Ecl.
      destruct Ecl as [_ Eo]. unfold okeys, okeys_of. rewrite Eo. apply SS_all. intros a b. reflexivity. }
  clear E2.
  (* the stand-in column and the grouping *)
  pose proof (descr_set_scalar standin vone _ _ _ Ds2) as Ds3.
  set (sub3 := pd_set_scalar standin vone sub2) in *.
  set (phi3 := fun (it : nat * list val) (x0 : string) => if eq_dec x0 standin then vone else phi1 it x0) in *.
  assert (cols sub3 = (vcl ++ [orig]) ++ [standin]) as Cs3.
  { unfold sub3, pd_set_scalar. cbn [cols]. rewrite Cs2. apply add_end_new. intros I. apply in_app_iff in I.
    destruct I as [I|[I|[]]]; [apply Fst, In0, Vin, I|apply Nos; exact I]. }
  set (gk := match w_part w with [] => [standin] | pb => pb end).
  assert (forall c, In c gk -> In c (cols sub3)) as Igk.
  { intros c Ic. rewrite Cs3. unfold gk in Ic. destruct (w_part w) as [|p0 pt] eqn:Ep.
    - destruct Ic as [<-|[]]. apply in_app_iff. right. left. reflexivity.
    - apply in_app_iff. left. apply in_app_iff. left. rewrite Evcl, Ecl0. apply in_app_iff. left. apply in_app_iff. left. exact Ic. }
  unfold pd_row_keys. replace (subset gk (cols sub3)) with true by (symmetry; apply subset_spec; exact Igk). cbn [obind].
  rewrite (descr_keys _ _ _ gk Ds3 Igk).
  set (K := fun it : nat * list val => map (phi3 it) gk).
  assert (forall it it', keys_eqv (K it) (K it') = keys_eqv (key_of (cols t) (w_part w) (snd it)) (key_of (cols t) (w_part w) (snd it'))) as HK.
  { intros it it'. unfold K, gk. destruct (w_part w) as [|p0 pt] eqn:Ep.
    - cbn [map key_of]. unfold phi3. destruct (eq_dec standin standin); [reflexivity|congruence].
    - unfold key_of. f_equal; apply map_ext_in; intros c Ic; unfold phi3, phi1, phi0.
      + assert (In c (cols t)) as Ict by (apply Sc, (proj1 (subset_spec _ _) Sb), in_app_iff; left; exact Ic).
        destruct (eq_dec c standin) as [E|_]; [exfalso; apply Fst, In0; rewrite <- E; exact Ict|].
        destruct (eq_dec c orig) as [E|_]; [exfalso; apply For0, In0; rewrite <- E; exact Ict|reflexivity].
      + assert (In c (cols t)) as Ict by (apply Sc, (proj1 (subset_spec _ _) Sb), in_app_iff; left; exact Ic).
        destruct (eq_dec c standin) as [E|_]; [exfalso; apply Fst, In0; rewrite <- E; exact Ict|].
        destruct (eq_dec c orig) as [E|_]; [exfalso; apply For0, In0; rewrite <- E; exact Ict|reflexivity]. }
  assert (NoDup (map fst S)) as NdS by (apply (NoDup_tags t S PS)).
  (* the window terms *)
  destruct (fold_left _ ops (Some sub3)) as [sub4|] eqn:E4; cbn [obind]; [|discriminate].
  destruct (wapply_fold (cols t) S K standin NdS ops keys sub3 phi3 sub4 Nk (fun k I => I) Ds3) as [Ds4 Cs4].
  { split; [rewrite Cs3; apply in_app_iff; right; left; reflexivity|]. split; [intros I; apply Fst, Ik0, I|].
    intros it _. unfold phi3. destruct (eq_dec standin standin); [reflexivity|congruence]. }
  { intros ke fn c ex Ike Esh. pose proof (proj1 (forallb_forall _ _) Ok ke Ike) as Oke. unfold win_ok_b in Oke. rewrite Esh in Oke.
    apply andb_true_iff in Oke. destruct Oke as [Oke _]. apply andb_true_iff in Oke. destruct Oke as [Mc Hk].
    assert (In c (cols t)) as Ict by (apply Sc, mem_In, Mc).
    split; [|split].
    - apply orb_true_iff in Hk. destruct Hk as [Hk|Hk]; [left; apply mem_false, negb_true_iff, Hk|right; apply String.eqb_eq, Hk].
    - rewrite Cs3. apply in_app_iff. left. apply in_app_iff. left. apply vcols_In. right. exists ke, fn, ex. split; assumption.
    - intros it _. unfold phi3, phi1, phi0.
      destruct (eq_dec c standin) as [E|_]; [exfalso; apply Fst, In0; rewrite <- E; exact Ict|].
      destruct (eq_dec c orig) as [E|_]; [exfalso; apply For0, In0; rewrite <- E; exact Ict|reflexivity]. }
  { exact E4. }
  clear E4.
  (* no stand-in columns for constants were created, nothing to delete; sort back by the original index *)
  cbn [fold_left obind].
  destruct (pd_sort_values_with srt [(orig, true)] sub4) as [sub5|] eqn:E5; cbn [obind]; [|discriminate].
  destruct (descr_sort srt _ _ _ _ _ So Ds4 E5) as [S' [PS' [SS' [Ds5 Cs5]]]].
  set (phi4 := fun (it : nat * list val) (x0 : string) => match out_of ops x0 with Some ke => OUT (cols t) S K ke it | None => phi3 it x0 end) in *.
  assert (out_of ops orig = None) as Oorig.
  { clear -For0 Ik0. assert (~ In orig (map fst ops)) as N by (intros I; apply For0, Ik0, I). clear -N.
    induction ops as [|ke o IH]; [reflexivity|]. cbn [out_of]. destruct (String.eqb (fst ke) orig) eqn:E.
    - exfalso. apply N. left. apply String.eqb_eq, E.
    - apply IH. intros I. apply N. right. exact I. }
  assert (S' = T0) as ES'.
  { apply (sorted_perm_unique (fun a b : nat * list val => Nat.leb (fst a) (fst b))).
    - eapply SS_weaken_in; [exact SS'|]. intros a b _ _ Hab. cbn [pd_sort_keys map fst snd negb rle] in Hab. unfold phi4 in Hab. rewrite Oorig in Hab.
      unfold phi3, phi1 in Hab. destruct (eq_dec orig standin); [congruence|]. destruct (eq_dec orig orig); [|congruence].
      rewrite vnat_cmp in Hab. exact Hab.
    - apply tag_from_sorted.
    - eapply perm_trans; [exact PS'|exact PS].
    - intros a b Ia Ib L1 L2. apply Nat.leb_le in L1. apply Nat.leb_le in L2. assert (fst a = fst b) as Ef by lia.
      assert (NoDup (map fst S')) as Nd' by (eapply Permutation_NoDup; [apply Permutation_map, Permutation_sym, PS'|exact NdS]).
      destruct (In_nth_error _ _ Ia) as [ia Ha]. destruct (In_nth_error _ _ Ib) as [ib Hb].
      assert (ia = ib) as ->; [|congruence].
      apply (proj1 (NoDup_nth_error _) Nd'); [rewrite map_length; apply nth_error_Some; congruence|].
      rewrite (map_nth_error fst _ _ Ha), (map_nth_error fst _ _ Hb), Ef. reflexivity. }
  subst S'. clear PS' SS'.
  (* copy out *)
  destruct (pd_select keys sub5) as [sub6|] eqn:E6; cbn [obind]; [|discriminate].
  destruct (descr_select _ _ _ _ _ Ds5 E6) as [Ds6 Cs6].
  intros Hadd.
  assert (nrows t = nrows sub6) as Ln by (unfold nrows; rewrite (descr_len _ _ _ Ds6); unfold T0; rewrite tag_from_length; reflexivity).
  destruct (add_columns_spec t sub6 x Wt (proj1 Ds6) Ln Hadd) as [Sx [Wx Fx]].
  assert (same_set (cols x) (ext_cols (cols t) keys)) as Sxe.
  { intros c. rewrite (Sx c), Cs6. unfold ext_cols. rewrite In_fold_add_end, in_app_iff. reflexivity. }
  split; [exact Wx|]. split; [exact Sxe|]. intros Gd.
  split.
  - exact Sxe.
  - apply Forall2_of_nth.
    + rewrite (Forall2_len _ _ _ Fx), combine_length. unfold sem_wextend. cbn [rows]. rewrite map_length, tag_from_length.
      rewrite (descr_len _ _ _ Ds6). unfold T0. rewrite tag_from_length. apply Nat.min_id.
    + intros i ru rs Hru Hrs c.
      destruct (nth_error (rows t) i) as [r|] eqn:Hr.
      2:{ exfalso. apply nth_error_None in Hr. assert (i < List.length (rows x))%nat as Li by (apply nth_error_Some; congruence).
          rewrite (Forall2_len _ _ _ Fx), combine_length in Li. lia. }
      destruct (nth_error (rows sub6) i) as [s6|] eqn:Hs6.
      2:{ exfalso. apply nth_error_None in Hs6. assert (i < List.length (rows x))%nat as Li by (apply nth_error_Some; congruence).
          rewrite (Forall2_len _ _ _ Fx), combine_length in Li. lia. }
      destruct (Forall2_nth_error' _ _ _ _ _ Fx Hru) as [p [Hp Rp]]. rewrite (nth_error_combine _ _ _ _ _ Hr Hs6) in Hp. inversion Hp; subst p. cbn [fst snd] in Rp.
      destruct (sem_wextend_get ops w t i r c Wt Nk Hr) as [row [Hrow Erow]]. rewrite Hrs in Hrow. inversion Hrow; subst row. rewrite Erow, (Rp c).
      assert (nth_error T0 i = Some (i, r)) as HT by (unfold T0; apply (tag_from_nth_error 0 _ _ _ Hr)).
      destruct (Forall2_nth_error' _ _ _ _ _ (proj2 Ds6) Hs6) as [it [Hit Rit]]. rewrite HT in Hit. inversion Hit; subst it.
      destruct (out_of ops c) as [ke|] eqn:Eo.
      * destruct (out_of_Some _ _ _ Eo) as [Ike Ek]. replace (mem c (cols sub6)) with true by (symmetry; apply mem_In; rewrite Cs6, <- Ek; apply in_map, Ike).
        rewrite (Rit c) by (rewrite Cs6, <- Ek; apply in_map, Ike). unfold phi4. rewrite Eo.
        pose proof (proj1 (forallb_forall _ _) Ok ke Ike) as Oke.
        apply (out_value t w S K PS SSp HK keys ke i r).
        -- rewrite (win_ok_b_same_set _ _ _ _ Sc). exact Oke.
        -- apply (Permutation_in _ (Permutation_sym PS)). eapply nth_error_In. exact HT.
        -- exact Hr.
        -- intros Os. apply Gd. unfold ops_order_sensitive. apply existsb_exists. exists ke. split; assumption.
        -- unfold win_ok_b in Oke. destruct (win_shape (snd ke)) as [[[fn [[c1|v1]|]] ex]|]; try exact I.
           cbn [mem] in Oke. destruct (eq_dec fn "_row_number") as [->|_]; [exists "row_number"; split; [reflexivity|left; reflexivity]|].
           destruct (eq_dec fn "_count") as [->|_]; [exists "count"; split; [reflexivity|right; left; reflexivity]|].
           destruct (eq_dec fn "_size") as [->|_]; [exists "size"; split; [reflexivity|right; right; reflexivity]|discriminate].
      * replace (mem c (cols sub6)) with false by (symmetry; rewrite Cs6; apply mem_false, out_of_None, Eo). reflexivity.
Qed.
