(* C17, part 4: the two round trips of the record conversions. *)
From Coq Require Import List Bool Arith ZArith QArith String Ascii Lia Permutation.
Import ListNotations.
From DA Require Import Base.PyRT Base.Val Model.CData Proofs.CDataP1 Proofs.CDataP2 Proofs.CDataP3.

(* ------------------------------------------------------------------ table equivalence: boolean = proposition *)
Lemma remove_one_perm {A} `{EqDec A} (x : A) l l' : remove_one x l = Some l' -> Permutation l (x :: l').
Proof. revert l'. induction l as [|y t IH]; intros l' E; simpl in E; [discriminate|].
  destruct (eq_dec x y) as [->|ne]; [inversion E; subst; reflexivity|].
  destruct (remove_one x t) as [t'|] eqn:R; simpl in E; [|discriminate]. inversion E; subst.
  rewrite (IH t' eq_refl). apply perm_swap. Qed.

Lemma remove_one_None {A} `{EqDec A} (x : A) l : remove_one x l = None -> ~ In x l.
Proof. induction l as [|y t IH]; simpl; intros E; [tauto|].
  destruct (eq_dec x y); [discriminate|]. destruct (remove_one x t); [discriminate|]. intros [e|i]; [congruence|]. apply IH; auto. Qed.

Lemma perm_eqb_spec {A} `{EqDec A} (a b : list A) : perm_eqb a b = true <-> Permutation a b.
Proof. revert b. induction a as [|x a IH]; intros b; simpl.
  - destruct b; split; intros h; try reflexivity; try discriminate. apply Permutation_nil in h. discriminate.
  - destruct (remove_one x b) as [b'|] eqn:R.
    + rewrite IH. apply remove_one_perm in R. split.
      * intros P. rewrite R. constructor. exact P.
      * intros P. rewrite R in P. apply Permutation_cons_inv in P. exact P.
    + split; [discriminate|]. intros P. exfalso. apply (remove_one_None x b R). apply (Permutation_in _ P). left. reflexivity. Qed.

Lemma table_eqvb_spec t1 t2 : table_eqvb t1 t2 = true <-> tbl_eqv t1 t2.
Proof. unfold table_eqvb, tbl_eqv. rewrite andb_true_iff, !perm_eqb_spec. reflexivity. Qed.

(* ------------------------------------------------------------------ extracting the boolean hypotheses *)
Record keyed_facts (ks : list string) (t : table) : Prop := {
  kf_sub : forall c, In c ks -> In c (cols t);
  kf_ok : forall r, In r (rows t) -> key_ok (cells (cols t) r ks) = true;
  kf_nodup : NoDup (map (fun r => cells (cols t) r ks) (rows t))
}.

Lemma keyed_by_facts ks t : keyed_by ks t = true <-> keyed_facts ks t.
Proof. unfold keyed_by. rewrite !andb_true_iff, subset_spec, forallb_forall, nodupb_NoDup. split.
  - intros [[a b] c]. constructor; assumption.
  - intros [a b c]. auto. Qed.

Lemma NoDup_filter' {A} (f : A -> bool) l : NoDup l -> NoDup (filter f l).
Proof. induction 1 as [|x l Hx N IH]; simpl; [constructor|]. destruct (f x); [constructor|]; try exact IH.
  rewrite filter_In. tauto. Qed.

Lemma value_cols_nodup S : spec_facts S -> NoDup (value_cols S).
Proof. intros F. apply NoDup_filter'. apply (sf_cc_nodup S F). Qed.

Lemma perm_partition {A} (p : A -> bool) l : Permutation l (filter p l ++ filter (fun x => negb (p x)) l).
Proof. induction l as [|x t IH]; simpl; [constructor|]. destruct (p x); simpl.
  - constructor. exact IH.
  - rewrite IH at 1. apply Permutation_middle. Qed.

(* the block columns in the order rowrecs_to_blocks produces them *)
Lemma r2b_cols_perm S : spec_facts S -> Permutation (r2b_cols S) (block_columns S).
Proof. intros F. unfold r2b_cols, block_columns. apply Permutation_app_head.
  rewrite (perm_partition (fun c => mem c (rs_ctkeys S)) (cols (rs_ct S))). apply Permutation_app_tail.
  apply NoDup_Permutation.
  - apply (sf_ck_nodup S F).
  - apply NoDup_filter'. apply (sf_cc_nodup S F).
  - intros c. rewrite filter_In, mem_In. split; [intros I; split; [apply (sf_ck_sub S F); exact I|exact I]|tauto]. Qed.

Lemma r2b_cols_In S c : spec_facts S -> (In c (r2b_cols S) <-> In c (block_columns S)).
Proof. intros F. split; apply Permutation_in; [|symmetry]; apply r2b_cols_perm; exact F. Qed.

Lemma r2b_cols_of_bc S c : spec_facts S -> In c (block_columns S) -> In c (r2b_cols S).
Proof. intros F. apply r2b_cols_In. exact F. Qed.

(* a block row laid out in the order RK ++ CK ++ VC, read back in the order RK ++ CC *)
Section BlockRow.
  Variable S : recspec.
  Hypothesis F : spec_facts S.
  Let RK := rs_keys S. Let CK := rs_ctkeys S. Let VC := value_cols S. Let bc := block_columns S.
  Variables (a k v : list val).
  Hypothesis La : List.length a = List.length RK.
  Hypothesis Lk : List.length k = List.length CK.
  Hypothesis Lv : List.length v = List.length VC.

  Lemma ck_in_bc c : In c CK -> In c bc.
  Proof. intros I. unfold bc, block_columns. apply in_app_iff. right. apply (sf_ck_sub S F). exact I. Qed.
  Lemma vc_in_bc c : In c VC -> In c bc.
  Proof. intros I. unfold bc, block_columns. apply in_app_iff. right. apply value_cols_In in I. tauto. Qed.
  Lemma rk_in_bc c : In c RK -> In c bc.
  Proof. intros I. unfold bc, block_columns. apply in_app_iff. left. exact I. Qed.

  Lemma blockrow_rk : cells bc (cells (r2b_cols S) (a ++ k ++ v) bc) RK = a.
  Proof. rewrite cells_cells by (intros c Hc; apply rk_in_bc; exact Hc).
    unfold r2b_cols. rewrite cells_app_l by (auto; exact La). apply cells_self; [exact La|apply (sf_rk_nodup S F)]. Qed.

  Lemma blockrow_ck : cells bc (cells (r2b_cols S) (a ++ k ++ v) bc) CK = k.
  Proof. rewrite cells_cells by (intros c Hc; apply ck_in_bc; exact Hc).
    unfold r2b_cols. rewrite cells_app_r; [|intros c Hc Hr; exact (sf_rk_ck S F c Hr Hc)|exact La].
    rewrite cells_app_l by (auto; exact Lk). apply cells_self; [exact Lk|apply (sf_ck_nodup S F)]. Qed.

  Lemma blockrow_vc : cells bc (cells (r2b_cols S) (a ++ k ++ v) bc) VC = v.
  Proof. rewrite cells_cells by (intros c Hc; apply vc_in_bc; exact Hc).
    unfold r2b_cols. rewrite cells_app_r; [|intros c Hc Hr; apply value_cols_In in Hc; exact (sf_rk_cc S F c Hr (proj1 Hc))|exact La].
    rewrite cells_app_r; [|intros c Hc Hr; apply value_cols_In in Hc; tauto|exact Lk].
    apply cells_self; [exact Lv|apply value_cols_nodup; exact F]. Qed.
End BlockRow.

Lemma In_rc S c : In c (row_columns S) <-> In c (rs_keys S) \/ In c (content_keys S).
Proof. unfold row_columns. apply in_app_iff. Qed.

(* a row-record laid out as RK ++ (names of G, row by row), read back by name *)
Section RowRecord.
  Variable S : recspec.
  Hypothesis F : spec_facts S.
  Variable G : list (list val).
  Hypothesis HG : Permutation G (rows (rs_ct S)).
  Variable a : list val.
  Variable V : list val -> list val.
  Hypothesis La : List.length a = List.length (rs_keys S).
  Hypothesis LV : forall cr, In cr G -> List.length (V cr) = List.length (nm S cr).
  Let cs := rs_keys S ++ List.concat (map (nm S) G).
  Let row := a ++ List.concat (map V G).

  Lemma rowrec_rk : cells cs row (rs_keys S) = a.
  Proof. unfold cs, row. rewrite cells_app_l by (auto; exact La). apply cells_self; [exact La|apply (sf_rk_nodup S F)]. Qed.

  Lemma rowrec_get cr n : In cr (rows (rs_ct S)) -> In n (nm S cr) -> get cs row n = get (nm S cr) (V cr) n.
  Proof. intros Hcr Hn. unfold cs, row.
    assert (HcrG : In cr G) by (apply (Permutation_in _ (Permutation_sym HG)); exact Hcr).
    rewrite get_app_r; [|intros Hr; apply (sf_rk_names S F n Hr); eapply nm_In_cnames; eassumption|exact La].
    apply get_concat; [exact HcrG|exact Hn|exact LV|].
    intros cr' Hcr' Hn'. apply (nm_disjoint S cr' cr n F); try assumption. apply (Permutation_in _ HG). exact Hcr'. Qed.

  Lemma rowrec_names cr : In cr (rows (rs_ct S)) -> cells cs row (nm S cr) = V cr.
  Proof. intros Hcr. transitivity (cells (nm S cr) (V cr) (nm S cr)).
    - apply map_ext_in. intros n Hn. apply rowrec_get; assumption.
    - apply cells_self; [apply LV; apply (Permutation_in _ (Permutation_sym HG)); exact Hcr|apply nm_NoDup; assumption]. Qed.

  Lemma rowrec_cols_perm : Permutation cs (row_columns S).
  Proof. unfold cs, row_columns. apply Permutation_app_head. rewrite (content_keys_cnames S F), concat_map_flat_map.
    rewrite (perm_flat_map (nm S) _ _ HG). symmetry. apply cnames_perm. Qed.
End RowRecord.

(* ------------------------------------------------------------------ rows -> blocks -> rows *)
Lemma map_flat_map_transpose {A B C D} (g : C -> D) (f : A -> B -> C) (la : list A) (lb : list B) :
  Permutation (map g (flat_map (fun a => map (f a) lb) la)) (flat_map (fun b => map (fun a => g (f a b)) la) lb).
Proof. rewrite map_flat_map.
  rewrite (flat_map_ext _ (fun a => map (fun b => g (f a b)) lb)) by (intros a; apply map_map).
  apply perm_transpose with (f := fun a b => g (f a b)). Qed.

Theorem roundtrip_rows S T : strict_spec S = true -> conforming_rows S T = true ->
  exists B X, rowrecs_to_blocks S T = Ok B /\ blocks_to_rowrecs S B = Ok X /\ tbl_eqv X (select_cols (row_columns S) T).
Proof. intros HS HC. pose proof (strict_spec_facts S HS) as F.
  unfold conforming_rows in HC. apply andb_true_iff in HC. destruct HC as [HK Hsub].
  pose proof (proj1 (keyed_by_facts _ _) HK) as KF. pose proof (proj1 (subset_spec _ _) Hsub) as Sub. clear HK Hsub.
  set (rc := row_columns S). set (RK := rs_keys S). set (bc := block_columns S).
  destruct (rows T) as [|r0 rs0] eqn:ET.
  - exists (mktable bc []), (mktable rc []). split; [apply r2b_empty; exact ET|]. split; [apply b2r_empty; reflexivity|].
    split; [reflexivity|]. simpl. try rewrite ET. constructor.
  - assert (NE : rows T <> []) by (rewrite ET; discriminate). clear ET r0 rs0.
    set (dT := rows (select_cols rc T)).
    assert (RKrc : forall c, In c RK -> In c rc) by (intros c Hc; apply In_rc; left; exact Hc).
    assert (dT_rk : forall r, cells rc (cells (cols T) r rc) RK = cells (cols T) r RK) by (intros r; apply cells_cells; exact RKrc).
    assert (dT_In : forall x, In x dT -> exists r, In r (rows T) /\ x = cells (cols T) r rc).
    { intros x Hx. unfold dT in Hx. simpl in Hx. apply in_map_iff in Hx. destruct Hx as [r [E Hr]]. exists r. auto. }
    assert (K : is_keyed RK (select_cols rc T) = Ok true).
    { apply is_keyed_ok.
      - simpl. apply subset_spec. exact RKrc.
      - simpl. intros x Hx. apply in_map_iff in Hx. destruct Hx as [r [<- Hr]]. rewrite dT_rk. apply (kf_ok _ _ KF). exact Hr.
      - simpl. rewrite map_map. rewrite (map_ext _ (fun r => cells (cols T) r RK)) by exact dT_rk. apply (kf_nodup _ _ KF). }
    rewrite (r2b_unfold S T NE K). eexists.
    set (B := mktable (r2b_cols S) _).
    assert (Lrk : forall x, List.length (cells rc x RK) = List.length RK) by (intros; apply cells_length).
    assert (Lkap : forall cr, List.length (kap S cr) = List.length (rs_ctkeys S)) by (intros; apply cells_length).
    assert (Lnm : forall x cr, List.length (cells rc x (nm S cr)) = List.length (value_cols S)) by (intros; rewrite cells_length; apply nm_length).
    (* the blocks are complete: apply the characterisation of blocks_to_rowrecs *)
    destruct (b2r_char S F (list val) (fun x => cells rc x RK) (fun x cr => cells rc x (nm S cr))
                (fun x cr => cells (r2b_cols S) (r2b_row S cr x) bc) dT B) as [G [rows' [HG [EB HP]]]].
    + unfold B. simpl rows. simpl cols. fold dT. etransitivity; [apply Permutation_map; apply sort_rows_perm|].
      apply map_flat_map_transpose.
    + unfold dT. simpl. destruct (rows T); [congruence|discriminate].
    + unfold dT. simpl. rewrite map_map. rewrite (map_ext _ (fun r => cells (cols T) r RK)) by exact dT_rk. apply (kf_nodup _ _ KF).
    + intros x Hx. destruct (dT_In x Hx) as [r [Hr ->]]. rewrite dT_rk. apply (kf_ok _ _ KF). exact Hr.
    + intros x _. apply Lrk.
    + intros x cr _ _. unfold r2b_row. apply (blockrow_rk S F); auto.
    + intros x cr _ _. unfold r2b_row. apply (blockrow_ck S F); auto.
    + intros x cr _ _. unfold r2b_row. apply (blockrow_vc S F); auto.
    + exists (mktable (rs_keys S ++ List.concat (map (nm S) G)) rows'). split; [reflexivity|]. split; [exact EB|].
      split.
      * simpl. apply (rowrec_cols_perm S F G HG).
      * simpl. fold rc. fold dT.
        etransitivity; [apply Permutation_map; exact HP|]. rewrite map_map.
        rewrite (map_ext_in _ (fun x => x)); [rewrite map_id; reflexivity|].
        intros x Hx. destruct (dT_In x Hx) as [r [Hr Ex]].
        assert (LV : forall cr, In cr G -> List.length (cells rc x (nm S cr)) = List.length (nm S cr)) by (intros; apply cells_length).
        (* cell by cell *)
        transitivity (cells rc x rc).
        { apply map_ext_in. intros c Hc. apply In_rc in Hc. destruct Hc as [Hc|Hc].
          - rewrite get_app_l; [|exact Hc|apply Lrk]. unfold cells. apply get_map_cols. exact Hc.
          - rewrite (content_keys_cnames S F) in Hc. apply (Permutation_in _ (cnames_perm S)) in Hc.
            apply in_flat_map in Hc. destruct Hc as [cr [Hcr Hn]].
            rewrite (rowrec_get S F G HG (cells rc x RK) (fun cr => cells rc x (nm S cr)) (Lrk x) LV cr c Hcr Hn).
            unfold cells. apply get_map_cols. exact Hn. }
        { rewrite Ex. apply cells_cells. auto. }
Qed.
