(* Proofs/ExprParseP5.v -- C13, part 2: the parser model on the flattened form of an AST; splitting lemmas. *)
From Coq Require Import List Bool String Ascii ZArith NArith QArith Arith Lia.
Import ListNotations.
From DA Require Import Model.PyExpr Model.ExprParse Model.ExprAst Proofs.ExprParseP1.
Local Close Scope Q_scope.
Local Open Scope string_scope.
Local Open Scope bool_scope.
Local Open Scope list_scope.

(* the text of an AST at one nesting depth: bracketed groups already carry their parsed content *)
Fixpoint flat (d : dtree) : list elem :=
  match d with
  | DPar x => [EGrp BParen [GTest (strip x)] false]
  | DName s => [ETok (TName s)]
  | DNum t => [ETok t]
  | DStr t => [ETok t]
  | DConst k => [ETok (TSym k)]
  | DChain _ d0 rest => flat d0 ++ flat_map (fun p => ETok (TSym (fst p)) :: flat (snd p)) rest
  | DNot x => ETok (TSym "not") :: flat x
  | DFactor op x => ETok (TSym op) :: flat x
  | DPower b e => flat b ++ ETok (TSym "**") :: flat e
  | DCall f args tr => flat f ++ [EGrp BParen (map (fun a => GTest (strip a)) args) tr]
  | DAttr o n => flat o ++ [ETok (TSym "."); ETok (TName n)]
  | DColl k items tr => [EGrp k (map (fun a => GTest (strip a)) items) tr]
  | DDict items tr => [EGrp BBrace (map (fun kv => GKV (strip (fst kv)) (strip (snd kv))) items) tr]
  end.

(* the parser of each grammar level *)
Definition plvl (L : nat) : list elem -> option ltree :=
  match L with
  | 0 => p_or_test | 1 => p_and_test | 2 => p_not_test | 3 => p_comparison | 4 => p_expr | 5 => p_xor_expr
  | 6 => p_and_expr | 7 => p_shift | 8 => p_arith | 9 => p_term | 10 => p_factor | 11 => p_factor
  | _ => p_atom_expr
  end.

(* ------------------------------------------------------------------ binary position bookkeeping *)
Definition prev_after (p : bool) (es : list elem) : bool := fold_left (fun _ e => is_operand_end e) es p.

Definition bin_ok (M : nat) (e : elem) (prev : bool) : bool :=
  match e with
  | ETok (TSym s) => if prev then match binlvl s with Some l => Nat.leb M l | None => true end else true
  | _ => true
  end.
(* every operator token standing in binary position belongs to a level >= M *)
Fixpoint binpos_ok (M : nat) (prev : bool) (es : list elem) : bool :=
  match es with
  | [] => true
  | e :: r => bin_ok M e prev && binpos_ok M (is_operand_end e) r
  end.

Lemma prev_after_app p a b : prev_after p (a ++ b) = prev_after (prev_after p a) b.
Proof. unfold prev_after. apply fold_left_app. Qed.

Lemma prev_after_cons p e r : prev_after p (e :: r) = prev_after (is_operand_end e) r.
Proof. reflexivity. Qed.

Lemma binpos_ok_app M p a b : binpos_ok M p (a ++ b) = binpos_ok M p a && binpos_ok M (prev_after p a) b.
Proof. revert p. induction a as [|e a IH]; intros p; [reflexivity|].
  rewrite <- app_comm_cons. cbn [binpos_ok]. rewrite IH, prev_after_cons. rewrite andb_assoc. reflexivity. Qed.

Lemma bin_ok_mono M M' e p : M <= M' -> bin_ok M' e p = true -> bin_ok M e p = true.
Proof. intros Hle. unfold bin_ok. destruct e as [[| | | |s|]|]; try (intros; reflexivity).
  destruct p; [|intros; reflexivity]. destruct (binlvl s) as [l|]; [|intros; reflexivity].
  intros H. apply Nat.leb_le in H. apply Nat.leb_le. lia. Qed.

Lemma binpos_ok_mono M M' p es : M <= M' -> binpos_ok M' p es = true -> binpos_ok M p es = true.
Proof. intros Hle. revert p. induction es as [|e r IH]; intros p; simpl; [reflexivity|].
  intros H. apply andb_prop in H as [H1 H2]. rewrite (bin_ok_mono _ _ _ _ Hle H1), (IH _ H2). reflexivity. Qed.

Lemma binlvl_values s l : binlvl s = Some l -> In l [0; 1; 3; 4; 5; 6; 7; 8; 9; 11].
Proof. unfold binlvl.
  repeat match goal with |- context[if ?b then _ else _] => destruct b end; intros H; inversion H; simpl; tauto. Qed.

Lemma binpos_ok_10_11 p es : binpos_ok 10 p es = true -> binpos_ok 11 p es = true.
Proof. revert p. induction es as [|e r IH]; intros p; simpl; [reflexivity|].
  intros H. apply andb_prop in H as [H1 H2]. rewrite (IH _ H2), andb_true_r.
  unfold bin_ok in *. destruct e as [[| | | |s|]|]; try reflexivity. destruct p; [|reflexivity].
  destruct (binlvl s) as [l|] eqn:B; [|reflexivity]. apply binlvl_values in B. simpl in B.
  apply Nat.leb_le in H1. apply Nat.leb_le. intuition lia. Qed.

Lemma is_binop_at_lvl L s : is_binop_at L s = true -> binlvl s = Some L.
Proof. unfold is_binop_at. destruct (binlvl s) as [l|]; [|discriminate]. intros H. apply Nat.eqb_eq in H. subst. reflexivity. Qed.

(* ------------------------------------------------------------------ splitting *)
Lemma split_none L M : L < M -> forall es p, binpos_ok M p es = true -> split_go L p es = (es, []).
Proof. intros Hlt. induction es as [|e r IH]; intros p H; simpl; [reflexivity|].
  simpl in H. apply andb_prop in H as [H1 H2].
  destruct e as [t|k items tr].
  - destruct t as [s|n|m|s|s|b ty]; try (rewrite (IH _ H2); reflexivity).
    destruct (p && is_binop_at L s) eqn:Sp.
    + exfalso. apply andb_prop in Sp as [Hp Hb]. subst p. apply is_binop_at_lvl in Hb.
      simpl in H1. rewrite Hb in H1. apply Nat.leb_le in H1. lia.
    + rewrite (IH _ H2). reflexivity.
  - rewrite (IH _ H2). reflexivity. Qed.

Lemma split_app L M : L < M -> forall a b p, binpos_ok M p a = true ->
  split_go L p (a ++ b) = (let '(p1, r) := split_go L (prev_after p a) b in (a ++ p1, r)).
Proof. intros Hlt. induction a as [|e a IH]; intros b p H.
  - simpl. destruct (split_go L p b); reflexivity.
  - simpl in H. apply andb_prop in H as [H1 H2]. rewrite <- app_comm_cons. rewrite prev_after_cons.
    specialize (IH b _ H2). simpl.
    destruct e as [t|k items tr].
    + destruct t as [s|n|m|s|s|bb ty]; try (rewrite IH; destruct (split_go L (prev_after _ a) b); reflexivity).
      destruct (p && is_binop_at L s) eqn:Sp.
      * exfalso. apply andb_prop in Sp as [Hp Hb]. subst p. apply is_binop_at_lvl in Hb.
        simpl in H1. rewrite Hb in H1. apply Nat.leb_le in H1. lia.
      * rewrite IH. destruct (split_go L (prev_after _ a) b); reflexivity.
    + rewrite IH. destruct (split_go L (prev_after _ a) b); reflexivity. Qed.

(* an operator of level L standing after an operand splits *)
Lemma split_op L s r : is_binop_at L s = true ->
  split_go L true (ETok (TSym s) :: r) = (let '(p1, rest) := split_go L false r in ([], (s, p1) :: rest)).
Proof. intros H. simpl. rewrite H. reflexivity. Qed.

(* operand (op operand)* splits into its operands *)
Lemma split_join L : forall (rest : list (string * list elem)) (p0 : list elem) p,
  binpos_ok (S L) p p0 = true -> prev_after p p0 = true ->
  Forall (fun q => is_binop_at L (fst q) = true /\ binpos_ok (S L) false (snd q) = true /\ prev_after false (snd q) = true) rest ->
  split_go L p (p0 ++ flat_map (fun q => ETok (TSym (fst q)) :: snd q) rest) = (p0, rest).
Proof. induction rest as [|[s x] rest IH]; intros p0 p H0 He Hr.
  - simpl. rewrite app_nil_r. apply (split_none L (S L)); [lia|exact H0].
  - inversion Hr as [|? ? [Hs [Hx Hxe]] Hr']; subst. simpl in Hs, Hx, Hxe.
    rewrite (split_app L (S L)); [|lia|exact H0]. rewrite He.
    cbn [flat_map fst snd]. rewrite <- app_comm_cons. rewrite (split_op L s _ Hs).
    rewrite (IH x false Hx Hxe Hr'). rewrite app_nil_r. reflexivity. Qed.

(* ------------------------------------------------------------------ one grammar level *)
Lemma p_level_single name keep L sub es : split_go L false es = (es, []) -> p_level name keep L sub es = sub es.
Proof. intros H. unfold p_level. rewrite H. simpl. destruct (sub es); reflexivity. Qed.

Lemma mapM_pairs (sub : list elem -> option ltree) (rest : list (string * list elem)) (ts : list (string * ltree)) :
  Forall2 (fun q t => fst q = fst t /\ sub (snd q) = Some (snd t)) rest ts ->
  mapM (fun p => match sub (snd p) with Some t => Some (fst p, t) | None => None end) rest = Some ts.
Proof. induction 1 as [|[s x] [s' t] rest ts [Hs Ht] _ IH]; simpl; [reflexivity|].
  simpl in Hs, Ht. subst s'. rewrite Ht, IH. reflexivity. Qed.

Lemma p_level_join name keep L sub p0 t0 rest ts :
  split_go L false (p0 ++ flat_map (fun q => ETok (TSym (fst q)) :: snd q) rest) = (p0, rest) ->
  sub p0 = Some t0 ->
  Forall2 (fun q t => fst q = fst t /\ sub (snd q) = Some (snd t)) rest ts ->
  p_level name keep L sub (p0 ++ flat_map (fun q => ETok (TSym (fst q)) :: snd q) rest) = Some (mk_chain name keep t0 ts).
Proof. intros Hs H0 Hr. unfold p_level. rewrite Hs, H0, (mapM_pairs _ _ _ Hr). reflexivity. Qed.

(* ------------------------------------------------------------------ going down the levels *)
Definition head_sym (es : list elem) : option string :=
  match es with ETok (TSym s) :: _ => Some s | _ => None end.

Lemma strip_nots_none es : head_sym es <> Some "not" -> strip_nots es = (0, es).
Proof. destruct es as [|[[| | | |s|]|] r]; try reflexivity. simpl. intros H.
  destruct (s ==s "not") eqn:E; [|reflexivity]. apply String.eqb_eq in E. subst. exfalso. apply H. reflexivity. Qed.

Lemma strip_uops_none es : (forall s, head_sym es = Some s -> is_uop s = false) -> strip_uops es = ([], es).
Proof. destruct es as [|[[| | | |s|]|] r]; try reflexivity. simpl. intros H. rewrite (H s eq_refl). reflexivity. Qed.

Definition clean (M : nat) (es : list elem) : Prop :=
  binpos_ok M false es = true /\ (3 <= M -> head_sym es <> Some "not")
  /\ (11 <= M -> forall s, head_sym es = Some s -> is_uop s = false).

Lemma plvl_step M es L : clean M es -> L < M -> L < 12 -> plvl L es = plvl (S L) es.
Proof. intros [Hb [Hn Hu]] Hlt H12.
  assert (Sp : forall L', L' < M -> split_go L' false es = (es, [])).
  { intros L' HL'. apply (split_none L' M HL'). exact Hb. }
  destruct L as [|[|[|[|[|[|[|[|[|[|[|[|L]]]]]]]]]]]]; [| | | | | | | | | | | |lia].
  - apply p_level_single, Sp, Hlt.
  - apply p_level_single, Sp, Hlt.
  - cbn [plvl]. unfold p_not_test. rewrite (strip_nots_none es (Hn ltac:(lia))). simpl.
    destruct (p_comparison es); reflexivity.
  - apply p_level_single, Sp, Hlt.
  - apply p_level_single, Sp, Hlt.
  - apply p_level_single, Sp, Hlt.
  - apply p_level_single, Sp, Hlt.
  - apply p_level_single, Sp, Hlt.
  - apply p_level_single, Sp, Hlt.
  - apply p_level_single, Sp, Hlt.
  - reflexivity.
  - cbn [plvl]. unfold p_factor. rewrite (Sp 11 Hlt). cbn [p_factor_segs].
    rewrite (strip_uops_none es (Hu ltac:(lia))). destruct (p_atom_expr es); reflexivity. Qed.

Lemma plvl_ge12 L : 12 <= L -> plvl L = p_atom_expr.
Proof. intros H. destruct L as [|[|[|[|[|[|[|[|[|[|[|[|L]]]]]]]]]]]]; try lia. reflexivity. Qed.

Lemma plvl_descend M es : clean M es -> M <= 12 -> forall k L, L + k = M -> plvl L es = plvl M es.
Proof. intros Hc HM. induction k as [|k IH]; intros L HL.
  - replace L with M by lia. reflexivity.
  - rewrite (plvl_step M es L Hc); [|lia|lia]. apply IH. lia. Qed.
