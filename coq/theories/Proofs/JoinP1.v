(* C16, part 1: the reference semantics of natural_join (Model/Sem.v, sem_join with "null keys never match") IS the
   standard SQL join of Model/JoinSpec.v: same columns, same rows in the same order, for every join type, every key
   specification (same or different names, any number of key columns) and all tables. *)
From Coq Require Import List Bool Arith ZArith QArith String Lia Permutation.
Import ListNotations.
From DA Require Import Base.PyRT Base.Val Model.Sem Model.JoinSpec.
Local Open Scope list_scope.

Definition jt_of (jt : jointype) : sqljoin :=
  match jt with JInner => SInner | JLeft => SLeft | JRight => SRight | JFull => SFull end.

(* ---------- the scalar level: SQL `=` is TRUE exactly when both operands are non-null and equal *)
Lemma sql_is_null_eq v : sql_is_null v = is_null v.
Proof. destruct v; reflexivity. Qed.

Lemma sql_eq_true a b : is_true (sql_eq a b) = negb (is_null a) && v_eqv a b.
Proof.
  destruct a as [|[|]|x|x|x], b as [|[|]|y|y|y]; unfold sql_eq, v_eqv, sql_num, num_of, is_null; cbv beta iota;
    try reflexivity; try (destruct (Qeq_bool _ _); reflexivity); destruct (String.eqb _ _); reflexivity.
Qed.

Lemma is_true_and x y : is_true (tv_and x y) = is_true x && is_true y.
Proof. destruct x, y; reflexivity. Qed.

Lemma on_holds_keys_match c1 c2 on_a : forall on_b r1 r2, List.length on_a = List.length on_b ->
  on_holds c1 c2 (combine on_a on_b) r1 r2 = keys_match false (key_of c1 on_a r1) (key_of c2 on_b r2).
Proof.
  unfold on_holds, keys_match, key_of. induction on_a as [|ka ta IH]; intros [|kb tb] r1 r2 L; simpl in L; try discriminate.
  - reflexivity.
  - cbn [combine on_cond fold_right map existsb keys_eqv fst snd orb].
    rewrite is_true_and, sql_eq_true. specialize (IH tb r1 r2 (eq_add_S _ _ L)). unfold on_cond in IH. rewrite IH.
    cbn [orb]. destruct (is_null (get c1 r1 ka)), (v_eqv (get c1 r1 ka) (get c2 r2 kb)),
      (existsb is_null (map (get c1 r1) ta)), (keys_eqv (map (get c1 r1) ta) (map (get c2 r2) tb)); reflexivity.
Qed.

(* ---------- the select list *)
Definition mk_sem (ca cb : list string) (ra rb : option (list val)) : list val :=
  map (fun c => let va := match ra with Some r => if mem c ca then get ca r c else VNull | None => VNull end in
                let vb := match rb with Some r => if mem c cb then get cb r c else VNull | None => VNull end in
                if is_null va then vb else va) (ca ++ filter (fun c => negb (mem c ca)) cb).

Lemma get_absent cs r c : mem c cs = false -> get cs r c = VNull.
Proof. intros M. unfold get. apply index_of_None in M. rewrite M. reflexivity. Qed.

Lemma mk_sem_select ca cb ra rb : mk_sem ca cb ra rb = select_row ca cb ra rb.
Proof.
  unfold mk_sem, select_row, out_cols. apply map_ext. intros c. unfold item_of, eval_item, cell. cbv zeta.
  destruct (mem c ca) eqn:Ma; destruct (mem c cb) eqn:Mb; destruct ra as [ra|]; destruct rb as [rb|];
    rewrite ?sql_is_null_eq, ?(get_absent ca _ c Ma), ?(get_absent cb _ c Mb); cbn [is_null];
    try reflexivity; try (destruct (is_null _); reflexivity);
    destruct (get ca ra c); reflexivity.
Qed.

Lemma sem_join_unfold nm on_a on_b jt a b :
  sem_join nm on_a on_b jt a b =
  let ca := cols a in let cb := cols b in
  mktable (out_cols ca cb)
    (flat_map (fun ra => flat_map (fun rb => if keys_match nm (key_of ca on_a ra) (key_of cb on_b rb) then [mk_sem ca cb (Some ra) (Some rb)] else []) (rows b)) (rows a)
     ++ (match jt with JLeft | JFull =>
           flat_map (fun ra => if existsb (fun rb => keys_match nm (key_of ca on_a ra) (key_of cb on_b rb)) (rows b) then [] else [mk_sem ca cb (Some ra) None]) (rows a)
         | _ => [] end)
     ++ (match jt with JRight | JFull =>
           flat_map (fun rb => if existsb (fun ra => keys_match nm (key_of ca on_a ra) (key_of cb on_b rb)) (rows a) then [] else [mk_sem ca cb None (Some rb)]) (rows b)
         | _ => [] end)).
Proof. reflexivity. Qed.

(* ---------- list plumbing *)
Lemma flat_map_if_filter {A B} (p : A -> bool) (f : A -> B) l :
  flat_map (fun x => if p x then [f x] else []) l = map f (filter p l).
Proof. induction l as [|x t IH]; simpl; [reflexivity|]. destruct (p x); simpl; rewrite IH; reflexivity. Qed.

Lemma flat_map_ifnot_filter {A B} (p : A -> bool) (f : A -> B) l :
  flat_map (fun x => if p x then [] else [f x]) l = map f (filter (fun x => negb (p x)) l).
Proof. induction l as [|x t IH]; simpl; [reflexivity|]. destruct (p x); simpl; rewrite IH; reflexivity. Qed.

Lemma flat_map_prod {A B C} (p : A -> B -> bool) (f : A -> B -> C) la lb :
  flat_map (fun x => flat_map (fun y => if p x y then [f x y] else []) lb) la =
  map (fun q => f (fst q) (snd q)) (filter (fun q => p (fst q) (snd q)) (list_prod la lb)).
Proof.
  induction la as [|x t IH]; simpl; [reflexivity|].
  rewrite filter_app, map_app, IH. f_equal.
  rewrite flat_map_if_filter. clear. induction lb as [|y u IH]; simpl; [reflexivity|].
  destruct (p x y); simpl; rewrite IH; reflexivity.
Qed.

Lemma filter_ext_in_b {A} (f g : A -> bool) l : (forall x, In x l -> f x = g x) -> filter f l = filter g l.
Proof. intros E. induction l as [|x t IH]; simpl; [reflexivity|]. rewrite (E x (or_introl eq_refl)), IH; [reflexivity|].
  intros y I. apply E. right. exact I. Qed.

Lemma existsb_ext_b {A} (f g : A -> bool) l : (forall x, f x = g x) -> existsb f l = existsb g l.
Proof. intros E. induction l as [|x t IH]; simpl; [reflexivity|]. rewrite E, IH. reflexivity. Qed.

(* ---------- the main statement *)
Theorem sem_join_is_spec on_a on_b jt a b : List.length on_a = List.length on_b ->
  sem_join false on_a on_b jt a b = sql_join_spec (jt_of jt) (combine on_a on_b) a b.
Proof.
  intros L. rewrite sem_join_unfold. cbv zeta. unfold sql_join_spec, sql_join_rows, joined_TN, unmatched_left, unmatched_right. cbv zeta.
  f_equal.
  rewrite (flat_map_prod (fun ra rb => keys_match false (key_of (cols a) on_a ra) (key_of (cols b) on_b rb))
             (fun ra rb => mk_sem (cols a) (cols b) (Some ra) (Some rb))).
  rewrite (flat_map_ifnot_filter (fun ra => existsb (fun rb => keys_match false (key_of (cols a) on_a ra) (key_of (cols b) on_b rb)) (rows b))
             (fun ra => mk_sem (cols a) (cols b) (Some ra) None)).
  rewrite (flat_map_ifnot_filter (fun rb => existsb (fun ra => keys_match false (key_of (cols a) on_a ra) (key_of (cols b) on_b rb)) (rows a))
             (fun rb => mk_sem (cols a) (cols b) None (Some rb))).
  assert (map (fun q => mk_sem (cols a) (cols b) (Some (fst q)) (Some (snd q)))
            (filter (fun q => keys_match false (key_of (cols a) on_a (fst q)) (key_of (cols b) on_b (snd q))) (list_prod (rows a) (rows b)))
          = map (fun p => select_row (cols a) (cols b) (Some (fst p)) (Some (snd p)))
              (filter (fun p => on_holds (cols a) (cols b) (combine on_a on_b) (fst p) (snd p)) (list_prod (rows a) (rows b)))) as E1.
  { rewrite (filter_ext_in_b _ (fun p => on_holds (cols a) (cols b) (combine on_a on_b) (fst p) (snd p))).
    - apply map_ext. intros q. apply mk_sem_select.
    - intros q _. symmetry. apply on_holds_keys_match, L. }
  assert (map (fun ra => mk_sem (cols a) (cols b) (Some ra) None)
            (filter (fun ra => negb (existsb (fun rb => keys_match false (key_of (cols a) on_a ra) (key_of (cols b) on_b rb)) (rows b))) (rows a))
          = map (fun r1 => select_row (cols a) (cols b) (Some r1) None)
              (filter (fun r1 => negb (existsb (fun r2 => on_holds (cols a) (cols b) (combine on_a on_b) r1 r2) (rows b))) (rows a))) as E2.
  { rewrite (filter_ext_in_b _ (fun r1 => negb (existsb (fun r2 => on_holds (cols a) (cols b) (combine on_a on_b) r1 r2) (rows b)))).
    - apply map_ext. intros q. apply mk_sem_select.
    - intros q _. f_equal. apply existsb_ext_b. intros rb. symmetry. apply on_holds_keys_match, L. }
  assert (map (fun rb => mk_sem (cols a) (cols b) None (Some rb))
            (filter (fun rb => negb (existsb (fun ra => keys_match false (key_of (cols a) on_a ra) (key_of (cols b) on_b rb)) (rows a))) (rows b))
          = map (fun r2 => select_row (cols a) (cols b) None (Some r2))
              (filter (fun r2 => negb (existsb (fun r1 => on_holds (cols a) (cols b) (combine on_a on_b) r1 r2) (rows a))) (rows b))) as E3.
  { rewrite (filter_ext_in_b _ (fun r2 => negb (existsb (fun r1 => on_holds (cols a) (cols b) (combine on_a on_b) r1 r2) (rows a)))).
    - apply map_ext. intros q. apply mk_sem_select.
    - intros q _. f_equal. apply existsb_ext_b. intros ra. symmetry. apply on_holds_keys_match, L. }
  rewrite E1, E2, E3. destruct jt; cbn [jt_of]; rewrite ?app_nil_r; reflexivity.
Qed.

(* natural_join(on=[], jointype='CROSS') is built as an inner join without keys: every pair of rows *)
Theorem sem_cross_is_spec a b : sem_join false [] [] JInner a b = sql_join_spec SCross [] a b.
Proof.
  rewrite (sem_join_is_spec [] [] JInner a b eq_refl). unfold sql_join_spec, sql_join_rows, joined_TN. cbn [jt_of combine].
  f_equal. f_equal. clear. induction (list_prod (rows a) (rows b)) as [|p t IH]; simpl; [reflexivity|]. rewrite IH. reflexivity.
Qed.

Corollary sem_join_rows_perm on_a on_b jt a b : List.length on_a = List.length on_b ->
  Permutation (rows (sem_join false on_a on_b jt a b)) (sql_join_rows (jt_of jt) (combine on_a on_b) a b).
Proof. intros L. rewrite (sem_join_is_spec _ _ _ _ _ L). apply Permutation_refl. Qed.

(* every backend flavour except Pandas' evaluates a join node with "null keys never match", hence as the SQL join *)
Lemma sem_gen_join_is_spec fl pa pb on_a on_b jt e ta tb :
  f_join_null_match fl = false -> List.length on_a = List.length on_b ->
  sem_gen fl pa e = Some ta -> sem_gen fl pb e = Some tb ->
  sem_gen fl (OJoin pa pb on_a on_b jt) e = Some (sql_join_spec (jt_of jt) (combine on_a on_b) ta tb).
Proof. intros N L Ha Hb. cbn [sem_gen]. rewrite Ha, Hb, N. f_equal. apply sem_join_is_spec, L. Qed.
