(* C15, part B: the names in the source (`hard`) are harmless for user names outside `reserved`; names chosen away from
   the user's names (`fresh`) are harmless always; per class of hard-coded name a witness where a user column of that name
   changes the step; name resolution in WITH queries. *)
From Coq Require Import List Bool Arith String Ascii Lia Decimal DecimalString DecimalNat.
Import ListNotations.
From DA Require Import Base.PyRT Base.PyStr Model.ScratchNames Model.ScratchCases Proofs.ScratchP1 Proofs.ScratchP2 Proofs.ScratchP3.
Local Open Scope list_scope.

(* ------------------------------------------------------------------ strings *)
Lemma str_length_app (a b : string) : String.length (a ++ b) = String.length a + String.length b.
Proof. induction a as [|c a IH]; simpl; [reflexivity|]. rewrite IH. reflexivity. Qed.

Lemma str_app_inv_head (p a b : string) : (p ++ a)%string = (p ++ b)%string -> a = b.
Proof. induction p as [|c p IH]; simpl; intros E; [exact E|]. inversion E. apply IH. assumption. Qed.

Lemma str_app_inv_tail (s a b : string) : (a ++ s)%string = (b ++ s)%string -> a = b.
Proof.
  revert b. induction a as [|c a IH]; intros [|d b] E; simpl in E.
  - reflexivity.
  - exfalso. apply (f_equal String.length) in E. simpl in E. rewrite str_length_app in E. lia.
  - exfalso. apply (f_equal String.length) in E. simpl in E. rewrite str_length_app in E. lia.
  - inversion E. f_equal. apply IH. assumption.
Qed.

Lemma strip_prefix_app (p d : string) : strip_prefix p (p ++ d) = Some d.
Proof. induction p as [|c p IH]; simpl; [destruct d; reflexivity|]. destruct (Ascii.eqb c c) eqn:E; [exact IH|]. rewrite Ascii.eqb_refl in E. discriminate. Qed.

Lemma ends_with_refl (s : string) : ends_with s s = true.
Proof. destruct s as [|a s]; [reflexivity|]. cbn [ends_with]. rewrite String.eqb_refl. reflexivity. Qed.

Lemma ends_with_app (s c : string) : ends_with s (c ++ s) = true.
Proof. induction c as [|x c IH]; [apply ends_with_refl|]. cbn [append ends_with]. rewrite IH. apply orb_true_r. Qed.

Lemma all_digits_uint d : all_digits (NilEmpty.string_of_uint d) = true.
Proof. induction d; simpl; try reflexivity; exact IHd. Qed.

Lemma all_digits_dec n : all_digits (dec n) = true.
Proof. apply all_digits_uint. Qed.

Lemma dec_inj i j : dec i = dec j -> i = j.
Proof.
  unfold dec. intros E. apply (f_equal NilEmpty.uint_of_string) in E. rewrite !NilEmpty.usu in E. inversion E as [E'].
  apply (f_equal Nat.of_uint) in E'. rewrite !Unsigned.of_to in E'. exact E'.
Qed.

Lemma max_len_ge u x : In x u -> String.length x <= max_len u.
Proof. induction u as [|y t IH]; simpl; [tauto|]. intros [<-|H]; [lia|]. specialize (IH H). lia. Qed.

Lemma pad_length n : String.length (pad n) = n.
Proof. induction n as [|n IH]; simpl; [reflexivity|]. rewrite IH. reflexivity. Qed.

Lemma padded_fresh u s : ~ In (pad (S (max_len u)) ++ s)%string u.
Proof. intros H. apply max_len_ge in H. rewrite str_length_app, pad_length in H. lia. Qed.

(* ------------------------------------------------------------------ reserved *)
Local Open Scope string_scope.
Lemma reserved_exact_tt : is_reserved SColumn "_data_table_temp_col" = true. Proof. vm_compute. reflexivity. Qed.
Lemma reserved_exact_tg : is_reserved SColumn "_data_algebra_temp_g" = true. Proof. vm_compute. reflexivity. Qed.
Lemma reserved_exact_oi : is_reserved SColumn "_data_algebra_orig_index" = true. Proof. vm_compute. reflexivity. Qed.
Lemma reserved_exact_merge : is_reserved SColumn "data_algebra_temp_merge_col" = true. Proof. vm_compute. reflexivity. Qed.
Lemma reserved_exact_nullkey : is_reserved SColumn "data_algebra_temp_null_key_col" = true. Proof. vm_compute. reflexivity. Qed.

Lemma is_reserved_entry sp e n : In e reserved -> rspace_eqb (r_space e) sp = true -> rmatch e n = true -> is_reserved sp n = true.
Proof. intros I S M. unfold is_reserved. apply existsb_exists. exists e. split; [exact I|]. rewrite S, M. reflexivity. Qed.

Lemma reserved_proj_tmp i : is_reserved SColumn ("data_algebra_project_temp_col_" ++ dec i) = true.
Proof.
  apply (is_reserved_entry SColumn (mkre KPrefixNum "data_algebra_project_temp_col_" SColumn "pandas" "project_const")).
  - unfold reserved. simpl. tauto.
  - reflexivity.
  - unfold rmatch. cbn [r_kind r_text]. rewrite strip_prefix_app. apply all_digits_dec.
Qed.
Lemma reserved_ext_tmp i : is_reserved SColumn ("data_algebra_extend_temp_col_" ++ dec i) = true.
Proof.
  apply (is_reserved_entry SColumn (mkre KPrefixNum "data_algebra_extend_temp_col_" SColumn "pandas" "extend_const")).
  - unfold reserved. simpl. tauto.
  - reflexivity.
  - unfold rmatch. cbn [r_kind r_text]. rewrite strip_prefix_app. apply all_digits_dec.
Qed.
Lemma reserved_right c : is_reserved SColumn (c ++ "_tmp_right_col") = true.
Proof.
  apply (is_reserved_entry SColumn (mkre KSuffix "_tmp_right_col" SColumn "pandas" "join_suffix")).
  - unfold reserved. simpl. tauto.
  - reflexivity.
  - unfold rmatch. cbn [r_kind r_text]. apply ends_with_app.
Qed.

Definition outside_reserved (u : list string) : Prop := forall c, In c u -> is_reserved SColumn c = false.

Lemma outside_not_in u n : outside_reserved u -> is_reserved SColumn n = true -> ~ In n u.
Proof. intros O R H. rewrite (O n H) in R. discriminate. Qed.

Lemma right_not_merge c : c ++ "_tmp_right_col" <> "data_algebra_temp_merge_col".
Proof.
  intros E. assert (H : ends_with "_tmp_right_col" (c ++ "_tmp_right_col") = true) by apply ends_with_app.
  rewrite E in H. vm_compute in H. discriminate.
Qed.

Lemma right_not_nullkey c : c ++ "_tmp_right_col" <> "data_algebra_temp_null_key_col".
Proof.
  intros E. assert (H : ends_with "_tmp_right_col" (c ++ "_tmp_right_col") = true) by apply ends_with_app.
  rewrite E in H. vm_compute in H. discriminate.
Qed.

Theorem hard_good_project u : outside_reserved u -> good_project hard u.
Proof.
  intros O. constructor; cbn [hard n_table_temp n_proj_tmp].
  - apply (outside_not_in u _ O reserved_exact_tt).
  - intros i. apply (outside_not_in u _ O (reserved_proj_tmp i)).
  - intros i E. simpl in E. discriminate.
  - intros i j E. apply str_app_inv_head in E. apply dec_inj, E.
Qed.

Theorem hard_good_wextend u : outside_reserved u -> good_wextend hard u.
Proof.
  intros O. constructor; cbn [hard n_orig_index n_temp_g n_ext_tmp].
  - apply (outside_not_in u _ O reserved_exact_oi).
  - apply (outside_not_in u _ O reserved_exact_tg).
  - intros i. apply (outside_not_in u _ O (reserved_ext_tmp i)).
  - discriminate.
  - intros i E. simpl in E. discriminate.
  - intros i E. simpl in E. discriminate.
  - intros i j E. apply str_app_inv_head in E. apply dec_inj, E.
Qed.

Theorem hard_good_join common u : outside_reserved u -> good_join hard common u.
Proof.
  intros O. constructor; cbn [hard n_merge n_nullkey n_right].
  - apply (outside_not_in u _ O reserved_exact_merge).
  - intros c _. apply (outside_not_in u _ O (reserved_right c)).
  - intros c _. apply right_not_merge.
  - apply (outside_not_in u _ O reserved_exact_nullkey).
  - intros c _. apply right_not_nullkey.
  - discriminate.
  - intros a b _ _ E. apply str_app_inv_tail in E. exact E.
Qed.

Theorem fresh_good_project u : good_project (fresh u) u.
Proof.
  constructor; cbn [fresh n_table_temp n_proj_tmp].
  - apply padded_fresh.
  - intros i. apply padded_fresh.
  - intros i E. apply str_app_inv_head in E. simpl in E. discriminate.
  - intros i j E. apply str_app_inv_head, str_app_inv_head in E. apply dec_inj, E.
Qed.

Theorem fresh_good_wextend u : good_wextend (fresh u) u.
Proof.
  constructor; cbn [fresh n_orig_index n_temp_g n_ext_tmp].
  - apply padded_fresh.
  - apply padded_fresh.
  - intros i. apply padded_fresh.
  - intros E. apply str_app_inv_head in E. discriminate.
  - intros i E. apply str_app_inv_head in E. simpl in E. discriminate.
  - intros i E. apply str_app_inv_head in E. simpl in E. discriminate.
  - intros i j E. apply str_app_inv_head, str_app_inv_head in E. apply dec_inj, E.
Qed.

Theorem fresh_good_join common u : good_join (fresh u) common u.
Proof.
  constructor; cbn [fresh n_merge n_nullkey n_right].
  - apply padded_fresh.
  - intros c _. apply padded_fresh.
  - intros c _ E. apply str_app_inv_head in E. exact (right_not_merge c E).
  - apply padded_fresh.
  - intros c _ E. apply str_app_inv_head in E. exact (right_not_nullkey c E).
  - intros E. apply str_app_inv_head in E. discriminate.
  - intros a b _ _ E. apply str_app_inv_head, str_app_inv_tail in E. exact E.
Qed.
Local Close Scope string_scope.

(* ------------------------------------------------------------------ the three steps under one statement *)
Definition user_names {A} (s : pstep) (f g : frame A) : list string := fcols f ++ fcols g ++ step_names s.

Lemma good_project_sub sn u v : (forall c, In c v -> In c u) -> good_project sn u -> good_project sn v.
Proof.
  intros S [a b c d]. constructor; [| |exact c|exact d].
  - intro H. apply a, S, H.
  - intros i H. apply (b i), S, H.
Qed.
Lemma good_wextend_sub sn u v : (forall c, In c v -> In c u) -> good_wextend sn u -> good_wextend sn v.
Proof.
  intros S [a b c d e f g]. constructor; [| | |exact d|exact e|exact f|exact g].
  - intro H. apply a, S, H.
  - intro H. apply b, S, H.
  - intros i H. apply (c i), S, H.
Qed.
Lemma good_join_sub sn common u v : (forall c, In c v -> In c u) -> good_join sn common u -> good_join sn common v.
Proof.
  intros S [a b c d e f g]. constructor; [| |exact c| |exact e|exact f|exact g].
  - intro H. apply a, S, H.
  - intros x Hx H. apply (b x Hx), S, H.
  - intro H. apply d, S, H.
Qed.

Record good_names {A} (sn : pnames) (s : pstep) (f g : frame A) : Prop := mkgn {
  gn_project : good_project sn (user_names s f g);
  gn_wextend : good_wextend sn (user_names s f g);
  gn_join : good_join sn (step_common s f g) (user_names s f g) }.

Section AllSteps.
  Context {A : Type} (P : prims A).

  Theorem step_no_capture sn s (f g : frame A) :
    NoDup (fcols f) -> NoDup (fcols g) -> good_names sn s f g -> pexec P sn s f g = plain P s f g.
  Proof.
    intros Nf Ng [Gp Gw Gj]. destruct s as [ops gb|ops part order rev|how on nk]; simpl.
    - apply project_no_capture. eapply good_project_sub; [|exact Gp]. intros c Hc. unfold user_names. apply in_or_app. right. apply in_or_app. right. exact Hc.
    - apply wextend_no_capture. eapply good_wextend_sub; [|exact Gw]. intros c Hc. unfold user_names. apply in_app_or in Hc. destruct Hc as [H|H].
      + apply in_or_app. left. exact H.
      + apply in_or_app. right. apply in_or_app. right. exact H.
    - apply join_no_capture; [exact Nf|exact Ng|]. eapply good_join_sub; [|exact Gj]. intros c Hc. unfold user_names. simpl. rewrite !in_app_iff in *. tauto.
  Qed.

  Theorem hard_no_capture_outside_reserved s (f g : frame A) :
    NoDup (fcols f) -> NoDup (fcols g) -> outside_reserved (user_names s f g) -> pexec P hard s f g = plain P s f g.
  Proof.
    intros Nf Ng O. apply step_no_capture; [exact Nf|exact Ng|]. constructor; [apply hard_good_project|apply hard_good_wextend|apply hard_good_join]; exact O.
  Qed.

  Theorem fresh_never_captures s (f g : frame A) :
    NoDup (fcols f) -> NoDup (fcols g) -> pexec P (fresh (user_names s f g)) s f g = plain P s f g.
  Proof.
    intros Nf Ng. apply step_no_capture; [exact Nf|exact Ng|]. constructor; [apply fresh_good_project|apply fresh_good_wextend|apply fresh_good_join].
  Qed.

  (* the plain steps have no names of their own: every column of a result is a user name *)
End AllSteps.

(* ------------------------------------------------------------------ witnesses: a user column named like a scratch column *)
Lemma eqb_false_neq {X} `{EqDec X} (x y : X) : eqb x y = false -> x <> y.
Proof. intros E ->. rewrite eqb_refl in E. discriminate. Qed.

Local Open Scope string_scope.
Definition wit (s : pstep) (l r : list string) : Prop :=
  pexec sym hard s (sframe "<L:" l) (sframe "<R:" r) <> plain sym s (sframe "<L:" l) (sframe "<R:" r).

Theorem project_ones_capture_refuted :       (* the group column is called _data_table_temp_col: every row falls into one group *)
  wit (PProject [mksop "s" "sum" (ArgCol "x") []] ["_data_table_temp_col"]) ["_data_table_temp_col"; "x"] [].
Proof. apply eqb_false_neq. vm_compute. reflexivity. Qed.

Theorem project_ones_output_dropped_refuted : (* the OUTPUT column is called _data_table_temp_col: it is dropped from the result *)
  wit (PProject [mksop "_data_table_temp_col" "sum" (ArgCol "x") []] ["g"]) ["g"; "x"] [].
Proof. apply eqb_false_neq. vm_compute. reflexivity. Qed.

Theorem project_const_capture_refuted :      (* the group column is called data_algebra_project_temp_col_0 and a constant is aggregated *)
  wit (PProject [mksop "c" "sum" (ArgVal "2") []] ["data_algebra_project_temp_col_0"]) ["data_algebra_project_temp_col_0"; "x"] [].
Proof. apply eqb_false_neq. vm_compute. reflexivity. Qed.

Theorem extend_standin_capture_refuted :     (* the window function's argument column is called _data_algebra_temp_g: ones are summed *)
  wit (PWExtend [mksop "s" "sum" (ArgCol "_data_algebra_temp_g") []] ["g"] [] []) ["g"; "_data_algebra_temp_g"] [].
Proof. apply eqb_false_neq. vm_compute. reflexivity. Qed.

Theorem extend_orig_index_capture_refuted :  (* the argument column is called _data_algebra_orig_index: the row index is accumulated *)
  wit (PWExtend [mksop "c" "cumsum" (ArgCol "_data_algebra_orig_index") []] ["g"] ["y"] []) ["g"; "_data_algebra_orig_index"; "y"] [].
Proof. apply eqb_false_neq. vm_compute. reflexivity. Qed.

Theorem extend_const_capture_refuted :       (* an unrelated column is called data_algebra_extend_temp_col_0: it is overwritten, then DELETED *)
  wit (PWExtend [mksop "c" "cumsum" (ArgVal "2") []] ["g"] ["y"] []) ["g"; "y"; "data_algebra_extend_temp_col_0"] [].
Proof. apply eqb_false_neq. vm_compute. reflexivity. Qed.

Theorem join_merge_key_capture_refuted :     (* a keyless join; a left column is called data_algebra_temp_merge_col: overwritten, then deleted *)
  wit (PJoin "CROSS" [] false) ["g"; "data_algebra_temp_merge_col"] ["q"].
Proof. apply eqb_false_neq. vm_compute. reflexivity. Qed.

Theorem join_suffix_capture_refuted :        (* x is shared and not a key; a left column is called x_tmp_right_col: the merge raises *)
  wit (PJoin "LEFT" ["k"] false) ["k"; "x"; "x_tmp_right_col"] ["k"; "x"] /\ pexec sym hard (PJoin "LEFT" ["k"] false) (sframe "<L:" ["k"; "x"; "x_tmp_right_col"]) (sframe "<R:" ["k"; "x"]) = None.
Proof. split; [apply eqb_false_neq; vm_compute; reflexivity|vm_compute; reflexivity]. Qed.

(* the same frames with ordinary names satisfy the guard of hard_no_capture_outside_reserved (non-vacuity) *)
Example outside_reserved_example : outside_reserved (user_names (PProject [mksop "s" "sum" (ArgCol "x") []] ["g"]) (sframe "<L:" ["g"; "x"]) (sframe "<R:" [])).
Proof. intros c H. simpl in H. repeat (destruct H as [<-|H]; [vm_compute; reflexivity|]). contradiction. Qed.
Local Close Scope string_scope.

(* ------------------------------------------------------------------ SQL: names in a WITH query *)
Theorem with_no_capture q :
  wq_wellformed q = true -> (forall n, In n (wq_tables q) -> ~ In n (w_ctes q)) -> captured_refs q = [].
Proof.
  intros W D. unfold captured_refs. unfold wq_wellformed in W. rewrite forallb_forall in W.
  assert (H : forall r, In r (w_refs q) -> negb (target_eqb (resolve (w_ctes q) r) (intended r)) = false).
  { intros r Hr. apply negb_false_iff. destruct r as [n|n]; unfold resolve; simpl.
    - assert (M : mem n (w_ctes q) = false). { apply mem_false, D. unfold wq_tables. apply in_flat_map. exists (RTable n). split; [exact Hr|left; reflexivity]. }
      rewrite M. simpl. apply String.eqb_refl.
    - rewrite (W _ Hr). simpl. apply String.eqb_refl. }
  clear W D. induction (w_refs q) as [|r t IH]; simpl; [reflexivity|]. rewrite (H r (or_introl eq_refl)). apply IH. intros r' Hr'. apply H. right. exact Hr'.
Qed.

Local Open Scope string_scope.
Theorem with_view_name_capture_refuted :      (* a user table called extend_0 read by a query whose first view is extend_0 *)
  exists q, wq_wellformed q = true /\ In "extend_0" (wq_tables q) /\ is_reserved STable "extend_0" = true /\ captured_refs q <> [].
Proof. exists (mkwq ["extend_0"] [RTable "extend_0"; RView "extend_0"]). repeat split; try (vm_compute; reflexivity); [simpl; tauto|vm_compute; discriminate]. Qed.

(* every generated view or alias name has a reserved form; a table name outside `reserved` is none of them *)
Theorem outside_reserved_tables_not_captured q :
  wq_wellformed q = true -> (forall v, In v (w_ctes q) -> is_reserved STable v = true) ->
  (forall n, In n (wq_tables q) -> is_reserved STable n = false) -> captured_refs q = [].
Proof. intros W V T. apply with_no_capture; [exact W|]. intros n Hn Hc. specialize (T n Hn). rewrite (V n Hc) in T. discriminate. Qed.
Local Close Scope string_scope.

(* ------------------------------------------------------------------ SQL: the view numbering of to_sql (161d83f) *)
Lemma to_uint_nonnil n : Nat.to_uint n <> Nil.
Proof.
  destruct n as [|n]; [vm_compute; discriminate|]. intros E. apply (f_equal Nat.of_uint) in E. rewrite Unsigned.of_to in E. simpl in E. discriminate.
Qed.

Lemma parse_nat_dec i : parse_nat (dec i) = Some i.
Proof.
  unfold parse_nat. rewrite all_digits_dec. unfold dec. rewrite NilEmpty.usu. simpl. rewrite Unsigned.of_to.
  destruct (NilEmpty.string_of_uint (Nat.to_uint i)) eqn:E; [|reflexivity].
  exfalso. apply (to_uint_nonnil i). destruct (Nat.to_uint i); simpl in E; try discriminate. reflexivity.
Qed.

Lemma fold_max_ge l x : In x l -> x <= fold_right Nat.max 0 l.
Proof. induction l as [|y t IH]; simpl; [tauto|]. intros [->|H]; [lia|]. specialize (IH H). lia. Qed.

(* no view the generator can produce for these tables is one of the tables *)
Theorem generated_view_is_no_table tables p i t :
  In p view_kinds -> In t tables -> first_view_id tables <= i -> t <> (p ++ dec i)%string.
Proof.
  intros Hp Ht Hi E. subst t.
  assert (H : In (S i) (flat_map (fun t => map S (view_numbers t)) tables)).
  { apply in_flat_map. exists (p ++ dec i)%string. split; [exact Ht|]. apply in_map. unfold view_numbers. apply in_flat_map. exists p. split; [exact Hp|].
    rewrite strip_prefix_app, parse_nat_dec. left. reflexivity. }
  apply fold_max_ge in H. unfold first_view_id in Hi. lia.
Qed.

Lemma generated_view_name_spec tables v : generated_view_name tables v = true -> exists p i, In p view_kinds /\ first_view_id tables <= i /\ forall t, In t tables -> t <> v.
Proof.
  unfold generated_view_name. intros H. apply existsb_exists in H. destruct H as [p [Hp H]].
  destruct (strip_prefix p v) as [d|] eqn:Es; [|discriminate]. destruct (parse_nat d) as [n|] eqn:Ep; [|discriminate]. apply Nat.leb_le in H.
  exists p, n. split; [exact Hp|]. split; [exact H|]. intros t Ht E. subst t.
  assert (Hin : In (S n) (flat_map (fun t => map S (view_numbers t)) tables)).
  { apply in_flat_map. exists v. split; [exact Ht|]. apply in_map. unfold view_numbers. apply in_flat_map. exists p. split; [exact Hp|]. rewrite Es, Ep. left. reflexivity. }
  apply fold_max_ge in Hin. unfold first_view_id in H. lia.
Qed.

(* a WITH query whose views carry names the generator produces for its tables resolves every name as meant: no guard on
   how the user's tables are called *)
Theorem with_query_numbered_no_capture q :
  wq_wellformed q = true -> forallb (generated_view_name (wq_tables q)) (w_ctes q) = true -> captured_refs q = [].
Proof.
  intros W G. apply with_no_capture; [exact W|]. intros n Hn Hc. rewrite forallb_forall in G.
  destruct (generated_view_name_spec _ _ (G n Hc)) as [p [i [_ [_ D]]]]. exact (D n Hn eq_refl).
Qed.
