(* SQLGEN, part 2: the invariant of the generator (`Delivers`): what a generated NearSQL step supplies to whoever wraps it in a
   container, how narrowing its terms (select_columns / drop_columns) preserves it, and the generic lemma for a freshly built
   unary step. *)
From Coq Require Import List Bool Arith ZArith QArith String Lia.
Import ListNotations.
From DA Require Import Base.PyRT Base.Val Model.Sem Proofs.SemBasicP Model.ColumnsUsed Proofs.ColumnsUsedP1 Proofs.ColumnsUsedP2
  Model.SqlGen Model.SqlSem Proofs.SqlGenP1.
Local Open Scope list_scope.

Section Inv.
Variable fl : flavor.
Variable e : env.

(* q, generated for the request u, against the table T the pipeline denotes:
   - asked (through a container's `columns`) for any non-empty part K of its own terms it returns as many rows as T has,
     and exactly the projection of T when K is part of the request u;
   - asked for no column at all it still returns as many rows as T has;
   - a table step referred to by name stands for a stored table with as many rows as T. *)
Record Delivers (q : tnear) (u : list string) (T : table) : Prop := {
  dv_nodup : NoDup (tkeys q);
  dv_incl : incl u (tkeys q);
  dv_cols : incl u (cols T);
  dv_sel : forall K, K <> [] -> NoDup K -> incl K (tkeys q) ->
           exists R, qsem fl e q (Some K) = Some R /\ sel [] R = sel [] T /\ (incl K u -> R = sel K T) /\
                     (forall C, NoDup C -> incl C K -> incl C u -> sel C R = sel C T);
  dv_nil : exists R, qsem fl e q (Some []) = Some R /\ sel [] R = sel [] T;
  dv_table : forall n ts, q = TTable n ts -> exists st, dict_get e n = Some st /\ sel [] st = sel [] T
}.

Lemma delivers_mono q u u' T : Delivers q u T -> incl u' u -> Delivers q u' T.
Proof.
  intros D I. destruct D as [A B C0 C D0 E0]. constructor; try assumption.
  - intros x Hx. apply B, I, Hx.
  - intros x Hx. apply C0, I, Hx.
  - intros K NE N IK. destruct (C K NE N IK) as [R [E1 [E2 [E3 E4]]]]. exists R. split; [exact E1|]. split; [exact E2|]. split.
    + intros IKu. apply E3. intros x Hx. apply I, IKu, Hx.
    + intros C1 N1 I1 I2. apply E4; [exact N1|exact I1|]. intros x Hx. apply I, I2, Hx.
Qed.

(* what the parent sees through a container asking for the columns C *)
Lemma deliver_csem q u T C f pub :
  Delivers q u T -> NoDup C -> incl C u ->
  exists S', csem fl e q (mk_tci (Some C) f pub) = Some S' /\ RA C T S' /\
             (C <> [] -> by_name q (mk_tci (Some C) f pub) = false -> S' = sel C T).
Proof.
  intros D N I. unfold csem. destruct (by_name q (mk_tci (Some C) f pub)) eqn:BN.
  - destruct q as [n ts| |]; try discriminate. destruct (dv_table _ _ _ D n ts eq_refl) as [st [E1 E2]].
    rewrite E1. exists st. split; [reflexivity|]. split; [|intros _ X; discriminate].
    destruct C as [|c0 C'].
    + apply RA_of_sel_eq. symmetry. exact E2.
    + assert (incl (c0 :: C') (tkeys (TTable n ts))) as IK by (intros x Hx; apply (dv_incl _ _ _ D), I, Hx).
      destruct (dv_sel _ _ _ D (c0 :: C') ltac:(discriminate) N IK) as [R [Q1 [Q2 [Q3 _]]]].
      simpl in Q1. rewrite E1 in Q1. injection Q1 as Q1. apply RA_of_sel_eq. rewrite <- (Q3 I), <- Q1. reflexivity.
  - cbn [tc_cols]. destruct C as [|c0 C'].
    + destruct (dv_nil _ _ _ D) as [R [E1 E2]]. exists R. split; [exact E1|]. split; [|intros X; congruence].
      apply RA_of_sel_eq. symmetry. exact E2.
    + assert (incl (c0 :: C') (tkeys q)) as IK by (intros x Hx; apply (dv_incl _ _ _ D), I, Hx).
      destruct (dv_sel _ _ _ D (c0 :: C') ltac:(discriminate) N IK) as [R [Q1 [Q2 [Q3 _]]]].
      exists R. split; [exact Q1|]. rewrite (Q3 I). split; [apply RA_sel|reflexivity].
Qed.

(* ------------------------------------------------------------------ reading qsem *)
Lemma qsem_unary nm tms s ci sfx mg dp want :
  qsem fl e (TUnary nm tms s ci sfx mg dp) want =
  match csem fl e s ci with Some t => sql_select fl true tms want sfx t | None => None end.
Proof. reflexivity. Qed.

Lemma select_keys_own_nil l : l <> [] -> select_keys true (Some l) (Some []) = select_keys true (Some l) (Some (map fst l)).
Proof. destruct l as [|a t]; [congruence|]. reflexivity. Qed.
Lemma select_keys_none_own own l : l <> [] -> select_keys own (Some l) None = select_keys own (Some l) (Some (map fst l)).
Proof. destruct l as [|a t]; [congruence|]. intros _. unfold select_keys. reflexivity. Qed.
Lemma select_keys_some own l K : K <> [] -> select_keys own (Some l) (Some K) = Some K.
Proof. destruct K as [|k0 K']; [congruence|]. intros _. unfold select_keys. simpl. rewrite andb_false_r. reflexivity. Qed.

Lemma sql_select_keys_eq own tms want want' sfx t :
  select_keys own tms want = select_keys own tms want' -> sql_select fl own tms want sfx t = sql_select fl own tms want' sfx t.
Proof. intros E. unfold sql_select. rewrite E. reflexivity. Qed.

(* the SELECT list depends on the terms only through the entries of the selected keys *)
Lemma sql_select_terms_eq own l l' K sfx t :
  K <> [] -> (forall k, In k K -> term_of l k = term_of l' k) ->
  sql_select fl own (Some l) (Some K) sfx t = sql_select fl own (Some l') (Some K) sfx t.
Proof.
  intros NE H. unfold sql_select. rewrite !select_keys_some by exact NE.
  assert (map (item_of_terms l) K = map (item_of_terms l') K) as EM.
  { apply map_ext_in. intros k Ik. unfold item_of_terms. rewrite (H k Ik). reflexivity. }
  rewrite EM. reflexivity.
Qed.

(* the whole query: columns=None means the step's own terms *)
Lemma qsem_none_own q : tkeys q <> [] -> qsem fl e q None = qsem fl e q (Some (tkeys q)).
Proof.
  destruct q as [n0 ts|nm l s ci sfx mg dp|nm l s1 c1 j s2 c2 on]; simpl; intros NE.
  - destruct ts as [ts|]; [|congruence]. destruct (dict_get e n0); reflexivity.
  - destruct l as [l|]; [|congruence].
    assert (l <> []) as NL by (intros ->; apply NE; reflexivity).
    destruct (if by_name s ci then _ else _); [|reflexivity]. apply sql_select_keys_eq, select_keys_none_own, NL.
  - destruct l as [l|]; [|congruence].
    assert (l <> []) as NL by (intros ->; apply NE; reflexivity).
    destruct (if by_name s1 c1 then _ else _); [|reflexivity]. destruct (if by_name s2 c2 then _ else _); [|reflexivity].
    destruct j.
    + destruct l as [|a l']; [congruence|reflexivity].
    + destruct (union_all t t0); [|reflexivity]. apply sql_select_keys_eq, select_keys_none_own, NL.
Qed.

(* ------------------------------------------------------------------ narrowing the terms of a step *)
Lemma term_of_restrict l K k : In k K -> In k (map fst l) ->
  term_of (flat_map (fun k => match dict_get l k with Some v => [(k, v)] | None => [] end) K) k = term_of l k.
Proof.
  intros Ik Il. unfold term_of. induction K as [|x K' IH]; [destruct Ik|]. cbn [flat_map].
  destruct (dict_get l x) as [v|] eqn:Ex.
  - cbn [app dict_get]. destruct (eq_dec k x) as [->|n].
    + rewrite Ex. reflexivity.
    + apply IH. destruct Ik; [congruence|assumption].
  - cbn [app]. destruct (eq_dec k x) as [->|n].
    + exfalso. apply dict_get_None in Ex. apply Ex. exact Il.
    + apply IH. destruct Ik; [congruence|assumption].
Qed.

Lemma keys_restrict (l : terms) K : incl K (map fst l) ->
  map fst (flat_map (fun k => match dict_get l k with Some v => [(k, v)] | None => [] end) K) = K.
Proof.
  induction K as [|x K' IH]; intros I; [reflexivity|]. simpl.
  destruct (dict_get l x) as [v|] eqn:Ex.
  - simpl. f_equal. apply IH. intros y Hy. apply I. right. exact Hy.
  - exfalso. apply dict_get_None in Ex. apply Ex. apply I. left. reflexivity.
Qed.

Lemma restrict_terms_keys q K q' : restrict_terms q K = Some q' -> tkeys q' = K /\ incl K (tkeys q).
Proof.
  destruct q as [n ts|nm l s ci sfx mg dp|nm l s1 c1 j s2 c2 on]; simpl.
  - destruct (subset K _) eqn:Sb; [|discriminate]. intros [= <-]. pose proof (proj1 (subset_spec _ _) Sb) as Sb'. split; [reflexivity|]. destruct ts; exact Sb'.
  - destruct (subset K _) eqn:Sb; [|discriminate]. intros [= <-]. pose proof (proj1 (subset_spec _ _) Sb) as Sb'. split.
    + simpl. destruct l as [l|]; [apply keys_restrict; exact Sb'|]. destruct K as [|k0 K']; [reflexivity|]. destruct (Sb' k0 (or_introl eq_refl)).
    + destruct l; exact Sb'.
  - destruct (subset K _) eqn:Sb; [|discriminate]. intros [= <-]. pose proof (proj1 (subset_spec _ _) Sb) as Sb'. split.
    + simpl. destruct l as [l|]; [apply keys_restrict; exact Sb'|]. destruct K as [|k0 K']; [reflexivity|]. destruct (Sb' k0 (or_introl eq_refl)).
    + destruct l; exact Sb'.
Qed.

(* a narrowed step answers a request inside its remaining terms as the original step does *)
Lemma restrict_qsem q K q' C : restrict_terms q K = Some q' -> C <> [] -> incl C K ->
  qsem fl e q' (Some C) = qsem fl e q (Some C).
Proof.
  intros E NE I. destruct (restrict_terms_keys _ _ _ E) as [_ IK].
  destruct q as [n ts|nm l s ci sfx mg dp|nm l s1 c1 j s2 c2 on]; simpl in E.
  - destruct (subset K _); [|discriminate]. injection E as <-. simpl. destruct C; [congruence|]. reflexivity.
  - destruct (subset K _) eqn:Sb; [|discriminate]. injection E as <-. rewrite !qsem_unary.
    destruct (csem fl e s ci); [|reflexivity]. destruct l as [l|].
    + apply sql_select_terms_eq; [exact NE|]. intros k Ik. apply term_of_restrict; [apply I, Ik|]. apply IK, I, Ik.
    + simpl in IK. destruct C as [|c0 C']; [congruence|]. exfalso. apply (IK c0). apply I. left. reflexivity.
  - destruct (subset K _) eqn:Sb; [|discriminate]. injection E as <-. simpl.
    destruct (if by_name s1 c1 then _ else _); [|reflexivity]. destruct (if by_name s2 c2 then _ else _); [|reflexivity].
    destruct l as [l|].
    2:{ simpl in IK. destruct C as [|c0 C']; [congruence|]. exfalso. apply (IK c0). apply I. left. reflexivity. }
    assert (forall k, In k C -> term_of (flat_map (fun k => match dict_get l k with Some v => [(k, v)] | None => [] end) K) k = term_of l k) as TE.
    { intros k Ik. apply term_of_restrict; [apply I, Ik|]. apply IK, I, Ik. }
    destruct j.
    + unfold sql_join_select. rewrite !select_keys_some by exact NE.
      assert (map (item_of_terms (flat_map (fun k => match dict_get l k with Some v => [(k, v)] | None => [] end) K)) C = map (item_of_terms l) C) as EM.
      { apply map_ext_in. intros k Ik. unfold item_of_terms. rewrite (TE k Ik). reflexivity. }
      rewrite EM. reflexivity.
    + destruct (union_all t t0); [|reflexivity]. apply sql_select_terms_eq; [exact NE|exact TE].
Qed.

(* asked for nothing: a unary step writes its own terms; a table is read whole; a binary step writes "*" whatever its terms *)
Lemma restrict_qsem_nil q K q' : restrict_terms q K = Some q' -> K <> [] -> tkeys q <> [] ->
  qsem fl e q' (Some []) = match q with
                           | TUnary _ _ _ _ _ _ _ => qsem fl e q (Some K)
                           | _ => qsem fl e q (Some [])
                           end.
Proof.
  intros E NE NQ. pose proof (restrict_qsem q K q' K E NE (incl_refl K)) as RQ.
  destruct (restrict_terms_keys _ _ _ E) as [EK IK].
  destruct q as [n ts|nm l s ci sfx mg dp|nm l s1 c1 j s2 c2 on]; simpl in E.
  - destruct (subset K _); [|discriminate]. injection E as <-. reflexivity.
  - rewrite <- RQ. destruct (subset K _) eqn:Sb; [|discriminate]. injection E as <-. rewrite !qsem_unary.
    destruct (csem fl e s ci); [|reflexivity]. apply sql_select_keys_eq.
    simpl in EK. remember (flat_map _ K) as L' eqn:EL in *.
    assert (L' <> []) as NL' by (intros X; rewrite X in EK; simpl in EK; congruence).
    pose proof (select_keys_own_nil L' NL') as X. rewrite EK in X. exact X.
  - destruct (subset K _) eqn:Sb; [|discriminate]. injection E as <-. simpl.
    destruct (if by_name s1 c1 then _ else _); [|reflexivity]. destruct (if by_name s2 c2 then _ else _); [|reflexivity].
    destruct l as [l|]; [|simpl in NQ; congruence].
    assert (l <> []) as NL by (intros ->; apply NQ; reflexivity).
    assert (flat_map (fun k => match dict_get l k with Some v => [(k, v)] | None => [] end) K <> []) as NL'.
    { intros X. simpl in EK. rewrite X in EK. simpl in EK. congruence. }
    destruct j.
    + unfold sql_join_select. destruct l; [congruence|]. destruct (flat_map _ K); [congruence|]. reflexivity.
    + destruct (union_all t t0); [|reflexivity]. unfold sql_select. destruct l; [congruence|]. destruct (flat_map _ K); [congruence|]. reflexivity.
Qed.

(* select_columns / drop_columns narrow the step to K; the pipeline's table changes from T to T' (a projection of T) *)
Lemma delivers_narrow q u T K q' u' T' :
  Delivers q u T -> restrict_terms q K = Some q' -> K <> [] -> NoDup K ->
  incl u' K -> incl u' u -> incl u' (cols T') ->
  sel [] T' = sel [] T -> (forall C, incl C u' -> sel C T' = sel C T) ->
  Delivers q' u' T'.
Proof.
  intros D E NE N IuK Iuu IuT E0 EC. destruct (restrict_terms_keys _ _ _ E) as [EK IK].
  assert (tkeys q <> []) as NQ. { destruct K as [|k0 K']; [congruence|]. intros X. specialize (IK k0 (or_introl eq_refl)). rewrite X in IK. destruct IK. }
  constructor.
  - rewrite EK. exact N.
  - rewrite EK. exact IuK.
  - exact IuT.
  - intros C NC NDC IC. rewrite EK in IC. rewrite (restrict_qsem q K q' C E NC IC).
    assert (incl C (tkeys q)) as ICq by (intros x Hx; apply IK, IC, Hx).
    destruct (dv_sel _ _ _ D C NC NDC ICq) as [R [Q1 [Q2 [Q3 Q4]]]]. exists R. split; [exact Q1|]. split; [congruence|]. split.
    + intros ICu. rewrite (EC C ICu). apply Q3. intros x Hx. apply Iuu, ICu, Hx.
    + intros C1 N1 I1 I2. rewrite (EC C1 I2). apply Q4; [exact N1|exact I1|]. intros x Hx. apply Iuu, I2, Hx.
  - rewrite (restrict_qsem_nil q K q' E NE NQ). destruct q as [n ts|nm l s ci sfx mg dp|nm l s1 c1 j s2 c2 on].
    + destruct (dv_nil _ _ _ D) as [R [Q1 Q2]]. exists R. split; [exact Q1|congruence].
    + destruct (dv_sel _ _ _ D K NE N IK) as [R [Q1 [Q2 _]]]. exists R. split; [exact Q1|congruence].
    + destruct (dv_nil _ _ _ D) as [R [Q1 Q2]]. exists R. split; [exact Q1|congruence].
  - intros n ts Eq. subst q'. destruct q as [n0 ts0| |]; simpl in E; try (destruct (subset K _); discriminate).
    destruct (subset K _); [|discriminate]. injection E as <- _. destruct (dv_table _ _ _ D n0 ts0 eq_refl) as [st [A B]].
    exists st. split; [exact A|congruence].
Qed.

(* the step had no terms at all and gets the empty dict (`subsql.terms = []`): it still supplies the rows *)
Lemma delivers_empty_terms q T T' :
  Delivers q [] T -> tkeys q = [] -> sel [] T' = sel [] T -> Delivers (empty_terms q) [] T'.
Proof.
  intros D EK E0.
  assert (tkeys (empty_terms q) = []) as EK' by (destruct q; reflexivity).
  assert (qsem fl e (empty_terms q) (Some []) = qsem fl e q (Some [])) as EQ.
  { destruct q as [n ts|nm l s ci sfx mg dp|nm l s1 c1 j s2 c2 on]; simpl in *.
    - reflexivity.
    - destruct (if by_name s ci then _ else _); [|reflexivity]. destruct l as [[|a t0]|]; try reflexivity. discriminate.
    - destruct (if by_name s1 c1 then _ else _); [|reflexivity]. destruct (if by_name s2 c2 then _ else _); [|reflexivity].
      destruct l as [[|a t1]|]; reflexivity. }
  constructor.
  - rewrite EK'. constructor.
  - intros x [].
  - intros x [].
  - intros K NE _ IK. rewrite EK' in IK. destruct K as [|k0 K']; [congruence|]. destruct (IK k0 (or_introl eq_refl)).
  - rewrite EQ. destruct (dv_nil _ _ _ D) as [R [Q1 Q2]]. exists R. split; [exact Q1|congruence].
  - intros n ts Eq. destruct q as [n0 ts0| |]; simpl in Eq; try discriminate. injection Eq as <- _.
    destruct (dv_table _ _ _ D n0 ts0 eq_refl) as [st [A B]]. exists st. split; [exact A|congruence].
Qed.

(* ------------------------------------------------------------------ a freshly built unary step without aggregation *)
(* sub delivers S on us; the step's SELECT, evaluated on the PRUNED input sel us S, is the projection of T for every request
   inside u; requested items and suffix read only us; any own key can be selected and gives as many rows as SELECT * *)
Lemma fresh_unary sub us S nm tms sfx mg dp u T :
  Delivers sub us S -> NoDup us ->
  tms <> [] -> NoDup (map fst tms) -> incl u (map fst tms) -> incl u (cols T) ->
  (forall K, K <> [] -> NoDup K -> incl K u -> sql_select fl true (Some tms) (Some K) sfx (sel us S) = Some (sel K T)) ->
  (forall k, In k u -> incl (item_cols (k, term_of tms k)) us) -> incl (sfx_cols sfx) us ->
  (forall K A, K <> [] -> incl K (map fst tms) ->
     exists R X, sql_select fl true (Some tms) (Some K) sfx A = Some R /\ sql_select fl true None None sfx A = Some X /\ sel [] R = sel [] X) ->
  (exists X, sql_select fl true None None sfx (sel us S) = Some X /\ sel [] X = sel [] T) ->
  (forall K C A R, C <> [] -> incl C K -> incl K (map fst tms) ->
     sql_select fl true (Some tms) (Some K) sfx A = Some R -> sql_select fl true (Some tms) (Some C) sfx A = Some (sel C R)) ->
  Delivers (TUnary nm (Some tms) sub (mk_tci (Some us) false None) sfx mg dp) u T.
Proof.
  intros D Nus NT ND Iu IuT Hex Hloc Hsfx Hcnt Hstar Hsub.
  destruct (deliver_csem sub us S us false None D Nus (incl_refl us)) as [S' [ES [RS _]]].
  assert (RA us (sel us S) S') as RS1 by (eapply RA_trans; [apply RA_sym, RA_sel|exact RS]).
  assert (forall K, K <> [] -> NoDup K -> incl K u -> sql_select fl true (Some tms) (Some K) sfx S' = Some (sel K T)) as Exact.
  { intros K NE NK IKu.
    assert (sql_select fl true (Some tms) (Some K) sfx (sel us S) = sql_select fl true (Some tms) (Some K) sfx S') as EL.
    { apply (sql_select_local fl us); [exact RS1|exact NE| |exact Hsfx]. intros k Ik. apply Hloc, IKu, Ik. }
    rewrite <- EL. apply Hex; assumption. }
  assert (forall K, K <> [] -> NoDup K -> incl K (map fst tms) ->
          exists R, sql_select fl true (Some tms) (Some K) sfx S' = Some R /\ sel [] R = sel [] T /\ (incl K u -> R = sel K T) /\
                    (forall C, NoDup C -> incl C K -> incl C u -> sel C R = sel C T)) as Main.
  { intros K NE NK IK. destruct (Hcnt K S' NE IK) as [R [X [E1 [E2 E3]]]]. exists R. split; [exact E1|].
    assert (sel [] R = sel [] T) as ER0.
    { destruct Hstar as [X0 [F1 F2]].
      pose proof (sql_select_star_rows fl true None None sfx (sel us S) S' us RS1 eq_refl Hsfx) as SR.
      rewrite F1, E2 in SR. congruence. }
    split; [exact ER0|]. split.
    - intros IKu. rewrite (Exact K NE NK IKu) in E1. congruence.
    - intros C NC IC ICu. destruct C as [|c0 C']; [rewrite ER0; reflexivity|].
      pose proof (Hsub K (c0 :: C') S' R ltac:(discriminate) IC IK E1) as E4.
      rewrite (Exact (c0 :: C') ltac:(discriminate) NC ICu) in E4. congruence. }
  constructor.
  - exact ND.
  - exact Iu.
  - exact IuT.
  - intros K NE NK IK. rewrite qsem_unary, ES. apply Main; assumption.
  - rewrite qsem_unary, ES. rewrite (sql_select_keys_eq true (Some tms) (Some []) (Some (map fst tms))) by (apply select_keys_own_nil, NT).
    destruct (Main (map fst tms)) as [R [E1 [E2 _]]]; [destruct tms; [congruence|discriminate]|exact ND|apply incl_refl|].
    exists R. split; assumption.
  - intros n ts X. discriminate.
Qed.

(* the same step with no terms (written SELECT * ): nothing was requested *)
Lemma fresh_unary_star sub us S nm sfx mg dp T :
  Delivers sub us S -> NoDup us -> incl (sfx_cols sfx) us ->
  (exists X, sql_select fl true None None sfx (sel us S) = Some X /\ sel [] X = sel [] T) ->
  Delivers (TUnary nm None sub (mk_tci (Some us) false None) sfx mg dp) [] T.
Proof.
  intros D Nus Hsfx [X0 [F1 F2]].
  destruct (deliver_csem sub us S us false None D Nus (incl_refl us)) as [S' [ES [RS _]]].
  assert (RA us (sel us S) S') as RS1 by (eapply RA_trans; [apply RA_sym, RA_sel|exact RS]).
  constructor.
  - constructor.
  - intros x [].
  - intros x [].
  - intros K NE _ IK. destruct K as [|k0 K']; [congruence|]. destruct (IK k0 (or_introl eq_refl)).
  - rewrite qsem_unary, ES.
    pose proof (sql_select_star_rows fl true None (Some []) sfx (sel us S) S' us RS1 eq_refl Hsfx) as SR.
    assert (forall A, sql_select fl true None (Some []) sfx A = sql_select fl true None None sfx A) as EN by reflexivity.
    rewrite !EN in SR. rewrite F1 in SR. destruct (sql_select fl true None None sfx S') as [Y|] eqn:EY; [|destruct SR].
    exists Y. rewrite EN, EY. split; [reflexivity|congruence].
  - intros n ts X. discriminate.
Qed.

End Inv.
