(* C21, part 3: what a windowed extend with ONE assignment computes, row by row (Model/Sem.v sem_wextend):
   the value of row i is found in the piece of the row's own partition (window_lookup); for cumsum over a strictly
   ordered partition it is the sum over the rows at or before it (cumsum_value); for _row_number the values are
   distinct naturals (row_number_value); for an unordered aggregate it is the aggregate of the partition. *)
From Coq Require Import List Bool Arith ZArith QArith String Lia Permutation Sorted.
Import ListNotations.
From DA Require Import Base.PyRT Base.Val Model.Sem Model.Solutions Proofs.SemBasicP Proofs.SemOrderP Proofs.SolutionsP1.
Local Open Scope string_scope.
Local Open Scope list_scope.

(* ------------------------------------------------------------------ qn, sums *)
Lemma qn_ext x y : x == y -> qn x = qn y.
Proof. intros E. unfold qn. f_equal. apply Qred_complete, E. Qed.
Lemma fold_Qplus_acc l : forall a, fold_left Qplus l a == a + fold_left Qplus l 0.
Proof. induction l as [|x t IH]; intros a; simpl; [ring|]. rewrite (IH (a + x)), (IH (0 + x)). ring. Qed.
Lemma qsum_cons x l : qsum (x :: l) == x + qsum l.
Proof. unfold qsum. simpl. rewrite fold_Qplus_acc. ring. Qed.
Lemma qsum_nil : qsum [] == 0.
Proof. reflexivity. Qed.
Lemma qsum_app a b : qsum (a ++ b) == qsum a + qsum b.
Proof. induction a as [|x t IH]; simpl; [rewrite qsum_nil; ring|]. rewrite !qsum_cons, IH. ring. Qed.
Lemma qsum_perm a b : Permutation a b -> qsum a == qsum b.
Proof. induction 1 as [|x l l' P IH|x y l|l l' l'' P1 IH1 P2 IH2]; [reflexivity| | |].
  - rewrite !qsum_cons, IH. reflexivity.
  - rewrite !qsum_cons. ring.
  - rewrite IH1. exact IH2. Qed.
Lemma qsum_ext {A} (f g : A -> Q) l : (forall x, In x l -> f x == g x) -> qsum (map f l) == qsum (map g l).
Proof. induction l as [|x t IH]; intros H; simpl; [reflexivity|]. rewrite !qsum_cons, (H x (or_introl eq_refl)), IH; [reflexivity|].
  intros y I. apply H. right. exact I. Qed.
Lemma qsum_const {A} (l : list A) c : qsum (map (fun _ => c) l) == inject_Z (Z.of_nat (List.length l)) * c.
Proof. induction l as [|x t IH]; [simpl; rewrite qsum_nil; ring|]. cbn [map List.length]. rewrite qsum_cons, IH, Nat2Z.inj_succ. unfold Z.succ. rewrite inject_Z_plus. ring. Qed.

(* ------------------------------------------------------------------ tagged rows *)
Lemma tag_from_fst n rs : map fst (tag_from n rs) = seq n (List.length rs).
Proof. revert n. induction rs as [|r t IH]; intros n; simpl; [reflexivity|]. rewrite IH. reflexivity. Qed.
Lemma tag_from_snd n rs : map snd (tag_from n rs) = rs.
Proof. revert n. induction rs as [|r t IH]; intros n; simpl; [reflexivity|]. rewrite IH. reflexivity. Qed.
Lemma tag_from_In_iff rs : forall n i r, In (i, r) (tag_from n rs) <-> (n <= i)%nat /\ nth_error rs (i - n) = Some r.
Proof. induction rs as [|x t IH]; intros n i r; simpl.
  - split; [tauto|]. intros [_ H]. destruct (i - n)%nat; discriminate.
  - rewrite IH. split.
    + intros [E|[L H]]; [inversion E; subst; split; [lia|]; rewrite Nat.sub_diag; reflexivity|].
      split; [lia|]. replace (i - n)%nat with (S (i - S n)) by lia. exact H.
    + intros [L H]. destruct (Nat.eq_dec i n) as [->|N]; [left; rewrite Nat.sub_diag in H; inversion H; reflexivity|].
      right. split; [lia|]. replace (i - n)%nat with (S (i - S n)) in H by lia. exact H. Qed.
Lemma tag0_In rs i r : In (i, r) (tag_from 0 rs) <-> nth_error rs i = Some r.
Proof. rewrite tag_from_In_iff, Nat.sub_0_r. split; [tauto|]. intros H. split; [lia|exact H]. Qed.
Lemma tag_from_NoDup_fst n rs : NoDup (map fst (tag_from n rs)).
Proof. rewrite tag_from_fst. apply seq_NoDup. Qed.
Lemma tag_from_map {B} (F : nat * list val -> B) rs : forall n,
  map F (tag_from n rs) = map F (tag_from n rs).
Proof. reflexivity. Qed.
(* re-tagging a table whose rows were computed from the tagged rows of another one *)
Lemma tag_from_map_tag (F : nat * list val -> list val) rs : forall n,
  tag_from n (map F (tag_from n rs)) = map (fun ir => (fst ir, F ir)) (tag_from n rs).
Proof. induction rs as [|r t IH]; intros n; simpl; [reflexivity|]. rewrite IH. reflexivity. Qed.
Lemma tag_same_fst rs a b : In a (tag_from 0 rs) -> In b (tag_from 0 rs) -> fst a = fst b -> a = b.
Proof. destruct a as [i r], b as [j s]. rewrite !tag0_In. simpl. intros H1 H2 ->. congruence. Qed.

(* ------------------------------------------------------------------ find / lookup *)
Lemma find_app {A} (f : A -> bool) l1 l2 : find f (l1 ++ l2) = match find f l1 with Some x => Some x | None => find f l2 end.
Proof. induction l1 as [|x t IH]; simpl; [reflexivity|]. destruct (f x); [reflexivity|exact IH]. Qed.
Lemma find_none_all {A} (f : A -> bool) l : (forall x, In x l -> f x = false) -> find f l = None.
Proof. induction l as [|x t IH]; simpl; intros H; [reflexivity|]. rewrite (H x (or_introl eq_refl)). apply IH. intros y I. apply H. right. exact I. Qed.
Lemma in_combine_fst {A B} (l : list A) (l' : list B) p : In p (combine l l') -> In (fst p) l.
Proof. destruct p as [a b]. apply in_combine_l. Qed.

Lemma keys_eqv_cong_l a b c : keys_eqv a b = true -> keys_eqv a c = keys_eqv b c.
Proof. intros E. apply eq_true_iff_eq. split; intros H.
  - eapply keys_eqv_trans; [|exact H]. rewrite keys_eqv_sym. exact E.
  - eapply keys_eqv_trans; eassumption. Qed.

(* ------------------------------------------------------------------ the piece of one partition *)
Definition wle (fl : flavor) (cs : list string) (w : window) (a b : nat * list val) : bool :=
  row_le fl cs (map (fun c => (c, mem c (w_rev w))) (w_order w)) (snd a) (snd b).
Definition wpart (cs : list string) (w : window) (rs : list (list val)) (k : list val) : list (nat * list val) :=
  filter (fun ir => keys_eqv k (key_of cs (w_part w) (snd ir))) (tag_from 0 rs).
Definition wsorted (fl : flavor) (w : window) (t : table) (k : list val) : list (nat * list val) :=
  stable_sort (wle fl (cols t) w) (wpart (cols t) w (rows t) k).
Definition wpiece (fl : flavor) (w : window) (t : table) (e : expr) (k : list val) : list (nat * val) :=
  let sorted := wsorted fl w t k in
  match win_parts e with
  | Some (op, arg, extra) =>
      let vs := map (fun ir => match arg with Some a => eval_expr fl (cols t) (snd ir) a | None => VBool true end) sorted in
      combine (map fst sorted) (win_fn fl op extra vs)
  | None => map (fun ir => (fst ir, VNull)) sorted
  end.
Lemma window_column_pieces fl w t e :
  window_column fl w t e = flat_map (wpiece fl w t e) (distinct_keys (map (fun r => key_of (cols t) (w_part w) r) (rows t))).
Proof. reflexivity. Qed.

Lemma wle_total fl cs w a b : wle fl cs w a b = true \/ wle fl cs w b a = true.
Proof. apply row_le_total. Qed.
Lemma wle_trans fl cs w a b c : wle fl cs w a b = true -> wle fl cs w b c = true -> wle fl cs w a c = true.
Proof. apply row_le_trans. Qed.
Lemma wsorted_perm fl w t k : Permutation (wsorted fl w t k) (wpart (cols t) w (rows t) k).
Proof. apply stable_sort_perm. Qed.
Lemma wsorted_sorted fl w t k : StronglySorted (fun a b => wle fl (cols t) w a b = true) (wsorted fl w t k).
Proof. apply stable_sort_sorted; [apply wle_total|apply wle_trans]. Qed.
Lemma wpart_In cs w rs k ir : In ir (wpart cs w rs k) <-> In ir (tag_from 0 rs) /\ keys_eqv k (key_of cs (w_part w) (snd ir)) = true.
Proof. apply filter_In. Qed.
Lemma wsorted_In fl w t k ir : In ir (wsorted fl w t k) <-> In ir (tag_from 0 (rows t)) /\ keys_eqv k (key_of (cols t) (w_part w) (snd ir)) = true.
Proof. rewrite <- wpart_In. split; intros H; eapply Permutation_in; try exact H; [apply wsorted_perm | apply Permutation_sym, wsorted_perm]. Qed.
Lemma wsorted_NoDup_fst fl w t k : NoDup (map fst (wsorted fl w t k)).
Proof. eapply Permutation_NoDup; [apply Permutation_map, Permutation_sym, wsorted_perm|].
  unfold wpart. generalize (tag_from_NoDup_fst 0 (rows t)). generalize (tag_from 0 (rows t)). intros l.
  induction l as [|x l IH]; simpl; intros ND; [constructor|]. inversion ND as [|? ? N ND']; subst.
  destruct (keys_eqv k _); [|apply IH, ND']. simpl. constructor; [|apply IH, ND'].
  intros I. apply N. apply in_map_iff in I as [y [E I]]. apply filter_In in I as [I _]. apply in_map_iff. exists y. split; assumption. Qed.

Lemma wpiece_index fl w t e k p : In p (wpiece fl w t e k) ->
  exists r, nth_error (rows t) (fst p) = Some r /\ keys_eqv k (key_of (cols t) (w_part w) r) = true.
Proof. unfold wpiece. intros H.
  assert (In (fst p) (map fst (wsorted fl w t k))) as I.
  { destruct (win_parts e) as [[[op arg] extra]|]; [eapply in_combine_fst, H|].
    apply in_map_iff in H as [ir [<- I]]. simpl. apply in_map. exact I. }
  apply in_map_iff in I as [[i r] [E I]]. simpl in E. subst i. apply wsorted_In in I as [I K]. apply tag0_In in I. exists r. split; assumption. Qed.
Lemma wpiece_ext fl w t e k k' : keys_eqv k k' = true -> wpiece fl w t e k = wpiece fl w t e k'.
Proof. intros E. unfold wpiece, wsorted, wpart.
  rewrite (filter_ext _ (fun ir => keys_eqv k' (key_of (cols t) (w_part w) (snd ir)))); [reflexivity|].
  intros ir. apply keys_eqv_cong_l, E. Qed.

(* the value of row i is looked up in the piece of its own partition *)
Lemma window_lookup fl w t e i r : nth_error (rows t) i = Some r ->
  lookup_pos (window_column fl w t e) i = lookup_pos (wpiece fl w t e (key_of (cols t) (w_part w) r)) i.
Proof.
  intros Hr. rewrite window_column_pieces. unfold lookup_pos. set (f := fun p : nat * val => Nat.eqb (fst p) i).
  set (kr := key_of (cols t) (w_part w) r).
  assert (forall g, keys_eqv g kr = false -> find f (wpiece fl w t e g) = None) as NoneP.
  { intros g Ng. apply find_none_all. intros p Ip. unfold f. apply Nat.eqb_neq. intros Ei.
    destruct (wpiece_index _ _ _ _ _ _ Ip) as [r' [Hr' K]]. rewrite Ei, Hr in Hr'. inversion Hr'; subst r'. fold kr in K. congruence. }
  assert (forall G, (forall g, In g G -> keys_eqv g kr = false) -> find f (flat_map (wpiece fl w t e) G) = None) as NoneG.
  { induction G as [|g G IH]; intros H; simpl; [reflexivity|]. rewrite find_app, NoneP by (apply H; left; reflexivity). apply IH. intros g' I. apply H. right. exact I. }
  assert (forall G, ForallOrdPairs (fun a b => keys_eqv a b = false) G -> (exists k0, In k0 G /\ keys_eqv k0 kr = true) ->
                    find f (flat_map (wpiece fl w t e) G) = find f (wpiece fl w t e kr)) as Main.
  { induction G as [|g G IH]; intros FO [k0 [I0 E0]]; [destruct I0|]. inversion FO as [|? ? Fg FO']; subst. simpl. rewrite find_app.
    destruct (keys_eqv g kr) eqn:Eg.
    - rewrite (wpiece_ext fl w t e g kr Eg). destruct (find f (wpiece fl w t e kr)); [reflexivity|].
      apply NoneG. intros g' I'. rewrite Forall_forall in Fg. specialize (Fg g' I').
      destruct (keys_eqv g' kr) eqn:E'; [|reflexivity]. rewrite (keys_eqv_cong_l g kr g' Eg), keys_eqv_sym in Fg. congruence.
    - rewrite (NoneP g Eg). apply IH; [exact FO'|]. destruct I0 as [->|I0]; [congruence|]. exists k0. split; assumption. }
  rewrite Main; [reflexivity|apply distinct_keys_pairwise|].
  apply distinct_keys_complete. apply in_map_iff. exists r. split; [reflexivity|]. eapply nth_error_In, Hr.
Qed.

(* ------------------------------------------------------------------ one-assignment windowed extend *)
Lemma wextend1 fl k e w t :
  sem_wextend fl [(k, e)] w t =
  mktable (add_end (cols t) k)
          (map (fun ir => set_cell (cols t) (snd ir) k (lookup_pos (wpiece fl w t e (key_of (cols t) (w_part w) (snd ir))) (fst ir)))
               (tag_from 0 (rows t))).
Proof. unfold sem_wextend. cbn [map fst snd fold_left]. unfold ext_cols. cbn [fold_left]. f_equal.
  apply map_ext_in. intros [i r] I. cbn [fst snd]. f_equal. apply window_lookup. apply tag0_In, I. Qed.

(* ------------------------------------------------------------------ lookups in a combined list *)
Fixpoint idx (i : nat) (l : list nat) : nat := match l with [] => 0%nat | x :: t => if Nat.eqb x i then 0%nat else S (idx i t) end.
Lemma idx_inj i j l : In i l -> In j l -> idx i l = idx j l -> i = j.
Proof. induction l as [|x t IH]; simpl; intros Ii Ij E; [destruct Ii|].
  destruct (Nat.eqb_spec x i), (Nat.eqb_spec x j); try congruence.
  destruct Ii as [|Ii]; [congruence|]. destruct Ij as [|Ij]; [congruence|]. apply IH; auto. Qed.
Lemma lookup_number_from l (vs : list val) i : forall k, List.length vs = List.length l -> In i l ->
  lookup_pos (combine l (number_from k vs)) i = vnat (k + idx i l).
Proof. unfold lookup_pos. revert vs. induction l as [|x t IH]; intros [|v vs] k L I; simpl in *; try discriminate; [destruct I|].
  destruct (Nat.eqb_spec x i) as [E|N]; [simpl; rewrite Nat.add_0_r; reflexivity|].
  destruct I as [|I]; [congruence|]. rewrite (IH vs (S k)) by (auto; lia). f_equal. lia. Qed.

(* ------------------------------------------------------------------ _row_number without partition: distinct naturals *)
Lemma key_of_nil cs r : key_of cs [] r = [].
Proof. reflexivity. Qed.
Lemma row_number_value fl ob rev t k :
  exists nb : nat -> nat,
    (forall i j, (i < List.length (rows t))%nat -> (j < List.length (rows t))%nat -> nb i = nb j -> i = j) /\
    sem_wextend fl [(k, EOp "_row_number" [])] (mkwin [] ob rev) t =
    mktable (add_end (cols t) k) (map (fun ir => set_cell (cols t) (snd ir) k (vnat (nb (fst ir)))) (tag_from 0 (rows t))).
Proof.
  set (w := mkwin [] ob rev). set (srt := wsorted fl w t []).
  exists (fun i => (1 + idx i (map fst srt))%nat).
  assert (forall i, (i < List.length (rows t))%nat -> In i (map fst srt)) as Iin.
  { intros i L. destruct (nth_error (rows t) i) as [r|] eqn:E; [|apply nth_error_None in E; lia].
    apply in_map_iff. exists (i, r). split; [reflexivity|]. apply wsorted_In. split; [apply tag0_In, E|reflexivity]. }
  split.
  - intros i j Li Lj E. apply (idx_inj i j (map fst srt)); auto; lia.
  - rewrite wextend1. f_equal. apply map_ext_in. intros [i r] I. cbn [fst snd]. f_equal.
    cbn [w_part w]. rewrite key_of_nil. unfold wpiece. cbn [win_parts]. fold srt. unfold win_fn.
    cbn [String.eqb Ascii.eqb Bool.eqb]. apply lookup_number_from; [rewrite !map_length; reflexivity|].
    apply Iin. apply tag0_In in I. apply nth_error_Some. congruence.
Qed.

(* ------------------------------------------------------------------ cumsum over a strictly ordered partition *)
Definition acc0 (acc : option Q) : Q := match acc with Some a => a | None => 0 end.
Lemma running_sum_sorted (c : bool) (le : nat * list val -> nat * list val -> bool) (g : nat * list val -> val) (h : nat * list val -> Q) :
  forall (sorted : list (nat * list val)) (acc : option Q) (x : nat * list val),
  StronglySorted (fun a b => le a b = true) sorted ->
  (forall a b, In a sorted -> In b sorted -> le a b = true -> le b a = true -> a = b) ->
  (forall a, le a a = true) ->
  NoDup (map fst sorted) ->
  (forall y, In y sorted -> num_of (g y) = Some (h y)) ->
  In x sorted ->
  exists q, lookup_pos (combine (map fst sorted) (running c Qplus acc (map g sorted))) (fst x) = qn q
            /\ q == acc0 acc + qsum (map h (filter (fun y => le y x) sorted)).
Proof.
  induction sorted as [|a t IH]; intros acc x SS AS RF ND NUM I; [destruct I|].
  inversion SS as [|? ? SSt Fa]; subst. inversion ND as [|? ? Na NDt]; subst. rewrite Forall_forall in Fa.
  cbn [map running]. rewrite (NUM a (or_introl eq_refl)).
  set (a0 := match acc with None => h a | Some y => y + h a end).
  assert (a0 == acc0 acc + h a) as Ea0 by (unfold a0, acc0; destruct acc; ring).
  cbn [combine]. unfold lookup_pos. cbn [find fst].
  destruct (Nat.eqb_spec (fst a) (fst x)) as [E|N].
  - assert (x = a) as ->.
    { destruct I as [<-|I]; [reflexivity|]. exfalso. apply Na. rewrite E. apply in_map, I. }
    exists a0. split; [reflexivity|]. cbn [filter]. rewrite RF. cbn [map].
    rewrite filter_none, qsum_cons; [cbn [map]; rewrite qsum_nil, Ea0; ring|].
    intros y Iy. destruct (le y a) eqn:Ly; [|reflexivity]. exfalso. apply Na.
    rewrite (AS a y (or_introl eq_refl) (or_intror Iy) (Fa y Iy) Ly). apply in_map, Iy.
  - destruct I as [<-|I]; [congruence|].
    destruct (IH (Some a0) x SSt) as [q [Hq Eq]]; auto.
    { intros u v Iu Iv. apply AS; right; assumption. }
    { intros y Iy. apply NUM. right. exact Iy. }
    exists q. split; [exact Hq|]. cbn [filter]. rewrite (Fa x I). cbn [map]. rewrite qsum_cons, Eq. unfold acc0 at 1. rewrite Ea0. ring.
Qed.

(* value of cumsum(arg) for the row ir of a table, when its partition is strictly ordered by the window's order *)
Lemma cumsum_value fl w t arg (h : nat * list val -> Q) ir :
  let kr := key_of (cols t) (w_part w) (snd ir) in
  In ir (tag_from 0 (rows t)) ->
  (forall a b, In a (wpart (cols t) w (rows t) kr) -> In b (wpart (cols t) w (rows t) kr) ->
               wle fl (cols t) w a b = true -> wle fl (cols t) w b a = true -> a = b) ->
  (forall y, In y (wpart (cols t) w (rows t) kr) -> num_of (eval_expr fl (cols t) (snd y) arg) = Some (h y)) ->
  exists q, lookup_pos (wpiece fl w t (EOp "cumsum" [arg]) kr) (fst ir) = qn q
            /\ q == qsum (map h (filter (fun y => wle fl (cols t) w y ir) (wpart (cols t) w (rows t) kr))).
Proof.
  intros kr I AS NUM. unfold wpiece. cbn [win_parts flat_map]. unfold win_fn. cbn [String.eqb Ascii.eqb Bool.eqb].
  set (srt := wsorted fl w t kr).
  assert (forall y, In y srt <-> In y (wpart (cols t) w (rows t) kr)) as SI.
  { intros y. split; intros H; eapply Permutation_in; try exact H; [apply wsorted_perm|apply Permutation_sym, wsorted_perm]. }
  destruct (running_sum_sorted (f_running_carry fl) (wle fl (cols t) w) (fun y => eval_expr fl (cols t) (snd y) arg) h srt None ir) as [q [Hq Eq]].
  - apply wsorted_sorted.
  - intros a b Ia Ib. apply AS; apply SI; assumption.
  - intros a. destruct (wle_total fl (cols t) w a a); assumption.
  - apply wsorted_NoDup_fst.
  - intros y Iy. apply NUM, SI, Iy.
  - apply SI, wpart_In. split; [exact I|apply keys_eqv_refl].
  - exists q. split; [exact Hq|]. rewrite Eq. unfold acc0. rewrite Qplus_0_l. apply qsum_perm, Permutation_map, perm_filter, wsorted_perm.
Qed.

(* ------------------------------------------------------------------ an unordered aggregate: the aggregate of the partition *)
Lemma stable_sort_true {A} (le : A -> A -> bool) l : (forall a b, le a b = true) -> stable_sort le l = l.
Proof. intros T. induction l as [|x t IH]; simpl; [reflexivity|]. rewrite IH. destruct t; simpl; [reflexivity|]. rewrite T. reflexivity. Qed.
Lemma lookup_const l v i : In i l -> lookup_pos (combine l (map (fun _ : nat => v) l)) i = v.
Proof. unfold lookup_pos. induction l as [|x t IH]; simpl; intros I; [destruct I|].
  destruct (Nat.eqb_spec x i); [reflexivity|]. destruct I as [|I]; [congruence|]. apply IH, I. Qed.
Lemma mean_value fl pb t arg ir :
  let w := mkwin pb [] [] in
  let kr := key_of (cols t) pb (snd ir) in
  In ir (tag_from 0 (rows t)) ->
  lookup_pos (wpiece fl w t (EOp "mean" [arg]) kr) (fst ir)
  = agg_fn fl "mean" (map (fun y => eval_expr fl (cols t) (snd y) arg) (wpart (cols t) w (rows t) kr)).
Proof.
  intros w kr I. unfold wpiece. cbn [win_parts flat_map]. unfold win_fn. cbn [String.eqb Ascii.eqb Bool.eqb].
  unfold wsorted. rewrite stable_sort_true by reflexivity.
  set (part := wpart (cols t) w (rows t) kr).
  assert (forall (vs : list val) (v : val) (l : list nat), List.length vs = List.length l -> map (fun _ : val => v) vs = map (fun _ : nat => v) l) as MC.
  { induction vs as [|a vs IHv]; intros v [|b l] L; simpl in *; try discriminate; [reflexivity|]. f_equal. apply IHv. lia. }
  rewrite (MC _ _ (map fst part)) by (rewrite !map_length; reflexivity).
  apply lookup_const. apply in_map_iff. exists ir. split; [reflexivity|]. apply wpart_In. split; [exact I|apply keys_eqv_refl].
Qed.
