(* Proofs about the token model of record-map SQL and concat_rows labels (Model/RecMapSql.v): every line the model emits
   reads back, keyword by keyword and hole by hole, to exactly the user strings that were put in. *)
From Coq Require Import List Bool Arith ZArith Ascii String Lia.
Import ListNotations.
From DA Require Import Base.PyRT Base.PyStr Model.Lex Model.PyVal Gen.G_Quote Gen.G_ValueToSql Proofs.QuoteP Proofs.ValueP Model.RecMapSql.
Local Open Scope string_scope.

Lemma strip_prefix_app (p s : string) : strip_prefix p (p ++ s) = Some s.
Proof. induction p as [|c p IH]; [destruct s; reflexivity|]. cbn [append strip_prefix]. rewrite Ascii.eqb_refl. exact IH. Qed.

Lemma quote_ok_space (q : ascii) : quote_ok q = true -> Ascii.eqb " " q = false.
Proof. unfold quote_ok. intros H. apply orb_true_iff in H. destruct H as [H|H]; apply Ascii.eqb_eq in H; subst; reflexivity. Qed.
Lemma quote_ok_not_backslash (q : ascii) : quote_ok q = true -> q <> "\"%char.
Proof. intros H E. subst q. discriminate H. Qed.

(* what the text after a literal looks like *)
Lemma follows_ok_text (d : dialect) (q : ascii) (r : line) (b : string) :
  quote_ok q = true -> follows_ok d r = true -> render_line d r = Some b -> starts_with_char q b = false /\ ends_token b = true.
Proof.
  intros Hq Hf Hr. destruct r as [|t r'].
  - injection Hr as <-. split; reflexivity.
  - destruct t as [k| | |]; try discriminate Hf. cbn [follows_ok] in Hf. cbn [render_line render_tok] in Hr.
    destruct (render_line d r') as [b'|]; [|discriminate]. injection Hr as <-.
    destruct (kw_text d k) as [|c t0]; [discriminate|]. cbn [starts_with_space] in Hf. apply Ascii.eqb_eq in Hf. subst c.
    cbn [append starts_with_char ends_token]. rewrite (quote_ok_space q Hq). split; reflexivity.
Qed.

Inductive tok_item : tok -> item -> Prop :=
  | TI_kw (k : kw) : tok_item (Kw k) (IKw k)
  | TI_id (n : string) : tok_item (Id (PStr n)) (IId n)
  | TI_lit (s : string) : tok_item (Lit s) (ILit s)
  | TI_val (v : pyval) (sv : sqlval) : same_value v sv -> tok_item (Val v) (IVal sv).

(* admissible hole contents: values are scalars; in the backslash family no string carries a backslash (listed finding) *)
Definition tok_ok (d : dialect) (t : tok) : Prop :=
  match t with
  | Val v => scalar_ok v /\ (d_fam d = Backslash -> no_backslash v)
  | Lit s => d_fam d = Backslash -> has_char (Ascii.eqb "\"%char) s = false
  | _ => True
  end.

Lemma render_line_reads_back (d : dialect) (l : line) : forall text : string,
  quote_ok (d_sq d) = true -> Forall (tok_ok d) l -> good d l = true -> render_line d l = Some text ->
  exists items, read_shape d (map shape_of l) text = Some (items, "") /\ Forall2 tok_item l items.
Proof.
  induction l as [|t r IH]; intros text Hq Hok Hg Hr.
  - injection Hr as <-. exists []. split; [reflexivity | constructor].
  - cbn [render_line] in Hr. destruct (render_tok d t) as [a|] eqn:Ea; [|discriminate].
    destruct (render_line d r) as [b|] eqn:Eb; [|discriminate]. injection Hr as <-.
    inversion Hok as [|t0 r0 Hok1 Hok2]; subst.
    assert (Hg2 : good d r = true) by (destruct t; cbn [good] in Hg; try exact Hg; apply andb_true_iff in Hg; apply Hg).
    destruct (IH b Hq Hok2 Hg2 eq_refl) as (items & Ritems & F).
    destruct t as [k|v|s|v].
    + injection Ea as <-. exists (IKw k :: items). split; [|constructor; [constructor | exact F]].
      cbn [map shape_of read_shape]. rewrite strip_prefix_app. cbn [option_map]. rewrite Ritems. reflexivity.
    + destruct v as [ |n| | | | | | | | ]; try discriminate Ea. cbn [render_tok] in Ea.
      exists (IId n :: items). split; [|constructor; [constructor | exact F]].
      cbn [map shape_of read_shape]. rewrite (quote_identifier_roundtrip (d_iq d) n a b Ea). cbn [option_map fst snd].
      rewrite Ritems. reflexivity.
    + injection Ea as <-. cbn [good] in Hg. apply andb_true_iff in Hg. destruct Hg as [Hf _].
      destruct (follows_ok_text d (d_sq d) r b Hq Hf Eb) as [Hs He].
      assert (R : read_string_lit (d_fam d) (d_sq d) (quote_string (q1 (d_sq d)) s ++ b) = Some (s, b)).
      { cbn [tok_ok] in Hok1. destruct (d_fam d); [apply quote_string_roundtrip_std, Hs|].
        apply quote_string_roundtrip_bs_partial; [apply quote_ok_not_backslash, Hq | exact (Hok1 eq_refl) | exact Hs]. }
      exists (ILit s :: items). split; [|constructor; [constructor | exact F]].
      cbn [map shape_of read_shape]. rewrite R. cbn [option_map fst snd]. rewrite Ritems. reflexivity.
    + injection Ea as <-. cbn [good] in Hg. apply andb_true_iff in Hg. destruct Hg as [Hf _].
      destruct (follows_ok_text d (d_sq d) r b Hq Hf Eb) as [Hs He].
      cbn [tok_ok] in Hok1. destruct Hok1 as [Hsc Hnb].
      destruct (value_to_sql_reads_back (d_fam d) (d_sq d) v b Hq Hsc Hnb He Hs) as (sv & R & S).
      exists (IVal sv :: items). split; [|constructor; [constructor; exact S | exact F]].
      cbn [map shape_of read_shape]. rewrite R. cbn [option_map fst snd]. rewrite Ritems. reflexivity.
Qed.

(* ---------------------------------------------------------------- every emitted line is `good`, for every control table *)
(* good2: every literal token has a following space-keyword INSIDE the list (so it stays good whatever is appended) *)
Definition follows_ok2 (d : dialect) (r : line) : bool :=
  match r with Kw k :: _ => starts_with_space (kw_text d k) | _ => false end.
Fixpoint good2 (d : dialect) (l : line) : bool :=
  match l with
  | [] => true
  | Lit _ :: r => follows_ok2 d r && good2 d r
  | Val _ :: r => follows_ok2 d r && good2 d r
  | _ :: r => good2 d r
  end.

Lemma good2_good (d : dialect) (l : line) : good2 d l = true -> good d l = true.
Proof.
  induction l as [|t r IH]; [reflexivity|]. destruct t; cbn [good2 good]; intros H; try (apply IH, H);
    apply andb_true_iff in H; destruct H as [H1 H2]; rewrite (IH H2), andb_true_r; destruct r as [|[]]; try discriminate; exact H1.
Qed.

Lemma good2_app (d : dialect) (a b : line) : good2 d a = true -> good2 d b = true -> good2 d (a ++ b)%list = true.
Proof.
  intros Ha Hb. induction a as [|t r IH]; [exact Hb|]. cbn [List.app].
  destruct t; cbn [good2] in *; try (apply IH, Ha);
    apply andb_true_iff in Ha; destruct Ha as [H1 H2]; rewrite (IH H2), andb_true_r; destruct r as [|[]]; try discriminate; exact H1.
Qed.

Lemma good2_flat_map {A : Type} (d : dialect) (f : A -> line) (l : list A) :
  (forall x, good2 d (f x) = true) -> good2 d (flat_map f l) = true.
Proof. intros H. induction l as [|x l IH]; [reflexivity|]. cbn [flat_map]. apply good2_app; [apply H | exact IH]. Qed.

Lemma good2_join_toks (d : dialect) (sep : line) (parts : list line) :
  good2 d sep = true -> Forall (fun p => good2 d p = true) parts -> good2 d (join_toks sep parts) = true.
Proof.
  intros Hs H. induction H as [|p r Hp Hr IH]; [reflexivity|]. cbn [join_toks]. destruct r as [|p2 r2]; [exact Hp|].
  apply good2_app; [exact Hp|]. apply good2_app; [exact Hs | exact IH].
Qed.

Lemma good2_list_join (d : dialect) (j : line) (ls : list line) :
  good2 d j = true -> Forall (fun p => good2 d p = true) ls -> Forall (fun p => good2 d p = true) (list_join j ls).
Proof.
  intros Hj H. induction H as [|p r Hp Hr IH]; [constructor|]. cbn [list_join]. destruct r as [|p2 r2].
  - constructor; [exact Hp | constructor].
  - constructor; [|exact IH]. cbn [good2]. apply good2_app; assumption.
Qed.

Lemma Forall_map_good2 {A : Type} (d : dialect) (f : A -> line) (l : list A) :
  (forall x, good2 d (f x) = true) -> Forall (fun p => good2 d p = true) (map f l).
Proof. intros H. induction l; constructor; auto. Qed.

Lemma r2b_case_stmt_good2 (d : dialect) (cc : string * list pyval) : good2 d (r2b_case_stmt cc) = true.
Proof.
  unfold r2b_case_stmt. apply good2_app; [reflexivity|]. apply good2_app; [|reflexivity].
  apply good2_flat_map. intros cell. destruct (cell_isnull cell); reflexivity.
Qed.

Lemma q_row_good2 (d : dialect) (rs : recspec) (i : nat) : good2 d (q_row rs i) = true.
Proof.
  unfold q_row. apply good2_app; [reflexivity|]. apply good2_app; [|reflexivity].
  apply good2_join_toks; [reflexivity|]. apply Forall_map_good2. intros cc. reflexivity.
Qed.

Lemma table_values_good2 (d : dialect) (rs : recspec) : Forall (fun p => good2 d p = true) (table_values rs).
Proof.
  unfold table_values. apply Forall_app. split; [repeat constructor|]. apply Forall_app. split; [|repeat constructor].
  apply Forall_map_good2. intros i. cbn [good2]. apply good2_app; [destruct (Nat.ltb i 1); reflexivity | apply q_row_good2].
Qed.

Lemma b2r_max_stmt_good2 (d : dialect) (rs : recspec) (i : nat) (vc : string) (cell : pyval) : good2 d (b2r_max_stmt rs i vc cell) = true.
Proof.
  unfold b2r_max_stmt. apply good2_app; [reflexivity|]. apply good2_app; [|reflexivity].
  apply good2_join_toks; [reflexivity|]. apply Forall_map_good2. intros cc. reflexivity.
Qed.

Lemma b2r_scan_good2 (d : dialect) (rs : recspec) (items : list (nat * (string * list pyval))) :
  forall seen, Forall (fun p => good2 d p = true) (b2r_scan rs items seen).
Proof.
  induction items as [|[i [vc cells]] r IH]; intros seen; [constructor|]. cbn [b2r_scan].
  destruct (negb (existsb (pyval_eqb_str (nth i cells PNone)) seen) && negb (cell_isnull (nth i cells PNone))).
  - constructor; [apply b2r_max_stmt_good2 | apply IH].
  - apply IH.
Qed.

Definition all_good2 (d : dialect) (p : list line * list line) : Prop :=
  Forall (fun l => good2 d l = true) (fst p) /\ Forall (fun l => good2 d l = true) (snd p).

Lemma emit_r2b_good2 (d : dialect) (rs : recspec) : all_good2 d (emit_r2b rs).
Proof.
  unfold all_good2, emit_r2b. cbn [fst snd]. split.
  - apply Forall_app. split; [|repeat constructor]. apply good2_list_join; [reflexivity|].
    unfold r2b_col_stmts. repeat (apply Forall_app; split); try (apply Forall_map_good2; intros c; reflexivity).
    apply Forall_map_good2. apply r2b_case_stmt_good2.
  - repeat (apply Forall_app; split); try (repeat constructor; fail).
    + apply good2_list_join; [reflexivity | apply table_values_good2].
    + apply good2_list_join; [reflexivity|]. unfold r2b_control_cols.
      apply Forall_app; split; apply Forall_map_good2; intros c; reflexivity.
Qed.

Lemma emit_b2r_good2 (d : dialect) (rs : recspec) : all_good2 d (emit_b2r rs).
Proof.
  unfold all_good2, emit_b2r. destruct (Nat.eqb (nrows rs) 1); cbn [fst snd]; split.
  - apply Forall_app. split; [|repeat constructor]. apply good2_list_join; [reflexivity|].
    apply Forall_app; split; apply Forall_map_good2; intros c; reflexivity.
  - repeat constructor.
  - apply Forall_app. split; [|repeat constructor]. apply good2_list_join; [reflexivity|].
    apply Forall_app; split; [apply Forall_map_good2; intros c; reflexivity | apply b2r_scan_good2].
  - repeat (apply Forall_app; split); try (repeat constructor; fail);
      (apply good2_list_join; [reflexivity | apply Forall_map_good2; intros c; reflexivity]).
Qed.

(* the statement used by Props/C14.v: whatever the control table, every emitted line that renders reads back to its holes *)
Definition lines_of (p : list line * list line) : list line := (fst p ++ snd p)%list.

Lemma recordmap_lines_read_back (d : dialect) (rs : recspec) (l : line) (text : string) :
  quote_ok (d_sq d) = true ->
  In l (lines_of (emit_r2b rs) ++ lines_of (emit_b2r rs))%list -> Forall (tok_ok d) l -> render_line d l = Some text ->
  exists items, read_shape d (map shape_of l) text = Some (items, "") /\ Forall2 tok_item l items.
Proof.
  intros Hq Hin Hok Hr. apply render_line_reads_back; try assumption. apply good2_good.
  destruct (emit_r2b_good2 d rs) as [A1 A2]. destruct (emit_b2r_good2 d rs) as [B1 B2].
  unfold lines_of in Hin. rewrite !in_app_iff in Hin. rewrite Forall_forall in A1, A2, B1, B2.
  destruct Hin as [[H|H]|[H|H]]; auto.
Qed.

(* concat_rows labels: ANY string reads back verbatim in the standard family; without a backslash elsewhere *)
Lemma concat_label_reads_back (d : dialect) (name rest : string) :
  quote_ok (d_sq d) = true -> (d_fam d = Backslash -> has_char (Ascii.eqb "\"%char) name = false) ->
  ends_token rest = true -> starts_with_char (d_sq d) rest = false ->
  read_value (d_fam d) (d_sq d) (concat_label_sql d name ++ rest) = Some (SStr name, rest).
Proof.
  intros Hq Hb Hr Hs. unfold concat_label_sql, concat_label_term.
  destruct (value_to_sql_reads_back (d_fam d) (d_sq d) (PValue (PStr name)) rest Hq I Hb Hr Hs) as (sv & R & S).
  inversion S as [ | | | | | |x sv0 S1]; subst. inversion S1; subst. exact R.
Qed.

(* by construction of the token model: a user string reaches the text only through the three quoting functions *)
Lemma tokens_render_through_quoting (d : dialect) :
  (forall k, render_tok d (Kw k) = Some (kw_text d k)) /\
  (forall n, render_tok d (Id (PStr n)) = quote_identifier (q1 (d_iq d)) n) /\
  (forall s, render_tok d (Lit s) = Some (quote_string (q1 (d_sq d)) s)) /\
  (forall v, render_tok d (Val v) = Some (value_to_sql (q1 (d_sq d)) v)).
Proof. repeat split. Qed.
