(* C07 -- proofs about Model/Compose.v, part 2: substitutions compose (associativity), declared columns of a composed
   pipeline, sorting of column names, get_tables of a composed pipeline. *)
From Coq Require Import List Bool Arith String Ascii NArith Lia Setoid Permutation.
Import ListNotations.
From DA Require Import Base.PyRT Base.Val Model.Sem Proofs.SemBasicP Model.Compose Proofs.ComposeP.
Local Open Scope list_scope.

(* ------------------------------------------------------------------ substitutions compose *)
Definition rmap_compose (m2 m1 : rmap) : rmap := map (fun kr => (fst kr, subst m2 (snd kr))) m1 ++ m2.

Lemma dict_get_rmap_compose m2 m1 n :
  dict_get (rmap_compose m2 m1) n = match dict_get m1 n with Some r => Some (subst m2 r) | None => dict_get m2 n end.
Proof.
  unfold rmap_compose. rewrite dict_get_app, (dict_get_map_val (subst m2)). destruct (dict_get m1 n); reflexivity.
Qed.

Lemma subst_subst m2 m1 p : subst m2 (subst m1 p) = subst (rmap_compose m2 m1) p.
Proof.
  induction p as [n cs|s IH ops wd w|s IH ops gb|s IH x|s IH cs|s IH ds|s IH mp|s IH mp dels|s IH cs rv lim|a IHa b IHb on_a on_b jt|a IHa b IHb idc an bn];
    cbn [subst]; try (rewrite IH; reflexivity); try (rewrite IHa, IHb; reflexivity).
  rewrite dict_get_rmap_compose. destruct (dict_get m1 n) as [r|]; reflexivity.
Qed.

Lemma subst_ext m m' p : (forall n, In n (table_names p) -> dict_get m n = dict_get m' n) -> subst m p = subst m' p.
Proof.
  induction p as [n cs|s IH ops wd w|s IH ops gb|s IH x|s IH cs|s IH ds|s IH mp|s IH mp dels|s IH cs rv lim|a IHa b IHb on_a on_b jt|a IHa b IHb idc an bn];
    intros H; cbn [subst table_names] in *; try (rewrite (IH H); reflexivity).
  - rewrite (H n); [reflexivity|left; reflexivity].
  - rewrite IHa, IHb; [reflexivity| |]; intros n I; apply H; apply in_app_iff; [right|left]; exact I.
  - rewrite IHa, IHb; [reflexivity| |]; intros n I; apply H; apply in_app_iff; [right|left]; exact I.
Qed.

(* (a >> b) >> c and a >> (b >> c) are THE SAME TREE, provided b's leaf name kb is not also the name of another table of c *)
Theorem compose_assoc_tree ka kb a b c :
  built_ok b = true -> built_ok c = true -> (ka = kb \/ ~ In ka (table_names c)) ->
  compose_at kb (compose_at ka a b) c = compose_at ka a (compose_at kb b c).
Proof.
  intros Bb Bc H. unfold compose_at.
  rewrite (replace_leaves_subst _ b Bb), (replace_leaves_subst _ c Bc), (replace_leaves_subst _ c Bc).
  rewrite replace_leaves_subst.
  2:{ apply built_ok_subst; [exact Bc|]. intros k r E. rewrite dict_get_single in E. destruct (eq_dec k kb); inversion E; subst. exact Bb. }
  rewrite subst_subst. apply subst_ext. intros n I. rewrite dict_get_rmap_compose, !dict_get_single.
  destruct (eq_dec n kb) as [->|Nb]; [reflexivity|].
  destruct (eq_dec n ka) as [->|Na]; [|reflexivity].
  exfalso. destruct H as [E|H]; [congruence|exact (H I)].
Qed.

(* ------------------------------------------------------------------ leaves of a substituted pipeline *)
Lemma map_fst_leaves p : map fst (leaves p) = table_names p.
Proof.
  induction p as [n cs|s IH ops wd w|s IH ops gb|s IH x|s IH cs|s IH ds|s IH mp|s IH mp dels|s IH cs rv lim|a IHa b IHb on_a on_b jt|a IHa b IHb idc an bn];
    cbn [leaves table_names]; try exact IH; try reflexivity; rewrite map_app, IHa, IHb; reflexivity.
Qed.

Lemma leaves_subst m p :
  leaves (subst m p) = flat_map (fun t => match dict_get m (fst t) with Some r => leaves r | None => [t] end) (leaves p).
Proof.
  induction p as [n cs|s IH ops wd w|s IH ops gb|s IH x|s IH cs|s IH ds|s IH mp|s IH mp dels|s IH cs rv lim|a IHa b IHb on_a on_b jt|a IHa b IHb idc an bn];
    cbn [leaves subst]; try exact IH.
  - cbn [flat_map fst]. destruct (dict_get m n) as [r|]; cbn [leaves]; rewrite app_nil_r; reflexivity.
  - rewrite flat_map_app, IHa, IHb. reflexivity.
  - rewrite flat_map_app, IHa, IHb. reflexivity.
Qed.

Lemma leaves_nonempty p : leaves p <> [].
Proof.
  induction p as [n cs|s IH ops wd w|s IH ops gb|s IH x|s IH cs|s IH ds|s IH mp|s IH mp dels|s IH cs rv lim|a IHa b IHb on_a on_b jt|a IHa b IHb idc an bn];
    cbn [leaves]; try exact IH; try discriminate; intros E; apply app_eq_nil in E; destruct E as [E _]; exact (IHa E).
Qed.

Lemma leaf_declares_spec k cs p : leaf_declares k cs p = true <-> (forall c, In (k, c) (leaves p) -> c = cs).
Proof.
  induction p as [n c0|s IH ops wd w|s IH ops gb|s IH x|s IH c0 |s IH ds|s IH mp|s IH mp dels|s IH c0 rv lim|a IHa b IHb on_a on_b jt|a IHa b IHb idc an bn];
    cbn [leaf_declares leaves]; try exact IH.
  - destruct (eq_dec n k) as [->|N].
    + rewrite eqb_true. split; [intros -> c [E|[]]; inversion E; reflexivity|intros H; apply H; left; reflexivity].
    + split; [intros _ c [E|[]]; exfalso; apply N; congruence|reflexivity].
  - rewrite andb_true_iff, IHa, IHb. split.
    + intros [Ha Hb] c I. apply in_app_iff in I. destruct I; [apply Ha|apply Hb]; assumption.
    + intros H. split; intros c I; apply H; apply in_app_iff; [left|right]; exact I.
  - rewrite andb_true_iff, IHa, IHb. split.
    + intros [Ha Hb] c I. apply in_app_iff in I. destruct I; [apply Ha|apply Hb]; assumption.
    + intros H. split; intros c I; apply H; apply in_app_iff; [left|right]; exact I.
Qed.

Lemma tables_consistent_spec ts : tables_consistent ts = true <-> (forall n c c', In (n, c) ts -> In (n, c') ts -> c = c').
Proof.
  unfold tables_consistent. rewrite forallb_forall. split.
  - intros H n c c' I I'. specialize (H _ I). rewrite forallb_forall in H. specialize (H _ I'). cbn [fst snd] in H.
    rewrite eqb_refl in H. cbn in H. apply (proj1 (eqb_true _ _)) in H. exact H.
  - intros H [n c] I. apply forallb_forall. intros [n' c'] I'. cbn [fst snd]. destruct (eqb n n') eqn:E; [|reflexivity].
    apply (proj1 (eqb_true _ _)) in E. subst n'. cbn. apply eqb_true. eapply H; eassumption.
Qed.

(* in a consistent pipeline the dictionary lookup of a key gives the columns of every leaf with that key *)
Lemma consistent_declares p k cs : tables_consistent (leaves p) = true -> dict_get (leaves p) k = Some cs -> leaf_declares k cs p = true.
Proof.
  intros C E. apply leaf_declares_spec. intros c I. apply dict_get_In in E. rewrite tables_consistent_spec in C. eapply C; eassumption.
Qed.

Lemma mem_py_set (l : list string) x : mem x (py_set l) = mem x l.
Proof.
  destruct (mem x l) eqn:E.
  - apply mem_In. apply In_py_set. apply (proj1 (mem_In _ _)). exact E.
  - apply mem_false. intros I. apply (proj1 (In_py_set _ _)) in I. apply (proj2 (mem_In _ _)) in I. congruence.
Qed.

(* ------------------------------------------------------------------ declared columns of a composed pipeline, up to order *)
Lemma Permutation_filter {A} (f : A -> bool) l l' : Permutation l l' -> Permutation (filter f l) (filter f l').
Proof.
  induction 1 as [|x l l' P IH|x y l|l l' l'' P1 IH1 P2 IH2]; simpl.
  - constructor.
  - destruct (f x); [constructor|]; exact IH.
  - destruct (f x), (f y); try apply Permutation_refl. apply perm_swap.
  - eapply Permutation_trans; eassumption.
Qed.

Lemma mem_Permutation (l l' : list string) x : Permutation l l' -> mem x l = mem x l'.
Proof.
  intros P. destruct (mem x l) eqn:E.
  - symmetry. apply mem_In. eapply Permutation_in; [exact P|]. apply mem_In. exact E.
  - symmetry. apply mem_false. intros I. apply Permutation_sym in P. pose proof (Permutation_in _ P I) as I2. apply (proj2 (mem_In _ _)) in I2. congruence.
Qed.

Lemma ext_cols_Permutation cs cs' ks : Permutation cs cs' -> Permutation (ext_cols cs ks) (ext_cols cs' ks).
Proof.
  unfold ext_cols. revert cs cs'. induction ks as [|k t IH]; intros cs cs' P; simpl; [exact P|].
  apply IH. unfold add_end. rewrite (mem_Permutation _ _ k P). destruct (mem k cs'); [exact P|]. apply Permutation_app_tail. exact P.
Qed.

Lemma filter_ext_mem (a a' l : list string) : Permutation a a' ->
  filter (fun c => negb (mem c a)) l = filter (fun c => negb (mem c a')) l.
Proof. intros P. apply filter_ext. intros c. rewrite (mem_Permutation _ _ c P). reflexivity. Qed.

Lemma subst_column_names_perm m p :
  (forall n cs r, In (n, cs) (leaves p) -> dict_get m n = Some r -> Permutation (column_names r) cs) ->
  Permutation (column_names (subst m p)) (column_names p).
Proof.
  induction p as [n cs|s IH ops wd w|s IH ops gb|s IH x|s IH cs|s IH ds|s IH mp|s IH mp dels|s IH cs rv lim|a IHa b IHb on_a on_b jt|a IHa b IHb idc an bn];
    intros H; cbn [leaves subst column_names] in *; try (apply IH; exact H); try apply Permutation_refl.
  - destruct (dict_get m n) as [r|] eqn:E; [|apply Permutation_refl]. eapply H; [left; reflexivity|exact E].
  - apply ext_cols_Permutation. apply IH. exact H.
  - apply Permutation_filter. apply IH. exact H.
  - apply Permutation_map. apply IH. exact H.
  - apply Permutation_filter. apply Permutation_map. apply IH. exact H.
  - assert (Permutation (column_names (subst m a)) (column_names a)) as Pa.
    { apply IHa. intros n cs r I. apply H. apply in_app_iff. left. exact I. }
    assert (Permutation (column_names (subst m b)) (column_names b)) as Pb.
    { apply IHb. intros n cs r I. apply H. apply in_app_iff. right. exact I. }
    apply Permutation_app; [exact Pa|]. rewrite (filter_ext_mem _ _ _ Pa). apply Permutation_filter. exact Pb.
  - apply Permutation_app_tail. apply IHa. intros n cs r I. apply H. apply in_app_iff. left. exact I.
Qed.

(* ------------------------------------------------------------------ sorting column names *)
Lemma ascii_compare_trans_le a b c : Ascii.compare a b <> Gt -> Ascii.compare b c <> Gt -> Ascii.compare a c <> Gt.
Proof.
  unfold Ascii.compare. intros H1 H2 H3. apply N.compare_gt_iff in H3.
  assert (N_of_ascii a <= N_of_ascii b)%N as L1 by (intros G; exact (H1 G)).
  assert (N_of_ascii b <= N_of_ascii c)%N as L2 by (intros G; exact (H2 G)).
  lia.
Qed.

Lemma ascii_compare_eq a b : Ascii.compare a b = Eq -> a = b.
Proof.
  unfold Ascii.compare. intros H. apply N.compare_eq in H.
  rewrite <- (ascii_N_embedding a), <- (ascii_N_embedding b), H. reflexivity.
Qed.

Lemma ascii_compare_lt_trans a b c : Ascii.compare a b = Lt -> Ascii.compare b c = Lt -> Ascii.compare a c = Lt.
Proof. unfold Ascii.compare. rewrite !N.compare_lt_iff. lia. Qed.

Lemma string_leb_trans a b c : String.leb a b = true -> String.leb b c = true -> String.leb a c = true.
Proof.
  unfold String.leb. revert b c. induction a as [|x a IH]; intros [|y b] [|z c]; cbn [String.compare]; intros H1 H2; try reflexivity; try discriminate.
  destruct (Ascii.compare x y) eqn:E1; try discriminate.
  - apply ascii_compare_eq in E1. subst y. destruct (Ascii.compare x z) eqn:E2; try discriminate; [|reflexivity].
    apply (IH b c); assumption.
  - destruct (Ascii.compare y z) eqn:E2; try discriminate.
    + apply ascii_compare_eq in E2. subst z. rewrite E1. reflexivity.
    + rewrite (ascii_compare_lt_trans _ _ _ E1 E2). reflexivity.
Qed.

Section SortPerm.
  Context {A : Type} (le : A -> A -> bool).
  Hypothesis le_total : forall x y, le x y = true \/ le y x = true.
  Hypothesis le_antisym : forall x y, le x y = true -> le y x = true -> x = y.
  Hypothesis le_trans : forall x y z, le x y = true -> le y z = true -> le x z = true.

  Lemma insert_sorted_comm x y l : insert_sorted le x (insert_sorted le y l) = insert_sorted le y (insert_sorted le x l).
  Proof.
    induction l as [|a t IH]; cbn [insert_sorted].
    - destruct (le x y) eqn:Exy, (le y x) eqn:Eyx; cbn [insert_sorted]; rewrite ?Exy, ?Eyx; try reflexivity.
      + rewrite (le_antisym _ _ Exy Eyx). reflexivity.
      + destruct (le_total x y); congruence.
    - destruct (le y a) eqn:Eya, (le x a) eqn:Exa; cbn [insert_sorted].
      + destruct (le x y) eqn:Exy, (le y x) eqn:Eyx; rewrite ?Exa, ?Eya; try reflexivity.
        * rewrite (le_antisym _ _ Exy Eyx). reflexivity.
        * destruct (le_total x y); congruence.
      + rewrite Eya. destruct (le x y) eqn:Exy; [|rewrite Exa; reflexivity].
        rewrite (le_trans _ _ _ Exy Eya) in Exa. discriminate.
      + rewrite Exa. destruct (le y x) eqn:Eyx; [|rewrite Eya; reflexivity].
        rewrite (le_trans _ _ _ Eyx Exa) in Eya. discriminate.
      + rewrite Exa, Eya. rewrite IH. reflexivity.
  Qed.

  Lemma stable_sort_Permutation l l' : Permutation l l' -> stable_sort le l = stable_sort le l'.
  Proof.
    unfold stable_sort. induction 1 as [|x l l' P IH|x y l|l l' l'' P1 IH1 P2 IH2]; simpl.
    - reflexivity.
    - rewrite IH. reflexivity.
    - apply insert_sorted_comm.
    - congruence.
  Qed.

  Lemma insert_sorted_Permutation x l : Permutation (insert_sorted le x l) (x :: l).
  Proof.
    induction l as [|a t IH]; cbn [insert_sorted]; [apply Permutation_refl|].
    destruct (le x a); [apply Permutation_refl|]. eapply Permutation_trans; [apply perm_skip; exact IH|apply perm_swap].
  Qed.
  Lemma stable_sort_is_Permutation l : Permutation (stable_sort le l) l.
  Proof.
    unfold stable_sort. induction l as [|a t IH]; simpl; [constructor|].
    eapply Permutation_trans; [apply insert_sorted_Permutation|]. apply perm_skip. exact IH.
  Qed.
End SortPerm.

Lemma string_leb_antisym' x y : String.leb x y = true -> String.leb y x = true -> x = y.
Proof. intros H1 H2. apply String.leb_antisym; assumption. Qed.

Lemma sort_strings_Permutation l l' : Permutation l l' -> sort_strings l = sort_strings l'.
Proof. apply stable_sort_Permutation; [exact String.leb_total|exact string_leb_antisym'|exact string_leb_trans]. Qed.
Lemma sort_strings_is_Permutation l : Permutation (sort_strings l) l.
Proof. apply stable_sort_is_Permutation. Qed.

(* two duplicate-free lists with the same members are permutations of each other *)
Lemma set_eqb_Permutation (l l' : list string) : set_eqb l l' = true -> NoDup l -> NoDup l' -> Permutation l l'.
Proof.
  unfold set_eqb. rewrite andb_true_iff, !subset_spec. intros [S1 S2] N1 N2.
  apply NoDup_Permutation; [exact N1|exact N2|]. intros x. split; [apply S1|apply S2].
Qed.

Lemma set_diff_empty_subset (a b : list string) : nonempty (set_diff a b) = false -> forall x, In x a -> In x b.
Proof.
  intros E x I. apply nonempty_false in E. destruct (in_dec eq_dec x b) as [Ib|Nb]; [exact Ib|].
  assert (In x (set_diff a b)) as C by (apply In_set_diff; split; assumption). rewrite E in C. destruct C.
Qed.
