(* C11, part 3: the reference semantics of extend / windowed extend / project does not depend on the ORDER of the
   assignments beyond the column order it produces: two assignment lists with unique keys, the same lookups and the same
   resulting column list give the same table.  (ExtendNode._equiv_nodes compares the assignments as an unordered mapping,
   and ViewRepresentation.__eq__ compares column_names; this is why results still coincide.) *)
From Coq Require Import List Bool Arith ZArith QArith String Lia Permutation.
Import ListNotations.
From DA Require Import Base.PyRT Base.Val Model.Sem Proofs.SemBasicP.
Local Open Scope list_scope.

(* ------------------------------------------------------------------ lists *)
Lemma set_nth_comm i j v w (r : list val) : i <> j -> set_nth i v (set_nth j w r) = set_nth j w (set_nth i v r).
Proof. revert i j. induction r as [|x t IH]; intros [|i] [|j] N; simpl; try reflexivity; try congruence.
  f_equal. apply IH. congruence. Qed.

Lemma set_nth_app_l i v (r s : list val) : (i < List.length r)%nat -> set_nth i v (r ++ s) = set_nth i v r ++ s.
Proof. revert i. induction r as [|x t IH]; intros [|i] L; simpl in *; try lia; try reflexivity.
  f_equal. apply IH. lia. Qed.

Lemma index_of_inj c d cs i : index_of c cs = Some i -> index_of d cs = Some i -> c = d.
Proof. intros E1 E2. apply index_of_nth_error in E1, E2. congruence. Qed.

Lemma filter_map_fst {X} (f : string -> bool) (l : list (string * X)) :
  map fst (filter (fun kx => f (fst kx)) l) = filter f (map fst l).
Proof. induction l as [|[k x] t IH]; simpl; [reflexivity|]. destruct (f k); simpl; rewrite IH; reflexivity. Qed.

Lemma perm_filter' {A} (f : A -> bool) l l' : Permutation l l' -> Permutation (filter f l) (filter f l').
Proof. induction 1 as [|x l l' P IH|x y l|l l' l'' P1 IH1 P2 IH2]; simpl.
  - constructor.
  - destruct (f x); [constructor|]; exact IH.
  - destruct (f x), (f y); try reflexivity. constructor.
  - eapply perm_trans; eassumption. Qed.

(* unique keys: equal lookups = the same assignments up to order *)
Lemma NoDup_keys_pairs {X} (l : list (string * X)) : NoDup (map fst l) -> NoDup l.
Proof. induction l as [|[k x] t IH]; simpl; intros N; [constructor|]. inversion N as [|? ? Nk Nt]; subst.
  constructor; [|apply IH, Nt]. intros I. apply Nk. apply in_map_iff. exists (k, x). split; [reflexivity|exact I]. Qed.

Lemma lookups_perm {X} (l l' : list (string * X)) :
  NoDup (map fst l) -> NoDup (map fst l') -> (forall k, dict_get l k = dict_get l' k) -> Permutation l l'.
Proof. intros N N' E. apply NoDup_Permutation; try (apply NoDup_keys_pairs; assumption).
  intros [k x]. rewrite <- (dict_get_NoDup_iff l k x N), <- (dict_get_NoDup_iff l' k x N'), E. tauto. Qed.

(* unique keys, same assignments up to order, same key ORDER: the same list *)
Lemma perm_same_keys_eq {X} (l : list (string * X)) : forall l',
  NoDup (map fst l) -> Permutation l l' -> map fst l = map fst l' -> l = l'.
Proof. induction l as [|[k x] t IH]; intros [|[k' x'] u] N P K; simpl in *; try discriminate; [reflexivity|].
  inversion K; subst k'. inversion N as [|? ? Nk Nt]; subst.
  assert (x = x') as ->.
  { assert (In (k, x') ((k, x) :: t)) as I by (eapply Permutation_in; [apply Permutation_sym, P|left; reflexivity]).
    destruct I as [I|I]; [congruence|]. exfalso. apply Nk. apply in_map_iff. exists (k, x'). split; [reflexivity|exact I]. }
  f_equal. apply IH; [exact Nt| eapply Permutation_cons_inv; exact P | assumption]. Qed.

(* ------------------------------------------------------------------ the new columns of an extend *)
Lemma fold_add_end_new (cs : list string) (ks : list string) : forall ns,
  NoDup ks -> (forall k, In k ks -> ~ In k ns) -> (forall k, In k ns -> ~ In k cs) ->
  fold_left add_end ks (cs ++ ns) = cs ++ ns ++ filter (fun k => negb (mem k cs)) ks.
Proof. induction ks as [|k t IH]; intros ns N D1 D2; simpl; [rewrite app_nil_r; reflexivity|].
  inversion N as [|? ? Nk Nt]; subst. unfold add_end at 2. rewrite mem_app. destruct (mem k cs) eqn:M; simpl.
  - apply IH; [exact Nt| |exact D2]. intros x Hx. apply D1. right. exact Hx.
  - assert (mem k ns = false) as M2 by (apply mem_false; apply D1; left; reflexivity). rewrite M2.
    rewrite <- app_assoc. rewrite IH.
    + rewrite <- app_assoc. reflexivity.
    + exact Nt.
    + intros x Hx I. apply in_app_iff in I. destruct I as [I|[<-|[]]]; [apply (D1 x); [right; exact Hx|exact I]|contradiction].
    + intros x I. apply in_app_iff in I. destruct I as [I|[<-|[]]]; [apply D2, I|apply mem_false, M]. Qed.

Lemma ext_cols_new cs ks : NoDup ks -> ext_cols cs ks = cs ++ filter (fun k => negb (mem k cs)) ks.
Proof. intros N. unfold ext_cols. rewrite <- (app_nil_r cs) at 1. rewrite fold_add_end_new;
    [reflexivity|exact N|intros k ? I; destruct I|intros k I; destruct I]. Qed.

(* ------------------------------------------------------------------ the keyed fold shared by extend_row and sem_wextend *)
Section KeyedFold.
  Context {X : Type} (g : string * X -> val).
  Definition kstep (acc : list val * list string) (kx : string * X) : list val * list string :=
    let '(row, ccs) := acc in (set_cell ccs row (fst kx) (g kx), add_end ccs (fst kx)).
  Definition kfold (cs : list string) (l : list (string * X)) (r : list val) : list val := fst (fold_left kstep l (r, cs)).

  Definition upd (cs : list string) (ro : list val) (kx : string * X) : list val :=
    match index_of (fst kx) cs with Some i => set_nth i (g kx) ro | None => ro end.
  Definition is_new (cs : list string) (kx : string * X) : bool := negb (mem (fst kx) cs).

  Lemma upd_length cs ro kx : List.length (upd cs ro kx) = List.length ro.
  Proof. unfold upd. destruct (index_of (fst kx) cs); [apply set_nth_length|reflexivity]. Qed.

  Lemma kfold_gen cs (l : list (string * X)) : forall ro vs ns,
    List.length ro = List.length cs -> NoDup (map fst l) ->
    (forall k, In k (map fst l) -> ~ In k ns) -> (forall k, In k ns -> ~ In k cs) ->
    fst (fold_left kstep l (ro ++ vs, cs ++ ns)) = fold_left (upd cs) l ro ++ vs ++ map g (filter (is_new cs) l).
  Proof. induction l as [|[k x] t IH]; intros ro vs ns L N D1 D2; simpl; [rewrite app_nil_r; reflexivity|].
    inversion N as [|? ? Nk Nt]; subst. unfold is_new at 1. simpl.
    unfold set_cell, add_end, upd at 2. simpl. rewrite mem_app.
    destruct (index_of k cs) as [i|] eqn:Ei.
    - rewrite (index_of_app_l _ _ _ _ Ei). rewrite (index_of_Some_mem _ _ _ Ei). simpl.
      rewrite set_nth_app_l by (rewrite L; eapply index_of_lt; eassumption).
      apply IH; [rewrite set_nth_length; exact L|exact Nt| |exact D2]. intros y Hy. apply D1. right. exact Hy.
    - assert (mem k cs = false) as M by (apply index_of_None; exact Ei). rewrite M. simpl.
      assert (mem k ns = false) as M2 by (apply mem_false; apply D1; left; reflexivity). rewrite M2.
      assert (index_of k (cs ++ ns) = None) as En by (apply index_of_None; rewrite mem_app, M, M2; reflexivity). rewrite En.
      rewrite <- !app_assoc. rewrite IH.
      + rewrite <- !app_assoc. reflexivity.
      + exact L.
      + exact Nt.
      + intros y Hy I. apply in_app_iff in I. destruct I as [I|[<-|[]]]; [apply (D1 y); [right; exact Hy|exact I]|contradiction].
      + intros y I. apply in_app_iff in I. destruct I as [I|[<-|[]]]; [apply D2, I|apply mem_false, M]. Qed.

  Lemma kfold_spec cs l r : List.length r = List.length cs -> NoDup (map fst l) ->
    kfold cs l r = fold_left (upd cs) l r ++ map g (filter (is_new cs) l).
  Proof. intros L N. unfold kfold. rewrite <- (app_nil_r r) at 1. rewrite <- (app_nil_r cs) at 1.
    rewrite kfold_gen; [reflexivity|exact L|exact N|intros k ? I; destruct I|intros k I; destruct I]. Qed.

  Lemma upd_comm cs ro a b : fst a <> fst b -> upd cs (upd cs ro a) b = upd cs (upd cs ro b) a.
  Proof. intros Nab. unfold upd. destruct (index_of (fst a) cs) as [i|] eqn:Ea, (index_of (fst b) cs) as [j|] eqn:Eb; try reflexivity.
    apply set_nth_comm. intros ->. apply Nab. symmetry. eapply index_of_inj; eassumption. Qed.

  Lemma fold_upd_perm cs l l' : Permutation l l' -> NoDup (map fst l) -> forall ro, fold_left (upd cs) l ro = fold_left (upd cs) l' ro.
  Proof. induction 1 as [|x l l' P IH|x y l|l l' l'' P1 IH1 P2 IH2]; intros N ro; simpl.
    - reflexivity.
    - inversion N; subst. apply IH. assumption.
    - f_equal. apply upd_comm. simpl in N. inversion N as [|? ? Ny _]; subst. intros E. apply Ny. left. symmetry. exact E.
    - rewrite IH1 by exact N. apply IH2. eapply Permutation_NoDup; [apply Permutation_map, P1|exact N]. Qed.

  (* same assignments up to order, and the same order among the NEW columns: the same row *)
  Lemma kfold_perm cs l l' r : List.length r = List.length cs -> NoDup (map fst l) -> Permutation l l' ->
    filter (fun k => negb (mem k cs)) (map fst l) = filter (fun k => negb (mem k cs)) (map fst l') ->
    kfold cs l r = kfold cs l' r.
  Proof. intros L N P F.
    assert (NoDup (map fst l')) as N' by (eapply Permutation_NoDup; [apply Permutation_map, P|exact N]).
    rewrite !kfold_spec by assumption. f_equal; [apply fold_upd_perm; assumption|]. f_equal.
    apply perm_same_keys_eq.
    - unfold is_new. rewrite (filter_map_fst (fun k => negb (mem k cs))). apply NoDup_filter, N.
    - apply perm_filter', P.
    - unfold is_new. rewrite !(filter_map_fst (fun k => negb (mem k cs))). exact F. Qed.
End KeyedFold.

Lemma new_keys_of_ext_cols cs ks ks' : NoDup ks -> NoDup ks' -> ext_cols cs ks = ext_cols cs ks' ->
  filter (fun k => negb (mem k cs)) ks = filter (fun k => negb (mem k cs)) ks'.
Proof. intros N N' E. rewrite !ext_cols_new in E by assumption. eapply app_inv_head, E. Qed.

(* ------------------------------------------------------------------ extend *)
Lemma extend_row_kfold fl cs ops r : extend_row fl cs ops r = kfold (fun ke => eval_expr fl cs r (snd ke)) cs ops r.
Proof. reflexivity. Qed.

Lemma sem_extend_perm fl ops ops' t : width_ok t -> NoDup (map fst ops) -> NoDup (map fst ops') ->
  (forall k, dict_get ops k = dict_get ops' k) -> ext_cols (cols t) (map fst ops) = ext_cols (cols t) (map fst ops') ->
  sem_extend fl ops t = sem_extend fl ops' t.
Proof. intros W N N' E C. unfold sem_extend. rewrite C. f_equal. apply map_ext_in. intros r Hr.
  rewrite !extend_row_kfold. apply kfold_perm.
  - unfold width_ok in W. rewrite Forall_forall in W. apply W, Hr.
  - exact N.
  - apply lookups_perm; assumption.
  - apply new_keys_of_ext_cols; assumption. Qed.

(* ------------------------------------------------------------------ windowed extend *)
Lemma sem_wextend_perm fl ops ops' w t : width_ok t -> NoDup (map fst ops) -> NoDup (map fst ops') ->
  (forall k, dict_get ops k = dict_get ops' k) -> ext_cols (cols t) (map fst ops) = ext_cols (cols t) (map fst ops') ->
  sem_wextend fl ops w t = sem_wextend fl ops' w t.
Proof. intros W N N' E C. unfold sem_wextend. rewrite C. f_equal. apply map_ext_in. intros ir Hir.
  set (tagf := fun ke : string * expr => (fst ke, window_column fl w t (snd ke))).
  change (kfold (fun kc : string * list (nat * val) => lookup_pos (snd kc) (fst ir)) (cols t) (map tagf ops) (snd ir) =
          kfold (fun kc : string * list (nat * val) => lookup_pos (snd kc) (fst ir)) (cols t) (map tagf ops') (snd ir)).
  assert (forall l : list (string * expr), map fst (map tagf l) = map fst l) as MF by (intros l; rewrite map_map; reflexivity).
  apply kfold_perm.
  - unfold width_ok in W. rewrite Forall_forall in W. apply W. eapply tag_from_In, Hir.
  - rewrite MF. exact N.
  - apply Permutation_map. apply lookups_perm; assumption.
  - rewrite !MF. apply new_keys_of_ext_cols; assumption. Qed.

(* ------------------------------------------------------------------ rename: the order of the map's entries is immaterial *)
Lemma NoDup_map_inj {A B} (g : A -> B) (l : list A) x y : NoDup (map g l) -> In x l -> In y l -> g x = g y -> x = y.
Proof. induction l as [|a t IH]; simpl; intros N Ix Iy E; [contradiction|]. inversion N as [|? ? Na Nt]; subst.
  destruct Ix as [<-|Ix], Iy as [<-|Iy]; try reflexivity.
  - exfalso. apply Na. rewrite E. apply in_map, Iy.
  - exfalso. apply Na. rewrite <- E. apply in_map, Ix.
  - apply IH; assumption. Qed.

Lemma find_perm_unique {A} (f : A -> bool) l l' : Permutation l l' ->
  (forall x y, In x l -> In y l -> f x = true -> f y = true -> x = y) -> find f l = find f l'.
Proof. induction 1 as [|x l l' P IH|x y l|l l' l'' P1 IH1 P2 IH2]; intros U; simpl.
  - reflexivity.
  - destruct (f x); [reflexivity|]. apply IH. intros a b Ia Ib. apply U; right; assumption.
  - destruct (f x) eqn:Fx, (f y) eqn:Fy; try reflexivity.
    f_equal. apply U; simpl; auto.
  - rewrite IH1 by exact U. apply IH2. intros a b Ia Ib. apply U; eapply Permutation_in; try (apply Permutation_sym; exact P1); assumption. Qed.

Lemma rename_col_perm m m' c : Permutation m m' -> NoDup (map snd m) -> rename_col m c = rename_col m' c.
Proof. intros P N. unfold rename_col. rewrite (find_perm_unique _ m m' P); [reflexivity|].
  intros x y Ix Iy Fx Fy. apply String.eqb_eq in Fx, Fy. apply (NoDup_map_inj snd m x y N Ix Iy). congruence. Qed.

Lemma sem_rename_perm m m' t : Permutation m m' -> NoDup (map snd m) -> sem_rename m t = sem_rename m' t.
Proof. intros P N. unfold sem_rename. f_equal. apply map_ext. intros c. apply rename_col_perm; assumption. Qed.

(* ------------------------------------------------------------------ project: the key order is fixed by the column list *)
Lemma same_keys_same_ops {X} (l l' : list (string * X)) : NoDup (map fst l) -> NoDup (map fst l') ->
  (forall k, dict_get l k = dict_get l' k) -> map fst l = map fst l' -> l = l'.
Proof. intros N N' E K. apply perm_same_keys_eq; [exact N| |exact K]. apply lookups_perm; assumption. Qed.
