(* C05 -- aggregates and window functions: the SQL templates under the engine models, the pandas and the Polars primitives
   compute the documented value over EVERY group (lists of any length: induction) *)
From Coq Require Import List Bool ZArith QArith Qround Qabs String Ascii Lia Lqa.
Import ListNotations.
From DA Require Import Model.Scalar Model.SqlTemplates Model.ScalarBackends Model.ScalarCatalog Model.AggModels Model.ScalarIndex Model.AggIndex Proofs.ScalarP0.
Local Open Scope string_scope.

(* list-level result equivalence *)
Definition svl_eqv (a b : list sval) : Prop := Forall2 sv_eqv a b.
Fixpoint svl_eqvb (a b : list sval) : bool :=
  match a, b with [], [] => true | x :: t, y :: u => sv_eqvb x y && svl_eqvb t u | _, _ => false end.
Lemma svl_eqv_refl l : svl_eqv l l.
Proof. induction l; constructor; auto using sv_eqv_refl. Qed.
Lemma svl_eqv_const {A} (l : list A) a b : sv_eqv a b -> svl_eqv (map (fun _ => a) l) (map (fun _ => b) l).
Proof. intros E. induction l; constructor; auto. Qed.

(* ---------------------------------------------------------------- present values on each side *)
Lemma all_fin_present_enc d l qs : all_fin (present l) = Some qs -> all_fin (sql_present (map (enc d) l)) = Some qs.
Proof. revert qs. induction l as [|v t IH]; intros qs H; [exact H|].
  destruct v as [ | |b|q| | |s]; try discriminate H.
  - destruct d; apply IH; exact H.
  - destruct d; apply IH; exact H.
  - unfold present in H. cbn in H. fold (present t) in H. destruct (all_fin (present t)) as [qt|] eqn:E; [|discriminate H]. cbn in H. inversion H; subst.
    assert (all_fin (sql_present (map (enc d) t)) = Some qt) as E' by (apply IH; reflexivity).
    destruct d; cbn; unfold sql_present in E'; rewrite E'; reflexivity. Qed.
Lemma all_fin_no_missing l qs : all_fin l = Some qs -> present l = l /\ sql_present l = l.
Proof. revert qs. induction l as [|v t IH]; intros qs H; [repeat split|].
  destruct v; try discriminate H. cbn in H. destruct (all_fin t) as [qt|] eqn:E; [|discriminate H].
  destruct (IH _ eq_refl) as [A C]. unfold present, sql_present in *. cbn. rewrite A, C. repeat split. Qed.
Lemma all_fin_length l qs : all_fin l = Some qs -> List.length qs = List.length l.
Proof. revert qs. induction l as [|v t IH]; intros qs H; [inversion H; reflexivity|].
  destruct v; try discriminate H. cbn in H. destruct (all_fin t) as [qt|] eqn:E; [|discriminate H]. cbn in H. inversion H; subst.
  cbn. rewrite (IH _ eq_refl). reflexivity. Qed.
Lemma all_some_map_some {A B} (f : A -> B) l : all_some (map (fun v => Some (f v)) l) = Some (map f l).
Proof. induction l as [|v t IH]; [reflexivity|]. cbn [map all_some]. rewrite IH. reflexivity. Qed.
Lemma np_present_eq l : np_present l = present l. Proof. reflexivity. Qed.

Lemma agg_present_inv k f l r : agg_present k f l = Some r ->
  exists qs, all_fin (present l) = Some qs /\ (k <= List.length qs)%nat /\ f qs = Some r.
Proof. unfold agg_present. destruct (all_fin (present l)) as [qs|]; [|discriminate].
  destruct (k <=? List.length qs)%nat eqn:L; [|discriminate]. intros H. exists qs. apply Nat.leb_le in L. auto. Qed.

Section Agg.
Variable mf : string -> Q -> option Q.
Variable mf2 : string -> Q -> Q -> option Q.
Variable vr : variant.

(* ---------------------------------------------------------------- SQL: one aggregate over one group *)
(* the scalar statement: template t of method m evaluates to the documented value of the group *)
Definition agg1_ok (d : dialect) (m : string) : Prop :=
  forall vals r, vals <> [] -> spec_agg mf m vals = Some r ->
  exists t v, fmt_agg d m = Some t /\ sem_agg mf mf2 vr d t vals = Some v /\ sv_eqv v r.

Lemma sem_agg_id d fn vals : sem_agg mf mf2 vr d (mk_aggtmpl fn (fun x => x) false) vals = eng_agg mf d fn (map (enc d) vals).
Proof. unfold sem_agg. cbn [ag_row ag_fn ag_ge1].
  replace (map (fun v => sem mf mf2 d vr (QAtom false "" (enc d v))) vals) with (map (fun v => Some (enc d v)) vals) by reflexivity.
  rewrite all_some_map_some. destruct (eng_agg mf d fn (map (enc d) vals)); reflexivity. Qed.

Ltac id_agg d m fn :=
  let vals := fresh "vals" in let r := fresh "r" in let NE := fresh "NE" in let H := fresh "H" in
  intros vals r NE H; change (spec_agg mf m vals) with (lookup m (spec_agg_table mf)) in H;
  eexists; eexists; split; [destruct d; reflexivity|]; rewrite sem_agg_id.

Lemma sql_sum_ok d : agg1_ok d "sum".
Proof. intros vals r NE H. change (spec_agg mf "sum" vals) with (agg_present 1 (fun qs => Some (SNum (qsum qs))) vals) in H.
  destruct (agg_present_inv _ _ _ _ H) as [qs [F [L E]]]. inversion E; subst.
  exists (mk_aggtmpl "SUM" (fun x => x) false). eexists. split; [reflexivity|]. rewrite sem_agg_id.
  unfold eng_agg. rewrite (all_fin_present_enc d _ _ F). cbn. destruct qs; [cbn in L; lia|]. split; [reflexivity | apply sv_eqv_refl]. Qed.
Lemma sql_mean_ok d : agg1_ok d "mean".
Proof. intros vals r NE H. change (spec_agg mf "mean" vals) with (agg_present 1 (fun qs => Some (SNum (qmean qs))) vals) in H.
  destruct (agg_present_inv _ _ _ _ H) as [qs [F [L E]]]. inversion E; subst.
  exists (mk_aggtmpl "AVG" (fun x => x) false). eexists. split; [reflexivity|]. rewrite sem_agg_id.
  unfold eng_agg. rewrite (all_fin_present_enc d _ _ F). cbn. destruct qs; [cbn in L; lia|]. split; [reflexivity | apply sv_eqv_refl]. Qed.
Lemma sql_max_ok d : agg1_ok d "max".
Proof. intros vals r NE H. change (spec_agg mf "max" vals) with (agg_present 1 (fun qs => option_map SNum (qfold1 qmax2 qs)) vals) in H.
  destruct (agg_present_inv _ _ _ _ H) as [qs [F [L E]]].
  exists (mk_aggtmpl "MAX" (fun x => x) false). eexists. split; [reflexivity|]. rewrite sem_agg_id.
  unfold eng_agg. rewrite (all_fin_present_enc d _ _ F). cbn. destruct (qfold1 qmax2 qs); [|discriminate E]. inversion E; subst.
  split; [reflexivity | apply sv_eqv_refl]. Qed.
Lemma sql_min_ok d : agg1_ok d "min".
Proof. intros vals r NE H. change (spec_agg mf "min" vals) with (agg_present 1 (fun qs => option_map SNum (qfold1 qmin2 qs)) vals) in H.
  destruct (agg_present_inv _ _ _ _ H) as [qs [F [L E]]].
  exists (mk_aggtmpl "MIN" (fun x => x) false). eexists. split; [reflexivity|]. rewrite sem_agg_id.
  unfold eng_agg. rewrite (all_fin_present_enc d _ _ F). cbn. destruct (qfold1 qmin2 qs); [|discriminate E]. inversion E; subst.
  split; [reflexivity | apply sv_eqv_refl]. Qed.
Lemma sql_median_ok : agg1_ok DSqlite "median".
Proof. intros vals r NE H. change (spec_agg mf "median" vals) with (agg_present 1 (fun qs => Some (SNum (qmedian qs))) vals) in H.
  destruct (agg_present_inv _ _ _ _ H) as [qs [F [L E]]]. inversion E; subst.
  exists (mk_aggtmpl "MEDIAN" (fun x => x) false). eexists. split; [reflexivity|]. rewrite sem_agg_id.
  unfold eng_agg. rewrite (all_fin_present_enc DSqlite _ _ F). cbn. destruct qs; [cbn in L; lia|]. split; [reflexivity | apply sv_eqv_refl]. Qed.
Lemma sql_var_ok d : agg1_ok d "var".
Proof. intros vals r NE H. change (spec_agg mf "var" vals) with (agg_present 2 (fun qs => Some (SNum (qvar qs))) vals) in H.
  destruct (agg_present_inv _ _ _ _ H) as [qs [F [L E]]]. inversion E; subst. apply Nat.leb_le in L.
  destruct d; eexists; eexists; (split; [reflexivity|]); rewrite sem_agg_id; unfold eng_agg;
    [rewrite (all_fin_present_enc DSqlite _ _ F) | rewrite (all_fin_present_enc DPg _ _ F)]; cbn -[Nat.leb]; rewrite L;
    (split; [reflexivity | apply sv_eqv_refl]). Qed.
Lemma sql_std_ok d : agg1_ok d "std".
Proof. intros vals r NE H. change (spec_agg mf "std" vals) with (agg_present 2 (fun qs => option_map SNum (mf "sqrt" (qvar qs))) vals) in H.
  destruct (agg_present_inv _ _ _ _ H) as [qs [F [L E]]]. apply Nat.leb_le in L.
  destruct (mf "sqrt" (qvar qs)) as [v|] eqn:S; [|discriminate E]. inversion E; subst.
  destruct d; eexists; eexists; (split; [reflexivity|]); rewrite sem_agg_id; unfold eng_agg;
    [rewrite (all_fin_present_enc DSqlite _ _ F) | rewrite (all_fin_present_enc DPg _ _ F)]; cbn -[Nat.leb]; rewrite L, S;
    (split; [reflexivity | apply sv_eqv_refl]). Qed.
Lemma sql_nunique_ok d : agg1_ok d "nunique".
Proof. intros vals r NE H. change (spec_agg mf "nunique" vals) with (match all_fin vals with Some qs => Some (nat_sv (List.length (qdistinct qs))) | None => None end) in H.
  destruct (all_fin vals) as [qs|] eqn:F; [|discriminate H]. inversion H; subst.
  exists (mk_aggtmpl "COUNT(DISTINCT" (fun x => QParen x) false). eexists. split; [reflexivity|].
  unfold sem_agg. cbn [ag_row ag_fn ag_ge1].
  replace (map (fun v => sem mf mf2 d vr (QParen (QAtom false "" (enc d v)))) vals) with (map (fun v => Some (enc d v)) vals) by reflexivity.
  rewrite all_some_map_some. unfold eng_agg.
  destruct (all_fin_no_missing _ _ F) as [P _]. rewrite <- P in F. rewrite (all_fin_present_enc d _ _ F). cbn.
  split; [reflexivity | apply sv_eqv_refl]. Qed.

(* count: SUM(CASE WHEN x IS NOT NULL THEN 1 ELSE 0 END) is the number of present cells -- induction over the group *)
Definition ind01 (b : bool) : sval := SNum (if b then 1 else 0).
Lemma count_rows d vals :
  all_some (map (fun v => sem mf mf2 d vr (case_1_0 (QIsNotNull (QAtom false "" (enc d v))))) vals)
  = Some (map (fun v => ind01 (negb (missing v))) vals).
Proof. induction vals as [|v t IH]; [reflexivity|]. cbn [map all_some]. rewrite IH.
  destruct d, v; try destruct b; reflexivity. Qed.
Lemma qsum_ind01 (l : list bool) :
  all_fin (sql_present (map ind01 l)) = Some (map (fun b : bool => if b then 1%Q else 0%Q) l).
Proof. induction l as [|b t IH]; [reflexivity|]. cbn [map]. unfold sql_present in *. cbn. rewrite IH. reflexivity. Qed.
Lemma qsum_count (l : list bool) : (qsum (map (fun b : bool => if b then 1%Q else 0%Q) l) == inject_Z (Z.of_nat (List.length (filter (fun b => b) l))))%Q.
Proof. induction l as [|b t IH]; [reflexivity|]. cbn [map qsum fold_right filter]. fold (qsum (map (fun b : bool => if b then 1%Q else 0%Q) t)). rewrite IH.
  destruct b; cbn [List.length].
  - rewrite Nat2Z.inj_succ. unfold Z.succ. rewrite inject_Z_plus. change (inject_Z 1) with 1%Q. ring.
  - ring. Qed.
Lemma present_length vals : List.length (present vals) = List.length (filter (fun b : bool => b) (map (fun v => negb (missing v)) vals)).
Proof. induction vals as [|v t IH]; [reflexivity|]. unfold present in *. cbn. destruct (negb (missing v)); cbn; rewrite IH; reflexivity. Qed.
Lemma sql_count_ok d : agg1_ok d "count".
Proof. intros vals r NE H. change (spec_agg mf "count" vals) with (Some (nat_sv (List.length (present vals)))) in H. inversion H; subst.
  destruct vals as [|v0 t]; [congruence|].
  exists (mk_aggtmpl "SUM" (fun x => case_1_0 (QIsNotNull x)) false).
  exists (SNum (qsum (map (fun b : bool => if b then 1%Q else 0%Q) (map (fun v => negb (missing v)) (v0 :: t))))). split; [reflexivity|].
  unfold sem_agg. cbn [ag_row ag_fn ag_ge1]. rewrite count_rows. unfold eng_agg.
  rewrite <- (map_map (fun v => negb (missing v)) ind01). rewrite qsum_ind01. cbn [String.eqb Ascii.eqb Bool.eqb].
  split; [reflexivity|].
  apply sv_eqv_num. rewrite qsum_count. rewrite <- present_length. reflexivity. Qed.
Lemma size_rows d (vals : list sval) :
  all_some (map (fun v : sval => sem mf mf2 d vr (lit_text "1" (SNum 1))) vals) = Some (map (fun _ => SNum 1) vals).
Proof. induction vals as [|v t IH]; [reflexivity|]. cbn [map all_some]. rewrite IH. reflexivity. Qed.
Lemma all_fin_ones {A} (l : list A) : all_fin (sql_present (map (fun _ => SNum 1) l)) = Some (map (fun _ => 1%Q) l).
Proof. induction l as [|b t IH]; [reflexivity|]. unfold sql_present in *. cbn. rewrite IH. reflexivity. Qed.
Lemma qsum_ones {A} (l : list A) : (qsum (map (fun _ => 1%Q) l) == inject_Z (Z.of_nat (List.length l)))%Q.
Proof. induction l as [|b t IH]; [reflexivity|]. cbn [map qsum fold_right List.length]. fold (qsum (map (fun _ : A => 1%Q) t)). rewrite IH.
  rewrite Nat2Z.inj_succ. unfold Z.succ. rewrite inject_Z_plus. change (inject_Z 1) with 1%Q. ring. Qed.
Lemma sql_size_ok d m : (m = "size" \/ m = "_size") -> agg1_ok d m.
Proof. intros M vals r NE H.
  assert (spec_agg mf m vals = Some (nat_sv (List.length vals))) as S by (destruct M as [->| ->]; reflexivity). rewrite S in H. inversion H; subst.
  destruct vals as [|v0 t]; [congruence|].
  exists (mk_aggtmpl "SUM" (fun _ => lit_text "1" (SNum 1)) false). exists (SNum (qsum (map (fun _ => 1%Q) (v0 :: t)))). split; [destruct M as [->| ->]; reflexivity|].
  unfold sem_agg. cbn [ag_row ag_fn ag_ge1]. rewrite size_rows. unfold eng_agg. rewrite all_fin_ones. cbn [String.eqb Ascii.eqb Bool.eqb].
  split; [reflexivity|]. apply sv_eqv_num. apply (qsum_ones (v0 :: t)). Qed.

(* any / all: (MAX(CASE WHEN a THEN 1 ELSE 0 END) >= 1) and (MIN(...) >= 1) -- induction over the group *)
Lemma bool_rows d bs vals : all_bool vals = Some bs ->
  all_some (map (fun v => sem mf mf2 d vr (case_1_0 (QAtom false "" (enc d v)))) vals) = Some (map ind01 bs).
Proof. revert bs. induction vals as [|v t IH]; intros bs H; [inversion H; reflexivity|].
  destruct v as [ | |b| | | | ]; try discriminate H. cbn in H. destruct (all_bool t) as [bt|]; [|discriminate H]. cbn in H. inversion H; subst.
  cbn [map all_some]. rewrite (IH _ eq_refl). destruct d, b; reflexivity. Qed.
Lemma max_ind (bs : list bool) b0 : qfold1 qmax2 (map (fun b : bool => if b then 1%Q else 0%Q) (b0 :: bs)) = Some (if existsb (fun x => x) (b0 :: bs) then 1%Q else 0%Q).
Proof. revert b0. induction bs as [|b t IH]; intros b0; [destruct b0; reflexivity|].
  change (qfold1 qmax2 (map (fun b : bool => if b then 1%Q else 0%Q) (b0 :: b :: t)))
    with (option_map (qmax2 (if b0 then 1%Q else 0%Q)) (qfold1 qmax2 (map (fun b : bool => if b then 1%Q else 0%Q) (b :: t)))).
  rewrite IH. cbn [option_map existsb]. destruct b0, (existsb (fun x => x) (b :: t)) eqn:E; cbn [existsb] in E; rewrite ?E; reflexivity. Qed.
Lemma min_ind (bs : list bool) b0 : qfold1 qmin2 (map (fun b : bool => if b then 1%Q else 0%Q) (b0 :: bs)) = Some (if forallb (fun x => x) (b0 :: bs) then 1%Q else 0%Q).
Proof. revert b0. induction bs as [|b t IH]; intros b0; [destruct b0; reflexivity|].
  change (qfold1 qmin2 (map (fun b : bool => if b then 1%Q else 0%Q) (b0 :: b :: t)))
    with (option_map (qmin2 (if b0 then 1%Q else 0%Q)) (qfold1 qmin2 (map (fun b : bool => if b then 1%Q else 0%Q) (b :: t)))).
  rewrite IH. cbn [option_map forallb]. destruct b0, (forallb (fun x => x) (b :: t)) eqn:E; cbn [forallb] in E; rewrite ?E; reflexivity. Qed.
Lemma sql_any_ok d : agg1_ok d "any".
Proof. intros vals r NE H.
  change (spec_agg mf "any" vals) with (match all_bool vals with Some (b :: bs) => Some (SBool (existsb (fun x => x) (b :: bs))) | _ => None end) in H.
  destruct (all_bool vals) as [[|b bs]|] eqn:B; try discriminate H.
  remember (existsb (fun x => x) (b :: bs)) as e eqn:He. inversion H; subst r.
  exists (mk_aggtmpl "MAX" (fun x => case_1_0 x) true). exists (mkb d e). split; [reflexivity|].
  unfold sem_agg. cbn [ag_row ag_fn ag_ge1]. rewrite (bool_rows d _ _ B). unfold eng_agg. rewrite qsum_ind01. cbn [String.eqb Ascii.eqb Bool.eqb].
  rewrite max_ind, <- He. destruct e, d; split; reflexivity. Qed.
Lemma sql_all_ok d : agg1_ok d "all".
Proof. intros vals r NE H.
  change (spec_agg mf "all" vals) with (match all_bool vals with Some (b :: bs) => Some (SBool (forallb (fun x => x) (b :: bs))) | _ => None end) in H.
  destruct (all_bool vals) as [[|b bs]|] eqn:B; try discriminate H.
  remember (forallb (fun x => x) (b :: bs)) as e eqn:He. inversion H; subst r.
  exists (mk_aggtmpl "MIN" (fun x => case_1_0 x) true). exists (mkb d e). split; [reflexivity|].
  unfold sem_agg. cbn [ag_row ag_fn ag_ge1]. rewrite (bool_rows d _ _ B). unfold eng_agg. rewrite qsum_ind01. cbn [String.eqb Ascii.eqb Bool.eqb].
  rewrite min_ind, <- He. destruct e, d; split; reflexivity. Qed.

(* any_value: MAX(x) when all present values coincide *)
Lemma qdistinct_nil l : qdistinct l = [] -> l = [].
Proof. induction l as [|y t IH]; [reflexivity|]. cbn. destruct (existsb (Qeq_bool y) t) eqn:E; [|discriminate].
  intros H. rewrite (IH H) in E. discriminate E. Qed.
Lemma qdistinct_single l x : qdistinct l = [x] -> Forall (fun y => (y == x)%Q) l.
Proof. induction l as [|y t IH]; [constructor|]. cbn. destruct (existsb (Qeq_bool y) t) eqn:E; intros H.
  - pose proof (IH H) as F. constructor; [|exact F]. apply existsb_exists in E. destruct E as [z [Iz Ez]].
    apply Qeq_bool_iff in Ez. rewrite Ez. rewrite Forall_forall in F. apply F. exact Iz.
  - inversion H; subst. rewrite (qdistinct_nil _ H2). constructor; [reflexivity | constructor]. Qed.
Lemma qfold1_all_eq (f : Q -> Q -> Q) l x v : (forall a b, f a b = a \/ f a b = b) ->
  Forall (fun y => (y == x)%Q) l -> qfold1 f l = Some v -> (v == x)%Q.
Proof. intros Hf. revert v. induction l as [|y t IH]; intros v F H; [discriminate H|]. inversion F; subst.
  destruct t as [|z t']; [inversion H; subst; assumption|].
  change (qfold1 f (y :: z :: t')) with (option_map (f y) (qfold1 f (z :: t'))) in H.
  destruct (qfold1 f (z :: t')) as [w|] eqn:W; [|discriminate H]. cbn in H. inversion H; subst.
  destruct (Hf y w) as [-> | ->]; [assumption | apply IH; auto]. Qed.
Lemma qmax2_pick a b : qmax2 a b = a \/ qmax2 a b = b. Proof. unfold qmax2. destruct (Qle_bool b a); auto. Qed.
Lemma qmin2_pick a b : qmin2 a b = a \/ qmin2 a b = b. Proof. unfold qmin2. destruct (Qle_bool a b); auto. Qed.
Lemma sql_any_value_ok d : agg1_ok d "any_value".
Proof. intros vals r NE H. change (spec_agg mf "any_value" vals) with (agg_present 1 (fun qs => match qdistinct qs with [x] => Some (SNum x) | _ => None end) vals) in H.
  destruct (agg_present_inv _ _ _ _ H) as [qs [F [L E]]].
  destruct (qdistinct qs) as [|x [|x2 rest]] eqn:D; try discriminate E. inversion E; subst.
  exists (mk_aggtmpl "MAX" (fun x => x) false).
  destruct (qfold1 qmax2 qs) as [v|] eqn:M.
  - exists (SNum v). split; [reflexivity|]. rewrite sem_agg_id. unfold eng_agg. rewrite (all_fin_present_enc d _ _ F). cbn. rewrite M.
    split; [reflexivity|]. apply sv_eqv_num. eapply qfold1_all_eq; [apply qmax2_pick | apply qdistinct_single; exact D | exact M].
  - destruct qs; [cbn in L; lia|]. exfalso. clear -M. revert q M. induction qs as [|y t IH]; intros q M; [discriminate M|].
    change (qfold1 qmax2 (q :: y :: t)) with (option_map (qmax2 q) (qfold1 qmax2 (y :: t))) in M.
    destruct (qfold1 qmax2 (y :: t)) eqn:E; [discriminate M|]. eapply IH; exact E. Qed.

(* ---------------------------------------------------------------- lifting to project (one row per group) and windowed extend *)
Definition documented_agg_sql (d : dialect) (c : acls) (m : string) : Prop :=
  forall vals r, vals <> [] -> spec_cls mf c m vals = Some r ->
  exists r', agg_sql mf mf2 vr d c m vals = Some r' /\ svl_eqv r' r.
Lemma lift_project d m : agg1_ok d m -> documented_agg_sql d CProject m.
Proof. intros A vals r NE H. unfold spec_cls in H. destruct (spec_agg mf m vals) as [r0|] eqn:S; [|discriminate H]. inversion H; subst.
  destruct (A vals r0 NE S) as [t [v [F [E Q]]]]. unfold agg_sql, agg_sql_on. rewrite F, E. eexists; split; [reflexivity|].
  constructor; [exact Q | constructor]. Qed.
Lemma lift_group d m : agg1_ok d m -> documented_agg_sql d CGroup m.
Proof. intros A vals r NE H. unfold spec_cls in H. destruct (spec_agg mf m vals) as [r0|] eqn:S; [|discriminate H]. inversion H; subst.
  destruct (A vals r0 NE S) as [t [v [F [E Q]]]]. unfold agg_sql, agg_sql_on. rewrite F, E. eexists; split; [reflexivity|].
  apply svl_eqv_const. exact Q. Qed.

(* ---------------------------------------------------------------- ordered windows *)
Lemma sql_row_number_ok d : documented_agg_sql d CWindow "_row_number".
Proof. intros vals r NE H. inversion H; subst. eexists; split; [reflexivity | apply svl_eqv_refl]. Qed.
Lemma map_enc_eqv d l : svl_eqv (map (enc d) l) l.
Proof. induction l; constructor; auto using enc_eqv. Qed.
Lemma sql_shift_ok d : documented_agg_sql d CWindow "shift".
Proof. intros vals r NE H. destruct vals as [|v t]; [congruence|]. inversion H; subst. eexists; split; [reflexivity|].
  constructor; [apply sv_eqv_refl | apply map_enc_eqv]. Qed.

(* cumulative aggregates: the frame of row k is the prefix of length k+1; induction over the ordered partition *)
Local Open Scope list_scope.
Lemma Forall2_map_l {A B C} (R : B -> C -> Prop) (f : A -> B) l l' : Forall2 (fun a c => R (f a) c) l l' -> Forall2 R (map f l) l'.
Proof. induction 1; constructor; auto. Qed.
Lemma prefixes_fin vals qs : all_fin vals = Some qs ->
  Forall2 (fun p pq => all_fin p = Some pq /\ pq <> []) (prefixes vals) (prefixes qs).
Proof. revert qs. induction vals as [|v t IH]; intros qs H; [inversion H; constructor|].
  destruct v as [ | | |q| | | ]; try discriminate H. cbn in H. destruct (all_fin t) as [qt|] eqn:E; [|discriminate H]. cbn in H. inversion H; subst.
  cbn [prefixes]. constructor; [split; [reflexivity | discriminate]|].
  apply Forall2_map_l. specialize (IH _ eq_refl). clear -IH. induction IH as [|p pq ps pqs [A B] _ IH2]; cbn [map]; constructor; auto.
  split; [cbn; rewrite A; reflexivity | discriminate]. Qed.
Lemma running_sql d fn (G : list Q -> sval) vals qs :
  all_fin vals = Some qs ->
  (forall p pq, all_fin p = Some pq -> pq <> [] -> eng_agg mf d fn (map (enc d) p) = Some (G pq)) ->
  all_some (map (fun p => sem_agg mf mf2 vr d (mk_aggtmpl fn (fun x => x) false) p) (prefixes vals)) = Some (map G (prefixes qs)).
Proof. intros F HG. pose proof (prefixes_fin _ _ F) as P. clear F. induction P as [|p pq ps pqs [A B] _ IH]; [reflexivity|].
  cbn [map all_some]. rewrite sem_agg_id, (HG _ _ A B), IH. reflexivity. Qed.
Lemma all_fin_enc_same d p pq : all_fin p = Some pq -> all_fin (sql_present (map (enc d) p)) = Some pq.
Proof. intros A. destruct (all_fin_no_missing _ _ A) as [P _]. rewrite <- P in A. apply all_fin_present_enc. exact A. Qed.

Definition qmaxl (f : Q -> Q -> Q) (l : list Q) : Q := match qfold1 f l with Some v => v | None => 0%Q end.
Lemma qsum_app a b : (qsum (a ++ b) == qsum a + qsum b)%Q.
Proof. induction a as [|x t IH].
  - change (qsum ([] ++ b)) with (qsum b). change (qsum []) with 0%Q. ring.
  - change (qsum ((x :: t) ++ b)) with (x + qsum (t ++ b))%Q. change (qsum (x :: t)) with (x + qsum t)%Q. rewrite IH. ring. Qed.
Lemma cum_sum_prefixes pre acc t : (acc == qsum pre)%Q ->
  Forall2 (fun pq a => (qsum (pre ++ pq) == a)%Q) (prefixes t) (scan1 Qplus acc t).
Proof. revert pre acc. induction t as [|y t IH]; intros pre acc E; [constructor|]. cbn [prefixes scan1]. constructor.
  - rewrite qsum_app. change (qsum [y]) with (y + 0)%Q. rewrite E. ring.
  - apply Forall2_map_l. specialize (IH (pre ++ [y]) (acc + y)%Q).
    assert (acc + y == qsum (pre ++ [y]))%Q as E' by (rewrite qsum_app; change (qsum [y]) with (y + 0)%Q; rewrite E; ring).
    specialize (IH E'). clear -IH. induction IH; constructor; auto. rewrite <- app_assoc in H. exact H. Qed.
Lemma sql_cumsum_ok d : documented_agg_sql d CWindow "cumsum".
Proof. intros vals r NE H. change (spec_cls mf CWindow "cumsum" vals) with (option_map (fun qs => map SNum (cum Qplus qs)) (all_fin vals)) in H.
  destruct (all_fin vals) as [qs|] eqn:F; [|discriminate H]. inversion H; subst; clear H.
  exists (map (fun pq => SNum (qsum pq)) (prefixes qs)). split.
  - change (agg_sql mf mf2 vr d CWindow "cumsum" vals) with (all_some (map (fun p => sem_agg mf mf2 vr d (mk_aggtmpl "SUM" (fun x => x) false) p) (prefixes vals))).
    apply running_sql; [exact F|]. intros p pq A B. unfold eng_agg. rewrite (all_fin_enc_same d _ _ A). cbn. destruct pq; [congruence | reflexivity].
  - destruct qs as [|x t]; [constructor|]. cbn [prefixes cum map]. constructor; [apply sv_eqv_num; change (qsum [x]) with (x + 0)%Q; ring|].
    pose proof (cum_sum_prefixes [x] x t) as C. assert (x == qsum [x])%Q as E by (change (qsum [x]) with (x + 0)%Q; ring). specialize (C E).
    rewrite map_map. clear -C. induction C; cbn [map]; constructor; auto. apply sv_eqv_num. exact H. Qed.

Lemma qmax2_comp a b b' : (b == b')%Q -> (qmax2 a b == qmax2 a b')%Q.
Proof. intros E. unfold qmax2. destruct (Qle_bool b a) eqn:A, (Qle_bool b' a) eqn:B; q_props; lra. Qed.
Lemma qmin2_comp a b b' : (b == b')%Q -> (qmin2 a b == qmin2 a b')%Q.
Proof. intros E. unfold qmin2. destruct (Qle_bool a b) eqn:A, (Qle_bool a b') eqn:B; q_props; lra. Qed.
Lemma qmax2_assoc a b c : (qmax2 a (qmax2 b c) == qmax2 (qmax2 a b) c)%Q.
Proof. unfold qmax2. destruct (Qle_bool c b) eqn:A, (Qle_bool b a) eqn:B; rewrite ?A, ?B;
  destruct (Qle_bool c a) eqn:C; rewrite ?A, ?B, ?C; q_props; try lra. Qed.
Lemma qmin2_assoc a b c : (qmin2 a (qmin2 b c) == qmin2 (qmin2 a b) c)%Q.
Proof. unfold qmin2. destruct (Qle_bool b c) eqn:A, (Qle_bool a b) eqn:B; rewrite ?A, ?B;
  destruct (Qle_bool a c) eqn:C; rewrite ?A, ?B, ?C; q_props; try lra. Qed.
Lemma qmaxl_snoc (f : Q -> Q -> Q) pre y :
  (forall a b b', (b == b')%Q -> (f a b == f a b')%Q) -> (forall a b c, (f a (f b c) == f (f a b) c)%Q) ->
  pre <> [] -> (qmaxl f (pre ++ [y]) == f (qmaxl f pre) y)%Q.
Proof. intros Hc Ha. induction pre as [|a t IH]; intros NE; [congruence|]. destruct t as [|b t'].
  - reflexivity.
  - assert (b :: t' <> []) as NE' by discriminate. specialize (IH NE').
    change (qmaxl f ((a :: b :: t') ++ [y])) with (qmaxl f (a :: ((b :: t') ++ [y]))).
    unfold qmaxl at 1. cbn [app]. change (qfold1 f (a :: b :: t' ++ [y])) with (option_map (f a) (qfold1 f (b :: t' ++ [y]))).
    unfold qmaxl in IH. cbn [app] in IH. destruct (qfold1 f (b :: t' ++ [y])) as [w|] eqn:W.
    + cbn [option_map]. unfold qmaxl. change (qfold1 f (a :: b :: t')) with (option_map (f a) (qfold1 f (b :: t'))).
      destruct (qfold1 f (b :: t')) as [u|] eqn:U.
      * cbn [option_map]. rewrite (Hc a w (f u y) IH). apply Ha.
      * exfalso. clear -U. revert b U. induction t' as [|c t'' IH']; intros b U; [discriminate U|].
        change (qfold1 f (b :: c :: t'')) with (option_map (f b) (qfold1 f (c :: t''))) in U. destruct (qfold1 f (c :: t'')) eqn:E; [discriminate U|]. eapply IH'; exact E.
    + exfalso. clear -W. revert b W. induction t' as [|c t'' IH']; intros b W; [discriminate W|].
      cbn [app] in W. change (qfold1 f (b :: c :: t'' ++ [y])) with (option_map (f b) (qfold1 f (c :: t'' ++ [y]))) in W.
      destruct (qfold1 f (c :: t'' ++ [y])) eqn:E; [discriminate W|]. eapply IH'; exact E. Qed.
Lemma cum_fold_prefixes (f : Q -> Q -> Q) pre acc t :
  (forall a b b', (b == b')%Q -> (f a b == f a b')%Q) -> (forall a a' b, (a == a')%Q -> (f a b == f a' b)%Q) -> (forall a b c, (f a (f b c) == f (f a b) c)%Q) ->
  pre <> [] -> (acc == qmaxl f pre)%Q ->
  Forall2 (fun pq a => (qmaxl f (pre ++ pq) == a)%Q) (prefixes t) (scan1 f acc t).
Proof. intros Hc Hc' Ha. revert pre acc. induction t as [|y t IH]; intros pre acc NE E; [constructor|]. cbn [prefixes scan1]. constructor.
  - rewrite (qmaxl_snoc f pre y Hc Ha NE). apply Hc'. symmetry. exact E.
  - apply Forall2_map_l. assert (pre ++ [y] <> []) as NE' by (destruct pre; discriminate).
    assert (f acc y == qmaxl f (pre ++ [y]))%Q as E'. { rewrite (qmaxl_snoc f pre y Hc Ha NE). apply Hc'. exact E. }
    specialize (IH (pre ++ [y]) (f acc y) NE' E'). clear -IH. induction IH; constructor; auto. rewrite <- app_assoc in H. exact H. Qed.
Lemma qmax2_comp_l a a' b : (a == a')%Q -> (qmax2 a b == qmax2 a' b)%Q.
Proof. intros E. unfold qmax2. destruct (Qle_bool b a) eqn:A, (Qle_bool b a') eqn:B; q_props; lra. Qed.
Lemma qmin2_comp_l a a' b : (a == a')%Q -> (qmin2 a b == qmin2 a' b)%Q.
Proof. intros E. unfold qmin2. destruct (Qle_bool a b) eqn:A, (Qle_bool a' b) eqn:B; q_props; lra. Qed.
Lemma qfold1_some (f : Q -> Q -> Q) l : l <> [] -> qfold1 f l = Some (qmaxl f l).
Proof. intros NE. unfold qmaxl. destruct (qfold1 f l) eqn:E; [reflexivity|]. exfalso. destruct l as [|a t]; [congruence|]. clear NE.
  revert a E. induction t as [|b t IH]; intros a E; [discriminate E|].
  change (qfold1 f (a :: b :: t)) with (option_map (f a) (qfold1 f (b :: t))) in E. destruct (qfold1 f (b :: t)) eqn:E2; [discriminate E|]. eapply IH; exact E2. Qed.
Lemma sql_cum_fold_ok d m fn (f : Q -> Q -> Q) :
  (forall vals, spec_cls mf CWindow m vals = option_map (fun qs => map SNum (cum f qs)) (all_fin vals)) ->
  (forall vals, agg_sql mf mf2 vr d CWindow m vals = all_some (map (fun p => sem_agg mf mf2 vr d (mk_aggtmpl fn (fun x => x) false) p) (prefixes vals))) ->
  (forall qs, qs <> [] -> eng_agg mf d fn (map SNum qs) = Some (SNum (qmaxl f qs))) ->
  (forall a b b', (b == b')%Q -> (f a b == f a b')%Q) -> (forall a a' b, (a == a')%Q -> (f a b == f a' b)%Q) -> (forall a b c, (f a (f b c) == f (f a b) c)%Q) ->
  documented_agg_sql d CWindow m.
Proof. intros S A E Hc Hc' Ha vals r NE H. rewrite S in H. destruct (all_fin vals) as [qs|] eqn:F; [|discriminate H]. inversion H; subst; clear H.
  exists (map (fun pq => SNum (qmaxl f pq)) (prefixes qs)). split.
  - rewrite A. apply running_sql; [exact F|]. intros p pq Ap B.
    assert (map (enc d) p = map SNum pq) as EQ.
    { clear -Ap. revert pq Ap. induction p as [|v t IH]; intros pq Ap; [inversion Ap; reflexivity|].
      destruct v; try discriminate Ap. cbn in Ap. destruct (all_fin t) eqn:T; [|discriminate Ap]. cbn in Ap. inversion Ap; subst.
      cbn [map]. rewrite (IH _ eq_refl). destruct d; reflexivity. }
    rewrite EQ. apply E. exact B.
  - destruct qs as [|x t]; [constructor|]. cbn [prefixes cum map]. constructor; [apply sv_eqv_refl|].
    assert ([x] <> []) as NE1 by discriminate. assert (x == qmaxl f [x])%Q as E1 by reflexivity.
    pose proof (cum_fold_prefixes f [x] x t Hc Hc' Ha NE1 E1) as C.
    rewrite map_map. clear -C. induction C; cbn [map]; constructor; auto. apply sv_eqv_num. exact H. Qed.
Lemma eng_max d qs : qs <> [] -> eng_agg mf d "MAX" (map SNum qs) = Some (SNum (qmaxl qmax2 qs)).
Proof. intros NE. unfold eng_agg. assert (all_fin (sql_present (map SNum qs)) = Some qs) as A.
  { clear NE. induction qs as [|q t IH]; [reflexivity|]. unfold sql_present in *. cbn. rewrite IH. reflexivity. }
  rewrite A. cbn. rewrite (qfold1_some qmax2 qs NE). reflexivity. Qed.
Lemma eng_min d qs : qs <> [] -> eng_agg mf d "MIN" (map SNum qs) = Some (SNum (qmaxl qmin2 qs)).
Proof. intros NE. unfold eng_agg. assert (all_fin (sql_present (map SNum qs)) = Some qs) as A.
  { clear NE. induction qs as [|q t IH]; [reflexivity|]. unfold sql_present in *. cbn. rewrite IH. reflexivity. }
  rewrite A. cbn. rewrite (qfold1_some qmin2 qs NE). reflexivity. Qed.
Lemma sql_cummax_ok d : documented_agg_sql d CWindow "cummax".
Proof. apply (sql_cum_fold_ok d "cummax" "MAX" qmax2); try reflexivity.
  - intros. apply eng_max. assumption.
  - apply qmax2_comp. - apply qmax2_comp_l. - apply qmax2_assoc. Qed.
Lemma sql_cummin_ok d : documented_agg_sql d CWindow "cummin".
Proof. apply (sql_cum_fold_ok d "cummin" "MIN" qmin2); try reflexivity.
  - intros. apply eng_min. assumption.
  - apply qmin2_comp. - apply qmin2_comp_l. - apply qmin2_assoc. Qed.
End Agg.
