(* C05 -- the per-method lemmas assembled over the index sets derived from the catalogue; witnesses of the known findings *)
From Coq Require Import List Bool ZArith QArith Qround Qabs Qpower String Ascii Lia Lqa.
Import ListNotations.
From DA Require Import Model.Scalar Model.SqlTemplates Model.ScalarBackends Model.ScalarCatalog Model.ScalarIndex
  Proofs.ScalarP0 Proofs.ScalarP1 Proofs.ScalarP1b Proofs.ScalarP1c Proofs.ScalarP1d Proofs.ScalarP2 Proofs.ScalarP3.
Local Open Scope string_scope.

Section Top.
Variable mf : string -> Q -> option Q.
Variable mf2 : string -> Q -> Q -> option Q.

Lemma atoms_from_ext d l1 l2 k vs : (forall i, flag_at l1 i = flag_at l2 i) -> atoms_from d l1 k vs = atoms_from d l2 k vs.
Proof. intros E. revert k. induction vs as [|v t IH]; intros k; [reflexivity|]. cbn [atoms_from]. rewrite E, IH. reflexivity. Qed.
Lemma sql_eval_flags vr d m l1 l2 args : (forall i, flag_at l1 i = flag_at l2 i) ->
  sql_eval mf mf2 vr d m l1 args = sql_eval mf mf2 vr d m l2 args.
Proof. intros E. unfold sql_eval, sql_eval_on. rewrite (atoms_from_ext d l1 l2 0 args E). reflexivity. Qed.

Ltac flags := let i := fresh "i" in intros i; do 12 (try (destruct i as [|i]; [reflexivity|])); destruct i; reflexivity.
Ltac use L := let args := fresh "args" in let r := fresh "r" in let G := fresh "G" in let H := fresh "H" in
  intros args r G H; eapply L; [exact G | exact H].
Ltac use_lit L := let args := fresh "args" in let r := fresh "r" in let G := fresh "G" in let H := fresh "H" in
  intros args r G H; rewrite (sql_eval_flags _ _ _ _ [false; true]); [eapply L; [exact G | exact H] | flags].
Ltac use_cmp op test :=
  let args := fresh "args" in let r := fresh "r" in let G := fresh "G" in let H := fresh "H" in
  intros args r G H; eapply (sql_cmp_documented mf mf2 _ _ _ _ op test); [intros; reflexivity | intros c; destruct c; reflexivity | reflexivity | exact G | exact H].
Ltac use_in L := let args := fresh "args" in let r := fresh "r" in let G := fresh "G" in let H := fresh "H" in
  intros args r G H; eapply L; [ | exact G | exact H]; cbn; tauto.

Ltac sql_pick :=
  first
  [ use (sql_add mf mf2) | use (sql_mul mf mf2) | use (sql_sub mf mf2) | use (sql_div mf mf2) | use (sql_fdiv mf mf2) | use (sql_floordiv mf mf2)
  | use_cmp CEq is_Eq | use_cmp CNe (fun c => negb (is_Eq c)) | use_cmp CLt is_Lt | use_cmp CLe (fun c => negb (is_Gt c))
  | use_cmp CGt is_Gt | use_cmp CGe (fun c => negb (is_Lt c))
  | use (sql_and mf mf2) | use (sql_or mf mf2)
  | use_in (sql_mod_sqlite mf mf2) | use_in (sql_mod_pg mf mf2) | use (sql_remainder_pg mf mf2)
  | use (sql_pow mf mf2)
  | use (sql_abs_pg mf mf2) | use (sql_sign_pg mf mf2) | use (sql_abs_sqlite mf mf2) | use (sql_sign_sqlite mf mf2)
  | use (sql_floor mf mf2) | use (sql_ceil mf mf2) | use (sql_round mf mf2) | use (sql_around mf mf2)
  | use (sql_maximum mf mf2) | use (sql_minimum mf mf2) | use (sql_fmax mf mf2) | use (sql_fmin mf mf2)
  | use (sql_if_else mf mf2) | use (sql_where mf mf2) | use (sql_coalesce mf mf2)
  | use (sql_is_null mf mf2) | use (sql_is_nan_sqlite mf mf2) | use (sql_is_nan_pg mf mf2) | use (sql_is_inf mf mf2) | use (sql_is_bad mf mf2)
  | use (sql_concat mf mf2) | use (sql_as_str mf mf2) | use (sql_as_int64 mf mf2)
  | use_lit (sql_trimstr mf mf2) | use_lit (sql_is_in mf mf2) | use_lit (sql_mapv mf mf2)
  | use_in (sql_math_sqlite mf mf2) | use_in (sql_math_pg mf mf2) ].

Theorem sql_supported_documented vr d m lits :
  In (m, lits) (supported_sql d) ->
  forall args r, sql_guard vr d m args = true -> spec_method mf mf2 m args = Some r ->
    exists r', sql_eval mf mf2 vr d m lits args = Some r' /\ sv_eqv r' r.
Proof. intros I. destruct d; vm_compute in I;
  repeat (destruct I as [I|I]; [inversion I; subst; clear I; sql_pick | ]); destruct I. Qed.

(* a constant in any argument position: except for the four methods whose extra arguments MUST be literals (and are indexed with
   their flags above), the templates do not look at whether an operand is a column or a literal, so the statement holds for
   every assignment of literal flags *)
Definition literal_arg_methods : list string := ["around"; "trimstr"; "is_in"; "mapv"].
Theorem sql_supported_documented_any_literals vr d m lits0 :
  In (m, lits0) (supported_sql d) -> str_in m literal_arg_methods = false ->
  forall lits args r, sql_guard vr d m args = true -> spec_method mf mf2 m args = Some r ->
    exists r', sql_eval mf mf2 vr d m lits args = Some r' /\ sv_eqv r' r.
Proof. intros I NL lits. destruct d; vm_compute in I;
  repeat (destruct I as [I|I]; [inversion I; subst; clear I; first [discriminate NL | sql_pick] | ]); destruct I. Qed.

Ltac use2 L := let args := fresh "args" in let r := fresh "r" in let G := fresh "G" in let H := fresh "H" in
  intros args r G H; eapply L; [exact G | exact H].
Ltac np_cmp_use test nr :=
  let args := fresh "args" in let r := fresh "r" in let G := fresh "G" in let H := fresh "H" in
  intros args r G H; match type of H with spec_method _ _ ?m _ = _ => eapply (np_cmp_documented mf mf2 m test nr); [reflexivity | reflexivity | exact G | exact H] end.
Ltac np_pick :=
  first
  [ use2 (np_add mf mf2) | use2 (np_mul mf mf2) | use2 (np_sub mf mf2) | use2 (np_div mf mf2) | use2 (np_fdiv mf mf2) | use2 (np_floordiv mf mf2)
  | use_in (np_mod mf mf2) | use2 (np_pow mf mf2)
  | np_cmp_use is_Eq false | np_cmp_use (fun c => negb (is_Eq c)) true | np_cmp_use is_Lt false | np_cmp_use (fun c => negb (is_Gt c)) false
  | np_cmp_use is_Gt false | np_cmp_use (fun c => negb (is_Lt c)) false
  | use2 (np_and mf mf2) | use2 (np_or mf mf2) | use2 (np_abs mf mf2) | use2 (np_sign mf mf2) | use2 (np_floor mf mf2) | use2 (np_ceil mf mf2)
  | use2 (np_round mf mf2) | use2 (np_around mf mf2) | use2 (np_maximum mf mf2) | use2 (np_minimum mf mf2) | use2 (np_fmax mf mf2) | use2 (np_fmin mf mf2)
  | use2 (np_if_else mf mf2) | use2 (np_where mf mf2) | use2 (np_coalesce mf mf2) | use2 (np_is_null mf mf2) | use2 (np_is_nan mf mf2)
  | use2 (np_is_inf mf mf2) | use2 (np_is_bad mf mf2) | use2 (np_is_in mf mf2) | use2 (np_mapv mf mf2) | use2 (np_concat mf mf2) | use2 (np_trimstr mf mf2)
  | use2 (np_as_str mf mf2) | use2 (np_as_int64 mf mf2) | use2 (np_arctan2 mf mf2) | use_in (np_math mf mf2) ].

Theorem pandas_supported_documented m lits :
  In (m, lits) supported_pandas ->
  forall args r, np_guard m args = true -> spec_method mf mf2 m args = Some r ->
    exists r', np_eval mf mf2 m args = Some r' /\ sv_eqv r' r.
Proof. intros I. vm_compute in I;
  repeat (destruct I as [I|I]; [inversion I; subst; clear I; np_pick | ]); destruct I. Qed.

Ltac use3 L := let args := fresh "args" in let r := fresh "r" in let G := fresh "G" in let H := fresh "H" in let r' := fresh "r'" in let P := fresh "P" in
  intros args r G H r' P; eapply L; [exact G | exact H | exact P].
Ltac pl_cmp_use test :=
  let args := fresh "args" in let r := fresh "r" in let G := fresh "G" in let H := fresh "H" in let r' := fresh "r'" in let P := fresh "P" in
  intros args r G H r' P; match type of H with spec_method _ _ ?m _ = _ => eapply (pl_cmp_documented mf mf2 m test); [reflexivity | reflexivity | exact G | exact H | exact P] end.
Ltac use_in3 L := let args := fresh "args" in let r := fresh "r" in let G := fresh "G" in let H := fresh "H" in let r' := fresh "r'" in let P := fresh "P" in
  intros args r G H r' P; eapply L; [ | exact G | exact H | exact P]; cbn; tauto.
Ltac pl_pick :=
  first
  [ use3 (pl_add mf mf2) | use3 (pl_mul mf mf2) | use3 (pl_sub mf mf2) | use3 (pl_div mf mf2) | use3 (pl_fdiv mf mf2) | use3 (pl_floordiv mf mf2)
  | use_in3 (pl_mod mf mf2) | use3 (pl_pow mf mf2)
  | pl_cmp_use is_Eq | pl_cmp_use (fun c => negb (is_Eq c)) | pl_cmp_use is_Lt | pl_cmp_use (fun c => negb (is_Gt c))
  | pl_cmp_use is_Gt | pl_cmp_use (fun c => negb (is_Lt c))
  | use3 (pl_and mf mf2) | use3 (pl_or mf mf2) | use3 (pl_abs mf mf2) | use3 (pl_sign mf mf2) | use3 (pl_floor mf mf2) | use3 (pl_ceil mf mf2)
  | use3 (pl_round mf mf2) | use3 (pl_around mf mf2) | use3 (pl_maximum mf mf2) | use3 (pl_minimum mf mf2) | use3 (pl_fmax mf mf2) | use3 (pl_fmin mf mf2)
  | use3 (pl_if_else mf mf2) | use3 (pl_where mf mf2) | use3 (pl_coalesce mf mf2) | use3 (pl_is_null mf mf2) | use3 (pl_is_nan mf mf2)
  | use3 (pl_is_inf mf mf2) | use3 (pl_is_bad mf mf2) | use3 (pl_is_in mf mf2) | use3 (pl_mapv mf mf2) | use3 (pl_concat mf mf2) | use3 (pl_trimstr mf mf2)
  | use3 (pl_as_str mf mf2) | use3 (pl_as_int64 mf mf2) | use3 (pl_arctan2 mf mf2) | use_in3 (pl_math mf mf2) ].

Theorem polars_catalogued_documented m lits :
  In (m, lits) supported_polars ->
  forall args r, pl_guard m args = true -> spec_method mf mf2 m args = Some r ->
    forall r', pl_eval mf mf2 m args = Some r' -> sv_eqv r' r.
Proof. intros I. vm_compute in I;
  repeat (destruct I as [I|I]; [inversion I; subst; clear I; pl_pick | ]); destruct I. Qed.

(* ------------------------------------------------------------------ witnesses: the full statement is false for the shipped code *)
Definition differs (a b : sval) : Prop := sv_eqvb a b = false.
Lemma sql_maxmin_refuted d :
  (exists args r r', spec_method mf mf2 "maximum" args = Some r /\ sql_eval mf mf2 shipped d "maximum" [false; false] args = Some r' /\ differs r' r) /\
  (exists args r r', spec_method mf mf2 "minimum" args = Some r /\ sql_eval mf mf2 shipped d "minimum" [false; false] args = Some r' /\ differs r' r) /\
  (exists args r r', spec_method mf mf2 "fmax" args = Some r /\ sql_eval mf mf2 shipped d "fmax" [false; false] args = Some r' /\ differs r' r) /\
  (exists args r r', spec_method mf mf2 "fmin" args = Some r /\ sql_eval mf mf2 shipped d "fmin" [false; false] args = Some r' /\ differs r' r).
Proof. repeat split.
  - exists [SNum 1; SNull], SNull, (SNum 1). destruct d; repeat split; reflexivity.
  - exists [SNum 1; SNull], SNull, (SNum 1). destruct d; repeat split; reflexivity.
  - exists [SNum 1; SNull], (SNum 1), SNull. destruct d; repeat split; reflexivity.
  - exists [SNum 1; SNull], (SNum 1), SNull. destruct d; repeat split; reflexivity. Qed.
Lemma sql_trimstr_refuted d :
  exists args r r', spec_method mf mf2 "trimstr" args = Some r /\ sql_eval mf mf2 shipped d "trimstr" [false; true; true] args = Some r' /\ differs r' r.
Proof. exists [SStr "abcdef"; SNum 1; SNum 3], (SStr "bc"), (SStr "bcd"). destruct d; repeat split; reflexivity. Qed.
Lemma sqlite_abs_sign_inf_refuted :
  (exists args r r', spec_method mf mf2 "abs" args = Some r /\ sql_eval mf mf2 shipped DSqlite "abs" [false] args = Some r' /\ differs r' r) /\
  (exists args r r', spec_method mf mf2 "sign" args = Some r /\ sql_eval mf mf2 shipped DSqlite "sign" [false] args = Some r' /\ differs r' r).
Proof. split.
  - exists [SNInf], SPInf, SNull. repeat split; reflexivity.
  - exists [SPInf], (SNum 1), SNull. repeat split; reflexivity. Qed.
Lemma pg_is_nan_of_nan_refuted vr :
  exists args r r', spec_method mf mf2 "is_nan" args = Some r /\ sql_eval mf mf2 vr DPg "is_nan" [false] args = Some r' /\ differs r' r.
Proof. exists [SNaN], (SBool true), (SBool false). repeat split; reflexivity. Qed.
Lemma polars_maxmin_nan_refuted :
  (exists args r r', spec_method mf mf2 "maximum" args = Some r /\ pl_eval mf mf2 "maximum" args = Some r' /\ differs r' r) /\
  (exists args r r', spec_method mf mf2 "minimum" args = Some r /\ pl_eval mf mf2 "minimum" args = Some r' /\ differs r' r).
Proof. split; exists [SNaN; SNum 1], SNull, (SNum 1); repeat split; reflexivity. Qed.
End Top.
