(* C18, part 1: aggregates and window functions of Model/Sem.v under a permutation of the values they see.
   - every aggregate of agg_fn (sum, mean, min, max, count, size; anything else is null) is permutation-invariant over Q
   - a window function whose name is not order-sensitive is the group aggregate broadcast to every row *)
From Coq Require Import List Bool Arith ZArith QArith Qreduction String Lia Permutation Sorted.
Import ListNotations.
From DA Require Import Base.PyRT Base.Val Model.Sem Model.PermGuard Proofs.SemBasicP Proofs.SemOrderP.
Local Open Scope string_scope.
Local Open Scope list_scope.

(* ---------- case analysis on the string matches of agg_fn / win_fn (directed: only the scrutinised variable is split) *)
Ltac split_str := repeat (match goal with |- context[match ?x with _ => _ end] => is_var x; destruct x end).

Lemma agg_match_elim {A} (P : A -> Prop) (op : string) (a1 a2 a3 a4 a5 a6 d : A) :
  (op = "sum" -> P a1) -> (op = "mean" -> P a2) -> (op = "min" -> P a3) -> (op = "max" -> P a4) -> (op = "count" -> P a5) ->
  (op = "size" \/ op = "_size" -> P a6) -> P d ->
  P (match op with "sum" => a1 | "mean" => a2 | "min" => a3 | "max" => a4 | "count" => a5 | "size" | "_size" => a6 | _ => d end).
Proof.
  intros H1 H2 H3 H4 H5 H6 Hd.
  split_str; try exact Hd.
  all: try (apply H1; reflexivity); try (apply H2; reflexivity); try (apply H3; reflexivity); try (apply H4; reflexivity); try (apply H5; reflexivity).
  all: apply H6; auto.
Qed.

Definition agg_named (op : string) : Prop :=
  op = "sum" \/ op = "mean" \/ op = "min" \/ op = "max" \/ op = "count" \/ op = "size" \/ op = "_size".

Lemma agg_fn_cases fl op vs : agg_named op \/ agg_fn fl op vs = VNull.
Proof.
  unfold agg_fn, agg_named. apply agg_match_elim; try (intros ->; left; tauto).
  - intros [->| ->]; left; tauto.
  - right. reflexivity.
Qed.

(* ---------- sums over Q *)
Lemma fold_plus_compat l : forall a b, Qeq a b -> Qeq (fold_left Qplus l a) (fold_left Qplus l b).
Proof. induction l as [|x t IH]; intros a b E; simpl; [exact E|]. apply IH. rewrite E. reflexivity. Qed.

Lemma fold_plus_perm l l' : Permutation l l' -> forall a, Qeq (fold_left Qplus l a) (fold_left Qplus l' a).
Proof.
  induction 1 as [|x l l' P IH|x y l|l l' l'' P1 IH1 P2 IH2]; intros a; simpl.
  - reflexivity.
  - apply IH.
  - apply fold_plus_compat. ring.
  - rewrite IH1. apply IH2.
Qed.

Lemma qsum_perm l l' : Permutation l l' -> Qeq (qsum l) (qsum l').
Proof. intros P. apply fold_plus_perm, P. Qed.

(* ---------- minimum / maximum over Q: the fold of a selection function *)
Section Extremum.
  Variable f : Q -> Q -> Q.
  Variable R : Q -> Q -> Prop.
  Hypothesis f_l : forall x y, R (f x y) x.
  Hypothesis f_r : forall x y, R (f x y) y.
  Hypothesis f_in : forall x y, f x y = x \/ f x y = y.
  Hypothesis R_trans : forall a b c, R a b -> R b c -> R a c.
  Hypothesis R_antisym : forall a b, R a b -> R b a -> Qeq a b.

  Lemma fold_ext_spec t : forall x, (forall y, In y (x :: t) -> R (fold_left f t x) y) /\ In (fold_left f t x) (x :: t).
  Proof.
    induction t as [|a t IH]; intros x; simpl.
    - split; [intros y [<-|[]]|left; reflexivity].
      destruct (f_in x x) as [E|E]; rewrite <- E at 1; apply f_l.
    - destruct (IH (f x a)) as [B I]. split.
      + intros y [<-|[<-|Hy]].
        * eapply R_trans; [apply B; left; reflexivity|apply f_l].
        * eapply R_trans; [apply B; left; reflexivity|apply f_r].
        * apply B. right. exact Hy.
      + destruct I as [E|I]; [|right; right; exact I].
        destruct (f_in x a) as [E2|E2]; [left|right; left]; congruence.
  Qed.

  Lemma qfold1_perm l l' : Permutation l l' ->
    match qfold1 f l, qfold1 f l' with Some a, Some b => Qeq a b | None, None => True | _, _ => False end.
  Proof.
    intros P. destruct l as [|x t]; destruct l' as [|y u]; simpl.
    - exact I.
    - apply Permutation_nil in P. discriminate.
    - apply Permutation_sym, Permutation_nil in P. discriminate.
    - destruct (fold_ext_spec t x) as [B1 I1]. destruct (fold_ext_spec u y) as [B2 I2].
      apply R_antisym.
      + apply B1. eapply Permutation_in; [apply Permutation_sym, P|exact I2].
      + apply B2. eapply Permutation_in; [apply P|exact I1].
  Qed.
End Extremum.

Lemma qle_bool_false x y : Qle_bool x y = false -> Qle y x.
Proof.
  intros E. destruct (Qlt_le_dec y x) as [h|h]; [apply Qlt_le_weak, h|].
  apply Qle_bool_iff in h. congruence.
Qed.
Lemma qmin_le_l x y : Qle (qmin x y) x.
Proof. unfold qmin. destruct (Qle_bool x y) eqn:E; [apply Qle_refl|apply qle_bool_false, E]. Qed.
Lemma qmin_le_r x y : Qle (qmin x y) y.
Proof. unfold qmin. destruct (Qle_bool x y) eqn:E; [apply Qle_bool_iff, E|apply Qle_refl]. Qed.
Lemma qmin_in x y : qmin x y = x \/ qmin x y = y.
Proof. unfold qmin. destruct (Qle_bool x y); auto. Qed.
Lemma qmax_ge_l x y : Qle x (qmax x y).
Proof. unfold qmax. destruct (Qle_bool x y) eqn:E; [apply Qle_bool_iff, E|apply Qle_refl]. Qed.
Lemma qmax_ge_r x y : Qle y (qmax x y).
Proof. unfold qmax. destruct (Qle_bool x y) eqn:E; [apply Qle_refl|apply qle_bool_false, E]. Qed.
Lemma qmax_in x y : qmax x y = x \/ qmax x y = y.
Proof. unfold qmax. destruct (Qle_bool x y); auto. Qed.

Lemma opt_num_eq a b : match a, b with Some x, Some y => Qeq x y | None, None => True | _, _ => False end -> opt_num a = opt_num b.
Proof. destruct a, b; simpl; intros H; try contradiction; [|reflexivity]. unfold qn. f_equal. apply Qred_complete, H. Qed.

Lemma qmin_fold_perm l l' : Permutation l l' -> opt_num (qfold1 qmin l) = opt_num (qfold1 qmin l').
Proof.
  intros P. apply opt_num_eq.
  apply (qfold1_perm qmin Qle qmin_le_l qmin_le_r qmin_in Qle_trans Qle_antisym l l' P).
Qed.
Lemma qmax_fold_perm l l' : Permutation l l' -> opt_num (qfold1 qmax l) = opt_num (qfold1 qmax l').
Proof.
  intros P. apply opt_num_eq.
  apply (qfold1_perm qmax (fun a b => Qle b a) qmax_ge_l qmax_ge_r qmax_in); [| |exact P].
  - intros a b c H1 H2. eapply Qle_trans; eassumption.
  - intros a b H1 H2. apply Qle_antisym; assumption.
Qed.

(* ---------- every aggregate is permutation-invariant *)
Lemma nums_perm vs vs' : Permutation vs vs' -> Permutation (nums vs) (nums vs').
Proof. intros P. unfold nums. apply perm_flat_map, P. Qed.

Lemma perm_nil_iff {A} (l l' : list A) : Permutation l l' -> (l = [] <-> l' = []).
Proof.
  intros P. split; intros ->; [apply Permutation_nil in P|apply Permutation_sym, Permutation_nil in P]; exact P.
Qed.

Lemma agg_sum_perm fl vs vs' : Permutation vs vs' -> agg_fn fl "sum" vs = agg_fn fl "sum" vs'.
Proof.
  intros P. apply nums_perm in P. cbn [agg_fn].
  destruct (nums vs) as [|x t] eqn:E1; destruct (nums vs') as [|y u] eqn:E2.
  - reflexivity.
  - apply Permutation_nil in P. discriminate.
  - apply Permutation_sym, Permutation_nil in P. discriminate.
  - unfold qn. f_equal. apply Qred_complete, qsum_perm, P.
Qed.

Lemma agg_mean_perm fl vs vs' : Permutation vs vs' -> agg_fn fl "mean" vs = agg_fn fl "mean" vs'.
Proof.
  intros P. apply nums_perm in P. cbn [agg_fn].
  destruct (nums vs) as [|x t] eqn:E1; destruct (nums vs') as [|y u] eqn:E2.
  - reflexivity.
  - apply Permutation_nil in P. discriminate.
  - apply Permutation_sym, Permutation_nil in P. discriminate.
  - unfold qn. f_equal. apply Qred_complete.
    rewrite (Permutation_length P). rewrite (qsum_perm _ _ P). reflexivity.
Qed.

Lemma agg_min_perm fl vs vs' : Permutation vs vs' -> agg_fn fl "min" vs = agg_fn fl "min" vs'.
Proof. intros P. cbn [agg_fn]. apply qmin_fold_perm, nums_perm, P. Qed.
Lemma agg_max_perm fl vs vs' : Permutation vs vs' -> agg_fn fl "max" vs = agg_fn fl "max" vs'.
Proof. intros P. cbn [agg_fn]. apply qmax_fold_perm, nums_perm, P. Qed.

Lemma agg_count_perm fl vs vs' : Permutation vs vs' -> agg_fn fl "count" vs = agg_fn fl "count" vs'.
Proof.
  intros P. cbn [agg_fn].
  destruct vs as [|x t]; destruct vs' as [|y u].
  - reflexivity.
  - apply Permutation_nil in P. discriminate.
  - apply Permutation_sym, Permutation_nil in P. discriminate.
  - rewrite (Permutation_length (perm_filter (fun v => negb (is_null v)) _ _ P)). reflexivity.
Qed.

Lemma agg_size_perm fl vs vs' : Permutation vs vs' -> agg_fn fl "size" vs = agg_fn fl "size" vs'.
Proof.
  intros P. cbn [agg_fn].
  destruct vs as [|x t]; destruct vs' as [|y u].
  - reflexivity.
  - apply Permutation_nil in P. discriminate.
  - apply Permutation_sym, Permutation_nil in P. discriminate.
  - rewrite (Permutation_length P). reflexivity.
Qed.
Lemma agg_usize_perm fl vs vs' : Permutation vs vs' -> agg_fn fl "_size" vs = agg_fn fl "_size" vs'.
Proof. exact (agg_size_perm fl vs vs'). Qed.

Lemma agg_named_perm fl op vs vs' : agg_named op -> Permutation vs vs' -> agg_fn fl op vs = agg_fn fl op vs'.
Proof.
  intros [->|[->|[->|[->|[->|[->| ->]]]]]] P;
    [apply agg_sum_perm|apply agg_mean_perm|apply agg_min_perm|apply agg_max_perm|apply agg_count_perm|apply agg_size_perm|apply agg_usize_perm]; exact P.
Qed.

(* sum / mean / min / max / count / size over a permuted group give the same value (exactly: results are Qred-normal) *)
Lemma agg_fn_perm fl op vs vs' : Permutation vs vs' -> agg_fn fl op vs = agg_fn fl op vs'.
Proof.
  intros P. destruct (agg_fn_cases fl op vs) as [N|E]; [apply agg_named_perm; assumption|].
  destruct (agg_fn_cases fl op vs') as [N|E']; [apply agg_named_perm; assumption|].
  rewrite E, E'. reflexivity.
Qed.

Lemma agg_value_perm fl cs grp grp' e : Permutation grp grp' -> agg_value fl cs grp e = agg_value fl cs grp' e.
Proof.
  intros P. unfold agg_value. destruct (agg_parts e) as [[op arg]|]; [|reflexivity].
  apply agg_fn_perm. apply Permutation_map, P.
Qed.

(* ---------- window functions: which ones look at the order of the partition (Model/PermGuard.order_sensitive) *)
(* every other window function is the group aggregate, the same value on every row of the partition *)
Lemma win_fn_broadcast fl op extra vs : order_sensitive op = false -> win_fn fl op extra vs = map (fun _ => agg_fn fl op vs) vs.
Proof.
  unfold order_sensitive. intros S. apply negb_false_iff in S. apply mem_In in S. unfold plain_aggregates in S.
  repeat (destruct S as [<-|S]; [reflexivity|]). destruct S.
Qed.

(* ---------- small list facts used by the later parts *)
Lemma fold_left_map_in {A B C} (f : A -> B -> A) (g : C -> B) l : forall a, fold_left f (map g l) a = fold_left (fun a x => f a (g x)) l a.
Proof. induction l as [|x t IH]; intros a; simpl; [reflexivity|apply IH]. Qed.

Lemma fold_left_ext_in {A B} (f g : A -> B -> A) l : (forall a x, In x l -> f a x = g a x) -> forall a, fold_left f l a = fold_left g l a.
Proof.
  induction l as [|x t IH]; intros E a; simpl; [reflexivity|].
  rewrite (E a x (or_introl eq_refl)). apply IH. intros a' y I. apply E. right. exact I.
Qed.

Lemma filter_ext_in' {A} (f g : A -> bool) l : (forall x, In x l -> f x = g x) -> filter f l = filter g l.
Proof.
  induction l as [|x t IH]; intros E; simpl; [reflexivity|].
  rewrite (E x (or_introl eq_refl)), IH; [reflexivity|]. intros y I. apply E. right. exact I.
Qed.
