(* C03, part 2: cells, rows and frames -- reading a cell after a sequence of column assignments, rows determined by their
   cells, with_columns / select / filter on indexed rows; expressions only see the columns they mention. *)
From Coq Require Import List Bool Arith ZArith QArith String Lia Permutation FinFun.
Import ListNotations.
From DA Require Import Base.PyRT Base.PyStr Base.Val Model.Sem Model.PolarsExec Proofs.SemBasicP Proofs.PolarsP1.
Local Open Scope string_scope.
Local Open Scope list_scope.

(* ------------------------------------------------------------------ index_of / get *)
Lemma index_of_app_notin c cs ds : mem c cs = false ->
  index_of c (cs ++ ds) = option_map (fun i => (List.length cs + i)%nat) (index_of c ds).
Proof.
  induction cs as [|x t IH]; simpl; intros M.
  - destruct (index_of c ds); reflexivity.
  - destruct (eq_dec c x) as [->|n]; [discriminate|]. rewrite (IH M). destruct (index_of c ds); reflexivity.
Qed.

Lemma index_of_nth_NoDup cs i d : NoDup cs -> (i < List.length cs)%nat -> index_of (nth i cs d) cs = Some i.
Proof.
  intros N. revert i. induction N as [|x t Hx N IH]; intros i L; simpl in *; [lia|].
  destruct i as [|i].
  - destruct (eq_dec x x); [reflexivity|congruence].
  - destruct (eq_dec (nth i t d) x) as [E|n].
    + exfalso. apply Hx. rewrite <- E. apply nth_In. lia.
    + rewrite IH by lia. reflexivity.
Qed.

Lemma get_map_self cs r : NoDup cs -> List.length r = List.length cs -> map (get cs r) cs = r.
Proof.
  intros N L. apply nth_ext with (d := get cs r "") (d' := VNull); [rewrite map_length; auto|].
  intros n Hn. rewrite map_length in Hn. rewrite map_nth. unfold get. rewrite index_of_nth_NoDup by assumption. reflexivity.
Qed.

Lemma row_ext cs r1 r2 : NoDup cs -> List.length r1 = List.length cs -> List.length r2 = List.length cs ->
  (forall c, In c cs -> get cs r1 c = get cs r2 c) -> r1 = r2.
Proof.
  intros N L1 L2 H. rewrite <- (get_map_self cs r1), <- (get_map_self cs r2) by assumption. apply map_ext_in. exact H.
Qed.

Lemma get_map_get cs (f : string -> val) c : NoDup cs -> In c cs -> get cs (map f cs) c = f c.
Proof.
  intros N I. unfold get. destruct (index_of_In c cs I) as [i E]. rewrite E.
  pose proof (index_of_lt _ _ _ E) as L. pose proof (index_of_nth_error _ _ _ E) as NE.
  rewrite nth_indep with (d' := f "") by (rewrite map_length; exact L). rewrite map_nth.
  f_equal. apply nth_error_nth. exact NE.
Qed.

Lemma get_notin cs r c : ~ In c cs -> get cs r c = VNull.
Proof. intros N. unfold get. apply mem_false in N. apply index_of_None in N. rewrite N. reflexivity. Qed.

Lemma set_cell_get ccs row k v c : List.length row = List.length ccs ->
  get (add_end ccs k) (set_cell ccs row k v) c = if eq_dec c k then v else get ccs row c.
Proof.
  intros L. unfold set_cell, add_end, get. destruct (index_of k ccs) as [i|] eqn:Ek.
  - rewrite (index_of_Some_mem _ _ _ Ek). destruct (eq_dec c k) as [->|n].
    + rewrite Ek. apply nth_set_nth_same. rewrite L. eapply index_of_lt; eassumption.
    + destruct (index_of c ccs) as [j|] eqn:Ec; [|reflexivity].
      apply nth_set_nth_other. intros ->. apply index_of_nth_error in Ek, Ec. congruence.
  - apply index_of_None in Ek. rewrite Ek. destruct (eq_dec c k) as [->|n].
    + rewrite (index_of_app_notin _ _ _ Ek). simpl. destruct (eq_dec k k); [|congruence]. simpl.
      rewrite Nat.add_0_r, <- L. rewrite app_nth2 by lia. rewrite Nat.sub_diag. reflexivity.
    + destruct (mem c ccs) eqn:Mc.
      * apply mem_In in Mc. destruct (index_of_In c ccs Mc) as [j Ec]. rewrite (index_of_app_l _ _ _ _ Ec), Ec.
        apply app_nth1. rewrite L. eapply index_of_lt; eassumption.
      * rewrite (index_of_app_notin _ _ _ Mc). simpl. destruct (eq_dec c k); [congruence|]. simpl.
        apply index_of_None in Mc. rewrite Mc. reflexivity.
Qed.

(* ------------------------------------------------------------------ a cell after a sequence of assignments *)
Fixpoint last_for {X : Type} (c : string) (l : list (string * X)) : option (string * X) :=
  match l with
  | [] => None
  | ke :: t => match last_for c t with Some y => Some y | None => if eq_dec c (fst ke) then Some ke else None end
  end.

Lemma last_for_map {X Y : Type} (g : string * X -> string * Y) c l : (forall ke, fst (g ke) = fst ke) ->
  last_for c (map g l) = option_map g (last_for c l).
Proof.
  intros G. induction l as [|ke t IH]; simpl; [reflexivity|]. rewrite IH. destruct (last_for c t); simpl; [reflexivity|].
  rewrite G. destruct (eq_dec c (fst ke)); reflexivity.
Qed.
Lemma last_for_app {X : Type} c (l1 l2 : list (string * X)) :
  last_for c (l1 ++ l2) = match last_for c l2 with Some y => Some y | None => last_for c l1 end.
Proof.
  induction l1 as [|ke t IH]; simpl; [destruct (last_for c l2); reflexivity|]. rewrite IH.
  destruct (last_for c l2); [reflexivity|]. reflexivity.
Qed.
Lemma last_for_None {X : Type} c (l : list (string * X)) : ~ In c (map fst l) -> last_for c l = None.
Proof.
  induction l as [|ke t IH]; simpl; intros N; [reflexivity|]. rewrite IH by tauto.
  destruct (eq_dec c (fst ke)) as [->|n]; [tauto|reflexivity].
Qed.
Lemma last_for_Some {X : Type} c (l : list (string * X)) ke : last_for c l = Some ke -> fst ke = c /\ In ke l.
Proof.
  induction l as [|a t IH]; simpl; [discriminate|]. destruct (last_for c t) as [y|].
  - intros E. inversion E; subst. destruct (IH eq_refl) as [A B]. auto.
  - destruct (eq_dec c (fst a)) as [->|n]; [|discriminate]. intros E. inversion E; subst. auto.
Qed.
Lemma last_for_In {X : Type} c (l : list (string * X)) : In c (map fst l) -> exists ke, last_for c l = Some ke.
Proof.
  induction l as [|a t IH]; simpl; [tauto|]. intros [E|I].
  - destruct (last_for c t) as [y|]; [eauto|]. destruct (eq_dec c (fst a)); [eauto|congruence].
  - destruct (IH I) as [ke E]. rewrite E. eauto.
Qed.

Section FoldGet.
  Context {X : Type} (F : string * X -> val).
  Let step := (fun (acc : list val * list string) (ke : string * X) =>
                 let '(row, ccs) := acc in (set_cell ccs row (fst ke) (F ke), add_end ccs (fst ke))).
  Lemma fold_cells_get_full l row ccs c : List.length row = List.length ccs ->
    get (ext_cols ccs (map fst l)) (fst (fold_left step l (row, ccs))) c =
    match last_for c l with Some ke => F ke | None => get ccs row c end.
  Proof.
    revert row ccs. induction l as [|ke t IH]; intros row ccs L; simpl; [reflexivity|].
    unfold ext_cols in *. simpl. rewrite IH by (apply set_cell_length; exact L).
    destruct (last_for c t); [reflexivity|]. rewrite set_cell_get by exact L.
    destruct (eq_dec c (fst ke)); reflexivity.
  Qed.
  Lemma fold_cells_len l row ccs : List.length row = List.length ccs ->
    List.length (fst (fold_left step l (row, ccs))) = List.length (ext_cols ccs (map fst l)).
  Proof. intros L. destruct (fold_cells_inv F l row ccs L) as [H1 H2]. fold step in H1, H2. rewrite <- H2. exact H1. Qed.
End FoldGet.

Lemma NoDup_ext_cols cs ks : NoDup cs -> NoDup (ext_cols cs ks).
Proof. apply NoDup_fold_add_end. Qed.
Lemma In_ext_cols cs ks c : In c (ext_cols cs ks) <-> In c cs \/ In c ks.
Proof. apply In_fold_add_end. Qed.

(* ------------------------------------------------------------------ indexed rows *)
Lemma nth_error_tag_from n rs i : nth_error (tag_from n rs) i = option_map (fun r => ((n + i)%nat, r)) (nth_error rs i).
Proof.
  revert n i. induction rs as [|x t IH]; intros n [|i]; simpl; try reflexivity.
  - rewrite Nat.add_0_r. reflexivity.
  - rewrite IH. destruct (nth_error t i); simpl; [|reflexivity]. f_equal. f_equal. lia.
Qed.

Lemma map_tag_from_rowwise {B} (f : nat * list val -> B) (h : list val -> B) rs :
  (forall i r, nth_error rs i = Some r -> f (i, r) = h r) -> map f (tag_from 0 rs) = map h rs.
Proof.
  assert (forall n rs', (forall i r, nth_error rs' i = Some r -> f ((n + i)%nat, r) = h r) -> map f (tag_from n rs') = map h rs') as G.
  { intros n rs'. revert n. induction rs' as [|x t IH]; intros n H; simpl; [reflexivity|]. f_equal.
    - rewrite <- (Nat.add_0_r n). apply H. reflexivity.
    - apply IH. intros i r E. replace (S n + i)%nat with (n + S i)%nat by lia. apply H. exact E. }
  intros H. apply G. exact H.
Qed.

Lemma filter_tag_from_rowwise (p : nat * list val -> bool) (q : list val -> bool) rs :
  (forall i r, nth_error rs i = Some r -> p (i, r) = q r) -> map snd (filter p (tag_from 0 rs)) = filter q rs.
Proof.
  assert (forall n rs', (forall i r, nth_error rs' i = Some r -> p ((n + i)%nat, r) = q r) -> map snd (filter p (tag_from n rs')) = filter q rs') as G.
  { intros n rs'. revert n. induction rs' as [|x t IH]; intros n H; simpl; [reflexivity|].
    rewrite <- (H 0%nat x eq_refl), Nat.add_0_r.
    assert (map snd (filter p (tag_from (S n) t)) = filter q t) as R.
    { apply IH. intros i r E. replace (S n + i)%nat with (n + S i)%nat by lia. apply H. exact E. }
    destruct (p (n, x)); simpl; rewrite R; reflexivity. }
  intros H. apply G. exact H.
Qed.

Lemma nth_error_nth' {A} (l : list A) i x d : nth_error l i = Some x -> nth i l d = x.
Proof. apply nth_error_nth. Qed.

(* map (nth _ rs) over the indices selected by a predicate on rows = filter on rows *)
Lemma map_nth_filter_seq (q : list val -> bool) rs :
  map (fun j => nth j rs []) (filter (fun j => q (nth j rs [])) (seq 0 (List.length rs))) = filter q rs.
Proof.
  assert (forall pre, map (fun j => nth j (pre ++ rs) []) (filter (fun j => q (nth j (pre ++ rs) [])) (seq (List.length pre) (List.length rs))) = filter q rs) as G.
  { induction rs as [|x t IH]; intros pre; simpl; [reflexivity|].
    rewrite app_nth2 by lia. rewrite Nat.sub_diag. simpl.
    specialize (IH (pre ++ [x])). rewrite <- app_assoc in IH. simpl in IH. rewrite app_length in IH. simpl in IH.
    rewrite Nat.add_1_r in IH.
    destruct (q x); simpl; [rewrite app_nth2 by lia; rewrite Nat.sub_diag; simpl; f_equal|]; exact IH. }
  apply (G []).
Qed.

Lemma map_nth_seq {B} (g : list val -> B) rs : map (fun j => g (nth j rs [])) (seq 0 (List.length rs)) = map g rs.
Proof.
  assert (forall pre, map (fun j => g (nth j (pre ++ rs) [])) (seq (List.length pre) (List.length rs)) = map g rs) as G.
  { induction rs as [|x t IH]; intros pre; simpl; [reflexivity|].
    rewrite app_nth2 by lia. rewrite Nat.sub_diag. simpl. f_equal.
    specialize (IH (pre ++ [x])). rewrite <- app_assoc in IH. simpl in IH. rewrite app_length in IH. simpl in IH.
    rewrite Nat.add_1_r in IH. exact IH. }
  apply (G []).
Qed.

(* ------------------------------------------------------------------ expressions only see the columns they mention *)
Lemma eval_expr_cols_ext fl cs r cs' r' e :
  (forall c, In c (expr_cols e) -> get cs r c = get cs' r' c) -> eval_expr fl cs r e = eval_expr fl cs' r' e.
Proof.
  induction e as [c|v|op args IH] using expr_ind2; intros H.
  - simpl. apply H. left. reflexivity.
  - reflexivity.
  - rewrite !eval_expr_op. f_equal. apply map_ext_in. intros a I. rewrite Forall_forall in IH. apply IH; [exact I|].
    intros c Ic. apply H. rewrite expr_cols_op. apply in_flat_map. exists a. auto.
Qed.

Lemma forallb_ext_in {A} (f g : A -> bool) l : (forall a, In a l -> f a = g a) -> forallb f l = forallb g l.
Proof. induction l as [|x t IH]; simpl; intros H; [reflexivity|]. rewrite (H x) by (left; reflexivity). rewrite IH; [reflexivity|]. intros a I. apply H. right. exact I. Qed.

Lemma expr_nulls_ok_cols_ext sens cs r cs' r' e :
  (forall c, In c (expr_cols e) -> get cs r c = get cs' r' c) -> expr_nulls_ok sens cs r e = expr_nulls_ok sens cs' r' e.
Proof.
  induction e as [c|v|op args IH] using expr_ind2; intros H; try reflexivity.
  rewrite !expr_nulls_ok_op. rewrite Forall_forall in IH.
  assert (forall a, In a args -> forall c, In c (expr_cols a) -> get cs r c = get cs' r' c) as HA.
  { intros a I c Ic. apply H. rewrite expr_cols_op. apply in_flat_map. exists a. auto. }
  f_equal.
  - apply forallb_ext_in. intros a I. apply IH; [exact I|]. apply HA. exact I.
  - destruct (sens op); [|reflexivity]. apply forallb_ext_in. intros a I.
    rewrite (eval_expr_cols_ext fl_pandas cs r cs' r' a); [reflexivity|]. apply HA. exact I.
Qed.

Lemma nulls_ok3_cols_ext cs r cs' r' e :
  (forall c, In c (expr_cols e) -> get cs r c = get cs' r' c) -> nulls_ok3 cs r e -> nulls_ok3 cs' r' e.
Proof.
  intros H [A B]. unfold nulls_ok3.
  rewrite <- !(expr_nulls_ok_cols_ext _ cs r cs' r' e H). auto.
Qed.

(* ------------------------------------------------------------------ vocabulary expressions need no temporary column *)
Lemma vocab_nodes e : expr_vocab e = true -> forall on, In on (expr_nodes e) -> scalar_vocab (fst on) (snd on) = true.
Proof.
  induction e as [c|v|op args IH] using expr_ind2; intros V on I; [destruct I|destruct I|].
  rewrite expr_vocab_op in V. apply andb_true_iff in V. destruct V as [V1 V2].
  rewrite expr_nodes_op in I. destruct I as [<-|I]; [exact V1|].
  apply in_flat_map in I. destruct I as [a [Ia Io]]. rewrite Forall_forall in IH. apply (IH a Ia); [|exact Io].
  rewrite forallb_forall in V2. auto.
Qed.

Lemma scalar_vocab_no_temp op n : scalar_vocab op n = true ->
  (Nat.eqb n 0 || mem op ["size"; "_size"; "count"; "_count"; "cumcount"; "_cumcount"]) = false /\ eqb op "coalesce0" = false.
Proof.
  destruct n as [|[|[|[|n]]]]; cbn [scalar_vocab]; intros V; try discriminate; split_mem V; try discriminate; split; reflexivity.
Qed.

Lemma vocab_no_temps e : expr_vocab e = true -> needs_one e = false /\ needs_zero e = false.
Proof.
  intros V. pose proof (vocab_nodes e V) as H. unfold needs_one, needs_zero. split.
  - apply not_true_iff_false. intros E. apply existsb_exists in E. destruct E as [on [I E]].
    destruct (scalar_vocab_no_temp _ _ (H on I)) as [A _]. congruence.
  - apply not_true_iff_false. intros E. apply existsb_exists in E. destruct E as [on [I E]].
    destruct (scalar_vocab_no_temp _ _ (H on I)) as [_ B]. congruence.
Qed.

Lemma req_temps_vocab z o es : forallb expr_vocab es = true -> req_temps z o es = [].
Proof.
  intros V. unfold req_temps.
  assert (existsb needs_zero es = false) as Z.
  { apply not_true_iff_false. intros E. apply existsb_exists in E. destruct E as [e [I E]].
    rewrite forallb_forall in V. destruct (vocab_no_temps e (V e I)). congruence. }
  assert (existsb needs_one es = false) as O.
  { apply not_true_iff_false. intros E. apply existsb_exists in E. destruct E as [e [I E]].
    rewrite forallb_forall in V. destruct (vocab_no_temps e (V e I)). congruence. }
  rewrite Z, O. reflexivity.
Qed.

(* ------------------------------------------------------------------ with_columns on indexed rows *)
Definition wc_row (t : table) (xs : list (string * colx)) (ir : nat * list val) : list val :=
  fst (fold_left (fun acc kx => let '(row, ccs) := acc in
                                (set_cell ccs row (fst kx) (col_at t (snd kx) (fst ir)), add_end ccs (fst kx))) xs (snd ir, cols t)).
Lemma rows_with_columns t xs : rows (pl_with_columns t xs) = map (wc_row t xs) (tag_from 0 (rows t)).
Proof. reflexivity. Qed.
Lemma cols_with_columns t xs : cols (pl_with_columns t xs) = ext_cols (cols t) (map fst xs).
Proof. reflexivity. Qed.
Lemma wc_row_get t xs i r c : List.length r = List.length (cols t) ->
  get (ext_cols (cols t) (map fst xs)) (wc_row t xs (i, r)) c =
  match last_for c xs with Some kx => col_at t (snd kx) i | None => get (cols t) r c end.
Proof. intros L. unfold wc_row. cbn [fst snd]. apply (fold_cells_get_full (fun kx => col_at t (snd kx) i)). exact L. Qed.
Lemma wc_row_len t xs i r : List.length r = List.length (cols t) ->
  List.length (wc_row t xs (i, r)) = List.length (ext_cols (cols t) (map fst xs)).
Proof. intros L. unfold wc_row. cbn [fst snd]. apply (fold_cells_len (fun kx => col_at t (snd kx) i)). exact L. Qed.

Lemma width_with_columns t xs : width_ok t -> width_ok (pl_with_columns t xs).
Proof.
  unfold width_ok. rewrite rows_with_columns, cols_with_columns, !Forall_forall. intros W r I.
  apply in_map_iff in I. destruct I as [[i r0] [<- I]]. apply wc_row_len. apply W. apply tag_from_In in I. exact I.
Qed.

(* rows of a table after select *)
Lemma rows_select cs t : rows (sem_select_cols cs t) = map (fun r => map (get (cols t) r) cs) (rows t).
Proof. reflexivity. Qed.

Lemma select_self t : NoDup (cols t) -> width_ok t -> sem_select_cols (cols t) t = t.
Proof.
  intros N W. destruct t as [cs rs]. unfold sem_select_cols. simpl in *. f_equal.
  rewrite <- (map_id rs) at 2. apply map_ext_in. intros r I. apply get_map_self; [exact N|].
  unfold width_ok in W. simpl in W. rewrite Forall_forall in W. auto.
Qed.

(* ------------------------------------------------------------------ scratch names are chosen away from the names in use *)
Fixpoint pre_us (k : nat) (b : string) : string := match k with O => b | S k' => pre_us k' ("_" ++ b)%string end.
Lemma pre_us_length k b : String.length (pre_us k b) = (k + String.length b)%nat.
Proof. revert b. induction k as [|k IH]; intros b; simpl; [reflexivity|]. rewrite IH. simpl. lia. Qed.

Lemma unused_in_all taken fuel b : In (unused_name fuel b taken) taken -> forall k, (k <= fuel)%nat -> In (pre_us k b) taken.
Proof.
  revert b. induction fuel as [|f IH]; intros b H k L; cbn [unused_name] in H.
  - assert (k = 0%nat) as -> by lia. simpl. destruct (mem b taken); exact H.
  - destruct (mem b taken) eqn:M.
    + destruct k as [|k]; [simpl; apply mem_In; exact M|]. simpl. apply IH; [exact H|lia].
    + apply mem_false in M. contradiction.
Qed.

Lemma fresh_not_in base taken : ~ In (fresh base taken) taken.
Proof.
  unfold fresh. intros H. pose proof (unused_in_all taken _ base H) as A.
  set (n := List.length taken) in *.
  set (cands := map (fun k => pre_us k base) (seq 0 (S (S n)))).
  assert (NoDup cands) as ND.
  { apply (NoDup_map_inv String.length). unfold cands. rewrite map_map.
    rewrite (map_ext _ (fun k => (k + String.length base)%nat)) by (intros k; apply pre_us_length).
    apply Injective_map_NoDup; [|apply seq_NoDup]. intros x y E. lia. }
  assert (incl cands taken) as IN.
  { intros c I. unfold cands in I. apply in_map_iff in I. destruct I as [k [<- Ik]]. apply in_seq in Ik. apply A. lia. }
  pose proof (NoDup_incl_length ND IN) as L. unfold cands in L. rewrite map_length, seq_length in L. fold n in L. lia.
Qed.
Lemma fresh_not_in_sub base taken sub : (forall c, In c sub -> In c taken) -> ~ In (fresh base taken) sub.
Proof. intros S I. apply (fresh_not_in base taken). apply S. exact I. Qed.
