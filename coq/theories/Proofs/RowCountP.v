(* C09: row counts of project and of the steps that follow it *)
From Coq Require Import List Bool Arith String.
Import ListNotations.
From DA Require Import Base.PyRT Base.Val Model.Sem Proofs.SemBasicP.

(* steps that work on columns only: they can overwrite, drop or rename every output of an earlier project *)
Inductive colstep :=
  | CExtend (ops : list (string * expr))
  | CWExtend (ops : list (string * expr)) (w : window)
  | CSelectCols (cs : list string)
  | CDropCols (cs : list string)
  | CRename (m : list (string * string))
  | CMapCols (m : list (string * string)) (dels : list string).

Definition apply_colstep (p : op) (s : colstep) : op :=
  match s with
  | CExtend ops => OExtend p ops false (mkwin [] [] [])
  | CWExtend ops w => OExtend p ops true w
  | CSelectCols cs => OSelectCols p cs
  | CDropCols cs => ODropCols p cs
  | CRename m => ORename p m
  | CMapCols m d => OMapCols p m d
  end.

Lemma colstep_row_count fl p s e t t' :
  sem_gen fl p e = Some t -> sem_gen fl (apply_colstep p s) e = Some t' -> List.length (rows t') = List.length (rows t).
Proof.
  intros H H'. destruct s; cbn [apply_colstep sem_gen] in H'; rewrite H in H'; cbn [option_map] in H'; inversion H' as [E]; clear H'.
  - apply extend_row_count.
  - apply wextend_row_count.
  - unfold sem_select_cols. cbn [rows]. apply map_length.
  - unfold sem_drop_cols, sem_select_cols. cbn [rows]. apply map_length.
  - reflexivity.
  - unfold sem_drop_cols, sem_select_cols, sem_rename. cbn [rows]. apply map_length.
Qed.

Lemma colsteps_row_count fl p ss : forall e t t',
  sem_gen fl p e = Some t -> sem_gen fl (fold_left apply_colstep ss p) e = Some t' -> List.length (rows t') = List.length (rows t).
Proof.
  revert p. induction ss as [|s ss IH]; intros p e t t' H H'; cbn [fold_left] in H'.
  - rewrite H in H'. inversion H'. reflexivity.
  - destruct (sem_gen fl (apply_colstep p s) e) as [t1|] eqn:E1.
    + rewrite (IH _ e t1 t' E1 H'). eapply colstep_row_count; eassumption.
    + exfalso. clear IH H. revert H'. generalize (apply_colstep p s) E1. clear. induction ss as [|s ss IH]; intros q Hq H'; cbn [fold_left] in H'.
      * congruence.
      * apply (IH (apply_colstep q s)); [|exact H']. destruct s; cbn [apply_colstep sem_gen]; rewrite Hq; reflexivity.
Qed.

(* an ungrouped project returns exactly one row -- whatever its input (also empty), and whatever column steps follow *)
Lemma ungrouped_project_one_row fl src ops ss e t' :
  sem_gen fl (fold_left apply_colstep ss (OProject src ops [])) e = Some t' -> List.length (rows t') = 1%nat.
Proof.
  intros H'. destruct (sem_gen fl (OProject src ops []) e) as [t|] eqn:E.
  - rewrite (colsteps_row_count fl _ ss e t t' E H'). cbn [sem_gen] in E. destruct (sem_gen fl src e) as [u|]; [|discriminate].
    cbn [option_map] in E. inversion E. apply project_ungrouped_one_row.
  - exfalso. revert H'. generalize (OProject src ops []) E. clear. induction ss as [|s ss IH]; intros q Hq H'; cbn [fold_left] in H'.
    + congruence.
    + apply (IH (apply_colstep q s)); [|exact H']. destruct s; cbn [apply_colstep sem_gen]; rewrite Hq; reflexivity.
Qed.

(* a grouped project returns one row per distinct key combination of its materialised input (null is a key value) *)
Lemma grouped_project_row_count fl src ops gb ss e u t' : gb <> [] ->
  sem_gen fl src e = Some u ->
  sem_gen fl (fold_left apply_colstep ss (OProject src ops gb)) e = Some t' ->
  List.length (rows t') = List.length (distinct_keys (map (key_of (cols u) gb) (rows u))).
Proof.
  intros N Hu H'.
  assert (sem_gen fl (OProject src ops gb) e = Some (sem_project fl ops gb u)) as E by (cbn [sem_gen]; rewrite Hu; reflexivity).
  rewrite (colsteps_row_count fl _ ss e _ t' E H'). apply project_grouped_row_count. exact N.
Qed.

(* distinct_keys really is "one per distinct combination": pairwise inequivalent, and every input key is represented *)
Lemma distinct_keys_spec ks :
  ForallOrdPairs (fun a b => keys_eqv a b = false) (distinct_keys ks)
  /\ (forall k, In k ks -> exists k', In k' (distinct_keys ks) /\ keys_eqv k' k = true)
  /\ (forall k, In k (distinct_keys ks) -> In k ks).
Proof. split; [apply distinct_keys_pairwise|split; [apply distinct_keys_complete|apply distinct_keys_sound]]. Qed.

(* windowed extend: every input row is kept, in place *)
Lemma windowed_extend_keeps_rows fl src ops w e u t :
  sem_gen fl src e = Some u -> sem_gen fl (OExtend src ops true w) e = Some t -> List.length (rows t) = List.length (rows u).
Proof. intros Hu H. cbn [sem_gen] in H. rewrite Hu in H. cbn [option_map] in H. inversion H. apply wextend_row_count. Qed.
