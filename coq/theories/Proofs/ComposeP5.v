(* C07 -- proofs about Model/Compose.v, part 5: composition under the SET boundary test of act_on / DataOpArrow.act_on.
   When the replacement produces the leaf's columns in another ORDER, the composed pipeline and sequential application
   give the same table up to column order: same column set, same rows in the same order, every row the same function
   from column names to values (tab_eqv).  Every operator of Model/Sem.v respects tab_eqv. *)
From Coq Require Import List Bool Arith String Lia Setoid.
Import ListNotations.
From DA Require Import Base.PyRT Base.Val Model.Sem Proofs.SemBasicP Model.Compose Proofs.ComposeP Proofs.ComposeP2 Proofs.ComposeP3 Proofs.ComposeP4.
Local Open Scope list_scope.

Definition row_eqv (c1 c2 : list string) (r1 r2 : list val) : Prop := forall c, get c1 r1 c = get c2 r2 c.
Definition same_set (l1 l2 : list string) : Prop := forall c, In c l1 <-> In c l2.
Definition tab_eqv (t1 t2 : table) : Prop :=
  same_set (cols t1) (cols t2) /\ Forall2 (row_eqv (cols t1) (cols t2)) (rows t1) (rows t2).
Definition otab_eqv (o1 o2 : option table) : Prop :=
  match o1, o2 with Some a, Some b => tab_eqv a b | None, None => True | _, _ => False end.

(* ------------------------------------------------------------------ generic list facts *)
Lemma Forall2_refl {A} (R : A -> A -> Prop) l : (forall x, R x x) -> Forall2 R l l.
Proof. intros H. induction l; constructor; auto. Qed.

Lemma Forall2_weaken {A B} (R S : A -> B -> Prop) l1 l2 : (forall a b, R a b -> S a b) -> Forall2 R l1 l2 -> Forall2 S l1 l2.
Proof. intros H F. induction F; constructor; auto. Qed.

Lemma Forall2_map_eq {A B C} (R : A -> B -> Prop) (f : A -> C) (g : B -> C) l1 l2 :
  Forall2 R l1 l2 -> (forall a b, R a b -> f a = g b) -> map f l1 = map g l2.
Proof. intros F H. induction F as [|a b l1 l2 Rab F IH]; simpl; [reflexivity|]. rewrite (H _ _ Rab), IH. reflexivity. Qed.

Lemma Forall2_map {A B C D} (R : A -> B -> Prop) (S : C -> D -> Prop) (f : A -> C) (g : B -> D) l1 l2 :
  Forall2 R l1 l2 -> (forall a b, R a b -> S (f a) (g b)) -> Forall2 S (map f l1) (map g l2).
Proof. intros F H. induction F; simpl; constructor; auto. Qed.

Lemma Forall2_filter {A B} (R : A -> B -> Prop) (p : A -> bool) (q : B -> bool) l1 l2 :
  Forall2 R l1 l2 -> (forall a b, R a b -> p a = q b) -> Forall2 R (filter p l1) (filter q l2).
Proof.
  intros F H. induction F as [|a b l1 l2 Rab F IH]; simpl; [constructor|].
  rewrite (H _ _ Rab). destruct (q b); [constructor; assumption|exact IH].
Qed.

Lemma Forall2_flat_map {A B C D} (R : A -> B -> Prop) (S : C -> D -> Prop) (f : A -> list C) (g : B -> list D) l1 l2 :
  Forall2 R l1 l2 -> (forall a b, R a b -> Forall2 S (f a) (g b)) -> Forall2 S (flat_map f l1) (flat_map g l2).
Proof. intros F H. induction F as [|a b l1 l2 Rab F IH]; simpl; [constructor|]. apply Forall2_app; auto. Qed.

Lemma Forall2_existsb {A B} (R : A -> B -> Prop) (p : A -> bool) (q : B -> bool) l1 l2 :
  Forall2 R l1 l2 -> (forall a b, R a b -> p a = q b) -> existsb p l1 = existsb q l2.
Proof. intros F H. induction F as [|a b l1 l2 Rab F IH]; simpl; [reflexivity|]. rewrite (H _ _ Rab), IH. reflexivity. Qed.

Lemma Forall2_firstn {A B} (R : A -> B -> Prop) n l1 l2 : Forall2 R l1 l2 -> Forall2 R (firstn n l1) (firstn n l2).
Proof. intros F. revert n. induction F; intros [|n]; simpl; constructor; auto. Qed.

Lemma Forall2_insert_sorted {A B} (R : A -> B -> Prop) (le1 : A -> A -> bool) (le2 : B -> B -> bool) x y l1 l2 :
  (forall a b a' b', R a b -> R a' b' -> le1 a a' = le2 b b') ->
  R x y -> Forall2 R l1 l2 -> Forall2 R (insert_sorted le1 x l1) (insert_sorted le2 y l2).
Proof.
  intros H Rxy F. induction F as [|a b l1 l2 Rab F IH]; simpl; [repeat constructor; exact Rxy|].
  rewrite (H _ _ _ _ Rxy Rab). destruct (le2 y b); repeat constructor; assumption.
Qed.

Lemma Forall2_stable_sort {A B} (R : A -> B -> Prop) (le1 : A -> A -> bool) (le2 : B -> B -> bool) l1 l2 :
  (forall a b a' b', R a b -> R a' b' -> le1 a a' = le2 b b') ->
  Forall2 R l1 l2 -> Forall2 R (stable_sort le1 l1) (stable_sort le2 l2).
Proof.
  intros H F. unfold stable_sort. induction F as [|a b l1 l2 Rab F IH]; simpl; [constructor|].
  apply Forall2_insert_sorted; assumption.
Qed.

(* ------------------------------------------------------------------ get *)
Lemma get_absent cs r c : ~ In c cs -> get cs r c = VNull.
Proof. intros N. unfold get. destruct (index_of c cs) as [i|] eqn:E; [|reflexivity]. apply index_of_Some_mem in E. apply mem_In in E. contradiction. Qed.

Lemma index_of_map_nth {A} (f : string -> A) (cs : list string) c i d : index_of c cs = Some i -> nth i (map f cs) d = f c.
Proof.
  revert i. induction cs as [|x t IH]; intros i E; simpl in E; [discriminate|].
  destruct (eq_dec c x) as [->|N]; [inversion E; reflexivity|].
  destruct (index_of c t) as [j|] eqn:Ej; simpl in E; [|discriminate]. inversion E; subst. simpl. apply IH. reflexivity.
Qed.

(* reading a row that was built column by column *)
Lemma get_map_cols (f : string -> val) cs c : get cs (map f cs) c = if mem c cs then f c else VNull.
Proof.
  unfold get. destruct (index_of c cs) as [i|] eqn:E.
  - rewrite (index_of_Some_mem _ _ _ E). apply index_of_map_nth. exact E.
  - apply index_of_None in E. rewrite E. reflexivity.
Qed.

Lemma mem_same_set (l1 l2 : list string) c : same_set l1 l2 -> mem c l1 = mem c l2.
Proof.
  intros S. destruct (mem c l1) eqn:E.
  - symmetry. apply mem_In. apply S. apply (proj1 (mem_In _ _)). exact E.
  - symmetry. apply mem_false. intros I. apply S in I. apply (proj2 (mem_In _ _)) in I. congruence.
Qed.

Fixpoint expr_ind2 (P : expr -> Prop) (Hc : forall c, P (ECol c)) (Hv : forall v, P (EConst v))
  (Ho : forall o args, Forall P args -> P (EOp o args)) (e : expr) : P e :=
  match e with
  | ECol c => Hc c
  | EConst v => Hv v
  | EOp o args => Ho o args ((fix go (l : list expr) : Forall P l :=
                                match l with [] => Forall_nil _ | a :: t => Forall_cons _ (expr_ind2 P Hc Hv Ho a) (go t) end) args)
  end.

Lemma eval_expr_eqv fl c1 c2 r1 r2 e : row_eqv c1 c2 r1 r2 -> eval_expr fl c1 r1 e = eval_expr fl c2 r2 e.
Proof.
  intros R. induction e as [c|v|o args IH] using expr_ind2; cbn [eval_expr]; [apply R|reflexivity|].
  f_equal. induction IH as [|a t Ha Ht IHt]; [reflexivity|]. rewrite Ha, IHt. reflexivity.
Qed.

Lemma key_of_eqv c1 c2 r1 r2 ks : row_eqv c1 c2 r1 r2 -> key_of c1 ks r1 = key_of c2 ks r2.
Proof. intros R. unfold key_of. apply map_ext. intros c. apply R. Qed.

Lemma row_le_eqv fl c1 c2 keys r1 r2 r1' r2' :
  row_eqv c1 c2 r1 r2 -> row_eqv c1 c2 r1' r2' -> row_le fl c1 keys r1 r1' = row_le fl c2 keys r2 r2'.
Proof.
  intros R R'. induction keys as [|[c d] t IH]; cbn [row_le]; [reflexivity|]. rewrite (R c), (R' c), IH. reflexivity.
Qed.

(* ------------------------------------------------------------------ tab_eqv is an equivalence-like relation *)
Lemma same_set_refl l : same_set l l.
Proof. intros c. tauto. Qed.
Lemma tab_eqv_refl t : tab_eqv t t.
Proof. split; [apply same_set_refl|]. apply Forall2_refl. intros r c. reflexivity. Qed.
Lemma otab_eqv_refl o : otab_eqv o o.
Proof. destruct o; simpl; [apply tab_eqv_refl|exact I]. Qed.

(* ------------------------------------------------------------------ the operators respect tab_eqv *)
Lemma select_cols_eqv cs1 cs2 t1 t2 : same_set cs1 cs2 -> tab_eqv t1 t2 -> tab_eqv (sem_select_cols cs1 t1) (sem_select_cols cs2 t2).
Proof.
  intros S [Sc F]. split; [exact S|]. cbn [cols rows sem_select_cols].
  eapply Forall2_map; [exact F|]. intros r1 r2 R c. rewrite !get_map_cols, (mem_same_set _ _ c S), (R c). reflexivity.
Qed.

Lemma same_set_filter (f : string -> bool) l1 l2 : same_set l1 l2 -> same_set (filter f l1) (filter f l2).
Proof. intros S c. rewrite !filter_In, (S c). tauto. Qed.

Lemma drop_cols_eqv ds t1 t2 : tab_eqv t1 t2 -> tab_eqv (sem_drop_cols ds t1) (sem_drop_cols ds t2).
Proof. intros E. unfold sem_drop_cols. apply select_cols_eqv; [apply same_set_filter; apply E|exact E]. Qed.

Lemma select_rows_eqv fl x t1 t2 : tab_eqv t1 t2 -> tab_eqv (sem_select_rows fl x t1) (sem_select_rows fl x t2).
Proof.
  intros [Sc F]. split; [exact Sc|]. cbn [cols rows sem_select_rows].
  eapply Forall2_filter; [exact F|]. intros r1 r2 R. rewrite (eval_expr_eqv fl _ _ _ _ x R). reflexivity.
Qed.

Lemma order_eqv fl cs rv lim t1 t2 : tab_eqv t1 t2 -> tab_eqv (sem_order fl cs rv lim t1) (sem_order fl cs rv lim t2).
Proof.
  intros [Sc F]. split; [exact Sc|]. cbn [cols rows sem_order].
  assert (Forall2 (row_eqv (cols t1) (cols t2))
            (stable_sort (row_le fl (cols t1) (map (fun c => (c, mem c rv)) cs)) (rows t1))
            (stable_sort (row_le fl (cols t2) (map (fun c => (c, mem c rv)) cs)) (rows t2))) as Fs.
  { apply Forall2_stable_sort; [|exact F]. intros a b a' b' R R'. apply row_le_eqv; assumption. }
  destruct lim; [apply Forall2_firstn|]; exact Fs.
Qed.

Lemma project_eqv fl ops gb t1 t2 : tab_eqv t1 t2 -> sem_project fl ops gb t1 = sem_project fl ops gb t2.
Proof.
  intros [Sc F]. unfold sem_project. f_equal.
  assert (map (key_of (cols t1) gb) (rows t1) = map (key_of (cols t2) gb) (rows t2)) as K.
  { eapply Forall2_map_eq; [exact F|]. intros a b R. apply key_of_eqv. exact R. }
  rewrite K. apply map_ext. intros k. f_equal. apply map_ext. intros ke. unfold agg_value.
  destruct (agg_parts (snd ke)) as [[o arg]|]; [|reflexivity]. f_equal.
  eapply Forall2_map_eq.
  - eapply Forall2_filter; [exact F|]. intros a b R. rewrite (key_of_eqv _ _ _ _ gb R). reflexivity.
  - intros a b R. destruct arg as [x|]; [apply eval_expr_eqv; exact R|reflexivity].
Qed.

(* rename: the new names must not merge two columns (the builders reject such renamings) *)
Definition inj_on (f : string -> string) (l : list string) : Prop := forall x y, In x l -> In y l -> f x = f y -> x = y.

Lemma index_of_map_inj (f : string -> string) cs c : (forall x, In x cs -> f c = f x -> c = x) -> index_of (f c) (map f cs) = index_of c cs.
Proof.
  induction cs as [|x t IH]; intros H; simpl; [reflexivity|].
  destruct (eq_dec (f c) (f x)) as [E|N], (eq_dec c x) as [E2|N2].
  - reflexivity.
  - exfalso. apply N2. apply H; [left; reflexivity|exact E].
  - exfalso. apply N. rewrite E2. reflexivity.
  - rewrite IH; [reflexivity|]. intros y I. apply H. right. exact I.
Qed.

Lemma get_rename (f : string -> string) cs r c : In c cs -> inj_on f cs -> get (map f cs) r (f c) = get cs r c.
Proof. intros I J. unfold get. rewrite index_of_map_inj; [reflexivity|]. intros x Ix E. apply J; assumption. Qed.

Lemma rename_eqv m t1 t2 : inj_on (rename_col m) (cols t2) -> tab_eqv t1 t2 -> tab_eqv (sem_rename m t1) (sem_rename m t2).
Proof.
  intros J2 [Sc F].
  assert (inj_on (rename_col m) (cols t1)) as J1. { intros x y Ix Iy. apply J2; apply Sc; assumption. }
  split; cbn [cols rows sem_rename].
  - intros c. rewrite !in_map_iff. split; intros [x [E I]]; exists x; (split; [exact E|apply Sc; exact I]).
  - eapply Forall2_weaken; [|exact F]. intros r1 r2 R c.
    destruct (in_dec eq_dec c (map (rename_col m) (cols t1))) as [I|N].
    + apply in_map_iff in I. destruct I as [x [<- Ix]]. rewrite (get_rename _ _ _ _ Ix J1).
      rewrite (get_rename _ _ _ _ (proj1 (Sc x) Ix) J2). apply R.
    + rewrite (get_absent _ _ _ N). symmetry. apply get_absent. intros I. apply N.
      apply in_map_iff in I. destruct I as [x [E Ix]]. apply in_map_iff. exists x. split; [exact E|apply Sc; exact Ix].
Qed.

(* ------------------------------------------------------------------ reading a row after a sequence of cell assignments *)
Lemma index_of_snoc_new c cs : index_of c cs = None -> index_of c (cs ++ [c]) = Some (List.length cs).
Proof.
  induction cs as [|x t IH]; simpl; intros E.
  - destruct (eq_dec c c); [reflexivity|congruence].
  - destruct (eq_dec c x); [discriminate|]. destruct (index_of c t); [discriminate|]. rewrite IH; reflexivity.
Qed.
Lemma index_of_snoc_other c k cs : c <> k -> index_of c cs = None -> index_of c (cs ++ [k]) = None.
Proof.
  intros N. induction cs as [|x t IH]; simpl; intros E.
  - destruct (eq_dec c k); [congruence|reflexivity].
  - destruct (eq_dec c x); [discriminate|]. destruct (index_of c t); [discriminate|]. rewrite IH; reflexivity.
Qed.

Lemma set_cell_get ccs row k v c : List.length row = List.length ccs ->
  get (add_end ccs k) (set_cell ccs row k v) c = if eq_dec c k then v else get ccs row c.
Proof.
  intros L. unfold set_cell, add_end, get. destruct (index_of k ccs) as [i|] eqn:Ek.
  - rewrite (index_of_Some_mem _ _ _ Ek). destruct (eq_dec c k) as [->|N].
    + rewrite Ek. apply nth_set_nth_same. rewrite L. eapply index_of_lt; eassumption.
    + destruct (index_of c ccs) as [j|] eqn:Ec; [|reflexivity]. apply nth_set_nth_other.
      intros ->. apply index_of_nth_error in Ek, Ec. congruence.
  - pose proof Ek as Ek'. apply index_of_None in Ek'. rewrite Ek'. destruct (eq_dec c k) as [->|N].
    + rewrite (index_of_snoc_new _ _ Ek). rewrite app_nth2 by lia. rewrite L, Nat.sub_diag. reflexivity.
    + destruct (index_of c ccs) as [j|] eqn:Ec.
      * rewrite (index_of_app_l _ _ _ _ Ec). apply app_nth1. rewrite L. eapply index_of_lt; eassumption.
      * rewrite (index_of_snoc_other _ _ _ N Ec). reflexivity.
Qed.

Section FoldGet.
  Context {X : Type} (F : string * X -> val).
  Let step := (fun (acc : list val * list string) (ke : string * X) =>
                 let '(row, ccs) := acc in (set_cell ccs row (fst ke) (F ke), add_end ccs (fst ke))).
  (* the value assigned to column c by the LAST assignment to it *)
  Fixpoint last_assign (l : list (string * X)) (c : string) : option val :=
    match l with
    | [] => None
    | ke :: t => match last_assign t c with Some v => Some v | None => if eq_dec c (fst ke) then Some (F ke) else None end
    end.

  Lemma fold_get l row ccs c : List.length row = List.length ccs ->
    get (snd (fold_left step l (row, ccs))) (fst (fold_left step l (row, ccs))) c
    = match last_assign l c with Some v => v | None => get ccs row c end.
  Proof.
    revert row ccs. induction l as [|ke t IH]; intros row ccs L; cbn [fold_left last_assign]; [reflexivity|].
    unfold step at 2 4. rewrite IH by (apply set_cell_length; exact L).
    destruct (last_assign t c); [reflexivity|]. rewrite (set_cell_get _ _ _ _ _ L). destruct (eq_dec c (fst ke)); reflexivity.
  Qed.
End FoldGet.

Lemma last_assign_ext {X} (F G : string * X -> val) l c : (forall ke, In ke l -> F ke = G ke) -> last_assign F l c = last_assign G l c.
Proof.
  induction l as [|ke t IH]; intros H; cbn [last_assign]; [reflexivity|].
  rewrite IH by (intros x I; apply H; right; exact I). rewrite (H ke) by (left; reflexivity). reflexivity.
Qed.

Lemma same_set_ext_cols c1 c2 ks : same_set c1 c2 -> same_set (ext_cols c1 ks) (ext_cols c2 ks).
Proof. intros S c. unfold ext_cols. rewrite !In_fold_add_end, (S c). tauto. Qed.

Lemma Forall2_with_Forall {A B} (P : A -> Prop) (Q : B -> Prop) (R : A -> B -> Prop) l1 l2 :
  Forall P l1 -> Forall Q l2 -> Forall2 R l1 l2 -> Forall2 (fun a b => P a /\ Q b /\ R a b) l1 l2.
Proof.
  intros FP FQ F. induction F as [|a b l1 l2 Rab F IH]; [constructor|].
  inversion FP; subst. inversion FQ; subst. constructor; [tauto|apply IH; assumption].
Qed.

Lemma extend_row_get fl cs ops r c : List.length r = List.length cs ->
  get (ext_cols cs (map fst ops)) (extend_row fl cs ops r) c
  = match last_assign (fun ke => eval_expr fl cs r (snd ke)) ops c with Some v => v | None => get cs r c end.
Proof.
  intros L. unfold extend_row.
  destruct (fold_cells_inv (fun ke => eval_expr fl cs r (snd ke)) ops r cs L) as [_ H2]. rewrite <- H2.
  apply (fold_get (fun ke : string * expr => eval_expr fl cs r (snd ke))). exact L.
Qed.

Lemma extend_eqv fl ops t1 t2 : width_ok t1 -> width_ok t2 -> tab_eqv t1 t2 -> tab_eqv (sem_extend fl ops t1) (sem_extend fl ops t2).
Proof.
  intros W1 W2 [Sc F]. split; cbn [cols rows sem_extend]; [apply same_set_ext_cols; exact Sc|].
  eapply Forall2_map; [exact (Forall2_with_Forall _ _ _ _ _ W1 W2 F)|].
  intros r1 r2 (L1 & L2 & R) c. rewrite !extend_row_get by assumption.
  rewrite (last_assign_ext _ (fun ke => eval_expr fl (cols t2) r2 (snd ke))) by (intros ke _; apply eval_expr_eqv; exact R).
  rewrite (R c). reflexivity.
Qed.

(* ------------------------------------------------------------------ windowed extend *)
Definition tagged_eqv (c1 c2 : list string) (a b : nat * list val) : Prop := fst a = fst b /\ row_eqv c1 c2 (snd a) (snd b).

Lemma tag_from_Forall2 (R : list val -> list val -> Prop) n l1 l2 :
  Forall2 R l1 l2 -> Forall2 (fun a b => fst a = fst b /\ R (snd a) (snd b)) (tag_from n l1) (tag_from n l2).
Proof. intros F. revert n. induction F as [|a b l1 l2 Rab F IH]; intros n; simpl; constructor; [split; [reflexivity|exact Rab]|apply IH]. Qed.

Lemma tag_from_eqv c1 c2 n l1 l2 : Forall2 (row_eqv c1 c2) l1 l2 -> Forall2 (tagged_eqv c1 c2) (tag_from n l1) (tag_from n l2).
Proof. intros F. revert n. induction F as [|a b l1 l2 R F IH]; intros n; simpl; constructor; [split; [reflexivity|exact R]|apply IH]. Qed.

Lemma window_column_eqv fl w t1 t2 e : tab_eqv t1 t2 -> window_column fl w t1 e = window_column fl w t2 e.
Proof.
  intros [Sc F]. unfold window_column.
  assert (map (fun r => key_of (cols t1) (w_part w) r) (rows t1) = map (fun r => key_of (cols t2) (w_part w) r) (rows t2)) as K.
  { eapply Forall2_map_eq; [exact F|]. intros a b R. apply key_of_eqv. exact R. }
  rewrite K. apply flat_map_ext. intros k.
  pose proof (tag_from_eqv _ _ 0 _ _ F) as T.
  set (okeys := map (fun c => (c, mem c (w_rev w))) (w_order w)).
  assert (Forall2 (tagged_eqv (cols t1) (cols t2))
            (stable_sort (fun a b => row_le fl (cols t1) okeys (snd a) (snd b))
               (filter (fun ir => keys_eqv k (key_of (cols t1) (w_part w) (snd ir))) (tag_from 0 (rows t1))))
            (stable_sort (fun a b => row_le fl (cols t2) okeys (snd a) (snd b))
               (filter (fun ir => keys_eqv k (key_of (cols t2) (w_part w) (snd ir))) (tag_from 0 (rows t2))))) as S.
  { apply Forall2_stable_sort.
    - intros a b a' b' [_ R] [_ R']. apply row_le_eqv; assumption.
    - eapply Forall2_filter; [exact T|]. intros a b [_ R]. rewrite (key_of_eqv _ _ _ _ (w_part w) R). reflexivity. }
  assert (forall (g1 g2 : nat * list val -> val), (forall a b, tagged_eqv (cols t1) (cols t2) a b -> g1 a = g2 b) ->
          forall l1 l2, Forall2 (tagged_eqv (cols t1) (cols t2)) l1 l2 -> map g1 l1 = map g2 l2) as M.
  { intros g1 g2 H l1 l2 FF. eapply Forall2_map_eq; [exact FF|exact H]. }
  assert (forall l1 l2, Forall2 (tagged_eqv (cols t1) (cols t2)) l1 l2 -> map fst l1 = map fst l2) as Mf.
  { intros l1 l2 FF. eapply Forall2_map_eq; [exact FF|]. intros a b [E _]. exact E. }
  destruct (win_parts e) as [[[o arg] extra]|].
  - rewrite (Mf _ _ S). f_equal. f_equal. apply (M _ _); [|exact S].
    intros a b [_ R]. destruct arg as [x|]; [apply eval_expr_eqv; exact R|reflexivity].
  - eapply Forall2_map_eq; [exact S|]. intros a b [E _]. rewrite E. reflexivity.
Qed.

Lemma wextend_eqv fl ops w t1 t2 : width_ok t1 -> width_ok t2 -> tab_eqv t1 t2 -> tab_eqv (sem_wextend fl ops w t1) (sem_wextend fl ops w t2).
Proof.
  intros W1 W2 E. pose proof E as [Sc F]. split; cbn [cols rows sem_wextend]; [apply same_set_ext_cols; exact Sc|].
  assert (map (fun ke => (fst ke, window_column fl w t1 (snd ke))) ops = map (fun ke => (fst ke, window_column fl w t2 (snd ke))) ops) as Wc.
  { apply map_ext. intros ke. rewrite (window_column_eqv fl w t1 t2 (snd ke) E). reflexivity. }
  rewrite Wc. set (wc := map (fun ke => (fst ke, window_column fl w t2 (snd ke))) ops).
  assert (map fst wc = map fst ops) as Mw. { unfold wc. apply (map_fst_tagged (fun ke => window_column fl w t2 (snd ke))). }
  unfold width_ok in W1, W2.
  pose proof (tag_from_Forall2 _ 0 _ _ (Forall2_with_Forall _ _ _ _ _ W1 W2 F)) as T.
  eapply Forall2_map; [exact T|].
  - intros [i r1] [j r2] [Eij R]. cbn [fst snd] in *. subst j. intros c.
    assert (List.length r1 = List.length (cols t1) /\ List.length r2 = List.length (cols t2) /\ row_eqv (cols t1) (cols t2) r1 r2) as (L1 & L2 & R') by exact (R).
    clear R.
    destruct (fold_cells_inv (fun kc : string * list (nat * val) => lookup_pos (snd kc) i) wc r1 (cols t1) L1) as [_ H1].
    destruct (fold_cells_inv (fun kc : string * list (nat * val) => lookup_pos (snd kc) i) wc r2 (cols t2) L2) as [_ H2].
    rewrite Mw in H1, H2. rewrite <- H1, <- H2.
    rewrite (fold_get (fun kc : string * list (nat * val) => lookup_pos (snd kc) i) wc r1 (cols t1) c L1).
    rewrite (fold_get (fun kc : string * list (nat * val) => lookup_pos (snd kc) i) wc r2 (cols t2) c L2).
    rewrite (R' c). reflexivity.
Qed.

(* ------------------------------------------------------------------ natural_join *)
Definition orow_eqv (c1 c2 : list string) (o1 o2 : option (list val)) : Prop :=
  match o1, o2 with Some r1, Some r2 => row_eqv c1 c2 r1 r2 | None, None => True | _, _ => False end.

Lemma row_built_eqv (f1 f2 : string -> val) o1 o2 : same_set o1 o2 -> (forall c, f1 c = f2 c) -> row_eqv o1 o2 (map f1 o1) (map f2 o2).
Proof. intros S H c. rewrite !get_map_cols, (mem_same_set _ _ c S), (H c). reflexivity. Qed.

Lemma join_eqv nm on_a on_b jt a1 a2 b1 b2 :
  tab_eqv a1 a2 -> tab_eqv b1 b2 -> tab_eqv (sem_join nm on_a on_b jt a1 b1) (sem_join nm on_a on_b jt a2 b2).
Proof.
  intros [Sa Fa] [Sb Fb].
  assert (same_set (cols a1 ++ filter (fun c => negb (mem c (cols a1))) (cols b1))
                   (cols a2 ++ filter (fun c => negb (mem c (cols a2))) (cols b2))) as So.
  { intros c. rewrite !in_app_iff, !filter_In, (Sa c), (Sb c), (mem_same_set _ _ c Sa). tauto. }
  set (mk := fun (ca cb out : list string) (ra rb : option (list val)) =>
    map (fun c => let va := match ra with Some r => if mem c ca then get ca r c else VNull | None => VNull end in
                  let vb := match rb with Some r => if mem c cb then get cb r c else VNull | None => VNull end in
                  if is_null va then vb else va) out).
  assert (forall ra1 ra2 rb1 rb2, orow_eqv (cols a1) (cols a2) ra1 ra2 -> orow_eqv (cols b1) (cols b2) rb1 rb2 ->
          row_eqv (cols a1 ++ filter (fun c => negb (mem c (cols a1))) (cols b1)) (cols a2 ++ filter (fun c => negb (mem c (cols a2))) (cols b2))
                  (mk (cols a1) (cols b1) (cols a1 ++ filter (fun c => negb (mem c (cols a1))) (cols b1)) ra1 rb1)
                  (mk (cols a2) (cols b2) (cols a2 ++ filter (fun c => negb (mem c (cols a2))) (cols b2)) ra2 rb2)) as MK.
  { intros ra1 ra2 rb1 rb2 Ra Rb. unfold mk. apply row_built_eqv; [exact So|]. intros c.
    rewrite (mem_same_set _ _ c Sa), (mem_same_set _ _ c Sb).
    destruct ra1 as [ra1|], ra2 as [ra2|]; try contradiction; destruct rb1 as [rb1|], rb2 as [rb2|]; try contradiction;
      cbn in Ra, Rb; cbv zeta; rewrite ?(Ra c), ?(Rb c); reflexivity. }
  assert (forall ra1 ra2 rb1 rb2, row_eqv (cols a1) (cols a2) ra1 ra2 -> row_eqv (cols b1) (cols b2) rb1 rb2 ->
          keys_match nm (key_of (cols a1) on_a ra1) (key_of (cols b1) on_b rb1) = keys_match nm (key_of (cols a2) on_a ra2) (key_of (cols b2) on_b rb2)) as KM.
  { intros ra1 ra2 rb1 rb2 Ra Rb. rewrite (key_of_eqv _ _ _ _ on_a Ra), (key_of_eqv _ _ _ _ on_b Rb). reflexivity. }
  split; [exact So|]. unfold sem_join. cbn [cols rows].
  apply Forall2_app; [|apply Forall2_app].
  - eapply Forall2_flat_map; [exact Fa|]. intros ra1 ra2 Ra. eapply Forall2_flat_map; [exact Fb|]. intros rb1 rb2 Rb.
    rewrite (KM _ _ _ _ Ra Rb). destruct (keys_match _ _ _); [|constructor]. constructor; [|constructor]. exact (MK (Some ra1) (Some ra2) (Some rb1) (Some rb2) Ra Rb).
  - destruct jt; try constructor; (eapply Forall2_flat_map; [exact Fa|]); intros ra1 ra2 Ra;
      rewrite (Forall2_existsb _ _ (fun rb => keys_match nm (key_of (cols a2) on_a ra2) (key_of (cols b2) on_b rb)) _ _ Fb)
        by (intros rb1 rb2 Rb; apply KM; assumption);
      (destruct (existsb _ _); [constructor|]); (constructor; [|constructor]); exact (MK (Some ra1) (Some ra2) None None Ra I).
  - destruct jt; try constructor; (eapply Forall2_flat_map; [exact Fb|]); intros rb1 rb2 Rb;
      rewrite (Forall2_existsb _ _ (fun ra => keys_match nm (key_of (cols a2) on_a ra) (key_of (cols b2) on_b rb2)) _ _ Fa)
        by (intros ra1 ra2 Ra; apply KM; assumption);
      (destruct (existsb _ _); [constructor|]); (constructor; [|constructor]); exact (MK None None (Some rb1) (Some rb2) I Rb).
Qed.

(* ------------------------------------------------------------------ concat_rows *)
Lemma get_snoc ca r c v x : List.length r = List.length ca ->
  get (ca ++ [c]) (r ++ [v]) x = if mem x ca then get ca r x else if eq_dec x c then v else VNull.
Proof.
  intros L. unfold get. destruct (index_of x ca) as [j|] eqn:E.
  - rewrite (index_of_Some_mem _ _ _ E), (index_of_app_l _ _ _ _ E). apply app_nth1. rewrite L. eapply index_of_lt; eassumption.
  - pose proof E as E'. apply index_of_None in E'. rewrite E'. destruct (eq_dec x c) as [->|N].
    + rewrite (index_of_snoc_new _ _ E). rewrite app_nth2 by lia. rewrite L, Nat.sub_diag. reflexivity.
    + rewrite (index_of_snoc_other _ _ _ N E). reflexivity.
Qed.

Lemma concat_eqv idc an bn a1 a2 b1 b2 : width_ok a1 -> width_ok a2 ->
  tab_eqv a1 a2 -> tab_eqv b1 b2 -> tab_eqv (sem_concat idc an bn a1 b1) (sem_concat idc an bn a2 b2).
Proof.
  intros W1 W2 [Sa Fa] [Sb Fb]. unfold width_ok in W1, W2. unfold sem_concat. destruct idc as [c|]; split; cbn [cols rows].
  - intros x. rewrite !in_app_iff, (Sa x). tauto.
  - rewrite !map_map. apply Forall2_app.
    + eapply Forall2_map; [exact (Forall2_with_Forall _ _ _ _ _ W1 W2 Fa)|]. intros r1 r2 (L1 & L2 & R) x.
      rewrite !get_snoc by assumption. rewrite (mem_same_set _ _ x Sa), (R x). reflexivity.
    + eapply Forall2_map; [exact Fb|]. intros r1 r2 R x.
      rewrite !get_snoc by apply map_length. rewrite (mem_same_set _ _ x Sa).
      rewrite (row_built_eqv (get (cols b1) r1) (get (cols b2) r2) _ _ Sa R x). reflexivity.
  - exact Sa.
  - apply Forall2_app; [exact Fa|]. eapply Forall2_map; [exact Fb|]. intros r1 r2 R. apply row_built_eqv; [exact Sa|exact R].
Qed.

(* ------------------------------------------------------------------ the meaning of a substituted pipeline, up to column order *)
Lemma NoDup_map_inj_on (f : string -> string) l : NoDup (map f l) -> inj_on f l.
Proof.
  induction l as [|a t IH]; intros N x y Ix Iy E; [destruct Ix|]. simpl in N. inversion N as [|? ? Ha Nt]; subst.
  destruct Ix as [<-|Ix], Iy as [<-|Iy].
  - reflexivity.
  - exfalso. apply Ha. rewrite E. apply in_map. exact Iy.
  - exfalso. apply Ha. rewrite <- E. apply in_map. exact Ix.
  - apply IH; assumption.
Qed.

Lemma otab_eqv_map (f g : table -> table) o1 o2 :
  otab_eqv o1 o2 -> (forall t1 t2, o1 = Some t1 -> o2 = Some t2 -> tab_eqv t1 t2 -> tab_eqv (f t1) (g t2)) ->
  otab_eqv (option_map f o1) (option_map g o2).
Proof. destruct o1, o2; simpl; intros E H; try contradiction; [apply H; auto|exact I]. Qed.

Lemma set_eqb_same_set (l1 l2 : list string) : set_eqb l1 l2 = true -> same_set l1 l2.
Proof. unfold set_eqb. rewrite andb_true_iff, !subset_spec. intros [S1 S2] c. split; [apply S1|apply S2]. Qed.

Theorem subst_sem_up_to_column_order fl m p e :
  boundary_sets_ok m p = true -> renames_okb p = true ->
  otab_eqv (sem_gen fl (subst m p) e) (sem_gen fl p (override fl e m)).
Proof.
  induction p as [n cs|s IH ops wd w|s IH ops gb|s IH x|s IH cs|s IH ds|s IH mp|s IH mp dels|s IH cs rv lim|a IHa b IHb on_a on_b jt|a IHa b IHb idc an bn];
    intros B R; cbn [boundary_sets_ok renames_okb] in B, R; cbn [subst sem_gen].
  - rewrite dict_get_override. revert B. destruct (dict_get m n) as [r|] eqn:E; intros B; [|apply otab_eqv_refl].
    destruct (sem_gen fl r e) as [t|] eqn:S; [|exact I]. cbn [otab_eqv].
    pose proof (sem_cols _ _ _ _ S) as C. apply set_eqb_same_set in B. rewrite <- C in B.
    split; [exact B|]. cbn [cols rows sem_select_cols]. rewrite <- (map_id (rows t)) at 1.
    eapply Forall2_map; [apply Forall2_refl; intros r0; reflexivity|]. intros r1 r2 <- c.
    rewrite get_map_cols. destruct (mem c cs) eqn:M; [reflexivity|]. apply get_absent. intros I. apply B in I. apply (proj2 (mem_In _ _)) in I. congruence.
  - apply otab_eqv_map; [apply IH; assumption|]. intros t1 t2 S1 S2 E.
    pose proof (sem_rows_width _ _ _ _ S1) as W1. pose proof (sem_rows_width _ _ _ _ S2) as W2.
    destruct wd; [apply wextend_eqv|apply extend_eqv]; assumption.
  - apply otab_eqv_map; [apply IH; assumption|]. intros t1 t2 _ _ E. rewrite (project_eqv fl ops gb t1 t2 E). apply tab_eqv_refl.
  - apply otab_eqv_map; [apply IH; assumption|]. intros t1 t2 _ _ E. apply select_rows_eqv. exact E.
  - apply otab_eqv_map; [apply IH; assumption|]. intros t1 t2 _ _ E. apply select_cols_eqv; [apply same_set_refl|exact E].
  - apply otab_eqv_map; [apply IH; assumption|]. intros t1 t2 _ _ E. apply drop_cols_eqv. exact E.
  - apply andb_true_iff in R. destruct R as [Rs J]. apply nodupb_NoDup in J. apply NoDup_map_inj_on in J.
    apply otab_eqv_map; [apply IH; assumption|]. intros t1 t2 _ S2 E.
    apply rename_eqv; [|exact E]. rewrite (sem_cols _ _ _ _ S2). exact J.
  - apply andb_true_iff in R. destruct R as [Rs J]. apply nodupb_NoDup in J. apply NoDup_map_inj_on in J.
    apply otab_eqv_map; [apply IH; assumption|]. intros t1 t2 _ S2 E.
    apply drop_cols_eqv. apply rename_eqv; [|exact E]. rewrite (sem_cols _ _ _ _ S2). exact J.
  - apply otab_eqv_map; [apply IH; assumption|]. intros t1 t2 _ _ E. apply order_eqv. exact E.
  - apply andb_true_iff in B. destruct B as [Ba Bb]. apply andb_true_iff in R. destruct R as [Ra Rb].
    specialize (IHa Ba Ra). specialize (IHb Bb Rb).
    destruct (sem_gen fl (subst m a) e) as [ta1|], (sem_gen fl a (override fl e m)) as [ta2|]; simpl in IHa; try contradiction; [|exact I].
    destruct (sem_gen fl (subst m b) e) as [tb1|], (sem_gen fl b (override fl e m)) as [tb2|]; simpl in IHb; try contradiction; [|exact I].
    cbn [otab_eqv]. apply join_eqv; assumption.
  - apply andb_true_iff in B. destruct B as [Ba Bb]. apply andb_true_iff in R. destruct R as [Ra Rb].
    specialize (IHa Ba Ra). specialize (IHb Bb Rb).
    destruct (sem_gen fl (subst m a) e) as [ta1|] eqn:S1, (sem_gen fl a (override fl e m)) as [ta2|] eqn:S2; simpl in IHa; try contradiction; [|exact I].
    destruct (sem_gen fl (subst m b) e) as [tb1|], (sem_gen fl b (override fl e m)) as [tb2|]; simpl in IHb; try contradiction; [|exact I].
    cbn [otab_eqv]. apply concat_eqv; try assumption; [exact (sem_rows_width _ _ _ _ S1)|exact (sem_rows_width _ _ _ _ S2)].
Qed.

Theorem replace_leaves_sem_up_to_column_order fl m p e :
  built_ok p = true -> boundary_sets_ok m p = true -> renames_okb p = true ->
  otab_eqv (sem_gen fl (replace_leaves m p) e) (sem_gen fl p (override fl e m)).
Proof. intros B1 B2 R. rewrite replace_leaves_subst by exact B1. apply subst_sem_up_to_column_order; assumption. Qed.

Lemma boundary_sets_single k a b cs : leaf_declares k cs b = true -> set_eqb (column_names a) cs = true -> boundary_sets_ok [(k, a)] b = true.
Proof.
  intros L S.
  induction b as [n c0|s IH ops wd w|s IH ops gb|s IH x|s IH c0|s IH ds|s IH mp|s IH mp dels|s IH c0 rv lim|p IHa q IHb on_a on_b jt|p IHa q IHb idc an bn];
    cbn [leaf_declares boundary_sets_ok] in *; try (apply IH; exact L).
  - rewrite dict_get_single. destruct (eq_dec n k); [|reflexivity]. apply (proj1 (eqb_true _ _)) in L. subst c0. exact S.
  - apply andb_true_iff in L. destruct L as [La Lb]. rewrite (IHa La), (IHb Lb). reflexivity.
  - apply andb_true_iff in L. destruct L as [La Lb]. rewrite (IHa La), (IHb Lb). reflexivity.
Qed.

(* a >> b as ViewRepresentation.act_on accepts it (equal column SETS): the composed pipeline is b run on a's result,
   up to column order *)
Theorem rshift_sequential_up_to_column_order fl k a b c e :
  only_table k b -> built_ok b = true -> renames_okb b = true -> rshift a b = Some c ->
  otab_eqv (sem_gen fl c e) (sem_gen fl b (env_set e k (sem_gen fl a e))).
Proof.
  intros O B R H. destruct (only_table_dict_get _ _ O) as [cs D]. rewrite (rshift_accepts_iff k a b cs O D) in H.
  destruct (tables_consistent (leaves b)) eqn:C; [|discriminate]. destruct (set_eqb (column_names a) cs) eqn:S; [|discriminate].
  cbn in H. inversion H; subst c. unfold compose_at. rewrite <- override_single.
  apply replace_leaves_sem_up_to_column_order; [exact B| |exact R].
  eapply boundary_sets_single; [apply consistent_declares; eassumption|exact S].
Qed.

(* instance: the witness of C07_set_boundary_exact_equality_refuted (not equal as tables) is equal up to column order *)
Lemma example_up_to_column_order :
  only_table "e" b_keep /\ built_ok b_keep = true /\ renames_okb b_keep = true /\
  exists c, rshift a_swapped b_keep = Some c /\
            otab_eqv (sem_gen fl_spec c env_d) (sem_gen fl_spec b_keep (env_set env_d "e" (sem_gen fl_spec a_swapped env_d))).
Proof.
  split; [intros n [<-|[]]; reflexivity|]. split; [reflexivity|]. split; [reflexivity|].
  eexists. split; [vm_compute; reflexivity|]. eapply rshift_sequential_up_to_column_order; try reflexivity.
  intros n [<-|[]]; reflexivity.
Qed.
