(* C11, part 1: expression equality (is_equal) -- symmetry, reflexivity, and what it implies for the fields read by
   executors and SQL generation (core_expr) and for the reference semantics (expr_sem). *)
From Coq Require Import List Bool Arith ZArith QArith String Lia.
Import ListNotations.
From DA Require Import Base.PyRT Base.Val Model.Sem Model.Equiv.
Local Open Scope list_scope.

(* ------------------------------------------------------------------ induction over expressions (nested lists) *)
Section PexprInd.
  Variable P : pexpr -> Prop.
  Hypothesis Hcol : forall c, P (PCol c).
  Hypothesis Hval : forall k, P (PVal k).
  Hypothesis Hlist : forall w xs, P (PList w xs).
  Hypothesis Hop : forall o i m args, Forall P args -> P (POp o i m args).
  Fixpoint pexpr_ind' (e : pexpr) : P e :=
    match e with
    | PCol c => Hcol c
    | PVal k => Hval k
    | PList w xs => Hlist w xs
    | POp o i m args =>
        Hop o i m args ((fix go (l : list pexpr) : Forall P l :=
                           match l with [] => Forall_nil P | x :: t => Forall_cons x (pexpr_ind' x) (go t) end) args)
    end.
End PexprInd.

(* the nested fixpoints of the model, as ordinary list functions *)
Fixpoint list_all2 {A} (f : A -> A -> bool) (l1 l2 : list A) : bool :=
  match l1, l2 with x :: t, y :: u => f x y && list_all2 f t u | _, _ => true end.
Fixpoint opt_list {A B} (f : A -> option B) (l : list A) : option (list B) :=
  match l with
  | [] => Some []
  | x :: t => match f x, opt_list f t with Some x', Some t' => Some (x' :: t') | _, _ => None end
  end.

Lemma is_equal_op q o i m xs o' i' m' ys :
  is_equal q (POp o i m xs) (POp o' i' m' ys) = String.eqb o o' && Bool.eqb i i' && list_eqb (is_equal q) xs ys.
Proof. simpl. f_equal. revert ys. induction xs as [|x t IH]; intros [|y u]; simpl; try reflexivity. rewrite IH. reflexivity. Qed.
Lemma agree_expr_op q o i m xs o' i' m' ys :
  agree_expr q (POp o i m xs) (POp o' i' m' ys) = list_all2 (agree_expr q) xs ys.
Proof. simpl. revert ys. induction xs as [|x t IH]; intros [|y u]; simpl; try reflexivity. rewrite IH. reflexivity. Qed.
Lemma ragree_expr_op q o i m xs o' i' m' ys :
  ragree_expr q (POp o i m xs) (POp o' i' m' ys) = list_all2 (ragree_expr q) xs ys.
Proof. simpl. revert ys. induction xs as [|x t IH]; intros [|y u]; simpl; try reflexivity. rewrite IH. reflexivity. Qed.
Lemma expr_sem_op o i m args : expr_sem (POp o i m args) = option_map (EOp o) (opt_list expr_sem args).
Proof. simpl. f_equal. induction args as [|x t IH]; simpl; [reflexivity|]. rewrite IH. reflexivity. Qed.
Lemma core_expr_op o i m args : core_expr (POp o i m args) = POp o i false (map core_expr args).
Proof. reflexivity. Qed.

(* ------------------------------------------------------------------ generic list_eqb facts *)
Lemma list_eqb_sym {A} (f : A -> A -> bool) l1 : forall l2,
  Forall (fun x => forall y, f x y = f y x) l1 -> list_eqb f l1 l2 = list_eqb f l2 l1.
Proof. induction l1 as [|x t IH]; intros [|y u] F; simpl; try reflexivity.
  inversion F as [|? ? Hx Ht]; subst. rewrite Hx, (IH u Ht). reflexivity. Qed.
Lemma list_eqb_refl {A} (f : A -> A -> bool) l : Forall (fun x => f x x = true) l -> list_eqb f l l = true.
Proof. induction 1 as [|x t Hx _ IH]; simpl; [reflexivity|]. rewrite Hx, IH. reflexivity. Qed.
Lemma list_eqb_length {A} (f : A -> A -> bool) l1 : forall l2, list_eqb f l1 l2 = true -> List.length l1 = List.length l2.
Proof. induction l1 as [|x t IH]; intros [|y u] E; simpl in *; try discriminate; try reflexivity.
  apply andb_true_iff in E. destruct E as [_ E]. f_equal. apply IH, E. Qed.
Lemma list_eqb_eq {A} (f : A -> A -> bool) l1 : forall l2,
  (forall x y, In x l1 -> f x y = true -> x = y) -> list_eqb f l1 l2 = true -> l1 = l2.
Proof. induction l1 as [|x t IH]; intros [|y u] Hf E; simpl in *; try discriminate; try reflexivity.
  apply andb_true_iff in E. destruct E as [E1 E2]. f_equal; [apply Hf; auto|]. apply IH; [|exact E2].
  intros a b Ia. apply Hf. right. exact Ia. Qed.
Lemma list_eqb_eqb {A} `{EqDec A} (l1 l2 : list A) : list_eqb eqb l1 l2 = true <-> l1 = l2.
Proof. split.
  - apply list_eqb_eq. intros x y _ E. exact (proj1 (eqb_true x y) E).
  - intros <-. apply list_eqb_refl. apply Forall_forall. intros x _. apply eqb_refl. Qed.

(* ------------------------------------------------------------------ constants *)
Lemma Qeq_bool_sym x y : Qeq_bool x y = Qeq_bool y x.
Proof. destruct (Qeq_bool x y) eqn:E1, (Qeq_bool y x) eqn:E2; try reflexivity.
  - apply Qeq_bool_iff in E1. symmetry in E1. apply Qeq_bool_iff in E1. congruence.
  - apply Qeq_bool_iff in E2. symmetry in E2. apply Qeq_bool_iff in E2. congruence. Qed.
Lemma Qeq_bool_refl x : Qeq_bool x x = true.
Proof. apply Qeq_bool_iff. reflexivity. Qed.

Lemma py_eq_sym a b : py_eq a b = py_eq b a.
Proof. destruct a, b; simpl; try reflexivity; try apply Qeq_bool_sym; apply String.eqb_sym. Qed.
Lemma py_eq_refl a : const_nan_free a = true -> py_eq a a = true.
Proof. destruct a; simpl; intros E; try reflexivity; try discriminate; try apply Qeq_bool_refl. apply String.eqb_refl. Qed.
Lemma eqb_sym {A} `{EqDec A} (x y : A) : eqb x y = eqb y x.
Proof. unfold eqb. destruct (eq_dec x y), (eq_dec y x); congruence. Qed.
Lemma const_eq_sym q a b : const_eq q a b = const_eq q b a.
Proof. unfold const_eq. destruct (q_const_py_eq q); [apply py_eq_sym|apply eqb_sym]. Qed.
Lemma const_eq_refl q a : (q_const_py_eq q = true -> const_nan_free a = true) -> const_eq q a a = true.
Proof. unfold const_eq. destruct (q_const_py_eq q); intros N; [apply py_eq_refl, N; reflexivity|apply eqb_refl]. Qed.

(* Python == between constants of which none or both are booleans means the same value of the reference semantics *)
Lemma Qeq_bool_Qred x y : Qeq_bool x y = true -> Qred x = Qred y.
Proof. intros E. apply Qred_complete. apply Qeq_bool_iff. exact E. Qed.
Lemma py_eq_val a b : py_eq a b = true -> Bool.eqb (is_kbool a) (is_kbool b) = true -> val_of a = val_of b.
Proof. destruct a as [|x|x|x| |x], b as [|y|y|y| |y]; cbn [py_eq knum val_of is_kbool Bool.eqb]; intros E K; try discriminate; try reflexivity;
    try (apply Qeq_bool_Qred in E; rewrite E; reflexivity).
  - destruct x, y; try reflexivity; vm_compute in E; discriminate.
  - apply String.eqb_eq in E. rewrite E. reflexivity. Qed.

(* ------------------------------------------------------------------ is_equal: symmetric *)
Lemma is_equal_sym q a : forall b, is_equal q a b = is_equal q b a.
Proof. induction a as [c|k|w xs|o i m args IH] using pexpr_ind'; intros [c'|k'|w' ys|o' i' m' args']; try reflexivity.
  - simpl. apply String.eqb_sym.
  - simpl. apply const_eq_sym.
  - simpl. destruct (q_list_len_only q).
    + rewrite (orb_comm w' w). destruct (w || w'); [apply Nat.eqb_sym|].
      apply list_eqb_sym. apply Forall_forall. intros x _ y. apply py_eq_sym.
    + apply list_eqb_sym. apply Forall_forall. intros x _ y. apply eqb_sym.
  - rewrite !is_equal_op. rewrite (String.eqb_sym o o'). f_equal; [f_equal|].
    + destruct i, i'; reflexivity.
    + apply list_eqb_sym. exact IH. Qed.

(* ------------------------------------------------------------------ is_equal: reflexive (nan-free, or repaired code) *)
(* nan <> nan matters to the unrepaired Value.is_equal and to Python's == on raw list literals *)
Definition nan_matters (q : quirks) : bool := q_const_py_eq q || q_list_len_only q.

Lemma is_equal_refl q a : (nan_matters q = true -> expr_nan_free a = true) -> is_equal q a a = true.
Proof. unfold nan_matters. induction a as [c|k|w xs|o i m args IH] using pexpr_ind'; intros N.
  - simpl. apply String.eqb_refl.
  - simpl. apply const_eq_refl. intros Q. apply N. rewrite Q. reflexivity.
  - simpl. destruct (q_list_len_only q) eqn:QL.
    + destruct (w || w); [apply Nat.eqb_refl|].
      apply list_eqb_refl. apply Forall_forall. intros x Hx. apply py_eq_refl.
      assert (expr_nan_free (PList w xs) = true) as F by (apply N; apply orb_true_r).
      simpl in F. rewrite forallb_forall in F. apply F, Hx.
    + apply list_eqb_eqb. reflexivity.
  - rewrite is_equal_op, String.eqb_refl, Bool.eqb_reflx. simpl. apply list_eqb_refl.
    rewrite Forall_forall in IH |- *. intros x Hx. apply IH; [exact Hx|]. intros Q. specialize (N Q). simpl in N.
    rewrite forallb_forall in N. apply N, Hx. Qed.

(* ------------------------------------------------------------------ is_equal, given the forgotten fields: same core *)
Lemma is_equal_core q a : forall b, is_equal q a b = true -> agree_expr q a b = true -> core_expr a = core_expr b.
Proof. induction a as [c|k|w xs|o i m args IH] using pexpr_ind'; intros [c'|k'|w' ys|o' i' m' args'] E G; try discriminate.
  - simpl in E. apply String.eqb_eq in E. subst. reflexivity.
  - simpl in E, G. unfold const_eq in E. destruct (q_const_py_eq q).
    + rewrite (proj1 (eqb_true k k') G). reflexivity.
    + rewrite (proj1 (eqb_true k k') E). reflexivity.
  - simpl in E, G. destruct (q_list_len_only q).
    + rewrite (proj1 (eqb_true xs ys) G). reflexivity.
    + apply list_eqb_eqb in E. subst. reflexivity.
  - rewrite is_equal_op in E. rewrite agree_expr_op in G. rewrite !core_expr_op.
    apply andb_true_iff in E. destruct E as [E E3]. apply andb_true_iff in E. destruct E as [E1 E2].
    apply String.eqb_eq in E1. apply Bool.eqb_prop in E2. subst. f_equal.
    revert args' E3 G. induction IH as [|x t Hx _ IHt]; intros [|y u] E3 G; simpl in *; try discriminate; try reflexivity.
    apply andb_true_iff in E3. destruct E3 as [Ex Et]. apply andb_true_iff in G. destruct G as [Gx Gt].
    f_equal; [apply Hx; assumption | apply IHt; assumption]. Qed.

(* ------------------------------------------------------------------ is_equal, given no bool/number conflation: same meaning *)
Lemma is_equal_sem q a : forall b, is_equal q a b = true -> ragree_expr q a b = true -> expr_sem a = expr_sem b.
Proof. induction a as [c|k|w xs|o i m args IH] using pexpr_ind'; intros [c'|k'|w' ys|o' i' m' args'] E G; try discriminate.
  - simpl in E. apply String.eqb_eq in E. subst. reflexivity.
  - simpl in E, G. unfold const_eq in E. simpl. destruct (q_const_py_eq q).
    + rewrite (py_eq_val k k' E G). reflexivity.
    + rewrite (proj1 (eqb_true k k') E). reflexivity.
  - reflexivity.
  - rewrite is_equal_op in E. rewrite ragree_expr_op in G. rewrite !expr_sem_op.
    apply andb_true_iff in E. destruct E as [E E3]. apply andb_true_iff in E. destruct E as [E1 E2].
    apply String.eqb_eq in E1. subst. f_equal.
    revert args' E3 G. induction IH as [|x t Hx _ IHt]; intros [|y u] E3 G; simpl in *; try discriminate; try reflexivity.
    apply andb_true_iff in E3. destruct E3 as [Ex Et]. apply andb_true_iff in G. destruct G as [Gx Gt].
    rewrite (Hx y Ex Gx), (IHt u Et Gt). reflexivity. Qed.

(* with the repaired flags nothing is forgotten *)
Lemma agree_expr_fixed a : forall b, agree_expr q_fixed a b = true.
Proof. induction a as [c|k|w xs|o i m args IH] using pexpr_ind'; intros [c'|k'|w' ys|o' i' m' args']; try reflexivity.
  rewrite agree_expr_op. revert args'. induction IH as [|x t Hx _ IHt]; intros [|y u]; simpl; try reflexivity.
  rewrite Hx, IHt. reflexivity. Qed.
Lemma ragree_expr_fixed a : forall b, ragree_expr q_fixed a b = true.
Proof. induction a as [c|k|w xs|o i m args IH] using pexpr_ind'; intros [c'|k'|w' ys|o' i' m' args']; try reflexivity.
  rewrite ragree_expr_op. revert args'. induction IH as [|x t Hx _ IHt]; intros [|y u]; simpl; try reflexivity.
  rewrite Hx, IHt. reflexivity. Qed.

(* the erased fields do not reach the reference semantics *)
Lemma expr_sem_core a : expr_sem (core_expr a) = expr_sem a.
Proof. induction a as [c|k|w xs|o i m args IH] using pexpr_ind'; try reflexivity.
  rewrite core_expr_op, !expr_sem_op. f_equal.
  induction IH as [|x t Hx _ IHt]; simpl; [reflexivity|]. rewrite Hx, IHt. reflexivity. Qed.
