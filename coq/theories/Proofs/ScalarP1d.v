(* C05 -- SQL templates compute the documented value: **, around, trimstr, is_in, mapv *)
From Coq Require Import List Bool ZArith QArith Qround Qabs Qpower String Ascii Lia Lqa.
Import ListNotations.
From DA Require Import Model.Scalar Model.SqlTemplates Model.ScalarBackends Model.ScalarCatalog Model.ScalarIndex Proofs.ScalarP0 Proofs.ScalarP1.
Local Open Scope string_scope.

Lemma qtie_comp p q : (p == q)%Q -> qtie p = qtie q.
Proof. intros E. unfold qtie, qfloor. rewrite (Qfloor_comp _ _ E).
  destruct (Qeq_bool (p - inject_Z (Qfloor q)) (1 # 2)) eqn:A, (Qeq_bool (q - inject_Z (Qfloor q)) (1 # 2)) eqn:B; try reflexivity;
    exfalso; q_props; lra. Qed.
Lemma qround_nearest_comp p q : (p == q)%Q -> qround_nearest p = qround_nearest q.
Proof. intros E. unfold qround_nearest, qfloor. rewrite (Qfloor_comp (p + (1 # 2)) (q + (1 # 2))); [reflexivity | rewrite E; reflexivity]. Qed.
Lemma Qnat_spec q n : Qnat q = Some n -> Qis_int q = true /\ (0 <= q)%Q /\ Qfloor q = Z.of_nat n.
Proof. unfold Qnat. destruct (Qis_int q) eqn:I; [|discriminate]. destruct (Qle_bool 0 q) eqn:L; [|discriminate].
  cbn. intros H. inversion H; subst. apply Qle_bool_iff in L. repeat split; auto.
  rewrite Z2Nat.id; [reflexivity | apply Qfloor_nonneg; exact L]. Qed.
Lemma Qnat_inject n : Qnat (inject_Z (Z.of_nat n)) = Some n.
Proof. unfold Qnat. rewrite Qis_int_inject. replace (Qle_bool 0 (inject_Z (Z.of_nat n))) with true.
  - cbn [andb]. rewrite Qfloor_Z, Nat2Z.id. reflexivity.
  - symmetry. apply Qle_bool_iff. change 0%Q with (inject_Z 0). rewrite <- Zle_Qle. lia. Qed.
Lemma Qnat_comp p q : (p == q)%Q -> Qnat p = Qnat q.
Proof. intros E. unfold Qnat. rewrite (Qis_int_comp _ _ E), (Qfloor_comp _ _ E).
  replace (Qle_bool 0 p) with (Qle_bool 0 q); [reflexivity|].
  destruct (Qle_bool 0 q) eqn:A, (Qle_bool 0 p) eqn:B; try reflexivity; exfalso; q_props; lra. Qed.
Lemma Qnat_eq q n : Qnat q = Some n -> (q == inject_Z (Z.of_nat n))%Q.
Proof. intros H. destruct (Qnat_spec _ _ H) as [I [_ F]]. rewrite <- F. apply Qis_int_eq. exact I. Qed.
Lemma Qnat_succ q n : Qnat q = Some n -> Qnat (1 + q) = Some (S n).
Proof. intros H. apply Qnat_eq in H. rewrite (Qnat_comp (1 + q) (inject_Z (Z.of_nat (S n)))); [apply Qnat_inject|].
  rewrite H. rewrite Nat2Z.inj_succ. unfold Z.succ. rewrite inject_Z_plus. change (inject_Z 1) with 1%Q. ring. Qed.
Lemma Qnat_sub p q i j : Qnat p = Some i -> Qnat q = Some j -> (i <= j)%nat -> Qnat (q - p) = Some (j - i)%nat.
Proof. intros Hp Hq L. apply Qnat_eq in Hp. apply Qnat_eq in Hq.
  rewrite (Qnat_comp (q - p) (inject_Z (Z.of_nat (j - i)))); [apply Qnat_inject|].
  rewrite Hp, Hq. rewrite Nat2Z.inj_sub by exact L. rewrite inject_Z_minus. reflexivity. Qed.

Section SQL.
Variable mf : string -> Q -> option Q.
Variable mf2 : string -> Q -> Q -> option Q.
Notation documented_sql := (documented_sql mf mf2).

(* ---------------------------------------------------------------- ** *)
Lemma qpow_defined p q v : qpow mf2 p q = Some v -> pow_defined p q = true.
Proof. unfold qpow, pow_defined, Qlt_bool. intros H.
  destruct (Qis_int q) eqn:?, (Qeq_bool p 0) eqn:?, (Qle_bool 0 q) eqn:?, (Qle_bool p 0) eqn:?, (Qle_bool q 0) eqn:?;
    cbn in *; try discriminate; try reflexivity; exfalso; q_lra. Qed.
Lemma qpow_one p q : (q == 1)%Q -> exists v, qpow mf2 p q = Some v /\ (v == p)%Q.
Proof. intros E. unfold qpow. rewrite (Qis_int_comp _ _ E). change (Qis_int 1) with true.
  replace (Qle_bool 0 q) with true by (symmetry; apply Qle_bool_iff; lra).
  rewrite orb_true_r. cbn. eexists; split; [reflexivity|]. rewrite (Qfloor_comp _ _ E). reflexivity. Qed.
Lemma sql_pow vr d lits : documented_sql vr d "**" lits anyargs.
Proof. intros args r _ H. change (spec_method mf mf2 "**") with (spec_pow mf2) in H. arity2 H args.
  unfold sql_eval, sql_eval_on. cbn [atoms_from].
  unfold spec_pow in H.
  destruct (missing a && match b with SNum q => Qeq_bool q 0 | _ => false end || missing b && match a with SNum p => Qeq_bool p 1 | _ => false end) eqn:C; [discriminate H|].
  destruct (flag_at lits 1) eqn:Fl.
  - (* literal exponent: an exponent that is literally 1 renders the base alone *)
    destruct b as [ | | |q| | | ].
    1,2,3,5,6,7: (destruct d, a; try destruct b; simp; repeat (break_step; simp); try discriminate H; try (inversion H; subst; finish)).
    + destruct (Qeq_bool q 1) eqn:Q1.
      * assert (fmt vr d "**" [QAtom (flag_at lits 0) "" (enc d a); QAtom true "" (enc d (SNum q))] = Some (QAtom (flag_at lits 0) "" (enc d a))) as F.
        { destruct d; cbn; rewrite Q1; reflexivity. }
        rewrite F. cbn [sem]. apply Qeq_bool_iff in Q1.
        destruct a as [ | | |p| | | ]; cbn in H; try discriminate H; try (inversion H; subst; destruct d; finish).
        destruct (qpow_one p q Q1) as [v [E V]]. rewrite E in H. cbn in H. inversion H; subst.
        eexists; split; [reflexivity|]. destruct d; apply sv_eqv_num; symmetry; exact V.
      * assert (fmt vr d "**" [QAtom (flag_at lits 0) "" (enc d a); QAtom true "" (enc d (SNum q))] = Some (QFun "POWER" [QAtom (flag_at lits 0) "" (enc d a); QAtom true "" (enc d (SNum q))])) as F.
        { destruct d; cbn; rewrite Q1; reflexivity. }
        rewrite F. clear F.
        destruct a as [ | | |p| | | ]; cbn in H; try discriminate H; try (inversion H; subst; destruct d; finish).
        destruct (qpow mf2 p q) as [v|] eqn:E; [|discriminate H]. cbn in H. inversion H; subst.
        pose proof (qpow_defined _ _ _ E) as D. destruct d; cbn; rewrite D, E; cbn; finish.
  - assert (fmt vr d "**" [QAtom (flag_at lits 0) "" (enc d a); QAtom false "" (enc d b)] = Some (QFun "POWER" [QAtom (flag_at lits 0) "" (enc d a); QAtom false "" (enc d b)])) as F by (destruct d; reflexivity).
    rewrite F. clear F.
    destruct a as [ | | |p| | | ], b as [ | | |q| | | ]; cbn in H; try discriminate H; try (inversion H; subst; destruct d; finish).
    destruct (qpow mf2 p q) as [v|] eqn:E; [|discriminate H]. cbn in H. inversion H; subst.
    pose proof (qpow_defined _ _ _ E) as D. destruct d; cbn; rewrite D, E; cbn; finish. Qed.
(* ---------------------------------------------------------------- around (the digits argument is a literal) *)
Lemma pow10_pos n : (0 < pow10 (Z.of_nat n))%Q.
Proof. unfold pow10. apply Qpower_0_lt. reflexivity. Qed.
Lemma round_div_eqv d0 x s : qtie x = false -> ~ (s == 0)%Q ->
  sv_eqv (SNum ((match d0 with DSqlite => round_half_away x | DPg => round_half_even x end) / s)) (SNum (qround_nearest x / s)).
Proof. intros T NZ. apply sv_eqv_num. destruct d0.
  - rewrite (round_half_away_nearest _ T). reflexivity.
  - rewrite (round_half_even_nearest _ T). reflexivity. Qed.
Lemma sql_around vr d : documented_sql vr d "around" [false; true] anyargs.
Proof. intros args r _ H. change (spec_method mf mf2 "around") with spec_around in H. arity2 H args.
  destruct b as [ | | |dg| | | ]; try (destruct a; discriminate H). cbn in H.
  destruct (Qnat dg) as [n|] eqn:N; [|discriminate H]. destruct (n <=? 6)%nat eqn:L6; [|discriminate H].
  destruct (Qnat_spec _ _ N) as [I [NN F]].
  unfold sql_eval, sql_eval_on. cbn [atoms_from flag_at nth last].
  replace (enc d (SNum dg)) with (SNum dg) by (destruct d; reflexivity).
  destruct (Qeq_bool dg 0) eqn:Z0.
  - (* around(0) renders ROUND(x) *)
    assert (fmt vr d "around" [QAtom false "" (enc d a); QAtom true "" (SNum dg)] = Some (QFun "ROUND" [QAtom false "" (enc d a)])) as FM.
    { destruct d; cbn; rewrite Z0; reflexivity. }
    rewrite FM. clear FM. apply Qeq_bool_iff in Z0.
    assert (n = 0)%nat as ->. { rewrite (Qfloor_comp _ _ Z0) in F. change (Qfloor 0) with 0%Z in F. lia. }
    destruct a as [ | | |q| | | ]; cbn in H; try discriminate H; try (inversion H; subst; destruct d; finish).
    change (pow10 (Z.of_nat 0)) with 1%Q in H.
    assert (q * 1 == q)%Q as E1 by ring.
    rewrite (qtie_comp _ _ E1) in H. destruct (qtie q) eqn:T; [discriminate H|]. inversion H; subst; clear H.
    rewrite (qround_nearest_comp _ _ E1).
    destruct d; cbn; (eexists; split; [reflexivity|]); apply sv_eqv_num.
    + rewrite (round_half_away_nearest _ T). field.
    + rewrite (round_half_even_nearest _ T). field.
  - pose proof (pow10_pos n) as PP.
    assert (sem mf mf2 d vr (t_power10 (QAtom true "" (SNum dg))) = Some (SNum (pow10 (Z.of_nat n)))) as TP.
    { unfold t_power10. cbn [is_lit_with]. destruct (Qeq_bool dg 1) eqn:O1.
      - apply Qeq_bool_iff in O1. assert (n = 1)%nat as ->. { rewrite (Qfloor_comp _ _ O1) in F. change (Qfloor 1) with 1%Z in F. lia. }
        reflexivity.
      - assert (qpow mf2 10 dg = Some (pow10 (Z.of_nat n))) as QP.
        { unfold qpow. rewrite I. cbn. unfold pow10. rewrite F. reflexivity. }
        assert (pow_defined 10 dg = true) as PD. { eapply qpow_defined; exact QP. }
        destruct d; cbn; rewrite PD, QP; reflexivity. }
    assert (fmt vr d "around" [QAtom false "" (enc d a); QAtom true "" (SNum dg)]
            = Some (QParen (QBin BDiv (QFun "ROUND" [QBin BMul (QAtom false "" (enc d a)) (t_power10 (QAtom true "" (SNum dg)))]) (t_power10 (QAtom true "" (SNum dg)))))) as FM.
    { destruct d; cbn -[t_power10]; rewrite Z0; reflexivity. }
    rewrite FM. clear FM. cbn [sem map all_some option_map]. rewrite TP. cbn [all_some option_map].
    set (s := pow10 (Z.of_nat n)) in *.
    assert (Qeq_bool s 0 = false) as SZ. { destruct (Qeq_bool s 0) eqn:E; [exfalso; q_lra | reflexivity]. }
    destruct a as [ | | |q| | | ]; cbn in H; try discriminate H; try (inversion H; subst; destruct d; cbn; finish).
    fold s in H. destruct (qtie (q * s)) eqn:T; [discriminate H|]. inversion H; subst; clear H.
    destruct d; cbn; rewrite SZ; (eexists; split; [reflexivity|]).
    + apply (round_div_eqv DSqlite); [exact T | q_lra].
    + apply (round_div_eqv DPg); [exact T | q_lra]. Qed.
(* ---------------------------------------------------------------- trimstr (start and stop are literals) *)
(* shipped: SUBSTR(x, 1 + start, stop) takes `stop` characters, which is the documented slice only for start = 0;
   repaired: SUBSTR(x, 1 + start, stop - start) *)
Lemma sql_trimstr vr d : documented_sql vr d "trimstr" [false; true] (fun l => fix_trimstr vr || start_zero l).
Proof. intros args r G H. change (spec_method mf mf2 "trimstr") with spec_trimstr in H. arity3 H args.
  destruct b as [ | | |qa| | | ]; try (destruct a; discriminate H). destruct c as [ | | |qb| | | ]; try (destruct a; discriminate H).
  cbn in H. destruct (Qnat qa) as [i|] eqn:Na; [|discriminate H]. destruct (Qnat qb) as [j|] eqn:Nb; [|discriminate H].
  destruct (i <=? j)%nat eqn:L; [|discriminate H]. apply Nat.leb_le in L.
  unfold sql_eval, sql_eval_on. cbn [atoms_from flag_at nth last].
  replace (enc d (SNum qa)) with (SNum qa) by (destruct d; reflexivity). replace (enc d (SNum qb)) with (SNum qb) by (destruct d; reflexivity).
  pose proof (Qnat_succ _ _ Na) as Ns.
  destruct (fix_trimstr vr) eqn:FT.
  - assert (fmt vr d "trimstr" [QAtom false "" (enc d a); QAtom true "" (SNum qa); QAtom true "" (SNum qb)]
            = Some (QFun "SUBSTR" [QAtom false "" (enc d a); QBin BAdd (lit_text "1" (SNum 1)) (QAtom true "" (SNum qa)); QBin BSub (QAtom true "" (SNum qb)) (QAtom true "" (SNum qa))])) as FM.
    { destruct d; cbn; rewrite FT; reflexivity. }
    rewrite FM. clear FM. pose proof (Qnat_sub _ _ _ _ Na Nb L) as Nd.
    destruct a; try discriminate H; inversion H; subst; clear H.
    + destruct d; cbn; finish.
    + assert (Qnat (qb + - qa) = Some (j - i)%nat) as Nd' by exact Nd.
      destruct d; cbn; rewrite Ns, Nd'; finish.
  - cbn in G. apply Qeq_bool_iff in G.
    assert (i = 0)%nat as ->. { rewrite (Qnat_comp _ _ G) in Na. change (Qnat 0) with (Some 0%nat) in Na. congruence. }
    assert (fmt vr d "trimstr" [QAtom false "" (enc d a); QAtom true "" (SNum qa); QAtom true "" (SNum qb)]
            = Some (QFun "SUBSTR" [QAtom false "" (enc d a); QBin BAdd (lit_text "1" (SNum 1)) (QAtom true "" (SNum qa)); QAtom true "" (SNum qb)])) as FM.
    { destruct d; cbn; rewrite FT; reflexivity. }
    rewrite FM. clear FM.
    destruct a; try discriminate H; inversion H; subst; clear H.
    + destruct d; cbn; finish.
    + unfold str_slice. rewrite Nat.sub_0_r. destruct d; cbn; rewrite Ns, Nb; finish. Qed.

(* ---------------------------------------------------------------- is_in and mapv: literal collections of any size *)
Lemma flag_tail i : flag_at [false; true] (S i) = true.
Proof. destruct i as [|[|k]]; reflexivity. Qed.
Lemma atoms_all_lit d i l : all_lit (atoms_from d [false; true] (S i) l) = true.
Proof. revert i. induction l as [|v t IH]; intros i; [reflexivity|]. cbn [atoms_from all_lit forallb]. rewrite flag_tail.
  apply (IH (S i)). Qed.
Lemma atoms_sem d vr lits i l : all_some (map (sem mf mf2 d vr) (atoms_from d lits i l)) = Some (map (enc d) l).
Proof. revert i. induction l as [|v t IH]; intros i; [reflexivity|]. cbn [atoms_from map sem all_some]. rewrite IH. reflexivity. Qed.
Lemma cmp3_enc_eq d a b c : cmp3 a b = Some c -> cmp3 (enc d a) (enc d b) = Some c.
Proof. intros H. destruct (cmp3_enc d a b c H) as [c' [E ->]]. exact E. Qed.
Lemma mem_cmp_enc d x l bres : mem_cmp x l = Some bres -> mem_cmp (enc d x) (map (enc d) l) = Some bres.
Proof. revert bres. induction l as [|e t IH]; intros bres H; [exact H|]. cbn [mem_cmp map] in *.
  destruct (cmp3 x e) as [c|] eqn:C; [|discriminate H]. destruct (mem_cmp x t) as [rt|] eqn:M; [|discriminate H].
  rewrite (cmp3_enc_eq d _ _ _ C), (IH _ eq_refl). exact H. Qed.
Lemma enc_present d x : missing x = false -> enc d x <> SNull.
Proof. destruct d, x; cbn; try discriminate; try destruct b; discriminate. Qed.
Lemma sql_is_in vr d : documented_sql vr d "is_in" [false; true] anyargs.
Proof. intros args r _ H. change (spec_method mf mf2 "is_in") with spec_is_in in H.
  destruct args as [|x elems]; [discriminate H|]. cbn in H. destruct (missing x) eqn:Mx; [discriminate H|].
  destruct (mem_cmp x elems) as [bres|] eqn:M; [|discriminate H]. cbn in H. inversion H; subst; clear H.
  unfold sql_eval, sql_eval_on. cbn [atoms_from].
  assert (fmt vr d "is_in" (QAtom (flag_at [false; true] 0) "" (enc d x) :: atoms_from d [false; true] 1 elems)
          = Some (QParen (QIn (QAtom false "" (enc d x)) (atoms_from d [false; true] 1 elems)))) as FM.
  { destruct d; cbn; rewrite atoms_all_lit; reflexivity. }
  rewrite FM. cbn [sem]. rewrite atoms_sem. rewrite (mem_cmp_enc d _ _ _ M).
  pose proof (enc_present d x Mx) as NN. destruct (enc d x); try (exfalso; apply NN; reflexivity);
    cbn; (eexists; split; [reflexivity | apply mkb_eqv]). Qed.

Lemma truth_mkb d b : truth d (mkb d b) = Some (Some b).
Proof. destruct d, b; reflexivity. Qed.
(* one step of the simple CASE, named so that the induction can use it *)
Lemma caseof_step d vr a k t ws e :
  sem mf mf2 d vr (QCaseOf a ((k, t) :: ws) e) =
  match sem mf mf2 d vr a with
  | Some vs => match sem mf mf2 d vr k with
               | Some vk => match sql_cmp d CEq vs vk with
                            | Some rr => match truth d rr with
                                         | Some (Some true) => sem mf mf2 d vr t
                                         | Some _ => sem mf mf2 d vr (QCaseOf a ws e)
                                         | None => None end
                            | None => None end
               | None => None end
  | None => None end.
Proof. cbn [sem]. destruct (sem mf mf2 d vr a); reflexivity. Qed.
Lemma sem_atom d vr l t v : sem mf mf2 d vr (QAtom l t v) = Some v.
Proof. reflexivity. Qed.
Lemma caseof_nil d vr a e v : sem mf mf2 d vr a = Some v -> sem mf mf2 d vr (QCaseOf a [] e) = sem mf mf2 d vr e.
Proof. intros E. cbn [sem]. rewrite E. reflexivity. Qed.
Lemma pair_up_even d i kv : Nat.even (List.length kv) = true -> exists ws, pair_up (atoms_from d [false; true] i kv) = Some ws.
Proof. revert i. induction kv as [kv IH] using (well_founded_induction (Wf_nat.well_founded_ltof _ (@List.length sval))).
  intros i E. destruct kv as [|k [|v t]]; cbn in E.
  - eexists; reflexivity.
  - discriminate E.
  - destruct (IH t) with (i := S (S i)) as [ws P]; [unfold ltof; cbn; lia | exact E |].
    cbn [atoms_from pair_up]. rewrite P. eexists; reflexivity. Qed.
Lemma mapv_null_scrutinee d vr i kv dflt ws :
  pair_up (atoms_from d [false; true] i kv) = Some ws ->
  sem mf mf2 d vr (QCaseOf (QAtom false "" SNull) ws dflt) = sem mf mf2 d vr dflt.
Proof. revert i ws. induction kv as [kv IH] using (well_founded_induction (Wf_nat.well_founded_ltof _ (@List.length sval))).
  intros i ws P. destruct kv as [|k [|v t]]; cbn in P.
  - inversion P; subst. reflexivity.
  - discriminate P.
  - destruct (pair_up (atoms_from d [false; true] (S (S i)) t)) as [ws'|] eqn:P'; [|discriminate P]. cbn in P. inversion P; subst; clear P.
    rewrite caseof_step. rewrite !sem_atom. cbn [sql_cmp]. replace (truth d SNull) with (Some (@None bool)) by (destruct d; reflexivity).
    eapply IH; [|exact P']. unfold ltof. cbn. lia. Qed.
Lemma mapv_lookup d vr x i kv dflt ws r :
  missing x = false -> map_lookup x kv dflt = Some r ->
  pair_up (atoms_from d [false; true] i kv) = Some ws ->
  exists r', sem mf mf2 d vr (QCaseOf (QAtom false "" (enc d x)) ws (QAtom true "" (enc d dflt))) = Some r' /\ sv_eqv r' r.
Proof. intros Mx. revert i ws r. induction kv as [kv IH] using (well_founded_induction (Wf_nat.well_founded_ltof _ (@List.length sval))).
  intros i ws r L P. destruct kv as [|k [|v t]]; cbn in P, L.
  - inversion P; inversion L; subst. cbn. finish.
  - discriminate L.
  - destruct (pair_up (atoms_from d [false; true] (S (S i)) t)) as [ws'|] eqn:P'; [|discriminate P]. cbn in P. inversion P; subst; clear P.
    destruct (cmp3 x k) as [c|] eqn:C; [|discriminate L].
    rewrite caseof_step. rewrite !sem_atom. unfold sql_cmp.
    pose proof (enc_present d x Mx) as NN.
    assert (missing k = false) as Mk. { destruct x, k; cbn in C; try discriminate C; reflexivity. }
    pose proof (enc_present d k Mk) as NK.
    rewrite (cmp3_enc_eq d _ _ _ C). cbn [option_map].
    destruct (enc d x) eqn:Ex; try (exfalso; apply NN; reflexivity);
    destruct (enc d k) eqn:Ek; try (exfalso; apply NK; reflexivity);
    rewrite truth_mkb; cbn [cmp_test]; destruct (is_Eq c);
      try (inversion L; subst; eexists; split; [reflexivity | apply enc_eqv]);
      try (eapply (IH t); [unfold ltof; cbn; lia | exact L | exact P']). Qed.
Lemma sql_mapv vr d : documented_sql vr d "mapv" [false; true] anyargs.
Proof. intros args r _ H. change (spec_method mf mf2 "mapv") with spec_mapv in H.
  destruct args as [|x [|dflt kv]]; try discriminate H. cbn in H.
  destruct (Nat.even (List.length kv)) eqn:EV; [|discriminate H]. cbn in H.
  unfold sql_eval, sql_eval_on. cbn [atoms_from flag_at nth last].
  assert (all_lit (QAtom true "" (enc d dflt) :: atoms_from d [false; true] 2 kv) = true) as AL.
  { cbn [all_lit forallb]. apply (atoms_all_lit d 1 kv). }
  destruct (pair_up_even d 2 kv EV) as [ws P].
  assert (fmt vr d "mapv" (QAtom false "" (enc d x) :: QAtom true "" (enc d dflt) :: atoms_from d [false; true] 2 kv)
          = Some (match ws with [] => QAtom true "" (enc d dflt) | _ => QCaseOf (QAtom false "" (enc d x)) ws (QAtom true "" (enc d dflt)) end)) as FM.
  { destruct d; cbn -[all_lit pair_up]; rewrite AL, P; destruct ws; reflexivity. }
  rewrite FM. clear FM.
  destruct (missing x) eqn:Mx.
  - inversion H; subst; clear H.
    assert (enc d x = SNull) as Ex by (destruct d, x; try discriminate Mx; reflexivity).
    destruct ws as [|w ws']; [cbn; finish|].
    rewrite Ex. rewrite (mapv_null_scrutinee d vr 2 kv _ _ P). cbn. finish.
  - destruct ws as [|w ws'].
    + destruct kv as [|k [|v t]]; cbn in P; try discriminate P.
      * cbn in H. inversion H; subst. cbn. finish.
      * destruct (pair_up (atoms_from d [false; true] 4 t)); discriminate P.
    + eapply mapv_lookup; [exact Mx | exact H | exact P]. Qed.
End SQL.
