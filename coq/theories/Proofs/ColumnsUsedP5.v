(* C10, part 5: what columns_used() returns is closed under the per-node requests (so part 4 applies), also when node
   objects are shared; the end-to-end statements about perturbed inputs and about the narrowed rebuild. *)
From Coq Require Import List Bool Arith ZArith QArith String Lia Permutation.
Import ListNotations.
From DA Require Import Base.PyRT Base.Val Model.Sem Proofs.SemBasicP Model.ColumnsUsed
  Proofs.ColumnsUsedP1 Proofs.ColumnsUsedP2 Proofs.ColumnsUsedP3 Proofs.ColumnsUsedP4.
Local Open Scope list_scope.

(* ------------------------------------------------------------------ records *)
Lemma rec_of_set_same {K} `{EqDec K} (d : list (K * list string)) k v : rec_of (dict_set d k v) k = v.
Proof. unfold rec_of. rewrite dict_get_set_same. reflexivity. Qed.
Lemma rec_of_set_other {K} `{EqDec K} (d : list (K * list string)) k k2 v : k2 <> k -> rec_of (dict_set d k v) k2 = rec_of d k2.
Proof. intros N. unfold rec_of. rewrite dict_get_set_other by exact N. reflexivity. Qed.

Definition tabs_le (t t' : list (string * list string)) : Prop := forall n c, In c (rec_of t n) -> In c (rec_of t' n).
Lemma tabs_le_refl t : tabs_le t t.
Proof. intros n c I. exact I. Qed.
Lemma tabs_le_trans a b c : tabs_le a b -> tabs_le b c -> tabs_le a c.
Proof. intros H1 H2 n x I. apply H2, H1, I. Qed.
Lemma tabs_le_set t n u : tabs_le t (dict_set t n (set_union (rec_of t n) u)).
Proof.
  intros n2 c I. destruct (string_dec n2 n) as [->|N].
  - rewrite rec_of_set_same. apply In_set_union. left. exact I.
  - rewrite rec_of_set_other by exact N. exact I.
Qed.

(* ------------------------------------------------------------------ tree-shaped pipelines *)
Lemma cu_tree_mono p : forall u t t', cu_tree p u t = Some t' -> tabs_le t t'.
Proof.
  induction p; intros u t t' H; cbn [cu_tree] in H;
    try (destruct (subset u _); [|discriminate]; eapply IHp; exact H).
  - destruct (subset u tcols); [|discriminate]. inversion H; subst. apply tabs_le_set.
  - destruct (subset u _); [|discriminate]. destruct (cu_tree p1 _ t) as [t2|] eqn:E1; [|discriminate].
    eapply tabs_le_trans; [eapply IHp1; exact E1|eapply IHp2; exact H].
  - destruct (subset u _); [|discriminate]. destruct (cu_tree p1 _ t) as [t2|] eqn:E1; [|discriminate].
    eapply tabs_le_trans; [eapply IHp1; exact E1|eapply IHp2; exact H].
Qed.

Lemma cu_tree_covers F p : forall u t t', cu_tree p u t = Some t' ->
  (forall n c, In c (rec_of t' n) -> In c (F n)) -> covers F p u.
Proof.
  induction p; intros u t t' H HF; cbn [cu_tree] in H; cbn [covers];
    try (destruct (subset u _) eqn:SB; [|discriminate]; exists u; split; [apply incl_refl|]; split; [exact (proj1 (subset_spec _ _) SB)|];
         eapply IHp; [exact H|exact HF]).
  - destruct (subset u tcols) eqn:SB; [|discriminate]. inversion H; subst. split; [exact (proj1 (subset_spec _ _) SB)|].
    intros c Hc. apply HF. rewrite rec_of_set_same. apply In_set_union. right. exact Hc.
  - destruct (subset u _) eqn:SB; [|discriminate]. destruct (cu_tree p1 _ t) as [t2|] eqn:E1; [|discriminate].
    exists u. split; [apply incl_refl|]. split; [exact (proj1 (subset_spec _ _) SB)|]. split.
    + eapply IHp1; [exact E1|]. intros n c I. apply HF. eapply cu_tree_mono; [exact H|exact I].
    + eapply IHp2; [exact H|exact HF].
  - destruct (subset u _) eqn:SB; [|discriminate]. destruct (cu_tree p1 _ t) as [t2|] eqn:E1; [|discriminate].
    exists u. split; [apply incl_refl|]. split; [exact (proj1 (subset_spec _ _) SB)|]. split.
    + eapply IHp1; [exact E1|]. intros n c I. apply HF. eapply cu_tree_mono; [exact H|exact I].
    + eapply IHp2; [exact H|exact HF].
Qed.

Lemma columns_used_tree_covers p cu : columns_used_tree p = Some cu -> covers (rec_of cu) p (column_names p).
Proof.
  unfold columns_used_tree. destruct (get_tables p) as [tb|]; [|discriminate]. intros H.
  eapply cu_tree_covers; [exact H|]. intros n c I. exact I.
Qed.

(* ------------------------------------------------------------------ shared node objects: records keyed by node id *)
Definition nodes_ok (cn : nat -> list string) (nd : list (nat * list string)) : Prop :=
  forall id c, In c (rec_of nd id) -> In c (cn id).

Lemma nodes_ok_set cn nd id u :
  nodes_ok cn nd -> incl u (cn id) -> nodes_ok cn (dict_set nd id (set_union (rec_of nd id) u)).
Proof.
  intros N I id2 c Hc. destruct (Nat.eq_dec id2 id) as [->|Ne].
  - rewrite rec_of_set_same in Hc. apply In_set_union in Hc. destruct Hc as [Hc|Hc]; [apply N, Hc|apply I, Hc].
  - rewrite rec_of_set_other in Hc by exact Ne. apply N, Hc.
Qed.

Lemma cu_impl_mono p : forall i u st st', cu_impl p i u st = Some st' -> tabs_le (st_tabs st) (st_tabs st').
Proof.
  induction p; intros [id kids] u st st' H; cbn [cu_impl] in H;
    try (destruct (subset u _); [|discriminate]; destruct kids as [|k [|? ?]]; try discriminate;
         apply IHp in H; cbn [st_tabs] in H; exact H).
  - destruct (subset u tcols); [|discriminate]. inversion H; subst. cbn [st_tabs]. apply tabs_le_set.
  - destruct (subset u _); [|discriminate]. destruct kids as [|ka [|kb [|? ?]]]; try discriminate.
    destruct (cu_impl p1 ka _ _) as [st2|] eqn:E1; [|discriminate].
    apply IHp1 in E1. apply IHp2 in H. cbn [st_tabs] in E1. eapply tabs_le_trans; eassumption.
  - destruct (subset u _); [|discriminate]. destruct kids as [|ka [|kb [|? ?]]]; try discriminate.
    destruct (cu_impl p1 ka _ _) as [st2|] eqn:E1; [|discriminate].
    apply IHp1 in E1. apply IHp2 in H. cbn [st_tabs] in E1. eapply tabs_le_trans; eassumption.
Qed.

Ltac cu_unary IHp :=
  match goal with
  | H : (if subset ?u ?cn then _ else None) = Some _, IO : _ /\ _ |- _ =>
      destruct (subset u cn) eqn:SB; [|discriminate];
      destruct IO as [CN IO];
      match type of H with context [match ?kids with _ => _ end] => destruct kids as [|k [|? ?]]; try discriminate; try contradiction end
  end.

Lemma cu_impl_covers cn F p : forall i u st st', cu_impl p i u st = Some st' -> ids_ok cn p i -> nodes_ok cn (st_nodes st) ->
  nodes_ok cn (st_nodes st') /\ ((forall n c, In c (rec_of (st_tabs st') n) -> In c (F n)) -> covers F p u).
Proof.
  induction p; intros [id kids] u st st' H IO NO; cbn [cu_impl] in H; cbn [ids_ok] in IO; cbn [covers].
  - destruct (subset u tcols) eqn:SB; [|discriminate]. inversion H; subst. cbn [st_nodes st_tabs]. split; [exact NO|].
    intros HF. split; [exact (proj1 (subset_spec _ _) SB)|]. intros c Hc. apply HF. rewrite rec_of_set_same. apply In_set_union. right. exact Hc.
  - cu_unary IHp. set (crec := set_union (rec_of (st_nodes st) id) u) in *.
    assert (incl crec (cn id)) as IC by (intros c Hc; apply In_set_union in Hc; destruct Hc as [Hc|Hc]; [apply NO, Hc|rewrite CN; apply (proj1 (subset_spec _ _) SB), Hc]).
    destruct (IHp _ _ _ _ H IO) as [N' CV]; [cbn [st_nodes]; apply nodes_ok_set; [exact NO|rewrite CN; exact (proj1 (subset_spec _ _) SB)]|].
    split; [exact N'|]. intros HF. exists crec. split; [intros c Hc; apply In_set_union; right; exact Hc|]. split; [rewrite <- CN; exact IC|apply CV, HF].
  - cu_unary IHp. set (crec := set_union (rec_of (st_nodes st) id) u) in *.
    assert (incl crec (cn id)) as IC by (intros c Hc; apply In_set_union in Hc; destruct Hc as [Hc|Hc]; [apply NO, Hc|rewrite CN; apply (proj1 (subset_spec _ _) SB), Hc]).
    destruct (IHp _ _ _ _ H IO) as [N' CV]; [cbn [st_nodes]; apply nodes_ok_set; [exact NO|rewrite CN; exact (proj1 (subset_spec _ _) SB)]|].
    split; [exact N'|]. intros HF. exists crec. split; [intros c Hc; apply In_set_union; right; exact Hc|]. split; [rewrite <- CN; exact IC|apply CV, HF].
  - cu_unary IHp. set (crec := set_union (rec_of (st_nodes st) id) u) in *.
    assert (incl crec (cn id)) as IC by (intros c Hc; apply In_set_union in Hc; destruct Hc as [Hc|Hc]; [apply NO, Hc|rewrite CN; apply (proj1 (subset_spec _ _) SB), Hc]).
    destruct (IHp _ _ _ _ H IO) as [N' CV]; [cbn [st_nodes]; apply nodes_ok_set; [exact NO|rewrite CN; exact (proj1 (subset_spec _ _) SB)]|].
    split; [exact N'|]. intros HF. exists crec. split; [intros c Hc; apply In_set_union; right; exact Hc|]. split; [rewrite <- CN; exact IC|apply CV, HF].
  - cu_unary IHp. set (crec := set_union (rec_of (st_nodes st) id) u) in *.
    assert (incl crec (cn id)) as IC by (intros c Hc; apply In_set_union in Hc; destruct Hc as [Hc|Hc]; [apply NO, Hc|rewrite CN; apply (proj1 (subset_spec _ _) SB), Hc]).
    destruct (IHp _ _ _ _ H IO) as [N' CV]; [cbn [st_nodes]; apply nodes_ok_set; [exact NO|rewrite CN; exact (proj1 (subset_spec _ _) SB)]|].
    split; [exact N'|]. intros HF. exists crec. split; [intros c Hc; apply In_set_union; right; exact Hc|]. split; [rewrite <- CN; exact IC|apply CV, HF].
  - cu_unary IHp. set (crec := set_union (rec_of (st_nodes st) id) u) in *.
    assert (incl crec (cn id)) as IC by (intros c Hc; apply In_set_union in Hc; destruct Hc as [Hc|Hc]; [apply NO, Hc|rewrite CN; apply (proj1 (subset_spec _ _) SB), Hc]).
    destruct (IHp _ _ _ _ H IO) as [N' CV]; [cbn [st_nodes]; apply nodes_ok_set; [exact NO|rewrite CN; exact (proj1 (subset_spec _ _) SB)]|].
    split; [exact N'|]. intros HF. exists crec. split; [intros c Hc; apply In_set_union; right; exact Hc|]. split; [rewrite <- CN; exact IC|apply CV, HF].
  - cu_unary IHp. set (crec := set_union (rec_of (st_nodes st) id) u) in *.
    assert (incl crec (cn id)) as IC by (intros c Hc; apply In_set_union in Hc; destruct Hc as [Hc|Hc]; [apply NO, Hc|rewrite CN; apply (proj1 (subset_spec _ _) SB), Hc]).
    destruct (IHp _ _ _ _ H IO) as [N' CV]; [cbn [st_nodes]; apply nodes_ok_set; [exact NO|rewrite CN; exact (proj1 (subset_spec _ _) SB)]|].
    split; [exact N'|]. intros HF. exists crec. split; [intros c Hc; apply In_set_union; right; exact Hc|]. split; [rewrite <- CN; exact IC|apply CV, HF].
  - cu_unary IHp. set (crec := set_union (rec_of (st_nodes st) id) u) in *.
    assert (incl crec (cn id)) as IC by (intros c Hc; apply In_set_union in Hc; destruct Hc as [Hc|Hc]; [apply NO, Hc|rewrite CN; apply (proj1 (subset_spec _ _) SB), Hc]).
    destruct (IHp _ _ _ _ H IO) as [N' CV]; [cbn [st_nodes]; apply nodes_ok_set; [exact NO|rewrite CN; exact (proj1 (subset_spec _ _) SB)]|].
    split; [exact N'|]. intros HF. exists crec. split; [intros c Hc; apply In_set_union; right; exact Hc|]. split; [rewrite <- CN; exact IC|apply CV, HF].
  - cu_unary IHp. set (crec := set_union (rec_of (st_nodes st) id) u) in *.
    assert (incl crec (cn id)) as IC by (intros c Hc; apply In_set_union in Hc; destruct Hc as [Hc|Hc]; [apply NO, Hc|rewrite CN; apply (proj1 (subset_spec _ _) SB), Hc]).
    destruct (IHp _ _ _ _ H IO) as [N' CV]; [cbn [st_nodes]; apply nodes_ok_set; [exact NO|rewrite CN; exact (proj1 (subset_spec _ _) SB)]|].
    split; [exact N'|]. intros HF. exists crec. split; [intros c Hc; apply In_set_union; right; exact Hc|]. split; [rewrite <- CN; exact IC|apply CV, HF].
  - destruct (subset u _) eqn:SB; [|discriminate]. destruct IO as [CN IO]. destruct kids as [|ka [|kb [|? ?]]]; try discriminate; try contradiction.
    destruct IO as [IOa IOb]. set (crec := set_union (rec_of (st_nodes st) id) u) in *.
    assert (incl crec (cn id)) as IC by (intros c Hc; apply In_set_union in Hc; destruct Hc as [Hc|Hc]; [apply NO, Hc|rewrite CN; apply (proj1 (subset_spec _ _) SB), Hc]).
    destruct (cu_impl p1 ka _ _) as [st2|] eqn:E1; [|discriminate].
    destruct (IHp1 _ _ _ _ E1 IOa) as [N2 CVa]; [cbn [st_nodes]; apply nodes_ok_set; [exact NO|rewrite CN; exact (proj1 (subset_spec _ _) SB)]|].
    destruct (IHp2 _ _ _ _ H IOb N2) as [N' CVb]. split; [exact N'|]. intros HF.
    exists crec. split; [intros c Hc; apply In_set_union; right; exact Hc|]. split; [rewrite <- CN; exact IC|]. split; [|apply CVb, HF].
    apply CVa. intros n c I. apply HF. eapply cu_impl_mono; [exact H|exact I].
  - destruct (subset u _) eqn:SB; [|discriminate]. destruct IO as [CN IO]. destruct kids as [|ka [|kb [|? ?]]]; try discriminate; try contradiction.
    destruct IO as [IOa IOb]. set (crec := set_union (rec_of (st_nodes st) id) u) in *.
    assert (incl crec (cn id)) as IC by (intros c Hc; apply In_set_union in Hc; destruct Hc as [Hc|Hc]; [apply NO, Hc|rewrite CN; apply (proj1 (subset_spec _ _) SB), Hc]).
    destruct (cu_impl p1 ka _ _) as [st2|] eqn:E1; [|discriminate].
    destruct (IHp1 _ _ _ _ E1 IOa) as [N2 CVa]; [cbn [st_nodes]; apply nodes_ok_set; [exact NO|rewrite CN; exact (proj1 (subset_spec _ _) SB)]|].
    destruct (IHp2 _ _ _ _ H IOb N2) as [N' CVb]. split; [exact N'|]. intros HF.
    exists crec. split; [intros c Hc; apply In_set_union; right; exact Hc|]. split; [rewrite <- CN; exact IC|]. split; [|apply CVb, HF].
    apply CVa. intros n c I. apply HF. eapply cu_impl_mono; [exact H|exact I].
Qed.

Lemma columns_used_using_covers cn p i ou cu : columns_used_using p i ou = Some cu -> ids_ok cn p i ->
  covers (rec_of cu) p (match ou with Some u => u | None => column_names p end).
Proof.
  unfold columns_used_using. destruct (get_tables p) as [tb|]; [|discriminate].
  destruct (cu_impl p i _ _) as [st'|] eqn:E; [|discriminate]. cbn [option_map]. intros [= <-] IO.
  destruct (cu_impl_covers cn (rec_of (st_tabs st')) p _ _ _ _ E IO) as [_ CV]; [intros id c Hc; destruct Hc|].
  apply CV. intros n c I. exact I.
Qed.

Lemma columns_used_covers cn p i cu : columns_used p i = Some cu -> ids_ok cn p i -> covers (rec_of cu) p (column_names p).
Proof. intros H IO. exact (columns_used_using_covers cn p i None cu H IO). Qed.

Lemma ids_okb_ok cn p : forall i, ids_okb cn p i = true -> ids_ok cn p i.
Proof.
  induction p; intros [id kids] H; cbn [ids_okb] in H; cbn [ids_ok]; try exact I;
    try (apply andb_true_iff in H; destruct H as [H1 H2]; split; [apply eqb_true, H1|];
         destruct kids as [|k [|? ?]]; try discriminate; apply IHp, H2).
  - apply andb_true_iff in H; destruct H as [H1 H2]; split; [apply eqb_true, H1|].
    destruct kids as [|ka [|kb [|? ?]]]; try discriminate. apply andb_true_iff in H2. split; [apply IHp1|apply IHp2]; tauto.
  - apply andb_true_iff in H; destruct H as [H1 H2]; split; [apply eqb_true, H1|].
    destruct kids as [|ka [|kb [|? ?]]]; try discriminate. apply andb_true_iff in H2. split; [apply IHp1|apply IHp2]; tauto.
Qed.

(* ------------------------------------------------------------------ equal tables from agreement on every column *)
Lemma get_cons_other x t a q c : c <> x -> get (x :: t) (a :: q) c = get t q c.
Proof. intros N. unfold get. simpl. destruct (eq_dec c x); [congruence|]. destruct (index_of c t); reflexivity. Qed.

Lemma row_ext cs : NoDup cs -> forall r r', List.length r = List.length cs -> List.length r' = List.length cs ->
  (forall c, In c cs -> get cs r c = get cs r' c) -> r = r'.
Proof.
  induction 1 as [|x t Nx Nt IH]; intros [|a q] [|b q'] L L' H; simpl in *; try discriminate; [reflexivity|].
  f_equal.
  - specialize (H x (or_introl eq_refl)). unfold get in H. simpl in H. destruct (eq_dec x x); [exact H|congruence].
  - apply IH; [congruence|congruence|]. intros c Hc. assert (c <> x) as Ne by (intros ->; exact (Nx Hc)).
    specialize (H c (or_intror Hc)). rewrite !get_cons_other in H by exact Ne. exact H.
Qed.

Lemma agree_full_eq T T' : cols T = cols T' -> NoDup (cols T) -> width_ok T -> width_ok T' -> agree (cols T) T T' -> T = T'.
Proof.
  destruct T as [cs rs], T' as [cs' rs']. unfold width_ok, agree. cbn [cols rows]. intros <- N W W' [_ [_ C]]. f_equal.
  induction C as [|r r' l l' R _ IH]; [reflexivity|]. inversion W; inversion W'; subst. f_equal; [|apply IH; assumption].
  apply (row_ext cs N); assumption.
Qed.

Lemma filter_true {A} (l : list A) : filter (fun _ => true) l = l.
Proof. induction l as [|a t IH]; simpl; [|rewrite IH]; reflexivity. Qed.
Lemma narrow_all p : narrow (fun _ _ => true) p = p.
Proof. induction p; cbn [narrow]; rewrite ?filter_true, ?IHp, ?IHp1, ?IHp2; reflexivity. Qed.

(* FIRST SENTENCE of the property, for any report closed under the per-node requests *)
Theorem covers_sound fl (F : string -> list string) p e e' :
  builder_ok p = true -> covers F p (column_names p) -> env_agree F e e' -> sem_gen fl p e = sem_gen fl p e'.
Proof.
  intros OK CV EA.
  pose proof (covers_agree F (fun _ _ => true) (fun _ _ _ => eq_refl) fl e e' EA p (column_names p) OK CV) as H.
  rewrite narrow_all in H. destruct (sem_gen fl p e) as [T|] eqn:E1, (sem_gen fl p e') as [T'|] eqn:E2; cbn [out_agree] in H; try contradiction; [|reflexivity].
  f_equal. pose proof (sem_cols _ _ _ _ E1) as C1. pose proof (sem_cols _ _ _ _ E2) as C2.
  apply agree_full_eq; [congruence|rewrite C1; apply builder_ok_nodup, OK|exact (sem_rows_width _ _ _ _ E1)|exact (sem_rows_width _ _ _ _ E2)|].
  rewrite C1. exact H.
Qed.

(* ------------------------------------------------------------------ the narrowed rebuild on restricted inputs *)
(* the same relation: same column set, as many rows, row by row the same cell under every column name *)
Definition table_equiv (T T' : table) : Prop :=
  (forall c, In c (cols T) <-> In c (cols T')) /\
  Forall2 (fun r r' => forall c, get (cols T) r c = get (cols T') r' c) (rows T) (rows T').

Lemma agree_full_equiv T T' : agree (cols T) T T' -> table_equiv T T'.
Proof.
  intros [A [B C]]. split.
  - intros c. split; [intros I; apply B; assumption|apply A].
  - eapply F2_weaken; [exact C|]. intros r r' R c. apply (src_get (cols T) T T'); [exact A|exact R|tauto].
Qed.

Lemma dict_get_restrict_env cu e n : dict_get (restrict_env cu e) n = option_map (restrict_table (rec_of cu n)) (dict_get e n).
Proof.
  unfold restrict_env. induction e as [|[k t] rest IH]; simpl; [reflexivity|].
  destruct (eq_dec n k) as [->|Ne]; [reflexivity|exact IH].
Qed.

Lemma F2_map_right {A B} (R : A -> B -> Prop) (g : A -> B) l : (forall x, R x (g x)) -> Forall2 R l (map g l).
Proof. intros H. induction l; simpl; constructor; auto. Qed.

Lemma input_agree_restrict U t : input_agree U t (restrict_table U t).
Proof.
  unfold input_agree, restrict_table, sem_select_cols. cbn [cols rows]. apply F2_map_right. intros r c Hc.
  rewrite get_map_cols, mem_filter. assert (mem c U = true) as -> by (apply mem_In, Hc). simpl. symmetry. apply guard_get.
Qed.

Lemma env_agree_restrict cu e : env_agree (rec_of cu) e (restrict_env cu e).
Proof.
  intros n. rewrite dict_get_restrict_env. destruct (dict_get e n) as [t|]; cbn [option_map]; [|exact I]. apply input_agree_restrict.
Qed.

Definition out_equiv (o o' : option table) : Prop :=
  match o, o' with Some T, Some T' => table_equiv T T' /\ NoDup (cols T) | None, None => True | _, _ => False end.

(* SECOND SENTENCE, semantic part: in the reference semantics the narrowed pipeline on the restricted inputs computes
   the same table (columns possibly in another order), for any report closed under the per-node requests *)
Theorem covers_narrow_sound fl cu p e :
  builder_ok p = true -> covers (rec_of cu) p (column_names p) ->
  out_equiv (sem_gen fl p e) (sem_gen fl (narrow_to cu p) (restrict_env cu e)).
Proof.
  intros OK CV.
  assert (forall n c, In c (rec_of cu n) -> keep_of cu n c = true) as KR by (intros n c I; unfold keep_of; apply mem_In, I).
  pose proof (covers_agree (rec_of cu) (keep_of cu) KR fl e (restrict_env cu e) (env_agree_restrict cu e) p (column_names p) OK CV) as H.
  unfold narrow_to. destruct (sem_gen fl p e) as [T|] eqn:E1, (sem_gen fl (narrow (keep_of cu) p) (restrict_env cu e)) as [T'|] eqn:E2;
    cbn [out_agree] in H; try contradiction; cbn [out_equiv]; [|exact I].
  pose proof (sem_cols _ _ _ _ E1) as C1. split; [|rewrite C1; apply builder_ok_nodup, OK].
  apply agree_full_equiv. rewrite C1. exact H.
Qed.

(* SECOND SENTENCE as the property states it: IF the builders accept the narrowed rebuild, it computes the same table;
   both column lists are then duplicate free, so they are permutations of each other *)
Definition out_same (o o' : option table) : Prop :=
  match o, o' with Some T, Some T' => table_equiv T T' /\ Permutation (cols T) (cols T') | None, None => True | _, _ => False end.

Theorem covers_narrow_sound_guarded fl cu p e :
  builder_ok p = true -> covers (rec_of cu) p (column_names p) -> builder_ok (narrow_to cu p) = true ->
  out_same (sem_gen fl p e) (sem_gen fl (narrow_to cu p) (restrict_env cu e)).
Proof.
  intros OK CV OK'. pose proof (covers_narrow_sound fl cu p e OK CV) as H.
  destruct (sem_gen fl p e) as [T|] eqn:E1, (sem_gen fl (narrow_to cu p) (restrict_env cu e)) as [T'|] eqn:E2;
    cbn [out_equiv] in H; try contradiction; cbn [out_same]; [|exact I].
  destruct H as [[EQ R] N]. split; [split; assumption|].
  apply NoDup_Permutation; [exact N| |exact EQ].
  rewrite (sem_cols _ _ _ _ E2). apply builder_ok_nodup, OK'.
Qed.

(* ------------------------------------------------------------------ the statements of Props/C10.v *)
Lemma cu_sound fl p ids cn cu e e' :
  builder_ok p = true -> ids_ok cn p ids -> columns_used p ids = Some cu ->
  (forall name, match dict_get e name, dict_get e' name with
                | Some t, Some t' => input_agree (rec_of cu name) t t'
                | None, None => True
                | _, _ => False
                end) ->
  sem_gen fl p e = sem_gen fl p e'.
Proof. intros OK IO CU EA. exact (covers_sound fl (rec_of cu) p e e' OK (columns_used_covers cn p ids cu CU IO) EA). Qed.

Lemma cu_using_sound fl p ids cn u cu e e' :
  builder_ok p = true -> ids_ok cn p ids -> columns_used_using p ids (Some u) = Some cu ->
  env_agree (rec_of cu) e e' -> out_agree u (sem_gen fl p e) (sem_gen fl p e').
Proof.
  intros OK IO CU EA.
  pose proof (covers_agree (rec_of cu) (fun _ _ => true) (fun _ _ _ => eq_refl) fl e e' EA p u OK
                (columns_used_using_covers cn p ids (Some u) cu CU IO)) as H.
  rewrite narrow_all in H. exact H.
Qed.

Lemma cu_tree_sound fl p cu e e' :
  builder_ok p = true -> columns_used_tree p = Some cu -> env_agree (rec_of cu) e e' -> sem_gen fl p e = sem_gen fl p e'.
Proof. intros OK CU EA. exact (covers_sound fl (rec_of cu) p e e' OK (columns_used_tree_covers p cu CU) EA). Qed.

Lemma cu_narrow_meaning fl p ids cn cu e :
  builder_ok p = true -> ids_ok cn p ids -> columns_used p ids = Some cu ->
  out_equiv (sem_gen fl p e) (sem_gen fl (narrow_to cu p) (restrict_env cu e)).
Proof. intros OK IO CU. exact (covers_narrow_sound fl cu p e OK (columns_used_covers cn p ids cu CU IO)). Qed.

Lemma cu_narrow_sound fl p ids cn cu e :
  builder_ok p = true -> ids_ok cn p ids -> columns_used p ids = Some cu -> builder_ok (narrow_to cu p) = true ->
  out_same (sem_gen fl p e) (sem_gen fl (narrow_to cu p) (restrict_env cu e)).
Proof. intros OK IO CU OK'. exact (covers_narrow_sound_guarded fl cu p e OK (columns_used_covers cn p ids cu CU IO) OK'). Qed.

Local Open Scope string_scope.
Local Open Scope list_scope.
(* the witness of the rebuild defect: t[x,y,z].drop_columns([y]).extend({w: x + 1}).select_columns([w]) *)
Definition narrow_witness : op :=
  OSelectCols (OExtend (ODropCols (OTable "t" ["x"; "y"; "z"]) ["y"])
                       [("w", EOp "+" [ECol "x"; EConst (VNum 1)])] false (mkwin [] [] []))
              ["w"].
Definition narrow_witness_ids : idt := IdT 0 [IdT 1 [IdT 2 [IdT 3 []]]].
Lemma narrow_rebuild_refuted :
  exists (p : op) (ids : idt) (cu : list (string * list string)),
    builder_ok p = true /\ ids_ok (cn_of p ids) p ids /\ columns_used p ids = Some cu /\ cu = [("t", ["x"])] /\
    builder_ok (narrow_to cu p) = false.
Proof.
  exists narrow_witness, narrow_witness_ids, [("t", ["x"])].
  split; [vm_compute; reflexivity|]. split; [apply ids_okb_ok; vm_compute; reflexivity|].
  split; [vm_compute; reflexivity|]. split; [reflexivity|vm_compute; reflexivity].
Qed.
